(* C19 — deepening: "each unit once" is preserved by the path surgery under explicit path facts.
   Facts used (all decidable, all about the receiver s and the joined network n):
     good s, good n            `units` = units of the path at every level (preserved, ProofsSurgery.v)
     NoDup (flatn s), (flatn n) no unit twice before the step
     confinedb n s             at every level of s at most one sub-network shares units with n
                               (and recursively inside that sub-network)
     no_child_overlap n s      no sub-network of s (top level) shares units with n
   No change to Model.v: only new predicates and lemmas. *)
From Coq Require Import Permutation Relations.
From V Require Import C19.Model C19.Proofs C19.ProofsSurgery C19.ProofsPaths.
Local Open Scope nat_scope.

(* ---- lists *)
Lemma nodup_app_iff : forall (a b : list nat),
  NoDup (a ++ b) <-> NoDup a /\ NoDup b /\ (forall x, In x a -> ~ In x b).
Proof.
  induction a as [|x a IH]; intros b; cbn [app].
  - split; [intros H; repeat split; [constructor|exact H|intros x []]|intros (_ & H & _); exact H].
  - split.
    + intros H. inversion H; subst. apply IH in H3. destruct H3 as (A & B & C).
      rewrite in_app_iff in H2. repeat split; auto.
      * constructor; tauto.
      * intros y [E|Hy]; [subst; tauto|apply C; exact Hy].
    + intros (A & B & C). inversion A; subst. constructor.
      * rewrite in_app_iff. intros [H|H]; [contradiction|exact (C x (or_introl eq_refl) H)].
      * apply IH. repeat split; auto. intros y Hy. apply C. right. exact Hy.
Qed.

Lemma nodup3 : forall (a c b : list nat),
  NoDup (a ++ b) -> NoDup c -> (forall z, In z c -> ~ In z a /\ ~ In z b) -> NoDup (a ++ c ++ b).
Proof.
  intros a c b Hab Hc D. apply nodup_app_iff in Hab. destruct Hab as (Na & Nb & Dab).
  apply nodup_app_iff. split; [exact Na|]. split.
  - apply nodup_app_iff. split; [exact Hc|]. split; [exact Nb|]. intros z Hz. apply D. exact Hz.
  - intros z Hz. rewrite in_app_iff. intros [H|H]; [exact (proj1 (D z H) Hz)|exact (Dab z Hz H)].
Qed.

Lemma disjointb_true : forall a b, disjointb a b = true <-> forall x, In x a -> ~ In x b.
Proof.
  intros a b. unfold disjointb. rewrite forallb_forall. split.
  - intros H x Hx Hb. specialize (H x Hx). apply memb_In in Hb. rewrite Hb in H. discriminate.
  - intros H x Hx. destruct (memb x b) eqn:M; [|reflexivity]. apply memb_In in M. exfalso. exact (H x Hx M).
Qed.

(* ---- top-level units of a path *)
Definition tops (q : list net) : list nat :=
  flat_map (fun x => match x with NU u => [u] | NN _ _ _ => [] end) q.

Lemma in_tops : forall q z, In z (tops q) <-> In (NU z) q.
Proof.
  induction q as [|[v|p r U] t IH]; intros z; cbn [tops flat_map app In]; [tauto| |].
  - fold (tops t). rewrite IH. split; [intros [E|H]; [left; congruence|right; exact H]|].
    intros [E|H]; [left; congruence|right; exact H].
  - fold (tops t). rewrite IH. split; [intros H; right; exact H|intros [E|H]; [discriminate|exact H]].
Qed.

Lemma tops_sub : forall q z, In z (tops q) -> In z (flat_map flatn q).
Proof. intros q z H. apply in_tops in H. apply in_flat_of with (x := NU z); [exact H|left; reflexivity]. Qed.

Lemma tops_nodup : forall q, NoDup (flat_map flatn q) -> NoDup (tops q).
Proof.
  induction q as [|[v|p r U] t IH]; intros N; cbn [tops flat_map app] in *; [constructor| |].
  - fold (tops t). cbn [flatn app] in N. inversion N; subst. constructor; [|apply IH; assumption].
    intros H. apply H1. apply tops_sub. exact H.
  - fold (tops t). apply nodup_app_iff in N. apply IH. tauto.
Qed.

(* ---- list.remove(unit) and _remove_overlap keep paths duplicate-free and really remove *)
Lemma ru_in : forall u q y, In y (remove_unit u q) -> In y q.
Proof.
  intros u q y. induction q as [|[v|p r U] t IH]; cbn [remove_unit]; [auto| |].
  - destruct (v =? u); [intros H; right; exact H|intros [H|H]; [left; exact H|right; auto]].
  - intros [H|H]; [left; exact H|right; auto].
Qed.

Lemma ru_nodup : forall u q, NoDup (flat_map flatn q) -> NoDup (flat_map flatn (remove_unit u q)).
Proof.
  intros u q. induction q as [|[v|p r U] t IH]; intros N; cbn [remove_unit]; [exact N| |].
  - cbn [flat_map flatn app] in N. inversion N; subst. destruct (v =? u); [assumption|].
    cbn [flat_map flatn app]. constructor; [|apply IH; assumption]. intros H. apply H1. eapply ru_sub; eauto.
  - cbn [flat_map] in *. apply nodup_app_iff in N. destruct N as (A & B & C). apply nodup_app_iff.
    split; [exact A|]. split; [apply IH; exact B|]. intros z Hz H. apply (C z Hz). eapply ru_sub; eauto.
Qed.

Lemma ru_tops_nodup : forall u q, NoDup (tops q) -> NoDup (tops (remove_unit u q)).
Proof.
  intros u q. induction q as [|[v|p r U] t IH]; intros N; cbn [remove_unit]; [exact N| |].
  - cbn [tops flat_map app] in N. fold (tops t) in N. inversion N; subst. destruct (v =? u); [assumption|].
    cbn [tops flat_map app]. fold (tops (remove_unit u t)). constructor; [|apply IH; assumption].
    intros H. apply H1. apply in_tops. apply in_tops in H. eapply ru_in; eauto.
  - cbn [tops flat_map app] in *. fold (tops t) in N. fold (tops (remove_unit u t)). apply IH. exact N.
Qed.

Lemma ru_gone : forall u q, NoDup (tops q) -> ~ In (NU u) (remove_unit u q).
Proof.
  intros u q. induction q as [|[v|p r U] t IH]; intros N; cbn [remove_unit]; [intros []| |].
  - cbn [tops flat_map app] in N. fold (tops t) in N. inversion N; subst. destruct (v =? u) eqn:E.
    + apply Nat.eqb_eq in E. subst v. intros H. apply H1. apply in_tops. exact H.
    + intros [H|H]; [apply Nat.eqb_neq in E; congruence|exact (IH H2 H)].
  - cbn [tops flat_map app] in N. fold (tops t) in N. intros [H|H]; [discriminate|exact (IH N H)].
Qed.

Lemma ro_in : forall U pt q y, In y (remove_overlap q U pt) -> In y q.
Proof.
  intros U pt. unfold remove_overlap. induction pt as [|[u|p r V] t IH]; intros q y H; cbn [fold_left] in H; auto.
  destruct (memb u U); [|auto]. apply IH in H. eapply ru_in; eauto.
Qed.

Lemma ro_nodup : forall U pt q, NoDup (flat_map flatn q) -> NoDup (flat_map flatn (remove_overlap q U pt)).
Proof.
  intros U pt. unfold remove_overlap. induction pt as [|[u|p r V] t IH]; intros q N; cbn [fold_left]; auto.
  destruct (memb u U); [|auto]. apply IH. apply ru_nodup. exact N.
Qed.

Lemma ro_gone : forall U pt q, NoDup (tops q) ->
  forall z, In (NU z) (remove_overlap q U pt) -> In (NU z) pt -> memb z U = false.
Proof.
  intros U pt. unfold remove_overlap. induction pt as [|i t IH]; intros q N z H Hp; [destruct Hp|].
  cbn [fold_left] in H. destruct i as [u|p r V].
  - destruct (memb u U) eqn:M.
    + destruct Hp as [E|Hp].
      * inversion E; subst u. exfalso. apply (ru_gone z q N). eapply ro_in. exact H.
      * exact (IH _ (ru_tops_nodup u q N) z H Hp).
    + destruct Hp as [E|Hp]; [inversion E; subst; exact M|exact (IH _ N z H Hp)].
  - destruct Hp as [E|Hp]; [discriminate|exact (IH _ N z H Hp)].
Qed.

(* removal does not look inside sub-networks: it acts the same around any sub-network y *)
Lemma ru_split : forall u l2 l1, exists l1' l2',
  (forall y, is_net y = true -> remove_unit u (l1 ++ y :: l2) = l1' ++ y :: l2').
Proof.
  intros u l2. induction l1 as [|a l1 IH].
  - exists [], (remove_unit u l2). intros [v|p r U] N; [discriminate|reflexivity].
  - destruct IH as (l1' & l2' & IH). destruct a as [v|p r U].
    + destruct (v =? u) eqn:E.
      * exists l1, l2. intros y N. cbn [app remove_unit]. rewrite E. reflexivity.
      * exists (NU v :: l1'), l2'. intros y N. cbn [app remove_unit]. rewrite E, (IH y N). reflexivity.
    + exists (NN p r U :: l1'), l2'. intros y N. cbn [app remove_unit]. rewrite (IH y N). reflexivity.
Qed.

Lemma ro_split : forall U pt l1 l2, exists l1' l2',
  (forall y, is_net y = true -> remove_overlap (l1 ++ y :: l2) U pt = l1' ++ y :: l2').
Proof.
  intros U pt. unfold remove_overlap. induction pt as [|i t IH]; intros l1 l2.
  - exists l1, l2. reflexivity.
  - destruct i as [u|p r V]; cbn [fold_left].
    + destruct (memb u U); [|apply IH].
      destruct (ru_split u l2 l1) as (a & b & R). destruct (IH a b) as (a' & b' & R').
      exists a', b'. intros y N. rewrite (R y N). apply R'. exact N.
    + apply IH.
Qed.

Lemma mid_disjoint : forall (a b : list net) x z,
  NoDup (flat_map flatn (a ++ x :: b)) -> In z (flatn x) -> ~ In z (flat_map flatn (a ++ b)).
Proof.
  intros a b x z N Hz H. rewrite flat_map_app in N. cbn [flat_map] in N.
  apply nodup_app_iff in N. destruct N as (_ & Nb & D).
  apply nodup_app_iff in Nb. destruct Nb as (_ & _ & D2).
  rewrite in_flat_app in H. destruct H as [H|H].
  - apply (D z H). apply in_or_app. left. exact Hz.
  - exact (D2 z Hz H).
Qed.

Lemma nodup_drop_mid : forall (a b : list net) x,
  NoDup (flat_map flatn (a ++ x :: b)) -> NoDup (flat_map flatn a ++ flat_map flatn b).
Proof.
  intros a b x N. rewrite flat_map_app in N. cbn [flat_map] in N.
  apply nodup_app_iff in N. destruct N as (Na & Nb & D).
  apply nodup_app_iff in Nb. destruct Nb as (_ & Nb & _).
  apply nodup_app_iff. split; [exact Na|]. split; [exact Nb|].
  intros z Hz H. apply (D z Hz). apply in_or_app. right. exact H.
Qed.

(* ---- the core: a child x of the receiver is replaced by x' = (x joined with n), overlap removed *)
Lemma replace_nodup : forall l1 x l2 x' Un,
  Forall uok (l1 ++ x :: l2) -> NoDup (flat_map flatn (l1 ++ x :: l2)) -> is_net x = true ->
  is_net x' = true -> NoDup (flatn x') ->
  (forall z, In z (flatn x') -> In z (flatn x) \/ In z Un) ->
  (forall y, In y (l1 ++ l2) -> is_net y = true -> forall z, In z (flatn y) -> ~ In z Un) ->
  NoDup (flat_map flatn (remove_overlap (l1 ++ x' :: l2) Un (l1 ++ x :: l2))).
Proof.
  intros l1 x l2 x' Un Fp N Nx Nx' Ndx' Sx' Oth.
  destruct (ro_split Un (l1 ++ x :: l2) l1 l2) as (a & b & R).
  rewrite (R x' Nx').
  pose proof (R x Nx) as Rx.
  assert (NR : NoDup (flat_map flatn (a ++ x :: b))) by (rewrite <- Rx; apply ro_nodup; exact N).
  rewrite flat_map_app. cbn [flat_map].
  apply nodup3; [eapply nodup_drop_mid; exact NR|exact Ndx'|].
  assert (Key : forall z, In z (flatn x') -> ~ In z (flat_map flatn (a ++ b))).
  { intros z Hz H. destruct (Sx' z Hz) as [Hx|HU]; [exact (mid_disjoint a b x z NR Hx H)|].
    apply in_flat_map in H. destruct H as (y & Hy & Hzy).
    assert (HyR : In y (a ++ x :: b)) by (apply in_app_or in Hy; apply in_or_app; cbn [In]; tauto).
    assert (Hyp : In y (l1 ++ x :: l2)) by (rewrite <- Rx in HyR; eapply ro_in; exact HyR).
    destruct y as [v|py ry Uy].
    - (* a top-level unit that survived the removal is not in Un *)
      destruct Hzy as [E|[]]. subst v.
      assert (M : memb z Un = false).
      { apply (ro_gone Un (l1 ++ x :: l2) (l1 ++ x :: l2) (tops_nodup _ N) z); [rewrite Rx; exact HyR|exact Hyp]. }
      apply memb_In in HU. rewrite HU in M. discriminate.
    - (* another sub-network: disjoint from Un, or a second copy of x (then z would occur twice) *)
      apply in_app_or in Hyp. cbn [In] in Hyp.
      assert (Hcase : In (NN py ry Uy) (l1 ++ l2) \/ NN py ry Uy = x).
      { destruct Hyp as [H|[H|H]]; [left; apply in_or_app; tauto|right; congruence|left; apply in_or_app; tauto]. }
      destruct Hcase as [Hin|E].
      + exact (Oth _ Hin eq_refl z Hzy HU).
      + subst x. apply (mid_disjoint a b _ z NR Hzy). apply in_flat_of with (x := NN py ry Uy); assumption. }
  intros z Hz. specialize (Key z Hz). rewrite in_flat_app in Key. tauto.
Qed.

(* ---- the explicit path fact *)
Definition ovl (n x : net) : bool := is_net x && overlaps n x.

Fixpoint confinedb (n s : net) : bool :=
  match s with
  | NU _ => true
  | NN p _ _ =>
      (length (filter (ovl n) p) <=? 1)
      && forallb (fun x => if ovl n x then confinedb n x else true) p
  end.

Definition no_child_overlap (n s : net) : bool := forallb (fun x => negb (ovl n x)) (n_path s).

Lemma filter_len0 : forall (f : net -> bool) l, length (filter f l) = 0 -> forall y, In y l -> f y = false.
Proof.
  intros f l. induction l as [|a t IH]; intros H y Hy; [destruct Hy|]. cbn [filter] in H.
  destruct (f a) eqn:E; [discriminate|]. destruct Hy as [Hy|Hy]; [subst; exact E|auto].
Qed.

Lemma confined_others : forall n l1 x l2,
  length (filter (ovl n) (l1 ++ x :: l2)) <= 1 -> ovl n x = true ->
  forall y, In y (l1 ++ l2) -> ovl n y = false.
Proof.
  intros n l1 x l2 H Ox y Hy. rewrite filter_app in H. cbn [filter] in H. rewrite Ox in H.
  rewrite app_length in H. cbn [length] in H.
  apply in_app_or in Hy. destruct Hy as [Hy|Hy]; (eapply filter_len0; [|exact Hy]); lia.
Qed.

Lemma not_ovl_disjoint : forall n y, ovl n y = false -> is_net y = true -> uok y ->
  forall z, In z (flatn y) -> ~ In z (n_units n).
Proof.
  intros n y O Ny Uy z Hz HU. unfold ovl, overlaps in O. rewrite Ny in O. cbn in O.
  apply negb_false_iff in O. rewrite disjointb_true in O. apply (O z HU).
  apply (units_flat y Uy). exact Hz.
Qed.

Lemma al_go_ovl : forall n l p', al_go n l = Some p' ->
  exists l1 x l2, l = l1 ++ x :: l2 /\ p' = l1 ++ add_linear x n :: l2 /\ ovl n x = true.
Proof.
  intros n l. induction l as [|x t IH]; intros p' H; cbn [al_go] in H; [discriminate|].
  destruct (is_net x && overlaps n x) eqn:E.
  - inversion H; subst. exists [], x, t. auto.
  - fold (al_go n) in H. destruct (al_go n t) as [t'|] eqn:G; [|discriminate]. cbn in H. inversion H; subst.
    destruct (IH _ eq_refl) as (l1 & y & l2 & A & B & C). subst. exists (x :: l1), y, l2. auto.
Qed.

Lemma al_go_none : forall n l, al_go n l = None -> forall y, In y l -> ovl n y = false.
Proof.
  intros n l. induction l as [|x t IH]; intros H y Hy; [destruct Hy|]. cbn [al_go] in H.
  destruct (is_net x && overlaps n x) eqn:E; [discriminate|]. fold (al_go n) in H.
  destruct (al_go n t) eqn:G; [discriminate|]. destruct Hy as [Hy|Hy]; [subst; exact E|auto].
Qed.

(* ---- case without an overlapping sub-network: the joined path is spliced into the cleaned path *)
Lemma clean_disjoint : forall p Un, NoDup (flat_map flatn p) ->
  (forall y, In y p -> is_net y = true -> forall z, In z (flatn y) -> ~ In z Un) ->
  forall z, In z (flat_map flatn (remove_overlap p Un p)) -> ~ In z Un.
Proof.
  intros p Un N Oth z H HU. apply in_flat_map in H. destruct H as (y & Hy & Hz).
  pose proof (ro_in _ _ _ _ Hy) as Hp. destruct y as [v|py ry Uy].
  - destruct Hz as [E|[]]. subst v.
    pose proof (ro_gone Un p p (tops_nodup _ N) z Hy Hp) as M.
    apply memb_In in HU. rewrite HU in M. discriminate.
  - exact (Oth _ Hp eq_refl z Hz HU).
Qed.

Lemma insert_nodup : forall i (q l : list net), NoDup (flat_map flatn l) -> NoDup (flat_map flatn q) ->
  (forall z, In z (flat_map flatn q) -> ~ In z (flat_map flatn l)) ->
  NoDup (flat_map flatn (insert_at i q l)).
Proof.
  intros i q l Nl Nq D. unfold insert_at. rewrite !flat_map_app.
  rewrite <- (firstn_skipn i l), flat_map_app in Nl.
  apply nodup3; [exact Nl|exact Nq|]. intros z Hz.
  assert (H : ~ In z (flat_map flatn l)) by (apply D; exact Hz).
  rewrite <- (firstn_skipn i l), in_flat_app in H. tauto.
Qed.

Lemma append_nodup : forall (q l : list net), NoDup (flat_map flatn l) -> NoDup (flat_map flatn q) ->
  (forall z, In z (flat_map flatn q) -> ~ In z (flat_map flatn l)) ->
  NoDup (flat_map flatn (l ++ q)).
Proof.
  intros q l Nl Nq D. rewrite flat_map_app. apply nodup_app_iff. split; [exact Nl|]. split; [exact Nq|].
  intros z Hz H. exact (D z H Hz).
Qed.

Lemma child_nodup : forall (p : list net) x, In x p -> NoDup (flat_map flatn p) -> NoDup (flatn x).
Proof.
  intros p x H N. apply in_split in H. destruct H as (a & b & E). subst p.
  rewrite flat_map_app in N. cbn [flat_map] in N.
  apply nodup_app_iff in N. destruct N as (_ & N & _). apply nodup_app_iff in N. tauto.
Qed.

Lemma flat_of_good : forall n, good n -> forall z, In z (flat_map flatn (n_path n)) <-> In z (n_units n).
Proof.
  intros [u|q r U] (N & O) z; [discriminate|]. apply uok_NN in O. destruct O as (S & _). cbn [n_path n_units].
  symmetry. apply S.
Qed.

Lemma flatn_path : forall n, is_net n = true -> flatn n = flat_map flatn (n_path n).
Proof. intros [u|q r U] N; [discriminate|reflexivity]. Qed.

(* splice n into a receiver none of whose sub-networks shares a unit with n *)
Lemma splice_ok : forall p r U n, Forall uok p -> NoDup (flat_map flatn p) -> good n -> NoDup (flatn n) ->
  (forall y, In y p -> ovl n y = false) ->
  (forall index, NoDup (flatn (insert_linear (NN (remove_overlap p (n_units n) p) r U) index n))) /\
  NoDup (flatn (append_linear (NN (remove_overlap p (n_units n) p) r U) n)).
Proof.
  intros p r U n Fp N Gn Nn Ov.
  assert (Oth : forall y, In y p -> is_net y = true -> forall z, In z (flatn y) -> ~ In z (n_units n)).
  { intros y Hy Ny. apply not_ovl_disjoint; [apply Ov; exact Hy|exact Ny|].
    rewrite Forall_forall in Fp. apply Fp. exact Hy. }
  pose proof (clean_disjoint p (n_units n) N Oth) as CD.
  assert (Nq : NoDup (flat_map flatn (n_path n))) by (rewrite <- flatn_path; [exact Nn|apply Gn]).
  assert (D : forall z, In z (flat_map flatn (n_path n)) ->
                        ~ In z (flat_map flatn (remove_overlap p (n_units n) p))).
  { intros z Hz H. apply (CD z H). apply (flat_of_good n Gn). exact Hz. }
  split.
  - intros index. unfold insert_linear. cbn [flatn n_path].
    apply insert_nodup; [apply ro_nodup; exact N|exact Nq|exact D].
  - unfold append_linear. cbn [flatn n_path]. apply append_nodup; [apply ro_nodup; exact N|exact Nq|exact D].
Qed.

(* ---- _add_linear_network keeps "each unit once" *)
Lemma add_linear_nodup : forall s n, good s -> good n -> NoDup (flatn s) -> NoDup (flatn n) ->
  confinedb n s = true -> NoDup (flatn (add_linear s n)).
Proof.
  intros s. induction s as [u|p r U IH] using net_ind'; intros n (Ns & Os) Gn Nds Ndn C; [exact Nds|].
  apply uok_NN in Os. destruct Os as (SU & Fp). cbn [flatn] in Nds.
  cbn [confinedb] in C. apply andb_true_iff in C. destruct C as (C1 & C2).
  apply Nat.leb_le in C1. rewrite forallb_forall in C2.
  rewrite add_linear_NN. destruct (al_go n p) as [p'|] eqn:G.
  - destruct (al_go_ovl _ _ _ G) as (l1 & x & l2 & A & B & Ox). subst p p'.
    assert (Hx : In x (l1 ++ x :: l2)) by (apply in_or_app; right; left; reflexivity).
    assert (Nx : is_net x = true) by (unfold ovl in Ox; apply andb_true_iff in Ox; tauto).
    assert (Gx : good x) by (split; [exact Nx|rewrite Forall_forall in Fp; apply Fp; exact Hx]).
    assert (Cx : confinedb n x = true) by (pose proof (C2 x Hx) as Q; rewrite Ox in Q; exact Q).
    assert (Ndx : NoDup (flatn x)) by (eapply child_nodup; eauto).
    rewrite Forall_forall in IH.
    pose proof (IH x Hx n Gx Gn Ndx Ndn Cx) as Ndx'.
    destruct (add_linear_ok x n Gx Gn) as (Gx' & Sx').
    cbn [flatn]. apply replace_nodup; auto.
    + apply Gx'.
    + intros z Hz. apply (units_flat _ (proj2 Gx')), Sx', in_app_or in Hz.
      destruct Hz as [Hz|Hz]; [left; apply (units_flat x (proj2 Gx)); exact Hz|right; exact Hz].
    + intros y Hy Ny. apply not_ovl_disjoint; [eapply confined_others; eauto|exact Ny|].
      rewrite Forall_forall in Fp. apply Fp. apply in_app_or in Hy. apply in_or_app. cbn [In]. tauto.
  - pose proof (al_go_none _ _ G) as Ov.
    destruct (splice_ok p r U n Fp Nds Gn Ndn Ov) as (SI & SA).
    destruct (find_index (unit_in (n_units n)) p); [apply SI|exact SA].
Qed.

(* ---- join_linear_network, receiver none of whose sub-networks shares a unit with n *)
Lemma disjointb_sym : forall a b, disjointb a b = true -> disjointb b a = true.
Proof.
  intros a b H. rewrite disjointb_true in *. intros x Hb Ha. exact (H x Ha Hb).
Qed.

Lemma jl_loop_shape : forall f n cur l index,
  (forall y, In y l -> ovl n y = false) ->
  jl_loop f n l index cur = append_linear cur n \/ exists i, jl_loop f n l index cur = insert_linear cur i n.
Proof.
  intros f n cur l. induction l as [|x t IH]; intros index Ov; [left; reflexivity|].
  assert (Ot : forall y, In y t -> ovl n y = false) by (intros y Hy; apply Ov; right; exact Hy).
  destruct x as [u|px rx Ux]; cbn [jl_loop].
  - destruct (memb u (n_units n)); [right; exists index; reflexivity|apply IH; exact Ot].
  - pose proof (Ov _ (or_introl eq_refl)) as O. unfold ovl, overlaps in O. cbn [is_net andb n_units] in O.
    apply negb_false_iff in O. rewrite (disjointb_sym _ _ O). cbn [negb]. apply IH. exact Ot.
Qed.

Lemma no_child_overlap_spec : forall n s, no_child_overlap n s = true -> forall y, In y (n_path s) -> ovl n y = false.
Proof.
  intros n s H y Hy. unfold no_child_overlap in H. rewrite forallb_forall in H.
  apply negb_true_iff. apply H. exact Hy.
Qed.

Lemma join_linear_nodup : forall f s n, good s -> good n -> NoDup (flatn s) -> NoDup (flatn n) ->
  no_child_overlap n s = true -> NoDup (flatn (join_linear (S f) s n)).
Proof.
  intros f s n (Ns & Os) Gn Nds Ndn NC. destruct s as [u|p r U]; [discriminate|].
  apply uok_NN in Os. destruct Os as (SU & Fp). cbn [flatn] in Nds.
  pose proof (no_child_overlap_spec _ _ NC) as Ov. cbn [n_path] in Ov.
  rewrite join_linear_S. cbn [n_path set_path n_rc n_units].
  destruct (splice_ok p r U n Fp Nds Gn Ndn Ov) as (SI & SA).
  change (set_path (NN p r U) (remove_overlap p (n_units n) p)) with (NN (remove_overlap p (n_units n) p) r U).
  destruct (jl_loop_shape f n (NN (remove_overlap p (n_units n) p) r U) p 0 Ov) as [E|(i & E)]; rewrite E; auto.
Qed.

(* ---- join_recycle_network on two networks without a common unit: the paths are concatenated *)
Lemma al_go_none_intro : forall n l, (forall y, In y l -> ovl n y = false) -> al_go n l = None.
Proof.
  intros n l. induction l as [|x t IH]; intros H; [reflexivity|]. cbn [al_go]. fold (al_go n).
  pose proof (H x (or_introl eq_refl)) as O. unfold ovl in O. rewrite O.
  rewrite IH; [reflexivity|]. intros y Hy. apply H. right. exact Hy.
Qed.

Lemma find_index_none : forall (g : net -> bool) l, (forall y, In y l -> g y = false) -> find_index g l = None.
Proof.
  intros g l. induction l as [|x t IH]; intros H; [reflexivity|]. cbn [find_index].
  rewrite (H x (or_introl eq_refl)), IH; [reflexivity|]. intros y Hy. apply H. right. exact Hy.
Qed.

Lemma update_first_none_intro : forall (g : net -> bool) h l, (forall y, In y l -> g y = false) ->
  update_first g h l = Some None.
Proof.
  intros g h l. induction l as [|x t IH]; intros H; [reflexivity|]. cbn [update_first].
  rewrite (H x (or_introl eq_refl)), IH; [reflexivity|]. intros y Hy. apply H. right. exact Hy.
Qed.

Lemma update_first_none_inv : forall (g : net -> bool) h l, update_first g h l = Some None ->
  forall y, In y l -> g y = false.
Proof.
  intros g h l. induction l as [|x t IH]; intros H y Hy; [destruct Hy|]. cbn [update_first] in H.
  destruct (g x) eqn:E; [destruct (h x); discriminate|].
  destruct (update_first g h t) as [[t'|]|]; try discriminate.
  destruct Hy as [Hy|Hy]; [subst; exact E|apply IH; auto].
Qed.

Lemma ru_id : forall u q, ~ In (NU u) q -> remove_unit u q = q.
Proof.
  intros u q. induction q as [|[v|p r U] t IH]; intros H; cbn [remove_unit]; [reflexivity| |].
  - destruct (v =? u) eqn:E; [apply Nat.eqb_eq in E; subst; exfalso; apply H; left; reflexivity|].
    rewrite IH; [reflexivity|]. intros Q. apply H. right. exact Q.
  - rewrite IH; [reflexivity|]. intros Q. apply H. right. exact Q.
Qed.

Lemma ro_id : forall U pt q, (forall v, In (NU v) pt -> memb v U = true -> ~ In (NU v) q) ->
  remove_overlap q U pt = q.
Proof.
  intros U pt. unfold remove_overlap. induction pt as [|[u|p r V] t IH]; intros q H; cbn [fold_left]; [reflexivity| |].
  - destruct (memb u U) eqn:M.
    + rewrite ru_id; [|apply H; [left; reflexivity|exact M]]. apply IH. intros v Hv. apply H. right. exact Hv.
    + apply IH. intros v Hv. apply H. right. exact Hv.
  - apply IH. intros v Hv. apply H. right. exact Hv.
Qed.

Definition disj_nets (a b : net) : Prop := forall z, In z (n_units b) -> ~ In z (n_units a).

Lemma add_linear_disjoint : forall p r U x, good (NN p r U) -> good x -> disj_nets (NN p r U) x ->
  add_linear (NN p r U) x = NN (p ++ n_path x) r (add_all U (n_units x)).
Proof.
  intros p r U x Gs Gx D. pose proof Gs as (_ & Os). apply uok_NN in Os. destruct Os as (SU & Fp).
  cbn [n_units] in D.
  assert (Top : forall v, In (NU v) p -> memb v (n_units x) = false).
  { intros v Hv. destruct (memb v (n_units x)) eqn:M; [|reflexivity]. apply memb_In in M. exfalso.
    apply (D v M). apply SU. apply in_flat_of with (x := NU v); [exact Hv|left; reflexivity]. }
  assert (Ov : forall y, In y p -> ovl x y = false).
  { intros y Hy. unfold ovl. destruct (is_net y) eqn:Ny; [|reflexivity]. cbn [andb]. unfold overlaps.
    apply negb_false_iff. apply disjointb_true. intros z Hz Hy'. apply (D z Hz). apply SU.
    apply in_flat_of with (x := y); [exact Hy|]. rewrite Forall_forall in Fp. apply (units_flat y (Fp y Hy)). exact Hy'. }
  rewrite add_linear_NN, (al_go_none_intro x p Ov).
  rewrite find_index_none.
  - unfold append_linear. cbn [n_path n_rc n_units]. rewrite ro_id; [reflexivity|].
    intros v Hv M. rewrite (Top v Hv) in M. discriminate.
  - intros y Hy. destruct y as [v|py ry Uy]; [cbn; apply Top; exact Hy|reflexivity].
Qed.

Section RecycleOnce.
Variables (es all : list edge) (tbl : list (list nat * nat)).
Notation join_recycle := (join_recycle es all tbl).
Notation insert_recycle := (insert_recycle es all tbl).

Lemma join_recycle_disjoint : forall f nc x r, good nc -> good x -> disj_nets nc x ->
  join_recycle f nc x = Some r ->
  exists rc', r = NN (n_path nc ++ n_path x) rc' (add_all (n_units nc) (n_units x)).
Proof.
  intros f nc x r Gc Gx D H. destruct f as [|f]; [discriminate|].
  rewrite join_recycle_S in H. cbv zeta in H.
  destruct nc as [u|p rc U]; [destruct Gc; discriminate|].
  assert (FF : add_linear (set_rc (NN p rc U) (add_all rc (n_rc x))) (set_rc x []) =
               NN (p ++ n_path x) (add_all rc (n_rc x)) (add_all U (n_units x))).
  { destruct (good_set_rc x [] Gx) as (Gx' & Ex'). destruct (good_set_rc (NN p rc U) (add_all rc (n_rc x)) Gc) as (Gc' & _).
    change (set_rc (NN p rc U) (add_all rc (n_rc x))) with (NN p (add_all rc (n_rc x)) U) in *.
    rewrite (add_linear_disjoint p (add_all rc (n_rc x)) U _ Gc' Gx').
    - rewrite Ex'. destruct x as [v|px rx Ux]; [destruct Gx; discriminate|]. reflexivity.
    - intros z Hz. rewrite Ex' in Hz. apply D. exact Hz. }
  cbn [n_rc n_path n_units] in *.
  destruct (rsink all tbl rc =? rsink all tbl (n_rc x)).
  { apply some_inj in H. subst r. rewrite FF. eexists. reflexivity. }
  rewrite update_first_none_intro in H.
  - destruct (negb (is_nil rc)).
    + apply some_inj in H. subst r. rewrite FF. eexists. reflexivity.
    + rewrite find_index_none in H; [discriminate|].
      pose proof Gc as (_ & Oc). apply uok_NN in Oc. destruct Oc as (SU & _).
      intros y Hy. destruct y as [v|py ry Uy]; [|reflexivity]. cbn [unit_in].
      destruct (memb v (n_units x)) eqn:M; [|reflexivity]. apply memb_In in M. exfalso.
      apply (D v M). cbn [n_units]. apply SU. apply in_flat_of with (x := NU v); [exact Hy|left; reflexivity].
  - pose proof Gc as (_ & Oc). apply uok_NN in Oc. destruct Oc as (SU & Fp).
    intros y Hy. destruct (is_net y) eqn:Ny; [|reflexivity]. cbn [andb]. unfold overlaps.
    apply negb_false_iff. apply disjointb_true. intros z Hz Hy'. apply (D z Hz). cbn [n_units]. apply SU.
    apply in_flat_of with (x := y); [exact Hy|]. rewrite Forall_forall in Fp. apply (units_flat y (Fp y Hy)). exact Hy'.
Qed.
End RecycleOnce.

(* ---- more facts about duplicate-free paths *)
Lemma unit_vs_net : forall (l : list net) z x, NoDup (flat_map flatn l) ->
  In (NU z) l -> In x l -> is_net x = true -> In z (flatn x) -> False.
Proof.
  intros l z x N Hu Hx Nx Hz. apply in_split in Hx. destruct Hx as (a & b & E). subst l.
  apply (mid_disjoint a b x z N Hz). apply in_flat_of with (x := NU z); [|left; reflexivity].
  apply in_app_or in Hu. apply in_or_app. cbn [In] in Hu.
  destruct Hu as [H|[H|H]]; [tauto|subst x; discriminate|tauto].
Qed.

Lemma two_children_disjoint : forall (l : list net) x y z, NoDup (flat_map flatn l) ->
  In x l -> In y l -> x <> y -> In z (flatn x) -> In z (flatn y) -> False.
Proof.
  intros l x y z N Hx Hy Ne Hzx Hzy. apply in_split in Hx. destruct Hx as (a & b & E). subst l.
  apply (mid_disjoint a b x z N Hzx). apply in_flat_of with (x := y); [|exact Hzy].
  apply in_app_or in Hy. apply in_or_app. cbn [In] in Hy. destruct Hy as [H|[H|H]]; [tauto|congruence|tauto].
Qed.

Lemma filter_nodup_flat : forall (g : net -> bool) l, NoDup (flat_map flatn l) -> NoDup (flat_map flatn (filter g l)).
Proof.
  intros g l. induction l as [|x t IH]; intros N; [exact N|]. cbn [flat_map] in N.
  apply nodup_app_iff in N. destruct N as (A & B & C). cbn [filter]. destruct (g x); [|apply IH; exact B].
  cbn [flat_map]. apply nodup_app_iff. split; [exact A|]. split; [apply IH; exact B|].
  intros z Hz H. apply (C z Hz). apply in_flat_map in H. destruct H as (y & Hy & Hzy).
  apply filter_In in Hy. apply in_flat_of with (x := y); tauto.
Qed.

Lemma removelast_nodup_flat : forall (l : list net), NoDup (flat_map flatn l) -> NoDup (flat_map flatn (removelast l)).
Proof.
  intros l N. destruct l as [|a t]; [exact N|].
  assert (NE : a :: t <> []) by discriminate.
  rewrite (app_removelast_last (NU 0) NE), flat_map_app in N. apply nodup_app_iff in N. tauto.
Qed.

Lemma pop_nodup_flat : forall seg, NoDup (flat_map flatn seg) -> NoDup (flat_map flatn (pop_if_closed seg)).
Proof.
  intros seg N. unfold pop_if_closed.
  destruct seg as [|[a|pa ra Ua] [|y t]]; auto.
  destruct (rev (NU a :: y :: t)) as [|[b|pb rb Ub] rt]; auto.
  destruct (a =? b); auto. apply removelast_nodup_flat. exact N.
Qed.

Lemma confined_of_none : forall n p r U, (forall y, In y p -> ovl n y = false) -> confinedb n (NN p r U) = true.
Proof.
  intros n p r U H. cbn [confinedb]. apply andb_true_iff. split.
  - apply Nat.leb_le. assert (E : filter (ovl n) p = []).
    { clear r U. induction p as [|x t IH]; [reflexivity|]. cbn [filter]. rewrite (H x (or_introl eq_refl)).
      apply IH. intros y Hy. apply H. right. exact Hy. }
    rewrite E. cbn. lia.
  - apply forallb_forall. intros x Hx. rewrite (H x Hx). reflexivity.
Qed.

Lemma ovl_set_rc : forall n r x, ovl (set_rc n r) x = ovl n x.
Proof. intros [u|p r0 U] r x; reflexivity. Qed.

Lemma confinedb_set_rc : forall n r s, confinedb (set_rc n r) s = confinedb n s.
Proof.
  intros n r s. induction s as [u|p r0 U IH] using net_ind'; [reflexivity|]. cbn [confinedb].
  assert (E1 : filter (ovl (set_rc n r)) p = filter (ovl n) p) by (apply filter_ext; intros x; apply ovl_set_rc).
  assert (E2 : forallb (fun x => if ovl (set_rc n r) x then confinedb (set_rc n r) x else true) p =
               forallb (fun x => if ovl n x then confinedb n x else true) p).
  { clear r0 U E1. induction IH as [|x t Hx Ht IHt]; [reflexivity|]. cbn [forallb]. rewrite ovl_set_rc, Hx, IHt. reflexivity. }
  rewrite E1, E2. reflexivity.
Qed.

Definition flatpath (n : net) : bool := forallb (fun x => negb (is_net x)) (n_path n).

Section RecycleOnce2.
Variables (es all : list edge) (tbl : list (list nat * nat)).
Notation join_recycle := (join_recycle es all tbl).
Notation insert_recycle := (insert_recycle es all tbl).

(* the merging loop of _insert_recycle_network: every merged sub-network is disjoint from what was
   collected so far, so the paths are concatenated *)
Lemma merge_fold_nodup : forall RU f (tail : list net) nc n1,
  good nc -> NoDup (flatn nc) -> Forall uok tail -> NoDup (flat_map flatn tail) ->
  (forall z x, In z (flatn nc) -> In x tail -> is_net x = true -> ~ In z (flatn x)) ->
  fold_left (fun acc x => obind acc (fun nc => if merged RU x then join_recycle f nc x else Some nc))
            tail (Some nc) = Some n1 ->
  NoDup (flatn n1) /\
  (forall z, In z (flatn n1) -> In z (flatn nc) \/ exists x, In x tail /\ merged RU x = true /\ In z (flatn x)) /\
  (forall y, In y (n_path n1) -> is_net y = true ->
             In y (n_path nc) \/ exists x, In x tail /\ merged RU x = true /\ In y (n_path x)).
Proof.
  intros RU f tail. induction tail as [|x t IH]; intros nc n1 Gc Nc Ft Nt D H.
  - cbn in H. apply some_inj in H. subst n1. split; [exact Nc|]. split; auto.
  - cbn [fold_left obind] in H. inversion Ft as [|x' t' Ux Ft']; subst.
    cbn [flat_map] in Nt. apply nodup_app_iff in Nt. destruct Nt as (Nx & Nt & Dxt).
    destruct (merged RU x) eqn:Mx.
    + destruct (join_recycle f nc x) as [nc'|] eqn:J; [|rewrite merge_fold_none in H; discriminate].
      assert (Netx : is_net x = true) by (unfold merged in Mx; apply andb_true_iff in Mx; tauto).
      assert (Gx : good x) by (split; assumption).
      assert (Dj : disj_nets nc x).
      { intros z Hz Hc. apply (D z x); [apply (units_flat nc (proj2 Gc)); exact Hc|left; reflexivity|exact Netx|].
        apply (units_flat x Ux). exact Hz. }
      destruct (join_recycle_disjoint es all tbl f nc x nc' Gc Gx Dj J) as (rc' & E).
      destruct (join_recycle_ok es all tbl f nc x nc' Gc Gx J) as (Gc' & _).
      assert (Fl : flatn nc' = flatn nc ++ flatn x).
      { subst nc'. cbn [flatn]. rewrite flat_map_app, <- !flatn_path; [reflexivity|exact Netx|apply Gc]. }
      assert (Nc' : NoDup (flatn nc')).
      { rewrite Fl. apply nodup_app_iff. split; [exact Nc|]. split; [exact Nx|].
        intros z Hz Hx. exact (D z x Hz (or_introl eq_refl) Netx Hx). }
      assert (D' : forall z y, In z (flatn nc') -> In y t -> is_net y = true -> ~ In z (flatn y)).
      { intros z y Hz Hy Ny Hzy. rewrite Fl in Hz. apply in_app_or in Hz. destruct Hz as [Hz|Hz].
        - exact (D z y Hz (or_intror Hy) Ny Hzy).
        - apply (Dxt z Hz). apply in_flat_of with (x := y); assumption. }
      destruct (IH nc' n1 Gc' Nc' Ft' Nt D' H) as (A & B & C). split; [exact A|]. split.
      * intros z Hz. destruct (B z Hz) as [Hc|(y & Hy & My & Hzy)].
        -- rewrite Fl in Hc. apply in_app_or in Hc. destruct Hc as [Hc|Hc]; [left; exact Hc|].
           right. exists x. split; [left; reflexivity|split; assumption].
        -- right. exists y. split; [right; exact Hy|split; assumption].
      * intros y Hy Ny. destruct (C y Hy Ny) as [Hc|(w & Hw & Mw & Hyw)].
        -- subst nc'. cbn [n_path] in Hc. apply in_app_or in Hc. destruct Hc as [Hc|Hc]; [left; exact Hc|].
           right. exists x. split; [left; reflexivity|split; assumption].
        -- right. exists w. split; [right; exact Hw|split; assumption].
    + assert (D' : forall z y, In z (flatn nc) -> In y t -> is_net y = true -> ~ In z (flatn y))
        by (intros z y Hz Hy; apply D; [exact Hz|right; exact Hy]).
      destruct (IH nc n1 Gc Nc Ft' Nt D' H) as (A & B & C). split; [exact A|]. split.
      * intros z Hz. destruct (B z Hz) as [Hc|(y & Hy & My & Hzy)]; [left; exact Hc|].
        right. exists y. split; [right; exact Hy|split; assumption].
      * intros y Hy Ny. destruct (C y Hy Ny) as [Hc|(w & Hw & Mw & Hyw)]; [left; exact Hc|].
        right. exists w. split; [right; exact Hw|split; assumption].
Qed.
End RecycleOnce2.

Section RecycleOnce3.
Variables (es all : list edge) (tbl : list (list nat * nat)).
Notation join_recycle := (join_recycle es all tbl).
Notation insert_recycle := (insert_recycle es all tbl).

Lemma flat_firstn_skipn : forall i (p : list net),
  flat_map flatn p = flat_map flatn (firstn i p) ++ flat_map flatn (skipn i p).
Proof. intros i p. rewrite <- flat_map_app, firstn_skipn. reflexivity. Qed.

(* ---- _insert_recycle_network keeps "each unit once" when the inserted loop is a flat path and
   no sub-network of the receiver shares a unit with it *)
Lemma insert_recycle_nodup : forall f s index n r,
  good s -> good n -> NoDup (flatn s) -> NoDup (flatn n) -> flatpath n = true ->
  no_child_overlap n s = true ->
  insert_recycle f s index n (n_path s) = Some r -> NoDup (flatn r).
Proof.
  intros f s index n r Gs Gn Nds Ndn Fl NC H. destruct f as [|f]; [discriminate|].
  rewrite insert_recycle_S in H. cbv zeta in H.
  destruct s as [u|p rs U]; [destruct Gs; discriminate|]. cbn [n_path n_rc n_units] in *.
  pose proof Gs as (_ & Os). apply uok_NN in Os. destruct Os as (SU & Fp). cbn [flatn] in Nds.
  pose proof (no_child_overlap_spec _ _ NC) as Ov. cbn [n_path] in Ov.
  set (RU := recycle_units es (n_units n)) in *.
  set (tail := skipn index p) in *.
  destruct (fold_left (fun acc x => obind acc (fun nc => if merged RU x then join_recycle f nc x else Some nc))
                      tail (Some n)) as [n1|] eqn:Fo; [|discriminate].
  cbn [obind] in H. apply some_inj in H. subst r.
  assert (Ttail : forall x, In x tail -> In x p).
  { intros x Hx. rewrite <- (firstn_skipn index p). apply in_or_app. right. exact Hx. }
  assert (Ftail : Forall uok tail).
  { apply Forall_forall. intros x Hx. rewrite Forall_forall in Fp. apply Fp, Ttail, Hx. }
  pose proof Nds as Nsplit. rewrite (flat_firstn_skipn index p) in Nsplit. fold tail in Nsplit.
  apply nodup_app_iff in Nsplit. destruct Nsplit as (Nfirst & Ntail & Dft).
  assert (ChildU : forall y, In y p -> is_net y = true -> forall z, In z (flatn y) -> ~ In z (n_units n)).
  { intros y Hy Ny. apply not_ovl_disjoint; [apply Ov; exact Hy|exact Ny|].
    rewrite Forall_forall in Fp. apply Fp. exact Hy. }
  assert (D0 : forall z x, In z (flatn n) -> In x tail -> is_net x = true -> ~ In z (flatn x)).
  { intros z x Hz Hx Nx Hzx. apply (ChildU x (Ttail x Hx) Nx z Hzx). apply (units_flat n (proj2 Gn)). exact Hz. }
  destruct (merge_fold_nodup es all tbl RU f tail n n1 Gn Ndn Ftail Ntail D0 Fo) as (Nd1 & Or1 & Ch1).
  assert (Gt : forall x, In x tail -> is_net x = true -> good x).
  { intros x Hx Nx. split; [exact Nx|]. rewrite Forall_forall in Ftail. apply Ftail, Hx. }
  destruct (merge_fold_ok es all tbl RU f (proj1 (recycle_spec es all tbl f)) tail n n1 Gn Gt Fo) as (G1 & _).
  set (seg := filter (unit_in RU) tail) in *.
  set (segU := add_all [] (flat_map flatn seg)) in *.
  assert (SegTop : forall z, In z segU -> In (NU z) tail).
  { intros z Hz. unfold segU in Hz. apply add_all_In in Hz. destruct Hz as [[]|Hz].
    apply in_flat_map in Hz. destruct Hz as (x & Hx & Hz). unfold seg in Hx. apply filter_In in Hx.
    destruct Hx as (Hx & Ux). destruct x as [v|px rx Ux']; [|discriminate]. destruct Hz as [E|[]]. subst v. exact Hx. }
  assert (Glin : good (NN (pop_if_closed seg) [] segU)).
  { split; [reflexivity|]. apply uok_NN. split; [|apply pop_Forall, filter_unit_Forall].
    intros z. rewrite (pop_flat seg z). unfold segU. rewrite add_all_In. cbn [In]. tauto. }
  assert (Nlin : NoDup (flatn (NN (pop_if_closed seg) [] segU))).
  { cbn [flatn]. apply pop_nodup_flat. unfold seg. apply filter_nodup_flat. exact Ntail. }
  assert (NetCh1 : forall y, In y (n_path n1) -> is_net y = true ->
                     exists x, In x tail /\ merged RU x = true /\ In y (n_path x)).
  { intros y Hy Ny. destruct (Ch1 y Hy Ny) as [Hn|Hx]; [|exact Hx].
    unfold flatpath in Fl. rewrite forallb_forall in Fl. specialize (Fl y Hn). rewrite Ny in Fl. discriminate. }
  assert (Conf : confinedb (NN (pop_if_closed seg) [] segU) n1 = true).
  { destruct n1 as [v|p1' r1 U1]; [reflexivity|]. apply confined_of_none. intros y Hy.
    unfold ovl. destruct (is_net y) eqn:Ny; [|reflexivity]. cbn [andb]. unfold overlaps. cbn [n_units].
    apply negb_false_iff. apply disjointb_true. intros z Hz Hzy.
    destruct (NetCh1 y Hy Ny) as (x & Hx & Mx & Hyx).
    assert (Nx : is_net x = true) by (unfold merged in Mx; apply andb_true_iff in Mx; tauto).
    assert (Uy : uok y).
    { pose proof G1 as (_ & O1). apply uok_NN in O1. destruct O1 as (_ & F1). rewrite Forall_forall in F1. apply F1. exact Hy. }
    apply (unit_vs_net tail z x Ntail (SegTop z Hz) Hx Nx).
    rewrite (flatn_path x Nx). apply in_flat_of with (x := y); [exact Hyx|]. apply (units_flat y Uy). exact Hzy. }
  set (n2 := if negb (subsetb segU (n_units n1))
             then add_linear n1 (NN (pop_if_closed seg) [] segU) else n1) in *.
  assert (P2 : good n2 /\ NoDup (flatn n2) /\ (forall z, In z (n_units n2) -> In z (n_units n1) \/ In z segU)).
  { unfold n2. destruct (negb (subsetb segU (n_units n1))).
    - destruct (add_linear_ok _ _ G1 Glin) as (A & B). cbn [n_units] in B. split; [exact A|]. split.
      + apply add_linear_nodup; assumption.
      + intros z Hz. apply B, in_app_or in Hz. exact Hz.
    - split; [exact G1|]. split; [exact Nd1|]. auto. }
  destruct P2 as (G2 & Nd2 & U2).
  set (p1 := firstn index p ++ filter (fun x => negb (merged RU x)) tail) in *.
  assert (P1sub : forall x, In x p1 -> In x p) by (intros x Hx; eapply sub_firstn_filter; exact Hx).
  assert (Np1 : NoDup (flat_map flatn p1)).
  { unfold p1. rewrite flat_map_app. apply nodup_app_iff. split; [exact Nfirst|].
    split; [apply filter_nodup_flat; exact Ntail|].
    intros z Hz H. apply (Dft z Hz). apply in_flat_map in H. destruct H as (y & Hy & Hzy).
    apply filter_In in Hy. apply in_flat_of with (x := y); tauto. }
  cbn [flatn]. apply insert_nodup; [apply ro_nodup; exact Np1|cbn [flat_map]; rewrite app_nil_r; exact Nd2|].
  cbn [flat_map]. rewrite app_nil_r. intros z Hz H.
  apply in_flat_map in H. destruct H as (y & Hy & Hzy).
  pose proof (ro_in _ _ _ _ Hy) as Hy1. pose proof (P1sub y Hy1) as Hyp.
  assert (HzU : In z (n_units n2)) by (apply (units_flat n2 (proj2 G2)); exact Hz).
  destruct y as [v|py ry Uy].
  - destruct Hzy as [E|[]]. subst v.
    pose proof (ro_gone (n_units n2) p p1 (tops_nodup _ Np1) z Hy Hyp) as M.
    apply memb_In in HzU. rewrite HzU in M. discriminate.
  - destruct (U2 z HzU) as [H1|HS].
    + apply (units_flat n1 (proj2 G1)) in H1. destruct (Or1 z H1) as [Hn|(x & Hx & Mx & Hzx)].
      * apply (ChildU _ Hyp eq_refl z Hzy). apply (units_flat n (proj2 Gn)). exact Hn.
      * unfold p1 in Hy1. apply in_app_or in Hy1. destruct Hy1 as [Hf|Hk].
        -- apply (Dft z); [apply in_flat_of with (x := NN py ry Uy); assumption|apply in_flat_of with (x := x); assumption].
        -- apply filter_In in Hk. destruct Hk as (Hk & Mk).
           assert (Ne : x <> NN py ry Uy) by (intros E; subst x; rewrite Mx in Mk; discriminate).
           exact (two_children_disjoint tail x _ z Ntail Hx Hk Ne Hzx Hzy).
    + exact (unit_vs_net p z _ Nds (Ttail _ (SegTop z HS)) Hyp eq_refl Hzy).
Qed.

(* ---- join_recycle_network keeps "each unit once" *)
Lemma join_recycle_nodup : forall f s n r,
  good s -> good n -> NoDup (flatn s) -> NoDup (flatn n) -> flatpath n = true -> confinedb n s = true ->
  join_recycle f s n = Some r -> NoDup (flatn r).
Proof.
  induction f as [|f IH]; intros s n r Gs Gn Nds Ndn Fl C H; [discriminate|].
  rewrite join_recycle_S in H. cbv zeta in H.
  assert (FF : NoDup (flatn (add_linear (set_rc s (add_all (n_rc s) (n_rc n))) (set_rc n [])))).
  { destruct (good_set_rc s (add_all (n_rc s) (n_rc n)) Gs) as (G1 & _).
    destruct (good_set_rc n [] Gn) as (G2 & _).
    apply add_linear_nodup; auto.
    - destruct s as [u|p rs U]; [destruct Gs; discriminate|exact Nds].
    - destruct n as [u|q rn Un]; [destruct Gn; discriminate|exact Ndn].
    - rewrite confinedb_set_rc. destruct s as [u|p rs U]; [destruct Gs; discriminate|exact C]. }
  destruct (rsink all tbl (n_rc s) =? rsink all tbl (n_rc n)).
  { apply some_inj in H. subst r. exact FF. }
  destruct s as [u|p rs U]; [destruct Gs; discriminate|]. cbn [n_path n_rc n_units] in H.
  pose proof Gs as (_ & Os). apply uok_NN in Os. destruct Os as (SU & Fp). cbn [flatn] in Nds.
  cbn [confinedb] in C. apply andb_true_iff in C. destruct C as (C1 & C2).
  apply Nat.leb_le in C1. rewrite forallb_forall in C2.
  destruct (update_first (fun x => is_net x && overlaps n x) (fun x => join_recycle f x n) p)
    as [[p'|]|] eqn:Up; [| |discriminate].
  - apply some_inj in H. subst r. destruct (update_first_spec _ _ _ _ Up) as (l1 & x & l2 & y & A & B & Ox & J).
    subst p p'. change (is_net x && overlaps n x) with (ovl n x) in Ox.
    assert (Hx : In x (l1 ++ x :: l2)) by (apply in_or_app; right; left; reflexivity).
    assert (Nx : is_net x = true) by (unfold ovl in Ox; apply andb_true_iff in Ox; tauto).
    assert (Gx : good x) by (split; [exact Nx|rewrite Forall_forall in Fp; apply Fp; exact Hx]).
    assert (Cx : confinedb n x = true) by (pose proof (C2 x Hx) as Q; rewrite Ox in Q; exact Q).
    assert (Ndx : NoDup (flatn x)) by (eapply child_nodup; eauto).
    pose proof (IH x n y Gx Gn Ndx Ndn Fl Cx J) as Ndy.
    destruct (join_recycle_ok es all tbl f x n y Gx Gn J) as (Gy & Sy).
    cbn [flatn]. apply replace_nodup; auto.
    + apply Gy.
    + intros z Hz. apply (units_flat _ (proj2 Gy)), Sy, in_app_or in Hz.
      destruct Hz as [Hz|Hz]; [left; apply (units_flat x (proj2 Gx)); exact Hz|right; exact Hz].
    + intros w Hw Nw. apply not_ovl_disjoint; [eapply confined_others; eauto|exact Nw|].
      rewrite Forall_forall in Fp. apply Fp. apply in_app_or in Hw. apply in_or_app. cbn [In]. tauto.
  - destruct (negb (is_nil rs)).
    { apply some_inj in H. subst r. exact FF. }
    destruct (find_index (unit_in (n_units n)) p) as [index|]; [|discriminate].
    apply (insert_recycle_nodup f (NN p rs U) index n r Gs Gn Nds Ndn Fl); [|exact H].
    unfold no_child_overlap. cbn [n_path]. apply forallb_forall. intros w Hw. apply negb_true_iff.
    exact (update_first_none_inv _ _ _ Up w Hw).
Qed.
End RecycleOnce3.

(* ================================================================== topological order under splicing
   _append_network (acyclic: _append_linear_network) and join_network_at_unit (acyclic:
   _insert_linear_network at the position of the connecting unit) splice the path of another feed's
   network into the receiver.  [before l u v]: u occurs at an earlier position than v. *)
Definition before (l : list nat) (u v : nat) : Prop :=
  exists i j, nth_error l i = Some u /\ nth_error l j = Some v /\ i < j.

(* every stream between two units of the path runs forward *)
Definition fwd (es : list edge) (l : list nat) : Prop :=
  forall s u v, In (s, u, v) es -> In u l -> In v l -> before l u v.

Lemma nth_error_insert : forall (a c b : list nat) i x, nth_error (a ++ b) i = Some x ->
  nth_error (a ++ c ++ b) (if i <? length a then i else i + length c) = Some x.
Proof.
  intros a c b i x H. destruct (i <? length a) eqn:E.
  - apply Nat.ltb_lt in E. rewrite nth_error_app1 in * by exact E. exact H.
  - apply Nat.ltb_ge in E. rewrite nth_error_app2 in H by exact E.
    rewrite nth_error_app2 by lia. rewrite nth_error_app2 by lia.
    replace (i + length c - length a - length c) with (i - length a) by lia. exact H.
Qed.

Lemma before_insert : forall a c b u v, before (a ++ b) u v -> before (a ++ c ++ b) u v.
Proof.
  intros a c b u v (i & j & Hi & Hj & L).
  exists (if i <? length a then i else i + length c), (if j <? length a then j else j + length c).
  split; [apply nth_error_insert; exact Hi|]. split; [apply nth_error_insert; exact Hj|].
  destruct (Nat.ltb_spec i (length a)) as [Ei|Ei]; destruct (Nat.ltb_spec j (length a)) as [Ej|Ej]; lia.
Qed.

Lemma before_mid : forall a c b u v, before c u v -> before (a ++ c ++ b) u v.
Proof.
  intros a c b u v (i & j & Hi & Hj & L). exists (length a + i), (length a + j).
  assert (Li : i < length c) by (apply nth_error_Some; congruence).
  assert (Lj : j < length c) by (apply nth_error_Some; congruence).
  repeat split; [| |lia].
  - rewrite nth_error_app2 by lia. replace (length a + i - length a) with i by lia. rewrite nth_error_app1; assumption.
  - rewrite nth_error_app2 by lia. replace (length a + j - length a) with j by lia. rewrite nth_error_app1; assumption.
Qed.

Lemma before_cross : forall (a b : list nat) u v, In u a -> In v b -> before (a ++ b) u v.
Proof.
  intros a b u v Hu Hv. apply In_nth_error in Hu. apply In_nth_error in Hv.
  destruct Hu as (i & Hi). destruct Hv as (j & Hj).
  assert (Li : i < length a) by (apply nth_error_Some; congruence).
  exists i, (length a + j). repeat split; [rewrite nth_error_app1; assumption| |lia].
  rewrite nth_error_app2 by lia. replace (length a + j - length a) with j by lia. exact Hj.
Qed.

Lemma before_app_l : forall (a b : list nat) u v, before a u v -> before (a ++ b) u v.
Proof.
  intros a b u v (i & j & Hi & Hj & L). exists i, j.
  assert (Li : i < length a) by (apply nth_error_Some; congruence).
  assert (Lj : j < length a) by (apply nth_error_Some; congruence).
  repeat split; [rewrite nth_error_app1; assumption|rewrite nth_error_app1; assumption|exact L].
Qed.

Lemma before_app_r : forall (a b : list nat) u v, before b u v -> before (a ++ b) u v.
Proof.
  intros a b u v H. pose proof (before_mid a b [] u v H) as Q. rewrite app_nil_r in Q. exact Q.
Qed.

(* splicing c between a and b keeps every stream forward if no stream goes from b into c
   nor from c into a *)
Lemma splice_forward : forall es (a c b : list nat),
  fwd es (a ++ b) -> fwd es c ->
  (forall s u v, In (s, u, v) es -> In u b -> In v c -> False) ->
  (forall s u v, In (s, u, v) es -> In u c -> In v a -> False) ->
  fwd es (a ++ c ++ b).
Proof.
  intros es a c b Fab Fc Hbc Hca s u v E Hu Hv.
  rewrite !in_app_iff in Hu, Hv.
  assert (AB : In u (a ++ b) -> In v (a ++ b) -> before (a ++ c ++ b) u v).
  { intros H1 H2. apply before_insert. exact (Fab s u v E H1 H2). }
  destruct Hu as [Hu|[Hu|Hu]]; destruct Hv as [Hv|[Hv|Hv]].
  - apply AB; apply in_or_app; tauto.
  - apply before_cross; [exact Hu|apply in_or_app; left; exact Hv].
  - apply AB; apply in_or_app; tauto.
  - exfalso. exact (Hca s u v E Hu Hv).
  - apply before_mid. exact (Fc s u v E Hu Hv).
  - rewrite app_assoc. apply before_cross; [apply in_or_app; right; exact Hu|exact Hv].
  - apply AB; apply in_or_app; tauto.
  - exfalso. exact (Hbc s u v E Hu Hv).
  - apply AB; apply in_or_app; tauto.
Qed.

Lemma flatn_insert_linear : forall p r U index n, is_net n = true ->
  flatn (insert_linear (NN p r U) index n) =
  flat_map flatn (firstn index p) ++ flatn n ++ flat_map flatn (skipn index p).
Proof.
  intros p r U index n N. unfold insert_linear, insert_at. cbn [flatn n_path].
  rewrite !flat_map_app, <- (flatn_path n N). reflexivity.
Qed.

(* _insert_linear_network(index, network) keeps topological order: the streams from the spliced
   network go only to units at or after `index`, and none comes back from there *)
Lemma insert_linear_forward : forall es p r U index n, is_net n = true ->
  fwd es (flatn (NN p r U)) -> fwd es (flatn n) ->
  (forall s u v, In (s, u, v) es -> In u (flat_map flatn (skipn index p)) -> In v (flatn n) -> False) ->
  (forall s u v, In (s, u, v) es -> In u (flatn n) -> In v (flat_map flatn (firstn index p)) -> False) ->
  fwd es (flatn (insert_linear (NN p r U) index n)).
Proof.
  intros es p r U index n N Fs Fn H1 H2. rewrite flatn_insert_linear by exact N.
  apply splice_forward; auto. cbn [flatn] in Fs. rewrite <- flat_map_app, firstn_skipn. exact Fs.
Qed.

(* _append_linear_network keeps topological order when no stream goes from the appended network
   back into the receiver *)
Lemma append_linear_forward : forall es p r U n, is_net n = true ->
  fwd es (flatn (NN p r U)) -> fwd es (flatn n) ->
  (forall s u v, In (s, u, v) es -> In u (flatn n) -> In v (flat_map flatn p) -> False) ->
  fwd es (flatn (append_linear (NN p r U) n)).
Proof.
  intros es p r U n N Fs Fn H. unfold append_linear. cbn [flatn n_path].
  rewrite flat_map_app, <- (flatn_path n N).
  pose proof (splice_forward es (flat_map flatn p) (flatn n) [] ) as Q. rewrite !app_nil_r in Q.
  apply Q; auto; intros s u v _ [].
Qed.

(* ================================================================== from the walked paths to networks
   Network(path) / Network(path, recycle) of a list of units, as from_feedstock builds them from
   the fragments and loops returned by find_linear_and_cyclic_paths_with_recycle. *)
Definition unet (p : list nat) (rc : list nat) : net := NN (map NU p) rc p.

Lemma flat_map_NU : forall p, flat_map flatn (map NU p) = p.
Proof. induction p as [|x t IH]; [reflexivity|]. cbn. rewrite IH. reflexivity. Qed.

Lemma unet_good : forall p rc, good (unet p rc).
Proof.
  intros p rc. split; [reflexivity|]. apply uok_NN. split.
  - intros z. rewrite flat_map_NU. reflexivity.
  - apply Forall_forall. intros x Hx. apply in_map_iff in Hx. destruct Hx as (u & E & _). subst x. exact I.
Qed.

Lemma unet_flat : forall p rc, flatn (unet p rc) = p.
Proof. intros p rc. cbn [unet flatn]. apply flat_map_NU. Qed.

Lemma unet_flatpath : forall p rc, flatpath (unet p rc) = true.
Proof.
  intros p rc. unfold flatpath, unet. cbn [n_path]. apply forallb_forall. intros x Hx.
  apply in_map_iff in Hx. destruct Hx as (u & E & _). subst x. reflexivity.
Qed.

Lemma flatpath_no_overlap : forall n s, flatpath s = true -> no_child_overlap n s = true.
Proof.
  intros n s H. unfold flatpath in H. unfold no_child_overlap. rewrite forallb_forall in *.
  intros x Hx. specialize (H x Hx). unfold ovl. destruct (is_net x); [discriminate|reflexivity].
Qed.

Lemma ro_units_only : forall U pt q, (forall x, In x q -> is_net x = false) ->
  forall x, In x (remove_overlap q U pt) -> is_net x = false.
Proof. intros U pt q H x Hx. apply H. eapply ro_in. exact Hx. Qed.

Lemma firstn_in : forall (i : nat) (l : list net) x, In x (firstn i l) -> In x l.
Proof. intros i l x H. rewrite <- (firstn_skipn i l). apply in_or_app. left. exact H. Qed.
Lemma skipn_in : forall (i : nat) (l : list net) x, In x (skipn i l) -> In x l.
Proof. intros i l x H. rewrite <- (firstn_skipn i l). apply in_or_app. right. exact H. Qed.

Lemma join_linear_flatpath : forall f s n, is_net s = true -> flatpath s = true -> flatpath n = true ->
  flatpath (join_linear (S f) s n) = true.
Proof.
  intros f s n Ns Fs Fn. destruct s as [u|p r U]; [discriminate|].
  unfold flatpath in *. cbn [n_path] in Fs. rewrite forallb_forall in Fs, Fn.
  assert (Fs' : forall x, In x p -> is_net x = false) by (intros x Hx; apply negb_true_iff; apply Fs; exact Hx).
  assert (Fn' : forall x, In x (n_path n) -> is_net x = false) by (intros x Hx; apply negb_true_iff; apply Fn; exact Hx).
  assert (Ov : forall y, In y p -> ovl n y = false) by (intros y Hy; unfold ovl; rewrite (Fs' y Hy); reflexivity).
  rewrite join_linear_S. cbn [n_path set_path n_rc n_units].
  change (set_path (NN p r U) (remove_overlap p (n_units n) p)) with (NN (remove_overlap p (n_units n) p) r U).
  pose proof (ro_units_only (n_units n) p p Fs') as R.
  destruct (jl_loop_shape f n (NN (remove_overlap p (n_units n) p) r U) p 0 Ov) as [E|(i & E)]; rewrite E;
    apply forallb_forall; intros x Hx; apply negb_true_iff.
  - unfold append_linear in Hx. cbn [n_path] in Hx. apply in_app_or in Hx. destruct Hx; auto.
  - unfold insert_linear, insert_at in Hx. cbn [n_path] in Hx.
    apply in_app_or in Hx. destruct Hx as [Hx|Hx]; [apply R; apply (firstn_in _ _ _ Hx)|].
    apply in_app_or in Hx. destruct Hx as [Hx|Hx]; [auto|apply R; apply (skipn_in _ _ _ Hx)].
Qed.

(* the linear phase of from_feedstock:
     network, *linear_networks = [Network(i) for i in linear_paths]
     for linear_network in linear_networks: network.join_linear_network(linear_network)
   (Network([]) when there is no fragment) *)
Definition linear_phase (f : nat) (frags : list (list nat)) : net :=
  match frags with
  | [] => unet [] []
  | p :: rest => fold_left (fun s fr => join_linear (S f) s (unet fr [])) rest (unet p [])
  end.

Lemma linear_fold_ok : forall f rest s,
  good s -> flatpath s = true -> NoDup (flatn s) -> Forall (@NoDup nat) rest ->
  let r := fold_left (fun s fr => join_linear (S f) s (unet fr [])) rest s in
  good r /\ flatpath r = true /\ NoDup (flatn r) /\
  (forall u, In u (flatn r) <-> In u (flatn s) \/ In u (concat rest)).
Proof.
  intros f rest. induction rest as [|fr t IH]; intros s Gs Fs Ns Fr; cbv zeta; cbn [fold_left].
  - split; [exact Gs|]. split; [exact Fs|]. split; [exact Ns|]. intros u. cbn [concat In]. tauto.
  - inversion Fr; subst.
    pose proof (unet_good fr []) as Gn.
    destruct (join_linear_ok f s (unet fr []) Gs Gn) as (G' & S').
    assert (N' : NoDup (flatn (join_linear (S f) s (unet fr [])))).
    { apply join_linear_nodup; auto; [rewrite unet_flat; assumption|apply flatpath_no_overlap; exact Fs]. }
    assert (F' : flatpath (join_linear (S f) s (unet fr [])) = true).
    { apply join_linear_flatpath; [apply Gs|exact Fs|apply unet_flatpath]. }
    destruct (IH _ G' F' N' H2) as (A & B & C & D). cbv zeta in A, B, C, D.
    split; [exact A|]. split; [exact B|]. split; [exact C|].
    intros u. rewrite (D u). cbn [concat]. rewrite in_app_iff.
    rewrite <- (units_flat _ (proj2 G') u), (S' u), in_app_iff, (units_flat s (proj2 Gs) u). cbn [unet n_units]. tauto.
Qed.

Lemma nodup_concat_each : forall (l : list (list nat)), NoDup (concat l) -> Forall (@NoDup nat) l.
Proof.
  induction l as [|p t IH]; intros N; [constructor|]. cbn [concat] in N. apply nodup_app_iff in N.
  constructor; [tauto|apply IH; tauto].
Qed.

(* after the linear phase every unit of the walked paths is in the network exactly once, and `units`
   equals the units of the path — for every stream graph, feedstock and `ends` *)
Lemma linear_phase_once : forall f all feed ends lin cyc ends',
  find_paths all feed ends = (lin, cyc, ends') ->
  good (linear_phase f lin) /\ NoDup (flatn (linear_phase f lin)) /\
  (forall u, In u (flatn (linear_phase f lin)) <-> In u (concat lin)).
Proof.
  intros f all feed ends lin cyc ends' H.
  destruct (ProofsPaths.find_paths_once _ _ _ _ _ _ H) as (N & _).
  pose proof (nodup_concat_each lin N) as Each. unfold linear_phase. destruct lin as [|p rest].
  - split; [apply unet_good|]. split; [constructor|]. intros u. reflexivity.
  - inversion Each; subst.
    destruct (linear_fold_ok f rest (unet p []) (unet_good p []) (unet_flatpath p [])) as (A & _ & C & D);
      [rewrite unet_flat; assumption|assumption|].
    split; [exact A|]. split; [exact C|]. intros u. rewrite (D u), unet_flat. cbn [concat]. rewrite in_app_iff. reflexivity.
Qed.

(* every loop handed to join_recycle_network satisfies the hypotheses on the joined network *)
Lemma loops_ready : forall all feed ends lin cyc ends',
  find_paths all feed ends = (lin, cyc, ends') ->
  Forall (fun pr => good (unet (fst pr) [snd pr]) /\ NoDup (flatn (unet (fst pr) [snd pr])) /\
                    flatpath (unet (fst pr) [snd pr]) = true) cyc.
Proof.
  intros all feed ends lin cyc ends' H.
  destruct (ProofsPaths.find_paths_once _ _ _ _ _ _ H) as (_ & C).
  eapply Forall_impl; [|exact C]. intros pr Hpr. split; [apply unet_good|]. split; [rewrite unet_flat; exact Hpr|apply unet_flatpath].
Qed.

(* ================================================================== histories of loop joins *)
Section JoinRuns.
Variables (es all : list edge) (tbl : list (list nat * nat)).

(* network.join_recycle_network(loop) for each loop in turn; None when one of them raises *)
Fixpoint joins (f : nat) (s : net) (ns : list net) : option net :=
  match ns with
  | [] => Some s
  | n :: t => obind (join_recycle es all tbl f s n) (fun s' => joins f s' t)
  end.

(* the path fact, checked along the run: each loop meets at most one sub-network per level *)
Fixpoint confined_run (f : nat) (s : net) (ns : list net) : bool :=
  match ns with
  | [] => true
  | n :: t => confinedb n s
              && match join_recycle es all tbl f s n with
                 | Some s' => confined_run f s' t
                 | None => true
                 end
  end.

Definition loop_ok (n : net) : Prop := good n /\ NoDup (flatn n) /\ flatpath n = true.

Lemma joins_once : forall f ns s r,
  good s -> NoDup (flatn s) -> Forall loop_ok ns -> confined_run f s ns = true ->
  joins f s ns = Some r ->
  good r /\ NoDup (flatn r) /\
  (forall u, In u (flatn r) <-> In u (flatn s) \/ In u (flat_map flatn ns)).
Proof.
  intros f ns. induction ns as [|n t IH]; intros s r Gs Ns L C H.
  - cbn in H. apply some_inj in H. subst r. split; [exact Gs|]. split; [exact Ns|]. intros u. cbn. tauto.
  - inversion L as [|n' t' (Gn & Nn & Fn) Lt]; subst.
    cbn [joins] in H. cbn [confined_run] in C. apply andb_true_iff in C. destruct C as (Cn & Ct).
    destruct (join_recycle es all tbl f s n) as [s'|] eqn:J; [|discriminate]. cbn [obind] in H.
    destruct (join_recycle_ok es all tbl f s n s' Gs Gn J) as (Gs' & Su).
    pose proof (join_recycle_nodup es all tbl f s n s' Gs Gn Ns Nn Fn Cn J) as Ns'.
    destruct (IH s' r Gs' Ns' Lt Ct H) as (A & B & D). split; [exact A|]. split; [exact B|].
    intros u. rewrite (D u). cbn [flat_map]. rewrite in_app_iff.
    rewrite <- (units_flat s' (proj2 Gs') u), (Su u), in_app_iff.
    rewrite (units_flat s (proj2 Gs) u), (units_flat n (proj2 Gn) u). tauto.
Qed.
End JoinRuns.

(* ================================================================== the evaluated invariants imply the
   propositional ones (the harness evaluates units_okb / nodup_pathb on every recorded step) *)
Lemma subsetb_incl : forall a b, subsetb a b = true -> forall x, In x a -> In x b.
Proof. intros a b H x Hx. unfold subsetb in H. rewrite forallb_forall in H. apply memb_In. apply H. exact Hx. Qed.

Lemma set_eqb_seteq : forall a b, set_eqb a b = true -> seteq a b.
Proof.
  intros a b H. unfold set_eqb in H. apply andb_true_iff in H. destruct H as (A & B).
  intros x. split; [apply (subsetb_incl _ _ A)|apply (subsetb_incl _ _ B)].
Qed.

Lemma units_okb_uok : forall x, units_okb x = true -> uok x.
Proof.
  intros x. induction x as [u|p r U IH] using net_ind'; intros H; [exact I|].
  cbn [units_okb] in H. apply andb_true_iff in H. destruct H as (A & B).
  apply uok_NN. split; [apply set_eqb_seteq; exact A|].
  rewrite forallb_forall in B. rewrite Forall_forall in *. intros y Hy. apply IH; [exact Hy|apply B; exact Hy].
Qed.

Lemma okb_good : forall x, is_net x = true -> units_okb x = true -> good x.
Proof. intros x N H. split; [exact N|apply units_okb_uok; exact H]. Qed.

Lemma nodup_pathb_NoDup : forall x, nodup_pathb x = true -> NoDup (flatn x).
Proof. intros x H. apply nodupb_NoDup. exact H. Qed.

(* ================================================================== get_downstream_units computes the
   transitive closure, for every stream graph and every set of cut streams *)
Section Closure.
Variables (es : list edge) (ends : list nat).

Definition succ (a b : nat) : Prop := In b (nbrs es ends a).
Definition reaches : nat -> nat -> Prop := clos_trans nat succ.

Lemma nbrs_dst : forall a b, In b (nbrs es ends a) -> In b (map dst es).
Proof.
  intros a b H. unfold nbrs in H. apply in_map_iff in H. destruct H as (e & E & He).
  apply filter_In in He. apply in_map_iff. exists e. tauto.
Qed.

Lemma add_all_nodup : forall l s, NoDup s -> NoDup (add_all s l).
Proof.
  unfold add_all. induction l as [|x t IH]; intros s N; [exact N|]. cbn [fold_left].
  destruct (memb x s) eqn:M; [apply IH; exact N|]. apply IH.
  apply nodup_app_iff. split; [exact N|]. split; [constructor; [intros []|constructor]|].
  intros y Hy [E|[]]. subst y. apply memb_In in Hy. rewrite Hy in M. discriminate.
Qed.

Lemma add_all_length_ge : forall l s, length s <= length (add_all s l).
Proof.
  unfold add_all. induction l as [|x t IH]; intros s; [cbn; lia|]. cbn [fold_left].
  destruct (memb x s); [apply IH|]. specialize (IH (s ++ [x])). rewrite app_length in IH. cbn in IH. lia.
Qed.

Lemma add_all_same_length : forall l s, length (add_all s l) = length s -> forall x, In x l -> In x s.
Proof.
  unfold add_all. induction l as [|y t IH]; intros s E x Hx; [destruct Hx|]. cbn [fold_left] in E.
  destruct (memb y s) eqn:M.
  - destruct Hx as [Hx|Hx]; [subst; apply memb_In; exact M|exact (IH s E x Hx)].
  - pose proof (add_all_length_ge t (s ++ [y])) as G. unfold add_all in G. rewrite app_length in G. cbn in G. lia.
Qed.

(* soundness: everything collected is downstream *)
Lemma dloop_sound : forall u fuel s outer,
  (forall x, In x s -> reaches u x) -> (forall x, In x outer -> reaches u x) ->
  forall x, In x (dloop fuel es ends s outer) -> reaches u x.
Proof.
  intros u fuel. induction fuel as [|f IH]; intros s outer Hs Ho x Hx; [apply Hs; exact Hx|].
  cbn [dloop] in Hx.
  assert (Hs' : forall y, In y (add_all s outer) -> reaches u y).
  { intros y Hy. apply add_all_In in Hy. destruct Hy; auto. }
  destruct (length (add_all s outer) =? length s); [apply Hs'; exact Hx|].
  apply (IH (add_all s outer) (flat_map (nbrs es ends) outer)); auto.
  intros y Hy. apply in_flat_map in Hy. destruct Hy as (w & Hw & Hy).
  eapply t_trans; [apply Ho; exact Hw|apply t_step; exact Hy].
Qed.

(* completeness: with the fuel of `downstream` the loop stops on a set closed under successors *)
Lemma dloop_closed : forall u fuel s outer,
  NoDup s -> (forall x, In x s -> In x (map dst es)) -> (forall x, In x outer -> In x (map dst es)) ->
  length es - length s < fuel ->
  (forall b, succ u b -> In b s \/ In b outer) ->
  (forall x, In x s -> forall b, succ x b -> In b s \/ In b outer) ->
  let r := dloop fuel es ends s outer in
  (forall b, succ u b -> In b r) /\ (forall x, In x r -> forall b, succ x b -> In b r).
Proof.
  intros u fuel. induction fuel as [|f IH]; intros s outer N Ds Do F Hu Hc; [lia|]. cbv zeta. cbn [dloop].
  set (s' := add_all s outer).
  assert (N' : NoDup s') by (apply add_all_nodup; exact N).
  assert (Ds' : forall x, In x s' -> In x (map dst es)).
  { intros x Hx. apply add_all_In in Hx. destruct Hx; auto. }
  destruct (length s' =? length s) eqn:E.
  - apply Nat.eqb_eq in E. pose proof (add_all_same_length outer s E) as Sub.
    assert (In' : forall x, In x s' <-> In x s).
    { intros x. unfold s'. rewrite add_all_In. split; [intros [H|H]; auto|auto]. }
    split.
    + intros b Hb. apply In'. destruct (Hu b Hb); auto.
    + intros x Hx b Hb. apply In'. apply In' in Hx. destruct (Hc x Hx b Hb); auto.
  - apply Nat.eqb_neq in E. pose proof (add_all_length_ge outer s) as G. fold s' in G.
    assert (Bound : length s' <= length es).
    { rewrite <- (map_length dst es). apply NoDup_incl_length; [exact N'|exact Ds']. }
    apply (IH s' (flat_map (nbrs es ends) outer)); auto.
    + intros x Hx. apply in_flat_map in Hx. destruct Hx as (w & _ & Hx). eapply nbrs_dst; eauto.
    + lia.
    + intros b Hb. left. unfold s'. apply add_all_In. destruct (Hu b Hb); auto.
    + intros x Hx b Hb. unfold s' in Hx. apply add_all_In in Hx. destruct Hx as [Hx|Hx].
      * left. unfold s'. apply add_all_In. destruct (Hc x Hx b Hb); auto.
      * right. apply in_flat_map. exists x. split; [exact Hx|exact Hb].
Qed.

Lemma downstream_spec : forall u v, In v (downstream es ends u) <-> reaches u v.
Proof.
  intros u v. unfold downstream. split.
  - apply dloop_sound; [intros x []|]. intros x Hx. apply t_step. exact Hx.
  - intros R.
    destruct (dloop_closed u (S (length es)) [] (nbrs es ends u)) as (A & B);
      [constructor|intros x []|intros x Hx; eapply nbrs_dst; eauto|cbn; lia|intros b Hb; right; exact Hb|intros x []|].
    apply clos_trans_tn1 in R. induction R as [b Hb|b c Hb R IH].
    + apply A. exact Hb.
    + exact (B b IH c Hb).
Qed.
End Closure.

Lemma reach_of_spec : forall es ends a b, reach_of es ends a b = true <-> reaches es ends a b.
Proof. intros es ends a b. unfold reach_of. rewrite memb_In. apply downstream_spec. Qed.

Lemma reach_of_trans : forall es ends a b c,
  reach_of es ends a b = true -> reach_of es ends b c = true -> reach_of es ends a c = true.
Proof.
  intros es ends a b c H1 H2. apply reach_of_spec. apply reach_of_spec in H1. apply reach_of_spec in H2.
  eapply t_trans; eauto.
Qed.

(* no unit is downstream of itself once the streams in `ends` are cut *)
Definition cut_acyclic (es : list edge) (ends : list nat) : Prop := forall a, ~ reaches es ends a a.

Lemma reach_of_irrefl : forall es ends, cut_acyclic es ends -> forall a, reach_of es ends a a = false.
Proof.
  intros es ends H a. destruct (reach_of es ends a a) eqn:E; [|reflexivity].
  apply reach_of_spec in E. exfalso. exact (H a E).
Qed.

Lemma edge_reach : forall es ends e, In e es -> memb (sid e) ends = false ->
  reach_of es ends (src e) (dst e) = true.
Proof.
  intros es ends e He M. apply reach_of_spec. apply t_step. unfold succ, nbrs.
  apply in_map. apply filter_In. split; [exact He|]. rewrite Nat.eqb_refl, M. reflexivity.
Qed.

(* Network.sort on the units of ANY flowsheet whose uncut streams form no cycle: permutation, no warning,
   no recycle, every uncut stream between two units of the path runs forward *)
Lemma sort_graph_acyclic : forall es ends path, cut_acyclic es ends ->
  Permutation (sorted_path (reach_of es ends) (direct_of es ends) path) path /\
  sort_stop (reach_of es ends) (direct_of es ends) path = true /\
  sort_recycles (reach_of es ends) (direct_of es ends) path = [] /\
  (forall e i j, In e es -> memb (sid e) ends = false ->
     nth_error (sorted_path (reach_of es ends) (direct_of es ends) path) i = Some (src e) ->
     nth_error (sorted_path (reach_of es ends) (direct_of es ends) path) j = Some (dst e) -> i < j).
Proof.
  intros es ends path A.
  assert (T : forall a b c : nat, True -> True -> True ->
              reach_of es ends a b = true -> reach_of es ends b c = true -> reach_of es ends a c = true)
    by (intros a b c _ _ _; apply reach_of_trans).
  assert (I : forall a : nat, True -> reach_of es ends a a = false) by (intros a _; apply reach_of_irrefl; exact A).
  split; [apply sort_perm_lemma|].
  destruct (sort_quiet_lemma nat nat (reach_of es ends) (direct_of es ends) (fun _ => True) T I path (fun _ _ => Logic.I)) as (Q1 & Q2).
  split; [exact Q1|]. split; [exact Q2|].
  intros e i j He M Hi Hj.
  exact (sort_forward_lemma nat nat (reach_of es ends) (direct_of es ends) (fun _ => True) T I path (fun _ _ => Logic.I)
           (src e) (dst e) i j (edge_reach es ends e He M) Hi Hj).
Qed.

(* ================================================================== the first loop join, for every graph *)
Lemma flatpath_confined : forall n s, flatpath s = true -> confinedb n s = true.
Proof.
  intros n [u|p r U] F; [reflexivity|]. apply confined_of_none. intros y Hy.
  unfold flatpath in F. cbn [n_path] in F. rewrite forallb_forall in F. specialize (F y Hy).
  unfold ovl. destruct (is_net y); [discriminate|reflexivity].
Qed.

Lemma linear_phase_flat : forall f lin, Forall (@NoDup nat) lin -> flatpath (linear_phase f lin) = true.
Proof.
  intros f lin Each. unfold linear_phase. destruct lin as [|p rest]; [reflexivity|]. inversion Each; subst.
  destruct (linear_fold_ok f rest (unet p []) (unet_good p []) (unet_flatpath p [])) as (_ & B & _);
    [rewrite unet_flat; assumption|assumption|exact B].
Qed.

(* after the linear phase and the first loop join every unit is in the network exactly once *)
Lemma first_loop_once : forall es all' tbl f f0 all feed ends lin cyc ends' pr r,
  find_paths all feed ends = (lin, cyc, ends') -> In pr cyc ->
  join_recycle es all' tbl f (linear_phase f0 lin) (unet (fst pr) [snd pr]) = Some r ->
  good r /\ NoDup (flatn r) /\
  (forall u, In u (flatn r) <-> In u (concat lin) \/ In u (fst pr)).
Proof.
  intros es all' tbl f f0 all feed ends lin cyc ends' pr r H Hpr J.
  destruct (linear_phase_once f0 _ _ _ _ _ _ H) as (Gs & Ns & Us).
  pose proof (loops_ready _ _ _ _ _ _ H) as L. rewrite Forall_forall in L. destruct (L pr Hpr) as (Gn & Nn & Fn).
  destruct (ProofsPaths.find_paths_once _ _ _ _ _ _ H) as (Nc & _).
  pose proof (linear_phase_flat f0 lin (nodup_concat_each lin Nc)) as Fs.
  destruct (join_recycle_ok es all' tbl f _ _ r Gs Gn J) as (Gr & Su).
  split; [exact Gr|]. split.
  - exact (join_recycle_nodup es all' tbl f _ _ r Gs Gn Ns Nn Fn (flatpath_confined _ _ Fs) J).
  - intros u. rewrite <- (units_flat r (proj2 Gr) u), (Su u), in_app_iff.
    rewrite (units_flat _ (proj2 Gs) u), (Us u). cbn [unet n_units]. reflexivity.
Qed.
