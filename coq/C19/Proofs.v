(* C19 — lemmas.  Part 1: Network.sort on flat paths (inversion-count argument).
   Part 2: soundness of the certificate checker. *)
From Coq Require Import Permutation Relations.
From V Require Import C19.Model.
Local Open Scope nat_scope.

(* ================================================================== part 1 *)
Section SortProofs.
Variables (U St : Type).
Variable reach : U -> U -> bool.
Variable direct : U -> U -> list St.

Notation split_first := (split_first reach).
Notation sweep := (sweep reach direct).
Notation sort_loop := (sort_loop reach direct).
Notation sort := (sort reach direct).

(* number of elements of l that are upstream of u (they should not come after u) *)
Definition bad (u : U) (l : list U) : nat := length (filter (fun x => reach x u) l).

(* number of inversions: pairs i < j with l[j] upstream of l[i] *)
Fixpoint inv (l : list U) : nat :=
  match l with
  | [] => 0
  | u :: t => bad u t + inv t
  end.

Lemma bad_app : forall u l1 l2, bad u (l1 ++ l2) = bad u l1 + bad u l2.
Proof. intros u l1 l2. unfold bad. rewrite filter_app, app_length. reflexivity. Qed.

Lemma bad_cons : forall u x l, bad u (x :: l) = (if reach x u then 1 else 0) + bad u l.
Proof. intros u x l. unfold bad. cbn [filter]. destruct (reach x u); reflexivity. Qed.

Lemma bad_perm : forall u l1 l2, Permutation l1 l2 -> bad u l1 = bad u l2.
Proof.
  intros u l1 l2 P. induction P as [|x l l' P IH|x y l|l l' l'' P1 IH1 P2 IH2].
  - reflexivity.
  - rewrite !bad_cons, IH. reflexivity.
  - rewrite !bad_cons. lia.
  - congruence.
Qed.

Lemma bad_le : forall u l, bad u l <= length l.
Proof.
  intros u l. unfold bad. induction l as [|x t IH]; cbn [filter length]; [lia|].
  destruct (reach x u); cbn [length]; lia.
Qed.

Lemma bad_zero : forall u l, Forall (fun x => reach x u = false) l -> bad u l = 0.
Proof.
  intros u l F. induction F as [|x l Hx F IH]; [reflexivity|].
  rewrite bad_cons, Hx, IH. reflexivity.
Qed.

Lemma bad_zero_inv : forall u l, bad u l = 0 -> Forall (fun x => reach x u = false) l.
Proof.
  intros u l. induction l as [|x l IH]; intros B; [constructor|].
  rewrite bad_cons in B. destruct (reach x u) eqn:R; [discriminate|].
  constructor; [exact R|apply IH; exact B].
Qed.

Lemma inv_insert_ge : forall y b a, bad y a + inv (b ++ a) <= inv (b ++ y :: a).
Proof.
  intros y b a. induction b as [|x b IH]; cbn [app inv].
  - lia.
  - rewrite !bad_app, bad_cons. lia.
Qed.

Lemma inv_bound : forall l, inv l + length l <= length l * length l.
Proof.
  induction l as [|u t IH]; cbn [inv length]; [lia|].
  pose proof (bad_le u t) as B. nia.
Qed.

(* ---- split_first *)
Lemma split_first_some : forall u l b y a,
  split_first u l = Some (b, y, a) ->
  l = b ++ y :: a /\ reach y u = true /\ Forall (fun x => reach x u = false) b.
Proof.
  intros u l. induction l as [|x t IH]; intros b y a H; cbn [Model.split_first] in H; [discriminate|].
  destruct (reach x u) eqn:R.
  - inversion H; subst. repeat split; auto.
  - destruct (split_first u t) as [[[b' y'] a']|] eqn:E; [|discriminate].
    inversion H; subst. destruct (IH _ _ _ eq_refl) as (L & Ry & F).
    subst t. repeat split; auto.
Qed.

Lemma split_first_none : forall u l,
  split_first u l = None -> Forall (fun x => reach x u = false) l.
Proof.
  intros u l. induction l as [|x t IH]; intros H; cbn [Model.split_first] in H; [constructor|].
  destruct (reach x u) eqn:R; [discriminate|].
  destruct (split_first u t) as [[[b' y'] a']|] eqn:E; [discriminate|].
  constructor; auto.
Qed.

(* ---- sweep: permutation (no hypothesis on reach) *)
Lemma sweep_perm : forall f l, Permutation (fst (fst (sweep f l))) l.
Proof.
  induction f as [|f IH]; intros l; [reflexivity|].
  destruct l as [|u t]; [reflexivity|]. cbn [Model.sweep].
  destruct (split_first u t) as [[[b y] a]|] eqn:E.
  - destruct (split_first_some _ _ _ _ _ E) as (L & _ & _). subst t.
    destruct (reach u y).
    + pose proof (IH (b ++ y :: a)) as P.
      destruct (Model.sweep reach direct f (b ++ y :: a)) as [[r m] rs]. cbn [fst] in *.
      apply perm_skip. exact P.
    + pose proof (IH (u :: b ++ a)) as P.
      destruct (Model.sweep reach direct f (u :: b ++ a)) as [[r m] rs]. cbn [fst] in *.
      apply Permutation_trans with (y :: u :: b ++ a); [apply perm_skip; exact P|].
      apply Permutation_trans with (u :: y :: b ++ a); [apply perm_swap|].
      apply perm_skip. apply Permutation_middle.
  - pose proof (IH t) as P.
    destruct (Model.sweep reach direct f t) as [[r m] rs]. cbn [fst] in *.
    apply perm_skip. exact P.
Qed.

Lemma sort_loop_perm : forall n l, Permutation (fst (fst (sort_loop n l))) l.
Proof.
  induction n as [|n IH]; intros l; [reflexivity|]. cbn [Model.sort_loop].
  pose proof (sweep_perm (length l) l) as P.
  destruct (Model.sweep reach direct (length l) l) as [[r m] rs]. cbn [fst] in P.
  destruct m.
  - pose proof (IH r) as P2.
    destruct (Model.sort_loop reach direct n r) as [[r' stop] rs']. cbn [fst] in *.
    eapply Permutation_trans; eauto.
  - exact P.
Qed.

Lemma sort_perm_lemma : forall l, Permutation (sorted_path reach direct l) l.
Proof.
  intros l. unfold sorted_path, Model.sort. destruct l as [|u t]; [reflexivity|].
  apply sort_loop_perm.
Qed.

Lemma sort_order_independent_lemma : forall l1 l2, Permutation l1 l2 ->
  Permutation (sorted_path reach direct l1) (sorted_path reach direct l2).
Proof.
  intros l1 l2 P.
  eapply Permutation_trans; [apply sort_perm_lemma|].
  eapply Permutation_trans; [exact P|]. apply Permutation_sym, sort_perm_lemma.
Qed.

Lemma strict_onb_sound : forall l, strict_onb reach l = true ->
  (forall a b c, In a l -> In b l -> In c l -> reach a b = true -> reach b c = true -> reach a c = true) /\
  (forall a, In a l -> reach a a = false).
Proof.
  intros l H. unfold strict_onb in H. apply andb_true_iff in H. destruct H as (I & T).
  rewrite forallb_forall in I, T. split.
  - intros a b c Ha Hb Hc Rab Rbc.
    pose proof (T a Ha) as Ta. rewrite forallb_forall in Ta.
    pose proof (Ta b Hb) as Tb. rewrite forallb_forall in Tb.
    pose proof (Tb c Hc) as Tc. rewrite Rab, Rbc in Tc. cbn in Tc. exact Tc.
  - intros a Ha. pose proof (I a Ha) as Ia. destruct (reach a a); [discriminate|reflexivity].
Qed.

(* ---- under a strict partial order on the items of the path (dom = any set containing them) *)
Variable dom : U -> Prop.
Hypothesis reach_trans : forall a b c, dom a -> dom b -> dom c ->
  reach a b = true -> reach b c = true -> reach a c = true.
Hypothesis reach_irrefl : forall a, dom a -> reach a a = false.

Lemma sweep_inv : forall f l, length l <= f -> (forall x, In x l -> dom x) ->
  forall r m rs, sweep f l = (r, m, rs) ->
  (m = true -> inv r < inv l) /\ (m = false -> inv r = 0) /\ rs = [].
Proof.
  induction f as [|f IH]; intros l Hf D r m rs E.
  - destruct l; [|cbn in Hf; lia]. cbn in E. inversion E; subst. repeat split; auto; discriminate.
  - destruct l as [|u t].
    { cbn in E. inversion E; subst. repeat split; auto; discriminate. }
    cbn [length] in Hf. cbn [Model.sweep] in E.
    assert (Du : dom u) by (apply D; left; reflexivity).
    destruct (split_first u t) as [[[b y] a]|] eqn:Sp.
    + destruct (split_first_some _ _ _ _ _ Sp) as (L & Ryu & Fb). subst t.
      assert (Dy : dom y) by (apply D; right; apply in_or_app; right; left; reflexivity).
      assert (Db : forall x, In x b -> dom x) by (intros x Hx; apply D; right; apply in_or_app; left; exact Hx).
      destruct (reach u y) eqn:Ruy.
      { (* mutual reachability contradicts the strict order *)
        pose proof (reach_trans _ _ _ Du Dy Du Ruy Ryu) as C. rewrite (reach_irrefl _ Du) in C. discriminate. }
      destruct (Model.sweep reach direct f (u :: b ++ a)) as [[r' m'] rs'] eqn:Sw.
      inversion E; subst r m rs. clear E.
      assert (Hlen : length (u :: b ++ a) <= f).
      { cbn [length]. rewrite app_length in *. cbn [length] in Hf. lia. }
      assert (D' : forall x, In x (u :: b ++ a) -> dom x).
      { intros x Hx. apply D. cbn [In] in *. rewrite in_app_iff in *. cbn [In]. tauto. }
      destruct (IH _ Hlen D' _ _ _ Sw) as (Hlt & Hz & Hrs).
      assert (Hle : inv r' <= inv (u :: b ++ a)).
      { destruct m'; [specialize (Hlt eq_refl); lia|rewrite (Hz eq_refl); lia]. }
      pose proof (sweep_perm f (u :: b ++ a)) as P. rewrite Sw in P. cbn [fst] in P.
      assert (Byb : bad y b = 0).
      { apply bad_zero. rewrite Forall_forall in *. intros x Hx.
        destruct (reach x y) eqn:Rxy; [|reflexivity].
        pose proof (Fb x Hx) as Fx. rewrite (reach_trans _ _ _ (Db x Hx) Dy Du Rxy Ryu) in Fx. discriminate Fx. }
      assert (Bub : bad u b = 0) by (apply bad_zero; exact Fb).
      split; [|split; [discriminate|exact Hrs]].
      intros _. cbn [inv].
      rewrite (bad_perm y _ _ P), bad_cons, Ruy, !bad_app, bad_cons, Ryu, Byb, Bub.
      pose proof (inv_insert_ge y b a) as G.
      cbn [inv] in Hle. rewrite bad_app, Bub in Hle. lia.
    + pose proof (split_first_none _ _ Sp) as Ft.
      destruct (Model.sweep reach direct f t) as [[r' m'] rs'] eqn:Sw.
      inversion E; subst r m rs. clear E.
      assert (Hlen : length t <= f) by lia.
      assert (D' : forall x, In x t -> dom x) by (intros x Hx; apply D; right; exact Hx).
      destruct (IH _ Hlen D' _ _ _ Sw) as (Hlt & Hz & Hrs).
      pose proof (sweep_perm f t) as P. rewrite Sw in P. cbn [fst] in P.
      cbn [inv]. rewrite (bad_perm u _ _ P), (bad_zero u t Ft).
      split; [|split; [|exact Hrs]].
      * intros M. specialize (Hlt M). lia.
      * intros M. rewrite (Hz M). reflexivity.
Qed.

Lemma sort_loop_done : forall n l, inv l < n -> (forall x, In x l -> dom x) ->
  forall r stop rs, sort_loop n l = (r, stop, rs) -> stop = true /\ rs = [] /\ inv r = 0.
Proof.
  induction n as [|n IH]; intros l Hn D r stop rs E; [lia|].
  cbn [Model.sort_loop] in E.
  destruct (Model.sweep reach direct (length l) l) as [[r1 m] rs1] eqn:Sw.
  destruct (sweep_inv _ _ (le_n _) D _ _ _ Sw) as (Hlt & Hz & Hrs). subst rs1.
  pose proof (sweep_perm (length l) l) as P. rewrite Sw in P. cbn [fst] in P.
  destruct m.
  - specialize (Hlt eq_refl).
    destruct (Model.sort_loop reach direct n r1) as [[r2 stop2] rs2] eqn:Sl.
    inversion E; subst. assert (Hn' : inv r1 < n) by lia.
    assert (D' : forall x, In x r1 -> dom x) by (intros x Hx; apply D; eapply Permutation_in; eauto).
    destruct (IH _ Hn' D' _ _ _ Sl) as (A & B & C). subst. auto.
  - inversion E; subst. auto.
Qed.

Lemma sort_done : forall l, (forall x, In x l -> dom x) ->
  forall r stop rs, sort l = (r, stop, rs) -> stop = true /\ rs = [] /\ inv r = 0.
Proof.
  intros l D r stop rs E. unfold Model.sort in E. destruct l as [|u t].
  - inversion E; subst. auto.
  - eapply sort_loop_done; [|exact D|exact E].
    pose proof (inv_bound (u :: t)) as B. cbn [length] in *. lia.
Qed.

Lemma inv_zero_nth : forall l d, inv l = 0 ->
  forall i j, i < j -> j < length l -> reach (nth j l d) (nth i l d) = false.
Proof.
  induction l as [|u t IH]; intros d Z i j Hij Hj; [cbn in Hj; lia|].
  cbn [inv] in Z. assert (B : bad u t = 0) by lia. assert (Zt : inv t = 0) by lia.
  destruct j as [|j]; [lia|]. cbn [length] in Hj.
  destruct i as [|i]; cbn [nth].
  - pose proof (bad_zero_inv _ _ B) as F. rewrite Forall_forall in F.
    apply F. apply nth_In. lia.
  - apply IH; auto; lia.
Qed.

Lemma sort_topo_lemma : forall l, (forall x, In x l -> dom x) ->
  forall d i j, i < j -> j < length l ->
  reach (nth j (sorted_path reach direct l) d) (nth i (sorted_path reach direct l) d) = false.
Proof.
  intros l D d i j Hij Hj. unfold sorted_path.
  destruct (sort l) as [[r stop] rs] eqn:E. cbn [fst].
  destruct (sort_done _ D _ _ _ E) as (_ & _ & Z).
  apply inv_zero_nth; auto.
  pose proof (sort_perm_lemma l) as P. unfold sorted_path in P. rewrite E in P. cbn [fst] in P.
  rewrite (Permutation_length P). exact Hj.
Qed.

Lemma sort_quiet_lemma : forall l, (forall x, In x l -> dom x) ->
  sort_stop reach direct l = true /\ sort_recycles reach direct l = [].
Proof.
  intros l D. unfold sort_stop, sort_recycles.
  destruct (sort l) as [[r stop] rs] eqn:E. cbn [fst snd].
  destruct (sort_done _ D _ _ _ E) as (A & B & _). auto.
Qed.

(* a stream u -> v (hence reach u v) between two units of the path runs forward in the sorted path *)
Lemma sort_forward_lemma : forall l, (forall x, In x l -> dom x) ->
  forall u v i j, reach u v = true ->
  nth_error (sorted_path reach direct l) i = Some u ->
  nth_error (sorted_path reach direct l) j = Some v -> i < j.
Proof.
  intros l D u v i j R Hi Hj.
  pose proof (sort_perm_lemma l) as P. pose proof (Permutation_length P) as Len.
  assert (Li : i < length l) by (rewrite <- Len; apply nth_error_Some; congruence).
  assert (Lj : j < length l) by (rewrite <- Len; apply nth_error_Some; congruence).
  destruct (Nat.lt_trichotomy i j) as [H|[H|H]]; [exact H| |].
  - subst j. assert (u = v) by congruence. subst v.
    assert (Du : dom u) by (apply D; eapply Permutation_in; [exact P|eapply nth_error_In; eauto]).
    rewrite (reach_irrefl _ Du) in R. discriminate.
  - pose proof (sort_topo_lemma l D u j i H Li) as T.
    rewrite (nth_error_nth _ _ u Hi), (nth_error_nth _ _ u Hj) in T. congruence.
Qed.
End SortProofs.

(* ================================================================== part 2 *)
Lemma memb_In : forall x l, memb x l = true <-> In x l.
Proof.
  intros x l. unfold memb. rewrite existsb_exists. split.
  - intros (y & Hy & E). apply Nat.eqb_eq in E. subst. exact Hy.
  - intros H. exists x. split; [exact H|apply Nat.eqb_refl].
Qed.

Lemma nodupb_NoDup : forall l, nodupb l = true -> NoDup l.
Proof.
  induction l as [|x t IH]; intros H; [constructor|].
  cbn [nodupb] in H. apply andb_true_iff in H. destruct H as (N & R).
  constructor; [|apply IH; exact R].
  intros I. apply memb_In in I. rewrite I in N. discriminate.
Qed.

Lemma count_cons : forall x y l, count x (y :: l) = (if x =? y then 1 else 0) + count x l.
Proof. intros x y l. unfold count. cbn [filter]. destruct (x =? y); reflexivity. Qed.

Lemma count_zero_notin : forall x l, count x l = 0 -> ~ In x l.
Proof.
  intros x l. induction l as [|y t IH]; intros C I; [exact I|].
  rewrite count_cons in C. destruct I as [I|I].
  - subst. rewrite Nat.eqb_refl in C. discriminate.
  - destruct (x =? y); [discriminate|]. exact (IH C I).
Qed.

Lemma count_pos_in : forall x l, 0 < count x l -> In x l.
Proof.
  intros x l. induction l as [|y t IH]; intros C; [cbn in C; lia|].
  rewrite count_cons in C. destruct (x =? y) eqn:E.
  - apply Nat.eqb_eq in E. subst. left. reflexivity.
  - right. apply IH. lia.
Qed.

Lemma count_one_NoDup : forall l, (forall x, In x l -> count x l = 1) -> NoDup l.
Proof.
  induction l as [|a t IH]; intros H; [constructor|].
  assert (Ca : count a t = 0).
  { pose proof (H a (or_introl eq_refl)) as C. rewrite count_cons, Nat.eqb_refl in C. lia. }
  pose proof (count_zero_notin _ _ Ca) as Na.
  constructor; [exact Na|]. apply IH. intros x Hx.
  pose proof (H x (or_intror Hx)) as C. rewrite count_cons in C.
  destruct (x =? a) eqn:E; [|lia].
  apply Nat.eqb_eq in E. subst. contradiction.
Qed.

Lemma perm_check_sound : forall units path, perm_check units path = true ->
  Permutation path units /\ NoDup path.
Proof.
  intros units path H. unfold perm_check in H.
  apply andb_true_iff in H. destruct H as (H & Hin).
  apply andb_true_iff in H. destruct H as (Hnd & Hcnt).
  rewrite forallb_forall in Hin, Hcnt.
  assert (ND : NoDup path).
  { apply count_one_NoDup. intros x Hx. apply Nat.eqb_eq, Hcnt, memb_In, Hin, Hx. }
  split; [|exact ND].
  apply NoDup_Permutation; [exact ND|apply nodupb_NoDup; exact Hnd|].
  intros x. split.
  - intros Hx. apply memb_In, Hin, Hx.
  - intros Hx. apply count_pos_in. pose proof (Hcnt x Hx) as C. apply Nat.eqb_eq in C. lia.
Qed.

Lemma index_nth : forall x l i, index x l = Some i -> nth_error l i = Some x.
Proof.
  intros x l. induction l as [|y t IH]; intros i H; cbn [index] in H; [discriminate|].
  destruct (x =? y) eqn:E.
  - inversion H; subst. apply Nat.eqb_eq in E. subst. reflexivity.
  - destruct (index x t) as [k|]; [|discriminate]. inversion H; subst. cbn. apply IH. reflexivity.
Qed.

Lemma NoDup_nth_unique : forall (l : list nat) i j x, NoDup l ->
  nth_error l i = Some x -> nth_error l j = Some x -> i = j.
Proof.
  intros l i j x ND Hi Hj.
  apply (proj1 (NoDup_nth_error l) ND); [apply nth_error_Some; congruence|congruence].
Qed.

Lemma forward_sound : forall path e, forward path e = true ->
  exists i j, nth_error path i = Some (src e) /\ nth_error path j = Some (dst e) /\ i < j.
Proof.
  intros path e H. unfold forward in H.
  destruct (index (src e) path) as [i|] eqn:Ei; [|discriminate].
  destruct (index (dst e) path) as [j|] eqn:Ej; [|discriminate].
  exists i, j. repeat split; [apply index_nth; exact Ei|apply index_nth; exact Ej|apply Nat.ltb_lt; exact H].
Qed.

(* ---- the flowsheet as a relation *)
Definition step (es : list edge) (u v : nat) : Prop := exists s, In (s, u, v) es.
Definition has_cycle (es : list edge) : Prop := exists u, clos_trans nat (step es) u u.

Lemma has_edge_step : forall es u v, has_edge es u v = true -> step es u v.
Proof.
  intros es u v H. unfold has_edge in H. apply existsb_exists in H.
  destruct H as ([[s a] b] & I & E). unfold src, dst in E. cbn [fst snd] in E.
  apply andb_true_iff in E. destruct E as (E1 & E2).
  apply Nat.eqb_eq in E1, E2. subst. exists s. exact I.
Qed.

Lemma walk_check_sound : forall es first c u, walk_check es first (u :: c) = true ->
  clos_trans nat (step es) u first.
Proof.
  intros es first c. induction c as [|v t IH]; intros u H.
  - cbn [walk_check] in H. apply t_step, has_edge_step, H.
  - cbn [walk_check] in H. apply andb_true_iff in H. destruct H as (E & W).
    eapply t_trans; [apply t_step, has_edge_step, E|apply IH, W].
Qed.

Lemma cycle_check_sound : forall es c, cycle_check es c = true -> has_cycle es.
Proof.
  intros es c H. destruct c as [|u t]; [discriminate|].
  exists u. apply (walk_check_sound es u t u H).
Qed.

Lemma forward_all_acyclic : forall es path, NoDup path ->
  forallb (forward path) es = true -> ~ has_cycle es.
Proof.
  intros es path ND F (u & C).
  rewrite forallb_forall in F.
  assert (K : forall a b, clos_trans nat (step es) a b ->
              exists i j, nth_error path i = Some a /\ nth_error path j = Some b /\ i < j).
  { intros a b T. induction T as [a b (s & I)|a b c T1 IH1 T2 IH2].
    - destruct (forward_sound _ _ (F _ I)) as (i & j & Hi & Hj & L). exists i, j. auto.
    - destruct IH1 as (i & j & Hi & Hj & L). destruct IH2 as (j' & k & Hj' & Hk & L').
      assert (j = j') by (eapply NoDup_nth_unique; eauto). subst j'.
      exists i, k. repeat split; auto; lia. }
  destruct (K _ _ C) as (i & j & Hi & Hj & L).
  assert (i = j) by (eapply NoDup_nth_unique; eauto). lia.
Qed.

(* ---- the clauses of C19, declaratively, on the observed network *)
Definition exactly_once (units : list nat) (net : item) : Prop :=
  Permutation (flat net) units /\ NoDup (flat net).

(* no cycle: every unit once, after all units that feed it, no recycle reported *)
Definition acyclic_clause (units : list nat) (es : list edge) (net : item) : Prop :=
  exactly_once units net /\
  (forall s u v, In (s, u, v) es ->
     In u (flat net) /\ In v (flat net) /\
     forall i j, nth_error (flat net) i = Some u -> nth_error (flat net) j = Some v -> i < j) /\
  all_recycles net = [].

(* cycles: every unit in the path, at least one recycle, and every stream that runs against the
   path order has both ends inside one (sub-)network that carries a recycle *)
Definition cyclic_clause (units : list nat) (es : list edge) (net : item) : Prop :=
  exactly_once units net /\
  all_recycles net <> [] /\
  (forall s u v i j, In (s, u, v) es ->
     nth_error (flat net) i = Some u -> nth_error (flat net) j = Some v -> j <= i ->
     exists members recycle, In (members, recycle) (subnets net) /\ recycle <> [] /\
                             In u members /\ In v members).

Lemma is_nil_true : forall A (l : list A), is_nil l = true -> l = [].
Proof. intros A l H. destruct l; [reflexivity|discriminate]. Qed.

Lemma nth_error_In' : forall (l : list nat) i x, nth_error l i = Some x -> In x l.
Proof. intros l i x H. eapply nth_error_In; eauto. Qed.

Lemma check_acyclic_sound : forall units es net, check_acyclic units es net = true ->
  acyclic_clause units es net /\ ~ has_cycle es.
Proof.
  intros units es net H. unfold check_acyclic in H.
  apply andb_true_iff in H. destruct H as (H & R).
  apply andb_true_iff in H. destruct H as (P & F).
  destruct (perm_check_sound _ _ P) as (Pm & ND).
  split; [|eapply forward_all_acyclic; eauto].
  split; [split; assumption|]. split; [|apply is_nil_true; exact R].
  intros s u v I. rewrite forallb_forall in F.
  destruct (forward_sound _ _ (F _ I)) as (i0 & j0 & Hi0 & Hj0 & L).
  unfold src, dst in Hi0, Hj0. cbn [fst snd] in Hi0, Hj0.
  split; [eapply nth_error_In'; eauto|]. split; [eapply nth_error_In'; eauto|].
  intros i j Hi Hj.
  assert (i = i0) by (eapply NoDup_nth_unique; eauto).
  assert (j = j0) by (eapply NoDup_nth_unique; eauto). lia.
Qed.

Lemma covered_sound : forall subs u v, covered subs u v = true ->
  exists m r, In (m, r) subs /\ r <> [] /\ In u m /\ In v m.
Proof.
  intros subs u v H. unfold covered in H. apply existsb_exists in H.
  destruct H as ([m r] & I & E). cbn [fst snd] in E.
  apply andb_true_iff in E. destruct E as (E & Mv).
  apply andb_true_iff in E. destruct E as (Nr & Mu).
  exists m, r. repeat split; [exact I| |apply memb_In; exact Mu|apply memb_In; exact Mv].
  intros Z. subst r. discriminate.
Qed.

Lemma check_cyclic_sound : forall units es net cyc, check_cyclic units es net cyc = true ->
  cyclic_clause units es net /\ has_cycle es.
Proof.
  intros units es net cyc H. unfold check_cyclic in H.
  apply andb_true_iff in H. destruct H as (H & B).
  apply andb_true_iff in H. destruct H as (H & C).
  apply andb_true_iff in H. destruct H as (P & R).
  destruct (perm_check_sound _ _ P) as (Pm & ND).
  split; [|eapply cycle_check_sound; eauto].
  split; [split; assumption|]. split.
  - intros Z. rewrite Z in R. discriminate.
  - intros s u v i j I Hi Hj Le. rewrite forallb_forall in B.
    pose proof (B _ I) as Be. apply andb_true_iff in Be. destruct Be as (_ & Be).
    unfold src, dst in Be. cbn [fst snd] in Be.
    apply orb_true_iff in Be. destruct Be as [Fw|Cv]; [|apply covered_sound; exact Cv].
    destruct (forward_sound _ _ Fw) as (i0 & j0 & Hi0 & Hj0 & L).
    unfold src, dst in Hi0, Hj0. cbn [fst snd] in Hi0, Hj0.
    assert (i = i0) by (eapply NoDup_nth_unique; eauto).
    assert (j = j0) by (eapply NoDup_nth_unique; eauto). lia.
Qed.

Lemma check_sound_lemma : forall units es net cyc, check units es net cyc = true ->
  (~ has_cycle es -> acyclic_clause units es net) /\
  (has_cycle es -> cyclic_clause units es net).
Proof.
  intros units es net cyc H. unfold check in H. destruct (is_nil cyc).
  - destruct (check_acyclic_sound _ _ _ H) as (A & N). split; [auto|]. intros C. contradiction.
  - destruct (check_cyclic_sound _ _ _ _ H) as (A & C). split; [|auto]. intros N. contradiction.
Qed.

(* what the checker rejects: a path in which some unit occurs twice is never accepted *)
Lemma check_rejects_duplicates : forall units es net cyc,
  ~ NoDup (flat net) -> check units es net cyc = false.
Proof.
  intros units es net cyc D. destruct (check units es net cyc) eqn:E; [|reflexivity].
  exfalso. apply D. unfold check in E. destruct (is_nil cyc).
  - destruct (check_acyclic_sound _ _ _ E) as (((_ & ND) & _) & _). exact ND.
  - destruct (check_cyclic_sound _ _ _ _ E) as (((_ & ND) & _) & _). exact ND.
Qed.

(* ================================================================== part 3: loop-join order *)
Lemma add_all_In : forall l s x, In x (add_all s l) <-> In x s \/ In x l.
Proof.
  unfold add_all. induction l as [|y t IH]; intros s x; cbn [fold_left].
  - cbn. tauto.
  - rewrite IH. destruct (memb y s) eqn:M.
    + apply memb_In in M. cbn [In]. split; [tauto|]. intros [H|[H|H]]; subst; tauto.
    + rewrite in_app_iff. cbn [In]. tauto.
Qed.

Lemma disjointb_false : forall a b, disjointb a b = false <-> exists x, In x a /\ In x b.
Proof.
  intros a b. unfold disjointb. split.
  - intros H. induction a as [|y t IH]; cbn [forallb] in H; [discriminate|].
    destruct (memb y b) eqn:M; cbn in H.
    + exists y. split; [left; reflexivity|apply memb_In; exact M].
    + destruct (IH H) as (x & Hx & Hb). exists x. split; [right; exact Hx|exact Hb].
  - intros (x & Ha & Hb). destruct (forallb (fun x0 => negb (memb x0 b)) a) eqn:F; [|reflexivity].
    rewrite forallb_forall in F. specialize (F x Ha). apply memb_In in Hb. rewrite Hb in F. discriminate.
Qed.

(* L is connected to the network N through loops of ls that pairwise share units *)
Inductive rch (N : list nat) (ls : list (list nat)) : list nat -> Prop :=
| rch_base : forall L, In L ls -> disjointb L N = false -> rch N ls L
| rch_step : forall L' L, rch N ls L' -> In L ls -> disjointb L L' = false -> rch N ls L.

Definition all_connected (N : list nat) (ls : list loop) : Prop :=
  forall L, In L ls -> rch N (map snd ls) (snd L).

Lemma pick_some : forall N ls b L a, pick N ls = Some (b, L, a) ->
  ls = b ++ L :: a /\ disjointb (snd L) N = false.
Proof.
  intros N ls. induction ls as [|x t IH]; intros b L a H; cbn [pick] in H; [discriminate|].
  destruct (disjointb (snd x) N) eqn:D.
  - destruct (pick N t) as [[[b' L'] a']|] eqn:E; [|discriminate].
    inversion H; subst. destruct (IH _ _ _ eq_refl) as (Eq & Dj). subst t. auto.
  - inversion H; subst. auto.
Qed.

Lemma pick_none : forall N ls, pick N ls = None -> forall L, In L ls -> disjointb (snd L) N = true.
Proof.
  intros N ls. induction ls as [|x t IH]; intros H L I; [destruct I|]. cbn [pick] in H.
  destruct (disjointb (snd x) N) eqn:D; [|discriminate].
  destruct (pick N t) as [[[b' L'] a']|] eqn:E; [discriminate|].
  destruct I as [I|I]; [subst; exact D|apply IH; auto].
Qed.

Lemma rch_touches : forall N ls L, rch N ls L -> exists L0, In L0 ls /\ disjointb L0 N = false.
Proof. intros N ls L R. induction R as [L I D|L' L R IH I D]; [exists L; auto|exact IH]. Qed.

Lemma rch_after_join : forall N b L0 a L,
  rch N (b ++ L0 :: a) L -> In L (b ++ a) -> rch (add_all N L0) (b ++ a) L.
Proof.
  intros N b L0 a L R. induction R as [L I D|L' L R IH I D]; intros I'.
  - apply rch_base; [exact I'|]. apply disjointb_false in D. destruct D as (x & Hx & HN).
    apply disjointb_false. exists x. split; [exact Hx|apply add_all_In; left; exact HN].
  - destruct (list_eq_dec Nat.eq_dec L' L0) as [E|NE].
    + subst L'. apply rch_base; [exact I'|]. apply disjointb_false in D. destruct D as (x & Hx & H0).
      apply disjointb_false. exists x. split; [exact Hx|apply add_all_In; right; exact H0].
    + assert (IL' : In L' (b ++ a)).
      { assert (J : In L' (b ++ L0 :: a)) by (destruct R; assumption).
        rewrite in_app_iff in *. cbn [In] in J. destruct J as [J|[J|J]]; [tauto|congruence|tauto]. }
      eapply rch_step; [apply IH; exact IL'|exact I'|exact D].
Qed.

Lemma join_loops_ok : forall fuel N ls, length ls <= fuel -> all_connected N ls ->
  snd (join_loops fuel N ls) = true /\
  Permutation (map fst (fst (join_loops fuel N ls))) (map fst ls).
Proof.
  induction fuel as [|f IH]; intros N ls Hf C.
  - destruct ls; [|cbn in Hf; lia]. cbn. auto.
  - destruct ls as [|first rest]; [cbn; auto|]. cbn [join_loops].
    destruct (pick N (first :: rest)) as [[[b L] a]|] eqn:P.
    + destruct (pick_some _ _ _ _ _ P) as (Eq & D). rewrite D.
      assert (Hlen : length (b ++ a) <= f).
      { assert (E : length (first :: rest) = length (b ++ L :: a)) by (rewrite Eq; reflexivity).
        rewrite app_length in *. cbn [length] in *. lia. }
      assert (C' : all_connected (add_all N (snd L)) (b ++ a)).
      { intros X IX. rewrite map_app. apply rch_after_join.
        - pose proof (C X) as CX. rewrite Eq, map_app in CX. cbn [map] in CX. apply CX.
          rewrite in_app_iff in *. cbn [In]. tauto.
        - rewrite <- map_app. apply in_map. exact IX. }
      destruct (IH _ _ Hlen C') as (Ok & Pm).
      destruct (join_loops f (add_all N (snd L)) (b ++ a)) as [js ok]. cbn [fst snd] in *.
      split; [exact Ok|]. rewrite Eq. cbn [map]. rewrite map_app. cbn [map].
      eapply Permutation_trans; [apply perm_skip; exact Pm|].
      rewrite map_app. apply Permutation_middle.
    + exfalso. destruct (rch_touches _ _ _ (C first (or_introl eq_refl))) as (L0 & I0 & D0).
      apply in_map_iff in I0. destruct I0 as (X & EX & IX). subst L0.
      rewrite (pick_none _ _ P X IX) in D0. discriminate.
Qed.

Lemma number_length : forall A (l : list A), length (number l) = length l.
Proof. intros A l. unfold number. rewrite combine_length, seq_length. lia. Qed.

Lemma number_snd : forall A (l : list A), map snd (number l) = l.
Proof.
  intros A l. unfold number. generalize 0. induction l as [|x t IH]; intros k; [reflexivity|].
  cbn. rewrite IH. reflexivity.
Qed.

Lemma number_fst : forall A (l : list A), map fst (number l) = seq 0 (length l).
Proof.
  intros A l. unfold number. generalize 0. induction l as [|x t IH]; intros k; [reflexivity|].
  cbn. rewrite IH. reflexivity.
Qed.

Lemma join_order_ok : forall N loops,
  (forall L, In L loops -> rch N loops L) ->
  snd (join_order N loops) = true /\
  Permutation (map fst (fst (join_order N loops))) (seq 0 (length loops)).
Proof.
  intros N loops C. unfold join_order.
  assert (AC : all_connected N (number loops)).
  { intros X IX. rewrite number_snd. apply C. rewrite <- (number_snd _ loops). apply in_map. exact IX. }
  destruct (join_loops_ok (length loops) N (number loops)) as (Ok & Pm);
    [apply Nat.eq_le_incl, number_length|exact AC|].
  split; [exact Ok|]. rewrite number_fst in Pm. exact Pm.
Qed.

(* ================================================================== part 4: Network.sort on nested paths *)
Section ItemInd.
Variable P : item -> Prop.
Hypothesis HU : forall u, P (IUnit u).
Hypothesis HN : forall p r, Forall P p -> P (INet p r).
Fixpoint item_ind' (i : item) : P i :=
  match i with
  | IUnit u => HU u
  | INet p r =>
      HN p r ((fix go (l : list item) : Forall P l :=
                 match l with
                 | [] => Forall_nil P
                 | x :: t => Forall_cons x (item_ind' x) (go t)
                 end) p)
  end.
End ItemInd.

Lemma add_all_nil : forall s, add_all s [] = s.
Proof. reflexivity. Qed.

Lemma flat_map_pointwise_perm : forall (A : Type) (f g : item -> list A) (p : list item),
  Forall (fun x => Permutation (f x) (g x)) p -> Permutation (flat_map f p) (flat_map g p).
Proof.
  intros A f g p F. induction F as [|x t Hx F IH]; [constructor|].
  cbn [flat_map]. apply Permutation_app; assumption.
Qed.

(* one level: what Network.sort does to the (already sorted) children *)
Lemma sort_level_perm : forall es all ends (p1 : list item) p2 stop rs,
  sort (item_reach es ends) (item_direct all ends) (number p1) = (p2, stop, rs) ->
  Permutation (map snd p2) p1 /\ Permutation (map fst p2) (seq 0 (length p1)).
Proof.
  intros es all ends p1 p2 stop rs E.
  pose proof (sort_perm_lemma _ _ (item_reach es ends) (item_direct all ends) (number p1)) as P.
  unfold sorted_path in P. rewrite E in P. cbn [fst] in P. split.
  - apply Permutation_trans with (map snd (number p1)); [apply Permutation_map; exact P|].
    rewrite number_snd. reflexivity.
  - apply Permutation_trans with (map fst (number p1)); [apply Permutation_map; exact P|].
    rewrite number_fst. reflexivity.
Qed.

(* sorting never loses, adds or duplicates a unit, whatever the tree and the streams *)
Lemma sort_tree_flat : forall es all ends i,
  Permutation (flat (fst (sort_tree es all ends i))) (flat i).
Proof.
  intros es all ends i. induction i as [u|p r IH] using item_ind'; [reflexivity|].
  cbn [sort_tree].
  destruct (sort (item_reach es ends) (item_direct all ends)
                 (number (map fst (map (sort_tree es all ends) p)))) as [[p2 stop] rs] eqn:E.
  cbn [fst flat]. destruct (sort_level_perm _ _ _ _ _ _ _ E) as (Ps & _).
  eapply Permutation_trans; [apply Permutation_flat_map; exact Ps|].
  rewrite map_map, flat_map_concat_map, map_map, <- flat_map_concat_map.
  apply flat_map_pointwise_perm with (f := fun x => flat (fst (sort_tree es all ends x))). exact IH.
Qed.

(* value-level reach between two items at different positions *)
Definition reachv (es : list edge) (ends : list nat) (x u : item) : bool :=
  item_reach es ends (0, x) (1, u).

Lemma item_reach_tags : forall es ends t1 t2 x u, t1 <> t2 ->
  item_reach es ends (t1, x) (t2, u) = reachv es ends x u.
Proof.
  intros es ends t1 t2 x u N. unfold reachv, item_reach. cbn [fst snd].
  destruct u; [reflexivity|]. apply Nat.eqb_neq in N. rewrite N. reflexivity.
Qed.

Definition level_sorted (es : list edge) (ends : list nat) (p : list item) : Prop :=
  forall d a b, a < b -> b < length p -> reachv es ends (nth b p d) (nth a p d) = false.

(* every level: no later item is upstream of an earlier one *)
Fixpoint tree_sorted (es : list edge) (ends : list nat) (i : item) : Prop :=
  match i with
  | IUnit _ => True
  | INet p _ =>
      level_sorted es ends p /\
      (fix go (l : list item) : Prop :=
         match l with [] => True | x :: t => tree_sorted es ends x /\ go t end) p
  end.

Lemma tree_sorted_children : forall es ends (p : list item),
  Forall (tree_sorted es ends) p ->
  (fix go (l : list item) : Prop :=
     match l with [] => True | x :: t => tree_sorted es ends x /\ go t end) p.
Proof. intros es ends p F. induction F as [|x t Hx F IH]; [exact I|split; assumption]. Qed.

Lemma sort_level_strict : forall es all ends (p1 : list item) p2 stop rs,
  strict_onb (item_reach es ends) (number p1) = true ->
  sort (item_reach es ends) (item_direct all ends) (number p1) = (p2, stop, rs) ->
  stop = true /\ rs = [] /\ level_sorted es ends (map snd p2).
Proof.
  intros es all ends p1 p2 stop rs S E.
  destruct (strict_onb_sound _ _ _ S) as (T & Ir).
  pose proof (sort_quiet_lemma _ _ (item_reach es ends) (item_direct all ends)
                (fun x => In x (number p1)) T Ir (number p1) (fun x H => H)) as Q.
  unfold sort_stop, sort_recycles in Q. rewrite E in Q. cbn [fst snd] in Q. destruct Q as (Q1 & Q2).
  split; [exact Q1|]. split; [exact Q2|].
  destruct (sort_level_perm _ _ _ _ _ _ _ E) as (Ps & Pf).
  intros d a b Hab Hb. rewrite map_length in Hb.
  pose proof (sort_topo_lemma _ _ (item_reach es ends) (item_direct all ends)
                (fun x => In x (number p1)) T Ir (number p1) (fun x H => H) (0, d) a b Hab) as Tp.
  unfold sorted_path in Tp. rewrite E in Tp. cbn [fst] in Tp.
  assert (Len : length p2 = length (number p1)).
  { pose proof (sort_perm_lemma _ _ (item_reach es ends) (item_direct all ends) (number p1)) as P.
    unfold sorted_path in P. rewrite E in P. cbn [fst] in P. apply Permutation_length. exact P. }
  assert (Hb' : b < length (number p1))
    by (apply Nat.lt_le_trans with (length p2); [exact Hb|apply Nat.eq_le_incl; exact Len]).
  specialize (Tp Hb').
  assert (ND : NoDup (map fst p2)).
  { eapply Permutation_NoDup; [apply Permutation_sym; exact Pf|apply seq_NoDup]. }
  assert (Ntag : fst (nth b p2 (0, d)) <> fst (nth a p2 (0, d))).
  { intros Eq. rewrite <- !(map_nth (@fst nat item)) in Eq.
    assert (b = a); [|lia].
    apply (proj1 (NoDup_nth (map fst p2) (fst (0, d))) ND); rewrite ?map_length; try lia; try exact Eq. }
  change d with (snd (0, d)). rewrite !(map_nth (@snd nat item)).
  destruct (nth b p2 (0, d)) as [tb xb] eqn:Eb. destruct (nth a p2 (0, d)) as [ta xa] eqn:Ea.
  cbn [fst snd] in *. rewrite (item_reach_tags _ _ _ _ _ _ Ntag) in Tp.
  replace (snd (@nth (nat * item) b p2 (0, d))) with xb
    by (change (@nth (nat * item) b p2 (0, d)) with (@nth titem b p2 (0, d)); rewrite Eb; reflexivity).
  replace (snd (@nth (nat * item) a p2 (0, d))) with xa
    by (change (@nth (nat * item) a p2 (0, d)) with (@nth titem a p2 (0, d)); rewrite Ea; reflexivity).
  exact Tp.
Qed.

(* if every level is strictly ordered: no warning, no recycle added anywhere, every level sorted *)
Lemma sort_tree_strict : forall es all ends i, tree_strictb es all ends i = true ->
  snd (sort_tree es all ends i) = true /\
  Permutation (all_recycles (fst (sort_tree es all ends i))) (all_recycles i) /\
  tree_sorted es ends (fst (sort_tree es all ends i)).
Proof.
  intros es all ends i. induction i as [u|p r IH] using item_ind'; intros S.
  - cbn. auto.
  - cbn [tree_strictb] in S. apply andb_true_iff in S. destruct S as (Sc & Sl).
    rewrite forallb_forall in Sc.
    assert (IH' : Forall (fun x => snd (sort_tree es all ends x) = true /\
                    Permutation (all_recycles (fst (sort_tree es all ends x))) (all_recycles x) /\
                    tree_sorted es ends (fst (sort_tree es all ends x))) p).
    { rewrite Forall_forall in *. intros x Hx. apply IH; auto. }
    cbn [sort_tree]. rewrite map_map.
    destruct (sort (item_reach es ends) (item_direct all ends)
                   (number (map (fun x => fst (sort_tree es all ends x)) p))) as [[p2 stop] rs] eqn:E.
    destruct (sort_level_strict _ _ _ _ _ _ _ Sl E) as (St & Rs & Lv). subst stop rs.
    destruct (sort_level_perm _ _ _ _ _ _ _ E) as (Ps & _).
    cbn [fst snd]. split; [|split].
    + rewrite andb_true_r. apply forallb_forall. intros x Hx. apply in_map_iff in Hx.
      destruct Hx as (y & Ey & Hy). subst x. rewrite Forall_forall in IH'. apply (IH' y Hy).
    + cbn [all_recycles]. rewrite add_all_nil. apply Permutation_app_head.
      eapply Permutation_trans; [apply Permutation_flat_map; exact Ps|].
      rewrite flat_map_concat_map, map_map, <- flat_map_concat_map.
      apply flat_map_pointwise_perm with (f := fun x => all_recycles (fst (sort_tree es all ends x))).
      eapply Forall_impl; [|exact IH']. intros x (_ & H & _). exact H.
    + cbn [tree_sorted]. split; [exact Lv|]. apply tree_sorted_children.
      rewrite Forall_forall. intros x Hx.
      assert (Hx' : In x (map (fun y => fst (sort_tree es all ends y)) p))
        by (eapply Permutation_in; [exact Ps|exact Hx]).
      apply in_map_iff in Hx'. destruct Hx' as (y & Ey & Hy). subst x.
      rewrite Forall_forall in IH'. apply (IH' y Hy).
Qed.
