From V Require Import C19.Model.
