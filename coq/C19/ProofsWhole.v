(* C19 — the whole methods of the multi-feed phase (Model.v part 7): _append_network, reduce_recycles and
   join_network_at_unit.  Unit multiset preserved, `units` = units of the path preserved, order facts. *)
From Coq Require Import Permutation.
From V Require Import C19.Model C19.Proofs C19.ProofsSurgery C19.ProofsPaths C19.ProofsDeep.
Local Open Scope nat_scope.

Lemma mk_good : forall path rc U, Forall uok path -> seteq U (flat_map flatn path) -> good (NN path rc U).
Proof. intros path rc U F S. split; [reflexivity|]. apply uok_NN. split; assumption. Qed.

(* ================================================================== _append_network *)
(* every unit of the receiver, in order, then every unit of the argument, in order *)
Lemma append_network_flat : forall s n, is_net s = true -> is_net n = true ->
  flatn (append_network s n) = flatn s ++ flatn n.
Proof.
  intros [u|p r U] [v|q rn Un] Ns Nn; try discriminate.
  unfold append_network, append_linear. cbn [n_rc n_path n_units].
  destruct r as [|r0 r']; destruct rn as [|q0 q']; cbn [is_nil negb flatn flat_map];
    rewrite ?flat_map_app; cbn [flat_map flatn]; rewrite ?app_nil_r; reflexivity.
Qed.

Lemma append_network_ok : forall s n, good s -> good n ->
  good (append_network s n) /\ seteq (n_units (append_network s n)) (n_units s ++ n_units n).
Proof.
  intros [u|p r U] [v|q rn Un] (Ns & Os) (Nn & On); try discriminate.
  pose proof Os as Os'. pose proof On as On'.
  apply uok_NN in Os. destruct Os as (SU & Fp). apply uok_NN in On. destruct On as (SUn & Fq).
  assert (E : forall path rc, Forall uok path ->
              (forall z, In z (flat_map flatn path) <-> In z (flat_map flatn p) \/ In z (flat_map flatn q)) ->
              good (NN path rc (add_all U Un)) /\ seteq (n_units (NN path rc (add_all U Un))) (U ++ Un)).
  { intros path rc F S. split.
    - apply mk_good; [exact F|]. intros z. rewrite add_all_In, (S z), (SU z), (SUn z). reflexivity.
    - intros z. cbn [n_units]. rewrite add_all_In, in_app_iff. reflexivity. }
  unfold append_network, append_linear. cbn [n_rc n_path n_units].
  destruct r as [|r0 r']; destruct rn as [|q0 q']; cbn [is_nil negb]; apply E.
  - apply Forall_app. split; assumption.
  - intros z. rewrite in_flat_app. reflexivity.
  - apply Forall_app. split; [exact Fp|]. constructor; [exact On'|constructor].
  - intros z. rewrite in_flat_app. cbn [flat_map flatn]. rewrite app_nil_r. reflexivity.
  - constructor; [exact Os'|exact Fq].
  - intros z. cbn [flat_map flatn]. rewrite in_app_iff. reflexivity.
  - constructor; [exact Os'|]. constructor; [exact On'|constructor].
  - intros z. cbn [flat_map flatn]. rewrite app_nil_r, in_app_iff. reflexivity.
Qed.

Lemma append_network_once : forall s n, is_net s = true -> is_net n = true ->
  NoDup (flatn s) -> NoDup (flatn n) -> (forall z, In z (flatn s) -> ~ In z (flatn n)) ->
  NoDup (flatn (append_network s n)).
Proof.
  intros s n Ns Nn Ds Dn D. rewrite append_network_flat by assumption.
  apply nodup_app_iff. split; [exact Ds|]. split; [exact Dn|exact D].
Qed.

(* ================================================================== reduce_recycles *)
Definition lift (p1 : list net) (r : list nat) : list net * list nat :=
  match p1 with
  | [NN q rq _] => (q, add_all r rq)
  | _ => (p1, r)
  end.

Lemma reduce_NN : forall all p r U,
  reduce all (NN p r U) =
  obind (sequence (map (reduce all) p))
        (fun p1 => let '(p2, r2) := lift p1 r in option_map (fun r3 => NN p2 r3 U) (reduce_rc all r2)).
Proof. reflexivity. Qed.

Lemma sequence_spec : forall (A : Type) (l : list (option A)) r, sequence l = Some r ->
  Forall2 (fun o x => o = Some x) l r.
Proof.
  intros A l. induction l as [|[a|] t IH]; intros r H; cbn [sequence] in H; try discriminate.
  - inversion H. constructor.
  - destruct (sequence t) as [t'|]; [|discriminate]. cbn in H. inversion H; subst.
    constructor; [reflexivity|apply IH; reflexivity].
Qed.

Lemma lift_flat : forall p1 r, flat_map flatn (fst (lift p1 r)) = flat_map flatn p1.
Proof.
  intros [|[u|q rq Uq] [|y t]] r; try reflexivity. cbn [lift fst flat_map flatn]. rewrite app_nil_r. reflexivity.
Qed.

Lemma lift_uok : forall p1 r, Forall uok p1 -> Forall uok (fst (lift p1 r)).
Proof.
  intros [|[u|q rq Uq] [|y t]] r F; try exact F. cbn [lift fst].
  inversion F as [|x l Hx Hl]; subst. apply uok_NN in Hx. tauto.
Qed.

(* reduce_recycles never touches `units`, nor the units of the path or their order, and keeps
   `units` = units of the path at every level *)
Lemma reduce_keeps : forall all x r, reduce all x = Some r ->
  flatn r = flatn x /\ n_units r = n_units x /\ is_net r = is_net x /\ (uok x -> uok r).
Proof.
  intros all x. induction x as [u|p rc U IH] using net_ind'; intros r H.
  - cbn in H. inversion H; subst. auto.
  - rewrite reduce_NN in H.
    destruct (sequence (map (reduce all) p)) as [p1|] eqn:Sq; [|discriminate]. cbn [obind] in H.
    apply sequence_spec in Sq.
    assert (K : flat_map flatn p1 = flat_map flatn p /\ (Forall uok p -> Forall uok p1)).
    { clear H. revert p1 Sq. induction p as [|a t IHt]; intros p1 Sq; cbn [map] in Sq; inversion Sq; subst.
      - split; [reflexivity|auto].
      - inversion IH as [|? ? Ha Ht]; subst.
        destruct (Ha _ H1) as (Fa & _ & _ & Ua).
        destruct (IHt Ht _ H3) as (Ft & Ut). split.
        + cbn [flat_map]. rewrite Fa, Ft. reflexivity.
        + intros F. inversion F; subst. constructor; auto. }
    destruct K as (KF & KU).
    pose proof (lift_flat p1 rc) as LF. pose proof (lift_uok p1 rc) as LU.
    destruct (lift p1 rc) as (p2, r2). cbn [fst] in LF, LU.
    destruct (reduce_rc all r2) as [r3|]; [|discriminate]. cbn in H. inversion H; subst r.
    cbn [flatn n_units is_net]. split; [rewrite LF, KF; reflexivity|]. split; [reflexivity|]. split; [reflexivity|].
    intros O. apply uok_NN in O. destruct O as (SU & Fp). apply uok_NN. split.
    + intros z. rewrite LF, KF. apply SU.
    + apply LU, KU, Fp.
Qed.

(* a recycle is reduced to a single stream or kept: a level that carried a recycle still carries one *)
Lemma reduce_rc_shape : forall all r r', reduce_rc all r = Some r' -> r' = r \/ exists o, r' = [o] /\ 2 <= length r.
Proof.
  intros all r r' H. unfold reduce_rc in H. destruct (2 <=? length r) eqn:L; [|inversion H; auto].
  apply Nat.leb_le in L.
  destruct (add_all [] (map (sink_of all) r)) as [|k [|k2 t]].
  - destruct (add_all [] (map (source_of all) r)) as [|k [|k2 t]]; try (inversion H; auto; fail).
    destruct (k =? nounit); [discriminate|].
    destruct (ins_of all k) as [|i [|i2 t]]; inversion H; eauto.
  - destruct (k =? nounit); [discriminate|].
    destruct (outs_of all k) as [|o [|o2 t]]; inversion H; eauto.
  - destruct (add_all [] (map (source_of all) r)) as [|k' [|k2' t']]; try (inversion H; auto; fail).
    destruct (k' =? nounit); [discriminate|].
    destruct (ins_of all k') as [|i [|i2 t']]; inversion H; eauto.
Qed.

Lemma reduce_rc_nonempty : forall all r r', reduce_rc all r = Some r' -> (r' = [] <-> r = []).
Proof.
  intros all r r' H. destruct (reduce_rc_shape _ _ _ H) as [E|(o & E & L)]; [subst; tauto|].
  subst r'. split; [discriminate|]. intros E. subst r. cbn in L. lia.
Qed.

(* ================================================================== join_network_at_unit *)
Definition ja_loop (es all : list edge) (tbl : list (list nat * nat)) (f : nat) (s n : net) (unit : nat)
  : list net -> nat -> option (net * net) :=
  let p := n_path s in
  let has_rc := negb (is_nil (n_rc n)) in
  fix loop (l : list net) (index : nat) : option (net * net) :=
    match l with
    | [] => Some (join_linear (S f) s n, n)
    | NN _ _ Ux as item :: t =>
        if memb unit Ux then
          if has_rc then
            match join_at es all tbl f item n unit with
            | Some (item', n') =>
                Some (NN (firstn index p ++ item' :: t) (n_rc s) (add_all (n_units s) (n_units n')), n')
            | None => None
            end
          else Some (insert_linear s index n, n)
        else loop t (S index)
    | NU u :: t =>
        if u =? unit then
          if has_rc then
            if negb (is_nil (n_rc s)) then
              Some (insert_linear (set_rc s (add_all (n_rc s) (n_rc n))) index (set_rc n []), set_rc n [])
            else match insert_recycle es all tbl (S f) s index n p, ir_arg es all tbl (S f) s index n with
                 | Some r, Some n' => Some (r, n')
                 | _, _ => None
                 end
          else Some (insert_linear s index n, n)
        else loop t (S index)
    end.

Lemma join_at_S : forall es all tbl f s n unit,
  join_at es all tbl (S f) s n unit = ja_loop es all tbl f s n unit (n_path s) 0.
Proof. reflexivity. Qed.

Section JoinAt.
Variables (es all : list edge) (tbl : list (list nat * nat)).

(* a network without recycle (what from_feedstock passes: the top-level recycle of a network under
   construction is None) is spliced in whole in front of the item that holds the unit, or handed to
   join_linear_network when no item holds it; the argument is not changed *)
Lemma ja_loop_linear : forall f s n unit, n_rc n = [] -> forall l index r n',
  ja_loop es all tbl f s n unit l index = Some (r, n') ->
  n' = n /\ ((exists i, r = insert_linear s i n) \/ r = join_linear (S f) s n).
Proof.
  intros f s n unit Rn l. induction l as [|x t IH]; intros index r n' H; cbn [ja_loop] in H.
  - inversion H; subst. auto.
  - rewrite Rn in H. cbn [is_nil negb] in H. destruct x as [u|px rx Ux].
    + destruct (u =? unit); [inversion H; subst; eauto|]. exact (IH _ _ _ H).
    + destruct (memb unit Ux); [inversion H; subst; eauto|]. exact (IH _ _ _ H).
Qed.

Lemma disjoint_no_child_overlap : forall s n, good s -> good n ->
  (forall z, In z (flatn n) -> ~ In z (flatn s)) -> no_child_overlap n s = true.
Proof.
  intros [u|p r U] n (Ns & Os) (Nn & On) D; [discriminate|]. apply uok_NN in Os. destruct Os as (SU & Fp).
  unfold no_child_overlap. cbn [n_path]. apply forallb_forall. intros x Hx.
  unfold ovl, overlaps. destruct (is_net x) eqn:Nx; [|reflexivity]. cbn [andb]. rewrite negb_involutive.
  apply disjointb_true. intros z Hz Hzx.
  apply (D z); [apply (units_flat n On); exact Hz|].
  cbn [flatn]. apply in_flat_of with (x := x); [exact Hx|].
  rewrite Forall_forall in Fp. apply (units_flat x (Fp x Hx)). exact Hzx.
Qed.

Theorem join_at_linear_once : forall f s n unit r n',
  good s -> good n -> NoDup (flatn s) -> NoDup (flatn n) ->
  (forall z, In z (flatn n) -> ~ In z (flatn s)) -> n_rc n = [] ->
  join_at es all tbl (S f) s n unit = Some (r, n') ->
  n' = n /\ good r /\ seteq (n_units r) (n_units s ++ n_units n) /\
  NoDup (flatn r) /\ Permutation (flatn r) (flatn s ++ flatn n).
Proof.
  intros f s n unit r n' Gs Gn Ds Dn D Rn H. rewrite join_at_S in H.
  destruct (ja_loop_linear f s n unit Rn _ _ _ _ H) as (En & Sh). split; [exact En|].
  assert (K : good r /\ seteq (n_units r) (n_units s ++ n_units n) /\ NoDup (flatn r)).
  { destruct Sh as [(i & E)|E]; subst r.
    - destruct s as [u|p rs U]; [destruct Gs; discriminate|].
      pose proof Gs as (_ & Os). apply uok_NN in Os. destruct Os as (SU & Fp).
      destruct (insert_linear_ok p rs U n i Fp SU Gn p (fun z Hz => Hz) (fun z Hz => or_intror Hz) Fp) as (A & B).
      split; [exact A|]. split; [exact B|].
      unfold insert_linear. cbn [flatn n_path].
      apply insert_nodup; [exact Ds| |].
      + rewrite <- flatn_path; [exact Dn|apply Gn].
      + intros z Hz. rewrite <- flatn_path in Hz by apply Gn. exact (D z Hz).
    - destruct (join_linear_ok f s n Gs Gn) as (A & B). split; [exact A|]. split; [exact B|].
      apply join_linear_nodup; auto. apply disjoint_no_child_overlap; auto. }
  destruct K as (Gr & Sr & Nr). split; [exact Gr|]. split; [exact Sr|]. split; [exact Nr|].
  apply NoDup_Permutation; [exact Nr| |].
  - apply nodup_app_iff. split; [exact Ds|]. split; [exact Dn|]. intros z Hs Hn. exact (D z Hn Hs).
  - intros z. rewrite <- (units_flat r (proj2 Gr) z), (Sr z), !in_app_iff.
    rewrite (units_flat s (proj2 Gs) z), (units_flat n (proj2 Gn) z). reflexivity.
Qed.

(* order: the relative order of the receiver's units is kept and the spliced units stay together, in
   their order, when an item holds the unit *)
Theorem join_at_linear_order : forall f s n unit r n', is_net s = true -> is_net n = true -> n_rc n = [] ->
  join_at es all tbl (S f) s n unit = Some (r, n') ->
  (exists a b, flatn s = a ++ b /\ flatn r = a ++ flatn n ++ b) \/ r = join_linear (S f) s n.
Proof.
  intros f s n unit r n' Ns Nn Rn H. rewrite join_at_S in H.
  destruct (ja_loop_linear f s n unit Rn _ _ _ _ H) as (_ & [(i & E)|E]); [left|right; exact E].
  destruct s as [u|p rs U]; [discriminate|]. subst r.
  exists (flat_map flatn (firstn i p)), (flat_map flatn (skipn i p)). split.
  - cbn [flatn]. rewrite <- flat_map_app, firstn_skipn. reflexivity.
  - apply flatn_insert_linear. exact Nn.
Qed.
End JoinAt.
