(* C11 — get_property / set_property of a stream (utils/decorators/units_of_measure.py) for the flow totals
   F_mol / F_mass / F_vol, on top of the machine of Model.v.  Executable definitions only.

   get_property(name, units):  value = getattr(self, name)                      (the total is read first)
                               return original_units.convert(value, units)      = value * conversion_factor(units)
   set_property(name, v, units): value = original_units.unconvert(v, units)     = v / conversion_factor(units)
                               setattr(self, name, value)                       (the F_mol / F_mass / F_vol setter)
   original_units is the AbsoluteUnitsOfMeasure object of the dimension of the total: the object whose factor_cache is
   u_fac of Model.v (conversion_factor = cfactor: a cached factor is returned as it is, a miss asks pint and stores). *)
From Coq Require Import List QArith Bool Arith.
From V Require Import Common.Num C11.Model.
Import ListNotations.
Open Scope Q_scope.

Inductive opx :=
| XBase (o : op)                                    (* an operation of Model.v *)
| XGetProp (i : nat) (w : view) (u : nat)           (* s_i.get_property('F_<w>', unit u) *)
| XSetProp (i : nat) (w : view) (u : nat) (v : Q).  (* s_i.set_property('F_<w>', v, unit u) *)

Section ModelProp.
Variable Vf : nat -> phase -> Q -> Q -> Q.
Variable MWf : nat -> Q.
Variable pkgs : list (list nat).
Variable utab : list (option (view * Q)).

Definition set_ku S (U : ustate) : sstate := mkS (mkK U (k_ic (sk S))) (s_subs S) (s_locked S).

(* the units object answers (and remembers) in the state the machine is in *)
Definition convS S (w : view) (u : nat) : sstate * res Q :=
  let '(U1, q) := cfactor utab (ku (sk S)) w u in (set_ku S U1, q).

Definition get_property S (i : nat) (w : view) (u : nat) : sstate * outcome :=
  let '(S1, x) := stepS Vf MWf pkgs utab S (OTotal i w) in
  match x with
  | XMat [[y]] => let '(S2, q) := convS S1 w u in
                  (S2, match q with Ok f => XMat [[f * y]] | Err e => XErr e end)
  | _ => (S1, x)
  end.

Definition set_property S (i : nat) (w : view) (u : nat) (v : Q) : sstate * outcome :=
  let '(S1, q) := convS S w u in
  match q with
  | Ok f => stepS Vf MWf pkgs utab S1 (OSetF i w (v / f))
  | Err e => (S1, XErr e)
  end.

Definition stepX S (o : opx) : sstate * outcome :=
  match o with
  | XBase o' => stepS Vf MWf pkgs utab S o'
  | XGetProp i w u => get_property S i w u
  | XSetProp i w u v => set_property S i w u v
  end.
Fixpoint runX S (ops : list opx) : sstate * list outcome :=
  match ops with
  | [] => (S, [])
  | o :: t => let '(S1, x) := stepX S o in let '(S2, xs) := runX S1 t in (S2, x :: xs)
  end.
End ModelProp.

Definition check_caseX (utab : list (option (view * Q))) (l : list init) (ops : list opx)
           (obs : list outcome) (fins : list fin) : bool :=
  let '(S1, xs) := runX vstub mwstub pkgstub utab (buildS l) ops in
  let h1 := s_heap S1 in
  list_eqb outcome_eqb xs obs
  && list_eqb fin_eqb (snapshots vstub mwstub pkgstub h1 (length (streams h1)) O) fins.
Definition show_caseX (utab : list (option (view * Q))) (l : list init) (ops : list opx) :=
  let '(S1, xs) := runX vstub mwstub pkgstub utab (buildS l) ops in
  (xs, snapshots vstub mwstub pkgstub (s_heap S1) (length (streams (s_heap S1))) O, S1).
