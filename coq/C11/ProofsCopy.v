(* C11 — second deepening round: heap-level read-back of a view written with (a row of) a view.
   (1) row level: what xfer_vol writes, read again through the destination row, is EXACTLY (==) what a read of the
       source row returned: the memo entries that the write left are the ones the read then uses;
   (2) ms.i<view>[p] = ms.i<view>[q] (copy_row_view) for the molar, mass and volumetric view after any history;
   (3) s_i.vol = s_j.vol (assign_view VVol) after any history. *)
From V Require Import Common.NumFacts C11.Model C11.Proofs C11.ProofsDeep.
Import ListNotations.

Section Copy.
Variable Vf : nat -> phase -> Q -> Q -> Q.
Variable MWf : nat -> Q.
Variable pkgs : list (list nat).
Hypothesis MW_nz : forall g, ~ MWf g == 0.
Hypothesis Vf_nz : forall g p T P, ~ Vf g p T P == 0.

Notation Inv := (Inv Vf pkgs).
Notation vfac := (vfactor Vf pkgs).

(* the factor depends on the heap only through the ThermalCondition cells and the phase boxes *)
Lemma vfactor_env h h' vv vv' r k :
  tps h' = tps h -> boxes h' = boxes h -> vv_tp vv' = vv_tp vv -> vv_pkg vv' = vv_pkg vv ->
  vfac h' vv' r k = vfac h vv r k.
Proof.
  intros ET EB E1 E2. unfold vfactor, gettp. rewrite E1, E2, ET.
  assert (B : src_phase h' (vr_src r) = src_phase h (vr_src r)).
  { destruct (vr_src r) as [p|b]; simpl; auto. unfold getbox. rewrite EB. reflexivity. }
  rewrite B. reflexivity.
Qed.

(* two memo states of one view row that answer every key alike *)
Definition agree h vv (r' r : vrow) : Prop :=
  vr_src r' = vr_src r /\ vr_dct r' = vr_dct r /\ forall k, fst (vfac h vv r' k) = fst (vfac h vv r k).

Lemma agree_refl h vv r : agree h vv r r.
Proof. repeat split. Qed.
Lemma agree_trans h vv a b c : agree h vv a b -> agree h vv b c -> agree h vv a c.
Proof. intros (A1 & A2 & A3) (B1 & B2 & B3). split; [congruence|split; [congruence|]]. intros k. rewrite A3. apply B3. Qed.

Lemma vfactor_src h vv r k : vr_src (snd (vfac h vv r k)) = vr_src r /\ vr_dct (snd (vfac h vv r k)) = vr_dct r.
Proof.
  unfold vfactor. destruct (memo_get k (vr_memo r)) as [e|]; [|split; reflexivity].
  match goal with |- context [if ?c then _ else _] => destruct c end; split; reflexivity.
Qed.

Lemma vfactor_agree h vv r k : agree h vv (snd (vfac h vv r k)) r.
Proof.
  destruct (vfactor_src h vv r k) as (A & B). split; [exact A|split; [exact B|]]. intros k'.
  destruct (Nat.eq_dec k' k) as [E|N].
  - subst k'. rewrite (vfactor_again Vf pkgs h h vv vv r k); reflexivity.
  - apply (vfactor_other Vf pkgs h h vv vv r k k' N); reflexivity.
Qed.

(* reading a view row: every entry is the molar entry times the factor the row answers with NOW *)
Lemma read_vrow_vals h vv : forall vals r k0,
  agree h vv (snd (read_vrow Vf pkgs h vv r k0 vals)) r /\
  forall j, nthq (fst (read_vrow Vf pkgs h vv r k0 vals)) j == nthq vals j * fst (vfac h vv r (k0 + j)).
Proof.
  induction vals as [|x t IH]; intros r k0.
  - simpl. split; [apply agree_refl|]. intros j. rewrite nthq_nil. ring.
  - cbn [read_vrow]. destruct (qzerob x) eqn:Z.
    + destruct (IH r (S k0)) as (A & B).
      destruct (read_vrow Vf pkgs h vv r (S k0) t) as [o r']. cbn [fst snd] in *. split; [exact A|].
      intros [|j].
      * unfold nthq; simpl. apply qzerob_true in Z. rewrite Z. ring.
      * specialize (B j). unfold nthq in *; simpl. rewrite B. replace (k0 + S j)%nat with (S k0 + j)%nat by lia. reflexivity.
    + pose proof (vfactor_agree h vv r k0) as AG.
      destruct (vfac h vv r k0) as [V r1] eqn:EV. cbn [fst snd] in *.
      destruct (IH r1 (S k0)) as (A & B).
      destruct (read_vrow Vf pkgs h vv r1 (S k0) t) as [o r']. cbn [fst snd] in *.
      split; [eapply agree_trans; eauto|].
      intros [|j].
      * unfold nthq; simpl. rewrite Nat.add_0_r, EV. reflexivity.
      * specialize (B j). unfold nthq in *; simpl. rewrite B. destruct AG as (_ & _ & AG). rewrite AG.
        replace (k0 + S j)%nat with (S k0 + j)%nat by lia. reflexivity.
Qed.

(* the transfer: out * (destination factor) == in * (source factor), with the factors the two rows answer with NOW,
   and both rows keep answering alike afterwards *)
Lemma xfer_vol_vals h vo vs : forall vals ro rs k0,
  (forall k, ~ fst (vfac h vs rs k) == 0) ->
  agree h vo (snd (fst (xfer_vol Vf pkgs h vo vs ro rs k0 vals))) ro /\
  agree h vs (snd (xfer_vol Vf pkgs h vo vs ro rs k0 vals)) rs /\
  forall j, nthq (fst (fst (xfer_vol Vf pkgs h vo vs ro rs k0 vals))) j * fst (vfac h vs rs (k0 + j))
            == nthq vals j * fst (vfac h vo ro (k0 + j)).
Proof.
  induction vals as [|x t IH]; intros ro rs k0 NZ.
  - simpl. split; [apply agree_refl|split; [apply agree_refl|]]. intros j. rewrite nthq_nil. ring.
  - cbn [xfer_vol]. destruct (qzerob x) eqn:Z.
    + destruct (IH ro rs (S k0) NZ) as (A & B & C).
      destruct (xfer_vol Vf pkgs h vo vs ro rs (S k0) t) as [[o ro'] rs']. cbn [fst snd] in *.
      split; [exact A|split; [exact B|]]. intros [|j].
      * unfold nthq; simpl. apply qzerob_true in Z. rewrite Z. ring.
      * specialize (C j). unfold nthq in *; simpl. replace (k0 + S j)%nat with (S k0 + j)%nat by lia. exact C.
    + pose proof (vfactor_agree h vo ro k0) as AGo. pose proof (vfactor_agree h vs rs k0) as AGs.
      destruct (vfac h vo ro k0) as [Vo ro1] eqn:EO. destruct (vfac h vs rs k0) as [Vd rs1] eqn:ED. cbn [fst snd] in *.
      assert (NZ1 : forall k, ~ fst (vfac h vs rs1 k) == 0).
      { intros k. destruct AGs as (_ & _ & AGs). rewrite AGs. apply NZ. }
      destruct (IH ro1 rs1 (S k0) NZ1) as (A & B & C).
      destruct (xfer_vol Vf pkgs h vo vs ro1 rs1 (S k0) t) as [[o ro'] rs']. cbn [fst snd] in *.
      split; [eapply agree_trans; eauto|split; [eapply agree_trans; eauto|]]. intros [|j].
      * unfold nthq; simpl. rewrite Nat.add_0_r, EO, ED. cbn [fst]. field.
        specialize (NZ k0). rewrite ED in NZ. exact NZ.
      * specialize (C j). unfold nthq in *; simpl. replace (k0 + S j)%nat with (S k0 + j)%nat by lia.
        destruct AGo as (_ & _ & AGo). destruct AGs as (_ & _ & AGs). rewrite <- AGo, <- AGs. exact C.
Qed.

(* ROW LEVEL: write the source row into the destination row, then read the destination row: exactly the values a read
   of the source row gives (in any later heap with the same ThermalCondition cells and phase boxes) *)
Lemma xfer_then_read h h' vo vs vs' vals ro rs :
  tps h' = tps h -> boxes h' = boxes h -> vv_tp vs' = vv_tp vs -> vv_pkg vs' = vv_pkg vs ->
  (forall k, ~ fst (vfac h vs rs k) == 0) ->
  let res := xfer_vol Vf pkgs h vo vs ro rs O vals in
  forall j, nthq (fst (read_vrow Vf pkgs h' vs' (snd res) O (map Qred (fst (fst res))))) j
            == nthq (fst (read_vrow Vf pkgs h vo ro O vals)) j.
Proof.
  intros ET EB E1 E2 NZ res j.
  destruct (xfer_vol_vals h vo vs vals ro rs O NZ) as (_ & (_ & _ & AG) & X). fold res in AG, X.
  rewrite (proj2 (read_vrow_vals h' vs' _ _ _) j), (proj2 (read_vrow_vals h vo vals ro O) j).
  cbn [Nat.add]. rewrite (vfactor_env h h' vs vs' _ j ET EB E1 E2), AG, nthq_map_Qred. exact (X j).
Qed.

Lemma read_vrows_nth h vv : forall l n r, nth_error l n = Some r ->
  nth n (fst (read_vrows Vf pkgs h vv l)) [] = fst (read_vrow Vf pkgs h vv r O (getrow h (vr_dct r))).
Proof.
  induction l as [|a l IH]; intros [|n] r H; simpl in H; try discriminate.
  - inversion H; subst a. cbn [read_vrows].
    destruct (read_vrow Vf pkgs h vv r 0 (getrow h (vr_dct r))) as [o r'].
    destruct (read_vrows Vf pkgs h vv l) as [os rs]. reflexivity.
  - cbn [read_vrows]. specialize (IH n r H).
    destruct (read_vrow Vf pkgs h vv a 0 (getrow h (vr_dct a))) as [o r'].
    destruct (read_vrows Vf pkgs h vv l) as [os rs]. cbn [fst] in *. exact IH.
Qed.

Lemma read_vol_nth h s n r : nth_error (vv_rows (by_volume h s)) n = Some r ->
  nth n (snd (read_vol Vf pkgs h s)) [] = fst (read_vrow Vf pkgs h (by_volume h s) r O (getrow h (vr_dct r))).
Proof.
  intros H. unfold read_vol. pose proof (read_vrows_nth h (by_volume h s) _ n r H) as X.
  destruct (read_vrows Vf pkgs h (by_volume h s) (vv_rows (by_volume h s))) as [m rs]. exact X.
Qed.

Lemma vfac_nonzero h vv r k pk : vv_pkg vv = pk -> vrow_ok Vf pkgs pk r -> ~ fst (vfac h vv r k) == 0.
Proof.
  intros PK OK. destruct (vfactor_ok Vf pkgs h vv r k pk PK OK) as ((T' & P' & _ & _ & FV) & _).
  rewrite FV. unfold Vat. intros Q0. apply (Vf_nz (gid pkgs pk k) (base (src_phase h (vr_src r))) T' P'). lra.
Qed.

Lemma getrow_put_row_eq h d v : (d < length (rows h))%nat -> getrow (put_row h d v) d = map Qred v.
Proof. intros L. unfold getrow, put_row. simpl. apply nth_upd_eq. exact L. Qed.
Lemma getrow_put_row_neq h d v d' : d <> d' -> getrow (put_row h d v) d' = getrow h d'.
Proof. intros N. unfold getrow, put_row. simpl. apply nth_upd_neq. exact N. Qed.

(* ---------- (2) ms.ivol[p] = ms.ivol[q] at heap level ---------- *)
Lemma copy_row_vol_reads_back h i s r1 r2 d1 d2 src1 src2 :
  Inv h -> nth_error (streams h) i = Some s -> multi s = true ->
  nth_error (srcs h s) r1 = Some (d1, src1) -> nth_error (srcs h s) r2 = Some (d2, src2) ->
  d1 <> d2 -> (d1 < length (rows h))%nat ->
  let h' := fst (copy_row_view Vf MWf pkgs h s VVol r1 r2) in
  snd (copy_row_view Vf MWf pkgs h s VVol r1 r2) = XNone /\
  (forall j, nthq (nth r1 (snd (read_vol Vf pkgs h' s)) []) j == nthq (nth r2 (snd (read_vol Vf pkgs h s)) []) j) /\
  (forall d, d <> d1 -> getrow h' d = getrow h d) /\
  tps h' = tps h /\ boxes h' = boxes h /\ arrs h' = arrs h /\ streams h' = streams h.
Proof.
  intros I Hs M H1 H2 ND D.
  assert (NR : r1 <> r2) by (intros E; subst r2; rewrite H1 in H2; inversion H2; auto).
  destruct (I i s Hs) as ((WC & _) & _ & _).
  destruct (vrow_at Vf pkgs h i s r1 d1 src1 (conj I (conj Hs (conj H1 D)))) as (rd & R1 & DD & _ & OKd & PK).
  assert (D2 : True) by exact Logic.I.
  pose proof (by_volume_ok Vf pkgs h i s I Hs) as (A & B & C & F).
  assert (R2 : exists ro, nth_error (vv_rows (by_volume h s)) r2 = Some ro /\ vr_dct ro = d2 /\ vrow_ok Vf pkgs (pkg s) ro).
  { rewrite <- A in H2. apply nth_error_map_inv in H2. destruct H2 as (ro & Hro & E). unfold vsrc in E. inversion E; subst.
    exists ro. repeat split; auto. apply (proj1 (Forall_forall _ _) F). eapply nth_error_In; eauto. }
  destruct R2 as (ro & R2 & DO & OKo).
  rewrite (read_vol_nth h s r2 ro R2).
  unfold copy_row_view. rewrite M. cbn [negb]. set (vv := by_volume h s) in *. rewrite R1, R2.
  assert (Q : Nat.eqb r1 r2 = false) by (apply Nat.eqb_neq; exact NR). rewrite Q.
  rewrite DD, DO.
  set (h1 := store_vol h s vv). set (h2 := put_row h1 d1 (zero_like (getrow h1 d1))).
  assert (G2 : getrow h2 d2 = getrow h d2) by (unfold h2; rewrite getrow_put_row_neq by exact ND; reflexivity).
  rewrite G2.
  assert (NZ : forall k, ~ fst (vfac h vv rd k) == 0) by (intros k; apply (vfac_nonzero h vv rd k (pkg s) PK OKd)).
  assert (ENV : xfer_vol Vf pkgs h2 vv vv ro rd O (getrow h d2) = xfer_vol Vf pkgs h vv vv ro rd O (getrow h d2)).
  { generalize (getrow h d2) O. intros vals. generalize ro rd. induction vals as [|x t IH]; intros ro0 rd0 k0; [reflexivity|].
    cbn [xfer_vol]. rewrite !(vfactor_env h h2 vv vv) by reflexivity.
    destruct (qzerob x); [rewrite IH; reflexivity|].
    destruct (vfac h vv ro0 k0) as [Vo ro1]. destruct (vfac h vv rd0 k0) as [Vd rs1]. rewrite IH. reflexivity. }
  rewrite ENV.
  pose proof (xfer_then_read h) as XR.
  destruct (xfer_vol Vf pkgs h vv vv ro rd O (getrow h d2)) as [[vals ro'] rd'] eqn:EX. cbn [fst snd].
  set (vv' := mkvv (upd (upd (vv_rows vv) r2 ro') r1 rd') (vv_tp vv) (vv_pkg vv)).
  set (h3 := store_vol h2 s vv'). set (h' := put_row h3 d1 vals).
  split; [reflexivity|]. split; [|split; [|repeat split]].
  - intros j.
    assert (BV : by_volume h' s = vv').
    { change (by_volume h' s) with (by_volume h3 s). unfold h3. apply by_volume_store. unfold h2, h1, store_vol, put_cache. simpl. rewrite upd_length. exact WC. }
    assert (R1' : nth_error (vv_rows (by_volume h' s)) r1 = Some rd').
    { rewrite BV. unfold vv'. cbn [vv_rows]. apply nth_error_upd_same. rewrite upd_length. eapply nth_error_lt; eauto. }
    rewrite (read_vol_nth h' s r1 rd' R1'). rewrite BV.
    assert (DD' : vr_dct rd' = d1).
    { destruct (xfer_vol_vals h vv vv (getrow h d2) ro rd O NZ) as (_ & (_ & E & _) & _). rewrite EX in E. cbn [snd] in E. congruence. }
    rewrite DD'. assert (G1 : getrow h' d1 = map Qred vals).
    { unfold h'. apply getrow_put_row_eq. simpl. rewrite upd_length. exact D. }
    rewrite G1.
    specialize (XR h' vv vv vv' (getrow h d2) ro rd). rewrite EX in XR. cbn [fst snd] in XR. apply XR; try reflexivity. exact NZ.
  - intros d N. unfold h'. rewrite getrow_put_row_neq by auto. unfold h3, h2.
    change (getrow (store_vol (put_row h1 d1 (zero_like (getrow h1 d1))) s vv') d) with (getrow (put_row h1 d1 (zero_like (getrow h1 d1))) d).
    rewrite getrow_put_row_neq by auto. reflexivity.
Qed.

(* ms.imass[p] = ms.imass[q] and ms.imol[p] = ms.imol[q] at heap level *)
Lemma xfer_mass_same mw : forall vals, (forall b, In b mw -> ~ b == 0) -> length mw = length vals ->
  forall k, nthq (xfer_mass mw mw vals) k == nthq vals k.
Proof.
  intros vals NZ L k.
  pose proof (xfer_mass_spec vals mw mw L L NZ k) as X.
  destruct (Nat.lt_ge_cases k (length mw)) as [LT|GE].
  - assert (NB : ~ nthq mw k == 0) by (apply NZ; unfold nthq; apply nth_In; exact LT).
    assert (E : nthq (xfer_mass mw mw vals) k == (nthq (xfer_mass mw mw vals) k * nthq mw k) / nthq mw k) by (field; exact NB).
    rewrite E, X. field. exact NB.
  - assert (LX : forall vs a b, length (xfer_mass a b vs) = length vs).
    { induction vs as [|x t IH]; intros [|a ms] [|b md]; simpl; auto; try (rewrite map_length; reflexivity); try (f_equal; apply IH). }
    unfold nthq. rewrite !nth_overflow; try reflexivity; try lia. rewrite LX. lia.
Qed.

Lemma copy_row_mass_reads_back h i s r1 r2 d1 d2 src1 src2 :
  Inv h -> nth_error (streams h) i = Some s -> multi s = true ->
  nth_error (srcs h s) r1 = Some (d1, src1) -> nth_error (srcs h s) r2 = Some (d2, src2) ->
  d1 <> d2 -> (d1 < length (rows h))%nat -> length (getrow h d2) = length (mwvec MWf pkgs (pkg s)) ->
  let h' := fst (copy_row_view Vf MWf pkgs h s VMass r1 r2) in
  snd (copy_row_view Vf MWf pkgs h s VMass r1 r2) = XNone /\
  (forall j, nthq (getrow h' d1) j == nthq (getrow h d2) j) /\
  (forall j, nthq (nth r1 (snd (read_mass MWf pkgs h' s)) []) j == nthq (nth r2 (snd (read_mass MWf pkgs h s)) []) j) /\
  (forall d, d <> d1 -> getrow h' d = getrow h d) /\
  tps h' = tps h /\ boxes h' = boxes h /\ arrs h' = arrs h /\ streams h' = streams h.
Proof.
  intros I Hs M H1 H2 ND D L2.
  assert (NR : r1 <> r2) by (intros E; subst r2; rewrite H1 in H2; inversion H2; auto).
  pose proof (inv_copy_row_view Vf MWf pkgs h i s VMass r1 r2 I Hs) as I'.
  pose proof (mass_get_lemma Vf MWf pkgs h i s I Hs r2 d2 src2 H2 L2) as RB.
  unfold copy_row_view in *. rewrite M in *. cbn [negb] in *.
  destruct (inv_by_mass Vf pkgs h i s I Hs) as (I1 & (A1 & B1) & R & AR & S & T & BX).
  destruct (by_mass h s) as [h1 mv]. cbn [fst snd] in *.
  rewrite <- A1 in H1, H2. rewrite H1, H2 in *.
  assert (Q : Nat.eqb r1 r2 = false) by (apply Nat.eqb_neq; exact NR). rewrite Q in *. cbn [fst snd] in *.
  assert (GR : forall d, getrow h1 d = getrow h d) by (intros; unfold getrow; rewrite R; reflexivity).
  set (h2 := put_row h1 d1 (zero_like (getrow h1 d1))) in *.
  assert (G2 : getrow h2 d2 = getrow h d2) by (unfold h2; rewrite getrow_put_row_neq by exact ND; apply GR).
  rewrite G2 in *. rewrite B1 in *.
  set (vals := xfer_mass (mwvec MWf pkgs (pkg s)) (mwvec MWf pkgs (pkg s)) (getrow h d2)) in *.
  set (h' := put_row h2 d1 vals) in *.
  assert (G1 : getrow h' d1 = map Qred vals).
  { unfold h'. apply getrow_put_row_eq. unfold h2. simpl. rewrite upd_length, R. exact D. }
  assert (NZ : forall b, In b (mwvec MWf pkgs (pkg s)) -> ~ b == 0).
  { intros b Hb. unfold mwvec in Hb. apply in_map_iff in Hb. destruct Hb as (g & <- & _). apply MW_nz. }
  assert (V : forall j, nthq (getrow h' d1) j == nthq (getrow h d2) j).
  { intros j. rewrite G1, nthq_map_Qred. unfold vals. apply xfer_mass_same; auto. }
  assert (LV : length vals = length (getrow h d2)).
  { unfold vals. generalize (mwvec MWf pkgs (pkg s)). intros mw.
    assert (LX : forall vs a b, length (xfer_mass a b vs) = length vs).
    { induction vs as [|x t IH]; intros [|a ms] [|b md]; simpl; auto; try (rewrite map_length; reflexivity); try (f_equal; apply IH). }
    apply LX. }
  split; [reflexivity|]. split; [exact V|]. split; [|split; [|repeat split; try (simpl; congruence)]].
  - intros j.
    assert (Hs' : nth_error (streams h') i = Some s) by (unfold h', h2; simpl; congruence).
    assert (H1' : nth_error (srcs h' s) r1 = Some (d1, src1)).
    { rewrite <- H1, A1. f_equal. apply srcs_ext. intros _. unfold getarr, h', h2. simpl. rewrite AR. reflexivity. }
    rewrite (mass_get_lemma Vf MWf pkgs h' i s I' Hs' r1 d1 src1 H1').
    2:{ rewrite G1, map_length, LV. exact L2. }
    rewrite RB, V. reflexivity.
  - intros d N. unfold h'. rewrite getrow_put_row_neq by auto. unfold h2. rewrite getrow_put_row_neq by auto. apply GR.
Qed.

Lemma copy_row_mol_reads_back h s r1 r2 d1 d2 src1 src2 :
  multi s = true -> nth_error (srcs h s) r1 = Some (d1, src1) -> nth_error (srcs h s) r2 = Some (d2, src2) ->
  d1 <> d2 -> (d1 < length (rows h))%nat ->
  let h' := fst (copy_row_view Vf MWf pkgs h s VMol r1 r2) in
  snd (copy_row_view Vf MWf pkgs h s VMol r1 r2) = XNone /\
  (forall j, nthq (getrow h' d1) j == nthq (getrow h d2) j) /\
  (forall d, d <> d1 -> getrow h' d = getrow h d) /\
  tps h' = tps h /\ boxes h' = boxes h /\ arrs h' = arrs h /\ streams h' = streams h /\ caches h' = caches h.
Proof.
  intros M H1 H2 ND D.
  assert (NR : r1 <> r2) by (intros E; subst r2; rewrite H1 in H2; inversion H2; auto).
  unfold copy_row_view. rewrite M. cbn [negb].
  rewrite (nth_error_srcs_rowrefs h s r1 d1 src1 H1), (nth_error_srcs_rowrefs h s r2 d2 src2 H2).
  assert (Q : Nat.eqb r1 r2 = false) by (apply Nat.eqb_neq; exact NR). rewrite Q. cbn [fst snd].
  split; [reflexivity|]. split; [|split; [|repeat split]].
  - intros j. rewrite getrow_put_row_eq by exact D. apply nthq_map_Qred.
  - intros d N. apply getrow_put_row_neq. auto.
Qed.

(* ---------- (3) s_i.vol = s_j.vol at heap level ---------- *)
Lemma assign_vol_reads_back h i j s o :
  Inv h -> nth_error (streams h) i = Some s -> nth_error (streams h) j = Some o ->
  multi s = false -> multi o = false -> pkg s = pkg o -> (cch s <> cch o \/ tc s <> tc o) -> sdata s <> sdata o ->
  (sdata s < length (rows h))%nat ->
  let h' := fst (assign_view Vf MWf pkgs h s o VVol) in
  snd (assign_view Vf MWf pkgs h s o VVol) = XNone /\
  (forall k, nthq (nth O (snd (read_vol Vf pkgs h' s)) []) k == nthq (nth O (snd (read_vol Vf pkgs h o)) []) k) /\
  (forall d, d <> sdata s -> getrow h' d = getrow h d) /\
  tps h' = tps h /\ boxes h' = boxes h /\ arrs h' = arrs h /\ streams h' = streams h.
Proof.
  intros I Hs Ho M MO PK NC ND D.
  destruct (I i s Hs) as ((WC & _) & _ & _). destruct (I j o Ho) as ((WCo & _) & _ & _).
  pose proof (by_volume_ok Vf pkgs h j o I Ho) as OKo.
  pose proof (inv_store_vol Vf pkgs h j o _ I Ho OKo) as I1.
  unfold assign_view. rewrite M, MO, PK, Nat.eqb_refl. cbn [orb negb].
  set (vo := by_volume h o) in *. set (h1 := store_vol h o vo) in *.
  assert (Hs1 : nth_error (streams h1) i = Some s) by exact Hs.
  pose proof (by_volume_ok Vf pkgs h1 i s I1 Hs1) as OKs.
  set (vs := by_volume h1 s) in *. set (h2 := store_vol h1 s vs).
  assert (Q : Nat.eqb (cch s) (cch o) && Nat.eqb (tc s) (tc o) = false).
  { apply andb_false_iff. destruct NC as [N|N]; [left|right]; apply Nat.eqb_neq; exact N. }
  rewrite Q.
  destruct OKo as (Ao & Bo & Co & Fo). destruct OKs as (As & Bs & Cs & Fs).
  assert (So : srcs h o = [(sdata o, Box (pbox o))]) by (unfold srcs; rewrite MO; reflexivity).
  assert (Ss : srcs h1 s = [(sdata s, Box (pbox s))]) by (unfold srcs; rewrite M; reflexivity).
  rewrite So in Ao. rewrite Ss in As.
  destruct (vv_rows vo) as [|ro [|? ?]] eqn:RO; try discriminate. destruct (vv_rows vs) as [|rs [|? ?]] eqn:RS; try discriminate.
  unfold vsrc in Ao, As. inversion Ao as [[DO SO]]. inversion As as [[DS SS]].
  inversion Fo as [|? ? OKro _]; subst. inversion Fs as [|? ? OKrs _]; subst.
  rewrite DS, DO.
  set (h3 := put_row h2 (sdata s) (zero_like (getrow h2 (sdata s)))).
  assert (G3 : getrow h3 (sdata o) = getrow h (sdata o)) by (unfold h3; rewrite getrow_put_row_neq by exact ND; reflexivity).
  rewrite G3.
  assert (NZ : forall k, ~ fst (vfac h vs rs k) == 0) by (intros k; apply (vfac_nonzero h vs rs k (pkg s) Cs OKrs)).
  assert (ENV : xfer_vol Vf pkgs h3 vo vs ro rs O (getrow h (sdata o)) = xfer_vol Vf pkgs h vo vs ro rs O (getrow h (sdata o))).
  { generalize (getrow h (sdata o)) O. intros vals. generalize ro rs. induction vals as [|x t IH]; intros ro0 rd0 k0; [reflexivity|].
    cbn [xfer_vol]. rewrite (vfactor_env h h3 vo vo), (vfactor_env h h3 vs vs) by reflexivity.
    destruct (qzerob x); [rewrite IH; reflexivity|].
    destruct (vfac h vo ro0 k0) as [Vo ro1]. destruct (vfac h vs rd0 k0) as [Vd rs1]. rewrite IH. reflexivity. }
  rewrite ENV.
  pose proof (xfer_then_read h) as XR.
  pose proof (xfer_vol_vals h vo vs (getrow h (sdata o)) ro rs O NZ) as (_ & (_ & DD' & _) & _).
  destruct (xfer_vol Vf pkgs h vo vs ro rs O (getrow h (sdata o))) as [[vals ro'] rs'] eqn:EX. cbn [fst snd] in *.
  set (vo' := mkvv (upd [ro] 0 ro') (vv_tp vo) (vv_pkg vo)). set (vs' := mkvv (upd [rs] 0 rs') (vv_tp vs) (vv_pkg vs)).
  set (h4 := store_vol h3 o vo'). set (h5 := store_vol h4 s vs'). set (h' := put_row h5 (sdata s) vals).
  split; [reflexivity|]. split; [|split; [|repeat split]].
  - intros k.
    assert (BV : by_volume h' s = vs').
    { change (by_volume h' s) with (by_volume h5 s). unfold h5. apply by_volume_store. unfold h4, store_vol, put_cache. simpl.
      rewrite upd_length. unfold h3, h2, h1, store_vol, put_cache. simpl. rewrite !upd_length. exact WC. }
    assert (R1' : nth_error (vv_rows (by_volume h' s)) O = Some rs') by (rewrite BV; reflexivity).
    rewrite (read_vol_nth h' s O rs' R1'), BV.
    assert (RO' : nth_error (vv_rows (by_volume h o)) O = Some ro) by (fold vo; rewrite RO; reflexivity).
    rewrite (read_vol_nth h o O ro RO'). fold vo. rewrite DO, DD', DS.
    assert (G1 : getrow h' (sdata s) = map Qred vals).
    { unfold h'. apply getrow_put_row_eq. simpl. rewrite !upd_length. exact D. }
    rewrite G1.
    specialize (XR h' vo vs vs' (getrow h (sdata o)) ro rs). rewrite EX in XR. cbn [fst snd] in XR. apply XR; try reflexivity. exact NZ.
  - intros d N. unfold h'. rewrite getrow_put_row_neq by auto.
    change (getrow h5 d) with (getrow h3 d). unfold h3. rewrite getrow_put_row_neq by auto. reflexivity.
Qed.


Lemma nth_map_lt {A} (f : A -> Q) (d : A) : forall l j, (j < length l)%nat -> nth j (map f l) 0 = f (nth j l d).
Proof. induction l as [|a l IH]; intros [|j] L; simpl in *; try lia; auto. apply IH. lia. Qed.

Lemma nthq_vzero n : forall j, nthq (vzero n) j = 0.
Proof. unfold nthq, vzero. induction n as [|n IH]; intros [|j]; simpl; auto. Qed.

(* ---------- copy_like from a stream of another property package (single-phase on both sides) ---------- *)
Lemma copy_like_x_single h i s o :
  multi s = false -> multi o = false -> pkg s <> pkg o -> sdata s <> sdata o ->
  (sdata s < length (rows h))%nat -> (pbox s < length (boxes h))%nat -> (tc s < length (tps h))%nat ->
  let co := chems pkgs (pkg o) in
  let cs := chems pkgs (pkg s) in
  let h' := fst (copy_like pkgs h i s o false) in
  (xmiss co cs (getrow h (sdata o)) = false ->
     snd (copy_like pkgs h i s o false) = XNone /\
     getrow h' (sdata s) = map Qred (remap co cs (getrow h (sdata o))) /\
     (forall j k, index_of (cas (gid pkgs (pkg s) j)) (map cas co) = Some k -> (j < length cs)%nat ->
        nthq (getrow h' (sdata s)) j == nthq (getrow h (sdata o)) k) /\
     getbox h' (pbox s) = getbox h (pbox o) /\ gettp h' (tc s) = gettp h (tc o)) /\
  (xmiss co cs (getrow h (sdata o)) = true ->
     snd (copy_like pkgs h i s o false) = XErr EOther /\
     (forall j, nthq (getrow h' (sdata s)) j == 0) /\ boxes h' = boxes h /\ tps h' = tps h) /\
  (forall d, d <> sdata s -> getrow h' d = getrow h d) /\
  arrs h' = arrs h /\ caches h' = caches h /\ streams h' = streams h.
Proof.
  intros M MO NP ND D B T co cs. unfold copy_like.
  assert (Q : negb (Nat.eqb (pkg s) (pkg o)) = true) by (apply negb_true_iff, Nat.eqb_neq; exact NP).
  rewrite Q. unfold copy_like_x. rewrite M, MO. fold co cs.
  assert (E0 : empty_all h s = put_row h (sdata s) (vzero (length (getrow h (sdata s))))).
  { unfold empty_all, rowrefs. rewrite M. reflexivity. }
  rewrite E0. set (h0 := put_row h (sdata s) (vzero (length (getrow h (sdata s))))).
  assert (G0 : getrow h0 (sdata o) = getrow h (sdata o)) by (unfold h0; apply getrow_put_row_neq; exact ND).
  rewrite G0.
  destruct (xmiss co cs (getrow h (sdata o))) eqn:X; cbn [fst snd].
  - split; [intros C; discriminate|]. split.
    + intros _. split; [reflexivity|]. split; [|split; reflexivity].
      intros j. unfold h0. rewrite getrow_put_row_eq by exact D. rewrite nthq_map_Qred.
      rewrite nthq_vzero. reflexivity.
    + split; [|repeat split].
      intros d N. unfold h0. apply getrow_put_row_neq. auto.
  - split.
    + intros _. split; [reflexivity|].
      assert (GR : getrow (copy_tp (put_box (put_row h0 (sdata s) (remap co cs (getrow h (sdata o)))) (pbox s)
                             (getbox (put_row h0 (sdata s) (remap co cs (getrow h (sdata o)))) (pbox o))) s o) (sdata s)
                   = map Qred (remap co cs (getrow h (sdata o)))).
      { change (getrow (put_row h0 (sdata s) (remap co cs (getrow h (sdata o)))) (sdata s) = map Qred (remap co cs (getrow h (sdata o)))).
        apply getrow_put_row_eq. unfold h0. simpl. rewrite upd_length. exact D. }
      split; [exact GR|]. split; [|split].
      * intros j k IX LJ. rewrite GR, nthq_map_Qred. unfold remap, nthq.
        rewrite (nth_map_lt _ O cs j LJ). unfold gid in IX. fold cs in IX. rewrite IX. reflexivity.
      * unfold copy_tp, getbox. simpl. apply nth_upd_eq. exact B.
      * unfold copy_tp, gettp. simpl. apply nth_upd_eq. exact T.
    + split; [intros C; discriminate|]. split; [|repeat split].
      intros d N. change (getrow (put_row h0 (sdata s) (remap co cs (getrow h (sdata o)))) d = getrow h d).
      rewrite getrow_put_row_neq by auto. unfold h0. apply getrow_put_row_neq. auto.
Qed.

(* ---------- Stream.empty / MultiStream.empty ---------- *)
Definition allzero (v : vec) : Prop := forall j, nthq v j == 0.
Lemma allzero_vzero n : allzero (map Qred (vzero n)).
Proof.
  intros j. rewrite nthq_map_Qred, nthq_vzero. reflexivity.
Qed.
Lemma empty_rows_zero : forall l h d, (In d l \/ allzero (getrow h d)) -> (d < length (rows h))%nat ->
  allzero (getrow (map_rows h (fun v => vzero (length v)) l) d) /\
  length (rows (map_rows h (fun v => vzero (length v)) l)) = length (rows h).
Proof.
  induction l as [|a t IH]; intros h d C L.
  - simpl. split; [|reflexivity]. destruct C as [[]|Z]; exact Z.
  - cbn [map_rows]. set (h1 := put_row h a (vzero (length (getrow h a)))).
    assert (L1 : length (rows h1) = length (rows h)) by (unfold h1; simpl; apply upd_length).
    assert (C1 : In d t \/ allzero (getrow h1 d)).
    { destruct (Nat.eq_dec a d) as [E|N].
      - right. subst a. unfold h1. rewrite getrow_put_row_eq by exact L. apply allzero_vzero.
      - destruct C as [[E|IN]|Z]; [contradiction|left; exact IN|right]. unfold h1. rewrite getrow_put_row_neq by exact N. exact Z. }
    destruct (IH h1 d C1) as (A & B); [rewrite L1; exact L|]. split; [exact A|congruence].
Qed.
Lemma empty_rows_other : forall l h d, ~ In d l -> getrow (map_rows h (fun v => vzero (length v)) l) d = getrow h d.
Proof.
  induction l as [|a t IH]; intros h d N; [reflexivity|]. cbn [map_rows].
  rewrite IH by (intros C; apply N; right; exact C). apply getrow_put_row_neq. intros E. apply N. left. exact E.
Qed.
Lemma qsum_allzero : forall v, allzero v -> qsum v == 0.
Proof.
  induction v as [|x t IH]; intros Z; [reflexivity|].
  change (qsum (x :: t)) with (x + qsum t). rewrite IH.
  - pose proof (Z O) as Z0. unfold nthq in Z0. simpl in Z0. rewrite Z0. ring.
  - intros j. exact (Z (S j)).
Qed.
Lemma vdot_allzero : forall mw v, allzero v -> vdot mw v == 0.
Proof.
  unfold vdot, vmul. induction mw as [|a mw IH]; intros [|x t] Z; try reflexivity.
  cbn [map2]. change (qsum (a * x :: map2 Qmult mw t)) with (a * x + qsum (map2 Qmult mw t)). rewrite IH.
  - pose proof (Z O) as Z0. unfold nthq in Z0. simpl in Z0. rewrite Z0. ring.
  - intros j. exact (Z (S j)).
Qed.

Lemma qsum_map_zero {A} (f : A -> Q) : forall l, (forall a, In a l -> f a == 0) -> qsum (map f l) == 0.
Proof.
  induction l as [|a t IH]; intros Z; [reflexivity|]. cbn [map].
  change (qsum (f a :: map f t)) with (f a + qsum (map f t)).
  rewrite IH by (intros b IN; apply Z; right; exact IN). rewrite (Z a (or_introl eq_refl)). ring.
Qed.

(* s.empty(): every molar dict of the stream holds zeros, no other dict changes, the three totals are zero *)
Lemma empty_spec h s : (forall d, In d (rowrefs h s) -> (d < length (rows h))%nat) ->
  let h' := empty_all h s in
  (forall d, In d (rowrefs h s) -> allzero (getrow h' d)) /\
  (forall d, ~ In d (rowrefs h s) -> getrow h' d = getrow h d) /\
  F_mol h' s == 0 /\ F_mass MWf pkgs h' s == 0 /\ F_vol Vf pkgs h' s == 0 /\
  arrs h' = arrs h /\ caches h' = caches h /\ streams h' = streams h.
Proof.
  intros R h'.
  assert (Z : forall d, In d (rowrefs h s) -> allzero (getrow h' d)).
  { intros d IN. apply empty_rows_zero; [left; exact IN|apply R; exact IN]. }
  destruct (map_rows_struct h (fun v => vzero (length v)) (rowrefs h s)) as (A & C & S).
  assert (RR : rowrefs h' s = rowrefs h s) by (unfold rowrefs, getarr; fold (empty_all h s) in A; unfold h'; rewrite A; reflexivity).
  assert (FM : F_mol h' s == 0).
  { unfold F_mol, all_rows. rewrite RR, map_map. apply qsum_map_zero. intros d IN. apply qsum_allzero. apply Z. exact IN. }
  split; [exact Z|]. split; [intros d N; apply empty_rows_other; exact N|]. split; [exact FM|]. split; [|split].
  - unfold F_mass, all_rows. rewrite RR, map_map. apply qsum_map_zero. intros d IN. apply vdot_allzero. apply Z. exact IN.
  - unfold F_vol. rewrite (proj2 (qzerob_true _) FM). reflexivity.
  - repeat split; assumption.
Qed.

End Copy.
