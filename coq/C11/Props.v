From V Require Import Common.NumFacts C11.Model C11.Proofs.
