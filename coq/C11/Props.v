(* C11 — property theorems.  Every theorem is closed: it quantifies over the oracles
   (molar volume Vf, molecular weights MWf, the Chemicals objects pkgs, the units table utab),
   over every initial store [l] and over every history [ops] of the operations of Model.op
   (view reads and writes interleaved with T/P/phase/phases setters, link_with, unlink, copy_like,
   property-package reset and the reset_chemicals round trip).  [final] is the heap after the history. *)
From V Require Import Common.NumFacts C11.Model C11.Proofs C11.ProofsDeep C11.ProofsCopy C11.ModelProp C11.ProofsProp.

(* the machine that is run against the implementation: the heap plus the state kept outside the indexers
   (Stream._flow_cache, the factor caches of the units objects, the per-stream property memo) *)
(* the outermost machine: the heap, the state kept outside the indexers, the index-dict pointers and the registry of
   phase streams (ms[phase]) *)
Definition finalS Vf MWf pkgs utab (l : list init) (ops : list op) : sstate :=
  fst (runS Vf MWf pkgs utab (buildS l) ops).
Definition finalK Vf MWf pkgs utab (l : list init) (ops : list op) : kstate := sk (finalS Vf MWf pkgs utab l ops).
Definition finalU Vf MWf pkgs utab (l : list init) (ops : list op) : ustate := ku (finalK Vf MWf pkgs utab l ops).
Definition final Vf MWf pkgs utab (l : list init) (ops : list op) : heap := uh (finalU Vf MWf pkgs utab l ops).

(* the invariants of all layers hold after every history of the outermost machine *)
Lemma KInv_final Vf MWf pkgs utab l ops : KInv Vf pkgs utab (finalK Vf MWf pkgs utab l ops).
Proof. exact (KInv_runS Vf MWf pkgs utab ops (buildS l) (KInv_buildS Vf pkgs utab l)). Qed.
Lemma inv_final Vf MWf pkgs utab l ops : Inv Vf pkgs (uh (finalU Vf MWf pkgs utab l ops)).
Proof. exact (proj1 (KInv_final Vf MWf pkgs utab l ops)). Qed.
Lemma UC_final Vf MWf pkgs utab l ops : UC utab (finalU Vf MWf pkgs utab l ops).
Proof. exact (proj1 (proj2 (KInv_final Vf MWf pkgs utab l ops))). Qed.
Lemma PM_final Vf MWf pkgs utab l ops : PM Vf pkgs (finalU Vf MWf pkgs utab l ops).
Proof. exact (proj1 (proj2 (proj2 (KInv_final Vf MWf pkgs utab l ops)))). Qed.

(* alias_inv: after EVERY history, every view cached for every stream wraps that stream's current molar
   dicts in the current phase order, takes T/P from the stream's own ThermalCondition object, the phase from
   the stream's own phase box / phase labels, MW and V from the stream's own package; and streams that share
   one cache dict share data, phases / phase box and package. *)
Theorem C11_alias_inv : forall Vf MWf pkgs utab l ops,
  let h := final Vf MWf pkgs utab l ops in
  forall i s, nth_error (streams h) i = Some s ->
    (forall v, c_mass (getcache h (cch s)) = Some v -> mv_rows v = srcs h s /\ mv_pkg v = pkg s) /\
    (forall t v, vol_find t (c_vols (getcache h (cch s))) = Some v ->       (* under EVERY key, not only the current TP object *)
       map (fun r => (vr_dct r, vr_src r)) (vv_rows v) = srcs h s /\ vv_tp v = t /\ vv_pkg v = pkg s) /\
    (forall j s2, nth_error (streams h) j = Some s2 -> cch s = cch s2 ->
       srcs h s = srcs h s2 /\ pkg s = pkg s2).
Proof.
  intros Vf MWf pkgs utab l ops h i s Hs.
  pose proof (inv_final Vf MWf pkgs utab l ops) as I.
  destruct (I i s Hs) as (_ & (VM & VV) & SH). split; [|split].
  - intros v Hv. exact (VM v Hv).
  - intros t v Hv. destruct (VV t v Hv) as (A & B & C & _). auto.
  - intros j s2 H2 EQ. pose proof (SH j s2 H2 EQ) as O. split.
    + apply same_owner_srcs; exact O.
    + destruct O as (_ & _ & K & _); exact K.
Qed.
Print Assumptions C11_alias_inv.

(* the full invariant (including: every memo entry is the oracle's value for its key) holds after every history *)
Theorem C11_invariant_all_histories : forall Vf MWf pkgs utab l ops,
  Inv Vf pkgs (final Vf MWf pkgs utab l ops).
Proof. intros Vf MWf pkgs utab l ops. exact (inv_final Vf MWf pkgs utab l ops). Qed.
Print Assumptions C11_invariant_all_histories.

(* vol_get: after any history, reading the volumetric view gives, for every row (molar dict d, phase source src)
   of the stream and every chemical j:  mol * 1000 * Vf chemical (CURRENT phase) T' P'  where (T', P') is the
   temperature and pressure at which the memo entry was computed, within 1e-12 (ThermalCondition.in_equilibrium,
   [tp_tol] is the double 1e-12) of the stream's CURRENT T and P.  The phase is exact. *)
Theorem C11_vol_get : forall Vf MWf pkgs utab l ops,
  let h := final Vf MWf pkgs utab l ops in
  forall i s, nth_error (streams h) i = Some s ->
  forall n d src, nth_error (srcs h s) n = Some (d, src) -> forall j,
  exists T' P', Qabs (T' - fst (gettp h (tc s))) < tp_tol /\ Qabs (P' - snd (gettp h (tc s))) < tp_tol /\
    nthq (nth n (snd (read_vol Vf pkgs h s)) []) j
    == nthq (getrow h d) j * (1000 * Vf (gid pkgs (pkg s) j) (base (src_phase h src)) T' P').
Proof.
  intros Vf MWf pkgs utab l ops h i s Hs.
  exact (vol_get_lemma Vf pkgs h i s (inv_final Vf MWf pkgs utab l ops) Hs).
Qed.
Print Assumptions C11_vol_get.

(* the exact statement (at the current T, P) is what the deliberate 1e-12 tolerance of in_equilibrium gives up;
   it is kept visible and is NOT claimed *)
Definition C11_vol_get_exact_statement : Prop := forall Vf MWf pkgs utab l ops,
  let h := final Vf MWf pkgs utab l ops in
  forall i s, nth_error (streams h) i = Some s ->
  forall n d src, nth_error (srcs h s) n = Some (d, src) -> forall j,
    nthq (nth n (snd (read_vol Vf pkgs h s)) []) j
    == nthq (getrow h d) j *
       (1000 * Vf (gid pkgs (pkg s) j) (base (src_phase h src)) (fst (gettp h (tc s))) (snd (gettp h (tc s)))).

(* mass_get: after any history, the mass view of a (well-sized) row is mol * MW entry by entry *)
Theorem C11_mass_get : forall Vf MWf pkgs utab l ops,
  let h := final Vf MWf pkgs utab l ops in
  forall i s, nth_error (streams h) i = Some s ->
  forall n d src, nth_error (srcs h s) n = Some (d, src) ->
  length (getrow h d) = length (mwvec MWf pkgs (pkg s)) -> forall j,
    nthq (nth n (snd (read_mass MWf pkgs h s)) []) j == nthq (getrow h d) j * nthq (mwvec MWf pkgs (pkg s)) j.
Proof.
  intros Vf MWf pkgs utab l ops h i s Hs.
  exact (mass_get_lemma Vf MWf pkgs h i s (inv_final Vf MWf pkgs utab l ops) Hs).
Qed.
Print Assumptions C11_mass_get.

(* mass_set: after any history, writing v through the mass view makes mol = v / MW at that entry and changes no
   other entry of any molar dict *)
Theorem C11_mass_set : forall Vf MWf pkgs utab l ops,
  let h := final Vf MWf pkgs utab l ops in
  forall i s r k v d src, nth_error (streams h) i = Some s -> nth_error (srcs h s) r = Some (d, src) ->
  (d < length (rows h))%nat -> (k < length (getrow h d))%nat ->
  snd (set_item Vf MWf pkgs h s VMass r k v) = XNone /\
  nthq (getrow (fst (set_item Vf MWf pkgs h s VMass r k v)) d) k == v / MWf (gid pkgs (pkg s) k) /\
  forall d' k', (d', k') <> (d, k) ->
    nthq (getrow (fst (set_item Vf MWf pkgs h s VMass r k v)) d') k' == nthq (getrow h d') k'.
Proof.
  intros Vf MWf pkgs utab l ops h i s r k v d src Hs Hr D K.
  exact (mass_set_lemma Vf MWf pkgs h i s r k v d src
           (inv_final Vf MWf pkgs utab l ops) Hs Hr D K).
Qed.
Print Assumptions C11_mass_set.

(* totals: F_mol is the sum of the molar data by definition; F_mass is the sum of the mass view *)
Theorem C11_totals_mass : forall MWf pkgs h s,
  F_mol h s = qsum (map qsum (all_rows h s)) /\
  F_mass MWf pkgs h s == qsum (map (fun r => qsum (mass_of MWf pkgs (pkg s) r)) (all_rows h s)).
Proof. intros. split; [reflexivity|apply F_mass_is_sum]. Qed.
Print Assumptions C11_totals_mass.

(* F_vol (1000 * mixture molar volume at the current T, P, phases * F_mol) is the sum over (phase, molar row) pairs and
   chemicals of mol * 1000 * Vf at that phase and the current T, P, whenever the total molar flow is not zero *)
Theorem C11_totals_vol : forall Vf pkgs h s, ~ F_mol h s == 0 ->
  F_vol Vf pkgs h s ==
  qsum (map (fun x => qsum (map2 (fun m g => m * (1000 * Vf g (base (fst x))
                                                     (fst (gettp h (tc s))) (snd (gettp h (tc s)))))
                                 (snd x) (chems pkgs (pkg s))))
            (combine (cur_phases h s) (all_rows h s))).
Proof. exact F_vol_is_sum. Qed.
Print Assumptions C11_totals_vol.

(* ... and the F_vol that the stream hands out goes through the property memo (_get_property): after EVERY history the
   memoised read equals the mixture volume of the CURRENT phases, T, P and composition *)
Theorem C11_total_vol_memo_fresh : forall Vf MWf pkgs utab l ops,
  (forall g p T T' P P', T == T' -> P == P' -> Vf g p T P == Vf g p T' P') ->
  let U := finalU Vf MWf pkgs utab l ops in
  forall i s, nth_error (streams (uh U)) i = Some s ->
    snd (F_volU Vf pkgs U i s) == F_vol Vf pkgs (uh U) s.
Proof.
  intros Vf MWf pkgs utab l ops E U i s Hs.
  exact (F_volU_fresh Vf pkgs E U i s (PM_final Vf MWf pkgs utab l ops) Hs).
Qed.
Print Assumptions C11_total_vol_memo_fresh.

(* units: a unit of another dimension is rejected with DimensionError and nothing changes;
   get_flow / get_total_flow are the fixed factor times the view item / the total *)
Theorem C11_units_wrong_dimension : forall Vf MWf pkgs utab h i s u r k v,
  nth_error (streams h) i = Some s -> unit_of utab u = None ->
  step Vf MWf pkgs utab h (OGetFlow i u r k) = (h, XErr EDim) /\
  step Vf MWf pkgs utab h (OSetFlow i u r k v) = (h, XErr EDim) /\
  step Vf MWf pkgs utab h (OGetTotal i u) = (h, XErr EDim) /\
  step Vf MWf pkgs utab h (OSetTotal i u v) = (h, XErr EDim).
Proof. intros Vf MWf pkgs utab h i s u r k v Hs U. unfold step. rewrite Hs, U. repeat split. Qed.
Print Assumptions C11_units_wrong_dimension.

Theorem C11_units_factor : forall Vf MWf pkgs utab h i s u w f r k v,
  nth_error (streams h) i = Some s -> unit_of utab u = Some (w, f) ->
  step Vf MWf pkgs utab h (OGetFlow i u r k) = lift (get_item Vf MWf pkgs h s w r k) (fun x => f * x) /\
  step Vf MWf pkgs utab h (OGetTotal i u) = (h, XMat [[f * total Vf MWf pkgs h s w]]) /\
  step Vf MWf pkgs utab h (OSetFlow i u r k v) = set_item Vf MWf pkgs h s w r k (v / f) /\
  step Vf MWf pkgs utab h (OSetTotal i u v) = set_total Vf MWf pkgs h s w (v / f).
Proof. intros Vf MWf pkgs utab h i s u w f r k v Hs U. unfold step. rewrite Hs, U. repeat split. Qed.
Print Assumptions C11_units_factor.

(* hence two units of one dimension read the same item with their two fixed factors *)
Theorem C11_units_other_unit : forall Vf MWf pkgs utab h i s u1 u2 w f1 f2 r k x h',
  nth_error (streams h) i = Some s -> unit_of utab u1 = Some (w, f1) -> unit_of utab u2 = Some (w, f2) ->
  get_item Vf MWf pkgs h s w r k = (h', Ok x) ->
  step Vf MWf pkgs utab h (OGetFlow i u1 r k) = (h', XMat [[f1 * x]]) /\
  step Vf MWf pkgs utab h (OGetFlow i u2 r k) = (h', XMat [[f2 * x]]).
Proof.
  intros Vf MWf pkgs utab h i s u1 u2 w f1 f2 r k x h' Hs U1 U2 G.
  unfold step. rewrite Hs, U1, U2. unfold lift. rewrite G. split; reflexivity.
Qed.
Print Assumptions C11_units_other_unit.

(* the conversion-factor caches (Stream._flow_cache, AbsoluteUnitsOfMeasure.factor_cache of each units object) never
   change an answer: after EVERY history a lookup returns exactly what pint (the oracle) says for THAT units object,
   in particular a unit of another dimension is still rejected however the caches were filled *)
Theorem C11_unit_caches_coherent : forall Vf MWf pkgs utab l ops,
  let U := finalU Vf MWf pkgs utab l ops in
  (forall w u, snd (cfactor utab U w u) = conv utab w u) /\
  (forall u, snd (flow_lookup utab U u) = match unit_of utab u with Some x => Ok x | None => Err EDim end).
Proof.
  intros Vf MWf pkgs utab l ops U.
  pose proof (UC_final Vf MWf pkgs utab l ops) as C. fold U in C.
  split.
  - intros w u. exact (proj1 (cfactor_ok utab U w u C)).
  - intros u. exact (proj1 (flow_lookup_ok utab U u C)).
Qed.
Print Assumptions C11_unit_caches_coherent.

(* the views' own units API (imol/imass/ivol .get_data / .set_data): after any history a unit of another dimension
   raises and leaves every molar dict as it was *)
Theorem C11_view_units_wrong_dimension : forall Vf MWf pkgs utab l ops,
  let U := finalU Vf MWf pkgs utab l ops in
  forall i s w u r k v, nth_error (streams (uh U)) i = Some s ->
  (forall f, unit_of utab u <> Some (w, f)) ->
  snd (stepU Vf MWf pkgs utab U (OGetData i w u r k)) = XErr EDim /\
  snd (stepU Vf MWf pkgs utab U (OSetData i w u r k v)) = XErr EDim /\
  rows (uh (fst (stepU Vf MWf pkgs utab U (OGetData i w u r k)))) = rows (uh U) /\
  rows (uh (fst (stepU Vf MWf pkgs utab U (OSetData i w u r k v)))) = rows (uh U).
Proof.
  intros Vf MWf pkgs utab l ops U i s w u r k v Hs WD.
  pose proof (UC_final Vf MWf pkgs utab l ops) as C. fold U in C.
  assert (CV : conv utab w u = Err EDim).
  { unfold conv. destruct (unit_of utab u) as [[w' f]|] eqn:E; [|reflexivity].
    destruct (view_eqb w w') eqn:Q; [|reflexivity]. exfalso. apply (WD f).
    destruct w, w'; simpl in Q; try discriminate; reflexivity. }
  destruct (cfactor_ok utab U w u C) as (A & _). destruct (cfactor_uh utab U w u) as (B & _).
  unfold stepU. rewrite Hs. destruct (cfactor utab U w u) as [U1 q]. cbn [fst snd] in *. rewrite CV in A. subst q.
  cbn [fst snd uh with_heap]. rewrite B.
  assert (R : rows (touch_view (uh U) s w) = rows (uh U)).
  { destruct w; simpl; try reflexivity. unfold by_mass. destruct (c_mass (getcache (uh U) (cch s))); reflexivity. }
  repeat split; auto.
Qed.
Print Assumptions C11_view_units_wrong_dimension.

(* a view written with another view as the value (s1.mass = s2.mass, s1.vol = s2.vol, ms.ivol['g'] = ms.ivol['l']):
   entry by entry, the destination then holds the molar amount whose mass / volume (with the destination's MW, or the
   destination's phase and T, P up to the 1e-12 of in_equilibrium) is the mass / volume read from the source *)
Theorem C11_view_copy_mass : forall vals mws mwd, length mws = length vals -> length mwd = length vals ->
  (forall b, In b mwd -> ~ b == 0) ->
  forall k, nthq (xfer_mass mws mwd vals) k * nthq mwd k == nthq vals k * nthq mws k.
Proof. exact xfer_mass_spec. Qed.
Print Assumptions C11_view_copy_mass.

Theorem C11_view_copy_vol : forall Vf pkgs, (forall g p T P, ~ Vf g p T P == 0) ->
  forall h vo vs vals ro rs, vrow_ok Vf pkgs (vv_pkg vo) ro -> vrow_ok Vf pkgs (vv_pkg vs) rs ->
  forall j, exists To Po Td Pd,
    Qabs (To - fst (gettp h (vv_tp vo))) < tp_tol /\ Qabs (Po - snd (gettp h (vv_tp vo))) < tp_tol /\
    Qabs (Td - fst (gettp h (vv_tp vs))) < tp_tol /\ Qabs (Pd - snd (gettp h (vv_tp vs))) < tp_tol /\
    nthq (fst (fst (xfer_vol Vf pkgs h vo vs ro rs O vals))) j
      * (1000 * Vf (gid pkgs (vv_pkg vs) j) (base (src_phase h (vr_src rs))) Td Pd)
    == nthq vals j * (1000 * Vf (gid pkgs (vv_pkg vo) j) (base (src_phase h (vr_src ro))) To Po).
Proof.
  intros Vf pkgs NZ h vo vs vals ro rs OKo OKs j.
  exact (xfer_vol_spec Vf pkgs NZ h vo vs (vv_pkg vo) (vv_pkg vs) eq_refl eq_refl vals ro rs O OKo OKs j).
Qed.
Print Assumptions C11_view_copy_vol.

(* name-keyed access on a multi-phase stream: after EVERY history the molar MaterialIndexer consults the name -> position
   dict of its CURRENT phases and CURRENT package, so a (phase, chemical) key lands on that phase and that chemical *)
Theorem C11_index_dict_current : forall Vf MWf pkgs utab l ops,
  let K := finalK Vf MWf pkgs utab l ops in
  forall i s, nth_error (streams (uh (ku K))) i = Some s ->
    ic_get K i = (if multi s then Some (phs s, pkg s) else None) /\
    (multi s = true -> forall r k,
       resolve pkgs K i s VMol r k =
       match pindex (phs s) (nth r (phs s) Pl), index_of (cas (gid pkgs (pkg s) k)) (map cas (chems pkgs (pkg s))) with
       | Some r', Some k' => Ok (r', k')
       | _, _ => Err EKey
       end).
Proof.
  intros Vf MWf pkgs utab l ops K i s Hs.
  pose proof (proj2 (proj2 (proj2 (KInv_final Vf MWf pkgs utab l ops)))) as (_ & IC). fold K in IC.
  pose proof (IC i s Hs) as E. split; [exact E|].
  intros M r k. unfold resolve. rewrite M, E. unfold ic_of. rewrite M. reflexivity.
Qed.
Print Assumptions C11_index_dict_current.

(* set then get in the same unit is the identity, for every view (molar, mass, volumetric), after any history:
   set_flow(v, u, key) succeeds and get_flow(u, key) then returns v *)
Theorem C11_units_set_then_get : forall Vf MWf pkgs utab l ops,
  (forall g, ~ MWf g == 0) -> (forall g p T P, ~ Vf g p T P == 0) ->
  let h := final Vf MWf pkgs utab l ops in
  forall i s u w f r k v d src,
  nth_error (streams h) i = Some s -> unit_of utab u = Some (w, f) -> ~ f == 0 ->
  nth_error (srcs h s) r = Some (d, src) -> (d < length (rows h))%nat -> (k < length (getrow h d))%nat ->
  snd (step Vf MWf pkgs utab h (OSetFlow i u r k v)) = XNone /\
  exists h2 x, step Vf MWf pkgs utab (fst (step Vf MWf pkgs utab h (OSetFlow i u r k v))) (OGetFlow i u r k)
               = (h2, XMat [[x]]) /\ x == v.
Proof.
  intros Vf MWf pkgs utab l ops MW VN h i s u w f r k v d src Hs U NZ Hr D K.
  pose proof (inv_final Vf MWf pkgs utab l ops) as I. fold (final Vf MWf pkgs utab l ops) in I. fold h in I.
  destruct (set_get_item Vf MWf pkgs MW VN h i s w r k (v / f) d src I Hs Hr D K) as (S1 & h2 & x & G & X).
  assert (E1 : step Vf MWf pkgs utab h (OSetFlow i u r k v) = set_item Vf MWf pkgs h s w r k (v / f)).
  { unfold step. rewrite Hs, U. reflexivity. }
  rewrite E1. split; [exact S1|].
  assert (E2 : step Vf MWf pkgs utab (fst (set_item Vf MWf pkgs h s w r k (v / f))) (OGetFlow i u r k)
               = lift (get_item Vf MWf pkgs (fst (set_item Vf MWf pkgs h s w r k (v / f))) s w r k) (fun y => f * y)).
  { unfold step. rewrite set_item_streams, Hs, U. reflexivity. }
  rewrite E2. unfold lift. rewrite G. cbn [fst snd].
  exists h2, (f * x). split; [reflexivity|]. rewrite X. field. exact NZ.
Qed.
Print Assumptions C11_units_set_then_get.

(* Stream.reset_flow(phase=p, units=u, chemical=v) after any history: the stream ends in phase p and get_flow in the same
   unit returns v, i.e. the flow is converted with the molar volume of the NEW phase (phase first, then the flows) *)
Theorem C11_reset_flow_reads_back : forall Vf MWf pkgs utab l ops,
  (forall g, ~ MWf g == 0) -> (forall g p T P, ~ Vf g p T P == 0) ->
  let h := final Vf MWf pkgs utab l ops in
  forall i s p u w f k v, nth_error (streams h) i = Some s -> multi s = false ->
  unit_of utab u = Some (w, f) -> ~ f == 0 ->
  (sdata s < length (rows h))%nat -> (pbox s < length (boxes h))%nat -> (k < length (getrow h (sdata s)))%nat ->
  let h1 := fst (reset_flow Vf MWf pkgs utab h s (Some p) (Some u) None [(k, v)]) in
  getbox h1 (pbox s) = p /\
  exists h2 x, get_item Vf MWf pkgs h1 s w O k = (h2, Ok x) /\ f * x == v.
Proof.
  intros Vf MWf pkgs utab l ops MW VN h i s p u w f k v Hs M U NZ D B K.
  exact (reset_flow_reads_back Vf MWf pkgs utab MW VN h i s p u w f k v (inv_final Vf MWf pkgs utab l ops) Hs M U NZ D B K).
Qed.
Print Assumptions C11_reset_flow_reads_back.

(* set_total_keeps_composition: a total-flow setter multiplies every entry of every molar dict of the stream by one
   and the same number (v / F), so the composition is unchanged *)
Theorem C11_set_total_keeps_composition : forall Vf MWf pkgs h s w v,
  NoDup (rowrefs h s) -> ~ total Vf MWf pkgs h s w == 0 ->
  forall d, In d (rowrefs h s) -> (d < length (rows h))%nat -> forall j,
    nthq (getrow (fst (set_total Vf MWf pkgs h s w v)) d) j
    == (v / total Vf MWf pkgs h s w) * nthq (getrow h d) j.
Proof.
  intros Vf MWf pkgs h s w v ND NZ d IN L j. unfold set_total.
  apply qzerob_false in NZ.
  destruct w; rewrite NZ; cbn [negb fst]; unfold scale_all; apply map_rows_scale; auto.
Qed.
Print Assumptions C11_set_total_keeps_composition.

(* ---------- deepening round: read-back theorems ---------- *)
(* Stream.reset_flow(phase, units, several chemicals) after any history: EVERY written flow reads back in that unit *)
Theorem C11_reset_flow_multi_reads_back : forall Vf MWf pkgs utab l ops,
  (forall g, ~ MWf g == 0) -> (forall g p T P, ~ Vf g p T P == 0) ->
  let h := final Vf MWf pkgs utab l ops in
  forall i s p u w f fl, nth_error (streams h) i = Some s -> multi s = false ->
  unit_of utab u = Some (w, f) -> ~ f == 0 -> fl <> [] -> NoDup (map fst fl) ->
  (sdata s < length (rows h))%nat ->
  (forall k v, In (k, v) fl -> (k < length (getrow h (sdata s)))%nat) ->
  let h1 := fst (reset_flow Vf MWf pkgs utab h s p (Some u) None fl) in
  forall k v, In (k, v) fl ->
    exists h2 x, get_item Vf MWf pkgs h1 s w O k = (h2, Ok x) /\ f * x == v.
Proof.
  intros Vf MWf pkgs utab l ops MW VN h i s p u w f fl Hs M U NZ NE ND D KR.
  exact (reset_flow_multi_reads_back Vf MWf pkgs utab MW VN h i s p u w f fl (inv_final Vf MWf pkgs utab l ops) Hs M U NZ NE ND D KR).
Qed.
Print Assumptions C11_reset_flow_multi_reads_back.

(* ... and with total_flow: the total reads back in its unit, and the flows read back in the written proportions
   (one common factor c): the composition written together with the total is kept *)
Theorem C11_reset_flow_total_reads_back : forall Vf MWf pkgs utab l ops,
  (forall g, ~ MWf g == 0) -> (forall g p T P, ~ Vf g p T P == 0) ->
  let h := final Vf MWf pkgs utab l ops in
  forall i s p u w f fl t, nth_error (streams h) i = Some s -> multi s = false ->
  unit_of utab u = Some (w, f) -> ~ f == 0 -> ~ t == 0 -> NoDup (map fst fl) ->
  (sdata s < length (rows h))%nat ->
  (forall k v, In (k, v) fl -> (k < length (getrow h (sdata s)))%nat) ->
  snd (reset_flow Vf MWf pkgs utab h s p (Some u) (Some t) fl) = XNone ->
  let h1 := fst (reset_flow Vf MWf pkgs utab h s p (Some u) (Some t) fl) in
  f * total Vf MWf pkgs h1 s w == t /\
  exists c, forall k v, In (k, v) fl ->
    exists h2 x, get_item Vf MWf pkgs h1 s w O k = (h2, Ok x) /\ f * x == c * v.
Proof.
  intros Vf MWf pkgs utab l ops MW VN h i s p u w f fl t Hs M U NZ NT ND D KR OK.
  exact (reset_flow_total_reads_back Vf MWf pkgs utab MW VN h i s p u w f fl t (inv_final Vf MWf pkgs utab l ops) Hs M U NZ NT ND D KR OK).
Qed.
Print Assumptions C11_reset_flow_total_reads_back.

(* s_i.mass = s_j.mass (a mass view written with another stream's mass view) after any history, between single-phase
   streams of one package with their own molar dicts and view caches: reading the destination's mass view afterwards
   returns, entry by entry, what the source's mass view held *)
Theorem C11_assign_mass_reads_back : forall Vf MWf pkgs utab l ops, (forall g, ~ MWf g == 0) ->
  let h := final Vf MWf pkgs utab l ops in
  forall i j s o, nth_error (streams h) i = Some s -> nth_error (streams h) j = Some o ->
  multi s = false -> multi o = false -> pkg s = pkg o -> cch s <> cch o -> sdata s <> sdata o ->
  (sdata s < length (rows h))%nat ->
  length (getrow h (sdata s)) = length (mwvec MWf pkgs (pkg s)) ->
  length (getrow h (sdata o)) = length (mwvec MWf pkgs (pkg s)) ->
  let h' := fst (assign_view Vf MWf pkgs h s o VMass) in
  snd (assign_view Vf MWf pkgs h s o VMass) = XNone /\
  forall k, nthq (nth O (snd (read_mass MWf pkgs h' s)) []) k == nthq (nth O (snd (read_mass MWf pkgs h o)) []) k.
Proof.
  intros Vf MWf pkgs utab l ops MW h i j s o Hs Ho M MO PK NC ND D LS LO.
  exact (assign_mass_reads_back Vf MWf pkgs MW h i j s o (inv_final Vf MWf pkgs utab l ops) Hs Ho M MO PK NC ND D LS LO).
Qed.
Print Assumptions C11_assign_mass_reads_back.

(* ---------- second deepening round: a view written with (a row of) a view, at heap level ---------- *)
(* ms.ivol[p] = ms.ivol[q] after any history, p and q two rows of the MultiStream with their own molar dicts: the
   volumetric view of phase p then reads EXACTLY (==, no tolerance: the memo entries the write left are the ones the read
   uses) what the volumetric view of phase q read before; no other molar dict, no ThermalCondition, phase box, row
   array or stream changes *)
Theorem C11_copy_row_vol_reads_back : forall Vf MWf pkgs utab l ops, (forall g p T P, ~ Vf g p T P == 0) ->
  let h := final Vf MWf pkgs utab l ops in
  forall i s r1 r2 d1 d2 src1 src2, nth_error (streams h) i = Some s -> multi s = true ->
  nth_error (srcs h s) r1 = Some (d1, src1) -> nth_error (srcs h s) r2 = Some (d2, src2) ->
  d1 <> d2 -> (d1 < length (rows h))%nat ->
  let h' := fst (copy_row_view Vf MWf pkgs h s VVol r1 r2) in
  snd (copy_row_view Vf MWf pkgs h s VVol r1 r2) = XNone /\
  (forall j, nthq (nth r1 (snd (read_vol Vf pkgs h' s)) []) j == nthq (nth r2 (snd (read_vol Vf pkgs h s)) []) j) /\
  (forall d, d <> d1 -> getrow h' d = getrow h d) /\
  tps h' = tps h /\ boxes h' = boxes h /\ arrs h' = arrs h /\ streams h' = streams h.
Proof.
  intros Vf MWf pkgs utab l ops VN h i s r1 r2 d1 d2 src1 src2 Hs M H1 H2 ND D.
  exact (copy_row_vol_reads_back Vf MWf pkgs VN h i s r1 r2 d1 d2 src1 src2 (inv_final Vf MWf pkgs utab l ops) Hs M H1 H2 ND D).
Qed.
Print Assumptions C11_copy_row_vol_reads_back.

(* ms.imass[p] = ms.imass[q]: the molar dict of p then holds the molar amounts of q, the mass view of p reads what the
   mass view of q read, nothing else changes *)
Theorem C11_copy_row_mass_reads_back : forall Vf MWf pkgs utab l ops, (forall g, ~ MWf g == 0) ->
  let h := final Vf MWf pkgs utab l ops in
  forall i s r1 r2 d1 d2 src1 src2, nth_error (streams h) i = Some s -> multi s = true ->
  nth_error (srcs h s) r1 = Some (d1, src1) -> nth_error (srcs h s) r2 = Some (d2, src2) ->
  d1 <> d2 -> (d1 < length (rows h))%nat -> length (getrow h d2) = length (mwvec MWf pkgs (pkg s)) ->
  let h' := fst (copy_row_view Vf MWf pkgs h s VMass r1 r2) in
  snd (copy_row_view Vf MWf pkgs h s VMass r1 r2) = XNone /\
  (forall j, nthq (getrow h' d1) j == nthq (getrow h d2) j) /\
  (forall j, nthq (nth r1 (snd (read_mass MWf pkgs h' s)) []) j == nthq (nth r2 (snd (read_mass MWf pkgs h s)) []) j) /\
  (forall d, d <> d1 -> getrow h' d = getrow h d) /\
  tps h' = tps h /\ boxes h' = boxes h /\ arrs h' = arrs h /\ streams h' = streams h.
Proof.
  intros Vf MWf pkgs utab l ops MW h i s r1 r2 d1 d2 src1 src2 Hs M H1 H2 ND D L2.
  exact (copy_row_mass_reads_back Vf MWf pkgs MW h i s r1 r2 d1 d2 src1 src2 (inv_final Vf MWf pkgs utab l ops) Hs M H1 H2 ND D L2).
Qed.
Print Assumptions C11_copy_row_mass_reads_back.

(* ms.imol[p] = ms.imol[q] (any heap): the molar dict of p holds the entries of q, nothing else changes, no view cache is touched *)
Theorem C11_copy_row_mol_reads_back : forall Vf MWf pkgs h s r1 r2 d1 d2 src1 src2,
  multi s = true -> nth_error (srcs h s) r1 = Some (d1, src1) -> nth_error (srcs h s) r2 = Some (d2, src2) ->
  d1 <> d2 -> (d1 < length (rows h))%nat ->
  let h' := fst (copy_row_view Vf MWf pkgs h s VMol r1 r2) in
  snd (copy_row_view Vf MWf pkgs h s VMol r1 r2) = XNone /\
  (forall j, nthq (getrow h' d1) j == nthq (getrow h d2) j) /\
  (forall d, d <> d1 -> getrow h' d = getrow h d) /\
  tps h' = tps h /\ boxes h' = boxes h /\ arrs h' = arrs h /\ streams h' = streams h /\ caches h' = caches h.
Proof. exact copy_row_mol_reads_back. Qed.
Print Assumptions C11_copy_row_mol_reads_back.

(* s_i.vol = s_j.vol after any history, between single-phase streams of one package with their own molar dicts that do
   not share both the view cache and the ThermalCondition object: the volumetric view of s_i then reads EXACTLY what the
   volumetric view of s_j read (whatever the two phases, temperatures and pressures are); nothing else changes.
   This replaces the entry-wise relation C11_view_copy_vol as the statement about the stream API. *)
Theorem C11_assign_vol_reads_back : forall Vf MWf pkgs utab l ops, (forall g p T P, ~ Vf g p T P == 0) ->
  let h := final Vf MWf pkgs utab l ops in
  forall i j s o, nth_error (streams h) i = Some s -> nth_error (streams h) j = Some o ->
  multi s = false -> multi o = false -> pkg s = pkg o -> (cch s <> cch o \/ tc s <> tc o) -> sdata s <> sdata o ->
  (sdata s < length (rows h))%nat ->
  let h' := fst (assign_view Vf MWf pkgs h s o VVol) in
  snd (assign_view Vf MWf pkgs h s o VVol) = XNone /\
  (forall k, nthq (nth O (snd (read_vol Vf pkgs h' s)) []) k == nthq (nth O (snd (read_vol Vf pkgs h o)) []) k) /\
  (forall d, d <> sdata s -> getrow h' d = getrow h d) /\
  tps h' = tps h /\ boxes h' = boxes h /\ arrs h' = arrs h /\ streams h' = streams h.
Proof.
  intros Vf MWf pkgs utab l ops VN h i j s o Hs Ho M MO PK NC ND D.
  exact (assign_vol_reads_back Vf MWf pkgs VN h i j s o (inv_final Vf MWf pkgs utab l ops) Hs Ho M MO PK NC ND D).
Qed.
Print Assumptions C11_assign_vol_reads_back.

(* copy_like from a single-phase stream of ANOTHER property package onto a single-phase stream (any heap): if every
   chemical with a non-zero flow exists (by CAS number) in the receiver's package, the receiver's molar dict holds each
   value at the position of ITS chemical in the receiver's package, the receiver takes the source's phase, T and P, and
   nothing else changes (no view cache is touched: the cached views stay valid because they convert on every read, which
   is what C11_mass_get / C11_vol_get state for the heap after ANY history, these copies included); if a chemical is
   missing the call raises with the receiver emptied, phase, T and P untouched *)
Theorem C11_copy_like_other_package : forall pkgs h i s o,
  multi s = false -> multi o = false -> pkg s <> pkg o -> sdata s <> sdata o ->
  (sdata s < length (rows h))%nat -> (pbox s < length (boxes h))%nat -> (tc s < length (tps h))%nat ->
  let co := chems pkgs (pkg o) in
  let cs := chems pkgs (pkg s) in
  let h' := fst (copy_like pkgs h i s o false) in
  (xmiss co cs (getrow h (sdata o)) = false ->
     snd (copy_like pkgs h i s o false) = XNone /\
     getrow h' (sdata s) = map Qred (remap co cs (getrow h (sdata o))) /\
     (forall j k, index_of (cas (gid pkgs (pkg s) j)) (map cas co) = Some k -> (j < length cs)%nat ->
        nthq (getrow h' (sdata s)) j == nthq (getrow h (sdata o)) k) /\
     getbox h' (pbox s) = getbox h (pbox o) /\ gettp h' (tc s) = gettp h (tc o)) /\
  (xmiss co cs (getrow h (sdata o)) = true ->
     snd (copy_like pkgs h i s o false) = XErr EOther /\
     (forall j, nthq (getrow h' (sdata s)) j == 0) /\ boxes h' = boxes h /\ tps h' = tps h) /\
  (forall d, d <> sdata s -> getrow h' d = getrow h d) /\
  arrs h' = arrs h /\ caches h' = caches h /\ streams h' = streams h.
Proof. exact copy_like_x_single. Qed.
Print Assumptions C11_copy_like_other_package.

(* s.empty() (the first step of Stream.reset_flow and MultiStream.reset_flow): every molar dict of the stream holds zeros,
   no other dict, array, cache or stream changes, and the three totals are zero *)
Theorem C11_empty : forall Vf MWf pkgs h s, (forall d, In d (rowrefs h s) -> (d < length (rows h))%nat) ->
  let h' := empty_all h s in
  (forall d, In d (rowrefs h s) -> forall j, nthq (getrow h' d) j == 0) /\
  (forall d, ~ In d (rowrefs h s) -> getrow h' d = getrow h d) /\
  F_mol h' s == 0 /\ F_mass MWf pkgs h' s == 0 /\ F_vol Vf pkgs h' s == 0 /\
  arrs h' = arrs h /\ caches h' = caches h /\ streams h' = streams h.
Proof. intros Vf MWf pkgs h s R. exact (empty_spec Vf MWf pkgs h s R). Qed.
Print Assumptions C11_empty.

(* ---------- non-vacuity ---------- *)
Definition exV : nat -> phase -> Q -> Q -> Q := fun g p T P => (1 # 2) + inject_Z (Z.of_nat g) + T / 1024.
Definition exMW : nat -> Q := mwstub.
Definition exU : list (option (view * Q)) := [Some (VMol, 1); Some (VMass, 1); None].
Definition exL : list init :=
  [IS 0 Pl 320 65536 [2; (1 # 2); 1]; IM 0 [Pg; Pl] 320 65536 [[1; 2; 0]; [0; (1 # 2); 3]]; IS 0 Ps 256 65536 [1; 8; (1 # 2)]].
(* reads, a link, an unlink, a phase change, an expansion of phases by copy_like, a package reset and its round trip *)
Definition exOps : list op :=
  [ORead 0 VMass; ORead 0 VVol; OLink 2 0 true true true; OUnlink 0; OPhase 0 Pg; OPhase 2 Ps; ORead 1 VMass;
   OCopyLike 1 2; ORoundTrip 1 1; OThermo 0 1; OSet 0 VMass 0 1 4; ORead 0 VVol; ORead 1 VVol; OTotal 1 VVol;
   OCopyRow 1 VVol 0 1; OTotal 1 VVol; OSub 1 0; ORead 3 VMass; OPhases 1 [Pg; Pl; Ps; PL]; ORead 3 VVol; ORead 1 VVol;
   OResetFlow 0 (Some Pl) (Some 1%nat) None [(1%nat, 3)]; OGetFlow 0 1 0 1; OGetData 0 VMol 1 0 1; OGetData 0 VMass 1 0 1; ORead 1 VMass].

(* the history runs without leaving the modelled domain, ends with cached mass and volumetric views for streams 0 and 1
   (so the conclusions of alias_inv / vol_get / mass_get talk about existing views), stream 1 has three phases after the
   expansion, and the hypotheses of mass_get / mass_set / set_total_keeps_composition hold for it *)
Example C11_nonvacuous :
  let h := final exV exMW pkgstub exU exL exOps in
  existsb (fun x => match x with XDomain | XErr EIndex => true | _ => false end)
          (snd (runS exV exMW pkgstub exU (buildS exL) exOps)) = false /\
  exists s0 s1 m0 m1 v0 v1,
    nth_error (streams h) 0 = Some s0 /\ nth_error (streams h) 1 = Some s1 /\
    c_mass (getcache h (cch s0)) = Some m0 /\ c_mass (getcache h (cch s1)) = Some m1 /\
    vol_find (tc s0) (c_vols (getcache h (cch s0))) = Some v0 /\
    vol_find (tc s1) (c_vols (getcache h (cch s1))) = Some v1 /\
    length (srcs h s1) = 4%nat /\ NoDup (rowrefs h s1) /\
    (forall d, In d (rowrefs h s1) -> (d < length (rows h))%nat /\ length (getrow h d) = length (mwvec exMW pkgstub (pkg s1))) /\
    ~ total exV exMW pkgstub h s1 VMass == 0.
Proof.
  cbv zeta. split; [vm_compute; reflexivity|].
  do 6 eexists. repeat (split; [vm_compute; reflexivity|]).
  split; [vm_compute; repeat constructor; simpl; intuition discriminate|].
  split.
  - vm_compute. intros d [E|[E|[E|[E|F]]]]; try contradiction; subst d; split; try reflexivity; lia.
  - vm_compute. discriminate.
Qed.

(* non-vacuity of the three: oracles with no zero, a reachable store with two single-phase streams of one package *)
Definition dV : nat -> phase -> Q -> Q -> Q := fun _ _ _ _ => 1.
Definition dMW : nat -> Q := fun _ => 2.
Definition dOps : list op := [ORead 0 VVol; OSetT 0 384; ORead 2 VMass; OPhase 2 Pg].
Example C11_deep_nonvacuous :
  (forall g, ~ dMW g == 0) /\ (forall g p T P, ~ dV g p T P == 0) /\
  let h := final dV dMW pkgstub exU exL dOps in
  exists s o, nth_error (streams h) 0 = Some s /\ nth_error (streams h) 2 = Some o /\
    multi s = false /\ multi o = false /\ pkg s = pkg o /\ cch s <> cch o /\ sdata s <> sdata o /\
    (sdata s < length (rows h))%nat /\
    length (getrow h (sdata s)) = length (mwvec dMW pkgstub (pkg s)) /\
    length (getrow h (sdata o)) = length (mwvec dMW pkgstub (pkg s)) /\
    unit_of exU 1 = Some (VMass, 1) /\ ~ 1 == 0 /\ NoDup (map fst [(0%nat, 2); (2%nat, 3)]) /\
    (forall k v, In (k, v) [(0%nat, 2); (2%nat, 3)] -> (k < length (getrow h (sdata s)))%nat) /\
    snd (reset_flow dV dMW pkgstub exU h s (Some Pg) (Some 1%nat) (Some 8) [(0%nat, 2); (2%nat, 3)]) = XNone.
Proof.
  split; [intros g; vm_compute; discriminate|]. split; [intros g p T P; vm_compute; discriminate|].
  cbv zeta. do 2 eexists. repeat (split; [vm_compute; reflexivity|]).
  split; [vm_compute; discriminate|]. split; [vm_compute; discriminate|].
  split; [vm_compute; lia|]. repeat (split; [vm_compute; reflexivity|]).
  split; [vm_compute; discriminate|]. split; [repeat constructor; simpl; intuition discriminate|].
  split; [|vm_compute; reflexivity].
  intros k v [E|[E|[]]]; inversion E; subst; vm_compute; lia.
Qed.


(* non-vacuity of the row-copy / view-copy theorems: after a history with volumetric reads at two temperatures, stream 1
   (two phases) has two rows with different molar dicts, streams 0 and 2 are single-phase with their own dicts and caches *)
Definition cOps : list op := [ORead 1 VVol; OSetT 1 384; ORead 1 VMass; ORead 0 VVol; OSetT 0 384; ORead 2 VVol].
Example C11_copy_nonvacuous :
  let h := final dV dMW pkgstub exU exL cOps in
  exists s1 d1 d2 s1' s0 s2, nth_error (streams h) 1 = Some s1 /\ multi s1 = true /\
    nth_error (srcs h s1) 0 = Some (d1, s1') /\ nth_error (srcs h s1) 1 = Some (d2, Fixed Pl) /\ d1 <> d2 /\
    (d1 < length (rows h))%nat /\ length (getrow h d2) = length (mwvec dMW pkgstub (pkg s1)) /\
    nth_error (streams h) 0 = Some s0 /\ nth_error (streams h) 2 = Some s2 /\ multi s0 = false /\ multi s2 = false /\
    pkg s0 = pkg s2 /\ (cch s0 <> cch s2 \/ tc s0 <> tc s2) /\ sdata s0 <> sdata s2 /\ (sdata s0 < length (rows h))%nat.
Proof.
  cbv zeta. do 6 eexists. repeat (split; [vm_compute; reflexivity|]).
  split; [vm_compute; discriminate|]. split; [vm_compute; lia|]. repeat (split; [vm_compute; reflexivity|]).
  split; [left; vm_compute; discriminate|]. split; [vm_compute; discriminate|]. vm_compute; lia.
Qed.

(* the histories the theorems range over contain MultiStream.reset_flow, Stream.empty and copy_like across packages: this
   one runs them inside the modelled domain (no XDomain, no index error), the MultiStream ends with three phases and
   cached views, stream 3 (package 1) received the flows of stream 0 (package 0) at the positions of package 1 *)
Definition xL : list init :=
  [IS 0 Pl 320 65536 [2; (1 # 2); 1]; IM 0 [Pg; Pl] 320 65536 [[1; 2; 0]; [0; (1 # 2); 3]]; IS 0 Ps 256 65536 [1; 8; (1 # 2)];
   IS 1 Pg 384 65536 [1; 0; 0; 4]].
Definition xU : list (option (view * Q)) := [Some (VMol, 1); Some (VMass, 1); Some (VVol, 1); None].
Definition xOps : list op :=
  [ORead 1 VVol; OSub 1 0; ORead 4 VMass;
   OResetFlowM 1 (Some 8) 2 None [(Ps, [(0%nat, 2); (1%nat, 1)]); (Pg, [(2%nat, 4)])];
   ORead 1 VVol; OGetTotal 1 2; ORead 3 VMass; OCopyLike 3 0; ORead 3 VMass; ORead 3 VVol; OEmpty 2; OTotal 2 VVol;
   OCopyLike 0 3; ORead 0 VVol].
Example C11_new_ops_nonvacuous :
  let h := final exV exMW pkgstub xU xL xOps in
  existsb (fun x => match x with XDomain | XErr _ => true | _ => false end)
          (snd (runS exV exMW pkgstub xU (buildS xL) xOps)) = false /\
  exists s1 s3 v1 m3, nth_error (streams h) 1 = Some s1 /\ phs s1 = [Pg; Pl; Ps] /\
    vol_find (tc s1) (c_vols (getcache h (cch s1))) = Some v1 /\
    nth_error (streams h) 3 = Some s3 /\ pkg s3 = 1%nat /\ c_mass (getcache h (cch s3)) = Some m3 /\
    getrow h (sdata s3) = [1; 2; 0; (1 # 2)].
Proof.
  cbv zeta. split; [vm_compute; reflexivity|].
  do 4 eexists. repeat (split; [vm_compute; reflexivity|]). vm_compute. reflexivity.
Qed.


(* ====================================================================================
   get_property / set_property of the flow totals (ModelProp.v): histories that also contain these two calls, so the
   factor cache of a units object may be filled FIRST by either direction of conversion
   ==================================================================================== *)
Definition finalX Vf MWf pkgs utab (l : list init) (ops : list opx) : sstate :=
  fst (runX Vf MWf pkgs utab (buildS l) ops).
Lemma KInv_finalX Vf MWf pkgs utab l ops : KInv Vf pkgs utab (sk (finalX Vf MWf pkgs utab l ops)).
Proof. exact (KInv_runX Vf MWf pkgs utab ops (buildS l) (KInv_buildS Vf pkgs utab l)). Qed.

(* after EVERY such history (from cold caches), a conversion factor asked of a units object is what pint says for that
   object and unit: it does not matter whether the unit was first used by conversion_factor/convert (reads, set_flow,
   get_data ...) or by unconvert (set_property), and a unit of another dimension is still rejected *)
Theorem C11_property_unit_caches_coherent : forall Vf MWf pkgs utab l ops,
  let S := finalX Vf MWf pkgs utab l ops in
  Inv Vf pkgs (s_heap S) /\
  (forall w u, snd (convS utab S w u) = conv utab w u) /\
  (forall u, snd (flow_lookup utab (ku (sk S)) u) = match unit_of utab u with Some x => Ok x | None => Err EDim end).
Proof.
  intros Vf MWf pkgs utab l ops S. pose proof (KInv_finalX Vf MWf pkgs utab l ops) as H. fold S in H.
  split; [exact (proj1 H)|]. split.
  - intros w u. exact (proj1 (convS_ok Vf pkgs utab S w u H)).
  - intros u. exact (proj1 (flow_lookup_ok utab (ku (sk S)) u (proj1 (proj2 H)))).
Qed.
Print Assumptions C11_property_unit_caches_coherent.

(* writing a total through set_property in unit u (factor f from the base unit of the view): after any history it IS the
   F_mol / F_mass / F_vol setter called with v / f on a state with the same heap, property memo, index pointers and
   phase-stream registry (only the factor cache may hold one more entry, and every layer's invariant still holds);
   a unit of another dimension raises DimensionalityError and leaves all of that as it was *)
Theorem C11_set_property_factor : forall Vf MWf pkgs utab l ops,
  let S := finalX Vf MWf pkgs utab l ops in
  forall i w u v,
  (forall f, unit_of utab u = Some (w, f) ->
     exists S1, same_but_factors S S1 /\ KInv Vf pkgs utab (sk S1) /\
       stepX Vf MWf pkgs utab S (XSetProp i w u v) = stepS Vf MWf pkgs utab S1 (OSetF i w (v / f))) /\
  ((forall f, unit_of utab u <> Some (w, f)) ->
     snd (stepX Vf MWf pkgs utab S (XSetProp i w u v)) = XErr EDim /\
     same_but_factors S (fst (stepX Vf MWf pkgs utab S (XSetProp i w u v)))).
Proof.
  intros Vf MWf pkgs utab l ops S i w u v.
  exact (set_property_factor Vf MWf pkgs utab S i w u v (KInv_finalX Vf MWf pkgs utab l ops)).
Qed.
Print Assumptions C11_set_property_factor.

(* reading a total through get_property in unit u: after any history it is the total (in the base unit) times the fixed
   factor f of u, so two units of the same view always read in the ratio of their factors; another dimension raises *)
Theorem C11_get_property_factor : forall Vf MWf pkgs utab l ops,
  let S := finalX Vf MWf pkgs utab l ops in
  forall i w u y, snd (stepS Vf MWf pkgs utab S (OTotal i w)) = XMat [[y]] ->
  (forall f, unit_of utab u = Some (w, f) -> snd (stepX Vf MWf pkgs utab S (XGetProp i w u)) = XMat [[f * y]]) /\
  ((forall f, unit_of utab u <> Some (w, f)) -> snd (stepX Vf MWf pkgs utab S (XGetProp i w u)) = XErr EDim) /\
  same_but_factors (fst (stepS Vf MWf pkgs utab S (OTotal i w))) (fst (stepX Vf MWf pkgs utab S (XGetProp i w u))).
Proof.
  intros Vf MWf pkgs utab l ops S i w u y X.
  exact (get_property_factor Vf MWf pkgs utab S i w u y (KInv_finalX Vf MWf pkgs utab l ops) X).
Qed.
Print Assumptions C11_get_property_factor.

(* non-vacuity: a unit first used by set_property (cold cache), then read in the same and in another unit of the view *)
Definition pU : list (option (view * Q)) := [Some (VMol, 1); Some (VMass, 1); Some (VMass, 2); Some (VVol, 1); Some (VVol, 4); None].
Definition pOps : list opx :=
  [XSetProp 0 VMass 2 8; XGetProp 0 VMass 2; XGetProp 0 VMass 1; XBase (OGetTotal 0 2); XSetProp 0 VVol 4 2;
   XGetProp 0 VVol 3; XGetProp 0 VVol 1; XSetProp 0 VMol 5 1].
Example C11_property_nonvacuous :
  list_eqb outcome_eqb (snd (runX exV exMW pkgstub pU (buildS xL) pOps))
    [XNone; XMat [[8]]; XMat [[4]]; XMat [[8]]; XNone; XMat [[1 # 2]]; XErr EDim; XErr EDim] = true
  /\ u_fac (ku (sk (finalX exV exMW pkgstub pU xL pOps))) = [(VVol, 3%nat, 1); (VVol, 4%nat, 4); (VMass, 1%nat, 1); (VMass, 2%nat, 2)].
Proof. split; vm_compute; reflexivity. Qed.
