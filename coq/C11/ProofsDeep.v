(* C11 — deepening round: read-back theorems about the EXISTING model (no new behaviour).
   (1) Stream.reset_flow with several chemicals: every written flow reads back in its unit;
       with a total: the total reads back and the written composition is kept.
   (2) a view written with another view (s1.mass = s2.mass, s1.vol = s2.vol): reading the destination view
       afterwards returns the values read from the source. *)
From V Require Import Common.NumFacts C11.Model C11.Proofs.
Import ListNotations.

Section Deep.
Variable Vf : nat -> phase -> Q -> Q -> Q.
Variable MWf : nat -> Q.
Variable pkgs : list (list nat).
Variable utab : list (option (view * Q)).
Hypothesis MW_nz : forall g, ~ MWf g == 0.
Hypothesis Vf_nz : forall g p T P, ~ Vf g p T P == 0.

Notation Inv := (Inv Vf pkgs).

(* the factor an access to entry k of row r of the volumetric view uses NOW (memo hit or fresh value) *)
Definition rdV h s (r k : nat) : Q :=
  match nth_error (vv_rows (by_volume h s)) r with
  | Some vr => fst (vfactor Vf pkgs h (by_volume h s) vr k)
  | None => 0
  end.
Definition fac h s (w : view) (r k : nat) : Q :=
  match w with VMol => 1 | VMass => MWf (gid pkgs (pkg s) k) | VVol => rdV h s r k end.
Definition mol h (d k : nat) : Q := nthq (getrow h d) k.

(* a valid position: stream i, row r of it is the molar dict d, entry k exists *)
Definition GP h (i : nat) s (r d : nat) (src : phsrc) : Prop :=
  Inv h /\ nth_error (streams h) i = Some s /\ nth_error (srcs h s) r = Some (d, src) /\ (d < length (rows h))%nat.

Lemma vrow_at h i s r d src : GP h i s r d src ->
  exists vr, nth_error (vv_rows (by_volume h s)) r = Some vr /\ vr_dct vr = d /\ vr_src vr = src /\
             vrow_ok Vf pkgs (pkg s) vr /\ vv_pkg (by_volume h s) = pkg s.
Proof.
  intros (I & Hs & Hr & _). destruct (by_volume_ok Vf pkgs h i s I Hs) as (A & B & C & F).
  rewrite <- A in Hr. apply nth_error_map_inv in Hr. destruct Hr as (vr & Hvr & E).
  unfold vsrc in E. inversion E; subst. exists vr. repeat split; auto.
  apply (proj1 (Forall_forall _ _) F). eapply nth_error_In; eauto.
Qed.

Lemma fac_nonzero h i s r d src w k : GP h i s r d src -> ~ fac h s w r k == 0.
Proof.
  intros G. destruct w; simpl.
  - intros Q0. discriminate.
  - apply MW_nz.
  - destruct (vrow_at h i s r d src G) as (vr & Hvr & _ & _ & OK & PK). unfold rdV. rewrite Hvr.
    destruct (vfactor_ok Vf pkgs h (by_volume h s) vr k (pkg s) PK OK) as ((T' & P' & _ & _ & FV) & _).
    rewrite FV. unfold Vat. intros Q0. apply (Vf_nz (gid pkgs (pkg s) k) (base (src_phase h (vr_src vr))) T' P'). lra.
Qed.

(* reading an item: the molar entry times the factor *)
Lemma get_item_fac h i s r d src w k : GP h i s r d src ->
  exists h' x, get_item Vf MWf pkgs h s w r k = (h', Ok x) /\ x == mol h d k * fac h s w r k.
Proof.
  intros G. pose proof G as (I & Hs & Hr & D). unfold get_item, fac, mol. destruct w.
  - rewrite (nth_error_srcs_rowrefs h s r d src Hr). eexists _, _. split; [reflexivity|]. ring.
  - destruct (inv_by_mass Vf pkgs h i s I Hs) as (_ & (A & B) & R & _).
    destruct (by_mass h s) as [h1 mv]. cbn [fst snd] in *. rewrite <- A in Hr. rewrite Hr. cbn [fst].
    eexists _, _. split; [reflexivity|]. unfold getrow. rewrite R, B. reflexivity.
  - destruct (vrow_at h i s r d src G) as (vr & Hvr & DV & _ & _ & _). unfold rdV. rewrite Hvr, DV.
    destruct (qzerob (nthq (getrow h d) k)) eqn:Z.
    + eexists _, _. split; [reflexivity|]. apply qzerob_true in Z. rewrite Z. ring.
    + destruct (vfactor Vf pkgs h (by_volume h s) vr k) as [V vr']. eexists _, _. split; [reflexivity|]. reflexivity.
Qed.

(* a second vfactor for ANOTHER key on the row left by vfactor for key k sees what it would have seen before *)
Lemma vfactor_other h h2 vv vv2 r k k' : k' <> k ->
  tps h2 = tps h -> boxes h2 = boxes h -> vv_tp vv2 = vv_tp vv -> vv_pkg vv2 = vv_pkg vv ->
  fst (vfactor Vf pkgs h2 vv2 (snd (vfactor Vf pkgs h vv r k)) k') = fst (vfactor Vf pkgs h vv r k').
Proof.
  intros N ET EB E1 E2. unfold vfactor. rewrite E1, E2.
  assert (G : gettp h2 (vv_tp vv) = gettp h (vv_tp vv)) by (unfold gettp; rewrite ET; reflexivity).
  assert (B : forall x, src_phase h2 x = src_phase h x) by (intros [p|b]; simpl; auto; unfold getbox; rewrite EB; reflexivity).
  rewrite G.
  assert (NE : Nat.eqb k k' = false) by (apply Nat.eqb_neq; auto).
  destruct (memo_get k (vr_memo r)) as [e|].
  - destruct (phase_eqb (me_ph e) (src_phase h (vr_src r)) && in_equilibrium (me_T e) (me_P e) (fst (gettp h (vv_tp vv))) (snd (gettp h (vv_tp vv))));
      cbn [fst snd vr_memo vr_src vr_dct]; rewrite B; cbn [memo_get]; rewrite ?NE;
      destruct (memo_get k' (vr_memo r)) as [e'|]; try reflexivity;
      match goal with |- context [if ?c then _ else _] => destruct c end; reflexivity.
  - cbn [fst snd vr_memo vr_src vr_dct]. rewrite B. cbn [memo_get]. rewrite NE.
    destruct (memo_get k' (vr_memo r)) as [e'|]; try reflexivity;
      match goal with |- context [if ?c then _ else _] => destruct c end; reflexivity.
Qed.

(* what a write leaves untouched *)
Lemma put_item_frame h d k x :
  arrs (put_item h d k x) = arrs h /\ tps (put_item h d k x) = tps h /\ boxes (put_item h d k x) = boxes h /\
  caches (put_item h d k x) = caches h /\ streams (put_item h d k x) = streams h /\
  length (rows (put_item h d k x)) = length (rows h) /\
  forall d', length (getrow (put_item h d k x) d') = length (getrow h d').
Proof.
  unfold put_item, put_row. simpl. do 5 (split; [reflexivity|]). split; [apply upd_length|].
  intros d'. unfold getrow. simpl. destruct (Nat.eq_dec d d') as [E|N].
    + subst d'. destruct (Nat.lt_ge_cases d (length (rows h))) as [L|G].
      * rewrite nth_upd_eq by auto. rewrite map_length, upd_length. reflexivity.
      * assert (U : upd (rows h) d (map Qred (upd (nth d (rows h) []) k x)) = rows h).
        { clear - G. revert d G. induction (rows h) as [|a l IH]; intros [|d] G; simpl in *; auto; try lia. f_equal. apply IH. lia. }
        rewrite U. reflexivity.
    + rewrite nth_upd_neq by auto. reflexivity.
Qed.

Definition frame h h' : Prop :=
  arrs h' = arrs h /\ tps h' = tps h /\ boxes h' = boxes h /\ streams h' = streams h /\
  length (rows h') = length (rows h) /\ forall d', length (getrow h' d') = length (getrow h d').

Lemma set_item_spec h i s r d src w k v : GP h i s r d src -> (k < length (getrow h d))%nat ->
  let h' := fst (set_item Vf MWf pkgs h s w r k v) in
  snd (set_item Vf MWf pkgs h s w r k v) = XNone /\
  mol h' d k == v / fac h s w r k /\
  (forall d' k', (d', k') <> (d, k) -> mol h' d' k' == mol h d' k') /\
  (forall k'', fac h' s w r k'' = fac h s w r k'') /\
  frame h h'.
Proof.
  intros G K. pose proof G as (I & Hs & Hr & D). destruct (I i s Hs) as ((WC & _) & _ & _).
  unfold set_item, fac, mol. destruct w.
  - rewrite (nth_error_srcs_rowrefs h s r d src Hr). cbn [fst snd].
    destruct (put_item_frame h d k v) as (A & T & B & C & S & L & LL).
    split; [reflexivity|]. split; [rewrite getrow_put_item_eq by auto; field; discriminate|].
    split; [intros d' k' N; apply getrow_put_item_other; auto|]. split; [reflexivity|]. repeat split; auto.
  - destruct (inv_by_mass Vf pkgs h i s I Hs) as (_ & (A & B) & R & AR & S & T & BX).
    destruct (by_mass h s) as [h1 mv]. cbn [fst snd] in *. rewrite <- A in Hr. rewrite Hr. cbn [fst snd].
    assert (GR : forall d0, getrow h1 d0 = getrow h d0) by (intros; unfold getrow; rewrite R; reflexivity).
    destruct (put_item_frame h1 d k (v / MWf (gid pkgs (mv_pkg mv) k))) as (A' & T' & B' & C' & S' & L' & LL').
    split; [reflexivity|]. split; [rewrite getrow_put_item_eq; [rewrite B; reflexivity|rewrite R; auto|rewrite GR; auto]|].
    split; [intros d' k' N; rewrite getrow_put_item_other by auto; rewrite GR; reflexivity|]. split; [reflexivity|].
    repeat split; try congruence; try (intros d'; rewrite LL', GR; reflexivity).
  - destruct (vrow_at h i s r d src G) as (vr & Hvr & DV & SV & OK & PK). unfold rdV. rewrite Hvr.
    assert (LR : (r < length (vv_rows (by_volume h s)))%nat) by (eapply nth_error_lt; eauto).
    destruct (qzerob v) eqn:Z.
    + cbn [fst snd]. rewrite DV.
      destruct (put_item_frame (store_vol h s (by_volume h s)) d k 0) as (A' & T' & B' & C' & S' & L' & LL').
      split; [reflexivity|]. apply qzerob_true in Z.
      split; [rewrite getrow_put_item_eq; [rewrite Z; unfold Qdiv; ring|exact D|exact K]|].
      split; [intros d' k' N; rewrite getrow_put_item_other by auto; reflexivity|].
      split.
      * intros k''. change (by_volume (put_item (store_vol h s (by_volume h s)) d k 0) s) with (by_volume (store_vol h s (by_volume h s)) s).
        rewrite by_volume_store by auto. rewrite Hvr. unfold vfactor. reflexivity.
      * repeat split; auto.
    + destruct (vfactor Vf pkgs h (by_volume h s) vr k) as [V vr'] eqn:EV. cbn [fst snd]. rewrite DV.
      set (vv' := mkvv (upd (vv_rows (by_volume h s)) r vr') (vv_tp (by_volume h s)) (vv_pkg (by_volume h s))).
      destruct (put_item_frame (store_vol h s vv') d k (v / V)) as (A' & T' & B' & C' & S' & L' & LL').
      split; [reflexivity|]. split; [rewrite getrow_put_item_eq; [reflexivity|exact D|exact K]|].
      split; [intros d' k' N; rewrite getrow_put_item_other by auto; reflexivity|].
      split.
      * intros k''. change (by_volume (put_item (store_vol h s vv') d k (v / V)) s) with (by_volume (store_vol h s vv') s).
        rewrite by_volume_store by auto.
        assert (Hvr' : nth_error (vv_rows vv') r = Some vr') by (unfold vv'; simpl; apply nth_error_upd_same; auto).
        rewrite Hvr'.
        assert (E' : vr' = snd (vfactor Vf pkgs h (by_volume h s) vr k)) by (rewrite EV; reflexivity).
        destruct (Nat.eq_dec k'' k) as [Q|N].
        -- subst k''. rewrite E'. rewrite (vfactor_again Vf pkgs h _ (by_volume h s) vv' vr k); try reflexivity.
        -- rewrite E'. apply vfactor_other; auto.
      * repeat split; auto.
Qed.

Lemma GP_frame h h' i s r d src : GP h i s r d src -> Inv h' -> frame h h' -> GP h' i s r d src.
Proof.
  intros (I & Hs & Hr & D) I' (A & T & B & S & L & LL). split; [exact I'|]. split; [congruence|]. split; [|lia].
  rewrite <- Hr. unfold srcs, getarr. rewrite A. reflexivity.
Qed.

(* several writes through one view (reset_flow / set_flow with a tuple of chemicals) *)
Lemma set_items_spec w f fl : NoDup (map fst fl) -> forall h i s d src, GP h i s O d src ->
  (forall k v, In (k, v) fl -> (k < length (getrow h d))%nat) ->
  let h' := set_items Vf MWf pkgs h s w f fl in
  (forall k v, In (k, v) fl -> mol h' d k == (v / f) / fac h s w O k) /\
  (forall d' k', (d' <> d \/ ~ In k' (map fst fl)) -> mol h' d' k' == mol h d' k') /\
  (forall k'', fac h' s w O k'' = fac h s w O k'') /\ frame h h' /\ Inv h'.
Proof.
  induction fl as [|[k0 v0] fl IH]; intros ND h i s d src G KR.
  - simpl. split; [intros k v []|]. split; [reflexivity|]. split; [reflexivity|]. split; [|apply G].
    repeat split; auto.
  - simpl in ND. inversion ND as [|? ? NI ND']; subst. cbn [set_items].
    assert (K0 : (k0 < length (getrow h d))%nat) by (apply (KR k0 v0); left; reflexivity).
    destruct (set_item_spec h i s O d src w k0 (v0 / f) G K0) as (_ & M0 & OT & FC & FR).
    set (h1 := fst (set_item Vf MWf pkgs h s w O k0 (v0 / f))) in *.
    assert (I1 : Inv h1) by (apply inv_set_item with (i := i); apply G).
    assert (G1 : GP h1 i s O d src) by (eapply GP_frame; eauto).
    assert (KR1 : forall k v, In (k, v) fl -> (k < length (getrow h1 d))%nat).
    { intros k v H. destruct FR as (_ & _ & _ & _ & _ & LL). rewrite LL. apply (KR k v). right; exact H. }
    destruct (IH ND' h1 i s d src G1 KR1) as (MA & OA & FA & FRA & IA).
    split; [|split; [|split; [|split]]].
    + intros k v [E|H].
      * inversion E; subst k v. rewrite OA by (right; exact NI). rewrite M0. reflexivity.
      * rewrite (MA k v H). rewrite FC. reflexivity.
    + intros d' k' C. rewrite OA.
      * apply OT. intros E. inversion E; subst. destruct C as [C|C]; [apply C; reflexivity|apply C; left; reflexivity].
      * destruct C as [C|C]; [left; exact C|right; intros H; apply C; right; exact H].
    + intros k''. rewrite FA. apply FC.
    + destruct FR as (A & T & B & S & L & LL). destruct FRA as (A' & T' & B' & S' & L' & LL').
      repeat split; try congruence; try (intros d'; rewrite LL', LL; reflexivity).
    + exact IA.
Qed.

(* TARGET 1a: reset_flow(phase, units, several chemicals): every written flow reads back in that unit *)
Lemma reset_flow_multi_reads_back h i s p u w f fl :
  Inv h -> nth_error (streams h) i = Some s -> multi s = false ->
  unit_of utab u = Some (w, f) -> ~ f == 0 -> fl <> [] -> NoDup (map fst fl) ->
  (sdata s < length (rows h))%nat ->
  (forall k v, In (k, v) fl -> (k < length (getrow h (sdata s)))%nat) ->
  let h1 := fst (reset_flow Vf MWf pkgs utab h s p (Some u) None fl) in
  forall k v, In (k, v) fl ->
    exists h2 x, get_item Vf MWf pkgs h1 s w O k = (h2, Ok x) /\ f * x == v.
Proof.
  intros I Hs M U NZ NE ND D KR. unfold reset_flow. rewrite M. cbn [nonzero_opt]. rewrite U.
  destruct fl as [|kv0 fl0]; [congruence|]. set (fl := kv0 :: fl0) in *. cbn [fst].
  set (h0 := reset_flow_pre h s p).
  assert (I0 : Inv h0) by (apply inv_reset_flow_pre; exact I).
  destruct (reset_flow_pre_struct h s p) as (A0 & _ & S0).
  assert (L0 : length (rows h0) = length (rows h) /\ forall d', length (getrow h0 d') = length (getrow h d')).
  { unfold h0, reset_flow_pre, empty_all, rowrefs. rewrite M. cbn [map_rows].
    assert (X : length (rows (put_row h (sdata s) (vzero (length (getrow h (sdata s)))))) = length (rows h) /\
                forall d', length (getrow (put_row h (sdata s) (vzero (length (getrow h (sdata s))))) d') = length (getrow h d')).
    { split; [simpl; apply upd_length|]. intros d'. unfold getrow. simpl. destruct (Nat.eq_dec (sdata s) d') as [E|N].
      - subst d'. rewrite nth_upd_eq by auto. rewrite map_length. unfold vzero. apply repeat_length.
      - rewrite nth_upd_neq by auto. reflexivity. }
    destruct p; exact X. }
  assert (G0 : GP h0 i s O (sdata s) (Box (pbox s))).
  { split; [exact I0|]. split; [fold h0 in S0; congruence|]. split; [unfold srcs; rewrite M; reflexivity|]. destruct L0 as (L & _). lia. }
  assert (KR0 : forall k v, In (k, v) fl -> (k < length (getrow h0 (sdata s)))%nat).
  { intros k v H. destruct L0 as (_ & LL). rewrite LL. apply (KR k v H). }
  destruct (set_items_spec w f fl ND h0 i s (sdata s) (Box (pbox s)) G0 KR0) as (MA & _ & FA & FR & IA).
  intros k v H.
  assert (G1 : GP (set_items Vf MWf pkgs h0 s w f fl) i s O (sdata s) (Box (pbox s))) by (eapply GP_frame; eauto).
  destruct (get_item_fac _ i s O (sdata s) (Box (pbox s)) w k G1) as (h2 & x & GE & X).
  exists h2, x. split; [exact GE|]. rewrite X, (MA k v H), FA.
  field. split; [exact NZ|exact (fac_nonzero h0 i s O (sdata s) (Box (pbox s)) w k G0)].
Qed.

(* TARGET 2 (mass): s_i.mass = s_j.mass between two single-phase streams of one package with their own molar dicts and
   view caches: reading the destination's mass view afterwards returns what the source's mass view held *)
Lemma assign_mass_reads_back h i j s o :
  Inv h -> nth_error (streams h) i = Some s -> nth_error (streams h) j = Some o ->
  multi s = false -> multi o = false -> pkg s = pkg o -> cch s <> cch o -> sdata s <> sdata o ->
  (sdata s < length (rows h))%nat ->
  length (getrow h (sdata s)) = length (mwvec MWf pkgs (pkg s)) ->
  length (getrow h (sdata o)) = length (mwvec MWf pkgs (pkg s)) ->
  let h' := fst (assign_view Vf MWf pkgs h s o VMass) in
  snd (assign_view Vf MWf pkgs h s o VMass) = XNone /\
  forall k, nthq (nth O (snd (read_mass MWf pkgs h' s)) []) k == nthq (nth O (snd (read_mass MWf pkgs h o)) []) k.
Proof.
  intros I Hs Ho M MO PK NC ND D LS LO.
  assert (SRC_o : nth_error (srcs h o) O = Some (sdata o, Box (pbox o))) by (unfold srcs; rewrite MO; reflexivity).
  assert (RO : forall k, nthq (nth O (snd (read_mass MWf pkgs h o)) []) k == nthq (getrow h (sdata o)) k * nthq (mwvec MWf pkgs (pkg o)) k).
  { intros k. apply (mass_get_lemma Vf MWf pkgs h j o I Ho O (sdata o) (Box (pbox o)) SRC_o). rewrite <- PK. exact LO. }
  pose proof (inv_assign_view Vf MWf pkgs h i j s o VMass I Hs Ho) as I'.
  unfold assign_view in *. rewrite M, MO, PK, Nat.eqb_refl in *. cbn [orb negb] in *.
  destruct (inv_by_mass Vf pkgs h j o I Ho) as (I1 & (A1 & B1) & R1 & AR1 & S1 & _).
  destruct (by_mass h o) as [h1 mo]. cbn [fst snd] in *.
  assert (Hs1 : nth_error (streams h1) i = Some s) by congruence.
  destruct (inv_by_mass Vf pkgs h1 i s I1 Hs1) as (I2 & (A2 & B2) & R2 & AR2 & S2 & _).
  destruct (by_mass h1 s) as [h2 ms]. cbn [fst snd] in *.
  assert (NCb : Nat.eqb (cch s) (cch o) = false) by (apply Nat.eqb_neq; exact NC).
  rewrite NCb in *.
  assert (E2 : mv_rows ms = [(sdata s, Box (pbox s))]) by (rewrite A2; unfold srcs; rewrite M; reflexivity).
  assert (E1 : mv_rows mo = [(sdata o, Box (pbox o))]) by (rewrite A1; unfold srcs; rewrite MO; reflexivity).
  rewrite E2, E1 in *. cbn [fst snd] in *.
  split; [reflexivity|]. intros k.
  set (h3 := put_row h2 (sdata s) (zero_like (getrow h2 (sdata s)))) in *.
  set (vals := xfer_mass (mwvec MWf pkgs (mv_pkg mo)) (mwvec MWf pkgs (mv_pkg ms)) (getrow h3 (sdata o))) in *.
  set (h' := put_row h3 (sdata s) vals) in *.
  assert (RW : rows h2 = rows h) by congruence.
  assert (GE : getrow h3 (sdata o) = getrow h (sdata o)).
  { unfold h3, getrow, put_row. simpl. rewrite nth_upd_neq by auto. rewrite RW. reflexivity. }
  assert (GD : getrow h' (sdata s) = map Qred vals).
  { unfold h', h3, getrow, put_row. simpl. rewrite upd_upd. apply nth_upd_eq. rewrite RW. exact D. }
  assert (LV : length vals = length (getrow h (sdata o))).
  { unfold vals. rewrite GE, B1, B2, PK. clear. generalize (mwvec MWf pkgs (pkg o)). intros mw.
    assert (X : forall vs a b, length (xfer_mass a b vs) = length vs).
    { induction vs as [|x t IH]; intros [|a ms] [|b md]; simpl; auto; try (rewrite map_length; reflexivity); try (f_equal; apply IH). }
    apply X. }
  assert (Hs' : nth_error (streams h') i = Some s).
  { unfold h', h3. simpl. congruence. }
  assert (SRC_s : nth_error (srcs h' s) O = Some (sdata s, Box (pbox s))) by (unfold srcs; rewrite M; reflexivity).
  rewrite (mass_get_lemma Vf MWf pkgs h' i s I' Hs' O (sdata s) (Box (pbox s)) SRC_s).
  2:{ rewrite GD, map_length, LV. congruence. }
  rewrite RO. rewrite GD, nthq_map_Qred. unfold vals. rewrite GE, B1, B2, <- PK.
  apply xfer_mass_spec.
  - congruence.
  - congruence.
  - intros b Hb. unfold mwvec in Hb. apply in_map_iff in Hb. destruct Hb as (g & <- & _). apply MW_nz.
Qed.

(* TARGET 1b: reset_flow with a total: the total reads back in its unit and the flows read back in the written proportions *)
Lemma qsum_cons x l : qsum (x :: l) = x + qsum l.
Proof. reflexivity. Qed.
Lemma lin_row (a : nat -> Q) (c : Q) : forall (r : vec) (l : list nat),
  qsum (map2 (fun m g => m * a g) (map Qred (vscale c r)) l) == c * qsum (map2 (fun m g => m * a g) r l).
Proof.
  induction r as [|x r IH]; intros [|g l]; cbn [vscale map map2]; try (unfold qsum; simpl; ring).
  rewrite !qsum_cons. unfold vscale in IH. rewrite IH. rewrite (Qred_correct (c * x)). ring.
Qed.
Lemma lin_dot (mw : vec) (c : Q) : forall (r : vec), vdot mw (map Qred (vscale c r)) == c * vdot mw r.
Proof.
  unfold vdot, vmul. induction mw as [|a mw IH]; intros [|x r]; cbn [vscale map map2]; try (unfold qsum; simpl; ring).
  rewrite !qsum_cons. unfold vscale in IH. rewrite IH. rewrite (Qred_correct (c * x)). ring.
Qed.
Lemma lin_sum (c : Q) (r : vec) : qsum (map Qred (vscale c r)) == c * qsum r.
Proof.
  induction r as [|x r IH]; cbn [vscale map]; [unfold qsum; simpl; ring|].
  rewrite !qsum_cons. unfold vscale in IH. rewrite IH. rewrite (Qred_correct (c * x)). ring.
Qed.

Lemma total_scale_single h s w c : multi s = false -> (sdata s < length (rows h))%nat -> ~ c == 0 ->
  (w = VVol -> ~ F_mol h s == 0) ->
  total Vf MWf pkgs (scale_all h s c) s w == c * total Vf MWf pkgs h s w.
Proof.
  intros M D NC NF. unfold scale_all, rowrefs. rewrite M. cbn [map_rows].
  set (h' := put_row h (sdata s) (vscale c (getrow h (sdata s)))).
  assert (GR : getrow h' (sdata s) = map Qred (vscale c (getrow h (sdata s)))).
  { unfold h', getrow, put_row. simpl. apply nth_upd_eq. exact D. }
  assert (AR : all_rows h' s = [map Qred (vscale c (getrow h (sdata s)))]).
  { unfold all_rows, rowrefs. rewrite M. simpl. rewrite GR. reflexivity. }
  assert (AR0 : all_rows h s = [getrow h (sdata s)]) by (unfold all_rows, rowrefs; rewrite M; reflexivity).
  assert (FM : F_mol h' s == c * F_mol h s).
  { unfold F_mol. rewrite AR, AR0. simpl. rewrite lin_sum. ring. }
  destruct w; cbn [total].
  - exact FM.
  - unfold F_mass. rewrite AR, AR0. simpl. rewrite lin_dot. ring.
  - assert (N0 : ~ F_mol h s == 0) by (apply NF; reflexivity).
    assert (N1 : ~ F_mol h' s == 0).
    { rewrite FM. intros Q0. apply N0. assert (E : F_mol h s == (c * F_mol h s) / c) by (field; exact NC). rewrite E, Q0. field. exact NC. }
    rewrite (F_vol_is_sum Vf pkgs h' s N1), (F_vol_is_sum Vf pkgs h s N0).
    assert (CP : cur_phases h' s = cur_phases h s) by reflexivity.
    assert (TP : gettp h' (tc s) = gettp h (tc s)) by reflexivity.
    rewrite CP, TP, AR, AR0. unfold cur_phases. rewrite M. simpl. rewrite lin_row. ring.
Qed.

Lemma rdV_rows_only h h' s r k :
  caches h' = caches h -> arrs h' = arrs h -> tps h' = tps h -> boxes h' = boxes h -> rdV h' s r k = rdV h s r k.
Proof.
  intros C A T B. unfold rdV.
  assert (BV : by_volume h' s = by_volume h s).
  { unfold by_volume, getcache, new_volview, srcs, getarr. rewrite C, A. reflexivity. }
  rewrite BV. destruct (nth_error (vv_rows (by_volume h s)) r) as [vr|]; [|reflexivity].
  unfold vfactor, gettp, src_phase, getbox. rewrite T.
  destruct (vr_src vr); rewrite ?B; reflexivity.
Qed.

Lemma reset_flow_total_eq h s p u w f fl t : multi s = false -> ~ t == 0 -> unit_of utab u = Some (w, f) ->
  reset_flow Vf MWf pkgs utab h s p (Some u) (Some t) fl
  = set_total Vf MWf pkgs (set_items Vf MWf pkgs (reset_flow_pre h s p) s w f fl) s w (t / f).
Proof.
  intros M NT U. unfold reset_flow. rewrite M. unfold nonzero_opt. rewrite (proj2 (qzerob_false _) NT), U.
  destruct fl; reflexivity.
Qed.

Lemma reset_flow_total_reads_back h i s p u w f fl t :
  Inv h -> nth_error (streams h) i = Some s -> multi s = false ->
  unit_of utab u = Some (w, f) -> ~ f == 0 -> ~ t == 0 -> NoDup (map fst fl) ->
  (sdata s < length (rows h))%nat ->
  (forall k v, In (k, v) fl -> (k < length (getrow h (sdata s)))%nat) ->
  snd (reset_flow Vf MWf pkgs utab h s p (Some u) (Some t) fl) = XNone ->
  let h1 := fst (reset_flow Vf MWf pkgs utab h s p (Some u) (Some t) fl) in
  f * total Vf MWf pkgs h1 s w == t /\
  exists c, forall k v, In (k, v) fl ->
    exists h2 x, get_item Vf MWf pkgs h1 s w O k = (h2, Ok x) /\ f * x == c * v.
Proof.
  intros I Hs M U NZ NT ND D KR. rewrite (reset_flow_total_eq h s p u w f fl t M NT U).
  set (h0 := reset_flow_pre h s p).
  assert (I0 : Inv h0) by (apply inv_reset_flow_pre; exact I).
  destruct (reset_flow_pre_struct h s p) as (A0 & _ & S0).
  assert (L0 : length (rows h0) = length (rows h) /\ forall d', length (getrow h0 d') = length (getrow h d')).
  { unfold h0, reset_flow_pre, empty_all, rowrefs. rewrite M. cbn [map_rows].
    assert (X : length (rows (put_row h (sdata s) (vzero (length (getrow h (sdata s)))))) = length (rows h) /\
                forall d', length (getrow (put_row h (sdata s) (vzero (length (getrow h (sdata s))))) d') = length (getrow h d')).
    { split; [simpl; apply upd_length|]. intros d'. unfold getrow. simpl. destruct (Nat.eq_dec (sdata s) d') as [E|N].
      - subst d'. rewrite nth_upd_eq by auto. rewrite map_length. unfold vzero. apply repeat_length.
      - rewrite nth_upd_neq by auto. reflexivity. }
    destruct p; exact X. }
  assert (G0 : GP h0 i s O (sdata s) (Box (pbox s))).
  { split; [exact I0|]. split; [fold h0 in S0; congruence|]. split; [unfold srcs; rewrite M; reflexivity|]. destruct L0 as (L & _). lia. }
  assert (KR0 : forall k v, In (k, v) fl -> (k < length (getrow h0 (sdata s)))%nat).
  { intros k v H. destruct L0 as (_ & LL). rewrite LL. apply (KR k v H). }
  destruct (set_items_spec w f fl ND h0 i s (sdata s) (Box (pbox s)) G0 KR0) as (MA & _ & FA & FR & IA).
  set (hh := set_items Vf MWf pkgs h0 s w f fl) in *.
  assert (G1 : GP hh i s O (sdata s) (Box (pbox s))) by (eapply GP_frame; eauto).
  assert (DH : (sdata s < length (rows hh))%nat) by apply G1.
  intros OK. set (F := total Vf MWf pkgs hh s w) in *.
  assert (TF : ~ t / f == 0).
  { intros Q0. apply NT. assert (E : t == (t / f) * f) by (field; exact NZ). rewrite E, Q0. ring. }
  assert (FNZ : ~ F == 0).
  { intros Q0. unfold set_total in OK. fold F in OK. rewrite (proj2 (qzerob_true _) Q0) in OK.
    destruct w; cbn [negb] in OK; try discriminate. rewrite (proj2 (qzerob_false _) TF) in OK. discriminate. }
  assert (SC : fst (set_total Vf MWf pkgs hh s w (t / f)) = scale_all hh s ((t / f) / F)).
  { unfold set_total. fold F. rewrite (proj2 (qzerob_false _) FNZ). destruct w; reflexivity. }
  assert (CNZ : ~ (t / f) / F == 0).
  { intros Q0. apply TF. assert (E : t / f == ((t / f) / F) * F) by (field; split; assumption). rewrite E, Q0. ring. }
  assert (FV : w = VVol -> ~ F_mol hh s == 0).
  { intros EW Q0. apply FNZ. unfold F. rewrite EW. cbn [total]. unfold F_vol. rewrite (proj2 (qzerob_true _) Q0). reflexivity. }
  rewrite SC. split.
  - rewrite (total_scale_single hh s w _ M DH CNZ FV). fold F. field. split; assumption.
  - exists ((t / f) / F). intros k v H.
    set (h1 := scale_all hh s ((t / f) / F)).
    assert (SS : h1 = put_row hh (sdata s) (vscale ((t / f) / F) (getrow hh (sdata s)))) by (unfold h1, scale_all, rowrefs; rewrite M; reflexivity).
    assert (I1 : Inv h1) by (rewrite SS; eapply inv_struct; [| | |exact IA]; reflexivity).
    assert (G2 : GP h1 i s O (sdata s) (Box (pbox s))).
    { split; [exact I1|]. rewrite SS. split; [apply G1|]. split; [apply G1|]. simpl. rewrite upd_length. exact DH. }
    destruct (get_item_fac h1 i s O (sdata s) (Box (pbox s)) w k G2) as (h2 & x & GE & X).
    exists h2, x. split; [exact GE|]. rewrite X.
    assert (MK : mol h1 (sdata s) k == ((t / f) / F) * mol hh (sdata s) k).
    { unfold mol. rewrite SS. unfold getrow, put_row. simpl. rewrite nth_upd_eq by exact DH. rewrite nthq_map_Qred. apply nthq_vscale. }
    assert (FK : fac h1 s w O k = fac h0 s w O k).
    { rewrite <- FA. unfold fac. destruct w; try reflexivity. rewrite SS. apply rdV_rows_only; reflexivity. }
    rewrite MK, FK, (MA k v H). field. split; [exact NZ|split; [exact FNZ|exact (fac_nonzero h0 i s O (sdata s) (Box (pbox s)) w k G0)]].
Qed.

End Deep.
