(* C11 — lemmas.  The invariant [Inv] says, for every stream of the heap: every view cached in its
   _data_cache wraps that stream's current molar dicts, in the current phase order, with the stream's own
   TP / phase sources and package; every memo entry of a volumetric view is the oracle's value for the
   key it is stored under; streams that share a cache dict share data, phases/phase box and package. *)
From V Require Import Common.NumFacts C11.Model.
Import ListNotations.

Section Proofs.
Variable Vf : nat -> phase -> Q -> Q -> Q.
Variable MWf : nat -> Q.
Variable pkgs : list (list nat).
Variable utab : list (option (view * Q)).

Definition entry_ok (pk : nat) (ke : nat * mentry) : Prop :=
  me_V (snd ke) == 1000 * Vf (gid pkgs pk (fst ke)) (base (me_ph (snd ke))) (me_T (snd ke)) (me_P (snd ke)).
Definition vrow_ok (pk : nat) (r : vrow) : Prop := Forall (entry_ok pk) (vr_memo r).
Definition vsrc (r : vrow) : nat * phsrc := (vr_dct r, vr_src r).
Definition mass_ok h s (v : massview) : Prop := mv_rows v = srcs h s /\ mv_pkg v = pkg s.
Definition vol_ok h s (v : volview) : Prop :=
  map vsrc (vv_rows v) = srcs h s /\ vv_tp v = tc s /\ vv_pkg v = pkg s /\ Forall (vrow_ok (pkg s)) (vv_rows v).
Definition views_ok h s : Prop :=
  (forall v, c_mass (getcache h (cch s)) = Some v -> mass_ok h s v) /\
  (forall v, vol_find (tc s) (c_vols (getcache h (cch s))) = Some v -> vol_ok h s v).
Definition wf_stream h s : Prop :=
  (cch s < length (caches h))%nat /\ (multi s = true -> (sdata s < length (arrs h))%nat).
Definition same_owner s1 s2 : Prop :=
  sdata s1 = sdata s2 /\ multi s1 = multi s2 /\ pkg s1 = pkg s2 /\
  (multi s1 = true -> phs s1 = phs s2) /\ (multi s1 = false -> pbox s1 = pbox s2).
Definition stream_inv h s : Prop :=
  wf_stream h s /\ views_ok h s /\
  forall j s2, nth_error (streams h) j = Some s2 -> cch s = cch s2 -> same_owner s s2.
Definition Inv h : Prop := forall i s, nth_error (streams h) i = Some s -> stream_inv h s.

Lemma phase_eqb_eq a b : phase_eqb a b = true -> a = b.
Proof. destruct a, b; simpl; intros H; try reflexivity; discriminate. Qed.
Lemma phase_eqb_refl a : phase_eqb a a = true.
Proof. destruct a; reflexivity. Qed.

(* ---------- generic list facts ---------- *)
Lemma nth_app_lt {A} (l m : list A) i d : (i < length l)%nat -> nth i (l ++ m) d = nth i l d.
Proof. intros H. apply app_nth1. exact H. Qed.

Lemma nth_upd_eq {A} (l : list A) i x d : (i < length l)%nat -> nth i (upd l i x) d = x.
Proof.
  revert i; induction l as [|a l IH]; intros [|i] H; simpl in *; try lia; auto. apply IH. lia.
Qed.
Lemma nth_upd_neq {A} (l : list A) i j x d : i <> j -> nth j (upd l i x) d = nth j l d.
Proof.
  revert i j; induction l as [|a l IH]; intros [|i] [|j] H; simpl; auto; try congruence.
Qed.
Lemma nth_error_upd_eq {A} (l : list A) i x y :
  nth_error (upd l i x) i = Some y -> y = x.
Proof.
  revert i; induction l as [|a l IH]; intros [|i] H; simpl in *; try discriminate.
  - congruence.
  - eauto.
Qed.
Lemma upd_same {A} (l : list A) i x : nth_error l i = Some x -> upd l i x = l.
Proof.
  revert i; induction l as [|a l IH]; intros [|i] H; simpl in *; try discriminate; auto.
  - congruence.
  - f_equal. auto.
Qed.
Lemma upd_upd {A} (l : list A) i x y : upd (upd l i x) i y = upd l i y.
Proof. revert i; induction l as [|a l IH]; intros [|i]; simpl; auto. f_equal. auto. Qed.
Lemma nth_error_lt {A} (l : list A) i x : nth_error l i = Some x -> (i < length l)%nat.
Proof. intros H. apply nth_error_Some. congruence. Qed.

(* ---------- what the invariant depends on ---------- *)
Lemma same_owner_srcs h s1 s2 : same_owner s1 s2 -> srcs h s1 = srcs h s2.
Proof.
  intros (D & M & _ & PH & PB). unfold srcs. rewrite <- M, <- D.
  destruct (multi s1) eqn:E.
  - rewrite (PH eq_refl). reflexivity.
  - rewrite (PB eq_refl). reflexivity.
Qed.
Lemma same_owner_refl s : same_owner s s.
Proof. repeat split; auto. Qed.
Lemma same_owner_sym a b : same_owner a b -> same_owner b a.
Proof.
  intros (D & M & K & PH & PB). repeat split; try congruence.
  - intros E. symmetry. apply PH. congruence.
  - intros E. symmetry. apply PB. congruence.
Qed.
Lemma same_owner_trans a b c : same_owner a b -> same_owner b c -> same_owner a c.
Proof.
  intros (D & M & K & PH & PB) (D' & M' & K' & PH' & PB'). repeat split; try congruence.
  - intros E. rewrite (PH E). apply PH'. congruence.
  - intros E. rewrite (PB E). apply PB'. congruence.
Qed.

Lemma srcs_ext h h' s :
  (multi s = true -> getarr h' (sdata s) = getarr h (sdata s)) -> srcs h' s = srcs h s.
Proof. intros H. unfold srcs. destruct (multi s); auto. rewrite H; auto. Qed.

Lemma mass_ok_ext h h' s v : srcs h' s = srcs h s -> mass_ok h s v -> mass_ok h' s v.
Proof. intros E (A & B). split; congruence. Qed.
Lemma vol_ok_ext h h' s v : srcs h' s = srcs h s -> vol_ok h s v -> vol_ok h' s v.
Proof. intros E (A & B & C & D). repeat split; try congruence. Qed.

(* heaps with the same arrays, caches and streams satisfy the invariant together *)
Lemma inv_struct h h' :
  arrs h' = arrs h -> caches h' = caches h -> streams h' = streams h -> Inv h -> Inv h'.
Proof.
  intros A C S I i s Hs. rewrite S in Hs. destruct (I i s Hs) as (W & (VM & VV) & SH).
  assert (E : srcs h' s = srcs h s) by (apply srcs_ext; intros _; unfold getarr; rewrite A; reflexivity).
  split; [|split].
  - unfold wf_stream. rewrite A, C. exact W.
  - unfold views_ok, getcache. rewrite C. split; intros v Hv.
    + eapply mass_ok_ext; [exact E|]. apply VM; exact Hv.
    + eapply vol_ok_ext; [exact E|]. apply VV; exact Hv.
  - rewrite S. exact SH.
Qed.

(* ---------- updating the cache cell of a stream ---------- *)
Lemma getcache_put_eq h c x : (c < length (caches h))%nat -> getcache (put_cache h c x) c = x.
Proof. intros H. unfold getcache, put_cache; simpl. apply nth_upd_eq; auto. Qed.
Lemma getcache_put_neq h c c' x : c <> c' -> getcache (put_cache h c x) c' = getcache h c'.
Proof. intros H. unfold getcache, put_cache; simpl. apply nth_upd_neq; auto. Qed.

Lemma vol_find_put_eq t v l : vol_find t (vol_put t v l) = Some v.
Proof.
  induction l as [|[k w] l IH]; simpl.
  - rewrite Nat.eqb_refl. reflexivity.
  - destruct (Nat.eqb k t) eqn:E; simpl.
    + rewrite Nat.eqb_refl. reflexivity.
    + rewrite E. exact IH.
Qed.
Lemma vol_find_put_neq t t' v l : t <> t' -> vol_find t' (vol_put t v l) = vol_find t' l.
Proof.
  intros N. induction l as [|[k w] l IH]; simpl.
  - destruct (Nat.eqb t t') eqn:E; auto. apply Nat.eqb_eq in E. contradiction.
  - destruct (Nat.eqb k t) eqn:E; simpl.
    + apply Nat.eqb_eq in E. subst k.
      destruct (Nat.eqb t t') eqn:E2; auto. apply Nat.eqb_eq in E2. contradiction.
    + destruct (Nat.eqb k t'); auto.
Qed.

(* replacing the cache cell of stream [s] by one whose views are all right for [s] keeps the invariant *)
Lemma inv_put_cache h i s x :
  Inv h -> nth_error (streams h) i = Some s ->
  (forall v, c_mass x = Some v -> mass_ok h s v) ->
  (forall t v, vol_find t (c_vols x) = Some v ->
      (t = tc s /\ vol_ok h s v) \/ vol_find t (c_vols (getcache h (cch s))) = Some v) ->
  Inv (put_cache h (cch s) x).
Proof.
  intros I Hs XM XV j s2 Hs2. simpl in Hs2.
  destruct (I i s Hs) as ((WC & WA) & (VM & VV) & SH).
  destruct (I j s2 Hs2) as ((WC2 & WA2) & (VM2 & VV2) & SH2).
  assert (ES : forall s', srcs (put_cache h (cch s) x) s' = srcs h s') by (intros; reflexivity).
  split; [|split].
  - unfold wf_stream; simpl. rewrite upd_length. split; auto.
  - destruct (Nat.eq_dec (cch s) (cch s2)) as [E|N].
    + assert (O : same_owner s s2) by (eapply SH; eauto).
      assert (SS : srcs h s2 = srcs h s) by (symmetry; apply same_owner_srcs; auto).
      destruct O as (D & M & K & PH & PB).
      unfold views_ok. rewrite <- E, getcache_put_eq by auto. split; intros v Hv.
      * destruct (XM v Hv) as (A & B). split; [rewrite ES; congruence | congruence].
      * destruct (XV _ _ Hv) as [(T & (A & B & C & F))|Old].
        -- split; [rewrite ES; congruence|split; [congruence|split; [congruence|rewrite <- K; exact F]]].
        -- rewrite E in Old. destruct (VV2 v Old) as (A & B & C & F). repeat split; auto.
    + unfold views_ok. rewrite getcache_put_neq by auto. split; intros v Hv.
      * apply VM2; auto.
      * apply VV2; auto.
  - simpl. exact SH2.
Qed.

Lemma inv_by_mass h i s :
  Inv h -> nth_error (streams h) i = Some s ->
  Inv (fst (by_mass h s)) /\ mass_ok h s (snd (by_mass h s)) /\
  rows (fst (by_mass h s)) = rows h /\ arrs (fst (by_mass h s)) = arrs h /\
  streams (fst (by_mass h s)) = streams h /\ tps (fst (by_mass h s)) = tps h /\
  boxes (fst (by_mass h s)) = boxes h.
Proof.
  intros I Hs. unfold by_mass. destruct (I i s Hs) as (W & (VM & VV) & SH).
  destruct (c_mass (getcache h (cch s))) as [v|] eqn:E; simpl.
  - split; [exact I|]. split; [apply VM; reflexivity|]. repeat split; reflexivity.
  - split; [|split; [split; reflexivity|repeat split; reflexivity]].
    eapply inv_put_cache; [exact I|exact Hs| |]; simpl.
    + intros v Hv. inversion Hv; subst. split; reflexivity.
    + intros t v Hv. right. exact Hv.
Qed.

Lemma by_volume_ok h i s :
  Inv h -> nth_error (streams h) i = Some s -> vol_ok h s (by_volume h s).
Proof.
  intros I Hs. unfold by_volume. destruct (I i s Hs) as (W & (VM & VV) & SH).
  destruct (vol_find (tc s) (c_vols (getcache h (cch s)))) as [v|] eqn:E.
  - apply VV; auto.
  - unfold new_volview, vol_ok; simpl. repeat split; auto.
    + rewrite map_map. unfold vsrc; simpl. rewrite <- (map_id (srcs h s)) at 2.
      apply map_ext. intros [a b]; reflexivity.
    + apply Forall_forall. intros r Hr. apply in_map_iff in Hr. destruct Hr as (x & <- & _).
      unfold vrow_ok; simpl. constructor.
Qed.

Lemma inv_store_vol h i s v :
  Inv h -> nth_error (streams h) i = Some s -> vol_ok h s v -> Inv (store_vol h s v).
Proof.
  intros I Hs OK. unfold store_vol. eapply inv_put_cache; [exact I|exact Hs| |]; simpl.
  - intros w Hw. destruct (I i s Hs) as (_ & (VM & _) & _). apply VM; auto.
  - intros t w Hw. destruct (Nat.eq_dec (tc s) t) as [E|N].
    + subst t. rewrite vol_find_put_eq in Hw. inversion Hw; subst. left; auto.
    + rewrite vol_find_put_neq in Hw by auto. right; auto.
Qed.

Lemma views_ok_owner h h' a b :
  arrs h' = arrs h -> caches h' = caches h -> same_owner a b -> cch a = cch b -> tc a = tc b ->
  views_ok h b -> views_ok h' a.
Proof.
  intros A C O EC ET (VM & VV).
  assert (SR : srcs h' a = srcs h b).
  { rewrite (same_owner_srcs h' a b O). apply srcs_ext. intros _. unfold getarr. rewrite A. reflexivity. }
  destruct O as (_ & _ & K & _). unfold views_ok, getcache. rewrite C, EC, ET. split; intros v Hv.
  - destruct (VM v Hv) as (X & Y). split; congruence.
  - destruct (VV v Hv) as (X & Y & Z & F). split; [congruence|split; [congruence|split; [congruence|rewrite K; exact F]]].
Qed.

(* ---------- allocation frames ---------- *)
Lemma new_rows_frame h vs :
  arrs (snd (new_rows h vs)) = arrs h /\ caches (snd (new_rows h vs)) = caches h /\
  streams (snd (new_rows h vs)) = streams h.
Proof.
  revert h; induction vs as [|v vs IH]; intros h; simpl; auto.
  destruct (new_rows (set_rows h (rows h ++ [v])) vs) as [rs h2] eqn:E. simpl.
  specialize (IH (set_rows h (rows h ++ [v]))). rewrite E in IH. simpl in IH. exact IH.
Qed.

(* a stream re-bound to a brand-new, empty cache dict: the situation after unlink, link_with (partial),
   the phase / phases setters and a property-package reset *)
Lemma inv_rebind h h1 i s s' a :
  Inv h -> nth_error (streams h) i = Some s ->
  streams h1 = streams h -> arrs h1 = arrs h ++ a -> caches h1 = caches h ++ [cache0] ->
  cch s' = length (caches h) -> (multi s' = true -> (sdata s' < length (arrs h1))%nat) ->
  Inv (put_stream h1 i s').
Proof.
  intros I Hs S A C CS WD j s2 Hs2. simpl in Hs2. rewrite S in Hs2.
  assert (LI : (i < length (streams h))%nat) by (eapply nth_error_lt; eauto).
  assert (OLD : forall j s2, j <> i -> nth_error (upd (streams h) i s') j = Some s2 ->
                 nth_error (streams h) j = Some s2).
  { intros j0 s0 N H0. rewrite nth_error_upd_other in H0 by auto. exact H0. }
  assert (FRESH : forall j s3, nth_error (streams h) j = Some s3 -> cch s3 <> length (caches h)).
  { intros j0 s3 H3. destruct (I j0 s3 H3) as ((W & _) & _). lia. }
  destruct (Nat.eq_dec j i) as [E|N].
  - subst j. rewrite nth_error_upd_same in Hs2 by auto. inversion Hs2; subst s2. clear Hs2.
    split; [|split].
    + split; simpl. rewrite C, app_length; simpl. lia. exact WD.
    + unfold views_ok, getcache; simpl. rewrite C, CS, nth_middle. simpl.
      split; intros v Hv; discriminate.
    + intros j s3 H3 EC. simpl in H3. rewrite S in H3. destruct (Nat.eq_dec j i) as [E|N].
      * subst j. rewrite nth_error_upd_same in H3 by auto. inversion H3. apply same_owner_refl.
      * exfalso. eapply FRESH; [eapply OLD; eauto|]. congruence.
  - pose proof (OLD j s2 N Hs2) as H2. destruct (I j s2 H2) as ((WC & WA) & (VM & VV) & SH).
    assert (ES : srcs (put_stream h1 i s') s2 = srcs h s2).
    { apply srcs_ext. intros M. unfold getarr; simpl. rewrite A. apply nth_app_lt. auto. }
    assert (EC : getcache (put_stream h1 i s') (cch s2) = getcache h (cch s2)).
    { unfold getcache; simpl. rewrite C. apply nth_app_lt. auto. }
    split; [|split].
    + split; simpl. rewrite C, app_length; simpl. lia.
      intros M. rewrite A, app_length. specialize (WA M). lia.
    + unfold views_ok. rewrite EC. split; intros v Hv.
      * eapply mass_ok_ext; [exact ES|]. apply VM; auto.
      * eapply vol_ok_ext; [exact ES|]. apply VV; auto.
    + intros j' s3 H3 EQ. simpl in H3. rewrite S in H3. destruct (Nat.eq_dec j' i) as [E|N'].
      * subst j'. rewrite nth_error_upd_same in H3 by auto. inversion H3; subst s3.
        exfalso. apply (FRESH j s2 H2). congruence.
      * eapply SH; eauto.
Qed.

Lemma inv_unlink h i s : Inv h -> nth_error (streams h) i = Some s -> Inv (fst (unlink h i s)).
Proof.
  intros I Hs. unfold unlink.
  destruct (multi s) eqn:M.
  - cbn [new_cache new_box new_tp fst snd].
    destruct (copy_rows (set_caches h (caches h ++ [cache0]))
               (getarr (set_caches h (caches h ++ [cache0])) (sdata s))) as [rs hh] eqn:E.
    pose proof (new_rows_frame (set_caches h (caches h ++ [cache0]))
                 (map (getrow (set_caches h (caches h ++ [cache0])))
                      (getarr (set_caches h (caches h ++ [cache0])) (sdata s)))) as F.
    unfold copy_rows in E. rewrite E in F. simpl in F. destruct F as (FA & FC & FS).
    cbn [new_arr new_tp fst snd].
    eapply inv_rebind with (h := h) (a := [rs]); eauto; simpl; try congruence.
    intros _. rewrite FA, app_length. simpl. lia.
  - cbn [new_cache new_box new_tp new_row fst snd].
    eapply inv_rebind with (h := h) (a := []); eauto; simpl; try congruence.
    rewrite app_nil_r. reflexivity.
Qed.

Lemma inv_link h i s o f p t :
  Inv h -> nth_error (streams h) i = Some s -> (exists j, j <> i /\ nth_error (streams h) j = Some o) ->
  Inv (fst (link_with h i s o f p t)).
Proof.
  intros I Hs (j & NJ & Ho). unfold link_with.
  destruct (negb (Bool.eqb (multi s) (multi o))) eqn:CL; [exact I|].
  destruct (negb (Nat.eqb (pkg s) (pkg o))) eqn:PK; [exact I|].
  destruct (multi s && f && negb (phases_eqb (phs s) (phs o))) eqn:PH; [exact I|].
  apply negb_false_iff in CL. apply Bool.eqb_prop in CL.
  apply negb_false_iff in PK. apply Nat.eqb_eq in PK.
  destruct (t && f && (p || multi s)) eqn:SHARE.
  - (* everything that determines the views is shared: the cache dict may be shared too *)
    apply andb_prop in SHARE. destruct SHARE as (TF & PM). apply andb_prop in TF. destruct TF as (Tt & Ft).
    subst t f. cbn [fst snd].
    assert (PHS : multi s = true -> phs s = phs o).
    { intros M. rewrite M in PH. simpl in PH. apply negb_false_iff in PH.
      clear - PH. revert PH. generalize (phs o). induction (phs s) as [|x l IH]; intros [|y m] H; simpl in H; try discriminate; auto.
      apply andb_prop in H. destruct H as (H1 & H2). apply phase_eqb_eq in H1. subst. f_equal. auto. }
    set (s1 := mkstream (multi s) (sdata o) (if p && negb (multi s) then pbox o else pbox s) (phs s) (pkg s) (cch o) (tc o)).
    assert (OWN : same_owner s1 o).
    { unfold s1. repeat split; simpl; auto.
      intros M. rewrite M in PM. rewrite orb_false_r in PM. subst p. rewrite M. reflexivity. }
    assert (LI : (i < length (streams h))%nat) by (eapply nth_error_lt; eauto).
    destruct (I j o Ho) as ((WCo & WAo) & (VMo & VVo) & SHo).
    intros k s2 H2. simpl in H2.
    destruct (Nat.eq_dec k i) as [E|N].
    + subst k. rewrite nth_error_upd_same in H2 by auto. inversion H2; subst s2. clear H2.
      split; [|split].
      * split; simpl. exact WCo. intros M. apply WAo. congruence.
      * eapply views_ok_owner with (h := h) (b := o); try reflexivity; auto. split; auto.
      * intros k' s3 H3 EQ. simpl in H3, EQ. destruct (Nat.eq_dec k' i) as [E|N].
        -- subst k'. rewrite nth_error_upd_same in H3 by auto. inversion H3. apply same_owner_refl.
        -- rewrite nth_error_upd_other in H3 by auto.
           eapply same_owner_trans; [exact OWN|]. eapply SHo; eauto.
    + rewrite nth_error_upd_other in H2 by auto.
      destruct (I k s2 H2) as (W2 & (VM2 & VV2) & SH2).
      split; [exact W2|split].
      * eapply views_ok_owner with (h := h) (b := s2); try reflexivity. apply same_owner_refl. split; auto.
      * intros k' s3 H3 EQ. simpl in H3. destruct (Nat.eq_dec k' i) as [E|N'].
        -- subst k'. rewrite nth_error_upd_same in H3 by auto. inversion H3; subst s3. simpl in EQ.
           apply same_owner_sym. eapply same_owner_trans; [exact OWN|].
           eapply SHo; eauto.
        -- rewrite nth_error_upd_other in H3 by auto. eapply SH2; eauto.
  - cbn [new_cache fst snd].
    eapply inv_rebind with (h := h) (a := []); eauto; simpl; try congruence.
    + rewrite app_nil_r; reflexivity.
    + intros M. destruct f.
      * destruct (I j o Ho) as ((_ & WAo) & _). apply WAo. congruence.
      * destruct (I i s Hs) as ((_ & WA) & _). apply WA. exact M.
Qed.

Ltac frame_rows h vs rs h' :=
  let E := fresh "E" in let F := fresh "F" in
  destruct (new_rows h vs) as [rs h'] eqn:E; pose proof (new_rows_frame h vs) as F; rewrite E in F;
  simpl in F; destruct F as (?FA & ?FC & ?FS).

Lemma inv_multi_to_single h i s p :
  Inv h -> nth_error (streams h) i = Some s -> Inv (fst (multi_to_single pkgs h i s p)).
Proof.
  intros I Hs. unfold multi_to_single. cbn [new_row new_box new_cache fst snd].
  eapply inv_rebind with (h := h) (a := []); eauto; simpl; try congruence.
  rewrite app_nil_r; reflexivity.
Qed.

Lemma inv_set_phase h i s p :
  Inv h -> nth_error (streams h) i = Some s -> Inv (fst (set_phase pkgs h i s p)).
Proof.
  intros I Hs. unfold set_phase. destruct (multi s).
  - apply inv_multi_to_single; auto.
  - simpl. eapply inv_struct; eauto.
Qed.

Lemma inv_single_to_multi h i s l :
  Inv h -> nth_error (streams h) i = Some s -> Inv (fst (single_to_multi pkgs h i s l)).
Proof.
  intros I Hs. unfold single_to_multi.
  destruct (if any_nonzero (getrow h (sdata s))
            then option_map (fun t => upd (zero_rows (length (psort l)) (nchem pkgs (pkg s))) t (getrow h (sdata s)))
                            (pindex (psort l) (getbox h (pbox s)))
            else Some (zero_rows (length (psort l)) (nchem pkgs (pkg s)))) as [vals|]; [|exact I].
  frame_rows h vals rs h1.
  cbn [new_arr new_cache fst snd].
  eapply inv_rebind with (h := h) (a := [rs]); eauto; simpl; try congruence.
  intros _. rewrite FA, app_length; simpl; lia.
Qed.

Lemma inv_multi_to_multi h i s l :
  Inv h -> nth_error (streams h) i = Some s -> Inv (fst (multi_to_multi pkgs h i s l)).
Proof.
  intros I Hs. unfold multi_to_multi.
  destruct (phases_eqb (psort l) (phs s)); [exact I|].
  destruct (place_rows (psort l) (combine (phs s) (all_rows h s))
             (zero_rows (length (psort l)) (nchem pkgs (pkg s)))) as [vals|]; [|exact I].
  frame_rows h vals rs h1.
  cbn [new_arr new_cache fst snd].
  eapply inv_rebind with (h := h) (a := [rs]); eauto; simpl; try congruence.
  intros _. rewrite FA, app_length; simpl; lia.
Qed.

Lemma inv_set_phases h i s l :
  Inv h -> nth_error (streams h) i = Some s -> Inv (fst (set_phases pkgs h i s l)).
Proof.
  intros I Hs. unfold set_phases. destruct (psort l) as [|p [|q r]] eqn:E.
  - exact I.
  - apply inv_set_phase; auto.
  - destruct (multi s).
    + apply inv_multi_to_multi; auto.
    + apply inv_single_to_multi; auto.
Qed.

Lemma inv_reset_none h i s k :
  Inv h -> nth_error (streams h) i = Some s -> Inv (fst (reset_chemicals pkgs h i s k None)).
Proof.
  intros I Hs. unfold reset_chemicals. cbn [new_cache fst snd].
  destruct (multi s) eqn:M.
  - frame_rows (set_caches h (caches h ++ [cache0]))
               (map (remap (chems pkgs (pkg s)) (chems pkgs k)) (all_rows h s)) rs h2.
    cbn [new_arr fst snd].
    eapply inv_rebind with (h := h) (a := [rs]); eauto; simpl; try congruence.
    intros _. rewrite FA, app_length; simpl; lia.
  - cbn [new_row fst snd].
    eapply inv_rebind with (h := h) (a := []); eauto; simpl; try congruence.
    rewrite app_nil_r; reflexivity.
Qed.

Lemma inv_reset_thermo h i s k :
  Inv h -> nth_error (streams h) i = Some s -> Inv (fst (reset_thermo pkgs h i s k)).
Proof.
  intros I Hs. unfold reset_thermo. destruct (Nat.eqb (pkg s) k); [exact I|].
  cbn [fst]. apply inv_reset_none; auto.
Qed.

(* ---------- the memo: an entry is reused only for the same phase and for T, P within 1e-12 ---------- *)
Lemma memo_get_in k m e : memo_get k m = Some e -> In (k, e) m.
Proof.
  induction m as [|[j x] m IH]; simpl; intros H; try discriminate.
  destruct (Nat.eqb j k) eqn:E.
  - apply Nat.eqb_eq in E. inversion H; subst. left; reflexivity.
  - right; auto.
Qed.

Definition near (x y : Q) : Prop := Qabs (x - y) < tp_tol.
Lemma near_refl x : near x x.
Proof.
  unfold near. assert (E : x - x == 0) by ring. rewrite E. reflexivity.
Qed.
Lemma qltb_lt a b : qltb a b = true -> a < b.
Proof.
  unfold qltb. intros H. apply negb_true_iff in H. apply Qnot_le_lt. intros L.
  apply Qle_bool_iff in L. congruence.
Qed.
Lemma qltb_refl_near x : qltb (Qabs (x - x)) tp_tol = true.
Proof.
  unfold qltb. apply negb_true_iff. destruct (Qle_bool tp_tol (Qabs (x - x))) eqn:E; auto.
  apply Qle_bool_iff in E. pose proof (near_refl x) as N. unfold near in N.
  exfalso. apply (Qlt_irrefl tp_tol). eapply Qle_lt_trans; eauto.
Qed.

Definition Vat h (pk : nat) (src : phsrc) (k : nat) (T P : Q) : Q :=
  1000 * Vf (gid pkgs pk k) (base (src_phase h src)) T P.
Definition cur_T h (vv : volview) := fst (gettp h (vv_tp vv)).
Definition cur_P h (vv : volview) := snd (gettp h (vv_tp vv)).

Lemma vfactor_ok h vv r k pk :
  vv_pkg vv = pk -> vrow_ok pk r ->
  (exists T' P', near T' (cur_T h vv) /\ near P' (cur_P h vv) /\
     fst (vfactor Vf pkgs h vv r k) == Vat h pk (vr_src r) k T' P')
  /\ vrow_ok pk (snd (vfactor Vf pkgs h vv r k))
  /\ vsrc (snd (vfactor Vf pkgs h vv r k)) = vsrc r.
Proof.
  intros PK OK. unfold vfactor, Vat, cur_T, cur_P. rewrite PK.
  set (T := fst (gettp h (vv_tp vv))). set (P := snd (gettp h (vv_tp vv))).
  set (ph := src_phase h (vr_src r)).
  assert (FR : Qred (1000 * Vf (gid pkgs pk k) (base ph) T P) == 1000 * Vf (gid pkgs pk k) (base ph) T P
               /\ vrow_ok pk (mkvrow (vr_dct r) (vr_src r)
                    ((k, mkme T P ph (Qred (1000 * Vf (gid pkgs pk k) (base ph) T P))) :: vr_memo r))).
  { split. apply Qred_correct. unfold vrow_ok. cbn [vr_memo]. constructor; auto.
    unfold entry_ok. cbn [snd fst me_V me_ph me_T me_P]. apply Qred_correct. }
  destruct FR as (F1 & F2).
  assert (FRESH : exists T' P', near T' T /\ near P' P /\
            Qred (1000 * Vf (gid pkgs pk k) (base ph) T P) == 1000 * Vf (gid pkgs pk k) (base ph) T' P').
  { exists T, P. split; [apply near_refl|split; [apply near_refl|exact F1]]. }
  destruct (memo_get k (vr_memo r)) as [e|] eqn:M.
  - destruct (phase_eqb (me_ph e) ph && in_equilibrium (me_T e) (me_P e) T P) eqn:C; cbn [fst snd].
    + apply andb_prop in C. destruct C as (CH & CE). unfold in_equilibrium in CE.
      apply andb_prop in CE. destruct CE as (CT & CP).
      apply phase_eqb_eq in CH. apply qltb_lt in CT. apply qltb_lt in CP.
      split; [|split; auto].
      pose proof (proj1 (Forall_forall _ _) OK _ (memo_get_in _ _ _ M)) as EO.
      unfold entry_ok in EO; cbn [fst snd] in EO.
      exists (me_T e), (me_P e). split; [exact CT|split; [exact CP|]]. rewrite EO, CH. reflexivity.
    + split; [exact FRESH|split; [exact F2|reflexivity]].
  - cbn [fst snd]. split; [exact FRESH|split; [exact F2|reflexivity]].
Qed.

Lemma vsrc_src a b : vsrc a = vsrc b -> vr_src a = vr_src b.
Proof. unfold vsrc. intros H. inversion H. auto. Qed.

Lemma read_vrow_ok h vv pk vals : vv_pkg vv = pk -> forall r k0, vrow_ok pk r ->
  vrow_ok pk (snd (read_vrow Vf pkgs h vv r k0 vals)) /\
  vsrc (snd (read_vrow Vf pkgs h vv r k0 vals)) = vsrc r /\
  forall j, exists T' P', near T' (cur_T h vv) /\ near P' (cur_P h vv) /\
    nthq (fst (read_vrow Vf pkgs h vv r k0 vals)) j == nthq vals j * Vat h pk (vr_src r) (k0 + j) T' P'.
Proof.
  intros PK. induction vals as [|x t IH]; intros r k0 OK.
  - simpl. split; auto. split; auto. intros j. exists (cur_T h vv), (cur_P h vv).
    split; [apply near_refl|split; [apply near_refl|]]. rewrite !nthq_nil. lra.
  - cbn [read_vrow]. destruct (qzerob x) eqn:Z.
    + specialize (IH r (S k0) OK).
      destruct (read_vrow Vf pkgs h vv r (S k0) t) as [o r'] eqn:E. cbn [fst snd] in *.
      destruct IH as (A & B & C). split; auto. split; auto.
      intros [|j].
      * exists (cur_T h vv), (cur_P h vv). split; [apply near_refl|split; [apply near_refl|]].
        unfold nthq; simpl. apply qzerob_true in Z. rewrite Z. lra.
      * destruct (C j) as (T' & P' & NT & NP & V). exists T', P'. split; auto. split; auto.
        unfold nthq in *; simpl. rewrite V. replace (k0 + S j)%nat with (S k0 + j)%nat by lia. reflexivity.
    + destruct (vfactor_ok h vv r k0 pk PK OK) as ((T0 & P0 & NT0 & NP0 & FV) & FO & FS).
      destruct (vfactor Vf pkgs h vv r k0) as [V r1] eqn:EV. cbn [fst snd] in *.
      specialize (IH r1 (S k0) FO).
      destruct (read_vrow Vf pkgs h vv r1 (S k0) t) as [o r'] eqn:E. cbn [fst snd] in *.
      destruct IH as (A & B & C). split; auto. split; [congruence|].
      intros [|j].
      * exists T0, P0. split; auto. split; auto. unfold nthq; simpl. rewrite FV. rewrite Nat.add_0_r. reflexivity.
      * destruct (C j) as (T' & P' & NT & NP & V'). exists T', P'. split; auto. split; auto.
        unfold nthq in *; simpl. rewrite V'. rewrite (vsrc_src _ _ FS).
        replace (k0 + S j)%nat with (S k0 + j)%nat by lia. reflexivity.
Qed.

Lemma read_vrows_ok h vv pk : vv_pkg vv = pk -> forall l, Forall (vrow_ok pk) l ->
  Forall (vrow_ok pk) (snd (read_vrows Vf pkgs h vv l)) /\
  map vsrc (snd (read_vrows Vf pkgs h vv l)) = map vsrc l /\
  forall n r, nth_error l n = Some r -> forall j, exists T' P', near T' (cur_T h vv) /\ near P' (cur_P h vv) /\
    nthq (nth n (fst (read_vrows Vf pkgs h vv l)) []) j
      == nthq (getrow h (vr_dct r)) j * Vat h pk (vr_src r) j T' P'.
Proof.
  intros PK. induction l as [|r l IH]; intros OK.
  - simpl. split; auto. split; auto. intros [|n] r H; discriminate.
  - apply Forall_cons_iff in OK. destruct OK as (OKr & OKl).
    cbn [read_vrows].
    destruct (read_vrow_ok h vv pk (getrow h (vr_dct r)) PK r O OKr) as (A & B & C).
    destruct (read_vrow Vf pkgs h vv r 0 (getrow h (vr_dct r))) as [o r'] eqn:E.
    destruct (IH OKl) as (A' & B' & C').
    destruct (read_vrows Vf pkgs h vv l) as [os rs] eqn:E'. cbn [fst snd] in *.
    split; [constructor; auto|]. split; [simpl; congruence|].
    intros [|n] r0 H j; simpl in H.
    + inversion H; subst r0. simpl. exact (C j).
    + simpl. apply C'. exact H.
Qed.

Lemma map_vsrc_upd l r x y :
  nth_error l r = Some y -> vsrc x = vsrc y -> map vsrc (upd l r x) = map vsrc l.
Proof.
  revert r; induction l as [|a l IH]; intros [|r] H E; simpl in *; try discriminate; auto.
  - inversion H; subst. congruence.
  - f_equal. auto.
Qed.
Lemma Forall_upd {A} (P : A -> Prop) l r x : Forall P l -> P x -> Forall P (upd l r x).
Proof.
  intros F Px. revert r; induction F as [|a l Pa F IH]; intros [|r]; simpl; auto.
Qed.

Lemma map_rows_struct h f l :
  arrs (map_rows h f l) = arrs h /\ caches (map_rows h f l) = caches h /\ streams (map_rows h f l) = streams h.
Proof. revert h; induction l as [|d l IH]; intros h; simpl; auto. destruct (IH (put_row h d (f (getrow h d)))) as (A & B & C). simpl in *. auto. Qed.

Lemma inv_read_mass h i s : Inv h -> nth_error (streams h) i = Some s -> Inv (fst (read_mass MWf pkgs h s)).
Proof.
  intros I Hs. unfold read_mass. destruct (inv_by_mass h i s I Hs) as (A & _).
  destruct (by_mass h s) as [h1 v]. exact A.
Qed.

Lemma inv_read_vol h i s : Inv h -> nth_error (streams h) i = Some s -> Inv (fst (read_vol Vf pkgs h s)).
Proof.
  intros I Hs. unfold read_vol.
  destruct (by_volume_ok h i s I Hs) as (A & B & C & F).
  destruct (read_vrows_ok h (by_volume h s) (pkg s) C _ F) as (F' & M & _).
  destruct (read_vrows Vf pkgs h (by_volume h s) (vv_rows (by_volume h s))) as [m rs]. cbn [fst snd] in *.
  eapply inv_store_vol; eauto. repeat split; simpl; auto. congruence.
Qed.

Lemma inv_get_item h i s w r k :
  Inv h -> nth_error (streams h) i = Some s -> Inv (fst (get_item Vf MWf pkgs h s w r k)).
Proof.
  intros I Hs. unfold get_item. destruct w.
  - destruct (nth_error (rowrefs h s) r); exact I.
  - destruct (inv_by_mass h i s I Hs) as (A & _). destruct (by_mass h s) as [h1 v].
    destruct (nth_error (mv_rows v) r); exact A.
  - pose proof (by_volume_ok h i s I Hs) as OK. destruct OK as (A & B & C & F).
    destruct (nth_error (vv_rows (by_volume h s)) r) as [vr|] eqn:E.
    + destruct (qzerob (nthq (getrow h (vr_dct vr)) k)).
      * eapply inv_store_vol; eauto. repeat split; auto.
      * assert (OKr : vrow_ok (pkg s) vr).
        { apply (proj1 (Forall_forall _ _) F). eapply nth_error_In; eauto. }
        destruct (vfactor_ok h (by_volume h s) vr k (pkg s) C OKr) as (_ & FO & FS).
        destruct (vfactor Vf pkgs h (by_volume h s) vr k) as [V vr']. cbn [fst snd] in *.
        eapply inv_store_vol; eauto. repeat split; simpl; auto.
        -- rewrite (map_vsrc_upd _ _ _ _ E FS). exact A.
        -- apply Forall_upd; auto.
    + eapply inv_store_vol; eauto. repeat split; auto.
Qed.

Lemma inv_put_item h d k x : Inv h -> Inv (put_item h d k x).
Proof. intros I. eapply inv_struct; eauto. Qed.

Lemma inv_set_item h i s w r k v :
  Inv h -> nth_error (streams h) i = Some s -> Inv (fst (set_item Vf MWf pkgs h s w r k v)).
Proof.
  intros I Hs. unfold set_item. destruct w.
  - destruct (nth_error (rowrefs h s) r); [apply inv_put_item|]; exact I.
  - destruct (inv_by_mass h i s I Hs) as (A & _). destruct (by_mass h s) as [h1 mv].
    destruct (nth_error (mv_rows mv) r); [apply inv_put_item|]; exact A.
  - pose proof (by_volume_ok h i s I Hs) as OK. destruct OK as (A & B & C & F).
    destruct (nth_error (vv_rows (by_volume h s)) r) as [vr|] eqn:E.
    + destruct (qzerob v).
      * apply inv_put_item. eapply inv_store_vol; eauto. repeat split; auto.
      * assert (OKr : vrow_ok (pkg s) vr).
        { apply (proj1 (Forall_forall _ _) F). eapply nth_error_In; eauto. }
        destruct (vfactor_ok h (by_volume h s) vr k (pkg s) C OKr) as (_ & FO & FS).
        destruct (vfactor Vf pkgs h (by_volume h s) vr k) as [V vr']. cbn [fst snd] in *.
        apply inv_put_item. eapply inv_store_vol; eauto. repeat split; simpl; auto.
        -- rewrite (map_vsrc_upd _ _ _ _ E FS). exact A.
        -- apply Forall_upd; auto.
    + eapply inv_store_vol; eauto. repeat split; auto.
Qed.

Lemma inv_set_total h i s w v :
  Inv h -> nth_error (streams h) i = Some s -> Inv (fst (set_total Vf MWf pkgs h s w v)).
Proof.
  intros I Hs. unfold set_total, scale_all, empty_all.
  assert (MR : forall f, Inv (map_rows h f (rowrefs h s))).
  { intros f. destruct (map_rows_struct h f (rowrefs h s)) as (A & B & C). eapply inv_struct; eauto. }
  destruct w.
  - destruct (qzerob (total Vf MWf pkgs h s VMol)); [exact I|apply MR].
  - destruct (negb (qzerob (total Vf MWf pkgs h s VMass))); [apply MR|].
    destruct (negb (qzerob v)); [exact I|apply MR].
  - destruct (qzerob (total Vf MWf pkgs h s VVol)); [exact I|apply MR].
Qed.

Lemma inv_alias_flags h i s : Inv h -> nth_error (streams h) i = Some s -> Inv (fst (alias_flags h s)).
Proof.
  intros I Hs. unfold alias_flags.
  destruct (inv_by_mass h i s I Hs) as (A & _ & _ & _ & S & _).
  destruct (by_mass h s) as [h1 mv]. cbn [fst snd] in *.
  assert (Hs1 : nth_error (streams h1) i = Some s) by congruence.
  eapply inv_store_vol; eauto. eapply by_volume_ok; eauto.
Qed.

(* ---------- copy_like ---------- *)
Lemma copy_rows_like_struct h d x :
  arrs (copy_rows_like h d x) = arrs h /\ caches (copy_rows_like h d x) = caches h /\
  streams (copy_rows_like h d x) = streams h.
Proof.
  revert h x; induction d as [|a d IH]; intros h [|b x]; simpl; auto.
  destruct (IH (put_row h a (getrow h b)) x) as (A & B & C). simpl in *. auto.
Qed.

Lemma expand_rows_frame n ps old : forall h,
  arrs (snd (expand_rows h n ps old)) = arrs h /\ caches (snd (expand_rows h n ps old)) = caches h /\
  streams (snd (expand_rows h n ps old)) = streams h.
Proof.
  induction ps as [|p ps IH]; intros h; simpl; auto.
  destruct (find (fun x => phase_eqb (fst x) p) old) as [x|].
  - specialize (IH h). destruct (expand_rows h n ps old) as [rs h1]. exact IH.
  - specialize (IH (set_rows h (rows h ++ [vzero n]))).
    destruct (expand_rows (set_rows h (rows h ++ [vzero n])) n ps old) as [rs h2]. exact IH.
Qed.

Lemma shares_false h i a :
  stream_shares_arr h i a = false ->
  forall j s2, j <> i -> nth_error (streams h) j = Some s2 -> multi s2 = true -> sdata s2 <> a.
Proof.
  unfold stream_shares_arr. intros H j s2 N Hj M E.
  assert (IN : In (j, s2) (combine (seq O (length (streams h))) (streams h))).
  { clear - Hj. revert j Hj. generalize (streams h). intros l.
    assert (G : forall b j, nth_error l j = Some s2 -> In ((b + j)%nat, s2) (combine (seq b (length l)) l)).
    { induction l as [|x l IH]; intros b [|j] Hj; simpl in *; try discriminate.
      - inversion Hj. left. f_equal. lia.
      - right. replace (b + S j)%nat with (S b + j)%nat by lia. apply IH. exact Hj. }
    intros j Hj. apply (G O j Hj). }
  rewrite <- Bool.not_true_iff_false in H. apply H.
  apply existsb_exists. exists true. split; auto.
  apply in_map_iff. exists (j, s2). split; auto. simpl.
  rewrite M. rewrite E, Nat.eqb_refl. destruct (Nat.eqb j i) eqn:Q; auto.
  apply Nat.eqb_eq in Q. contradiction.
Qed.

Lemma inv_expand h i s ps rs :
  Inv h -> nth_error (streams h) i = Some s -> multi s = true ->
  stream_shares_arr h i (sdata s) = false ->
  forall h4, arrs h4 = upd (arrs h) (sdata s) rs -> caches h4 = upd (caches h) (cch s) cache0 ->
  streams h4 = upd (streams h) i (mkstream true (sdata s) (pbox s) ps (pkg s) (cch s) (tc s)) ->
  Inv h4.
Proof.
  intros I Hs M NS h4 A C S.
  set (s1 := mkstream true (sdata s) (pbox s) ps (pkg s) (cch s) (tc s)) in *.
  assert (LI : (i < length (streams h))%nat) by (eapply nth_error_lt; eauto).
  destruct (I i s Hs) as ((WC & WA) & _ & SH).
  assert (ALONE : forall j s2, j <> i -> nth_error (streams h) j = Some s2 -> cch s2 <> cch s).
  { intros j s2 N H2 E. destruct (SH j s2 H2 (eq_sym E)) as (D & MM & _).
    eapply (shares_false h i (sdata s) NS j s2); eauto; congruence. }
  intros j s2 H2. rewrite S in H2. destruct (Nat.eq_dec j i) as [E|N].
  - subst j. rewrite nth_error_upd_same in H2 by auto. inversion H2; subst s2. clear H2.
    split; [|split].
    + split; simpl. rewrite C, upd_length. exact WC. intros _. rewrite A, upd_length. auto.
    + unfold views_ok, getcache. rewrite C. simpl. rewrite nth_upd_eq by auto. simpl.
      split; intros v Hv; discriminate.
    + intros j s3 H3 EQ. rewrite S in H3. destruct (Nat.eq_dec j i) as [E|N].
      * subst j. rewrite nth_error_upd_same in H3 by auto. inversion H3. apply same_owner_refl.
      * rewrite nth_error_upd_other in H3 by auto. exfalso. eapply ALONE; eauto.
  - rewrite nth_error_upd_other in H2 by auto.
    destruct (I j s2 H2) as ((WC2 & WA2) & (VM2 & VV2) & SH2).
    assert (ES : srcs h4 s2 = srcs h s2).
    { apply srcs_ext. intros M2. unfold getarr. rewrite A. apply nth_upd_neq.
      intros Q. eapply (shares_false h i (sdata s) NS j s2); eauto. }
    assert (EC : getcache h4 (cch s2) = getcache h (cch s2)).
    { unfold getcache. rewrite C. apply nth_upd_neq. intros Q. eapply ALONE; eauto. }
    split; [|split].
    + split. rewrite C, upd_length. exact WC2. rewrite A, upd_length. exact WA2.
    + unfold views_ok. rewrite EC. split; intros v Hv.
      * eapply mass_ok_ext; [exact ES|]. apply VM2; auto.
      * eapply vol_ok_ext; [exact ES|]. apply VV2; auto.
    + intros j' s3 H3 EQ. rewrite S in H3. destruct (Nat.eq_dec j' i) as [E|N'].
      * subst j'. rewrite nth_error_upd_same in H3 by auto. inversion H3; subst s3. simpl in EQ.
        exfalso. eapply ALONE; eauto.
      * rewrite nth_error_upd_other in H3 by auto. eapply SH2; eauto.
Qed.

Lemma inv_copy_like h i s o same :
  Inv h -> nth_error (streams h) i = Some s -> Inv (fst (copy_like pkgs h i s o same)).
Proof.
  intros I Hs. unfold copy_like.
  destruct same; [exact I|].
  destruct (negb (Nat.eqb (pkg s) (pkg o))); [exact I|].
  destruct (multi s) eqn:M; destruct (multi o) eqn:MO.
  - destruct (phases_eqb (phs s) (phs o)); [|exact I]. cbn [fst].
    destruct (copy_rows_like_struct h (rowrefs h s) (rowrefs h o)) as (A & B & C).
    eapply inv_struct; eauto.
  - destruct (map_rows_struct h (fun v => vzero (length v)) (rowrefs h s)) as (A0 & C0 & S0).
    unfold empty_all.
    destruct (pindex (phs s) (getbox h (pbox o))) as [k|].
    + destruct (nth_error (rowrefs (map_rows h (fun v => vzero (length v)) (rowrefs h s)) s) k); cbn [fst]; eapply inv_struct; eauto.
    + destruct (stream_shares_arr h i (sdata s)) eqn:NS; [exact I|].
      set (h0 := map_rows h (fun v => vzero (length v)) (rowrefs h s)) in *.
      pose proof (expand_rows_frame (nchem pkgs (pkg s)) (psort (getbox h (pbox o) :: phs s))
                    (combine (phs s) (getarr h0 (sdata s))) h0) as F.
      destruct (expand_rows h0 (nchem pkgs (pkg s)) (psort (getbox h (pbox o) :: phs s))
                  (combine (phs s) (getarr h0 (sdata s)))) as [rs h1]. cbn [fst snd] in F.
      destruct F as (FA & FC & FS).
      assert (G : forall h4, arrs h4 = upd (arrs h1) (sdata s) rs -> caches h4 = upd (caches h1) (cch s) cache0 ->
                  streams h4 = upd (streams h1) i (mkstream true (sdata s) (pbox s)
                                 (psort (getbox h (pbox o) :: phs s)) (pkg s) (cch s) (tc s)) -> Inv h4).
      { intros h4 A4 C4 S4. eapply (inv_expand h i s _ rs I Hs M NS).
        - rewrite A4, FA, A0. reflexivity.
        - rewrite C4, FC, C0. reflexivity.
        - rewrite S4, FS, S0. reflexivity. }
      destruct (pindex (psort (getbox h (pbox o) :: phs s)) (getbox h (pbox o))) as [k|].
      * destruct (nth_error rs k); cbn [fst]; apply G; reflexivity.
      * cbn [fst]. apply G; reflexivity.
  - assert (I0 : Inv (put_row h (sdata s) (vzero (length (getrow h (sdata s)))))) by (eapply inv_struct; eauto).
    assert (Hs0 : nth_error (streams (put_row h (sdata s) (vzero (length (getrow h (sdata s)))))) i = Some s) by exact Hs.
    destruct (phs o) as [|p [|q r]] eqn:PO.
    + pose proof (inv_single_to_multi _ i s [] I0 Hs0) as I1.
      destruct (single_to_multi pkgs (put_row h (sdata s) (vzero (length (getrow h (sdata s))))) i s []) as [h1 x]. cbn [fst] in I1.
      destruct x; try exact I1.
      destruct (nth_error (streams h1) i) as [s1|]; [|exact I1]. cbn [fst].
      destruct (copy_rows_like_struct h1 (rowrefs h1 s1) (rowrefs h1 o)) as (A & B & C).
      eapply inv_struct; [| | |exact I1]; simpl; auto.
    + cbn [fst]. eapply inv_struct; eauto.
    + pose proof (inv_single_to_multi _ i s (p :: q :: r) I0 Hs0) as I1.
      destruct (single_to_multi pkgs (put_row h (sdata s) (vzero (length (getrow h (sdata s))))) i s (p :: q :: r)) as [h1 x]. cbn [fst] in I1.
      destruct x; try exact I1.
      destruct (nth_error (streams h1) i) as [s1|]; [|exact I1]. cbn [fst].
      destruct (copy_rows_like_struct h1 (rowrefs h1 s1) (rowrefs h1 o)) as (A & B & C).
      eapply inv_struct; [| | |exact I1]; simpl; auto.
  - cbn [fst]. eapply inv_struct; eauto.
Qed.

(* ---------- reset_chemicals(new) ... reset_chemicals(old, container) ---------- *)
Lemma inv_extend h h' a c :
  Inv h -> streams h' = streams h -> arrs h' = arrs h ++ a -> caches h' = caches h ++ c -> Inv h'.
Proof.
  intros I S A C j s2 H2. rewrite S in H2.
  destruct (I j s2 H2) as ((WC & WA) & (VM & VV) & SH).
  assert (ES : srcs h' s2 = srcs h s2).
  { apply srcs_ext. intros M. unfold getarr. rewrite A. apply nth_app_lt. auto. }
  assert (EC : getcache h' (cch s2) = getcache h (cch s2)).
  { unfold getcache. rewrite C. apply nth_app_lt. auto. }
  split; [|split].
  - split. rewrite C, app_length. lia. intros M. rewrite A, app_length. specialize (WA M). lia.
  - unfold views_ok. rewrite EC. split; intros v Hv.
    + eapply mass_ok_ext; [exact ES|]. apply VM; auto.
    + eapply vol_ok_ext; [exact ES|]. apply VV; auto.
  - rewrite S. exact SH.
Qed.

Lemma put_rows_struct l : forall h vals,
  arrs (put_rows h l vals) = arrs h /\ caches (put_rows h l vals) = caches h /\ streams (put_rows h l vals) = streams h.
Proof.
  induction l as [|d l IH]; intros h [|v vals]; simpl; auto.
  destruct (IH (put_row h d v) vals) as (A & B & C). simpl in *. auto.
Qed.

Lemma reset_none_shape h i s k :
  exists a s1, streams (fst (reset_chemicals pkgs h i s k None)) = upd (streams h) i s1 /\
    arrs (fst (reset_chemicals pkgs h i s k None)) = arrs h ++ a /\
    caches (fst (reset_chemicals pkgs h i s k None)) = caches h ++ [cache0] /\
    multi s1 = multi s /\ pbox s1 = pbox s /\ phs s1 = phs s /\ tc s1 = tc s /\
    snd (reset_chemicals pkgs h i s k None) = (sdata s, cch s).
Proof.
  unfold reset_chemicals. cbn [new_cache fst snd]. destruct (multi s) eqn:M.
  - frame_rows (set_caches h (caches h ++ [cache0]))
               (map (remap (chems pkgs (pkg s)) (chems pkgs k)) (all_rows h s)) rs h2.
    cbn [new_arr fst snd]. eexists [rs], _. simpl. rewrite FA, FC, FS. simpl.
    split; [reflexivity|]. repeat split; auto.
  - cbn [new_row fst snd]. eexists [], _. simpl. rewrite app_nil_r.
    split; [reflexivity|]. repeat split; auto.
Qed.

Lemma inv_round_trip h i s k :
  Inv h -> nth_error (streams h) i = Some s -> Inv (fst (round_trip pkgs h i s k)).
Proof.
  intros I Hs. unfold round_trip. destruct (Nat.eqb (pkg s) k); [exact I|].
  destruct (reset_none_shape h i s k) as (a & s1 & S1 & A1 & C1 & M1 & B1 & P1 & T1 & CONT).
  destruct (reset_chemicals pkgs h i s k None) as [h1 cont]. cbn [fst snd] in *. subst cont.
  assert (LI : (i < length (streams h))%nat) by (eapply nth_error_lt; eauto).
  rewrite S1, nth_error_upd_same by auto.
  assert (BACK : mkstream (multi s1) (sdata s) (pbox s1) (phs s1) (pkg s) (cch s) (tc s1) = s).
  { rewrite M1, B1, P1, T1. destruct s; reflexivity. }
  assert (I2 : Inv (put_stream h1 i s)).
  { eapply inv_extend with (h := h) (a := a) (c := [cache0]); eauto. simpl.
    rewrite S1, upd_upd. apply upd_same. exact Hs. }
  unfold reset_chemicals. rewrite BACK. cbn [fst].
  destruct (multi s1).
  - cbn [fst].
    destruct (put_rows_struct (getarr (put_stream h1 i s) (sdata s))
               (map_rows (put_stream h1 i s) (fun _ => vzero (nchem pkgs (pkg s))) (getarr (put_stream h1 i s) (sdata s)))
               (map (remap (chems pkgs (pkg s1)) (chems pkgs (pkg s))) (all_rows h1 s1))) as (A & B & C).
    destruct (map_rows_struct (put_stream h1 i s) (fun _ => vzero (nchem pkgs (pkg s)))
                (getarr (put_stream h1 i s) (sdata s))) as (A' & B' & C').
    eapply inv_struct; [| | |exact I2]; congruence.
  - cbn [fst]. eapply inv_struct; [| | |exact I2]; reflexivity.
Qed.

(* ---------- every operation keeps the invariant; so does every history ---------- *)
Lemma inv_step h o : Inv h -> Inv (fst (step Vf MWf pkgs utab h o)).
Proof.
  intros I. unfold step.
  destruct o as [ |i w|i w|i|i u r k|i u r k v|i u|i u v|i w r k v|i w v|i v|i v|i p|i l|i j f p t|i|i j|i k|i k];
    try exact I;
    (destruct (nth_error (streams h) i) as [s|] eqn:Hs; [|exact I]).
  - destruct w; [exact I| |].
    + pose proof (inv_read_mass h i s I Hs) as X. destruct (read_mass MWf pkgs h s). exact X.
    + pose proof (inv_read_vol h i s I Hs) as X. destruct (read_vol Vf pkgs h s). exact X.
  - exact I.
  - pose proof (inv_alias_flags h i s I Hs) as X. destruct (alias_flags h s). exact X.
  - destruct (unit_of utab u) as [[w f]|]; [|exact I]. unfold lift.
    pose proof (inv_get_item h i s w r k I Hs) as X.
    destruct (get_item Vf MWf pkgs h s w r k) as [h1 [x|e]]; exact X.
  - destruct (unit_of utab u) as [[w f]|]; [|exact I]. apply inv_set_item with (i := i); auto.
  - destruct (unit_of utab u) as [[w f]|]; exact I.
  - destruct (unit_of utab u) as [[w f]|]; [|exact I]. apply inv_set_total with (i := i); auto.
  - apply inv_set_item with (i := i); auto.
  - apply inv_set_total with (i := i); auto.
  - cbn [fst]. eapply inv_struct; eauto.
  - cbn [fst]. eapply inv_struct; eauto.
  - apply inv_set_phase; auto.
  - apply inv_set_phases; auto.
  - destruct (nth_error (streams h) j) as [o|] eqn:Ho; [|exact I].
    destruct (Nat.eqb i j) eqn:Q; [exact I|]. apply Nat.eqb_neq in Q.
    apply inv_link; auto. exists j. split; auto.
  - apply inv_unlink; auto.
  - destruct (nth_error (streams h) j) as [o|]; [|exact I]. apply inv_copy_like; auto.
  - apply inv_reset_thermo; auto.
  - apply inv_round_trip; auto.
Qed.

Lemma inv_run ops : forall h, Inv h -> Inv (fst (run Vf MWf pkgs utab h ops)).
Proof.
  induction ops as [|o ops IH]; intros h I; simpl; auto.
  pose proof (inv_step h o I) as I1. destruct (step Vf MWf pkgs utab h o) as [h1 x]. cbn [fst] in I1.
  specialize (IH h1 I1). destruct (run Vf MWf pkgs utab h1 ops) as [h2 xs]. exact IH.
Qed.

Lemma inv_heap0 : Inv heap0.
Proof. intros [|i] s H; discriminate. Qed.

Lemma inv_add_stream h x : Inv h -> Inv (add_stream h x).
Proof.
  intros I. destruct x as [k p T P flow|k l T P flow]; unfold add_stream.
  - cbn [new_row new_box new_cache new_tp fst snd].
    intros j s2 H2. simpl in H2.
    assert (OLDI : Inv (mkheap (rows h ++ [flow]) (arrs h) (tps h ++ [(T, P)]) (boxes h ++ [p]) (caches h ++ [cache0]) (streams h))).
    { eapply inv_extend with (h := h) (a := []) (c := [cache0]); eauto. simpl. rewrite app_nil_r. reflexivity. }
    destruct (Nat.lt_ge_cases j (length (streams h))) as [L|G].
    + rewrite nth_error_app1 in H2 by auto.
      destruct (OLDI j s2 H2) as (W & V & SH). split; [exact W|split; [exact V|]].
      intros j' s3 H3 EQ. simpl in H3.
      destruct (Nat.lt_ge_cases j' (length (streams h))) as [L'|G'].
      * rewrite nth_error_app1 in H3 by auto. eapply SH; eauto.
      * rewrite nth_error_app2 in H3 by auto.
        destruct (j' - length (streams h))%nat as [|n]; simpl in H3; [|destruct n; discriminate].
        inversion H3; subst s3. simpl in EQ. destruct (I j s2 H2) as ((WC & _) & _). lia.
    + rewrite nth_error_app2 in H2 by auto.
      destruct (j - length (streams h))%nat as [|n]; simpl in H2; [|destruct n; discriminate].
      inversion H2; subst s2. split; [|split].
      * split; simpl. rewrite app_length; simpl; lia. discriminate.
      * unfold views_ok, getcache; simpl. rewrite nth_middle. simpl. split; intros v Hv; discriminate.
      * intros j' s3 H3 EQ. simpl in H3, EQ.
        destruct (Nat.lt_ge_cases j' (length (streams h))) as [L'|G'].
        -- rewrite nth_error_app1 in H3 by auto. destruct (I j' s3 H3) as ((WC & _) & _). lia.
        -- rewrite nth_error_app2 in H3 by auto.
           destruct (j' - length (streams h))%nat as [|n]; simpl in H3; [|destruct n; discriminate].
           inversion H3. apply same_owner_refl.
  - frame_rows h flow rs h1. cbn [new_arr new_cache new_tp fst snd].
    intros j s2 H2. simpl in H2. rewrite FS in H2.
    assert (OLDI : Inv (mkheap (rows h1) (arrs h1 ++ [rs]) (tps h1 ++ [(T, P)]) (boxes h1) (caches h1 ++ [cache0]) (streams h))).
    { eapply inv_extend with (h := h) (a := [rs]) (c := [cache0]); eauto; simpl; congruence. }
    destruct (Nat.lt_ge_cases j (length (streams h))) as [L|G].
    + rewrite nth_error_app1 in H2 by auto.
      destruct (OLDI j s2 H2) as (W & V & SH). split; [exact W|split; [exact V|]].
      intros j' s3 H3 EQ. simpl in H3. rewrite FS in H3.
      destruct (Nat.lt_ge_cases j' (length (streams h))) as [L'|G'].
      * rewrite nth_error_app1 in H3 by auto. eapply SH; eauto.
      * rewrite nth_error_app2 in H3 by auto.
        destruct (j' - length (streams h))%nat as [|n]; simpl in H3; [|destruct n; discriminate].
        inversion H3; subst s3. simpl in EQ. destruct (I j s2 H2) as ((WC & _) & _). rewrite FC in EQ. lia.
    + rewrite nth_error_app2 in H2 by auto.
      destruct (j - length (streams h))%nat as [|n]; simpl in H2; [|destruct n; discriminate].
      inversion H2; subst s2. split; [|split].
      * split; simpl. rewrite app_length; simpl; lia. intros _. rewrite app_length; simpl; lia.
      * unfold views_ok, getcache; simpl. rewrite nth_middle. simpl. split; intros v Hv; discriminate.
      * intros j' s3 H3 EQ. simpl in H3, EQ. rewrite FS in H3.
        destruct (Nat.lt_ge_cases j' (length (streams h))) as [L'|G'].
        -- rewrite nth_error_app1 in H3 by auto. destruct (I j' s3 H3) as ((WC & _) & _). rewrite FC in EQ. lia.
        -- rewrite nth_error_app2 in H3 by auto.
           destruct (j' - length (streams h))%nat as [|n]; simpl in H3; [|destruct n; discriminate].
           inversion H3. apply same_owner_refl.
Qed.

Lemma inv_build l : Inv (build l).
Proof.
  unfold build. assert (G : forall h, Inv h -> Inv (fold_left add_stream l h)).
  { induction l as [|x l IH]; intros h I; simpl; auto. apply IH. apply inv_add_stream. exact I. }
  apply G. apply inv_heap0.
Qed.

(* ---------- what the views return ---------- *)
Lemma nth_error_map_inv {A B} (f : A -> B) l n y :
  nth_error (map f l) n = Some y -> exists x, nth_error l n = Some x /\ f x = y.
Proof.
  revert n; induction l as [|a l IH]; intros [|n] H; simpl in *; try discriminate.
  - inversion H. eauto.
  - eauto.
Qed.
Lemma nth_map_some {A B} (f : A -> B) l n x d : nth_error l n = Some x -> nth n (map f l) d = f x.
Proof.
  revert n; induction l as [|a l IH]; intros [|n] H; simpl in *; try discriminate.
  - inversion H; auto.
  - auto.
Qed.

Lemma vol_get_lemma h i s :
  Inv h -> nth_error (streams h) i = Some s ->
  forall n d src, nth_error (srcs h s) n = Some (d, src) -> forall j,
  exists T' P', near T' (fst (gettp h (tc s))) /\ near P' (snd (gettp h (tc s))) /\
    nthq (nth n (snd (read_vol Vf pkgs h s)) []) j
    == nthq (getrow h d) j * (1000 * Vf (gid pkgs (pkg s) j) (base (src_phase h src)) T' P').
Proof.
  intros I Hs n d src Hn j. unfold read_vol.
  destruct (by_volume_ok h i s I Hs) as (A & B & C & F).
  destruct (read_vrows_ok h (by_volume h s) (pkg s) C _ F) as (_ & _ & V).
  rewrite <- A in Hn. apply nth_error_map_inv in Hn. destruct Hn as (r & Hr & Er).
  destruct (V n r Hr j) as (T' & P' & NT & NP & VV).
  destruct (read_vrows Vf pkgs h (by_volume h s) (vv_rows (by_volume h s))) as [m rs]. cbn [fst snd] in *.
  unfold cur_T, cur_P in NT, NP. rewrite B in NT, NP.
  exists T', P'. split; [exact NT|split; [exact NP|]].
  rewrite VV. unfold Vat. unfold vsrc in Er. inversion Er; subst. reflexivity.
Qed.

Lemma mass_get_lemma h i s :
  Inv h -> nth_error (streams h) i = Some s ->
  forall n d src, nth_error (srcs h s) n = Some (d, src) ->
  length (getrow h d) = length (mwvec MWf pkgs (pkg s)) -> forall j,
    nthq (nth n (snd (read_mass MWf pkgs h s)) []) j == nthq (getrow h d) j * nthq (mwvec MWf pkgs (pkg s)) j.
Proof.
  intros I Hs n d src Hn L j. unfold read_mass.
  destruct (inv_by_mass h i s I Hs) as (_ & (A & B) & R & _).
  destruct (by_mass h s) as [h1 v]. cbn [fst snd] in *.
  rewrite <- A in Hn. rewrite (nth_map_some _ _ _ _ _ Hn). cbn [fst].
  unfold mass_of, getrow. rewrite R, B. apply nthq_vmul. exact L.
Qed.

Lemma nthq_map_Qred l k : nthq (map Qred l) k == nthq l k.
Proof.
  revert k; induction l as [|a l IH]; intros [|k]; unfold nthq in *; simpl; try reflexivity.
  - apply Qred_correct.
  - apply IH.
Qed.

Lemma getrow_put_item_eq h d k x :
  (d < length (rows h))%nat -> (k < length (getrow h d))%nat -> nthq (getrow (put_item h d k x) d) k == x.
Proof.
  intros D K. unfold put_item, put_row, getrow; simpl. rewrite nth_upd_eq by auto.
  rewrite nthq_map_Qred. rewrite nth_upd_same by exact K. reflexivity.
Qed.
Lemma getrow_put_item_other h d k x d' k' :
  (d', k') <> (d, k) -> nthq (getrow (put_item h d k x) d') k' == nthq (getrow h d') k'.
Proof.
  intros N. unfold put_item, put_row, getrow; simpl.
  destruct (Nat.eq_dec d d') as [E|NE].
  - subst d'. destruct (Nat.lt_ge_cases d (length (rows h))) as [L|G].
    + rewrite nth_upd_eq by auto. rewrite nthq_map_Qred. rewrite nth_upd_other; [reflexivity|congruence].
    + assert (U : upd (rows h) d (map Qred (upd (nth d (rows h) []) k x)) = rows h).
      { clear - G. revert d G. induction (rows h) as [|a l IH]; intros [|d] G; simpl in *; auto; try lia. f_equal. apply IH. lia. }
      rewrite U. reflexivity.
  - rewrite nth_upd_neq by auto. reflexivity.
Qed.

Lemma mass_set_lemma h i s r k v d src :
  Inv h -> nth_error (streams h) i = Some s -> nth_error (srcs h s) r = Some (d, src) ->
  (d < length (rows h))%nat -> (k < length (getrow h d))%nat ->
  snd (set_item Vf MWf pkgs h s VMass r k v) = XNone /\
  nthq (getrow (fst (set_item Vf MWf pkgs h s VMass r k v)) d) k == v / MWf (gid pkgs (pkg s) k) /\
  forall d' k', (d', k') <> (d, k) ->
    nthq (getrow (fst (set_item Vf MWf pkgs h s VMass r k v)) d') k' == nthq (getrow h d') k'.
Proof.
  intros I Hs Hr D K. unfold set_item.
  destruct (inv_by_mass h i s I Hs) as (_ & (A & B) & R & _).
  destruct (by_mass h s) as [h1 mv]. cbn [fst snd] in *.
  rewrite <- A in Hr. rewrite Hr. cbn [fst snd]. rewrite B.
  assert (G : forall d0, getrow h1 d0 = getrow h d0) by (intros; unfold getrow; rewrite R; reflexivity).
  split; [reflexivity|split].
  - apply getrow_put_item_eq. rewrite R; auto. rewrite G; auto.
  - intros d' k' N. rewrite getrow_put_item_other by auto. rewrite G. reflexivity.
Qed.

(* totals *)
Lemma qsum_vmul_comm a : forall b, qsum (vmul a b) == qsum (vmul b a).
Proof.
  induction a as [|x a IH]; intros [|y b]; simpl; try reflexivity.
  unfold vmul in *. simpl. rewrite IH. lra.
Qed.
Lemma F_mass_is_sum h s :
  F_mass MWf pkgs h s == qsum (map (fun r => qsum (mass_of MWf pkgs (pkg s) r)) (all_rows h s)).
Proof.
  unfold F_mass. induction (all_rows h s) as [|r l IH]; simpl; [reflexivity|].
  rewrite IH. unfold vdot, mass_of. rewrite qsum_vmul_comm. reflexivity.
Qed.

(* scaling keeps the composition: every entry of every row is multiplied by the same number *)
Lemma map_rows_scale k l : NoDup l -> forall h d, In d l -> (d < length (rows h))%nat ->
  forall j, nthq (getrow (map_rows h (vscale k) l) d) j == k * nthq (getrow h d) j.
Proof.
  induction l as [|a l IH]; intros ND h d IN L j; simpl in *; [contradiction|].
  inversion ND as [|? ? NI ND']; subst.
  assert (KEEP : forall l' h' x, ~ In x l' -> getrow (map_rows h' (vscale k) l') x = getrow h' x).
  { induction l' as [|b l' IH']; intros h' x NX; simpl; auto.
    rewrite IH' by (intros Q; apply NX; right; exact Q).
    unfold getrow, put_row; simpl. apply nth_upd_neq. intros Q. apply NX. left. exact Q. }
  destruct IN as [E|IN].
  - subst a. rewrite KEEP by auto. unfold getrow, put_row; simpl. rewrite nth_upd_eq by auto.
    rewrite nthq_map_Qred. apply nthq_vscale.
  - rewrite IH; auto.
    + assert (NE : a <> d) by (intros Q; subst; contradiction).
      unfold getrow, put_row; simpl. rewrite nth_upd_neq by auto. reflexivity.
    + unfold put_row; simpl. rewrite upd_length. exact L.
Qed.

(* ---------- F_vol is the sum of the volumetric view ---------- *)
Lemma vol_row_sum F (f : nat -> Q) : ~ F == 0 -> forall (r : vec) (c : list nat),
  1000 * qsum (map2 (fun m g => (m / F) * f g) r c) * F == qsum (map2 (fun m g => m * (1000 * f g)) r c).
Proof.
  intros NZ. induction r as [|x r IH]; intros [|g c]; simpl; try ring.
  rewrite <- IH. field. exact NZ.
Qed.

Lemma F_vol_is_sum h s : ~ F_mol h s == 0 ->
  F_vol Vf pkgs h s ==
  qsum (map (fun x => qsum (map2 (fun m g => m * (1000 * Vf g (base (src_phase h (snd x)))
                                                     (fst (gettp h (tc s))) (snd (gettp h (tc s)))))
                                 (getrow h (fst x)) (chems pkgs (pkg s)))) (srcs h s)).
Proof.
  intros NZ. unfold F_vol. rewrite (proj2 (qzerob_false _) NZ). unfold vmix.
  set (F := F_mol h s) in *. set (T := fst (gettp h (tc s))). set (P := snd (gettp h (tc s))).
  induction (srcs h s) as [|x l IH]; simpl; [ring|].
  rewrite <- IH.
  rewrite <- (vol_row_sum F (fun g => Vf g (base (src_phase h (snd x))) T P) NZ (getrow h (fst x)) (chems pkgs (pkg s))).
  ring.
Qed.

(* ---------- writing through a view and reading the same item back ---------- *)
Lemma nth_error_srcs_rowrefs h s r d src :
  nth_error (srcs h s) r = Some (d, src) -> nth_error (rowrefs h s) r = Some d.
Proof.
  unfold srcs, rowrefs. destruct (multi s).
  - generalize (map Fixed (phs s)). generalize (getarr h (sdata s)). intros l. revert r.
    induction l as [|a l IH]; intros r [|b m] H; destruct r; simpl in *; try discriminate.
    + inversion H; auto.
    + eapply IH; eauto.
  - destruct r as [|[|r]]; simpl; intros H; inversion H; auto.
Qed.

Lemma by_mass_cached h s : (cch s < length (caches h))%nat ->
  c_mass (getcache (fst (by_mass h s)) (cch s)) = Some (snd (by_mass h s)).
Proof.
  intros L. unfold by_mass. destruct (c_mass (getcache h (cch s))) as [v|] eqn:E; simpl; auto.
  rewrite getcache_put_eq by auto. reflexivity.
Qed.

Lemma by_volume_store h s v : (cch s < length (caches h))%nat -> by_volume (store_vol h s v) s = v.
Proof.
  intros L. unfold by_volume, store_vol. rewrite getcache_put_eq by auto. simpl.
  rewrite vol_find_put_eq. reflexivity.
Qed.

Lemma in_equilibrium_refl T P : in_equilibrium T P T P = true.
Proof. unfold in_equilibrium. rewrite !qltb_refl_near. reflexivity. Qed.

Lemma vfactor_again h h2 vv vv2 r k :
  tps h2 = tps h -> boxes h2 = boxes h -> vv_tp vv2 = vv_tp vv -> vv_pkg vv2 = vv_pkg vv ->
  vfactor Vf pkgs h2 vv2 (snd (vfactor Vf pkgs h vv r k)) k = vfactor Vf pkgs h vv r k.
Proof.
  intros ET EB E1 E2. unfold vfactor. rewrite E1, E2.
  assert (G : gettp h2 (vv_tp vv) = gettp h (vv_tp vv)) by (unfold gettp; rewrite ET; reflexivity).
  assert (B : forall x, src_phase h2 x = src_phase h x) by (intros [p|b]; simpl; auto; unfold getbox; rewrite EB; reflexivity).
  rewrite G.
  set (T := fst (gettp h (vv_tp vv))). set (P := snd (gettp h (vv_tp vv))).
  destruct (memo_get k (vr_memo r)) as [e|] eqn:M.
  - destruct (phase_eqb (me_ph e) (src_phase h (vr_src r)) && in_equilibrium (me_T e) (me_P e) T P) eqn:C;
      cbn [fst snd vr_memo vr_src vr_dct]; rewrite B.
    + rewrite M, C. reflexivity.
    + cbn [memo_get]. rewrite Nat.eqb_refl. cbn [me_ph me_T me_P me_V].
      rewrite phase_eqb_refl, in_equilibrium_refl. reflexivity.
  - cbn [fst snd vr_memo vr_src vr_dct]. rewrite B. cbn [memo_get]. rewrite Nat.eqb_refl.
    cbn [me_ph me_T me_P me_V]. rewrite phase_eqb_refl, in_equilibrium_refl. reflexivity.
Qed.

Lemma set_item_streams h s w r k v : streams (fst (set_item Vf MWf pkgs h s w r k v)) = streams h.
Proof.
  unfold set_item. destruct w.
  - destruct (nth_error (rowrefs h s) r); reflexivity.
  - unfold by_mass. destruct (c_mass (getcache h (cch s))); cbn [fst snd];
      match goal with |- context [nth_error ?l r] => destruct (nth_error l r) end; reflexivity.
  - destruct (nth_error (vv_rows (by_volume h s)) r) as [vr|]; [|reflexivity].
    destruct (qzerob v); [reflexivity|].
    destruct (vfactor Vf pkgs h (by_volume h s) vr k) as [V vr']. reflexivity.
Qed.

Hypothesis MW_nonzero : forall g, ~ MWf g == 0.
Hypothesis Vf_nonzero : forall g p T P, ~ Vf g p T P == 0.

Lemma set_get_item h i s w r k v d src :
  Inv h -> nth_error (streams h) i = Some s -> nth_error (srcs h s) r = Some (d, src) ->
  (d < length (rows h))%nat -> (k < length (getrow h d))%nat ->
  snd (set_item Vf MWf pkgs h s w r k v) = XNone /\
  exists h2 x, get_item Vf MWf pkgs (fst (set_item Vf MWf pkgs h s w r k v)) s w r k = (h2, Ok x) /\ x == v.
Proof.
  intros I Hs Hr D K.
  destruct (I i s Hs) as ((WC & WA) & _ & _).
  destruct w.
  - (* molar data *)
    pose proof (nth_error_srcs_rowrefs h s r d src Hr) as RR.
    unfold set_item. rewrite RR. cbn [fst snd]. split; [reflexivity|].
    unfold get_item. change (rowrefs (put_item h d k v) s) with (rowrefs h s). rewrite RR.
    eexists _, _. split; [reflexivity|]. apply getrow_put_item_eq; auto.
  - (* mass view *)
    unfold set_item.
    destruct (inv_by_mass h i s I Hs) as (_ & (A & B) & R & _).
    pose proof (by_mass_cached h s WC) as CM.
    destruct (by_mass h s) as [h1 mv] eqn:BM. cbn [fst snd] in *.
    rewrite <- A in Hr. rewrite Hr. cbn [fst snd]. split; [reflexivity|].
    unfold get_item.
    assert (BM2 : by_mass (put_item h1 d k (v / MWf (gid pkgs (mv_pkg mv) k))) s
                  = (put_item h1 d k (v / MWf (gid pkgs (mv_pkg mv) k)), mv)).
    { unfold by_mass.
      change (getcache (put_item h1 d k (v / MWf (gid pkgs (mv_pkg mv) k))) (cch s)) with (getcache h1 (cch s)).
      rewrite CM. reflexivity. }
    rewrite BM2, Hr. cbn [fst].
    eexists _, _. split; [reflexivity|].
    rewrite getrow_put_item_eq.
    + field. apply MW_nonzero.
    + rewrite R; auto.
    + unfold getrow. rewrite R. exact K.
  - (* volumetric view *)
    unfold set_item.
    destruct (by_volume_ok h i s I Hs) as (A & B & C & F).
    rewrite <- A in Hr. apply nth_error_map_inv in Hr. destruct Hr as (vr & Hvr & Evr).
    rewrite Hvr.
    assert (DV : vr_dct vr = d) by (unfold vsrc in Evr; inversion Evr; auto).
    assert (LR : (r < length (vv_rows (by_volume h s)))%nat) by (eapply nth_error_lt; eauto).
    destruct (qzerob v) eqn:Z.
    + cbn [fst snd]. split; [reflexivity|]. unfold get_item.
      change (by_volume (put_item (store_vol h s (by_volume h s)) (vr_dct vr) k 0) s)
        with (by_volume (store_vol h s (by_volume h s)) s).
      rewrite by_volume_store by auto. rewrite Hvr.
      assert (X0 : nthq (getrow (put_item (store_vol h s (by_volume h s)) (vr_dct vr) k 0) (vr_dct vr)) k == 0).
      { rewrite DV. apply getrow_put_item_eq; auto. }
      rewrite (proj2 (qzerob_true _) X0).
      eexists _, _. split; [reflexivity|]. apply qzerob_true in Z. rewrite Z. reflexivity.
    + assert (OKr : vrow_ok (pkg s) vr).
      { apply (proj1 (Forall_forall _ _) F). eapply nth_error_In; eauto. }
      destruct (vfactor_ok h (by_volume h s) vr k (pkg s) C OKr) as ((T' & P' & _ & _ & FV) & _ & FS).
      pose proof (vfactor_again h
                    (put_item (store_vol h s (mkvv (upd (vv_rows (by_volume h s)) r (snd (vfactor Vf pkgs h (by_volume h s) vr k)))
                                                  (vv_tp (by_volume h s)) (vv_pkg (by_volume h s))))
                              (vr_dct vr) k (v / fst (vfactor Vf pkgs h (by_volume h s) vr k)))
                    (by_volume h s)
                    (mkvv (upd (vv_rows (by_volume h s)) r (snd (vfactor Vf pkgs h (by_volume h s) vr k)))
                          (vv_tp (by_volume h s)) (vv_pkg (by_volume h s)))
                    vr k eq_refl eq_refl eq_refl eq_refl) as AG.
      destruct (vfactor Vf pkgs h (by_volume h s) vr k) as [V vr'] eqn:EV. cbn [fst snd] in *.
      split; [reflexivity|]. unfold get_item.
      set (vv' := mkvv (upd (vv_rows (by_volume h s)) r vr') (vv_tp (by_volume h s)) (vv_pkg (by_volume h s))) in *.
      change (by_volume (put_item (store_vol h s vv') (vr_dct vr) k (v / V)) s)
        with (by_volume (store_vol h s vv') s).
      rewrite by_volume_store by auto.
      assert (Hvr' : nth_error (vv_rows vv') r = Some vr') by (unfold vv'; simpl; apply nth_error_upd_same; auto).
      rewrite Hvr'.
      assert (DV' : vr_dct vr' = vr_dct vr) by (unfold vsrc in FS; inversion FS; auto).
      rewrite DV'.
      assert (VNZ : ~ V == 0).
      { rewrite FV. unfold Vat. intros Q0. apply (Vf_nonzero (gid pkgs (pkg s) k) (base (src_phase h (vr_src vr))) T' P'). lra. }
      assert (X1 : nthq (getrow (put_item (store_vol h s vv') (vr_dct vr) k (v / V)) (vr_dct vr)) k == v / V).
      { rewrite DV. apply getrow_put_item_eq; auto. }
      assert (XNZ : ~ nthq (getrow (put_item (store_vol h s vv') (vr_dct vr) k (v / V)) (vr_dct vr)) k == 0).
      { rewrite X1. intros Q0. apply qzerob_false in Z. apply Z.
        assert (E : v == (v / V) * V) by (field; exact VNZ). rewrite E, Q0. ring. }
      rewrite (proj2 (qzerob_false _) XNZ). rewrite AG.
      eexists _, _. split; [reflexivity|]. rewrite X1. field. exact VNZ.
Qed.

End Proofs.
