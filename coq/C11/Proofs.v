(* C11 — lemmas.  The invariant [Inv] says, for every stream of the heap: every view cached in its
   _data_cache wraps that stream's current molar dicts, in the current phase order, with the stream's own
   TP / phase sources and package; every memo entry of a volumetric view is the oracle's value for the
   key it is stored under; streams that share a cache dict share data, phases/phase box and package. *)
From V Require Import Common.NumFacts C11.Model.
Import ListNotations.

Section Proofs.
Variable Vf : nat -> phase -> Q -> Q -> Q.
Variable MWf : nat -> Q.
Variable pkgs : list (list nat).
Variable utab : list (option (view * Q)).

Definition entry_ok (pk : nat) (ke : nat * mentry) : Prop :=
  me_V (snd ke) == 1000 * Vf (gid pkgs pk (fst ke)) (base (me_ph (snd ke))) (me_T (snd ke)) (me_P (snd ke)).
Definition vrow_ok (pk : nat) (r : vrow) : Prop := Forall (entry_ok pk) (vr_memo r).
Definition vsrc (r : vrow) : nat * phsrc := (vr_dct r, vr_src r).
Definition mass_ok h s (v : massview) : Prop := mv_rows v = srcs h s /\ mv_pkg v = pkg s.
(* a volumetric view stored under the key (thermal-condition object) t: right for stream s whatever s's TP object is now *)
Definition volT h s (t : nat) (v : volview) : Prop :=
  map vsrc (vv_rows v) = srcs h s /\ vv_tp v = t /\ vv_pkg v = pkg s /\ Forall (vrow_ok (pkg s)) (vv_rows v).
Definition vol_ok h s (v : volview) : Prop := volT h s (tc s) v.
Definition views_ok h s : Prop :=
  (forall v, c_mass (getcache h (cch s)) = Some v -> mass_ok h s v) /\
  (forall t v, vol_find t (c_vols (getcache h (cch s))) = Some v -> volT h s t v).
Definition wf_stream h s : Prop :=
  (cch s < length (caches h))%nat /\ (multi s = true -> (sdata s < length (arrs h))%nat).
Definition same_owner s1 s2 : Prop :=
  sdata s1 = sdata s2 /\ multi s1 = multi s2 /\ pkg s1 = pkg s2 /\
  (multi s1 = true -> phs s1 = phs s2) /\ (multi s1 = false -> pbox s1 = pbox s2).
Definition stream_inv h s : Prop :=
  wf_stream h s /\ views_ok h s /\
  forall j s2, nth_error (streams h) j = Some s2 -> cch s = cch s2 -> same_owner s s2.
Definition Inv h : Prop := forall i s, nth_error (streams h) i = Some s -> stream_inv h s.

Lemma phase_eqb_eq a b : phase_eqb a b = true -> a = b.
Proof. destruct a, b; simpl; intros H; try reflexivity; discriminate. Qed.
Lemma phase_eqb_refl a : phase_eqb a a = true.
Proof. destruct a; reflexivity. Qed.

(* ---------- generic list facts ---------- *)
Lemma nth_app_lt {A} (l m : list A) i d : (i < length l)%nat -> nth i (l ++ m) d = nth i l d.
Proof. intros H. apply app_nth1. exact H. Qed.

Lemma nth_upd_eq {A} (l : list A) i x d : (i < length l)%nat -> nth i (upd l i x) d = x.
Proof.
  revert i; induction l as [|a l IH]; intros [|i] H; simpl in *; try lia; auto. apply IH. lia.
Qed.
Lemma nth_upd_neq {A} (l : list A) i j x d : i <> j -> nth j (upd l i x) d = nth j l d.
Proof.
  revert i j; induction l as [|a l IH]; intros [|i] [|j] H; simpl; auto; try congruence.
Qed.
Lemma nth_error_upd_eq {A} (l : list A) i x y :
  nth_error (upd l i x) i = Some y -> y = x.
Proof.
  revert i; induction l as [|a l IH]; intros [|i] H; simpl in *; try discriminate.
  - congruence.
  - eauto.
Qed.
Lemma upd_same {A} (l : list A) i x : nth_error l i = Some x -> upd l i x = l.
Proof.
  revert i; induction l as [|a l IH]; intros [|i] H; simpl in *; try discriminate; auto.
  - congruence.
  - f_equal. auto.
Qed.
Lemma upd_upd {A} (l : list A) i x y : upd (upd l i x) i y = upd l i y.
Proof. revert i; induction l as [|a l IH]; intros [|i]; simpl; auto. f_equal. auto. Qed.
Lemma nth_error_lt {A} (l : list A) i x : nth_error l i = Some x -> (i < length l)%nat.
Proof. intros H. apply nth_error_Some. congruence. Qed.

(* ---------- what the invariant depends on ---------- *)
Lemma same_owner_srcs h s1 s2 : same_owner s1 s2 -> srcs h s1 = srcs h s2.
Proof.
  intros (D & M & _ & PH & PB). unfold srcs. rewrite <- M, <- D.
  destruct (multi s1) eqn:E.
  - rewrite (PH eq_refl). reflexivity.
  - rewrite (PB eq_refl). reflexivity.
Qed.
Lemma same_owner_refl s : same_owner s s.
Proof. repeat split; auto. Qed.
Lemma same_owner_sym a b : same_owner a b -> same_owner b a.
Proof.
  intros (D & M & K & PH & PB). repeat split; try congruence.
  - intros E. symmetry. apply PH. congruence.
  - intros E. symmetry. apply PB. congruence.
Qed.
Lemma same_owner_trans a b c : same_owner a b -> same_owner b c -> same_owner a c.
Proof.
  intros (D & M & K & PH & PB) (D' & M' & K' & PH' & PB'). repeat split; try congruence.
  - intros E. rewrite (PH E). apply PH'. congruence.
  - intros E. rewrite (PB E). apply PB'. congruence.
Qed.

Lemma srcs_ext h h' s :
  (multi s = true -> getarr h' (sdata s) = getarr h (sdata s)) -> srcs h' s = srcs h s.
Proof. intros H. unfold srcs. destruct (multi s); auto. rewrite H; auto. Qed.

Lemma mass_ok_ext h h' s v : srcs h' s = srcs h s -> mass_ok h s v -> mass_ok h' s v.
Proof. intros E (A & B). split; congruence. Qed.
Lemma volT_ext h h' s t v : srcs h' s = srcs h s -> volT h s t v -> volT h' s t v.
Proof. intros E (A & B & C & D). repeat split; try congruence. Qed.
Lemma vol_ok_ext h h' s v : srcs h' s = srcs h s -> vol_ok h s v -> vol_ok h' s v.
Proof. intros E (A & B & C & D). repeat split; try congruence. Qed.

(* heaps with the same arrays, caches and streams satisfy the invariant together *)
Lemma inv_struct h h' :
  arrs h' = arrs h -> caches h' = caches h -> streams h' = streams h -> Inv h -> Inv h'.
Proof.
  intros A C S I i s Hs. rewrite S in Hs. destruct (I i s Hs) as (W & (VM & VV) & SH).
  assert (E : srcs h' s = srcs h s) by (apply srcs_ext; intros _; unfold getarr; rewrite A; reflexivity).
  split; [|split].
  - unfold wf_stream. rewrite A, C. exact W.
  - unfold views_ok, getcache. rewrite C. split; intros v Hv.
    + eapply mass_ok_ext; [exact E|]. apply VM; exact Hv.
    + intros Hq. eapply volT_ext; [exact E|]. eapply VV; exact Hq.
  - rewrite S. exact SH.
Qed.

(* ---------- updating the cache cell of a stream ---------- *)
Lemma getcache_put_eq h c x : (c < length (caches h))%nat -> getcache (put_cache h c x) c = x.
Proof. intros H. unfold getcache, put_cache; simpl. apply nth_upd_eq; auto. Qed.
Lemma getcache_put_neq h c c' x : c <> c' -> getcache (put_cache h c x) c' = getcache h c'.
Proof. intros H. unfold getcache, put_cache; simpl. apply nth_upd_neq; auto. Qed.

Lemma vol_find_put_eq t v l : vol_find t (vol_put t v l) = Some v.
Proof.
  induction l as [|[k w] l IH]; simpl.
  - rewrite Nat.eqb_refl. reflexivity.
  - destruct (Nat.eqb k t) eqn:E; simpl.
    + rewrite Nat.eqb_refl. reflexivity.
    + rewrite E. exact IH.
Qed.
Lemma vol_find_put_neq t t' v l : t <> t' -> vol_find t' (vol_put t v l) = vol_find t' l.
Proof.
  intros N. induction l as [|[k w] l IH]; simpl.
  - destruct (Nat.eqb t t') eqn:E; auto. apply Nat.eqb_eq in E. contradiction.
  - destruct (Nat.eqb k t) eqn:E; simpl.
    + apply Nat.eqb_eq in E. subst k.
      destruct (Nat.eqb t t') eqn:E2; auto. apply Nat.eqb_eq in E2. contradiction.
    + destruct (Nat.eqb k t'); auto.
Qed.

(* replacing the cache cell of stream [s] by one whose views are all right for [s] keeps the invariant *)
Lemma inv_put_cache h i s x :
  Inv h -> nth_error (streams h) i = Some s ->
  (forall v, c_mass x = Some v -> mass_ok h s v) ->
  (forall t v, vol_find t (c_vols x) = Some v ->
      volT h s t v \/ vol_find t (c_vols (getcache h (cch s))) = Some v) ->
  Inv (put_cache h (cch s) x).
Proof.
  intros I Hs XM XV j s2 Hs2. simpl in Hs2.
  destruct (I i s Hs) as ((WC & WA) & (VM & VV) & SH).
  destruct (I j s2 Hs2) as ((WC2 & WA2) & (VM2 & VV2) & SH2).
  assert (ES : forall s', srcs (put_cache h (cch s) x) s' = srcs h s') by (intros; reflexivity).
  split; [|split].
  - unfold wf_stream; simpl. rewrite upd_length. split; auto.
  - destruct (Nat.eq_dec (cch s) (cch s2)) as [E|N].
    + assert (O : same_owner s s2) by (eapply SH; eauto).
      assert (SS : srcs h s2 = srcs h s) by (symmetry; apply same_owner_srcs; auto).
      destruct O as (D & M & K & PH & PB).
      unfold views_ok. rewrite <- E, getcache_put_eq by auto. split; intros v Hv.
      * destruct (XM v Hv) as (A & B). split; [rewrite ES; congruence | congruence].
      * intros Hq. destruct (XV _ _ Hq) as [(A & B & C & F)|Old].
        -- split; [rewrite ES; congruence|split; [congruence|split; [congruence|rewrite <- K; exact F]]].
        -- rewrite E in Old. destruct (VV2 _ _ Old) as (A & B & C & F). repeat split; auto.
    + unfold views_ok. rewrite getcache_put_neq by auto. split; intros v Hv.
      * apply VM2; auto.
      * intros Hq. eapply VV2; exact Hq.
  - simpl. exact SH2.
Qed.

Lemma inv_by_mass h i s :
  Inv h -> nth_error (streams h) i = Some s ->
  Inv (fst (by_mass h s)) /\ mass_ok h s (snd (by_mass h s)) /\
  rows (fst (by_mass h s)) = rows h /\ arrs (fst (by_mass h s)) = arrs h /\
  streams (fst (by_mass h s)) = streams h /\ tps (fst (by_mass h s)) = tps h /\
  boxes (fst (by_mass h s)) = boxes h.
Proof.
  intros I Hs. unfold by_mass. destruct (I i s Hs) as (W & (VM & VV) & SH).
  destruct (c_mass (getcache h (cch s))) as [v|] eqn:E; simpl.
  - split; [exact I|]. split; [apply VM; reflexivity|]. repeat split; reflexivity.
  - split; [|split; [split; reflexivity|repeat split; reflexivity]].
    eapply inv_put_cache; [exact I|exact Hs| |]; simpl.
    + intros v Hv. inversion Hv; subst. split; reflexivity.
    + intros t v Hv. right. exact Hv.
Qed.

Lemma by_volume_ok h i s :
  Inv h -> nth_error (streams h) i = Some s -> vol_ok h s (by_volume h s).
Proof.
  intros I Hs. unfold by_volume. destruct (I i s Hs) as (W & (VM & VV) & SH).
  destruct (vol_find (tc s) (c_vols (getcache h (cch s)))) as [v|] eqn:E.
  - apply VV; auto.
  - unfold new_volview, vol_ok, volT; simpl. repeat split; auto.
    + rewrite map_map. unfold vsrc; simpl. rewrite <- (map_id (srcs h s)) at 2.
      apply map_ext. intros [a b]; reflexivity.
    + apply Forall_forall. intros r Hr. apply in_map_iff in Hr. destruct Hr as (x & <- & _).
      unfold vrow_ok; simpl. constructor.
Qed.

Lemma inv_store_vol h i s v :
  Inv h -> nth_error (streams h) i = Some s -> vol_ok h s v -> Inv (store_vol h s v).
Proof.
  intros I Hs OK. unfold store_vol. eapply inv_put_cache; [exact I|exact Hs| |]; simpl.
  - intros w Hw. destruct (I i s Hs) as (_ & (VM & _) & _). apply VM; auto.
  - intros t w Hw. destruct (Nat.eq_dec (tc s) t) as [E|N].
    + subst t. rewrite vol_find_put_eq in Hw. inversion Hw; subst. left; exact OK.
    + rewrite vol_find_put_neq in Hw by auto. right; auto.
Qed.

Lemma views_ok_owner h h' a b :
  arrs h' = arrs h -> caches h' = caches h -> same_owner a b -> cch a = cch b -> tc a = tc b ->
  views_ok h b -> views_ok h' a.
Proof.
  intros A C O EC ET (VM & VV).
  assert (SR : srcs h' a = srcs h b).
  { rewrite (same_owner_srcs h' a b O). apply srcs_ext. intros _. unfold getarr. rewrite A. reflexivity. }
  destruct O as (_ & _ & K & _). unfold views_ok, getcache. rewrite C, EC. split; intros v Hv.
  - destruct (VM v Hv) as (X & Y). split; congruence.
  - intros Hq. destruct (VV _ _ Hq) as (X & Y & Z & F). split; [congruence|split; [congruence|split; [congruence|rewrite K; exact F]]].
Qed.

(* ---------- allocation frames ---------- *)
Lemma new_rows_frame h vs :
  arrs (snd (new_rows h vs)) = arrs h /\ caches (snd (new_rows h vs)) = caches h /\
  streams (snd (new_rows h vs)) = streams h.
Proof.
  revert h; induction vs as [|v vs IH]; intros h; simpl; auto.
  destruct (new_rows (set_rows h (rows h ++ [v])) vs) as [rs h2] eqn:E. simpl.
  specialize (IH (set_rows h (rows h ++ [v]))). rewrite E in IH. simpl in IH. exact IH.
Qed.

(* a stream re-bound to a brand-new, empty cache dict: the situation after unlink, link_with (partial),
   the phase / phases setters and a property-package reset *)
Lemma inv_rebind h h1 i s s' a :
  Inv h -> nth_error (streams h) i = Some s ->
  streams h1 = streams h -> arrs h1 = arrs h ++ a -> caches h1 = caches h ++ [cache0] ->
  cch s' = length (caches h) -> (multi s' = true -> (sdata s' < length (arrs h1))%nat) ->
  Inv (put_stream h1 i s').
Proof.
  intros I Hs S A C CS WD j s2 Hs2. simpl in Hs2. rewrite S in Hs2.
  assert (LI : (i < length (streams h))%nat) by (eapply nth_error_lt; eauto).
  assert (OLD : forall j s2, j <> i -> nth_error (upd (streams h) i s') j = Some s2 ->
                 nth_error (streams h) j = Some s2).
  { intros j0 s0 N H0. rewrite nth_error_upd_other in H0 by auto. exact H0. }
  assert (FRESH : forall j s3, nth_error (streams h) j = Some s3 -> cch s3 <> length (caches h)).
  { intros j0 s3 H3. destruct (I j0 s3 H3) as ((W & _) & _). lia. }
  destruct (Nat.eq_dec j i) as [E|N].
  - subst j. rewrite nth_error_upd_same in Hs2 by auto. inversion Hs2; subst s2. clear Hs2.
    split; [|split].
    + split; simpl. rewrite C, app_length; simpl. lia. exact WD.
    + unfold views_ok, getcache; simpl. rewrite C, CS, nth_middle. simpl.
      split; intros v Hv; discriminate.
    + intros j s3 H3 EC. simpl in H3. rewrite S in H3. destruct (Nat.eq_dec j i) as [E|N].
      * subst j. rewrite nth_error_upd_same in H3 by auto. inversion H3. apply same_owner_refl.
      * exfalso. eapply FRESH; [eapply OLD; eauto|]. congruence.
  - pose proof (OLD j s2 N Hs2) as H2. destruct (I j s2 H2) as ((WC & WA) & (VM & VV) & SH).
    assert (ES : srcs (put_stream h1 i s') s2 = srcs h s2).
    { apply srcs_ext. intros M. unfold getarr; simpl. rewrite A. apply nth_app_lt. auto. }
    assert (EC : getcache (put_stream h1 i s') (cch s2) = getcache h (cch s2)).
    { unfold getcache; simpl. rewrite C. apply nth_app_lt. auto. }
    split; [|split].
    + split; simpl. rewrite C, app_length; simpl. lia.
      intros M. rewrite A, app_length. specialize (WA M). lia.
    + unfold views_ok. rewrite EC. split; intros v Hv.
      * eapply mass_ok_ext; [exact ES|]. apply VM; auto.
      * intros Hq. eapply volT_ext; [exact ES|]. eapply VV; exact Hq.
    + intros j' s3 H3 EQ. simpl in H3. rewrite S in H3. destruct (Nat.eq_dec j' i) as [E|N'].
      * subst j'. rewrite nth_error_upd_same in H3 by auto. inversion H3; subst s3.
        exfalso. apply (FRESH j s2 H2). congruence.
      * eapply SH; eauto.
Qed.

Lemma inv_unlink h i s : Inv h -> nth_error (streams h) i = Some s -> Inv (fst (unlink h i s)).
Proof.
  intros I Hs. unfold unlink.
  destruct (multi s) eqn:M.
  - cbn [new_cache new_box new_tp fst snd].
    destruct (copy_rows (set_caches h (caches h ++ [cache0]))
               (getarr (set_caches h (caches h ++ [cache0])) (sdata s))) as [rs hh] eqn:E.
    pose proof (new_rows_frame (set_caches h (caches h ++ [cache0]))
                 (map (getrow (set_caches h (caches h ++ [cache0])))
                      (getarr (set_caches h (caches h ++ [cache0])) (sdata s)))) as F.
    unfold copy_rows in E. rewrite E in F. simpl in F. destruct F as (FA & FC & FS).
    cbn [new_arr new_tp fst snd].
    eapply inv_rebind with (h := h) (a := [rs]); eauto; simpl; try congruence.
    intros _. rewrite FA, app_length. simpl. lia.
  - cbn [new_cache new_box new_tp new_row fst snd].
    eapply inv_rebind with (h := h) (a := []); eauto; simpl; try congruence.
    rewrite app_nil_r. reflexivity.
Qed.

Lemma inv_link h i s o f p t :
  Inv h -> nth_error (streams h) i = Some s -> (exists j, j <> i /\ nth_error (streams h) j = Some o) ->
  Inv (fst (link_with h i s o f p t)).
Proof.
  intros I Hs (j & NJ & Ho). unfold link_with.
  destruct (negb (Bool.eqb (multi s) (multi o))) eqn:CL; [exact I|].
  destruct (negb (Nat.eqb (pkg s) (pkg o))) eqn:PK; [exact I|].
  destruct (multi s && f && negb (phases_eqb (phs s) (phs o))) eqn:PH; [exact I|].
  apply negb_false_iff in CL. apply Bool.eqb_prop in CL.
  apply negb_false_iff in PK. apply Nat.eqb_eq in PK.
  destruct (t && f && (p || multi s)) eqn:SHARE.
  - (* everything that determines the views is shared: the cache dict may be shared too *)
    apply andb_prop in SHARE. destruct SHARE as (TF & PM). apply andb_prop in TF. destruct TF as (Tt & Ft).
    subst t f. cbn [fst snd].
    assert (PHS : multi s = true -> phs s = phs o).
    { intros M. rewrite M in PH. simpl in PH. apply negb_false_iff in PH.
      clear - PH. revert PH. generalize (phs o). induction (phs s) as [|x l IH]; intros [|y m] H; simpl in H; try discriminate; auto.
      apply andb_prop in H. destruct H as (H1 & H2). apply phase_eqb_eq in H1. subst. f_equal. auto. }
    set (s1 := mkstream (multi s) (sdata o) (if p && negb (multi s) then pbox o else pbox s) (phs s) (pkg s) (cch o) (tc o)).
    assert (OWN : same_owner s1 o).
    { unfold s1. repeat split; simpl; auto.
      intros M. rewrite M in PM. rewrite orb_false_r in PM. subst p. rewrite M. reflexivity. }
    assert (LI : (i < length (streams h))%nat) by (eapply nth_error_lt; eauto).
    destruct (I j o Ho) as ((WCo & WAo) & (VMo & VVo) & SHo).
    intros k s2 H2. simpl in H2.
    destruct (Nat.eq_dec k i) as [E|N].
    + subst k. rewrite nth_error_upd_same in H2 by auto. inversion H2; subst s2. clear H2.
      split; [|split].
      * split; simpl. exact WCo. intros M. apply WAo. congruence.
      * eapply views_ok_owner with (h := h) (b := o); try reflexivity; auto. split; auto.
      * intros k' s3 H3 EQ. simpl in H3, EQ. destruct (Nat.eq_dec k' i) as [E|N].
        -- subst k'. rewrite nth_error_upd_same in H3 by auto. inversion H3. apply same_owner_refl.
        -- rewrite nth_error_upd_other in H3 by auto.
           eapply same_owner_trans; [exact OWN|]. eapply SHo; eauto.
    + rewrite nth_error_upd_other in H2 by auto.
      destruct (I k s2 H2) as (W2 & (VM2 & VV2) & SH2).
      split; [exact W2|split].
      * eapply views_ok_owner with (h := h) (b := s2); try reflexivity. apply same_owner_refl. split; auto.
      * intros k' s3 H3 EQ. simpl in H3. destruct (Nat.eq_dec k' i) as [E|N'].
        -- subst k'. rewrite nth_error_upd_same in H3 by auto. inversion H3; subst s3. simpl in EQ.
           apply same_owner_sym. eapply same_owner_trans; [exact OWN|].
           eapply SHo; eauto.
        -- rewrite nth_error_upd_other in H3 by auto. eapply SH2; eauto.
  - cbn [new_cache fst snd].
    eapply inv_rebind with (h := h) (a := []); eauto; simpl; try congruence.
    + rewrite app_nil_r; reflexivity.
    + intros M. destruct f.
      * destruct (I j o Ho) as ((_ & WAo) & _). apply WAo. congruence.
      * destruct (I i s Hs) as ((_ & WA) & _). apply WA. exact M.
Qed.

Ltac frame_rows h vs rs h' :=
  let E := fresh "E" in let F := fresh "F" in
  destruct (new_rows h vs) as [rs h'] eqn:E; pose proof (new_rows_frame h vs) as F; rewrite E in F;
  simpl in F; destruct F as (?FA & ?FC & ?FS).

Lemma inv_multi_to_single h i s p :
  Inv h -> nth_error (streams h) i = Some s -> Inv (fst (multi_to_single pkgs h i s p)).
Proof.
  intros I Hs. unfold multi_to_single. cbn [new_row new_box new_cache fst snd].
  eapply inv_rebind with (h := h) (a := []); eauto; simpl; try congruence.
  rewrite app_nil_r; reflexivity.
Qed.

Lemma inv_set_phase h i s p :
  Inv h -> nth_error (streams h) i = Some s -> Inv (fst (set_phase pkgs h i s p)).
Proof.
  intros I Hs. unfold set_phase. destruct (multi s).
  - apply inv_multi_to_single; auto.
  - simpl. eapply inv_struct; eauto.
Qed.

Lemma inv_single_to_multi h i s l :
  Inv h -> nth_error (streams h) i = Some s -> Inv (fst (single_to_multi pkgs h i s l)).
Proof.
  intros I Hs. unfold single_to_multi.
  destruct (if any_nonzero (getrow h (sdata s))
            then option_map (fun t => upd (zero_rows (length (psort l)) (nchem pkgs (pkg s))) t (getrow h (sdata s)))
                            (pindex (psort l) (getbox h (pbox s)))
            else Some (zero_rows (length (psort l)) (nchem pkgs (pkg s)))) as [vals|]; [|exact I].
  frame_rows h vals rs h1.
  cbn [new_arr new_cache fst snd].
  eapply inv_rebind with (h := h) (a := [rs]); eauto; simpl; try congruence.
  intros _. rewrite FA, app_length; simpl; lia.
Qed.

Lemma inv_multi_to_multi h i s l :
  Inv h -> nth_error (streams h) i = Some s -> Inv (fst (multi_to_multi pkgs h i s l)).
Proof.
  intros I Hs. unfold multi_to_multi.
  destruct (phases_eqb (psort l) (phs s)); [exact I|].
  destruct (place_rows (psort l) (combine (phs s) (all_rows h s))
             (zero_rows (length (psort l)) (nchem pkgs (pkg s)))) as [vals|]; [|exact I].
  frame_rows h vals rs h1.
  cbn [new_arr new_cache fst snd].
  eapply inv_rebind with (h := h) (a := [rs]); eauto; simpl; try congruence.
  intros _. rewrite FA, app_length; simpl; lia.
Qed.

Lemma inv_set_phases h i s l :
  Inv h -> nth_error (streams h) i = Some s -> Inv (fst (set_phases pkgs h i s l)).
Proof.
  intros I Hs. unfold set_phases. destruct (psort l) as [|p [|q r]] eqn:E.
  - exact I.
  - apply inv_set_phase; auto.
  - destruct (multi s).
    + apply inv_multi_to_multi; auto.
    + apply inv_single_to_multi; auto.
Qed.

Lemma inv_reset_none h i s k :
  Inv h -> nth_error (streams h) i = Some s -> Inv (fst (reset_chemicals pkgs h i s k None)).
Proof.
  intros I Hs. unfold reset_chemicals. cbn [new_cache fst snd].
  destruct (multi s) eqn:M.
  - frame_rows (set_caches h (caches h ++ [cache0]))
               (map (remap (chems pkgs (pkg s)) (chems pkgs k)) (all_rows h s)) rs h2.
    cbn [new_arr fst snd].
    eapply inv_rebind with (h := h) (a := [rs]); eauto; simpl; try congruence.
    intros _. rewrite FA, app_length; simpl; lia.
  - cbn [new_row fst snd].
    eapply inv_rebind with (h := h) (a := []); eauto; simpl; try congruence.
    rewrite app_nil_r; reflexivity.
Qed.

Lemma inv_reset_thermo h i s k :
  Inv h -> nth_error (streams h) i = Some s -> Inv (fst (reset_thermo pkgs h i s k)).
Proof.
  intros I Hs. unfold reset_thermo. destruct (Nat.eqb (pkg s) k); [exact I|].
  cbn [fst]. apply inv_reset_none; auto.
Qed.

(* ---------- the memo: an entry is reused only for the same phase and for T, P within 1e-12 ---------- *)
Lemma memo_get_in k m e : memo_get k m = Some e -> In (k, e) m.
Proof.
  induction m as [|[j x] m IH]; simpl; intros H; try discriminate.
  destruct (Nat.eqb j k) eqn:E.
  - apply Nat.eqb_eq in E. inversion H; subst. left; reflexivity.
  - right; auto.
Qed.

Definition near (x y : Q) : Prop := Qabs (x - y) < tp_tol.
Lemma near_refl x : near x x.
Proof.
  unfold near. assert (E : x - x == 0) by ring. rewrite E. reflexivity.
Qed.
Lemma qltb_lt a b : qltb a b = true -> a < b.
Proof.
  unfold qltb. intros H. apply negb_true_iff in H. apply Qnot_le_lt. intros L.
  apply Qle_bool_iff in L. congruence.
Qed.
Lemma qltb_refl_near x : qltb (Qabs (x - x)) tp_tol = true.
Proof.
  unfold qltb. apply negb_true_iff. destruct (Qle_bool tp_tol (Qabs (x - x))) eqn:E; auto.
  apply Qle_bool_iff in E. pose proof (near_refl x) as N. unfold near in N.
  exfalso. apply (Qlt_irrefl tp_tol). eapply Qle_lt_trans; eauto.
Qed.

Definition Vat h (pk : nat) (src : phsrc) (k : nat) (T P : Q) : Q :=
  1000 * Vf (gid pkgs pk k) (base (src_phase h src)) T P.
Definition cur_T h (vv : volview) := fst (gettp h (vv_tp vv)).
Definition cur_P h (vv : volview) := snd (gettp h (vv_tp vv)).

Lemma vfactor_ok h vv r k pk :
  vv_pkg vv = pk -> vrow_ok pk r ->
  (exists T' P', near T' (cur_T h vv) /\ near P' (cur_P h vv) /\
     fst (vfactor Vf pkgs h vv r k) == Vat h pk (vr_src r) k T' P')
  /\ vrow_ok pk (snd (vfactor Vf pkgs h vv r k))
  /\ vsrc (snd (vfactor Vf pkgs h vv r k)) = vsrc r.
Proof.
  intros PK OK. unfold vfactor, Vat, cur_T, cur_P. rewrite PK.
  set (T := fst (gettp h (vv_tp vv))). set (P := snd (gettp h (vv_tp vv))).
  set (ph := src_phase h (vr_src r)).
  assert (FR : Qred (1000 * Vf (gid pkgs pk k) (base ph) T P) == 1000 * Vf (gid pkgs pk k) (base ph) T P
               /\ vrow_ok pk (mkvrow (vr_dct r) (vr_src r)
                    ((k, mkme T P ph (Qred (1000 * Vf (gid pkgs pk k) (base ph) T P))) :: vr_memo r))).
  { split. apply Qred_correct. unfold vrow_ok. cbn [vr_memo]. constructor; auto.
    unfold entry_ok. cbn [snd fst me_V me_ph me_T me_P]. apply Qred_correct. }
  destruct FR as (F1 & F2).
  assert (FRESH : exists T' P', near T' T /\ near P' P /\
            Qred (1000 * Vf (gid pkgs pk k) (base ph) T P) == 1000 * Vf (gid pkgs pk k) (base ph) T' P').
  { exists T, P. split; [apply near_refl|split; [apply near_refl|exact F1]]. }
  destruct (memo_get k (vr_memo r)) as [e|] eqn:M.
  - destruct (phase_eqb (me_ph e) ph && in_equilibrium (me_T e) (me_P e) T P) eqn:C; cbn [fst snd].
    + apply andb_prop in C. destruct C as (CH & CE). unfold in_equilibrium in CE.
      apply andb_prop in CE. destruct CE as (CT & CP).
      apply phase_eqb_eq in CH. apply qltb_lt in CT. apply qltb_lt in CP.
      split; [|split; auto].
      pose proof (proj1 (Forall_forall _ _) OK _ (memo_get_in _ _ _ M)) as EO.
      unfold entry_ok in EO; cbn [fst snd] in EO.
      exists (me_T e), (me_P e). split; [exact CT|split; [exact CP|]]. rewrite EO, CH. reflexivity.
    + split; [exact FRESH|split; [exact F2|reflexivity]].
  - cbn [fst snd]. split; [exact FRESH|split; [exact F2|reflexivity]].
Qed.

Lemma vsrc_src a b : vsrc a = vsrc b -> vr_src a = vr_src b.
Proof. unfold vsrc. intros H. inversion H. auto. Qed.

Lemma read_vrow_ok h vv pk vals : vv_pkg vv = pk -> forall r k0, vrow_ok pk r ->
  vrow_ok pk (snd (read_vrow Vf pkgs h vv r k0 vals)) /\
  vsrc (snd (read_vrow Vf pkgs h vv r k0 vals)) = vsrc r /\
  forall j, exists T' P', near T' (cur_T h vv) /\ near P' (cur_P h vv) /\
    nthq (fst (read_vrow Vf pkgs h vv r k0 vals)) j == nthq vals j * Vat h pk (vr_src r) (k0 + j) T' P'.
Proof.
  intros PK. induction vals as [|x t IH]; intros r k0 OK.
  - simpl. split; auto. split; auto. intros j. exists (cur_T h vv), (cur_P h vv).
    split; [apply near_refl|split; [apply near_refl|]]. rewrite !nthq_nil. lra.
  - cbn [read_vrow]. destruct (qzerob x) eqn:Z.
    + specialize (IH r (S k0) OK).
      destruct (read_vrow Vf pkgs h vv r (S k0) t) as [o r'] eqn:E. cbn [fst snd] in *.
      destruct IH as (A & B & C). split; auto. split; auto.
      intros [|j].
      * exists (cur_T h vv), (cur_P h vv). split; [apply near_refl|split; [apply near_refl|]].
        unfold nthq; simpl. apply qzerob_true in Z. rewrite Z. lra.
      * destruct (C j) as (T' & P' & NT & NP & V). exists T', P'. split; auto. split; auto.
        unfold nthq in *; simpl. rewrite V. replace (k0 + S j)%nat with (S k0 + j)%nat by lia. reflexivity.
    + destruct (vfactor_ok h vv r k0 pk PK OK) as ((T0 & P0 & NT0 & NP0 & FV) & FO & FS).
      destruct (vfactor Vf pkgs h vv r k0) as [V r1] eqn:EV. cbn [fst snd] in *.
      specialize (IH r1 (S k0) FO).
      destruct (read_vrow Vf pkgs h vv r1 (S k0) t) as [o r'] eqn:E. cbn [fst snd] in *.
      destruct IH as (A & B & C). split; auto. split; [congruence|].
      intros [|j].
      * exists T0, P0. split; auto. split; auto. unfold nthq; simpl. rewrite FV. rewrite Nat.add_0_r. reflexivity.
      * destruct (C j) as (T' & P' & NT & NP & V'). exists T', P'. split; auto. split; auto.
        unfold nthq in *; simpl. rewrite V'. rewrite (vsrc_src _ _ FS).
        replace (k0 + S j)%nat with (S k0 + j)%nat by lia. reflexivity.
Qed.

Lemma read_vrows_ok h vv pk : vv_pkg vv = pk -> forall l, Forall (vrow_ok pk) l ->
  Forall (vrow_ok pk) (snd (read_vrows Vf pkgs h vv l)) /\
  map vsrc (snd (read_vrows Vf pkgs h vv l)) = map vsrc l /\
  forall n r, nth_error l n = Some r -> forall j, exists T' P', near T' (cur_T h vv) /\ near P' (cur_P h vv) /\
    nthq (nth n (fst (read_vrows Vf pkgs h vv l)) []) j
      == nthq (getrow h (vr_dct r)) j * Vat h pk (vr_src r) j T' P'.
Proof.
  intros PK. induction l as [|r l IH]; intros OK.
  - simpl. split; auto. split; auto. intros [|n] r H; discriminate.
  - apply Forall_cons_iff in OK. destruct OK as (OKr & OKl).
    cbn [read_vrows].
    destruct (read_vrow_ok h vv pk (getrow h (vr_dct r)) PK r O OKr) as (A & B & C).
    destruct (read_vrow Vf pkgs h vv r 0 (getrow h (vr_dct r))) as [o r'] eqn:E.
    destruct (IH OKl) as (A' & B' & C').
    destruct (read_vrows Vf pkgs h vv l) as [os rs] eqn:E'. cbn [fst snd] in *.
    split; [constructor; auto|]. split; [simpl; congruence|].
    intros [|n] r0 H j; simpl in H.
    + inversion H; subst r0. simpl. exact (C j).
    + simpl. apply C'. exact H.
Qed.

Lemma map_vsrc_upd l r x y :
  nth_error l r = Some y -> vsrc x = vsrc y -> map vsrc (upd l r x) = map vsrc l.
Proof.
  revert r; induction l as [|a l IH]; intros [|r] H E; simpl in *; try discriminate; auto.
  - inversion H; subst. congruence.
  - f_equal. auto.
Qed.
Lemma Forall_upd {A} (P : A -> Prop) l r x : Forall P l -> P x -> Forall P (upd l r x).
Proof.
  intros F Px. revert r; induction F as [|a l Pa F IH]; intros [|r]; simpl; auto.
Qed.

Lemma map_rows_struct h f l :
  arrs (map_rows h f l) = arrs h /\ caches (map_rows h f l) = caches h /\ streams (map_rows h f l) = streams h.
Proof. revert h; induction l as [|d l IH]; intros h; simpl; auto. destruct (IH (put_row h d (f (getrow h d)))) as (A & B & C). simpl in *. auto. Qed.

Lemma inv_read_mass h i s : Inv h -> nth_error (streams h) i = Some s -> Inv (fst (read_mass MWf pkgs h s)).
Proof.
  intros I Hs. unfold read_mass. destruct (inv_by_mass h i s I Hs) as (A & _).
  destruct (by_mass h s) as [h1 v]. exact A.
Qed.

Lemma inv_read_vol h i s : Inv h -> nth_error (streams h) i = Some s -> Inv (fst (read_vol Vf pkgs h s)).
Proof.
  intros I Hs. unfold read_vol.
  destruct (by_volume_ok h i s I Hs) as (A & B & C & F).
  destruct (read_vrows_ok h (by_volume h s) (pkg s) C _ F) as (F' & M & _).
  destruct (read_vrows Vf pkgs h (by_volume h s) (vv_rows (by_volume h s))) as [m rs]. cbn [fst snd] in *.
  eapply inv_store_vol; eauto. repeat split; simpl; auto. congruence.
Qed.

Lemma inv_get_item h i s w r k :
  Inv h -> nth_error (streams h) i = Some s -> Inv (fst (get_item Vf MWf pkgs h s w r k)).
Proof.
  intros I Hs. unfold get_item. destruct w.
  - destruct (nth_error (rowrefs h s) r); exact I.
  - destruct (inv_by_mass h i s I Hs) as (A & _). destruct (by_mass h s) as [h1 v].
    destruct (nth_error (mv_rows v) r); exact A.
  - pose proof (by_volume_ok h i s I Hs) as OK. destruct OK as (A & B & C & F).
    destruct (nth_error (vv_rows (by_volume h s)) r) as [vr|] eqn:E.
    + destruct (qzerob (nthq (getrow h (vr_dct vr)) k)).
      * eapply inv_store_vol; eauto. repeat split; auto.
      * assert (OKr : vrow_ok (pkg s) vr).
        { apply (proj1 (Forall_forall _ _) F). eapply nth_error_In; eauto. }
        destruct (vfactor_ok h (by_volume h s) vr k (pkg s) C OKr) as (_ & FO & FS).
        destruct (vfactor Vf pkgs h (by_volume h s) vr k) as [V vr']. cbn [fst snd] in *.
        eapply inv_store_vol; eauto. repeat split; simpl; auto.
        -- rewrite (map_vsrc_upd _ _ _ _ E FS). exact A.
        -- apply Forall_upd; auto.
    + eapply inv_store_vol; eauto. repeat split; auto.
Qed.

Lemma inv_put_item h d k x : Inv h -> Inv (put_item h d k x).
Proof. intros I. eapply inv_struct; eauto. Qed.

Lemma inv_set_item h i s w r k v :
  Inv h -> nth_error (streams h) i = Some s -> Inv (fst (set_item Vf MWf pkgs h s w r k v)).
Proof.
  intros I Hs. unfold set_item. destruct w.
  - destruct (nth_error (rowrefs h s) r); [apply inv_put_item|]; exact I.
  - destruct (inv_by_mass h i s I Hs) as (A & _). destruct (by_mass h s) as [h1 mv].
    destruct (nth_error (mv_rows mv) r); [apply inv_put_item|]; exact A.
  - pose proof (by_volume_ok h i s I Hs) as OK. destruct OK as (A & B & C & F).
    destruct (nth_error (vv_rows (by_volume h s)) r) as [vr|] eqn:E.
    + destruct (qzerob v).
      * apply inv_put_item. eapply inv_store_vol; eauto. repeat split; auto.
      * assert (OKr : vrow_ok (pkg s) vr).
        { apply (proj1 (Forall_forall _ _) F). eapply nth_error_In; eauto. }
        destruct (vfactor_ok h (by_volume h s) vr k (pkg s) C OKr) as (_ & FO & FS).
        destruct (vfactor Vf pkgs h (by_volume h s) vr k) as [V vr']. cbn [fst snd] in *.
        apply inv_put_item. eapply inv_store_vol; eauto. repeat split; simpl; auto.
        -- rewrite (map_vsrc_upd _ _ _ _ E FS). exact A.
        -- apply Forall_upd; auto.
    + eapply inv_store_vol; eauto. repeat split; auto.
Qed.

Lemma inv_set_total h i s w v :
  Inv h -> nth_error (streams h) i = Some s -> Inv (fst (set_total Vf MWf pkgs h s w v)).
Proof.
  intros I Hs. unfold set_total, scale_all, empty_all.
  assert (MR : forall f, Inv (map_rows h f (rowrefs h s))).
  { intros f. destruct (map_rows_struct h f (rowrefs h s)) as (A & B & C). eapply inv_struct; eauto. }
  destruct w.
  - destruct (qzerob (total Vf MWf pkgs h s VMol)); [exact I|apply MR].
  - destruct (negb (qzerob (total Vf MWf pkgs h s VMass))); [apply MR|].
    destruct (negb (qzerob v)); [exact I|apply MR].
  - destruct (qzerob (total Vf MWf pkgs h s VVol)); [exact I|apply MR].
Qed.

Lemma inv_alias_flags h i s : Inv h -> nth_error (streams h) i = Some s -> Inv (fst (alias_flags h s)).
Proof.
  intros I Hs. unfold alias_flags.
  destruct (inv_by_mass h i s I Hs) as (A & _ & _ & _ & S & _).
  destruct (by_mass h s) as [h1 mv]. cbn [fst snd] in *.
  assert (Hs1 : nth_error (streams h1) i = Some s) by congruence.
  eapply inv_store_vol; eauto. eapply by_volume_ok; eauto.
Qed.

(* ---------- copy_like ---------- *)
Lemma copy_rows_like_struct h d x :
  arrs (copy_rows_like h d x) = arrs h /\ caches (copy_rows_like h d x) = caches h /\
  streams (copy_rows_like h d x) = streams h.
Proof.
  revert h x; induction d as [|a d IH]; intros h [|b x]; simpl; auto.
  destruct (IH (put_row h a (getrow h b)) x) as (A & B & C). simpl in *. auto.
Qed.

Lemma expand_rows_frame n ps old : forall h,
  arrs (snd (expand_rows h n ps old)) = arrs h /\ caches (snd (expand_rows h n ps old)) = caches h /\
  streams (snd (expand_rows h n ps old)) = streams h.
Proof.
  induction ps as [|p ps IH]; intros h; simpl; auto.
  destruct (find (fun x => phase_eqb (fst x) p) old) as [x|].
  - specialize (IH h). destruct (expand_rows h n ps old) as [rs h1]. exact IH.
  - specialize (IH (set_rows h (rows h ++ [vzero n]))).
    destruct (expand_rows (set_rows h (rows h ++ [vzero n])) n ps old) as [rs h2]. exact IH.
Qed.

Lemma shares_false h i a :
  stream_shares_arr h i a = false ->
  forall j s2, j <> i -> nth_error (streams h) j = Some s2 -> multi s2 = true -> sdata s2 <> a.
Proof.
  unfold stream_shares_arr. intros H j s2 N Hj M E.
  assert (IN : In (j, s2) (combine (seq O (length (streams h))) (streams h))).
  { clear - Hj. revert j Hj. generalize (streams h). intros l.
    assert (G : forall b j, nth_error l j = Some s2 -> In ((b + j)%nat, s2) (combine (seq b (length l)) l)).
    { induction l as [|x l IH]; intros b [|j] Hj; simpl in *; try discriminate.
      - inversion Hj. left. f_equal. lia.
      - right. replace (b + S j)%nat with (S b + j)%nat by lia. apply IH. exact Hj. }
    intros j Hj. apply (G O j Hj). }
  rewrite <- Bool.not_true_iff_false in H. apply H.
  apply existsb_exists. exists true. split; auto.
  apply in_map_iff. exists (j, s2). split; auto. simpl.
  rewrite M. rewrite E, Nat.eqb_refl. destruct (Nat.eqb j i) eqn:Q; auto.
  apply Nat.eqb_eq in Q. contradiction.
Qed.

Lemma inv_expand h i s ps rs :
  Inv h -> nth_error (streams h) i = Some s -> multi s = true ->
  stream_shares_arr h i (sdata s) = false ->
  forall h4, arrs h4 = upd (arrs h) (sdata s) rs -> caches h4 = upd (caches h) (cch s) cache0 ->
  streams h4 = upd (streams h) i (mkstream true (sdata s) (pbox s) ps (pkg s) (cch s) (tc s)) ->
  Inv h4.
Proof.
  intros I Hs M NS h4 A C S.
  set (s1 := mkstream true (sdata s) (pbox s) ps (pkg s) (cch s) (tc s)) in *.
  assert (LI : (i < length (streams h))%nat) by (eapply nth_error_lt; eauto).
  destruct (I i s Hs) as ((WC & WA) & _ & SH).
  assert (ALONE : forall j s2, j <> i -> nth_error (streams h) j = Some s2 -> cch s2 <> cch s).
  { intros j s2 N H2 E. destruct (SH j s2 H2 (eq_sym E)) as (D & MM & _).
    eapply (shares_false h i (sdata s) NS j s2); eauto; congruence. }
  intros j s2 H2. rewrite S in H2. destruct (Nat.eq_dec j i) as [E|N].
  - subst j. rewrite nth_error_upd_same in H2 by auto. inversion H2; subst s2. clear H2.
    split; [|split].
    + split; simpl. rewrite C, upd_length. exact WC. intros _. rewrite A, upd_length. auto.
    + unfold views_ok, getcache. rewrite C. simpl. rewrite nth_upd_eq by auto. simpl.
      split; intros v Hv; discriminate.
    + intros j s3 H3 EQ. rewrite S in H3. destruct (Nat.eq_dec j i) as [E|N].
      * subst j. rewrite nth_error_upd_same in H3 by auto. inversion H3. apply same_owner_refl.
      * rewrite nth_error_upd_other in H3 by auto. exfalso. eapply ALONE; eauto.
  - rewrite nth_error_upd_other in H2 by auto.
    destruct (I j s2 H2) as ((WC2 & WA2) & (VM2 & VV2) & SH2).
    assert (ES : srcs h4 s2 = srcs h s2).
    { apply srcs_ext. intros M2. unfold getarr. rewrite A. apply nth_upd_neq.
      intros Q. eapply (shares_false h i (sdata s) NS j s2); eauto. }
    assert (EC : getcache h4 (cch s2) = getcache h (cch s2)).
    { unfold getcache. rewrite C. apply nth_upd_neq. intros Q. eapply ALONE; eauto. }
    split; [|split].
    + split. rewrite C, upd_length. exact WC2. rewrite A, upd_length. exact WA2.
    + unfold views_ok. rewrite EC. split; intros v Hv.
      * eapply mass_ok_ext; [exact ES|]. apply VM2; auto.
      * intros Hq. eapply volT_ext; [exact ES|]. eapply VV2; exact Hq.
    + intros j' s3 H3 EQ. rewrite S in H3. destruct (Nat.eq_dec j' i) as [E|N'].
      * subst j'. rewrite nth_error_upd_same in H3 by auto. inversion H3; subst s3. simpl in EQ.
        exfalso. eapply ALONE; eauto.
      * rewrite nth_error_upd_other in H3 by auto. eapply SH2; eauto.
Qed.

Lemma copy_rows_like_x_struct h f d x :
  arrs (copy_rows_like_x h f d x) = arrs h /\ caches (copy_rows_like_x h f d x) = caches h /\
  streams (copy_rows_like_x h f d x) = streams h.
Proof.
  revert h x; induction d as [|a d IH]; intros h [|b x]; simpl; auto.
  destruct (IH (put_row h a (f (getrow h b))) x) as (A & B & C). simpl in *. auto.
Qed.

(* copy_like from a stream of another package: the same cells are touched as within one package *)
Lemma inv_copy_like_x h i s o :
  Inv h -> nth_error (streams h) i = Some s -> Inv (fst (copy_like_x pkgs h i s o)).
Proof.
  intros I Hs. unfold copy_like_x.
  destruct (map_rows_struct h (fun v => vzero (length v)) (rowrefs h s)) as (A0 & C0 & S0).
  assert (I0 : Inv (empty_all h s)) by (unfold empty_all; eapply inv_struct; eauto).
  destruct (multi s) eqn:M; destruct (multi o) eqn:MO.
  - destruct (existsb (xmiss (chems pkgs (pkg o)) (chems pkgs (pkg s))) (all_rows h o)); [exact I|].
    destruct (phases_eqb (phs s) (phs o)); [|exact I]. cbn [fst].
    destruct (copy_rows_like_x_struct (empty_all h s) (remap (chems pkgs (pkg o)) (chems pkgs (pkg s))) (rowrefs h s) (rowrefs h o)) as (A & B & C).
    eapply inv_struct; [| | |exact I0]; simpl; auto.
  - unfold empty_all in *.
    destruct (pindex (phs s) (getbox h (pbox o))) as [k|].
    + destruct (nth_error (rowrefs (map_rows h (fun v => vzero (length v)) (rowrefs h s)) s) k); [|exact I0].
      destruct (xmiss (chems pkgs (pkg o)) (chems pkgs (pkg s)) (getrow h (sdata o))); [exact I0|].
      cbn [fst]. eapply inv_struct; [| | |exact I0]; reflexivity.
    + destruct (stream_shares_arr h i (sdata s)) eqn:NS; [exact I|].
      set (h0 := map_rows h (fun v => vzero (length v)) (rowrefs h s)) in *.
      pose proof (expand_rows_frame (nchem pkgs (pkg s)) (psort (getbox h (pbox o) :: phs s))
                    (combine (phs s) (getarr h0 (sdata s))) h0) as F.
      destruct (expand_rows h0 (nchem pkgs (pkg s)) (psort (getbox h (pbox o) :: phs s))
                  (combine (phs s) (getarr h0 (sdata s)))) as [rs h1]. cbn [fst snd] in F.
      destruct F as (FA & FC & FS).
      assert (G : forall h4, arrs h4 = upd (arrs h1) (sdata s) rs -> caches h4 = upd (caches h1) (cch s) cache0 ->
                  streams h4 = upd (streams h1) i (mkstream true (sdata s) (pbox s)
                                 (psort (getbox h (pbox o) :: phs s)) (pkg s) (cch s) (tc s)) -> Inv h4).
      { intros h4 A4 C4 S4. eapply (inv_expand h i s _ rs I Hs M NS).
        - rewrite A4, FA, A0. reflexivity.
        - rewrite C4, FC, C0. reflexivity.
        - rewrite S4, FS, S0. reflexivity. }
      destruct (pindex (psort (getbox h (pbox o) :: phs s)) (getbox h (pbox o))) as [k|].
      * destruct (nth_error rs k); [|cbn [fst]; apply G; reflexivity].
        destruct (xmiss (chems pkgs (pkg o)) (chems pkgs (pkg s)) (getrow h (sdata o))); cbn [fst]; apply G; reflexivity.
      * cbn [fst]. apply G; reflexivity.
  - assert (Hs0 : nth_error (streams (empty_all h s)) i = Some s) by (rewrite <- Hs; f_equal; exact S0).
    assert (TAIL : forall l, Inv (fst (
       match single_to_multi pkgs (empty_all h s) i s l with
       | (h1, XNone) =>
           match nth_error (streams h1) i with
           | Some s1 =>
               if existsb (xmiss (chems pkgs (pkg o)) (chems pkgs (pkg s))) (all_rows h1 o) then (h1, XErr EOther)
               else if phases_eqb (phs s1) (phs o)
               then (copy_tp (copy_rows_like_x (empty_all h1 s1) (remap (chems pkgs (pkg o)) (chems pkgs (pkg s))) (rowrefs h1 s1) (rowrefs h1 o)) s1 o, XNone)
               else (h1, XDomain)
           | None => (h1, XErr EIndex)
           end
       | r => r
       end))).
    { intros l. pose proof (inv_single_to_multi _ i s l I0 Hs0) as I1.
      destruct (single_to_multi pkgs (empty_all h s) i s l) as [h1 x]. cbn [fst] in I1.
      destruct x; try exact I1.
      destruct (nth_error (streams h1) i) as [s1|]; [|exact I1].
      destruct (existsb (xmiss (chems pkgs (pkg o)) (chems pkgs (pkg s))) (all_rows h1 o)); [exact I1|].
      destruct (phases_eqb (phs s1) (phs o)); [|exact I1]. cbn [fst].
      destruct (map_rows_struct h1 (fun v => vzero (length v)) (rowrefs h1 s1)) as (A1 & C1 & S1).
      destruct (copy_rows_like_x_struct (empty_all h1 s1) (remap (chems pkgs (pkg o)) (chems pkgs (pkg s))) (rowrefs h1 s1) (rowrefs h1 o)) as (A & B & C).
      eapply inv_struct; [| | |exact I1]; simpl; unfold empty_all in *; congruence. }
    destruct (phs o) as [|p [|q r]] eqn:PO.
    + apply TAIL.
    + destruct (xmiss (chems pkgs (pkg o)) (chems pkgs (pkg s)) (nth 0 (all_rows (empty_all h s) o) [])); [exact I0|].
      cbn [fst]. eapply inv_struct; [| | |exact I0]; reflexivity.
    + apply TAIL.
  - destruct (xmiss (chems pkgs (pkg o)) (chems pkgs (pkg s)) (getrow (empty_all h s) (sdata o))); [exact I0|].
    cbn [fst]. eapply inv_struct; [| | |exact I0]; reflexivity.
Qed.

Lemma inv_copy_like h i s o same :
  Inv h -> nth_error (streams h) i = Some s -> Inv (fst (copy_like pkgs h i s o same)).
Proof.
  intros I Hs. unfold copy_like.
  destruct same; [exact I|].
  destruct (negb (Nat.eqb (pkg s) (pkg o))); [apply inv_copy_like_x; auto|].
  destruct (multi s) eqn:M; destruct (multi o) eqn:MO.
  - destruct (phases_eqb (phs s) (phs o)); [|exact I]. cbn [fst].
    destruct (copy_rows_like_struct h (rowrefs h s) (rowrefs h o)) as (A & B & C).
    eapply inv_struct; eauto.
  - destruct (map_rows_struct h (fun v => vzero (length v)) (rowrefs h s)) as (A0 & C0 & S0).
    unfold empty_all.
    destruct (pindex (phs s) (getbox h (pbox o))) as [k|].
    + destruct (nth_error (rowrefs (map_rows h (fun v => vzero (length v)) (rowrefs h s)) s) k); cbn [fst]; eapply inv_struct; eauto.
    + destruct (stream_shares_arr h i (sdata s)) eqn:NS; [exact I|].
      set (h0 := map_rows h (fun v => vzero (length v)) (rowrefs h s)) in *.
      pose proof (expand_rows_frame (nchem pkgs (pkg s)) (psort (getbox h (pbox o) :: phs s))
                    (combine (phs s) (getarr h0 (sdata s))) h0) as F.
      destruct (expand_rows h0 (nchem pkgs (pkg s)) (psort (getbox h (pbox o) :: phs s))
                  (combine (phs s) (getarr h0 (sdata s)))) as [rs h1]. cbn [fst snd] in F.
      destruct F as (FA & FC & FS).
      assert (G : forall h4, arrs h4 = upd (arrs h1) (sdata s) rs -> caches h4 = upd (caches h1) (cch s) cache0 ->
                  streams h4 = upd (streams h1) i (mkstream true (sdata s) (pbox s)
                                 (psort (getbox h (pbox o) :: phs s)) (pkg s) (cch s) (tc s)) -> Inv h4).
      { intros h4 A4 C4 S4. eapply (inv_expand h i s _ rs I Hs M NS).
        - rewrite A4, FA, A0. reflexivity.
        - rewrite C4, FC, C0. reflexivity.
        - rewrite S4, FS, S0. reflexivity. }
      destruct (pindex (psort (getbox h (pbox o) :: phs s)) (getbox h (pbox o))) as [k|].
      * destruct (nth_error rs k); cbn [fst]; apply G; reflexivity.
      * cbn [fst]. apply G; reflexivity.
  - assert (I0 : Inv (put_row h (sdata s) (vzero (length (getrow h (sdata s)))))) by (eapply inv_struct; eauto).
    assert (Hs0 : nth_error (streams (put_row h (sdata s) (vzero (length (getrow h (sdata s)))))) i = Some s) by exact Hs.
    destruct (phs o) as [|p [|q r]] eqn:PO.
    + pose proof (inv_single_to_multi _ i s [] I0 Hs0) as I1.
      destruct (single_to_multi pkgs (put_row h (sdata s) (vzero (length (getrow h (sdata s))))) i s []) as [h1 x]. cbn [fst] in I1.
      destruct x; try exact I1.
      destruct (nth_error (streams h1) i) as [s1|]; [|exact I1]. cbn [fst].
      destruct (copy_rows_like_struct h1 (rowrefs h1 s1) (rowrefs h1 o)) as (A & B & C).
      eapply inv_struct; [| | |exact I1]; simpl; auto.
    + cbn [fst]. eapply inv_struct; eauto.
    + pose proof (inv_single_to_multi _ i s (p :: q :: r) I0 Hs0) as I1.
      destruct (single_to_multi pkgs (put_row h (sdata s) (vzero (length (getrow h (sdata s))))) i s (p :: q :: r)) as [h1 x]. cbn [fst] in I1.
      destruct x; try exact I1.
      destruct (nth_error (streams h1) i) as [s1|]; [|exact I1]. cbn [fst].
      destruct (copy_rows_like_struct h1 (rowrefs h1 s1) (rowrefs h1 o)) as (A & B & C).
      eapply inv_struct; [| | |exact I1]; simpl; auto.
  - cbn [fst]. eapply inv_struct; eauto.
Qed.

(* ---------- reset_chemicals(new) ... reset_chemicals(old, container) ---------- *)
Lemma inv_extend h h' a c :
  Inv h -> streams h' = streams h -> arrs h' = arrs h ++ a -> caches h' = caches h ++ c -> Inv h'.
Proof.
  intros I S A C j s2 H2. rewrite S in H2.
  destruct (I j s2 H2) as ((WC & WA) & (VM & VV) & SH).
  assert (ES : srcs h' s2 = srcs h s2).
  { apply srcs_ext. intros M. unfold getarr. rewrite A. apply nth_app_lt. auto. }
  assert (EC : getcache h' (cch s2) = getcache h (cch s2)).
  { unfold getcache. rewrite C. apply nth_app_lt. auto. }
  split; [|split].
  - split. rewrite C, app_length. lia. intros M. rewrite A, app_length. specialize (WA M). lia.
  - unfold views_ok. rewrite EC. split; intros v Hv.
    + eapply mass_ok_ext; [exact ES|]. apply VM; auto.
    + intros Hq. eapply volT_ext; [exact ES|]. eapply VV; exact Hq.
  - rewrite S. exact SH.
Qed.

Lemma put_rows_struct l : forall h vals,
  arrs (put_rows h l vals) = arrs h /\ caches (put_rows h l vals) = caches h /\ streams (put_rows h l vals) = streams h.
Proof.
  induction l as [|d l IH]; intros h [|v vals]; simpl; auto.
  destruct (IH (put_row h d v) vals) as (A & B & C). simpl in *. auto.
Qed.

Lemma reset_none_shape h i s k :
  exists a s1, streams (fst (reset_chemicals pkgs h i s k None)) = upd (streams h) i s1 /\
    arrs (fst (reset_chemicals pkgs h i s k None)) = arrs h ++ a /\
    caches (fst (reset_chemicals pkgs h i s k None)) = caches h ++ [cache0] /\
    multi s1 = multi s /\ pbox s1 = pbox s /\ phs s1 = phs s /\ tc s1 = tc s /\
    snd (reset_chemicals pkgs h i s k None) = (sdata s, cch s).
Proof.
  unfold reset_chemicals. cbn [new_cache fst snd]. destruct (multi s) eqn:M.
  - frame_rows (set_caches h (caches h ++ [cache0]))
               (map (remap (chems pkgs (pkg s)) (chems pkgs k)) (all_rows h s)) rs h2.
    cbn [new_arr fst snd]. eexists [rs], _. simpl. rewrite FA, FC, FS. simpl.
    split; [reflexivity|]. repeat split; auto.
  - cbn [new_row fst snd]. eexists [], _. simpl. rewrite app_nil_r.
    split; [reflexivity|]. repeat split; auto.
Qed.

Lemma inv_round_trip h i s k :
  Inv h -> nth_error (streams h) i = Some s -> Inv (fst (round_trip pkgs h i s k)).
Proof.
  intros I Hs. unfold round_trip. destruct (Nat.eqb (pkg s) k); [exact I|].
  destruct (reset_none_shape h i s k) as (a & s1 & S1 & A1 & C1 & M1 & B1 & P1 & T1 & CONT).
  destruct (reset_chemicals pkgs h i s k None) as [h1 cont]. cbn [fst snd] in *. subst cont.
  assert (LI : (i < length (streams h))%nat) by (eapply nth_error_lt; eauto).
  rewrite S1, nth_error_upd_same by auto.
  assert (BACK : mkstream (multi s1) (sdata s) (pbox s1) (phs s1) (pkg s) (cch s) (tc s1) = s).
  { rewrite M1, B1, P1, T1. destruct s; reflexivity. }
  assert (I2 : Inv (put_stream h1 i s)).
  { eapply inv_extend with (h := h) (a := a) (c := [cache0]); eauto. simpl.
    rewrite S1, upd_upd. apply upd_same. exact Hs. }
  unfold reset_chemicals. rewrite BACK. cbn [fst].
  destruct (multi s1).
  - cbn [fst].
    destruct (put_rows_struct (getarr (put_stream h1 i s) (sdata s))
               (map_rows (put_stream h1 i s) (fun _ => vzero (nchem pkgs (pkg s))) (getarr (put_stream h1 i s) (sdata s)))
               (map (remap (chems pkgs (pkg s1)) (chems pkgs (pkg s))) (all_rows h1 s1))) as (A & B & C).
    destruct (map_rows_struct (put_stream h1 i s) (fun _ => vzero (nchem pkgs (pkg s)))
                (getarr (put_stream h1 i s) (sdata s))) as (A' & B' & C').
    eapply inv_struct; [| | |exact I2]; congruence.
  - cbn [fst]. eapply inv_struct; [| | |exact I2]; reflexivity.
Qed.

(* ---------- the view's own units API and views written with views ---------- *)
Lemma inv_touch_view h i s w : Inv h -> nth_error (streams h) i = Some s -> Inv (touch_view h s w).
Proof.
  intros I Hs. destruct w; simpl.
  - exact I.
  - destruct (inv_by_mass h i s I Hs) as (A & _). exact A.
  - eapply inv_store_vol; eauto. eapply by_volume_ok; eauto.
Qed.

Lemma xfer_vol_ok h vo vs pko pks : vv_pkg vo = pko -> vv_pkg vs = pks ->
  forall vals ro rs k, vrow_ok pko ro -> vrow_ok pks rs ->
  vrow_ok pko (snd (fst (xfer_vol Vf pkgs h vo vs ro rs k vals))) /\
  vrow_ok pks (snd (xfer_vol Vf pkgs h vo vs ro rs k vals)) /\
  vsrc (snd (fst (xfer_vol Vf pkgs h vo vs ro rs k vals))) = vsrc ro /\
  vsrc (snd (xfer_vol Vf pkgs h vo vs ro rs k vals)) = vsrc rs.
Proof.
  intros PO PS. induction vals as [|x t IH]; intros ro rs k OKo OKs.
  - simpl. auto.
  - cbn [xfer_vol]. destruct (qzerob x).
    + specialize (IH ro rs (S k) OKo OKs).
      destruct (xfer_vol Vf pkgs h vo vs ro rs (S k) t) as [[o ro'] rs']. exact IH.
    + destruct (vfactor_ok h vo ro k pko PO OKo) as (_ & FO & FS).
      destruct (vfactor Vf pkgs h vo ro k) as [Vo ro1]. cbn [fst snd] in *.
      destruct (vfactor_ok h vs rs k pks PS OKs) as (_ & FO' & FS').
      destruct (vfactor Vf pkgs h vs rs k) as [Vd rs1]. cbn [fst snd] in *.
      specialize (IH ro1 rs1 (S k) FO FO').
      destruct (xfer_vol Vf pkgs h vo vs ro1 rs1 (S k) t) as [[o ro'] rs']. cbn [fst snd] in *.
      destruct IH as (A & B & C & D). repeat split; auto; congruence.
Qed.

Lemma vol_ok_upd h s vv r x y :
  vol_ok h s vv -> nth_error (vv_rows vv) r = Some y -> vsrc x = vsrc y -> vrow_ok (pkg s) x ->
  vol_ok h s (mkvv (upd (vv_rows vv) r x) (vv_tp vv) (vv_pkg vv)).
Proof.
  intros (A & B & C & F) Hr E OK. repeat split; simpl; auto.
  - rewrite (map_vsrc_upd _ _ _ _ Hr E). exact A.
  - apply Forall_upd; auto.
Qed.

Lemma vol_ok_struct h h' s v : arrs h' = arrs h -> vol_ok h s v -> vol_ok h' s v.
Proof. intros A. apply vol_ok_ext. apply srcs_ext. intros _. unfold getarr. rewrite A. reflexivity. Qed.

Lemma inv_assign_view h i j s o w :
  Inv h -> nth_error (streams h) i = Some s -> nth_error (streams h) j = Some o ->
  Inv (fst (assign_view Vf MWf pkgs h s o w)).
Proof.
  intros I Hs Ho. unfold assign_view.
  destruct (multi s || multi o || negb (Nat.eqb (pkg s) (pkg o))); [exact I|].
  destruct w.
  - destruct (Nat.eqb (sdata s) (sdata o)); [exact I|]. cbn [fst]. eapply inv_struct; eauto.
  - destruct (inv_by_mass h j o I Ho) as (I1 & _ & _ & _ & S1 & _).
    destruct (by_mass h o) as [h1 mo]. cbn [fst snd] in *.
    assert (Hs1 : nth_error (streams h1) i = Some s) by congruence.
    destruct (inv_by_mass h1 i s I1 Hs1) as (I2 & _).
    destruct (by_mass h1 s) as [h2 ms]. cbn [fst snd] in *.
    destruct (Nat.eqb (cch s) (cch o)); [exact I2|].
    destruct (mv_rows ms) as [|[d sd] tl]; [exact I2|].
    destruct (mv_rows mo) as [|[e se] tl']; [exact I2|].
    cbn [fst]. eapply inv_struct; [| | |exact I2]; reflexivity.
  - pose proof (by_volume_ok h j o I Ho) as OKo.
    pose proof (inv_store_vol h j o _ I Ho OKo) as I1.
    set (vo := by_volume h o) in *. set (h1 := store_vol h o vo) in *.
    assert (Hs1 : nth_error (streams h1) i = Some s) by exact Hs.
    pose proof (by_volume_ok h1 i s I1 Hs1) as OKs.
    pose proof (inv_store_vol h1 i s _ I1 Hs1 OKs) as I2.
    set (vs := by_volume h1 s) in *. set (h2 := store_vol h1 s vs) in *.
    destruct (Nat.eqb (cch s) (cch o) && Nat.eqb (tc s) (tc o)); [exact I2|].
    destruct (vv_rows vs) as [|rs tl] eqn:RS; [exact I2|].
    destruct (vv_rows vo) as [|ro tl'] eqn:RO; [exact I2|].
    set (h3 := put_row h2 (vr_dct rs) (zero_like (getrow h2 (vr_dct rs)))).
    assert (I3 : Inv h3) by (eapply inv_struct; [| | |exact I2]; reflexivity).
    assert (OKro : vrow_ok (pkg o) ro).
    { destruct OKo as (_ & _ & _ & F). rewrite RO in F. inversion F; auto. }
    assert (OKrs : vrow_ok (pkg s) rs).
    { destruct OKs as (_ & _ & _ & F). rewrite RS in F. inversion F; auto. }
    assert (PO : vv_pkg vo = pkg o) by (destruct OKo as (_ & _ & C & _); exact C).
    assert (PS : vv_pkg vs = pkg s) by (destruct OKs as (_ & _ & C & _); exact C).
    destruct (xfer_vol_ok h3 vo vs (pkg o) (pkg s) PO PS (getrow h3 (vr_dct ro)) ro rs O OKro OKrs) as (A & B & C & D).
    destruct (xfer_vol Vf pkgs h3 vo vs ro rs 0 (getrow h3 (vr_dct ro))) as [[vals ro'] rs']. cbn [fst snd] in *.
    assert (OKo3 : vol_ok h3 o (mkvv (upd (ro :: tl') 0 ro') (vv_tp vo) (vv_pkg vo))).
    { rewrite <- RO. apply (vol_ok_upd h3 o vo 0 ro' ro); [eapply vol_ok_struct; [|exact OKo]; reflexivity | rewrite RO; reflexivity | exact C | exact A]. }
    pose proof (inv_store_vol h3 j o _ I3 Ho OKo3) as I4.
    assert (OKs4 : vol_ok (store_vol h3 o (mkvv (upd (ro :: tl') 0 ro') (vv_tp vo) (vv_pkg vo))) s
                          (mkvv (upd (rs :: tl) 0 rs') (vv_tp vs) (vv_pkg vs))).
    { rewrite <- RS. apply (vol_ok_upd _ s vs 0 rs' rs); [eapply vol_ok_struct; [|exact OKs]; reflexivity | rewrite RS; reflexivity | exact D | exact B]. }
    pose proof (inv_store_vol _ i s _ I4 Hs OKs4) as I5.
    cbn [fst]. eapply inv_struct; [| | |exact I5]; reflexivity.
Qed.

Lemma inv_copy_row_view h i s w r1 r2 :
  Inv h -> nth_error (streams h) i = Some s -> Inv (fst (copy_row_view Vf MWf pkgs h s w r1 r2)).
Proof.
  intros I Hs. unfold copy_row_view. destruct (negb (multi s)); [exact I|].
  destruct w.
  - destruct (nth_error (rowrefs h s) r1); [|exact I]. destruct (nth_error (rowrefs h s) r2); [|exact I].
    destruct (Nat.eqb r1 r2); [exact I|]. cbn [fst]. eapply inv_struct; eauto.
  - destruct (inv_by_mass h i s I Hs) as (I1 & _).
    destruct (by_mass h s) as [h1 mv]. cbn [fst snd] in *.
    destruct (nth_error (mv_rows mv) r1) as [[d sd]|]; [|exact I1].
    destruct (nth_error (mv_rows mv) r2) as [[e se]|]; [|exact I1].
    destruct (Nat.eqb r1 r2); [exact I1|]. cbn [fst]. eapply inv_struct; [| | |exact I1]; reflexivity.
  - pose proof (by_volume_ok h i s I Hs) as OK.
    pose proof (inv_store_vol h i s _ I Hs OK) as I1.
    set (vv := by_volume h s) in *. set (h1 := store_vol h s vv) in *.
    destruct (nth_error (vv_rows vv) r1) as [rd|] eqn:R1; [|exact I1].
    destruct (nth_error (vv_rows vv) r2) as [ro|] eqn:R2; [|exact I1].
    destruct (Nat.eqb r1 r2) eqn:Q; [exact I1|]. apply Nat.eqb_neq in Q.
    set (h2 := put_row h1 (vr_dct rd) (zero_like (getrow h1 (vr_dct rd)))).
    assert (I2 : Inv h2) by (eapply inv_struct; [| | |exact I1]; reflexivity).
    assert (PK : vv_pkg vv = pkg s) by (destruct OK as (_ & _ & C & _); exact C).
    assert (OKd : vrow_ok (pkg s) rd).
    { destruct OK as (_ & _ & _ & F). apply (proj1 (Forall_forall _ _) F). eapply nth_error_In; eauto. }
    assert (OKo : vrow_ok (pkg s) ro).
    { destruct OK as (_ & _ & _ & F). apply (proj1 (Forall_forall _ _) F). eapply nth_error_In; eauto. }
    destruct (xfer_vol_ok h2 vv vv (pkg s) (pkg s) PK PK (getrow h2 (vr_dct ro)) ro rd O OKo OKd) as (A & B & C & D).
    destruct (xfer_vol Vf pkgs h2 vv vv ro rd 0 (getrow h2 (vr_dct ro))) as [[vals ro'] rd']. cbn [fst snd] in *.
    assert (OK2 : vol_ok h2 s vv) by (eapply vol_ok_struct; [|exact OK]; reflexivity).
    pose proof (vol_ok_upd h2 s vv r2 ro' ro OK2 R2 C A) as OKa.
    assert (R1' : nth_error (vv_rows (mkvv (upd (vv_rows vv) r2 ro') (vv_tp vv) (vv_pkg vv))) r1 = Some rd).
    { simpl. rewrite nth_error_upd_other by auto. exact R1. }
    pose proof (vol_ok_upd h2 s _ r1 rd' rd OKa R1' D B) as OKb. simpl in OKb.
    pose proof (inv_store_vol h2 i s _ I2 Hs OKb) as I3.
    cbn [fst]. eapply inv_struct; [| | |exact I3]; reflexivity.
Qed.

(* ---------- the streams of the store are untouched by reads and writes ---------- *)
Lemma set_item_streams h s w r k v : streams (fst (set_item Vf MWf pkgs h s w r k v)) = streams h.
Proof.
  unfold set_item. destruct w.
  - destruct (nth_error (rowrefs h s) r); reflexivity.
  - unfold by_mass. destruct (c_mass (getcache h (cch s))); cbn [fst snd];
      match goal with |- context [nth_error ?l r] => destruct (nth_error l r) end; reflexivity.
  - destruct (nth_error (vv_rows (by_volume h s)) r) as [vr|]; [|reflexivity].
    destruct (qzerob v); [reflexivity|].
    destruct (vfactor Vf pkgs h (by_volume h s) vr k) as [V vr']. reflexivity.
Qed.

Ltac break_ifs := repeat match goal with
  | |- context [match ?x with _ => _ end] => destruct x
  | |- context [if ?c then _ else _] => destruct c
  end.

Lemma by_mass_streams h s : streams (fst (by_mass h s)) = streams h.
Proof. unfold by_mass. destruct (c_mass (getcache h (cch s))); reflexivity. Qed.
Lemma get_item_streams h s w r k : streams (fst (get_item Vf MWf pkgs h s w r k)) = streams h.
Proof.
  unfold get_item. destruct w.
  - destruct (nth_error (rowrefs h s) r); reflexivity.
  - pose proof (by_mass_streams h s) as B. destruct (by_mass h s) as [h1 v]. cbn [fst] in B.
    destruct (nth_error (mv_rows v) r); exact B.
  - destruct (nth_error (vv_rows (by_volume h s)) r) as [vr|]; [|reflexivity].
    destruct (qzerob (nthq (getrow h (vr_dct vr)) k)); [reflexivity|].
    destruct (vfactor Vf pkgs h (by_volume h s) vr k). reflexivity.
Qed.
Lemma read_mass_streams h s : streams (fst (read_mass MWf pkgs h s)) = streams h.
Proof. unfold read_mass. pose proof (by_mass_streams h s) as B. destruct (by_mass h s). exact B. Qed.
Lemma read_vol_streams h s : streams (fst (read_vol Vf pkgs h s)) = streams h.
Proof. unfold read_vol. destruct (read_vrows Vf pkgs h (by_volume h s) (vv_rows (by_volume h s))). reflexivity. Qed.
Lemma alias_flags_streams h s : streams (fst (alias_flags h s)) = streams h.
Proof. unfold alias_flags. pose proof (by_mass_streams h s) as B. destruct (by_mass h s). exact B. Qed.
Lemma map_rows_streams h f l : streams (map_rows h f l) = streams h.
Proof. apply map_rows_struct. Qed.
Lemma set_total_streams h s w v : streams (fst (set_total Vf MWf pkgs h s w v)) = streams h.
Proof.
  unfold set_total, scale_all, empty_all.
  destruct w; break_ifs; cbn [fst]; try reflexivity; apply map_rows_streams.
Qed.
(* ---------- Stream.reset_flow ---------- *)
Lemma set_items_streams h s w f fl : streams (set_items Vf MWf pkgs h s w f fl) = streams h.
Proof.
  revert h; induction fl as [|[k v] fl IH]; intros h; simpl; auto.
  rewrite IH. apply set_item_streams.
Qed.
Lemma inv_set_items h i s w f fl : Inv h -> nth_error (streams h) i = Some s -> Inv (set_items Vf MWf pkgs h s w f fl).
Proof.
  revert h; induction fl as [|[k v] fl IH]; intros h I Hs; simpl; auto.
  apply IH.
  - apply inv_set_item with (i := i); auto.
  - rewrite set_item_streams. exact Hs.
Qed.
Lemma reset_flow_pre_struct h s p :
  arrs (reset_flow_pre h s p) = arrs h /\ caches (reset_flow_pre h s p) = caches h /\ streams (reset_flow_pre h s p) = streams h.
Proof.
  unfold reset_flow_pre, empty_all.
  destruct (map_rows_struct h (fun v => vzero (length v)) (rowrefs h s)) as (A & B & C).
  destruct p; simpl; auto.
Qed.
Lemma inv_reset_flow_pre h s p : Inv h -> Inv (reset_flow_pre h s p).
Proof. intros I. destruct (reset_flow_pre_struct h s p) as (A & B & C). eapply inv_struct; eauto. Qed.

Lemma inv_reset_flow h i s p u tot fl :
  Inv h -> nth_error (streams h) i = Some s -> Inv (fst (reset_flow Vf MWf pkgs utab h s p u tot fl)).
Proof.
  intros I Hs. unfold reset_flow. destruct (multi s); [exact I|].
  pose proof (inv_reset_flow_pre h s p I) as I1.
  assert (Hs1 : nth_error (streams (reset_flow_pre h s p)) i = Some s).
  { destruct (reset_flow_pre_struct h s p) as (_ & _ & C). rewrite C. exact Hs. }
  assert (G : forall t, Inv (fst (match (match u with None => Some (VMol, 1) | Some uu => unit_of utab uu end) with
            | None => (reset_flow_pre h s p, XErr EDim)
            | Some (w, f) => match t with
                             | Some x => set_total Vf MWf pkgs (set_items Vf MWf pkgs (reset_flow_pre h s p) s w f fl) s w (x / f)
                             | None => (set_items Vf MWf pkgs (reset_flow_pre h s p) s w f fl, XNone) end end))).
  { intros t. destruct (match u with None => Some (VMol, 1) | Some uu => unit_of utab uu end) as [[w f]|]; [|exact I1].
    pose proof (inv_set_items _ i s w f fl I1 Hs1) as I2.
    destruct t as [x|]; [|exact I2]. apply inv_set_total with (i := i); [exact I2|rewrite set_items_streams; exact Hs1]. }
  destruct fl as [|kv fl']; [destruct (nonzero_opt tot) as [x|]; [apply (G (Some x))|exact I1]|apply G].
Qed.
Lemma reset_flow_streams h s p u tot fl : streams (fst (reset_flow Vf MWf pkgs utab h s p u tot fl)) = streams h.
Proof.
  unfold reset_flow. destruct (multi s); [reflexivity|].
  destruct (reset_flow_pre_struct h s p) as (_ & _ & C).
  assert (G : forall t, streams (fst (match (match u with None => Some (VMol, 1) | Some uu => unit_of utab uu end) with
            | None => (reset_flow_pre h s p, XErr EDim)
            | Some (w, f) => match t with
                             | Some x => set_total Vf MWf pkgs (set_items Vf MWf pkgs (reset_flow_pre h s p) s w f fl) s w (x / f)
                             | None => (set_items Vf MWf pkgs (reset_flow_pre h s p) s w f fl, XNone) end end)) = streams h).
  { intros t. destruct (match u with None => Some (VMol, 1) | Some uu => unit_of utab uu end) as [[w f]|]; [|exact C].
    destruct t as [x|]; [rewrite set_total_streams|cbn [fst]]; rewrite set_items_streams; exact C. }
  destruct fl as [|kv fl']; [destruct (nonzero_opt tot) as [x|]; [apply (G (Some x))|exact C]|apply G].
Qed.

(* ---------- MultiStream.from_streams ---------- *)
Lemma nth_error_map_seq {A B} (f : nat * A -> B) (l : list A) : forall b j,
  nth_error (map f (combine (seq b (length l)) l)) j = option_map (fun s => f ((b + j)%nat, s)) (nth_error l j).
Proof.
  induction l as [|x l IH]; intros b [|j]; simpl; auto.
  - rewrite Nat.add_0_r. reflexivity.
  - rewrite IH. replace (S b + j)%nat with (b + S j)%nat by lia. reflexivity.
Qed.

Lemma retc_self s : retc s (tc s) = s.
Proof. destruct s; reflexivity. Qed.

(* re-binding thermal-condition objects and appending a multi-phase stream over existing rows, with a new cache *)
Lemma inv_adopt h (al : list (list nat)) (g : nat -> stream -> stream) snew :
  Inv h -> (forall j s, exists t, g j s = retc s t) ->
  cch snew = length (caches h) -> (multi snew = true -> (sdata snew < length (arrs h ++ al))%nat) ->
  forall h', arrs h' = arrs h ++ al -> caches h' = caches h ++ [cache0] ->
  streams h' = map (fun js => g (fst js) (snd js)) (combine (seq O (length (streams h))) (streams h)) ++ [snew] ->
  Inv h'.
Proof.
  intros I G CS DS h' A C S.
  assert (LM : length (map (fun js => g (fst js) (snd js)) (combine (seq O (length (streams h))) (streams h))) = length (streams h)).
  { rewrite map_length, combine_length, seq_length. lia. }
  assert (OLD : forall j s2, (j < length (streams h))%nat -> nth_error (streams h') j = Some s2 ->
                exists s0 t, nth_error (streams h) j = Some s0 /\ s2 = retc s0 t).
  { intros j s2 L H. rewrite S, nth_error_app1 in H by lia. rewrite nth_error_map_seq in H. simpl in H.
    destruct (nth_error (streams h) j) as [s0|] eqn:E; simpl in H; [|discriminate]. inversion H.
    destruct (G j s0) as (t & Gt). exists s0, t. split; auto. }
  assert (NEW : forall j s2, (length (streams h) <= j)%nat -> nth_error (streams h') j = Some s2 -> j = length (streams h) /\ s2 = snew).
  { intros j s2 L H. rewrite S, nth_error_app2 in H by lia. rewrite LM in H.
    destruct (j - length (streams h))%nat as [|n] eqn:Q; simpl in H; [|destruct n; discriminate]. inversion H. split; auto. lia. }
  intros j s2 H2. destruct (Nat.lt_ge_cases j (length (streams h))) as [L|GE].
  - destruct (OLD j s2 L H2) as (s0 & t & H0 & E2). subst s2.
    destruct (I j s0 H0) as ((WC & WA) & (VM & VV) & SH).
    assert (ES : srcs h' (retc s0 t) = srcs h s0).
    { unfold srcs. cbn [retc multi sdata phs pbox]. destruct (multi s0) eqn:M; auto.
      unfold getarr. rewrite A. rewrite nth_app_lt by auto. reflexivity. }
    assert (EC : getcache h' (cch s0) = getcache h (cch s0)).
    { unfold getcache. rewrite C. apply nth_app_lt. auto. }
    split; [|split].
    + split; cbn [retc cch multi sdata]. rewrite C, app_length; simpl; lia.
      intros M. rewrite A, app_length. specialize (WA M). lia.
    + unfold views_ok. cbn [retc cch]. rewrite EC. split.
      * intros v Hv. destruct (VM v Hv) as (X & Y). split; [rewrite ES; exact X|exact Y].
      * intros t' v Hv. destruct (VV t' v Hv) as (X & Y & Z & F). split; [rewrite ES; exact X|split; [exact Y|split; [exact Z|exact F]]].
    + intros j' s3 H3 EQ. cbn [retc cch] in EQ.
      destruct (Nat.lt_ge_cases j' (length (streams h))) as [L'|GE'].
      * destruct (OLD j' s3 L' H3) as (s1 & t1 & H1 & E3). subst s3. cbn [retc cch] in EQ.
        destruct (SH j' s1 H1 EQ) as (D & M & K & PH & PB). repeat split; cbn [retc sdata multi pkg phs pbox]; auto.
      * destruct (NEW j' s3 GE' H3) as (_ & E3). subst s3. exfalso. lia.
  - destruct (NEW j s2 GE H2) as (Ej & E2). subst s2.
    split; [|split].
    + split. rewrite C, app_length; simpl; lia. intros M. rewrite A. apply DS. exact M.
    + unfold views_ok, getcache. rewrite C, CS, nth_middle. simpl. split; [intros v Hv|intros t v Hv]; discriminate.
    + intros j' s3 H3 EQ.
      destruct (Nat.lt_ge_cases j' (length (streams h))) as [L'|GE'].
      * destruct (OLD j' s3 L' H3) as (s1 & t1 & H1 & E3). subst s3. cbn [retc cch] in EQ.
        destruct (I j' s1 H1) as ((WC & _) & _). exfalso. lia.
      * destruct (NEW j' s3 GE' H3) as (_ & E3). subst s3. apply same_owner_refl.
Qed.

Lemma from_streams_cases h l :
  (fst (from_streams h l) = h /\ snd (from_streams h l) <> XNone) \/
  (snd (from_streams h l) = XNone /\
   exists a g snew, (forall j s, exists t, g j s = retc s t) /\ cch snew = length (caches h) /\
     sdata snew = length (arrs h) /\
     arrs (fst (from_streams h l)) = arrs h ++ [a] /\ caches (fst (from_streams h l)) = caches h ++ [cache0] /\
     rows (fst (from_streams h l)) = rows h /\
     streams (fst (from_streams h l)) =
       map (fun js => g (fst js) (snd js)) (combine (seq O (length (streams h))) (streams h)) ++ [snew]).
Proof.
  unfold from_streams. destruct l as [|b others]; [left; split; [reflexivity|discriminate]|].
  destruct (get_streams h (b :: others)) as [ss|]; [|left; split; [reflexivity|discriminate]].
  destruct ss as [|sb ss']; [left; split; [reflexivity|discriminate]|].
  destruct (existsb multi (sb :: ss') || existsb (fun s => negb (Nat.eqb (pkg s) (pkg sb))) (sb :: ss'));
    [left; split; [reflexivity|discriminate]|].
  match goal with |- context [if ?c then _ else _] => destruct c end; [left; split; [reflexivity|discriminate]|].
  right. cbn [new_arr new_cache fst snd]. split; [reflexivity|].
  exists (map (fun p => match find (fun s => phase_eqb (getbox h (pbox s)) p) (sb :: ss') with Some s => sdata s | None => O end)
              (psort (map (fun s => getbox h (pbox s)) (sb :: ss')))),
         (fun j s => if existsb (Nat.eqb j) others then retc s (tc sb) else s),
         (mkstream true (length (arrs h)) O (psort (map (fun s => getbox h (pbox s)) (sb :: ss'))) (pkg sb) (length (caches h)) (tc sb)).
  split; [|repeat split; reflexivity].
  intros j s. destruct (existsb (Nat.eqb j) others); [exists (tc sb); reflexivity|exists (tc s); symmetry; apply retc_self].
Qed.

Lemma inv_from_streams h l : Inv h -> Inv (fst (from_streams h l)).
Proof.
  intros I. destruct (from_streams_cases h l) as [(E & _)|(_ & a & g & snew & G & CS & DS & A & C & _ & S)].
  - rewrite E. exact I.
  - eapply (inv_adopt h [a]); eauto. intros _. rewrite DS, app_length. simpl. lia.
Qed.

(* ---------- every operation keeps the invariant; so does every history ---------- *)
Lemma inv_step h o : Inv h -> Inv (fst (step Vf MWf pkgs utab h o)).
Proof.
  intros I. unfold step.
  destruct o as [ |i w|i w|i|i u r k|i u r k v|i u|i u v|i w r k v|i w v|i v|i v|i p|i l|i j f p t|i|i j|i k|i k|i w u r k|i w u r k v|i j w|i w r1 r2|fl|i rp ru rt rfl|i r|i|i mt mu ml mpf];
    try exact I; try (apply inv_from_streams; exact I);
    (destruct (nth_error (streams h) i) as [s|] eqn:Hs; [|exact I]).
  - destruct w; [exact I| |].
    + pose proof (inv_read_mass h i s I Hs) as X. destruct (read_mass MWf pkgs h s). exact X.
    + pose proof (inv_read_vol h i s I Hs) as X. destruct (read_vol Vf pkgs h s). exact X.
  - exact I.
  - pose proof (inv_alias_flags h i s I Hs) as X. destruct (alias_flags h s). exact X.
  - destruct (unit_of utab u) as [[w f]|]; [|exact I]. unfold lift.
    pose proof (inv_get_item h i s w r k I Hs) as X.
    destruct (get_item Vf MWf pkgs h s w r k) as [h1 [x|e]]; exact X.
  - destruct (unit_of utab u) as [[w f]|]; [|exact I]. apply inv_set_item with (i := i); auto.
  - destruct (unit_of utab u) as [[w f]|]; exact I.
  - destruct (unit_of utab u) as [[w f]|]; [|exact I]. apply inv_set_total with (i := i); auto.
  - apply inv_set_item with (i := i); auto.
  - apply inv_set_total with (i := i); auto.
  - cbn [fst]. eapply inv_struct; eauto.
  - cbn [fst]. eapply inv_struct; eauto.
  - apply inv_set_phase; auto.
  - apply inv_set_phases; auto.
  - destruct (nth_error (streams h) j) as [o|] eqn:Ho; [|exact I].
    destruct (Nat.eqb i j) eqn:Q; [exact I|]. apply Nat.eqb_neq in Q.
    apply inv_link; auto. exists j. split; auto.
  - apply inv_unlink; auto.
  - destruct (nth_error (streams h) j) as [o|]; [|exact I]. apply inv_copy_like; auto.
  - apply inv_reset_thermo; auto.
  - apply inv_round_trip; auto.
  - destruct (conv utab w u) as [f|e].
    + unfold lift. pose proof (inv_get_item h i s w r k I Hs) as X.
      destruct (get_item Vf MWf pkgs h s w r k) as [h1 [x|e]]; exact X.
    + cbn [fst]. apply inv_touch_view with (i := i); auto.
  - destruct (conv utab w u) as [f|e].
    + apply inv_set_item with (i := i); auto.
    + cbn [fst]. apply inv_touch_view with (i := i); auto.
  - destruct (nth_error (streams h) j) as [o|] eqn:Ho; [|exact I].
    destruct (Nat.eqb i j); [exact I|]. apply inv_assign_view with (i := i) (j := j); auto.
  - apply inv_copy_row_view with (i := i); auto.
  - apply inv_reset_flow with (i := i); auto.
  - cbn [fst]. destruct (map_rows_struct h (fun v => vzero (length v)) (rowrefs h s)) as (A0 & C0 & S0).
    unfold empty_all. eapply inv_struct; eauto.
Qed.

Lemma inv_run ops : forall h, Inv h -> Inv (fst (run Vf MWf pkgs utab h ops)).
Proof.
  induction ops as [|o ops IH]; intros h I; simpl; auto.
  pose proof (inv_step h o I) as I1. destruct (step Vf MWf pkgs utab h o) as [h1 x]. cbn [fst] in I1.
  specialize (IH h1 I1). destruct (run Vf MWf pkgs utab h1 ops) as [h2 xs]. exact IH.
Qed.

Lemma inv_heap0 : Inv heap0.
Proof. intros [|i] s H; discriminate. Qed.

Lemma inv_add_stream h x : Inv h -> Inv (add_stream h x).
Proof.
  intros I. destruct x as [k p T P flow|k l T P flow]; unfold add_stream.
  - cbn [new_row new_box new_cache new_tp fst snd].
    intros j s2 H2. simpl in H2.
    assert (OLDI : Inv (mkheap (rows h ++ [flow]) (arrs h) (tps h ++ [(T, P)]) (boxes h ++ [p]) (caches h ++ [cache0]) (streams h))).
    { eapply inv_extend with (h := h) (a := []) (c := [cache0]); eauto. simpl. rewrite app_nil_r. reflexivity. }
    destruct (Nat.lt_ge_cases j (length (streams h))) as [L|G].
    + rewrite nth_error_app1 in H2 by auto.
      destruct (OLDI j s2 H2) as (W & V & SH). split; [exact W|split; [exact V|]].
      intros j' s3 H3 EQ. simpl in H3.
      destruct (Nat.lt_ge_cases j' (length (streams h))) as [L'|G'].
      * rewrite nth_error_app1 in H3 by auto. eapply SH; eauto.
      * rewrite nth_error_app2 in H3 by auto.
        destruct (j' - length (streams h))%nat as [|n]; simpl in H3; [|destruct n; discriminate].
        inversion H3; subst s3. simpl in EQ. destruct (I j s2 H2) as ((WC & _) & _). lia.
    + rewrite nth_error_app2 in H2 by auto.
      destruct (j - length (streams h))%nat as [|n]; simpl in H2; [|destruct n; discriminate].
      inversion H2; subst s2. split; [|split].
      * split; simpl. rewrite app_length; simpl; lia. discriminate.
      * unfold views_ok, getcache; simpl. rewrite nth_middle. simpl. split; intros v Hv; discriminate.
      * intros j' s3 H3 EQ. simpl in H3, EQ.
        destruct (Nat.lt_ge_cases j' (length (streams h))) as [L'|G'].
        -- rewrite nth_error_app1 in H3 by auto. destruct (I j' s3 H3) as ((WC & _) & _). lia.
        -- rewrite nth_error_app2 in H3 by auto.
           destruct (j' - length (streams h))%nat as [|n]; simpl in H3; [|destruct n; discriminate].
           inversion H3. apply same_owner_refl.
  - frame_rows h flow rs h1. cbn [new_arr new_cache new_tp fst snd].
    intros j s2 H2. simpl in H2. rewrite FS in H2.
    assert (OLDI : Inv (mkheap (rows h1) (arrs h1 ++ [rs]) (tps h1 ++ [(T, P)]) (boxes h1) (caches h1 ++ [cache0]) (streams h))).
    { eapply inv_extend with (h := h) (a := [rs]) (c := [cache0]); eauto; simpl; congruence. }
    destruct (Nat.lt_ge_cases j (length (streams h))) as [L|G].
    + rewrite nth_error_app1 in H2 by auto.
      destruct (OLDI j s2 H2) as (W & V & SH). split; [exact W|split; [exact V|]].
      intros j' s3 H3 EQ. simpl in H3. rewrite FS in H3.
      destruct (Nat.lt_ge_cases j' (length (streams h))) as [L'|G'].
      * rewrite nth_error_app1 in H3 by auto. eapply SH; eauto.
      * rewrite nth_error_app2 in H3 by auto.
        destruct (j' - length (streams h))%nat as [|n]; simpl in H3; [|destruct n; discriminate].
        inversion H3; subst s3. simpl in EQ. destruct (I j s2 H2) as ((WC & _) & _). rewrite FC in EQ. lia.
    + rewrite nth_error_app2 in H2 by auto.
      destruct (j - length (streams h))%nat as [|n]; simpl in H2; [|destruct n; discriminate].
      inversion H2; subst s2. split; [|split].
      * split; simpl. rewrite app_length; simpl; lia. intros _. rewrite app_length; simpl; lia.
      * unfold views_ok, getcache; simpl. rewrite nth_middle. simpl. split; intros v Hv; discriminate.
      * intros j' s3 H3 EQ. simpl in H3, EQ. rewrite FS in H3.
        destruct (Nat.lt_ge_cases j' (length (streams h))) as [L'|G'].
        -- rewrite nth_error_app1 in H3 by auto. destruct (I j' s3 H3) as ((WC & _) & _). rewrite FC in EQ. lia.
        -- rewrite nth_error_app2 in H3 by auto.
           destruct (j' - length (streams h))%nat as [|n]; simpl in H3; [|destruct n; discriminate].
           inversion H3. apply same_owner_refl.
Qed.

Lemma inv_build l : Inv (build l).
Proof.
  unfold build. assert (G : forall h, Inv h -> Inv (fold_left add_stream l h)).
  { induction l as [|x l IH]; intros h I; simpl; auto. apply IH. apply inv_add_stream. exact I. }
  apply G. apply inv_heap0.
Qed.

(* ---------- what the views return ---------- *)
Lemma nth_error_map_inv {A B} (f : A -> B) l n y :
  nth_error (map f l) n = Some y -> exists x, nth_error l n = Some x /\ f x = y.
Proof.
  revert n; induction l as [|a l IH]; intros [|n] H; simpl in *; try discriminate.
  - inversion H. eauto.
  - eauto.
Qed.
Lemma nth_map_some {A B} (f : A -> B) l n x d : nth_error l n = Some x -> nth n (map f l) d = f x.
Proof.
  revert n; induction l as [|a l IH]; intros [|n] H; simpl in *; try discriminate.
  - inversion H; auto.
  - auto.
Qed.

Lemma vol_get_lemma h i s :
  Inv h -> nth_error (streams h) i = Some s ->
  forall n d src, nth_error (srcs h s) n = Some (d, src) -> forall j,
  exists T' P', near T' (fst (gettp h (tc s))) /\ near P' (snd (gettp h (tc s))) /\
    nthq (nth n (snd (read_vol Vf pkgs h s)) []) j
    == nthq (getrow h d) j * (1000 * Vf (gid pkgs (pkg s) j) (base (src_phase h src)) T' P').
Proof.
  intros I Hs n d src Hn j. unfold read_vol.
  destruct (by_volume_ok h i s I Hs) as (A & B & C & F).
  destruct (read_vrows_ok h (by_volume h s) (pkg s) C _ F) as (_ & _ & V).
  rewrite <- A in Hn. apply nth_error_map_inv in Hn. destruct Hn as (r & Hr & Er).
  destruct (V n r Hr j) as (T' & P' & NT & NP & VV).
  destruct (read_vrows Vf pkgs h (by_volume h s) (vv_rows (by_volume h s))) as [m rs]. cbn [fst snd] in *.
  unfold cur_T, cur_P in NT, NP. rewrite B in NT, NP.
  exists T', P'. split; [exact NT|split; [exact NP|]].
  rewrite VV. unfold Vat. unfold vsrc in Er. inversion Er; subst. reflexivity.
Qed.

Lemma mass_get_lemma h i s :
  Inv h -> nth_error (streams h) i = Some s ->
  forall n d src, nth_error (srcs h s) n = Some (d, src) ->
  length (getrow h d) = length (mwvec MWf pkgs (pkg s)) -> forall j,
    nthq (nth n (snd (read_mass MWf pkgs h s)) []) j == nthq (getrow h d) j * nthq (mwvec MWf pkgs (pkg s)) j.
Proof.
  intros I Hs n d src Hn L j. unfold read_mass.
  destruct (inv_by_mass h i s I Hs) as (_ & (A & B) & R & _).
  destruct (by_mass h s) as [h1 v]. cbn [fst snd] in *.
  rewrite <- A in Hn. rewrite (nth_map_some _ _ _ _ _ Hn). cbn [fst].
  unfold mass_of, getrow. rewrite R, B. apply nthq_vmul. exact L.
Qed.

Lemma nthq_map_Qred l k : nthq (map Qred l) k == nthq l k.
Proof.
  revert k; induction l as [|a l IH]; intros [|k]; unfold nthq in *; simpl; try reflexivity.
  - apply Qred_correct.
  - apply IH.
Qed.

Lemma getrow_put_item_eq h d k x :
  (d < length (rows h))%nat -> (k < length (getrow h d))%nat -> nthq (getrow (put_item h d k x) d) k == x.
Proof.
  intros D K. unfold put_item, put_row, getrow; simpl. rewrite nth_upd_eq by auto.
  rewrite nthq_map_Qred. rewrite nth_upd_same by exact K. reflexivity.
Qed.
Lemma getrow_put_item_other h d k x d' k' :
  (d', k') <> (d, k) -> nthq (getrow (put_item h d k x) d') k' == nthq (getrow h d') k'.
Proof.
  intros N. unfold put_item, put_row, getrow; simpl.
  destruct (Nat.eq_dec d d') as [E|NE].
  - subst d'. destruct (Nat.lt_ge_cases d (length (rows h))) as [L|G].
    + rewrite nth_upd_eq by auto. rewrite nthq_map_Qred. rewrite nth_upd_other; [reflexivity|congruence].
    + assert (U : upd (rows h) d (map Qred (upd (nth d (rows h) []) k x)) = rows h).
      { clear - G. revert d G. induction (rows h) as [|a l IH]; intros [|d] G; simpl in *; auto; try lia. f_equal. apply IH. lia. }
      rewrite U. reflexivity.
  - rewrite nth_upd_neq by auto. reflexivity.
Qed.

Lemma mass_set_lemma h i s r k v d src :
  Inv h -> nth_error (streams h) i = Some s -> nth_error (srcs h s) r = Some (d, src) ->
  (d < length (rows h))%nat -> (k < length (getrow h d))%nat ->
  snd (set_item Vf MWf pkgs h s VMass r k v) = XNone /\
  nthq (getrow (fst (set_item Vf MWf pkgs h s VMass r k v)) d) k == v / MWf (gid pkgs (pkg s) k) /\
  forall d' k', (d', k') <> (d, k) ->
    nthq (getrow (fst (set_item Vf MWf pkgs h s VMass r k v)) d') k' == nthq (getrow h d') k'.
Proof.
  intros I Hs Hr D K. unfold set_item.
  destruct (inv_by_mass h i s I Hs) as (_ & (A & B) & R & _).
  destruct (by_mass h s) as [h1 mv]. cbn [fst snd] in *.
  rewrite <- A in Hr. rewrite Hr. cbn [fst snd]. rewrite B.
  assert (G : forall d0, getrow h1 d0 = getrow h d0) by (intros; unfold getrow; rewrite R; reflexivity).
  split; [reflexivity|split].
  - apply getrow_put_item_eq. rewrite R; auto. rewrite G; auto.
  - intros d' k' N. rewrite getrow_put_item_other by auto. rewrite G. reflexivity.
Qed.

(* totals *)
Lemma qsum_vmul_comm a : forall b, qsum (vmul a b) == qsum (vmul b a).
Proof.
  induction a as [|x a IH]; intros [|y b]; simpl; try reflexivity.
  unfold vmul in *. simpl. rewrite IH. lra.
Qed.
Lemma F_mass_is_sum h s :
  F_mass MWf pkgs h s == qsum (map (fun r => qsum (mass_of MWf pkgs (pkg s) r)) (all_rows h s)).
Proof.
  unfold F_mass. induction (all_rows h s) as [|r l IH]; simpl; [reflexivity|].
  rewrite IH. unfold vdot, mass_of. rewrite qsum_vmul_comm. reflexivity.
Qed.

(* scaling keeps the composition: every entry of every row is multiplied by the same number *)
Lemma map_rows_scale k l : NoDup l -> forall h d, In d l -> (d < length (rows h))%nat ->
  forall j, nthq (getrow (map_rows h (vscale k) l) d) j == k * nthq (getrow h d) j.
Proof.
  induction l as [|a l IH]; intros ND h d IN L j; simpl in *; [contradiction|].
  inversion ND as [|? ? NI ND']; subst.
  assert (KEEP : forall l' h' x, ~ In x l' -> getrow (map_rows h' (vscale k) l') x = getrow h' x).
  { induction l' as [|b l' IH']; intros h' x NX; simpl; auto.
    rewrite IH' by (intros Q; apply NX; right; exact Q).
    unfold getrow, put_row; simpl. apply nth_upd_neq. intros Q. apply NX. left. exact Q. }
  destruct IN as [E|IN].
  - subst a. rewrite KEEP by auto. unfold getrow, put_row; simpl. rewrite nth_upd_eq by auto.
    rewrite nthq_map_Qred. apply nthq_vscale.
  - rewrite IH; auto.
    + assert (NE : a <> d) by (intros Q; subst; contradiction).
      unfold getrow, put_row; simpl. rewrite nth_upd_neq by auto. reflexivity.
    + unfold put_row; simpl. rewrite upd_length. exact L.
Qed.

(* ---------- F_vol is the sum of the volumetric view ---------- *)
Lemma vol_row_sum F (f : nat -> Q) : ~ F == 0 -> forall (r : vec) (c : list nat),
  1000 * qsum (map2 (fun z g => z * f g) (vdivs r F) c) * F == qsum (map2 (fun m g => m * (1000 * f g)) r c).
Proof.
  intros NZ. induction r as [|x r IH]; intros [|g c]; simpl; try ring.
  rewrite <- IH. unfold vdivs. field. exact NZ.
Qed.

Lemma F_vol_is_sum h s : ~ F_mol h s == 0 ->
  F_vol Vf pkgs h s ==
  qsum (map (fun x => qsum (map2 (fun m g => m * (1000 * Vf g (base (fst x))
                                                     (fst (gettp h (tc s))) (snd (gettp h (tc s)))))
                                 (snd x) (chems pkgs (pkg s))))
            (combine (cur_phases h s) (all_rows h s))).
Proof.
  intros NZ. unfold F_vol. rewrite (proj2 (qzerob_false _) NZ). unfold vmix, vmix_key, key_of. cbn [k_rows k_T k_P].
  set (F := F_mol h s) in *. set (T := fst (gettp h (tc s))). set (P := snd (gettp h (tc s))).
  generalize (all_rows h s). generalize (cur_phases h s).
  induction l as [|p l IH]; intros [|r rows]; simpl; try ring.
  rewrite <- IH.
  rewrite <- (vol_row_sum F (fun g => Vf g (base p) T P) NZ r (chems pkgs (pkg s))).
  ring.
Qed.

(* ---------- writing through a view and reading the same item back ---------- *)
Lemma nth_error_srcs_rowrefs h s r d src :
  nth_error (srcs h s) r = Some (d, src) -> nth_error (rowrefs h s) r = Some d.
Proof.
  unfold srcs, rowrefs. destruct (multi s).
  - generalize (map Fixed (phs s)). generalize (getarr h (sdata s)). intros l. revert r.
    induction l as [|a l IH]; intros r [|b m] H; destruct r; simpl in *; try discriminate.
    + inversion H; auto.
    + eapply IH; eauto.
  - destruct r as [|[|r]]; simpl; intros H; inversion H; auto.
Qed.

Lemma by_mass_cached h s : (cch s < length (caches h))%nat ->
  c_mass (getcache (fst (by_mass h s)) (cch s)) = Some (snd (by_mass h s)).
Proof.
  intros L. unfold by_mass. destruct (c_mass (getcache h (cch s))) as [v|] eqn:E; simpl; auto.
  rewrite getcache_put_eq by auto. reflexivity.
Qed.

Lemma by_volume_store h s v : (cch s < length (caches h))%nat -> by_volume (store_vol h s v) s = v.
Proof.
  intros L. unfold by_volume, store_vol. rewrite getcache_put_eq by auto. simpl.
  rewrite vol_find_put_eq. reflexivity.
Qed.

Lemma in_equilibrium_refl T P : in_equilibrium T P T P = true.
Proof. unfold in_equilibrium. rewrite !qltb_refl_near. reflexivity. Qed.

Lemma vfactor_again h h2 vv vv2 r k :
  tps h2 = tps h -> boxes h2 = boxes h -> vv_tp vv2 = vv_tp vv -> vv_pkg vv2 = vv_pkg vv ->
  vfactor Vf pkgs h2 vv2 (snd (vfactor Vf pkgs h vv r k)) k = vfactor Vf pkgs h vv r k.
Proof.
  intros ET EB E1 E2. unfold vfactor. rewrite E1, E2.
  assert (G : gettp h2 (vv_tp vv) = gettp h (vv_tp vv)) by (unfold gettp; rewrite ET; reflexivity).
  assert (B : forall x, src_phase h2 x = src_phase h x) by (intros [p|b]; simpl; auto; unfold getbox; rewrite EB; reflexivity).
  rewrite G.
  set (T := fst (gettp h (vv_tp vv))). set (P := snd (gettp h (vv_tp vv))).
  destruct (memo_get k (vr_memo r)) as [e|] eqn:M.
  - destruct (phase_eqb (me_ph e) (src_phase h (vr_src r)) && in_equilibrium (me_T e) (me_P e) T P) eqn:C;
      cbn [fst snd vr_memo vr_src vr_dct]; rewrite B.
    + rewrite M, C. reflexivity.
    + cbn [memo_get]. rewrite Nat.eqb_refl. cbn [me_ph me_T me_P me_V].
      rewrite phase_eqb_refl, in_equilibrium_refl. reflexivity.
  - cbn [fst snd vr_memo vr_src vr_dct]. rewrite B. cbn [memo_get]. rewrite Nat.eqb_refl.
    cbn [me_ph me_T me_P me_V]. rewrite phase_eqb_refl, in_equilibrium_refl. reflexivity.
Qed.

Hypothesis MW_nonzero : forall g, ~ MWf g == 0.
Hypothesis Vf_nonzero : forall g p T P, ~ Vf g p T P == 0.

Lemma set_get_item h i s w r k v d src :
  Inv h -> nth_error (streams h) i = Some s -> nth_error (srcs h s) r = Some (d, src) ->
  (d < length (rows h))%nat -> (k < length (getrow h d))%nat ->
  snd (set_item Vf MWf pkgs h s w r k v) = XNone /\
  exists h2 x, get_item Vf MWf pkgs (fst (set_item Vf MWf pkgs h s w r k v)) s w r k = (h2, Ok x) /\ x == v.
Proof.
  intros I Hs Hr D K.
  destruct (I i s Hs) as ((WC & WA) & _ & _).
  destruct w.
  - (* molar data *)
    pose proof (nth_error_srcs_rowrefs h s r d src Hr) as RR.
    unfold set_item. rewrite RR. cbn [fst snd]. split; [reflexivity|].
    unfold get_item. change (rowrefs (put_item h d k v) s) with (rowrefs h s). rewrite RR.
    eexists _, _. split; [reflexivity|]. apply getrow_put_item_eq; auto.
  - (* mass view *)
    unfold set_item.
    destruct (inv_by_mass h i s I Hs) as (_ & (A & B) & R & _).
    pose proof (by_mass_cached h s WC) as CM.
    destruct (by_mass h s) as [h1 mv] eqn:BM. cbn [fst snd] in *.
    rewrite <- A in Hr. rewrite Hr. cbn [fst snd]. split; [reflexivity|].
    unfold get_item.
    assert (BM2 : by_mass (put_item h1 d k (v / MWf (gid pkgs (mv_pkg mv) k))) s
                  = (put_item h1 d k (v / MWf (gid pkgs (mv_pkg mv) k)), mv)).
    { unfold by_mass.
      change (getcache (put_item h1 d k (v / MWf (gid pkgs (mv_pkg mv) k))) (cch s)) with (getcache h1 (cch s)).
      rewrite CM. reflexivity. }
    rewrite BM2, Hr. cbn [fst].
    eexists _, _. split; [reflexivity|].
    rewrite getrow_put_item_eq.
    + field. apply MW_nonzero.
    + rewrite R; auto.
    + unfold getrow. rewrite R. exact K.
  - (* volumetric view *)
    unfold set_item.
    destruct (by_volume_ok h i s I Hs) as (A & B & C & F).
    rewrite <- A in Hr. apply nth_error_map_inv in Hr. destruct Hr as (vr & Hvr & Evr).
    rewrite Hvr.
    assert (DV : vr_dct vr = d) by (unfold vsrc in Evr; inversion Evr; auto).
    assert (LR : (r < length (vv_rows (by_volume h s)))%nat) by (eapply nth_error_lt; eauto).
    destruct (qzerob v) eqn:Z.
    + cbn [fst snd]. split; [reflexivity|]. unfold get_item.
      change (by_volume (put_item (store_vol h s (by_volume h s)) (vr_dct vr) k 0) s)
        with (by_volume (store_vol h s (by_volume h s)) s).
      rewrite by_volume_store by auto. rewrite Hvr.
      assert (X0 : nthq (getrow (put_item (store_vol h s (by_volume h s)) (vr_dct vr) k 0) (vr_dct vr)) k == 0).
      { rewrite DV. apply getrow_put_item_eq; auto. }
      rewrite (proj2 (qzerob_true _) X0).
      eexists _, _. split; [reflexivity|]. apply qzerob_true in Z. rewrite Z. reflexivity.
    + assert (OKr : vrow_ok (pkg s) vr).
      { apply (proj1 (Forall_forall _ _) F). eapply nth_error_In; eauto. }
      destruct (vfactor_ok h (by_volume h s) vr k (pkg s) C OKr) as ((T' & P' & _ & _ & FV) & _ & FS).
      pose proof (vfactor_again h
                    (put_item (store_vol h s (mkvv (upd (vv_rows (by_volume h s)) r (snd (vfactor Vf pkgs h (by_volume h s) vr k)))
                                                  (vv_tp (by_volume h s)) (vv_pkg (by_volume h s))))
                              (vr_dct vr) k (v / fst (vfactor Vf pkgs h (by_volume h s) vr k)))
                    (by_volume h s)
                    (mkvv (upd (vv_rows (by_volume h s)) r (snd (vfactor Vf pkgs h (by_volume h s) vr k)))
                          (vv_tp (by_volume h s)) (vv_pkg (by_volume h s)))
                    vr k eq_refl eq_refl eq_refl eq_refl) as AG.
      destruct (vfactor Vf pkgs h (by_volume h s) vr k) as [V vr'] eqn:EV. cbn [fst snd] in *.
      split; [reflexivity|]. unfold get_item.
      set (vv' := mkvv (upd (vv_rows (by_volume h s)) r vr') (vv_tp (by_volume h s)) (vv_pkg (by_volume h s))) in *.
      change (by_volume (put_item (store_vol h s vv') (vr_dct vr) k (v / V)) s)
        with (by_volume (store_vol h s vv') s).
      rewrite by_volume_store by auto.
      assert (Hvr' : nth_error (vv_rows vv') r = Some vr') by (unfold vv'; simpl; apply nth_error_upd_same; auto).
      rewrite Hvr'.
      assert (DV' : vr_dct vr' = vr_dct vr) by (unfold vsrc in FS; inversion FS; auto).
      rewrite DV'.
      assert (VNZ : ~ V == 0).
      { rewrite FV. unfold Vat. intros Q0. apply (Vf_nonzero (gid pkgs (pkg s) k) (base (src_phase h (vr_src vr))) T' P'). lra. }
      assert (X1 : nthq (getrow (put_item (store_vol h s vv') (vr_dct vr) k (v / V)) (vr_dct vr)) k == v / V).
      { rewrite DV. apply getrow_put_item_eq; auto. }
      assert (XNZ : ~ nthq (getrow (put_item (store_vol h s vv') (vr_dct vr) k (v / V)) (vr_dct vr)) k == 0).
      { rewrite X1. intros Q0. apply qzerob_false in Z. apply Z.
        assert (E : v == (v / V) * V) by (field; exact VNZ). rewrite E, Q0. ring. }
      rewrite (proj2 (qzerob_false _) XNZ). rewrite AG.
      eexists _, _. split; [reflexivity|]. rewrite X1. field. exact VNZ.
Qed.

(* ====================================================================================
   State kept between calls outside the indexers: units caches and the property memo
   ==================================================================================== *)
Lemma cfactor_uh U w u : uh (fst (cfactor utab U w u)) = uh U /\ u_pm (fst (cfactor utab U w u)) = u_pm U.
Proof. unfold cfactor. destruct (fac_find w u (u_fac U)); auto. destruct (conv utab w u); auto. Qed.
Lemma flow_lookup_uh U u : uh (fst (flow_lookup utab U u)) = uh U /\ u_pm (fst (flow_lookup utab U u)) = u_pm U.
Proof.
  unfold flow_lookup. destruct (flow_find u (u_flow U)); auto. destruct (dim_of utab u); auto.
  destruct (cfactor_uh U v u) as (A & B). destruct (cfactor utab U v u) as [U1 [f|e]]; simpl in *; auto.
Qed.
Lemma F_volU_uh U i s : uh (fst (F_volU Vf pkgs U i s)) = uh U /\ u_flow (fst (F_volU Vf pkgs U i s)) = u_flow U
  /\ u_fac (fst (F_volU Vf pkgs U i s)) = u_fac U.
Proof.
  unfold F_volU. destruct (qzerob (F_mol (uh U) s)); auto.
  destruct (pm_get U i) as [[k' v]|]; auto. destruct (pkey_eqb k' (key_of (uh U) s)); auto.
Qed.
Lemma totalU_uh U i s w : uh (fst (totalU Vf MWf pkgs U i s w)) = uh U /\ u_flow (fst (totalU Vf MWf pkgs U i s w)) = u_flow U
  /\ u_fac (fst (totalU Vf MWf pkgs U i s w)) = u_fac U.
Proof. destruct w; simpl; auto. apply F_volU_uh. Qed.

Lemma inv_set_totalU U i s w v :
  Inv (uh U) -> nth_error (streams (uh U)) i = Some s -> Inv (uh (fst (set_totalU Vf MWf pkgs U i s w v))).
Proof.
  intros I Hs. unfold set_totalU. destruct (totalU_uh U i s w) as (A & _).
  destruct (totalU Vf MWf pkgs U i s w) as [U1 F]. cbn [fst] in A.
  assert (I1 : Inv (uh U1)) by (rewrite A; exact I).
  assert (MR : forall f, Inv (map_rows (uh U1) f (rowrefs (uh U1) s))).
  { intros f. destruct (map_rows_struct (uh U1) f (rowrefs (uh U1) s)) as (X & Y & Z). eapply inv_struct; eauto. }
  unfold scale_all, empty_all.
  destruct w.
  - destruct (qzerob F); cbn [fst uh with_heap]; [exact I1|apply MR].
  - destruct (negb (qzerob F)); cbn [fst uh with_heap]; [apply MR|].
    destruct (negb (qzerob v)); cbn [fst uh with_heap]; [exact I1|apply MR].
  - destruct (qzerob F); cbn [fst uh with_heap]; [exact I1|apply MR].
Qed.

Lemma set_totalU_streams U i s w v : streams (uh (fst (set_totalU Vf MWf pkgs U i s w v))) = streams (uh U).
Proof.
  unfold set_totalU. destruct (totalU_uh U i s w) as (A & _).
  destruct (totalU Vf MWf pkgs U i s w) as [U1 F]. cbn [fst] in A.
  unfold scale_all, empty_all.
  destruct w; repeat match goal with |- context [if ?c then _ else _] => destruct c end;
    cbn [fst uh with_heap]; rewrite ?map_rows_streams; rewrite A; reflexivity.
Qed.

Definition rf_tail U1 (i : nat) s (w : view) (f : Q) (fl : list (nat * Q)) (t : option Q) : ustate * outcome :=
  match t with
  | Some x => set_totalU Vf MWf pkgs (with_heap U1 (set_items Vf MWf pkgs (uh U1) s w f fl)) i s w (x / f)
  | None => (with_heap U1 (set_items Vf MWf pkgs (uh U1) s w f fl), XNone)
  end.
Lemma inv_rf_tail U1 i s w f fl t : Inv (uh U1) -> nth_error (streams (uh U1)) i = Some s -> Inv (uh (fst (rf_tail U1 i s w f fl t))).
Proof.
  intros I Hs. unfold rf_tail. pose proof (inv_set_items (uh U1) i s w f fl I Hs) as I2.
  destruct t as [x|]; [|exact I2]. apply inv_set_totalU; cbn [uh with_heap]; [exact I2|rewrite set_items_streams; exact Hs].
Qed.
(* the part of Stream.reset_flow after the emptying and the new phase, in the machine with the units caches and the memo *)
Definition rf_rest U0 (i : nat) s (ru : option nat) (fl : list (nat * Q)) (t : option Q) : ustate * outcome :=
  let '(U1, q) := match ru with None => (U0, Ok (VMol, 1)) | Some uu => flow_lookup utab U0 uu end in
  match q with
  | Err e => (U1, XErr e)
  | Ok (w, f) => rf_tail U1 i s w f fl t
  end.
Lemma stepU_reset_flow U i rp ru rt rfl s : nth_error (streams (uh U)) i = Some s -> multi s = false ->
  stepU Vf MWf pkgs utab U (OResetFlow i rp ru rt rfl) =
  match rfl, nonzero_opt rt with
  | [], None => (with_heap U (reset_flow_pre (uh U) s rp), XNone)
  | _, t => rf_rest (with_heap U (reset_flow_pre (uh U) s rp)) i s ru rfl t
  end.
Proof.
  intros Hs M. unfold stepU. rewrite Hs, M. unfold rf_rest, rf_tail.
  destruct rfl as [|kv fl']; destruct (nonzero_opt rt) as [x|]; try reflexivity;
    destruct ru as [uu|]; try reflexivity;
    destruct (flow_lookup utab (with_heap U (reset_flow_pre (uh U) s rp)) uu) as [U1 [[w f]|e]]; reflexivity.
Qed.
Lemma inv_rf_rest U0 i s ru fl t : Inv (uh U0) -> nth_error (streams (uh U0)) i = Some s -> Inv (uh (fst (rf_rest U0 i s ru fl t))).
Proof.
  intros I Hs. unfold rf_rest. destruct ru as [uu|].
  - destruct (flow_lookup_uh U0 uu) as (A & _). destruct (flow_lookup utab U0 uu) as [U1 [[w f]|e]]; cbn [fst] in *.
    + apply inv_rf_tail; rewrite A; auto.
    + rewrite A. exact I.
  - apply inv_rf_tail; auto.
Qed.
Lemma inv_stepU_reset U i rp ru rt rfl : Inv (uh U) -> Inv (uh (fst (stepU Vf MWf pkgs utab U (OResetFlow i rp ru rt rfl)))).
Proof.
  intros I. destruct (nth_error (streams (uh U)) i) as [s|] eqn:Hs; [|unfold stepU; rewrite Hs; exact I].
  destruct (multi s) eqn:M; [unfold stepU; rewrite Hs, M; exact I|].
  rewrite (stepU_reset_flow U i rp ru rt rfl s Hs M).
  assert (I0 : Inv (uh (with_heap U (reset_flow_pre (uh U) s rp)))) by (apply inv_reset_flow_pre; exact I).
  assert (Hs0 : nth_error (streams (uh (with_heap U (reset_flow_pre (uh U) s rp)))) i = Some s).
  { cbn [uh with_heap]. rewrite (proj2 (proj2 (reset_flow_pre_struct (uh U) s rp))). exact Hs. }
  destruct rfl as [|kv fl']; [destruct (nonzero_opt rt) as [x|]; [|exact I0]|]; apply inv_rf_rest; auto.
Qed.

Lemma inv_stepU_from U fl : Inv (uh U) -> Inv (uh (fst (stepU Vf MWf pkgs utab U (OFromStreams fl)))).
Proof.
  intros I. pose proof (inv_step (uh U) (OFromStreams fl) I) as X. unfold stepU, liftU.
  destruct (step Vf MWf pkgs utab (uh U) (OFromStreams fl)) as [h1 x]. cbn [fst snd] in *.
  destruct (is_none x); exact X.
Qed.

Lemma inv_stepU U o : Inv (uh U) -> Inv (uh (fst (stepU Vf MWf pkgs utab U o))).
Proof.
  intros I.
  assert (D : Inv (uh (fst (liftU U (step Vf MWf pkgs utab (uh U) o))))).
  { unfold liftU. cbn [fst uh with_heap]. apply inv_step. exact I. }
  unfold stepU.
  destruct o as [ |i w|i w|i|i u r k|i u r k v|i u|i u v|i w r k v|i w v|i v|i v|i p|i l|i j f p t|i|i j|i k|i k|i w u r k|i w u r k v|i j w|i w r1 r2|fl|i rp ru rt rfl|i r|i|i mt mu ml mpf];
    try exact D; try (apply inv_stepU_from; exact I); try (apply inv_stepU_reset; exact I);
    (destruct (nth_error (streams (uh U)) i) as [s|] eqn:Hs; [|try exact I]).
  - destruct (totalU_uh U i s w) as (A & _). destruct (totalU Vf MWf pkgs U i s w) as [U1 x]. cbn [fst] in *. rewrite A. exact I.
  - destruct (flow_lookup_uh U u) as (A & _). destruct (flow_lookup utab U u) as [U1 [[w f]|e]]; cbn [fst] in *.
    + unfold liftU, lift. cbn [fst uh with_heap]. rewrite A.
      pose proof (inv_get_item (uh U) i s w r k I Hs) as X.
      destruct (get_item Vf MWf pkgs (uh U) s w r k) as [h1 [x|e]]; exact X.
    + rewrite A. exact I.
  - destruct (flow_lookup_uh U u) as (A & _). destruct (flow_lookup utab U u) as [U1 [[w f]|e]]; cbn [fst] in *.
    + unfold liftU. cbn [fst uh with_heap]. rewrite A. apply inv_set_item with (i := i); auto.
    + rewrite A. exact I.
  - destruct (flow_lookup_uh U u) as (A & _). destruct (flow_lookup utab U u) as [U1 [[w f]|e]]; cbn [fst] in *.
    + destruct (totalU_uh U1 i s w) as (B & _). destruct (totalU Vf MWf pkgs U1 i s w) as [U2 x]. cbn [fst] in *.
      rewrite B, A. exact I.
    + rewrite A. exact I.
  - destruct (flow_lookup_uh U u) as (A & _). destruct (flow_lookup utab U u) as [U1 [[w f]|e]]; cbn [fst] in *.
    + apply inv_set_totalU; rewrite A; auto.
    + rewrite A. exact I.
  - apply inv_set_totalU; auto.
  - pose proof (inv_step (uh U) (OPhases i l) I) as X. unfold liftU.
    destruct (step Vf MWf pkgs utab (uh U) (OPhases i l)) as [h1 x]. cbn [fst snd] in *.
    match goal with |- context [if ?c then _ else _] => destruct c end; exact X.
  - pose proof (inv_step (uh U) (OUnlink i) I) as X. unfold liftU.
    destruct (step Vf MWf pkgs utab (uh U) (OUnlink i)) as [h1 x]. cbn [fst snd] in *.
    destruct (is_none x); exact X.
  - pose proof (inv_step (uh U) (OUnlink i) I) as X. unfold liftU.
    destruct (step Vf MWf pkgs utab (uh U) (OUnlink i)) as [h1 x]. cbn [fst snd] in *.
    destruct (is_none x); exact X.
  - pose proof (inv_step (uh U) (OThermo i k) I) as X. unfold liftU.
    destruct (step Vf MWf pkgs utab (uh U) (OThermo i k)) as [h1 x]. cbn [fst snd] in *.
    destruct (Nat.eqb (pkg s) k); exact X.
  - destruct (cfactor_uh U w u) as (A & _). destruct (cfactor utab U w u) as [U1 [f|e]]; cbn [fst] in *.
    + unfold liftU, lift. cbn [fst uh with_heap]. rewrite A.
      pose proof (inv_get_item (uh U) i s w r k I Hs) as X.
      destruct (get_item Vf MWf pkgs (uh U) s w r k) as [h1 [x|e]]; exact X.
    + cbn [fst uh with_heap]. rewrite A. apply inv_touch_view with (i := i); auto.
  - destruct (cfactor_uh U w u) as (A & _). destruct (cfactor utab U w u) as [U1 [f|e]]; cbn [fst] in *.
    + unfold liftU. cbn [fst uh with_heap]. rewrite A. apply inv_set_item with (i := i); auto.
    + cbn [fst uh with_heap]. rewrite A. apply inv_touch_view with (i := i); auto.
Qed.

Lemma inv_runU ops : forall U, Inv (uh U) -> Inv (uh (fst (runU Vf MWf pkgs utab U ops))).
Proof.
  induction ops as [|o ops IH]; intros U I; simpl; auto.
  pose proof (inv_stepU U o I) as I1. destruct (stepU Vf MWf pkgs utab U o) as [U1 x]. cbn [fst] in I1.
  specialize (IH U1 I1). destruct (runU Vf MWf pkgs utab U1 ops) as [U2 xs]. exact IH.
Qed.

(* ---------- the units caches always agree with the oracle ---------- *)
Definition oracle_flow (u : nat) : res (view * Q) :=
  match unit_of utab u with Some x => Ok x | None => Err EDim end.
Definition UC U : Prop :=
  (forall w u f, fac_find w u (u_fac U) = Some f -> conv utab w u = Ok f) /\
  (forall u x, flow_find u (u_flow U) = Some x -> unit_of utab u = Some x).

Lemma view_eqb_refl w : view_eqb w w = true.
Proof. destruct w; reflexivity. Qed.
Lemma view_eqb_eq a b : view_eqb a b = true -> a = b.
Proof. destruct a, b; simpl; intros H; try reflexivity; discriminate. Qed.

Lemma UC_ext U U' : u_flow U' = u_flow U -> u_fac U' = u_fac U -> UC U -> UC U'.
Proof. intros A B (X & Y). split; intros; [apply X; rewrite <- B; auto | apply Y; rewrite <- A; auto]. Qed.

Lemma cfactor_ok U w u : UC U -> snd (cfactor utab U w u) = conv utab w u /\ UC (fst (cfactor utab U w u)).
Proof.
  intros (X & Y). unfold cfactor. destruct (fac_find w u (u_fac U)) as [f|] eqn:E.
  - simpl. split; [symmetry; apply X; exact E|split; assumption].
  - destruct (conv utab w u) as [f|e] eqn:C; simpl; (split; [reflexivity|]); [|split; assumption].
    split; [|exact Y]. intros w' u' f'. simpl.
    destruct (view_eqb w' w && Nat.eqb u' u) eqn:Q.
    + apply andb_prop in Q. destruct Q as (Q1 & Q2). apply view_eqb_eq in Q1. apply Nat.eqb_eq in Q2. subst.
      intros H; inversion H; subst. exact C.
    + apply X.
Qed.

Lemma flow_lookup_ok U u : UC U -> snd (flow_lookup utab U u) = oracle_flow u /\ UC (fst (flow_lookup utab U u)).
Proof.
  intros UCU. pose proof UCU as (X & Y). unfold flow_lookup, oracle_flow.
  destruct (flow_find u (u_flow U)) as [x|] eqn:E.
  - simpl. rewrite (Y u x E). split; [reflexivity|exact UCU].
  - unfold dim_of. destruct (unit_of utab u) as [[w f0]|] eqn:UO; simpl; [|split; [reflexivity|exact UCU]].
    destruct (cfactor_ok U w u UCU) as (A & B).
    assert (CV : conv utab w u = Ok f0) by (unfold conv; rewrite UO, view_eqb_refl; reflexivity).
    destruct (cfactor utab U w u) as [U1 q]. cbn [fst snd] in *. rewrite CV in A. subst q.
    simpl. split; [reflexivity|]. destruct B as (X1 & Y1). split; [exact X1|].
    intros u' x. simpl. destruct (Nat.eqb u' u) eqn:Q.
    + apply Nat.eqb_eq in Q. subst. intros H; inversion H; subst. exact UO.
    + apply Y1.
Qed.

Lemma UC_set_totalU U1 i s w v : UC U1 -> UC (fst (set_totalU Vf MWf pkgs U1 i s w v)).
Proof.
  intros UC1. unfold set_totalU. destruct (totalU_uh U1 i s w) as (_ & A & B).
  destruct (totalU Vf MWf pkgs U1 i s w) as [U2 F]. cbn [fst] in *.
  assert (UC2 : UC U2) by (eapply UC_ext; eauto).
  destruct w; repeat match goal with |- context [if ?c then _ else _] => destruct c end;
    cbn [fst]; try exact UC2; (eapply UC_ext; [| |exact UC2]; reflexivity).
Qed.
Lemma UC_stepU_reset U i rp ru rt rfl : UC U -> UC (fst (stepU Vf MWf pkgs utab U (OResetFlow i rp ru rt rfl))).
Proof.
  intros C. destruct (nth_error (streams (uh U)) i) as [s|] eqn:Hs; [|unfold stepU; rewrite Hs; exact C].
  destruct (multi s) eqn:M; [unfold stepU; rewrite Hs, M; exact C|].
  rewrite (stepU_reset_flow U i rp ru rt rfl s Hs M).
  assert (C0 : UC (with_heap U (reset_flow_pre (uh U) s rp))) by (eapply UC_ext; [| |exact C]; reflexivity).
  assert (G : forall t, UC (fst (rf_rest (with_heap U (reset_flow_pre (uh U) s rp)) i s ru rfl t))).
  { intros t. unfold rf_rest.
    assert (T : forall U1 w f, UC U1 -> UC (fst (rf_tail U1 i s w f rfl t))).
    { intros U1 w f C1. unfold rf_tail. destruct t as [x|].
      - apply UC_set_totalU. eapply UC_ext; [| |exact C1]; reflexivity.
      - cbn [fst]. eapply UC_ext; [| |exact C1]; reflexivity. }
    destruct ru as [uu|].
    - destruct (flow_lookup_ok (with_heap U (reset_flow_pre (uh U) s rp)) uu C0) as (_ & B).
      destruct (flow_lookup utab (with_heap U (reset_flow_pre (uh U) s rp)) uu) as [U1 [[w f]|e]]; cbn [fst] in *; [apply T; exact B|exact B].
    - apply T. exact C0. }
  destruct rfl as [|kv fl']; [destruct (nonzero_opt rt) as [x|]; [apply G|exact C0]|apply G].
Qed.

Lemma UC_stepU_from U fl : UC U -> UC (fst (stepU Vf MWf pkgs utab U (OFromStreams fl))).
Proof.
  intros C. unfold stepU, liftU.
  destruct (step Vf MWf pkgs utab (uh U) (OFromStreams fl)) as [h1 x]. cbn [fst snd].
  destruct (is_none x); (eapply UC_ext; [| |exact C]; reflexivity).
Qed.

Lemma UC_stepU U o : UC U -> UC (fst (stepU Vf MWf pkgs utab U o)).
Proof.
  intros UCU.
  assert (D : UC (fst (liftU U (step Vf MWf pkgs utab (uh U) o)))) by (eapply UC_ext; [| |exact UCU]; reflexivity).
  assert (ST : forall U1 i s w v, UC U1 -> UC (fst (set_totalU Vf MWf pkgs U1 i s w v))).
  { intros U1 i s w v UC1. unfold set_totalU. destruct (totalU_uh U1 i s w) as (_ & A & B).
    destruct (totalU Vf MWf pkgs U1 i s w) as [U2 F]. cbn [fst] in *.
    assert (UC2 : UC U2) by (eapply UC_ext; eauto).
    destruct w; repeat match goal with |- context [if ?c then _ else _] => destruct c end;
      cbn [fst]; try exact UC2; (eapply UC_ext; [| |exact UC2]; reflexivity). }
  unfold stepU.
  destruct o as [ |i w|i w|i|i u r k|i u r k v|i u|i u v|i w r k v|i w v|i v|i v|i p|i l|i j f p t|i|i j|i k|i k|i w u r k|i w u r k v|i j w|i w r1 r2|fl|i rp ru rt rfl|i r|i|i mt mu ml mpf];
    try exact D; try (apply UC_stepU_from; exact UCU); try (apply UC_stepU_reset; exact UCU);
    (destruct (nth_error (streams (uh U)) i) as [s|] eqn:Hs; [|try exact UCU]).
  - destruct (totalU_uh U i s w) as (_ & A & B). destruct (totalU Vf MWf pkgs U i s w) as [U1 x]. cbn [fst] in *.
    eapply UC_ext; eauto.
  - destruct (flow_lookup_ok U u UCU) as (_ & B). destruct (flow_lookup utab U u) as [U1 [[w f]|e]]; cbn [fst] in *; [|exact B].
    eapply UC_ext; [| |exact B]; reflexivity.
  - destruct (flow_lookup_ok U u UCU) as (_ & B). destruct (flow_lookup utab U u) as [U1 [[w f]|e]]; cbn [fst] in *; [|exact B].
    eapply UC_ext; [| |exact B]; reflexivity.
  - destruct (flow_lookup_ok U u UCU) as (_ & B). destruct (flow_lookup utab U u) as [U1 [[w f]|e]]; cbn [fst] in *; [|exact B].
    destruct (totalU_uh U1 i s w) as (_ & A' & B'). destruct (totalU Vf MWf pkgs U1 i s w) as [U2 x]. cbn [fst] in *.
    eapply UC_ext; eauto.
  - destruct (flow_lookup_ok U u UCU) as (_ & B). destruct (flow_lookup utab U u) as [U1 [[w f]|e]]; cbn [fst] in *; [|exact B].
    apply ST. exact B.
  - apply ST. exact UCU.
  - unfold liftU. destruct (step Vf MWf pkgs utab (uh U) (OPhases i l)) as [h1 x]. cbn [fst snd].
    match goal with |- context [if ?c then _ else _] => destruct c end; (eapply UC_ext; [| |exact UCU]; reflexivity).
  - unfold liftU. destruct (step Vf MWf pkgs utab (uh U) (OUnlink i)) as [h1 x]. cbn [fst snd].
    destruct (is_none x); (eapply UC_ext; [| |exact UCU]; reflexivity).
  - unfold liftU. destruct (step Vf MWf pkgs utab (uh U) (OUnlink i)) as [h1 x]. cbn [fst snd].
    destruct (is_none x); (eapply UC_ext; [| |exact UCU]; reflexivity).
  - unfold liftU. destruct (step Vf MWf pkgs utab (uh U) (OThermo i k)) as [h1 x]. cbn [fst snd].
    destruct (Nat.eqb (pkg s) k); (eapply UC_ext; [| |exact UCU]; reflexivity).
  - destruct (cfactor_ok U w u UCU) as (_ & B). destruct (cfactor utab U w u) as [U1 [f|e]]; cbn [fst] in *;
      (eapply UC_ext; [| |exact B]; reflexivity).
  - destruct (cfactor_ok U w u UCU) as (_ & B). destruct (cfactor utab U w u) as [U1 [f|e]]; cbn [fst] in *;
      (eapply UC_ext; [| |exact B]; reflexivity).
Qed.

Lemma UC_runU ops : forall U, UC U -> UC (fst (runU Vf MWf pkgs utab U ops)).
Proof.
  induction ops as [|o ops IH]; intros U I; simpl; auto.
  pose proof (UC_stepU U o I) as I1. destruct (stepU Vf MWf pkgs utab U o) as [U1 x]. cbn [fst] in I1.
  specialize (IH U1 I1). destruct (runU Vf MWf pkgs utab U1 ops) as [U2 xs]. exact IH.
Qed.
Lemma UC_buildU l : UC (buildU l).
Proof. split; simpl; intros; discriminate. Qed.

(* ---------- no operation but a package reset changes the package of a stream ---------- *)
(* PKP i h h': every stream of h' is a stream of h at the same index with the same package, and every stream other than
   the i-th also keeps its class (single / multi) and its phases *)
Definition PKP (i : nat) h h' : Prop :=
  length (streams h') = length (streams h) /\
  forall j s', nth_error (streams h') j = Some s' ->
    exists s, nth_error (streams h) j = Some s /\ pkg s' = pkg s /\ (j <> i -> multi s' = multi s /\ phs s' = phs s).
Lemma PKP_same i h h' : streams h' = streams h -> PKP i h h'.
Proof. intros E. split; [rewrite E; reflexivity|]. intros j s' H. rewrite E in H. exists s'. auto. Qed.
Lemma PKP_trans i a b c : PKP i a b -> PKP i b c -> PKP i a c.
Proof.
  intros (LX & X) (LY & Y). split; [congruence|]. intros j s' H.
  destruct (Y j s' H) as (s1 & H1 & E1 & F1). destruct (X j s1 H1) as (s0 & H0 & E0 & F0).
  exists s0. split; [auto|split; [congruence|]]. intros N. destruct (F1 N), (F0 N). split; congruence.
Qed.
Lemma PKP_put h h1 i s s' :
  streams h1 = streams h -> nth_error (streams h) i = Some s -> pkg s' = pkg s -> PKP i h (put_stream h1 i s').
Proof.
  intros E Hs P. split; [simpl; rewrite upd_length, E; reflexivity|]. intros j x H. simpl in H. rewrite E in H.
  destruct (Nat.eq_dec j i) as [Q|N].
  - subst j. rewrite nth_error_upd_same in H by (eapply nth_error_lt; eauto). inversion H; subst.
    exists s. split; [auto|split; [auto|]]. intros N. exfalso; apply N; reflexivity.
  - rewrite nth_error_upd_other in H by auto. exists x. auto.
Qed.
(* the i-th stream is replaced by one of the same class, phases and package: nothing changes for any index *)
Lemma PKP_put_full h h1 i s s' i' :
  streams h1 = streams h -> nth_error (streams h) i = Some s -> pkg s' = pkg s -> multi s' = multi s -> phs s' = phs s ->
  PKP i' h (put_stream h1 i s').
Proof.
  intros E Hs P M PH. split; [simpl; rewrite upd_length, E; reflexivity|]. intros j x H. simpl in H. rewrite E in H.
  destruct (Nat.eq_dec j i) as [Q|N].
  - subst j. rewrite nth_error_upd_same in H by (eapply nth_error_lt; eauto). inversion H; subst.
    exists s. auto.
  - rewrite nth_error_upd_other in H by auto. exists x. auto.
Qed.

Lemma touch_view_streams h s w : streams (touch_view h s w) = streams h.
Proof. destruct w; simpl; try reflexivity. apply by_mass_streams. Qed.
Lemma assign_view_streams h s o w : streams (fst (assign_view Vf MWf pkgs h s o w)) = streams h.
Proof.
  unfold assign_view. destruct (multi s || multi o || negb (Nat.eqb (pkg s) (pkg o))); [reflexivity|].
  destruct w.
  - destruct (Nat.eqb (sdata s) (sdata o)); reflexivity.
  - pose proof (by_mass_streams h o) as B1. destruct (by_mass h o) as [h1 mo]. cbn [fst] in B1.
    pose proof (by_mass_streams h1 s) as B2. destruct (by_mass h1 s) as [h2 ms]. cbn [fst] in B2.
    destruct (Nat.eqb (cch s) (cch o)); [cbn [fst]; congruence|].
    destruct (mv_rows ms) as [|[d sd] tl]; [cbn [fst]; congruence|]. destruct (mv_rows mo) as [|[e se] tl']; [cbn [fst]; congruence|].
    cbn [fst]. simpl. congruence.
  - destruct (Nat.eqb (cch s) (cch o) && Nat.eqb (tc s) (tc o)); [reflexivity|].
    destruct (vv_rows (by_volume (store_vol h o (by_volume h o)) s)) as [|rs tl]; [reflexivity|].
    destruct (vv_rows (by_volume h o)) as [|ro tl']; [reflexivity|].
    match goal with |- context [xfer_vol ?a ?b ?c ?d ?e ?f ?g ?i ?j] => destruct (xfer_vol a b c d e f g i j) as [[vals ro'] rs'] end.
    reflexivity.
Qed.
Lemma copy_row_view_streams h s w r1 r2 : streams (fst (copy_row_view Vf MWf pkgs h s w r1 r2)) = streams h.
Proof.
  unfold copy_row_view. destruct (negb (multi s)); [reflexivity|]. destruct w.
  - destruct (nth_error (rowrefs h s) r1); [|reflexivity]. destruct (nth_error (rowrefs h s) r2); [|reflexivity].
    destruct (Nat.eqb r1 r2); reflexivity.
  - pose proof (by_mass_streams h s) as B. destruct (by_mass h s) as [h1 mv]. cbn [fst] in B.
    destruct (nth_error (mv_rows mv) r1) as [[d sd]|]; [|exact B].
    destruct (nth_error (mv_rows mv) r2) as [[e se]|]; [|exact B].
    destruct (Nat.eqb r1 r2); [exact B|]. cbn [fst]. simpl. exact B.
  - destruct (nth_error (vv_rows (by_volume h s)) r1) as [rd|]; [|reflexivity].
    destruct (nth_error (vv_rows (by_volume h s)) r2) as [ro|]; [|reflexivity].
    destruct (Nat.eqb r1 r2); [reflexivity|].
    match goal with |- context [xfer_vol ?a ?b ?c ?d ?e ?f ?g ?i ?j] => destruct (xfer_vol a b c d e f g i j) as [[vals ro'] rd'] end.
    reflexivity.
Qed.

Lemma PKP_multi_to_single h i s p : nth_error (streams h) i = Some s -> PKP i h (fst (multi_to_single pkgs h i s p)).
Proof. intros Hs. unfold multi_to_single. cbn [new_row new_box new_cache fst snd]. eapply (PKP_put h _ i s); [reflexivity|exact Hs|reflexivity]. Qed.
Lemma PKP_set_phase h i s p : nth_error (streams h) i = Some s -> PKP i h (fst (set_phase pkgs h i s p)).
Proof. intros Hs. unfold set_phase. destruct (multi s). apply PKP_multi_to_single; auto. apply PKP_same; reflexivity. Qed.
Lemma PKP_single_to_multi h i s l : nth_error (streams h) i = Some s -> PKP i h (fst (single_to_multi pkgs h i s l)).
Proof.
  intros Hs. unfold single_to_multi.
  match goal with |- context [match ?x with Some _ => _ | None => _ end] => destruct x as [vals|] end; [|apply PKP_same; reflexivity].
  frame_rows h vals rs h1. cbn [new_arr new_cache fst snd]. eapply (PKP_put h _ i s); [simpl; congruence|exact Hs|reflexivity].
Qed.
Lemma PKP_multi_to_multi h i s l : nth_error (streams h) i = Some s -> PKP i h (fst (multi_to_multi pkgs h i s l)).
Proof.
  intros Hs. unfold multi_to_multi. destruct (phases_eqb (psort l) (phs s)); [apply PKP_same; reflexivity|].
  match goal with |- context [match ?x with Some _ => _ | None => _ end] => destruct x as [vals|] end; [|apply PKP_same; reflexivity].
  frame_rows h vals rs h1. cbn [new_arr new_cache fst snd]. eapply (PKP_put h _ i s); [simpl; congruence|exact Hs|reflexivity].
Qed.
Lemma PKP_set_phases h i s l : nth_error (streams h) i = Some s -> PKP i h (fst (set_phases pkgs h i s l)).
Proof.
  intros Hs. unfold set_phases. destruct (psort l) as [|p [|q r]].
  - apply PKP_same; reflexivity.
  - apply PKP_set_phase; auto.
  - destruct (multi s); [apply PKP_multi_to_multi|apply PKP_single_to_multi]; auto.
Qed.
Lemma PKP_link h i s o f p t i' : nth_error (streams h) i = Some s -> PKP i' h (fst (link_with h i s o f p t)).
Proof.
  intros Hs. unfold link_with.
  destruct (negb (Bool.eqb (multi s) (multi o))); [apply PKP_same; reflexivity|].
  destruct (negb (Nat.eqb (pkg s) (pkg o))); [apply PKP_same; reflexivity|].
  destruct (multi s && f && negb (phases_eqb (phs s) (phs o))); [apply PKP_same; reflexivity|].
  destruct (t && f && (p || multi s)); cbn [new_cache fst snd];
    (eapply (PKP_put_full h _ i s); [reflexivity|exact Hs|reflexivity|reflexivity|reflexivity]).
Qed.
Lemma PKP_unlink h i s i' : nth_error (streams h) i = Some s -> PKP i' h (fst (unlink h i s)).
Proof.
  intros Hs. unfold unlink. destruct (multi s) eqn:M.
  - cbn [new_cache new_box new_tp fst snd].
    match goal with |- context [copy_rows ?a ?b] => pose proof (new_rows_frame a (map (getrow a) b)) as F; unfold copy_rows; destruct (new_rows a (map (getrow a) b)) as [rs hh] end.
    cbn [fst snd] in F. destruct F as (_ & _ & FS). cbn [new_arr new_tp fst snd]. eapply (PKP_put_full h _ i s); [simpl; simpl in FS; congruence|exact Hs|reflexivity|cbn; congruence|reflexivity].
  - cbn [new_cache new_box new_tp new_row fst snd]. eapply (PKP_put_full h _ i s); [reflexivity|exact Hs|reflexivity|cbn; congruence|reflexivity].
Qed.
Lemma copy_rows_like_streams h d x : streams (copy_rows_like h d x) = streams h.
Proof. apply copy_rows_like_struct. Qed.

Lemma PKP_copy_like_x h i s o : nth_error (streams h) i = Some s -> PKP i h (fst (copy_like_x pkgs h i s o)).
Proof.
  intros Hs. unfold copy_like_x.
  assert (E0 : streams (empty_all h s) = streams h) by apply map_rows_streams.
  destruct (multi s) eqn:M; destruct (multi o) eqn:MO.
  - destruct (existsb (xmiss (chems pkgs (pkg o)) (chems pkgs (pkg s))) (all_rows h o)); [apply PKP_same; reflexivity|].
    destruct (phases_eqb (phs s) (phs o)); apply PKP_same; try reflexivity. cbn [fst]. simpl.
    rewrite (proj2 (proj2 (copy_rows_like_x_struct _ _ _ _))). exact E0.
  - destruct (pindex (phs s) (getbox h (pbox o))) as [k|].
    + destruct (nth_error (rowrefs (empty_all h s) s) k); [|apply PKP_same; exact E0].
      destruct (xmiss (chems pkgs (pkg o)) (chems pkgs (pkg s)) (getrow h (sdata o))); apply PKP_same; cbn [fst]; simpl; exact E0.
    + destruct (stream_shares_arr h i (sdata s)); [apply PKP_same; reflexivity|].
      match goal with |- context [expand_rows ?a ?b ?c ?d] => pose proof (expand_rows_frame b c d a) as F; destruct (expand_rows a b c d) as [rs h1] end.
      cbn [fst snd] in F. destruct F as (_ & _ & FS).
      assert (G : forall hx, streams hx = upd (streams h1) i (mkstream true (sdata s) (pbox s) (psort (getbox h (pbox o) :: phs s)) (pkg s) (cch s) (tc s)) -> PKP i h hx).
      { intros hx Ex. split; [rewrite Ex, upd_length, FS, E0; reflexivity|]. intros j x H. rewrite Ex, FS, E0 in H. destruct (Nat.eq_dec j i) as [Q|N].
        - subst j. rewrite nth_error_upd_same in H by (eapply nth_error_lt; eauto). inversion H; subst.
          exists s. split; [auto|split; [reflexivity|]]. intros N. exfalso; apply N; reflexivity.
        - rewrite nth_error_upd_other in H by auto. exists x. auto. }
      destruct (pindex (psort (getbox h (pbox o) :: phs s)) (getbox h (pbox o))) as [k|].
      * destruct (nth_error rs k); [|cbn [fst]; apply G; reflexivity].
        destruct (xmiss (chems pkgs (pkg o)) (chems pkgs (pkg s)) (getrow h (sdata o))); cbn [fst]; apply G; reflexivity.
      * cbn [fst]. apply G; reflexivity.
  - assert (Hs0 : nth_error (streams (empty_all h s)) i = Some s) by (rewrite E0; exact Hs).
    assert (TAIL : forall l, PKP i h (fst (
       match single_to_multi pkgs (empty_all h s) i s l with
       | (h1, XNone) =>
           match nth_error (streams h1) i with
           | Some s1 =>
               if existsb (xmiss (chems pkgs (pkg o)) (chems pkgs (pkg s))) (all_rows h1 o) then (h1, XErr EOther)
               else if phases_eqb (phs s1) (phs o)
               then (copy_tp (copy_rows_like_x (empty_all h1 s1) (remap (chems pkgs (pkg o)) (chems pkgs (pkg s))) (rowrefs h1 s1) (rowrefs h1 o)) s1 o, XNone)
               else (h1, XDomain)
           | None => (h1, XErr EIndex)
           end
       | r => r
       end))).
    { intros l. pose proof (PKP_single_to_multi (empty_all h s) i s l Hs0) as P1.
      destruct (single_to_multi pkgs (empty_all h s) i s l) as [h1 x]. cbn [fst] in P1.
      assert (P0 : PKP i h h1) by (eapply PKP_trans; [apply PKP_same; exact E0|exact P1]).
      destruct x; try exact P0.
      destruct (nth_error (streams h1) i) as [s1|]; [|exact P0].
      destruct (existsb (xmiss (chems pkgs (pkg o)) (chems pkgs (pkg s))) (all_rows h1 o)); [exact P0|].
      destruct (phases_eqb (phs s1) (phs o)); [|exact P0]. cbn [fst].
      eapply PKP_trans; [exact P0|]. apply PKP_same. simpl.
      rewrite (proj2 (proj2 (copy_rows_like_x_struct _ _ _ _))). apply map_rows_streams. }
    destruct (phs o) as [|p [|q r]].
    + apply TAIL.
    + destruct (xmiss (chems pkgs (pkg o)) (chems pkgs (pkg s)) (nth 0 (all_rows (empty_all h s) o) [])); apply PKP_same; cbn [fst]; simpl; exact E0.
    + apply TAIL.
  - destruct (xmiss (chems pkgs (pkg o)) (chems pkgs (pkg s)) (getrow (empty_all h s) (sdata o))); apply PKP_same; cbn [fst]; simpl; exact E0.
Qed.

Lemma PKP_copy_like h i s o same : nth_error (streams h) i = Some s -> PKP i h (fst (copy_like pkgs h i s o same)).
Proof.
  intros Hs. unfold copy_like. destruct same; [apply PKP_same; reflexivity|].
  destruct (negb (Nat.eqb (pkg s) (pkg o))); [apply PKP_copy_like_x; exact Hs|].
  destruct (multi s) eqn:M; destruct (multi o) eqn:MO.
  - destruct (phases_eqb (phs s) (phs o)); apply PKP_same; try reflexivity. cbn [fst]. simpl. apply copy_rows_like_streams.
  - destruct (pindex (phs s) (getbox h (pbox o))) as [k|].
    + destruct (nth_error (rowrefs (empty_all h s) s) k); apply PKP_same; cbn [fst]; simpl; apply map_rows_streams.
    + destruct (stream_shares_arr h i (sdata s)); [apply PKP_same; reflexivity|].
      match goal with |- context [expand_rows ?a ?b ?c ?d] => pose proof (expand_rows_frame b c d a) as F; destruct (expand_rows a b c d) as [rs h1] end.
      cbn [fst snd] in F. destruct F as (_ & _ & FS).
      assert (E0 : streams (empty_all h s) = streams h) by apply map_rows_streams.
      assert (G : forall hx, streams hx = upd (streams h1) i (mkstream true (sdata s) (pbox s) (psort (getbox h (pbox o) :: phs s)) (pkg s) (cch s) (tc s)) -> PKP i h hx).
      { intros hx Ex. split; [rewrite Ex, upd_length, FS, E0; reflexivity|]. intros j x H. rewrite Ex, FS, E0 in H. destruct (Nat.eq_dec j i) as [Q|N].
        - subst j. rewrite nth_error_upd_same in H by (eapply nth_error_lt; eauto). inversion H; subst.
          exists s. split; [auto|split; [reflexivity|]]. intros N. exfalso; apply N; reflexivity.
        - rewrite nth_error_upd_other in H by auto. exists x. auto. }
      destruct (pindex (psort (getbox h (pbox o) :: phs s)) (getbox h (pbox o))) as [k|].
      * destruct (nth_error rs k); cbn [fst]; apply G; reflexivity.
      * cbn [fst]. apply G; reflexivity.
  - destruct (phs o) as [|p [|q r]].
    + pose proof (PKP_single_to_multi (put_row h (sdata s) (vzero (length (getrow h (sdata s))))) i s [] Hs) as P1.
      destruct (single_to_multi pkgs (put_row h (sdata s) (vzero (length (getrow h (sdata s))))) i s []) as [h1 x]. cbn [fst] in P1.
      assert (P0 : PKP i h h1) by exact P1.
      destruct x; try exact P0.
      destruct (nth_error (streams h1) i) as [s1|]; [|exact P0]. cbn [fst].
      eapply PKP_trans; [exact P0|]. apply PKP_same. simpl. apply copy_rows_like_streams.
    + apply PKP_same. reflexivity.
    + pose proof (PKP_single_to_multi (put_row h (sdata s) (vzero (length (getrow h (sdata s))))) i s (p :: q :: r) Hs) as P1.
      destruct (single_to_multi pkgs (put_row h (sdata s) (vzero (length (getrow h (sdata s))))) i s (p :: q :: r)) as [h1 x]. cbn [fst] in P1.
      assert (P0 : PKP i h h1) by exact P1.
      destruct x; try exact P0.
      destruct (nth_error (streams h1) i) as [s1|]; [|exact P0]. cbn [fst].
      eapply PKP_trans; [exact P0|]. apply PKP_same. simpl. apply copy_rows_like_streams.
  - apply PKP_same. reflexivity.
Qed.

Lemma put_rows_streams l : forall h vals, streams (put_rows h l vals) = streams h.
Proof. intros. apply put_rows_struct. Qed.

Lemma round_trip_streams h i s k : nth_error (streams h) i = Some s -> streams (fst (round_trip pkgs h i s k)) = streams h.
Proof.
  intros Hs. unfold round_trip. destruct (Nat.eqb (pkg s) k); [reflexivity|].
  destruct (reset_none_shape h i s k) as (a & s1 & S1 & A1 & C1 & M1 & B1 & P1 & T1 & CONT).
  destruct (reset_chemicals pkgs h i s k None) as [h1 cont]. cbn [fst snd] in *. subst cont.
  assert (LI : (i < length (streams h))%nat) by (eapply nth_error_lt; eauto).
  rewrite S1, nth_error_upd_same by auto.
  assert (BACK : mkstream (multi s1) (sdata s) (pbox s1) (phs s1) (pkg s) (cch s) (tc s1) = s).
  { rewrite M1, B1, P1, T1. destruct s; reflexivity. }
  unfold reset_chemicals. rewrite BACK. cbn [fst].
  assert (E : streams (put_stream h1 i s) = streams h).
  { simpl. rewrite S1, upd_upd. apply upd_same. exact Hs. }
  destruct (multi s1); cbn [fst].
  - rewrite put_rows_streams, map_rows_streams. exact E.
  - simpl. simpl in E. exact E.
Qed.

(* every operation other than a package reset of stream i keeps the package of stream i *)
(* the stream whose indexer an operation may replace by one of another class / other phases *)
Definition tgt (o : op) : option nat :=
  match o with OPhase i _ | OPhases i _ | OCopyLike i _ => Some i | _ => None end.
Lemma step_PKP h o i' : (forall i k, o <> OThermo i k) -> (forall l, o <> OFromStreams l) ->
  (forall i, tgt o = Some i -> i = i') -> PKP i' h (fst (step Vf MWf pkgs utab h o)).
Proof.
  intros NT NF TG. unfold step.
  destruct o as [ |i w|i w|i|i u r k|i u r k v|i u|i u v|i w r k v|i w v|i v|i v|i p|i l|i j f p t|i|i j|i k|i k|i w u r k|i w u r k v|i j w|i w r1 r2|fl|i rp ru rt rfl|i r|i|i mt mu ml mpf];
    try (apply PKP_same; reflexivity); try (exfalso; eapply NF; reflexivity);
    (destruct (nth_error (streams h) i) as [s|] eqn:Hs; [|apply PKP_same; reflexivity]).
  - apply PKP_same. destruct w; [reflexivity| |].
    + pose proof (read_mass_streams h s) as X. destruct (read_mass MWf pkgs h s). exact X.
    + pose proof (read_vol_streams h s) as X. destruct (read_vol Vf pkgs h s). exact X.
  - apply PKP_same. reflexivity.
  - apply PKP_same. pose proof (alias_flags_streams h s) as X. destruct (alias_flags h s). exact X.
  - apply PKP_same. destruct (unit_of utab u) as [[w f]|]; [|reflexivity]. unfold lift.
    pose proof (get_item_streams h s w r k) as X. destruct (get_item Vf MWf pkgs h s w r k) as [h1 [x|e]]; exact X.
  - apply PKP_same. destruct (unit_of utab u) as [[w f]|]; [|reflexivity]. apply set_item_streams.
  - apply PKP_same. destruct (unit_of utab u) as [[w f]|]; reflexivity.
  - apply PKP_same. destruct (unit_of utab u) as [[w f]|]; [|reflexivity]. apply set_total_streams.
  - apply PKP_same. apply set_item_streams.
  - apply PKP_same. apply set_total_streams.
  - apply PKP_same. reflexivity.
  - apply PKP_same. reflexivity.
  - rewrite <- (TG i eq_refl). apply PKP_set_phase; auto.
  - rewrite <- (TG i eq_refl). apply PKP_set_phases; auto.
  - destruct (nth_error (streams h) j) as [o|]; [|apply PKP_same; reflexivity].
    destruct (Nat.eqb i j); [apply PKP_same; reflexivity|]. apply PKP_link; auto.
  - apply PKP_unlink; auto.
  - destruct (nth_error (streams h) j) as [o|]; [|apply PKP_same; reflexivity]. rewrite <- (TG i eq_refl). apply PKP_copy_like; auto.
  - exfalso. eapply NT; reflexivity.
  - apply PKP_same. apply round_trip_streams; auto.
  - apply PKP_same. destruct (conv utab w u) as [f|e].
    + unfold lift. pose proof (get_item_streams h s w r k) as X. destruct (get_item Vf MWf pkgs h s w r k) as [h1 [x|e]]; exact X.
    + apply touch_view_streams.
  - apply PKP_same. destruct (conv utab w u) as [f|e]; [apply set_item_streams|apply touch_view_streams].
  - apply PKP_same. destruct (nth_error (streams h) j) as [o|]; [|reflexivity].
    destruct (Nat.eqb i j); [reflexivity|]. apply assign_view_streams.
  - apply PKP_same. apply copy_row_view_streams.
  - apply PKP_same. apply reset_flow_streams.
  - apply PKP_same. apply map_rows_streams.
Qed.

(* ---------- the property memo: what F_vol reads is the mixture volume of the CURRENT state ---------- *)
Hypothesis Vf_ext : forall g p T T' P P', T == T' -> P == P' -> Vf g p T P == Vf g p T' P'.

Lemma vmix_row_ext' (c : list nat) p T T' P P' z' z : T' == T -> P' == P -> veqb z' z = true ->
  qsum (map2 (fun x g => x * Vf g (base p) T' P') z' c) == qsum (map2 (fun x g => x * Vf g (base p) T P) z c).
Proof. intros ET EP H. revert z' z H c. induction z' as [|a z' IH]; intros [|b z] H c; simpl in H; try discriminate.
  - destruct c; reflexivity.
  - apply andb_prop in H. destruct H as (H1 & H2). apply Qeq_bool_iff in H1.
    destruct c as [|g c]; simpl; [reflexivity|].
    rewrite (IH z H2 c), H1, (Vf_ext g (base p) T' T P' P ET EP). reflexivity.
Qed.

Lemma vmix_key_ext c k' k : pkey_eqb k' k = true -> vmix_key Vf c k' == vmix_key Vf c k.
Proof.
  unfold pkey_eqb. intros H. apply andb_prop in H. destruct H as (H & HP). apply andb_prop in H. destruct H as (H & HT).
  apply andb_prop in H. destruct H as (_ & HR). apply Qeq_bool_iff in HT. apply Qeq_bool_iff in HP.
  unfold vmix_key. revert HR. generalize (k_rows k). generalize (k_rows k').
  induction l as [|[px zx] l IH]; intros [|[py zy] m] HR; simpl in HR; try discriminate; simpl; [reflexivity|].
  apply andb_prop in HR. destruct HR as (H1 & H2). unfold prow_eqb in H1. cbn [fst snd] in H1.
  apply andb_prop in H1. destruct H1 as (HP1 & HV).
  apply phase_eqb_eq in HP1. subst py. rewrite (IH m H2).
  rewrite (vmix_row_ext' c px (k_T k) (k_T k') (k_P k) (k_P k') zx zy HT HP HV). reflexivity.
Qed.

Definition PM U : Prop := forall i k v s, pm_get U i = Some (k, v) -> nth_error (streams (uh U)) i = Some s ->
  v == vmix_key Vf (chems pkgs (pkg s)) k.

Lemma PM_ext i0 U U' : PKP i0 (uh U) (uh U') -> u_pm U' = u_pm U -> PM U -> PM U'.
Proof.
  intros PK E P i k v s' G H. destruct (proj2 PK i s' H) as (s & Hs & EP & _). rewrite EP.
  apply (P i k v s); auto. unfold pm_get in *. rewrite <- E. exact G.
Qed.

Lemma pm_get_set U i x j :
  pm_get (pm_set U i x) j = pm_get U j \/ (j = i /\ pm_get (pm_set U i x) j = x).
Proof.
  unfold pm_get, pm_set; simpl. destruct (Nat.eq_dec i j) as [E|N].
  - subst j. destruct (Nat.lt_ge_cases i (length (u_pm U))) as [L|G].
    + right. split; auto. apply nth_upd_eq; auto.
    + left. clear - G. revert i G. induction (u_pm U) as [|a l IH]; intros [|i] G; simpl in *; auto; try lia. apply IH. lia.
  - left. apply nth_upd_neq. auto.
Qed.

Lemma PM_reset U i : PM U -> PM (pm_set U i None).
Proof.
  intros P j k v s G H. destruct (pm_get_set U i None j) as [E|(E1 & E2)].
  - rewrite E in G. apply (P j k v s); auto.
  - rewrite E2 in G. discriminate.
Qed.

Lemma F_volU_PM U i s : PM U -> nth_error (streams (uh U)) i = Some s -> PM (fst (F_volU Vf pkgs U i s)).
Proof.
  intros P Hs. unfold F_volU. destruct (qzerob (F_mol (uh U) s)); [exact P|].
  assert (MISS : PM (pm_set U i (Some (key_of (uh U) s, vmix_key Vf (chems pkgs (pkg s)) (key_of (uh U) s))))).
  { intros j k v s2 G H. destruct (pm_get_set U i (Some (key_of (uh U) s, vmix_key Vf (chems pkgs (pkg s)) (key_of (uh U) s))) j) as [E|(E1 & E2)].
    - rewrite E in G. apply (P j k v s2); auto.
    - subst j. rewrite E2 in G. inversion G; subst. simpl in H. rewrite Hs in H. inversion H; subst. reflexivity. }
  destruct (pm_get U i) as [[k' v]|]; [|exact MISS].
  destruct (pkey_eqb k' (key_of (uh U) s)); [exact P|exact MISS].
Qed.

Lemma F_volU_fresh U i s : PM U -> nth_error (streams (uh U)) i = Some s ->
  snd (F_volU Vf pkgs U i s) == F_vol Vf pkgs (uh U) s.
Proof.
  intros P Hs. unfold F_volU, F_vol. destruct (qzerob (F_mol (uh U) s)); [reflexivity|].
  unfold vmix.
  destruct (pm_get U i) as [[k' v]|] eqn:G; [|reflexivity].
  destruct (pkey_eqb k' (key_of (uh U) s)) eqn:E; [|reflexivity].
  cbn [snd]. rewrite (P i k' v s G Hs). rewrite (vmix_key_ext _ _ _ E). reflexivity.
Qed.

Lemma totalU_PM U i s w : PM U -> nth_error (streams (uh U)) i = Some s -> PM (fst (totalU Vf MWf pkgs U i s w)).
Proof. intros P Hs. destruct w; simpl; auto. apply F_volU_PM; auto. Qed.

Lemma set_totalU_PM U i s w v : PM U -> nth_error (streams (uh U)) i = Some s -> PM (fst (set_totalU Vf MWf pkgs U i s w v)).
Proof.
  intros P Hs. unfold set_totalU. pose proof (totalU_PM U i s w P Hs) as P1.
  destruct (totalU_uh U i s w) as (A & _).
  destruct (totalU Vf MWf pkgs U i s w) as [U1 F]. cbn [fst] in *.
  assert (SC : forall f, PM (with_heap U1 (map_rows (uh U1) f (rowrefs (uh U1) s)))).
  { intros f. eapply (PM_ext O); [| |exact P1]; [|reflexivity]. apply PKP_same. simpl. apply map_rows_streams. }
  unfold scale_all, empty_all.
  destruct w; repeat match goal with |- context [if ?c then _ else _] => destruct c end; cbn [fst]; try exact P1; apply SC.
Qed.

Lemma nth_app_none {A} (l : list (option A)) j : nth j (l ++ [None]) None = nth j l None.
Proof.
  revert j; induction l as [|a l IH]; intros [|j]; simpl; auto. destruct j; reflexivity.
Qed.
Lemma nth_upd_none {A} (l : list (option A)) n : nth n (upd l n None) None = None.
Proof. revert n; induction l as [|a l IH]; intros [|n]; simpl; auto. Qed.

Lemma rf_rest_streams U0 i s ru fl t : streams (uh (fst (rf_rest U0 i s ru fl t))) = streams (uh U0).
Proof.
  unfold rf_rest.
  assert (T : forall U1 w f, streams (uh (fst (rf_tail U1 i s w f fl t))) = streams (uh U1)).
  { intros U1 w f. unfold rf_tail. destruct t as [x|].
    - rewrite set_totalU_streams. cbn [uh with_heap]. apply set_items_streams.
    - cbn [fst uh with_heap]. apply set_items_streams. }
  destruct ru as [uu|]; [|apply T].
  destruct (flow_lookup_uh U0 uu) as (A & _). destruct (flow_lookup utab U0 uu) as [U1 [[w f]|e]]; cbn [fst] in *.
  - rewrite T, A. reflexivity.
  - rewrite A. reflexivity.
Qed.
Lemma PM_rf_rest U0 i s ru fl t : PM U0 -> nth_error (streams (uh U0)) i = Some s -> PM (fst (rf_rest U0 i s ru fl t)).
Proof.
  intros P Hs. unfold rf_rest.
  assert (T : forall U1 w f, PM U1 -> nth_error (streams (uh U1)) i = Some s -> PM (fst (rf_tail U1 i s w f fl t))).
  { intros U1 w f P1 H1. unfold rf_tail.
    assert (P2 : PM (with_heap U1 (set_items Vf MWf pkgs (uh U1) s w f fl))).
    { eapply (PM_ext O); [| |exact P1]; [|reflexivity]. apply PKP_same. cbn [uh with_heap]. apply set_items_streams. }
    destruct t as [x|]; [|exact P2]. apply set_totalU_PM; [exact P2|]. cbn [uh with_heap]. rewrite set_items_streams. exact H1. }
  destruct ru as [uu|]; [|apply T; auto].
  destruct (flow_lookup_uh U0 uu) as (A & B). destruct (flow_lookup utab U0 uu) as [U1 [[w f]|e]]; cbn [fst] in *.
  - apply T; [|rewrite A; exact Hs]. eapply (PM_ext O); [| |exact P]; [apply PKP_same; rewrite A; reflexivity|exact B].
  - eapply (PM_ext O); [| |exact P]; [apply PKP_same; rewrite A; reflexivity|exact B].
Qed.
Lemma PM_stepU_reset U i rp ru rt rfl : PM U -> PM (fst (stepU Vf MWf pkgs utab U (OResetFlow i rp ru rt rfl))).
Proof.
  intros P. destruct (nth_error (streams (uh U)) i) as [s|] eqn:Hs; [|unfold stepU; rewrite Hs; exact P].
  destruct (multi s) eqn:M; [unfold stepU; rewrite Hs, M; exact P|].
  rewrite (stepU_reset_flow U i rp ru rt rfl s Hs M).
  assert (E0 : streams (reset_flow_pre (uh U) s rp) = streams (uh U)) by apply (proj2 (proj2 (reset_flow_pre_struct (uh U) s rp))).
  assert (P0 : PM (with_heap U (reset_flow_pre (uh U) s rp))).
  { eapply (PM_ext O); [| |exact P]; [|reflexivity]. apply PKP_same. exact E0. }
  assert (Hs0 : nth_error (streams (uh (with_heap U (reset_flow_pre (uh U) s rp)))) i = Some s) by (cbn [uh with_heap]; rewrite E0; exact Hs).
  destruct rfl as [|kv fl']; [destruct (nonzero_opt rt) as [x|]; [|exact P0]|]; apply PM_rf_rest; auto.
Qed.
Lemma stepU_reset_streams U i rp ru rt rfl : streams (uh (fst (stepU Vf MWf pkgs utab U (OResetFlow i rp ru rt rfl)))) = streams (uh U).
Proof.
  destruct (nth_error (streams (uh U)) i) as [s|] eqn:Hs; [|unfold stepU; rewrite Hs; reflexivity].
  destruct (multi s) eqn:M; [unfold stepU; rewrite Hs, M; reflexivity|].
  rewrite (stepU_reset_flow U i rp ru rt rfl s Hs M).
  assert (E0 : streams (reset_flow_pre (uh U) s rp) = streams (uh U)) by apply (proj2 (proj2 (reset_flow_pre_struct (uh U) s rp))).
  destruct rfl as [|kv fl']; [destruct (nonzero_opt rt) as [x|]; [|exact E0]|]; rewrite rf_rest_streams; exact E0.
Qed.

Lemma PM_stepU_from U fl : PM U -> PM (fst (stepU Vf MWf pkgs utab U (OFromStreams fl))).
Proof.
  intros P. unfold stepU, liftU, step.
  destruct (from_streams_cases (uh U) fl) as [(E & NX)|(X & a & g & snew & G & _ & _ & _ & _ & _ & S)].
  - destruct (from_streams (uh U) fl) as [h1 x]. cbn [fst snd] in *. subst h1.
    destruct x; cbn [is_none fst]; try (eapply (PM_ext O); [| |exact P]; [apply PKP_same|]; reflexivity). congruence.
  - destruct (from_streams (uh U) fl) as [h1 x]. cbn [fst snd] in *. subst x. cbn [is_none fst].
    intros j k v s2 GM H. unfold pm_get in GM. cbn [u_pm uh with_heap] in GM, H.
    set (n := length (streams (uh U))) in *.
    assert (LM : length (map (fun js => g (fst js) (snd js)) (combine (seq O n) (streams (uh U)))) = n).
    { rewrite map_length, combine_length, seq_length. unfold n. lia. }
    destruct (Nat.eq_dec j n) as [Q|N].
    + subst j. rewrite nth_upd_none in GM. discriminate.
    + rewrite nth_upd_neq in GM by auto. rewrite nth_app_none in GM.
      rewrite S in H. destruct (Nat.lt_ge_cases j n) as [L|GE].
      * rewrite nth_error_app1 in H by lia. unfold n in H. rewrite nth_error_map_seq in H. simpl in H.
        destruct (nth_error (streams (uh U)) j) as [s0|] eqn:E0; simpl in H; [|discriminate]. inversion H.
        destruct (G j s0) as (t & Gt). rewrite Gt. cbn [retc pkg]. apply (P j k v s0); auto.
      * rewrite nth_error_app2 in H by lia. rewrite LM in H.
        destruct (j - n)%nat as [|m] eqn:Q; simpl in H; [exfalso; lia|destruct m; discriminate].
Qed.

Lemma PM_stepU U o : PM U -> PM (fst (stepU Vf MWf pkgs utab U o)).
Proof.
  intros P.
  assert (D : (forall i k, o <> OThermo i k) -> (forall l, o <> OFromStreams l) -> PM (fst (liftU U (step Vf MWf pkgs utab (uh U) o)))).
  { intros NT NF. eapply (PM_ext (match tgt o with Some i => i | None => O end)); [| |exact P]; [|reflexivity]. unfold liftU. cbn [fst uh with_heap].
    apply step_PKP; try assumption. intros i E. rewrite E. reflexivity. }
  unfold stepU.
  destruct o as [ |i w|i w|i|i u r k|i u r k v|i u|i u v|i w r k v|i w v|i v|i v|i p|i l|i j f p t|i|i j|i k|i k|i w u r k|i w u r k v|i j w|i w r1 r2|fl|i rp ru rt rfl|i r|i|i mt mu ml mpf];
    try (apply PM_stepU_from; exact P); try (apply PM_stepU_reset; exact P); try (apply D; [intros; discriminate|intros; discriminate]);
    (destruct (nth_error (streams (uh U)) i) as [s|] eqn:Hs; [|try exact P]).
  - pose proof (totalU_PM U i s w P Hs) as X. destruct (totalU Vf MWf pkgs U i s w) as [U1 x]. exact X.
  - destruct (flow_lookup_uh U u) as (A & B). destruct (flow_lookup utab U u) as [U1 [[w f]|e]]; cbn [fst] in *.
    + eapply (PM_ext O); [| |exact P]; [|exact B]. apply PKP_same. unfold liftU, lift. cbn [fst uh with_heap]. rewrite A.
      pose proof (get_item_streams (uh U) s w r k) as X. destruct (get_item Vf MWf pkgs (uh U) s w r k) as [h1 [x|e]]; exact X.
    + eapply (PM_ext O); [| |exact P]; [|exact B]. apply PKP_same. rewrite A. reflexivity.
  - destruct (flow_lookup_uh U u) as (A & B). destruct (flow_lookup utab U u) as [U1 [[w f]|e]]; cbn [fst] in *.
    + eapply (PM_ext O); [| |exact P]; [|exact B]. apply PKP_same. unfold liftU. cbn [fst uh with_heap]. rewrite A. apply set_item_streams.
    + eapply (PM_ext O); [| |exact P]; [|exact B]. apply PKP_same. rewrite A. reflexivity.
  - destruct (flow_lookup_uh U u) as (A & B). destruct (flow_lookup utab U u) as [U1 [[w f]|e]] eqn:FL; cbn [fst] in *.
    + assert (P1 : PM U1) by (eapply (PM_ext O); [| |exact P]; [apply PKP_same; rewrite A; reflexivity|exact B]).
      assert (Hs1 : nth_error (streams (uh U1)) i = Some s) by (rewrite A; exact Hs).
      pose proof (totalU_PM U1 i s w P1 Hs1) as X. destruct (totalU Vf MWf pkgs U1 i s w) as [U2 x]. exact X.
    + eapply (PM_ext O); [| |exact P]; [|exact B]. apply PKP_same. rewrite A. reflexivity.
  - destruct (flow_lookup_uh U u) as (A & B). destruct (flow_lookup utab U u) as [U1 [[w f]|e]]; cbn [fst] in *.
    + assert (P1 : PM U1) by (eapply (PM_ext O); [| |exact P]; [apply PKP_same; rewrite A; reflexivity|exact B]).
      apply set_totalU_PM; auto. rewrite A; exact Hs.
    + eapply (PM_ext O); [| |exact P]; [|exact B]. apply PKP_same. rewrite A. reflexivity.
  - apply set_totalU_PM; auto.
  - assert (X : PM (fst (liftU U (step Vf MWf pkgs utab (uh U) (OPhases i l))))) by (apply D; intros; discriminate).
    destruct (liftU U (step Vf MWf pkgs utab (uh U) (OPhases i l))) as [U1 x]. cbn [fst] in *.
    match goal with |- context [if ?c then _ else _] => destruct c end; [apply PM_reset|]; exact X.
  - assert (X : PM (fst (liftU U (step Vf MWf pkgs utab (uh U) (OUnlink i))))) by (apply D; intros; discriminate).
    destruct (liftU U (step Vf MWf pkgs utab (uh U) (OUnlink i))) as [U1 x]. cbn [fst] in *.
    destruct (is_none x); [apply PM_reset|]; exact X.
  - assert (X : PM (fst (liftU U (step Vf MWf pkgs utab (uh U) (OUnlink i))))) by (apply D; intros; discriminate).
    destruct (liftU U (step Vf MWf pkgs utab (uh U) (OUnlink i))) as [U1 x]. cbn [fst] in *.
    destruct (is_none x); [apply PM_reset|]; exact X.
  - (* _reset_thermo: the package of stream i changes and its memo is dropped *)
    unfold liftU, step. rewrite Hs. unfold reset_thermo.
    destruct (Nat.eqb (pkg s) k) eqn:Q; cbn [fst snd].
    + eapply (PM_ext O); [| |exact P]; [apply PKP_same|]; reflexivity.
    + destruct (reset_none_shape (uh U) i s k) as (a & s1 & S1 & _).
      set (h1 := fst (reset_chemicals pkgs (uh U) i s k None)) in *.
      intros j kk v s2 G H.
      change (uh (pm_set (with_heap U h1) i None)) with h1 in H. rewrite S1 in H.
      unfold pm_get, pm_set in G. cbn [u_pm with_heap] in G.
      destruct (Nat.eq_dec j i) as [QQ|N].
      * subst j. exfalso. destruct (Nat.lt_ge_cases i (length (u_pm U))) as [L|GG].
        -- rewrite nth_upd_eq in G by auto. discriminate.
        -- rewrite nth_overflow in G by (rewrite upd_length; auto). discriminate.
      * rewrite nth_upd_neq in G by auto. rewrite nth_error_upd_other in H by auto. apply (P j kk v s2); auto.
  - destruct (cfactor_uh U w u) as (A & B). destruct (cfactor utab U w u) as [U1 [f|e]]; cbn [fst] in *.
    + eapply (PM_ext O); [| |exact P]; [|exact B]. apply PKP_same. unfold liftU, lift. cbn [fst uh with_heap]. rewrite A.
      pose proof (get_item_streams (uh U) s w r k) as X. destruct (get_item Vf MWf pkgs (uh U) s w r k) as [h1 [x|e]]; exact X.
    + eapply (PM_ext O); [| |exact P]; [|exact B]. apply PKP_same. cbn [uh with_heap]. rewrite A. apply touch_view_streams.
  - destruct (cfactor_uh U w u) as (A & B). destruct (cfactor utab U w u) as [U1 [f|e]]; cbn [fst] in *.
    + eapply (PM_ext O); [| |exact P]; [|exact B]. apply PKP_same. unfold liftU. cbn [fst uh with_heap]. rewrite A. apply set_item_streams.
    + eapply (PM_ext O); [| |exact P]; [|exact B]. apply PKP_same. cbn [uh with_heap]. rewrite A. apply touch_view_streams.
Qed.

Lemma PM_runU ops : forall U, PM U -> PM (fst (runU Vf MWf pkgs utab U ops)).
Proof.
  induction ops as [|o ops IH]; intros U I; simpl; auto.
  pose proof (PM_stepU U o I) as I1. destruct (stepU Vf MWf pkgs utab U o) as [U1 x]. cbn [fst] in I1.
  specialize (IH U1 I1). destruct (runU Vf MWf pkgs utab U1 ops) as [U2 xs]. exact IH.
Qed.
Lemma PM_buildU l : PM (buildU l).
Proof.
  intros i k v s G H. unfold pm_get, buildU in G. simpl in G.
  destruct (Nat.lt_ge_cases i (length l)) as [L|GG].
  - rewrite nth_repeat in G. discriminate.
  - rewrite nth_overflow in G by (rewrite repeat_length; auto). discriminate.
Qed.

(* ---------- a view written with another view: the written (mass / volumetric) values are what the destination then holds ---------- *)
Lemma xfer_mass_spec : forall vals mws mwd, length mws = length vals -> length mwd = length vals ->
  (forall b, In b mwd -> ~ b == 0) ->
  forall k, nthq (xfer_mass mws mwd vals) k * nthq mwd k == nthq vals k * nthq mws k.
Proof.
  induction vals as [|x t IH]; intros [|a ms] [|b md] L1 L2 NZ k; simpl in *; try discriminate.
  - rewrite !nthq_nil. ring.
  - destruct k as [|k]; unfold nthq; simpl.
    + destruct (qzerob x) eqn:Z.
      * apply qzerob_true in Z. rewrite Z. ring.
      * field. apply NZ. left; reflexivity.
    + apply (IH ms md); [lia|lia|]. intros c Hc. apply NZ. right; exact Hc.
Qed.

Lemma xfer_vol_spec h vo vs pko pks : vv_pkg vo = pko -> vv_pkg vs = pks ->
  forall vals ro rs k, vrow_ok pko ro -> vrow_ok pks rs ->
  forall j, exists To Po Td Pd,
    near To (cur_T h vo) /\ near Po (cur_P h vo) /\ near Td (cur_T h vs) /\ near Pd (cur_P h vs) /\
    nthq (fst (fst (xfer_vol Vf pkgs h vo vs ro rs k vals))) j * Vat h pks (vr_src rs) (k + j) Td Pd
    == nthq vals j * Vat h pko (vr_src ro) (k + j) To Po.
Proof.
  intros PO PS. induction vals as [|x t IH]; intros ro rs k OKo OKs j.
  - exists (cur_T h vo), (cur_P h vo), (cur_T h vs), (cur_P h vs).
    repeat (split; [apply near_refl|]). simpl. rewrite !nthq_nil. ring.
  - cbn [xfer_vol]. destruct (qzerob x) eqn:Z.
    + specialize (IH ro rs (S k) OKo OKs).
      destruct (xfer_vol Vf pkgs h vo vs ro rs (S k) t) as [[o ro'] rs'] eqn:E. cbn [fst snd] in *.
      destruct j as [|j].
      * exists (cur_T h vo), (cur_P h vo), (cur_T h vs), (cur_P h vs).
        repeat (split; [apply near_refl|]). unfold nthq; simpl. apply qzerob_true in Z. rewrite Z. ring.
      * destruct (IH j) as (To & Po & Td & Pd & N1 & N2 & N3 & N4 & V). exists To, Po, Td, Pd.
        repeat (split; [assumption|]). unfold nthq in *; simpl.
        replace (k + S j)%nat with (S k + j)%nat by lia. exact V.
    + destruct (vfactor_ok h vo ro k pko PO OKo) as ((To & Po & N1 & N2 & FV) & FO & FS).
      destruct (vfactor Vf pkgs h vo ro k) as [Vo ro1] eqn:EV. cbn [fst snd] in *.
      destruct (vfactor_ok h vs rs k pks PS OKs) as ((Td & Pd & N3 & N4 & FV') & FO' & FS').
      destruct (vfactor Vf pkgs h vs rs k) as [Vd rs1] eqn:EV'. cbn [fst snd] in *.
      specialize (IH ro1 rs1 (S k) FO FO').
      destruct (xfer_vol Vf pkgs h vo vs ro1 rs1 (S k) t) as [[o ro'] rs'] eqn:E. cbn [fst snd] in *.
      destruct j as [|j].
      * exists To, Po, Td, Pd. repeat (split; [assumption|]). unfold nthq; simpl. rewrite Nat.add_0_r.
        rewrite <- FV, <- FV'. field.
        rewrite FV'. unfold Vat. intros Q0.
        apply (Vf_nonzero (gid pkgs pks k) (base (src_phase h (vr_src rs))) Td Pd). lra.
      * destruct (IH j) as (To' & Po' & Td' & Pd' & M1 & M2 & M3 & M4 & V). exists To', Po', Td', Pd'.
        repeat (split; [assumption|]). unfold nthq in *; simpl.
        rewrite <- (vsrc_src _ _ FS), <- (vsrc_src _ _ FS').
        replace (k + S j)%nat with (S k + j)%nat by lia. exact V.
Qed.

(* ---------- which index dict the molar indexer consults ---------- *)
Lemma stepU_PKP U o i' : (forall i k, o <> OThermo i k) -> (forall l, o <> OFromStreams l) ->
  (forall i, tgt o = Some i -> i = i') -> PKP i' (uh U) (uh (fst (stepU Vf MWf pkgs utab U o))).
Proof.
  intros NT NF TG.
  assert (D : PKP i' (uh U) (uh (fst (liftU U (step Vf MWf pkgs utab (uh U) o))))).
  { unfold liftU. cbn [fst uh with_heap]. apply step_PKP; assumption. }
  unfold stepU.
  destruct o as [ |i w|i w|i|i u r k|i u r k v|i u|i u v|i w r k v|i w v|i v|i v|i p|i l|i j f p t|i|i j|i k|i k|i w u r k|i w u r k v|i j w|i w r1 r2|fl|i rp ru rt rfl|i r|i|i mt mu ml mpf];
    try exact D; try (exfalso; eapply NF; reflexivity); try (apply PKP_same; apply stepU_reset_streams);
    (destruct (nth_error (streams (uh U)) i) as [s|] eqn:Hs; [|try (apply PKP_same; reflexivity)]).
  - destruct (totalU_uh U i s w) as (A & _). destruct (totalU Vf MWf pkgs U i s w) as [U1 x]. cbn [fst] in *. apply PKP_same. rewrite A. reflexivity.
  - destruct (flow_lookup_uh U u) as (A & _). destruct (flow_lookup utab U u) as [U1 [[w f]|e]]; cbn [fst] in *; apply PKP_same.
    + unfold liftU, lift. cbn [fst uh with_heap]. rewrite A.
      pose proof (get_item_streams (uh U) s w r k) as X. destruct (get_item Vf MWf pkgs (uh U) s w r k) as [h1 [x|e]]; exact X.
    + rewrite A. reflexivity.
  - destruct (flow_lookup_uh U u) as (A & _). destruct (flow_lookup utab U u) as [U1 [[w f]|e]]; cbn [fst] in *; apply PKP_same.
    + unfold liftU. cbn [fst uh with_heap]. rewrite A. apply set_item_streams.
    + rewrite A. reflexivity.
  - destruct (flow_lookup_uh U u) as (A & _). destruct (flow_lookup utab U u) as [U1 [[w f]|e]]; cbn [fst] in *; apply PKP_same.
    + destruct (totalU_uh U1 i s w) as (B & _). destruct (totalU Vf MWf pkgs U1 i s w) as [U2 x]. cbn [fst] in *. rewrite B, A. reflexivity.
    + rewrite A. reflexivity.
  - destruct (flow_lookup_uh U u) as (A & _). destruct (flow_lookup utab U u) as [U1 [[w f]|e]]; cbn [fst] in *; apply PKP_same.
    + rewrite set_totalU_streams, A. reflexivity.
    + rewrite A. reflexivity.
  - apply PKP_same. apply set_totalU_streams.
  - unfold liftU in *. destruct (step Vf MWf pkgs utab (uh U) (OPhases i l)) as [h1 x]. cbn [fst snd] in *.
    match goal with |- context [if ?c then _ else _] => destruct c end; exact D.
  - unfold liftU in *. destruct (step Vf MWf pkgs utab (uh U) (OUnlink i)) as [h1 x]. cbn [fst snd] in *.
    destruct (is_none x); exact D.
  - unfold liftU in *. destruct (step Vf MWf pkgs utab (uh U) (OUnlink i)) as [h1 x]. cbn [fst snd] in *.
    destruct (is_none x); exact D.
  - exfalso. eapply NT; reflexivity.
  - destruct (cfactor_uh U w u) as (A & _). destruct (cfactor utab U w u) as [U1 [f|e]]; cbn [fst] in *; apply PKP_same.
    + unfold liftU, lift. cbn [fst uh with_heap]. rewrite A.
      pose proof (get_item_streams (uh U) s w r k) as X. destruct (get_item Vf MWf pkgs (uh U) s w r k) as [h1 [x|e]]; exact X.
    + cbn [uh with_heap]. rewrite A. apply touch_view_streams.
  - destruct (cfactor_uh U w u) as (A & _). destruct (cfactor utab U w u) as [U1 [f|e]]; cbn [fst] in *; apply PKP_same.
    + unfold liftU. cbn [fst uh with_heap]. rewrite A. apply set_item_streams.
    + cbn [uh with_heap]. rewrite A. apply touch_view_streams.
Qed.

Definition ICI K : Prop :=
  length (k_ic K) = length (streams (uh (ku K))) /\
  forall i s, nth_error (streams (uh (ku K))) i = Some s -> ic_get K i = ic_of s.

Lemma ic_of_eq s s' : multi s' = multi s -> phs s' = phs s -> pkg s' = pkg s -> ic_of s' = ic_of s.
Proof. intros A B C. unfold ic_of. rewrite A, B, C. reflexivity. Qed.

(* every stream but (possibly) the i-th is still of the class, phases and package it had *)
Definition SHP (i : nat) h h' : Prop :=
  length (streams h') = length (streams h) /\
  forall j s', nth_error (streams h') j = Some s' -> j <> i ->
    exists s, nth_error (streams h) j = Some s /\ ic_of s' = ic_of s.
Lemma PKP_SHP i h h' : PKP i h h' -> SHP i h h'.
Proof.
  intros (L & P). split; [exact L|]. intros j s' H N. destruct (P j s' H) as (s0 & H0 & EP & F).
  destruct (F N) as (M & PH). exists s0. split; [exact H0|apply ic_of_eq; auto].
Qed.

Lemma ICI_refresh K U1 i : ICI K -> SHP i (uh (ku K)) (uh U1) ->
  ICI (mkK U1 (ic_refresh (uh U1) (k_ic K) i)).
Proof.
  intros (L & IC) (LP & P). unfold ICI, ic_get, ic_refresh. cbn [ku k_ic].
  destruct (nth_error (streams (uh U1)) i) as [si|] eqn:Hi.
  - split; [rewrite upd_length; congruence|]. intros j s' H. destruct (Nat.eq_dec j i) as [Q|N].
    + subst j. rewrite nth_upd_eq by (rewrite L, <- LP; eapply nth_error_lt; eauto). congruence.
    + rewrite nth_upd_neq by auto. destruct (P j s' H N) as (s0 & H0 & E). rewrite E. apply IC. exact H0.
  - split; [congruence|]. intros j s' H. destruct (Nat.eq_dec j i) as [Q|N]; [congruence|].
    destruct (P j s' H N) as (s0 & H0 & E). rewrite E. apply IC. exact H0.
Qed.
Lemma ICI_keep K U1 : ICI K -> (forall i', PKP i' (uh (ku K)) (uh U1)) -> ICI (mkK U1 (k_ic K)).
Proof.
  intros (L & IC) P. destruct (P O) as (LP & _). split; cbn [ku k_ic]; [congruence|].
  intros j s' H. destruct (P (S j)) as (_ & PJ). destruct (PJ j s' H) as (s0 & H0 & EP & F).
  destruct (F (Nat.neq_succ_diag_r j)) as (M & PH). unfold ic_get. cbn [k_ic].
  rewrite (ic_of_eq s0 s' M PH EP). apply IC. exact H0.
Qed.

Lemma stepU_from_heap U fl :
  uh (fst (stepU Vf MWf pkgs utab U (OFromStreams fl))) = fst (from_streams (uh U) fl) /\
  snd (stepU Vf MWf pkgs utab U (OFromStreams fl)) = snd (from_streams (uh U) fl).
Proof.
  unfold stepU, liftU, step. destruct (from_streams (uh U) fl) as [h1 x]. cbn [fst snd].
  destruct (is_none x); split; reflexivity.
Qed.

Lemma ICI_stepK K o : ICI K -> ICI (fst (stepK Vf MWf pkgs utab K o)).
Proof.
  intros I. unfold stepK.
  destruct (keyed utab o) as [[[[i0 [w0|]] r0] k0]|] eqn:KQ.
  - (* a name-keyed access: the same kind of operation with positions in place of the key *)
    destruct (nth_error (streams (uh (ku K))) i0) as [s0|].
    + destruct (resolve pkgs K i0 s0 w0 r0 k0) as [rk|e]; [|exact I].
      destruct (stepU Vf MWf pkgs utab (ku K) (rekey o (fst rk) (snd rk))) as [U1 x] eqn:SU. cbn [fst].
      assert (UH : uh U1 = uh (fst (stepU Vf MWf pkgs utab (ku K) (rekey o (fst rk) (snd rk))))) by (rewrite SU; reflexivity).
      destruct o; simpl in KQ; try discriminate; cbn [reselects rekey] in *;
        (apply ICI_keep; [exact I|]; intros i'; rewrite UH; apply stepU_PKP; intros; discriminate).
    + destruct (stepU Vf MWf pkgs utab (ku K) o) as [U1 x] eqn:SU. cbn [fst].
      assert (UH : uh U1 = uh (fst (stepU Vf MWf pkgs utab (ku K) o))) by (rewrite SU; reflexivity).
      destruct o; simpl in KQ; try discriminate; cbn [reselects] in *;
        (apply ICI_keep; [exact I|]; intros i'; rewrite UH; apply stepU_PKP; intros; discriminate).
  - destruct (stepU Vf MWf pkgs utab (ku K) o) as [U1 x] eqn:SU. cbn [fst].
    assert (UH : uh U1 = uh (fst (stepU Vf MWf pkgs utab (ku K) o))) by (rewrite SU; reflexivity).
    destruct o; simpl in KQ; try discriminate; cbn [reselects] in *;
      (apply ICI_keep; [exact I|]; intros i'; rewrite UH; apply stepU_PKP; intros; discriminate).
  - destruct (stepU Vf MWf pkgs utab (ku K) o) as [U1 x] eqn:SU. cbn [fst].
    assert (UH : uh U1 = uh (fst (stepU Vf MWf pkgs utab (ku K) o))) by (rewrite SU; reflexivity).
    assert (XH : x = snd (stepU Vf MWf pkgs utab (ku K) o)) by (rewrite SU; reflexivity).
    destruct o as [ |i w|i w|i|i u r k|i u r k v|i u|i u v|i w r k v|i w v|i v|i v|i p|i l|i j f p t|i|i j|i kk|i kk|i w u r k|i w u r k v|i j w|i w r1 r2|fl|i rp ru rt rfl|i r|i|i mt mu ml mpf];
      simpl in KQ; try discriminate; cbn [reselects];
      try (apply ICI_keep; [exact I|]; intros i'; rewrite UH; apply stepU_PKP; intros; discriminate);
      try (apply ICI_refresh; [exact I|]; apply PKP_SHP; rewrite UH; apply stepU_PKP; intros; try discriminate;
           match goal with H : tgt _ = Some _ |- _ => simpl in H; inversion H; reflexivity end).
    + (* _reset_thermo: the package of stream i changes, its dict is re-selected *)
      apply ICI_refresh; [exact I|]. rewrite UH. unfold stepU, liftU, step.
      destruct (nth_error (streams (uh (ku K))) i) as [s|] eqn:Hs; [|apply PKP_SHP, PKP_same; reflexivity].
      unfold reset_thermo. destruct (Nat.eqb (pkg s) kk) eqn:Q; cbn [fst snd uh with_heap pm_set].
      * apply PKP_SHP, PKP_same. reflexivity.
      * destruct (reset_none_shape (uh (ku K)) i s kk) as (a & s1 & S1 & _).
        split; [rewrite S1, upd_length; reflexivity|]. intros j y H N. rewrite S1 in H.
        rewrite nth_error_upd_other in H by auto. exists y. auto.
    + (* from_streams: one more stream, whose new MaterialIndexer selects its own dict *)
      destruct (stepU_from_heap (ku K) fl) as (HH & HX). rewrite <- UH in HH. rewrite <- XH in HX.
      destruct I as (L & IC).
      destruct (from_streams_cases (uh (ku K)) fl) as [(E & NX)|(X & a & g & snew & G & _ & _ & _ & _ & _ & S)].
      * rewrite HX. destruct (snd (from_streams (uh (ku K)) fl)); cbn [is_none]; try congruence;
          (split; cbn [ku k_ic]; [rewrite HH, E; exact L|]; intros j s' H; rewrite HH, E in H; unfold ic_get; cbn [k_ic]; apply IC; exact H).
      * rewrite HX, X. cbn [is_none]. unfold ICI, ic_get, ic_refresh. cbn [ku k_ic].
        set (n := length (streams (uh (ku K)))) in *.
        assert (LM : length (map (fun js => g (fst js) (snd js)) (combine (seq O n) (streams (uh (ku K))))) = n).
        { rewrite map_length, combine_length, seq_length. unfold n. lia. }
        assert (HN : nth_error (streams (uh U1)) n = Some snew).
        { rewrite HH, S. rewrite nth_error_app2 by lia. rewrite LM, Nat.sub_diag. reflexivity. }
        rewrite HN. split.
        -- rewrite upd_length, app_length, HH, S, app_length, LM. simpl. lia.
        -- intros j s' H. destruct (Nat.eq_dec j n) as [QQ|N].
           ++ subst j. rewrite nth_upd_eq by (rewrite app_length; simpl; lia). congruence.
           ++ rewrite nth_upd_neq by auto. rewrite HH, S in H.
              destruct (Nat.lt_ge_cases j n) as [LT|GE].
              ** rewrite nth_error_app1 in H by lia. unfold n in H. rewrite nth_error_map_seq in H. simpl in H.
                 destruct (nth_error (streams (uh (ku K))) j) as [sj|] eqn:EJ; simpl in H; [|discriminate]. inversion H.
                 destruct (G j sj) as (t & Gt). rewrite Gt. rewrite nth_app_lt by lia.
                 change (ic_of (retc sj t)) with (ic_of sj). apply IC. exact EJ.
              ** rewrite nth_error_app2 in H by lia. rewrite LM in H.
                 destruct (j - n)%nat as [|m] eqn:QQ; simpl in H; [exfalso; lia|destruct m; discriminate].
Qed.

Lemma ICI_runK ops : forall K, ICI K -> ICI (fst (runK Vf MWf pkgs utab K ops)).
Proof.
  induction ops as [|o ops IH]; intros K I; simpl; auto.
  pose proof (ICI_stepK K o I) as I1. destruct (stepK Vf MWf pkgs utab K o) as [K1 x]. cbn [fst] in I1.
  specialize (IH K1 I1). destruct (runK Vf MWf pkgs utab K1 ops) as [K2 xs]. exact IH.
Qed.
Lemma ICI_buildK l : ICI (buildK l).
Proof.
  split; simpl. apply map_length.
  intros i s H. unfold ic_get; simpl. erewrite nth_map_some; eauto.
Qed.

(* the other invariants go through the outer layer unchanged: stepK runs stepU on an operation *)
Lemma stepK_stepU K o : fst (stepK Vf MWf pkgs utab K o) = K \/
  exists o1, ku (fst (stepK Vf MWf pkgs utab K o)) = fst (stepU Vf MWf pkgs utab (ku K) o1).
Proof.
  unfold stepK.
  match goal with |- context [match ?ee with Ok _ => _ | Err _ => _ end] => destruct ee as [o1|er] end; [|left; reflexivity].
  right. exists o1. destruct (stepU Vf MWf pkgs utab (ku K) o1) as [U1 x]. reflexivity.
Qed.
Lemma lift_runK (P : ustate -> Prop) : (forall U o, P U -> P (fst (stepU Vf MWf pkgs utab U o))) ->
  forall ops K, P (ku K) -> P (ku (fst (runK Vf MWf pkgs utab K ops))).
Proof.
  intros ST. induction ops as [|o ops IH]; intros K H; simpl; auto.
  assert (H1 : P (ku (fst (stepK Vf MWf pkgs utab K o)))).
  { destruct (stepK_stepU K o) as [E|(o1 & E)]; rewrite E; auto. }
  destruct (stepK Vf MWf pkgs utab K o) as [K1 x]. cbn [fst] in H1.
  specialize (IH K1 H1). destruct (runK Vf MWf pkgs utab K1 ops) as [K2 xs]. exact IH.
Qed.

(* ====================================================================================
   The outermost layer: phase streams of a MultiStream (stepS)
   ==================================================================================== *)
Definition KInv K : Prop := Inv (uh (ku K)) /\ UC (ku K) /\ PM (ku K) /\ ICI K.

Lemma KInv_stepK K o : KInv K -> KInv (fst (stepK Vf MWf pkgs utab K o)).
Proof.
  intros (I & C & P & IC). pose proof (ICI_stepK K o IC) as IC1.
  destruct (stepK_stepU K o) as [E|(o1 & E)].
  - rewrite E. split; [exact I|split; [exact C|split; [exact P|rewrite E in IC1; exact IC1]]].
  - unfold KInv. rewrite E. split; [apply inv_stepU; exact I|split; [apply UC_stepU; exact C|split; [apply PM_stepU; exact P|exact IC1]]].
Qed.

Lemma ICI_same K K' : uh (ku K') = uh (ku K) -> k_ic K' = k_ic K -> ICI K -> ICI K'.
Proof. intros A B (L & IC). unfold ICI, ic_get. rewrite A, B. split; auto. Qed.

Lemma KInv_pm_reset K c : KInv K -> KInv (k_pm_reset K c).
Proof.
  intros (I & C & P & IC). unfold k_pm_reset. split; [|split; [|split]]; cbn [ku].
  - exact I.
  - eapply UC_ext; [| |exact C]; reflexivity.
  - apply PM_reset. exact P.
  - eapply ICI_same; [| |exact IC]; reflexivity.
Qed.
Lemma KInv_reset_memos l : forall K, KInv K -> KInv (reset_memos K l).
Proof. induction l as [|[j [p c]] l IH]; intros K H; simpl; auto. apply IH. apply KInv_pm_reset. exact H. Qed.

Lemma KInv_repoint K c row p pk : KInv K -> KInv (fst (repoint K c row p pk)).
Proof.
  intros HK. pose proof HK as (I & C & P & IC). unfold repoint.
  destruct (nth_error (streams (uh (ku K))) c) as [sc|] eqn:Hc; [|exact HK].
  destruct (multi sc) eqn:M; [exact HK|].
  cbn [new_cache new_box fst snd].
  set (h := uh (ku K)) in *.
  set (s' := mkstream false row (length (boxes (set_caches h (caches h ++ [cache0])))) [] pk (length (caches h)) (tc sc)).
  set (h2 := set_boxes (set_caches h (caches h ++ [cache0])) (boxes (set_caches h (caches h ++ [cache0])) ++ [p])).
  assert (LC : (c < length (streams h))%nat) by (eapply nth_error_lt; eauto).
  unfold KInv, k_pm_reset, k_with_heap. cbn [ku k_ic uh with_heap pm_set].
  split; [|split; [|split]].
  - eapply (inv_rebind h h2 c sc s' []); eauto; try reflexivity. simpl. rewrite app_nil_r. reflexivity. intros Q; discriminate.
  - eapply UC_ext; [| |exact C]; reflexivity.
  - intros j k v s2 G H. unfold pm_get in G. simpl in G, H.
    destruct (Nat.eq_dec j c) as [Q|N].
    + subst j. exfalso. destruct (Nat.lt_ge_cases c (length (u_pm (ku K)))) as [L|GE].
      * rewrite nth_upd_eq in G by auto. discriminate.
      * rewrite nth_overflow in G by (rewrite upd_length; auto). discriminate.
    + rewrite nth_upd_neq in G by auto. rewrite nth_error_upd_other in H by auto. apply (P j k v s2); auto.
  - destruct IC as (L & X). split; cbn [ku k_ic uh]; simpl.
    + rewrite upd_length. exact L.
    + intros j s2 H. simpl in H. destruct (Nat.eq_dec j c) as [Q|N].
      * subst j. rewrite nth_error_upd_same in H by auto. inversion H; subst s2.
        change (ic_get K c = ic_of s'). rewrite (X c sc Hc). unfold ic_of. rewrite M. reflexivity.
      * rewrite nth_error_upd_other in H by auto. change (ic_get K j = ic_of s2). apply X. exact H.
Qed.

Lemma KInv_repoint_all check sp l : forall K, KInv K -> KInv (fst (fst (repoint_all K check sp l))).
Proof.
  induction l as [|[i [p c]] l IH]; intros K H; simpl; auto.
  destruct (pindex (phs sp) p) as [r|]; [|apply IH; exact H].
  match goal with |- context [if ?b then _ else _] => destruct b end; [|apply IH; exact H].
  pose proof (KInv_repoint K c (nth r (getarr (uh (ku K)) (sdata sp)) O) p (pkg sp) H) as H1.
  destruct (repoint K c (nth r (getarr (uh (ku K)) (sdata sp)) O) p (pkg sp)) as [K1 b]. cbn [fst] in H1.
  specialize (IH K1 H1). destruct (repoint_all K1 check sp l) as [[K2 keep] bs]. exact IH.
Qed.

(* one more single-phase stream (with a new, empty view cache) at the end of the store *)
Lemma KInv_grow K h3 snew :
  KInv K -> multi snew = false -> cch snew = length (caches (uh (ku K))) ->
  arrs h3 = arrs (uh (ku K)) -> caches h3 = caches (uh (ku K)) ++ [cache0] ->
  streams h3 = streams (uh (ku K)) ++ [snew] ->
  KInv (k_grow K h3 (length (streams (uh (ku K))))).
Proof.
  intros (I & C & P & IC) M CS A CC S. set (h := uh (ku K)) in *. set (n := length (streams h)).
  assert (MS : map (fun js : nat * stream => snd js) (combine (seq O (length (streams h))) (streams h)) = streams h).
  { clear. generalize O. induction (streams h) as [|x l IH]; intros b; simpl; auto. f_equal. apply IH. }
  unfold KInv, k_grow. cbn [ku k_ic uh]. split; [|split; [|split]].
  - eapply (inv_adopt h [] (fun _ s => s) snew I); eauto.
    + intros j s. exists (tc s). symmetry. apply retc_self.
    + intros Q. congruence.
    + rewrite app_nil_r. exact A.
    + rewrite S. f_equal. symmetry. exact MS.
  - eapply UC_ext; [| |exact C]; reflexivity.
  - intros j k v s2 G H. unfold pm_get in G. cbn [u_pm uh] in G, H. rewrite S in H.
    destruct (Nat.eq_dec j n) as [Q|N].
    + subst j. rewrite nth_upd_none in G. discriminate.
    + rewrite nth_upd_neq in G by auto. rewrite nth_app_none in G.
      destruct (Nat.lt_ge_cases j n) as [L|GE].
      * rewrite nth_error_app1 in H by (unfold n in L; exact L). apply (P j k v s2); auto.
      * rewrite nth_error_app2 in H by (unfold n in GE; exact GE).
        destruct (j - length (streams h))%nat as [|m] eqn:Q; simpl in H; [exfalso; unfold n in *; lia|destruct m; discriminate].
  - destruct IC as (L & X). split; cbn [ku k_ic uh].
    + rewrite upd_length, app_length, S, app_length, L. reflexivity.
    + intros j s2 H. rewrite S in H. unfold ic_get. cbn [k_ic].
      destruct (Nat.eq_dec j n) as [Q|N].
      * subst j. rewrite nth_error_app2 in H by (unfold n; lia). unfold n in H. rewrite Nat.sub_diag in H. simpl in H.
        inversion H; subst s2. rewrite nth_upd_eq by (rewrite app_length; simpl; fold h in L; unfold n; lia).
        unfold ic_of. rewrite M. reflexivity.
      * rewrite nth_upd_neq by auto.
        destruct (Nat.lt_ge_cases j n) as [LT|GE].
        -- rewrite nth_error_app1 in H by (unfold n in LT; exact LT). rewrite nth_app_lt by (fold h in L; unfold n in LT; lia).
           apply X. exact H.
        -- rewrite nth_error_app2 in H by (unfold n in GE; exact GE).
           destruct (j - length (streams h))%nat as [|m] eqn:Q; simpl in H; [exfalso; unfold n in *; lia|destruct m; discriminate].
Qed.

Ltac kcrush :=
  repeat (match goal with
  | H1 : KInv ?K |- context [repoint_all ?K ?c ?sp ?l] =>
      let HR := fresh "HR" in
      pose proof (KInv_repoint_all c sp l K H1) as HR;
      destruct (repoint_all K c sp l) as [[? ?] ?]; cbn [fst] in HR
  | |- context [if ?b then _ else _] => destruct b
  | |- context [match ?x with _ => _ end] => destruct x
  end); cbn [fst sk]; try assumption; try (apply KInv_reset_memos; assumption).

Lemma KInv_stepS0 S o : KInv (sk S) -> KInv (sk (fst (stepS0 Vf MWf pkgs utab S o))).
Proof.
  intros H. unfold stepS0. cbv beta zeta.
  destruct o as [ |i w|i w|i|i u r k|i u r k v|i u|i u v|i w r k v|i w v|i v|i v|i p|i l|i j f p t|i|i j|i k|i k|i w u r k|i w u r k v|i j w|i w r1 r2|fl|i rp ru rt rfl|i r|i|i mt mu ml mpf]; cbv beta iota zeta.
  26: { (* ms[phase] *)
    destruct (nth_error (streams (uh (ku (sk S)))) i) as [s|] eqn:Hs; [|exact H].
    destruct (negb (multi s)); [exact H|].
    destruct (nth_error (phs s) r) as [p|]; [|exact H].
    destruct (nth_error (getarr (uh (ku (sk S))) (sdata s)) r) as [d|]; [|exact H].
    destruct (sub_find i p (s_subs S)); [exact H|].
    cbn [new_cache new_box fst snd sk].
    eapply KInv_grow; [exact H|..]; try reflexivity; reflexivity. }
  all: match goal with |- context [stepK _ _ _ _ _ ?oo] =>
         pose proof (KInv_stepK (sk S) oo H) as H1; destruct (stepK Vf MWf pkgs utab (sk S) oo) as [K1 x]; cbn [fst] in H1 end.
  all: kcrush.
Qed.

(* MultiStream.reset_flow is a composition of operations of the outermost machine *)
Lemma KInv_set_flows_row i u r fl : forall S, KInv (sk S) -> KInv (sk (fst (set_flows_row Vf MWf pkgs utab S i u r fl))).
Proof.
  induction fl as [|[k v] t IH]; intros S H; cbn [set_flows_row fst]; auto.
  pose proof (KInv_stepS0 S (OSetFlow i u r k v) H) as H1.
  destruct (stepS0 Vf MWf pkgs utab S (OSetFlow i u r k v)) as [S1 x]. cbn [fst] in H1.
  destruct (is_none x); [apply IH; exact H1|exact H1].
Qed.
Lemma KInv_set_phase_flows i u pf : forall S, KInv (sk S) -> KInv (sk (fst (set_phase_flows Vf MWf pkgs utab S i u pf))).
Proof.
  induction pf as [|[p fl] t IH]; intros S H; cbn [set_phase_flows fst]; auto.
  destruct (nth_error (streams (s_heap S)) i) as [s|]; [|exact H].
  destruct (pindex (phs s) p) as [r|]; [|exact H].
  pose proof (KInv_set_flows_row i u r fl S H) as H1.
  destruct (set_flows_row Vf MWf pkgs utab S i u r fl) as [S1 x]. cbn [fst] in H1.
  destruct (is_none x); [apply IH; exact H1|exact H1].
Qed.
Lemma KInv_stepS S o : KInv (sk S) -> KInv (sk (fst (stepS Vf MWf pkgs utab S o))).
Proof.
  intros H. unfold stepS. destruct o; try (apply KInv_stepS0; exact H).
  unfold reset_flow_multi.
  destruct (nth_error (streams (s_heap S)) i) as [s|]; [|exact H].
  destruct (negb (multi s)); [exact H|].
  set (ps := match l with Some x => x | None => Pl :: Pg :: map fst pf end).
  destruct (psort ps) as [|p1 [|p2 pr]]; try exact H.
  pose proof (KInv_stepS0 S (OEmpty i) H) as H1.
  destruct (stepS0 Vf MWf pkgs utab S (OEmpty i)) as [S1 x1]. cbn [fst] in H1.
  destruct (negb (is_none x1)); [exact H1|].
  pose proof (KInv_stepS0 S1 (OPhases i ps) H1) as H2.
  destruct (stepS0 Vf MWf pkgs utab S1 (OPhases i ps)) as [S2 x2]. cbn [fst] in H2.
  destruct (negb (is_none x2)); [exact H2|].
  pose proof (KInv_set_phase_flows i u pf S2 H2) as H3.
  destruct (set_phase_flows Vf MWf pkgs utab S2 i u pf) as [S3 x3]. cbn [fst] in H3.
  destruct (negb (is_none x3)); [exact H3|].
  destruct (nonzero_opt tot) as [t|]; [apply KInv_stepS0; exact H3|exact H3].
Qed.

Lemma KInv_runS ops : forall S, KInv (sk S) -> KInv (sk (fst (runS Vf MWf pkgs utab S ops))).
Proof.
  induction ops as [|o ops IH]; intros S H; simpl; auto.
  pose proof (KInv_stepS S o H) as H1. destruct (stepS Vf MWf pkgs utab S o) as [S1 x]. cbn [fst] in H1.
  specialize (IH S1 H1). destruct (runS Vf MWf pkgs utab S1 ops) as [S2 xs]. exact IH.
Qed.
Lemma KInv_buildS l : KInv (sk (buildS l)).
Proof.
  simpl. split; [apply inv_build|split; [apply UC_buildU|split; [apply PM_buildU|apply ICI_buildK]]].
Qed.

(* ---------- Stream.reset_flow: the flows are converted with the NEW phase ---------- *)
Lemma set_item_boxes h s w r k v : boxes (fst (set_item Vf MWf pkgs h s w r k v)) = boxes h.
Proof.
  unfold set_item. destruct w.
  - destruct (nth_error (rowrefs h s) r); reflexivity.
  - unfold by_mass. destruct (c_mass (getcache h (cch s))); cbn [fst snd];
      match goal with |- context [nth_error ?l r] => destruct (nth_error l r) end; reflexivity.
  - destruct (nth_error (vv_rows (by_volume h s)) r) as [vr|]; [|reflexivity].
    destruct (qzerob v); [reflexivity|].
    destruct (vfactor Vf pkgs h (by_volume h s) vr k) as [V vr']. reflexivity.
Qed.

Lemma reset_flow_reads_back h i s p u w f k v :
  Inv h -> nth_error (streams h) i = Some s -> multi s = false ->
  unit_of utab u = Some (w, f) -> ~ f == 0 ->
  (sdata s < length (rows h))%nat -> (pbox s < length (boxes h))%nat -> (k < length (getrow h (sdata s)))%nat ->
  let h1 := fst (reset_flow Vf MWf pkgs utab h s (Some p) (Some u) None [(k, v)]) in
  getbox h1 (pbox s) = p /\
  exists h2 x, get_item Vf MWf pkgs h1 s w O k = (h2, Ok x) /\ f * x == v.
Proof.
  intros I Hs M U NZ D B K. unfold reset_flow. rewrite M. cbn [nonzero_opt]. rewrite U. cbn [set_items fst].
  set (h0 := reset_flow_pre h s (Some p)).
  assert (I0 : Inv h0) by (apply inv_reset_flow_pre; exact I).
  assert (Hs0 : nth_error (streams h0) i = Some s).
  { unfold h0. rewrite (proj2 (proj2 (reset_flow_pre_struct h s (Some p)))). exact Hs. }
  assert (R0 : h0 = put_box (put_row h (sdata s) (vzero (length (getrow h (sdata s))))) (pbox s) p).
  { unfold h0, reset_flow_pre, empty_all, rowrefs. rewrite M. reflexivity. }
  assert (SR : nth_error (srcs h0 s) O = Some (sdata s, Box (pbox s))) by (unfold srcs; rewrite M; reflexivity).
  assert (D0 : (sdata s < length (rows h0))%nat).
  { rewrite R0. simpl. rewrite upd_length. exact D. }
  assert (K0 : (k < length (getrow h0 (sdata s)))%nat).
  { rewrite R0. unfold getrow. simpl. rewrite nth_upd_eq by auto. rewrite map_length. unfold vzero. rewrite repeat_length. exact K. }
  assert (B0 : getbox h0 (pbox s) = p).
  { rewrite R0. unfold getbox. simpl. apply nth_upd_eq. exact B. }
  destruct (set_get_item h0 i s w O k (v / f) (sdata s) (Box (pbox s)) I0 Hs0 SR D0 K0) as (_ & h2 & x & G & X).
  split.
  - unfold getbox. rewrite set_item_boxes. exact B0.
  - exists h2, x. split; [exact G|]. rewrite X. field. exact NZ.
Qed.

End Proofs.
