(* C11 — get_property / set_property (ModelProp.v): the invariants of every layer survive them, the factor cache of the
   units object never changes what a conversion answers, whichever call filled it first. *)
From Coq Require Import List QArith Bool Arith.
From V Require Import Common.NumFacts C11.Model C11.Proofs C11.ModelProp.
Import ListNotations.
Open Scope Q_scope.

Section P.
Variable Vf : nat -> phase -> Q -> Q -> Q.
Variable MWf : nat -> Q.
Variable pkgs : list (list nat).
Variable utab : list (option (view * Q)).

Lemma PM_same U U' : uh U' = uh U -> u_pm U' = u_pm U -> PM Vf pkgs U -> PM Vf pkgs U'.
Proof.
  intros A B P i k v s G H. apply (P i k v s).
  - unfold pm_get in *. rewrite <- B. exact G.
  - rewrite <- A. exact H.
Qed.

(* what conversion_factor leaves behind: same heap, same property memo, same pointers and registry; only the factor
   cache may have one more (coherent) entry *)
Definition same_but_factors S S1 : Prop :=
  uh (ku (sk S1)) = uh (ku (sk S)) /\ u_pm (ku (sk S1)) = u_pm (ku (sk S)) /\
  k_ic (sk S1) = k_ic (sk S) /\ s_subs S1 = s_subs S /\ s_locked S1 = s_locked S.

Lemma convS_same S w u : same_but_factors S (fst (convS utab S w u)).
Proof.
  unfold convS. destruct (cfactor_uh utab (ku (sk S)) w u) as (A & B).
  destruct (cfactor utab (ku (sk S)) w u) as [U1 q]. cbn [fst snd] in *. unfold same_but_factors, set_ku. cbn.
  repeat split; auto.
Qed.

Lemma convS_ok S w u : KInv Vf pkgs utab (sk S) ->
  snd (convS utab S w u) = conv utab w u /\ KInv Vf pkgs utab (sk (fst (convS utab S w u))).
Proof.
  intros (I & C & P & IC). unfold convS.
  destruct (cfactor_uh utab (ku (sk S)) w u) as (A & B). destruct (cfactor_ok utab (ku (sk S)) w u C) as (Q1 & C1).
  destruct (cfactor utab (ku (sk S)) w u) as [U1 q]. cbn [fst snd] in *. split; [exact Q1|].
  unfold set_ku. cbn [sk]. split; [cbn [ku]; rewrite A; exact I|]. split; [exact C1|].
  split; [cbn [ku]; eapply PM_same; eauto|].
  eapply ICI_same; [| |exact IC]; cbn; auto.
Qed.

Lemma KInv_get_property S i w u : KInv Vf pkgs utab (sk S) ->
  KInv Vf pkgs utab (sk (fst (get_property Vf MWf pkgs utab S i w u))).
Proof.
  intros H. unfold get_property.
  pose proof (KInv_stepS Vf MWf pkgs utab S (OTotal i w) H) as H1.
  destruct (stepS Vf MWf pkgs utab S (OTotal i w)) as [S1 x]. cbn [fst] in H1.
  destruct x as [|e|m|fl|]; try exact H1.
  destruct m as [|r m']; [exact H1|]. destruct r as [|y r']; [exact H1|]. destruct r'; [|exact H1]. destruct m'; [|exact H1].
  pose proof (proj2 (convS_ok S1 w u H1)) as H2. destruct (convS utab S1 w u) as [S2 q]. exact H2.
Qed.

Lemma KInv_set_property S i w u v : KInv Vf pkgs utab (sk S) ->
  KInv Vf pkgs utab (sk (fst (set_property Vf MWf pkgs utab S i w u v))).
Proof.
  intros H. unfold set_property.
  pose proof (proj2 (convS_ok S w u H)) as H1. destruct (convS utab S w u) as [S1 q]. cbn [fst] in H1.
  destruct q as [f|e]; [|exact H1]. apply KInv_stepS. exact H1.
Qed.

Lemma KInv_stepX S o : KInv Vf pkgs utab (sk S) -> KInv Vf pkgs utab (sk (fst (stepX Vf MWf pkgs utab S o))).
Proof.
  intros H. destruct o as [o|i w u|i w u v]; simpl.
  - apply KInv_stepS. exact H.
  - apply KInv_get_property. exact H.
  - apply KInv_set_property. exact H.
Qed.

Lemma KInv_runX ops : forall S, KInv Vf pkgs utab (sk S) -> KInv Vf pkgs utab (sk (fst (runX Vf MWf pkgs utab S ops))).
Proof.
  induction ops as [|o ops IH]; intros S H; simpl; auto.
  pose proof (KInv_stepX S o H) as H1. destruct (stepX Vf MWf pkgs utab S o) as [S1 x]. cbn [fst] in H1.
  specialize (IH S1 H1). destruct (runX Vf MWf pkgs utab S1 ops) as [S2 xs]. exact IH.
Qed.

Lemma conv_right w u f : unit_of utab u = Some (w, f) -> conv utab w u = Ok f.
Proof. intros E. unfold conv. rewrite E, view_eqb_refl. reflexivity. Qed.
Lemma conv_wrong w u : (forall f, unit_of utab u <> Some (w, f)) -> conv utab w u = Err EDim.
Proof.
  intros WD. unfold conv. destruct (unit_of utab u) as [[w' f]|] eqn:E; [|reflexivity].
  destruct (view_eqb w w') eqn:Q; [|reflexivity]. exfalso. apply (WD f). apply view_eqb_eq in Q. subst. reflexivity.
Qed.

(* set_property in a unit of the right dimension IS the total-flow setter with v / factor, where factor is what pint says
   for that unit - whatever the factor cache held; a unit of another dimension raises and nothing but the cache moves *)
Lemma set_property_factor S i w u v : KInv Vf pkgs utab (sk S) ->
  (forall f, unit_of utab u = Some (w, f) ->
     exists S1, same_but_factors S S1 /\ KInv Vf pkgs utab (sk S1) /\
       set_property Vf MWf pkgs utab S i w u v = stepS Vf MWf pkgs utab S1 (OSetF i w (v / f))) /\
  ((forall f, unit_of utab u <> Some (w, f)) ->
     snd (set_property Vf MWf pkgs utab S i w u v) = XErr EDim /\
     same_but_factors S (fst (set_property Vf MWf pkgs utab S i w u v))).
Proof.
  intros H. destruct (convS_ok S w u H) as (Q1 & H1). pose proof (convS_same S w u) as SM.
  unfold set_property. destruct (convS utab S w u) as [S1 q]. cbn [fst snd] in *. split.
  - intros f E. rewrite (conv_right w u f E) in Q1. subst q. exists S1. split; [exact SM|]. split; [exact H1|reflexivity].
  - intros WD. rewrite (conv_wrong w u WD) in Q1. subst q. cbn [fst snd]. split; [reflexivity|exact SM].
Qed.

(* get_property in a unit of the right dimension is the total times the factor pint gives for that unit *)
Lemma get_property_factor S i w u y : KInv Vf pkgs utab (sk S) ->
  snd (stepS Vf MWf pkgs utab S (OTotal i w)) = XMat [[y]] ->
  (forall f, unit_of utab u = Some (w, f) -> snd (get_property Vf MWf pkgs utab S i w u) = XMat [[f * y]]) /\
  ((forall f, unit_of utab u <> Some (w, f)) -> snd (get_property Vf MWf pkgs utab S i w u) = XErr EDim) /\
  same_but_factors (fst (stepS Vf MWf pkgs utab S (OTotal i w))) (fst (get_property Vf MWf pkgs utab S i w u)).
Proof.
  intros H X. unfold get_property.
  pose proof (KInv_stepS Vf MWf pkgs utab S (OTotal i w) H) as H1.
  destruct (stepS Vf MWf pkgs utab S (OTotal i w)) as [S1 x]. cbn [fst snd] in *. subst x.
  destruct (convS_ok S1 w u H1) as (Q1 & _). pose proof (convS_same S1 w u) as SM.
  destruct (convS utab S1 w u) as [S2 q]. cbn [fst snd] in *. split; [|split].
  - intros f E. rewrite (conv_right w u f E) in Q1. subst q. reflexivity.
  - intros WD. rewrite (conv_wrong w u WD) in Q1. subst q. reflexivity.
  - exact SM.
Qed.
End P.
