(* C11 — executable model of the molar / mass / volumetric views of thermosteam streams.
   Source modelled (/repo HEAD, which contains the repairs C11_1, C11_3, C11_4, C11_5):
     indexer.py        by_mass, by_volume (both classes), _data_cache, reset_chemicals (both classes),
                       ChemicalIndexer.copy_like / to_material_indexer, MaterialIndexer.copy_like /
                       _expand_phases / to_material_indexer / to_chemical_indexer
     base/dictionary_view.py   MassFlowDict, VolumetricFlowDict (per-chemical molar-volume memo)
     _stream.py        imol/imass/ivol, F_mol/F_mass/F_vol getters+setters, get/set_flow, get/set_total_flow,
                       T/P/phase/phases setters, link_with, unlink, copy_like, _reset_thermo
     _multi_stream.py  phases / phase setters, copy_like
   Python objects whose identity matters are heap cells addressed by position:
     rows   molar SparseVector (its dict is never rebound, so vector and dict are one cell)
     arrs   SparseArray: the list of its row cells (rebound in place by _expand_phases)
     tps    ThermalCondition (T, P)          boxes  Phase container of a single-phase indexer
     caches the indexer's _data_cache dict: 'mass' -> view, ('vol', TP) / TP -> view
   A stream owns one indexer (streams made by proxy() are C13/C14's), so the indexer's fields are
   stream fields here.  Molar rows are dense vectors (stored keys = non-zero entries is C09's).
   No proofs in this file. *)
From V Require Export Common.Num.

Inductive phase := Pg | Pl | Ps | PL | PS.
Definition pcode (p : phase) : nat :=     (* ASCII order used by phase_tuple: 'L' < 'S' < 'g' < 'l' < 's' *)
  match p with PL => 0 | PS => 1 | Pg => 2 | Pl => 3 | Ps => 4 end%nat.
Definition phase_eqb (a b : phase) : bool := Nat.eqb (pcode a) (pcode b).
Definition base (p : phase) : phase := match p with PL => Pl | PS => Ps | x => x end.   (* PhaseHandle.L / .S *)
Definition swapcase (p : phase) : phase :=
  match p with Pl => PL | PL => Pl | Ps => PS | PS => Ps | Pg => Pg end.   (* 'g'.upper() = 'G' is never a key *)

Inductive view := VMol | VMass | VVol.
Definition view_eqb (a b : view) : bool :=
  match a, b with VMol, VMol | VMass, VMass | VVol, VVol => true | _, _ => false end.

(* where a VolumetricFlowDict takes its phase from: a fixed label (multi-phase) or the indexer's Phase box *)
Inductive phsrc := Fixed (p : phase) | Box (b : nat).
Definition phsrc_eqb (a b : phsrc) : bool :=
  match a, b with
  | Fixed p, Fixed q => phase_eqb p q
  | Box x, Box y => Nat.eqb x y
  | _, _ => false
  end.
Definition src_eqb (a b : nat * phsrc) : bool := Nat.eqb (fst a) (fst b) && phsrc_eqb (snd a) (snd b).

Record mentry := mkme { me_T : Q; me_P : Q; me_ph : phase; me_V : Q }.       (* memo value: ((T, P), phase, 1000 V) *)
Record vrow := mkvrow { vr_dct : nat; vr_src : phsrc; vr_memo : list (nat * mentry) }.
Record volview := mkvv { vv_rows : list vrow; vv_tp : nat; vv_pkg : nat }.
Record massview := mkmv { mv_rows : list (nat * phsrc); mv_pkg : nat }.
Record cache := mkcache { c_mass : option massview; c_vols : list (nat * volview) }.
Definition cache0 := mkcache None [].

Record stream := mkstream {
  multi : bool;        (* MultiStream with a MaterialIndexer / Stream with a ChemicalIndexer *)
  sdata : nat;         (* _imol.data: an arr cell (multi) or a row cell *)
  pbox : nat;          (* _imol._phase (single only) *)
  phs : list phase;    (* _imol._phases (multi only) *)
  pkg : nat;           (* which Chemicals object *)
  cch : nat;           (* _imol._data_cache *)
  tc : nat             (* _thermal_condition *)
}.

Record heap := mkheap {
  rows : list vec; arrs : list (list nat); tps : list (Q * Q); boxes : list phase;
  caches : list cache; streams : list stream
}.

Definition set_rows h x := mkheap x (arrs h) (tps h) (boxes h) (caches h) (streams h).
Definition set_arrs h x := mkheap (rows h) x (tps h) (boxes h) (caches h) (streams h).
Definition set_tps h x := mkheap (rows h) (arrs h) x (boxes h) (caches h) (streams h).
Definition set_boxes h x := mkheap (rows h) (arrs h) (tps h) x (caches h) (streams h).
Definition set_caches h x := mkheap (rows h) (arrs h) (tps h) (boxes h) x (streams h).
Definition set_streams h x := mkheap (rows h) (arrs h) (tps h) (boxes h) (caches h) x.

Definition getrow h r : vec := nth r (rows h) [].
Definition getarr h a : list nat := nth a (arrs h) [].
Definition gettp h t : Q * Q := nth t (tps h) (0, 0).
Definition getbox h b : phase := nth b (boxes h) Pl.
Definition getcache h c : cache := nth c (caches h) cache0.

(* stored numbers are kept in lowest terms (Qred x == x): evaluation speed only *)
Definition put_row h r (v : vec) := set_rows h (upd (rows h) r (map Qred v)).
Definition put_arr h a l := set_arrs h (upd (arrs h) a l).
Definition put_tp h t x := set_tps h (upd (tps h) t x).
Definition put_box h b p := set_boxes h (upd (boxes h) b p).
Definition put_cache h c x := set_caches h (upd (caches h) c x).
Definition put_stream h i s := set_streams h (upd (streams h) i s).

Definition new_row h v := (length (rows h), set_rows h (rows h ++ [v])).
Definition new_arr h l := (length (arrs h), set_arrs h (arrs h ++ [l])).
Definition new_tp h x := (length (tps h), set_tps h (tps h ++ [x])).
Definition new_box h p := (length (boxes h), set_boxes h (boxes h ++ [p])).
Definition new_cache h := (length (caches h), set_caches h (caches h ++ [cache0])).

Fixpoint new_rows h (vs : list vec) : list nat * heap :=
  match vs with
  | [] => ([], h)
  | v :: t => let '(r, h1) := new_row h v in let '(rs, h2) := new_rows h1 t in (r :: rs, h2)
  end.

Definition rowrefs h s : list nat := if multi s then getarr h (sdata s) else [sdata s].
(* the molar dict and phase source of every row, as by_mass / by_volume see them now *)
Definition srcs h s : list (nat * phsrc) :=
  if multi s then combine (getarr h (sdata s)) (map Fixed (phs s)) else [(sdata s, Box (pbox s))].
Definition src_phase h (x : phsrc) : phase := match x with Fixed p => p | Box b => getbox h b end.
Definition all_rows h s : list vec := map (getrow h) (rowrefs h s).
Definition cur_phases h s : list phase := if multi s then phs s else [getbox h (pbox s)].

(* ---------- phases: sorted tuples, PhaseIndexer ---------- *)
Fixpoint pinsert (p : phase) (l : list phase) : list phase :=
  match l with
  | [] => [p]
  | x :: t => if Nat.ltb (pcode p) (pcode x) then p :: l
              else if Nat.eqb (pcode p) (pcode x) then l else x :: pinsert p t
  end.
Definition psort (l : list phase) : list phase := fold_right pinsert [] l.      (* phase_tuple *)
Fixpoint pfind (p : phase) (l : list phase) : option nat :=
  match l with
  | [] => None
  | x :: t => if phase_eqb p x then Some O else option_map S (pfind p t)
  end.
(* PhaseIndexer.__call__ / __contains__: exact label, else the other case *)
Definition pindex (l : list phase) (p : phase) : option nat :=
  match pfind p l with Some i => Some i | None => pfind (swapcase p) l end.
Definition phases_eqb (a b : list phase) : bool := list_eqb phase_eqb a b.

Fixpoint index_of (g : nat) (l : list nat) : option nat :=
  match l with
  | [] => None
  | x :: t => if Nat.eqb g x then Some O else option_map S (index_of g t)
  end.

Definition any_nonzero (v : vec) : bool := existsb (fun x => negb (qzerob x)) v.
Fixpoint vsum_rows (n : nat) (l : list vec) : vec :=      (* sum(SparseArray): 0 + r1 + r2 ... *)
  match l with
  | [] => vzero n
  | r :: t => vadd r (vsum_rows n t)
  end.

Inductive outcome :=
| XNone                      (* returned None *)
| XErr (e : err)             (* raised *)
| XMat (m : list vec)        (* returned numbers *)
| XFlags (l : list bool)     (* identity observations *)
| XDomain.                   (* outside the modelled domain (another property's subject); nothing is done *)

Inductive op :=
| OSkip
| ORead (i : nat) (w : view)
| OTotal (i : nat) (w : view)
| OAlias (i : nat)
| OGetFlow (i u r k : nat)
| OSetFlow (i u r k : nat) (v : Q)
| OGetTotal (i u : nat)
| OSetTotal (i u : nat) (v : Q)
| OSet (i : nat) (w : view) (r k : nat) (v : Q)
| OSetF (i : nat) (w : view) (v : Q)
| OSetT (i : nat) (v : Q)
| OSetP (i : nat) (v : Q)
| OPhase (i : nat) (p : phase)
| OPhases (i : nat) (l : list phase)
| OLink (i j : nat) (flow ph TP : bool)
| OUnlink (i : nat)
| OCopyLike (i j : nat)
| OThermo (i k : nat)
| ORoundTrip (i k : nat)
| OGetData (i : nat) (w : view) (u r k : nat)          (* s.i<w>.get_data(units, key): the view's own units object *)
| OSetData (i : nat) (w : view) (u r k : nat) (v : Q)  (* s.i<w>.set_data(v, units, key) *)
| OAssignView (i j : nat) (w : view)                   (* s_i.<w> = s_j.<w>  (mol / mass / vol of single-phase streams) *)
| OCopyRow (i : nat) (w : view) (r1 r2 : nat)          (* ms.i<w>[phase r1] = ms.i<w>[phase r2] *)
| OFromStreams (l : list nat)                           (* MultiStream.from_streams([streams l]) appended to the store *)
| OResetFlow (i : nat) (p : option phase) (u : option nat) (tot : option Q) (fl : list (nat * Q))
                                                        (* s.reset_flow(phase, units, total_flow, **flows), single-phase *)
| OSub (i r : nat)                                      (* ms[phase r]: the phase stream of a MultiStream (created once) *)
| OEmpty (i : nat)                                      (* s.empty(): every molar dict of the stream is cleared *)
| OResetFlowM (i : nat) (tot : option Q) (u : nat) (l : option (list phase)) (pf : list (phase * list (nat * Q))).
                                                        (* ms.reset_flow(total_flow, units, phases, **phase_flows), multi-phase *)

Section Model.
Variable Vf : nat -> phase -> Q -> Q -> Q.       (* molar volume oracle: chemical, phase in {g,l,s}, T, P *)
Variable MWf : nat -> Q.                          (* molecular weights *)
Variable pkgs : list (list nat).                  (* the Chemicals objects: global chemical ids in order *)
Variable utab : list (option (view * Q)).         (* units oracle: unit id -> dimension tag and factor, None = other dimension *)

Definition chems (k : nat) : list nat := nth k pkgs [].
Definition nchem (k : nat) : nat := length (chems k).
Definition gid (k i : nat) : nat := nth i (chems k) O.
Definition mwvec (k : nat) : vec := map MWf (chems k).

(* ---------- by_mass / by_volume: cached view or a new one ---------- *)
Definition by_mass h s : heap * massview :=
  let c := getcache h (cch s) in
  match c_mass c with
  | Some v => (h, v)
  | None => let v := mkmv (srcs h s) (pkg s) in
            (put_cache h (cch s) (mkcache (Some v) (c_vols c)), v)
  end.

Fixpoint vol_find (t : nat) (l : list (nat * volview)) : option volview :=
  match l with
  | [] => None
  | (k, v) :: r => if Nat.eqb k t then Some v else vol_find t r
  end.
Fixpoint vol_put (t : nat) (v : volview) (l : list (nat * volview)) : list (nat * volview) :=
  match l with
  | [] => [(t, v)]
  | (k, w) :: r => if Nat.eqb k t then (t, v) :: r else (k, w) :: vol_put t v r
  end.
Definition new_volview h s : volview :=
  mkvv (map (fun x => mkvrow (fst x) (snd x) []) (srcs h s)) (tc s) (pkg s).
Definition by_volume h s : volview :=
  match vol_find (tc s) (c_vols (getcache h (cch s))) with
  | Some v => v
  | None => new_volview h s
  end.
Definition store_vol h s (v : volview) : heap :=
  let c := getcache h (cch s) in
  put_cache h (cch s) (mkcache (c_mass c) (vol_put (tc s) v (c_vols c))).

(* ---------- VolumetricFlowDict.output / input: the memo ---------- *)
Fixpoint memo_get (k : nat) (m : list (nat * mentry)) : option mentry :=
  match m with
  | [] => None
  | (j, e) :: t => if Nat.eqb j k then Some e else memo_get k t
  end.
(* ThermalCondition.in_equilibrium: abs(T' - T) < 1e-12 and abs(P' - P) < 1e-12; [tp_tol] is the double 1e-12 *)
Definition tp_tol : Q := 4951760157141521 # 4951760157141521099596496896.
Definition in_equilibrium (T' P' T P : Q) : bool :=
  qltb (Qabs (T' - T)) tp_tol && qltb (Qabs (P' - P)) tp_tol.
Definition vfactor h (vv : volview) (r : vrow) (k : nat) : Q * vrow :=
  let T := fst (gettp h (vv_tp vv)) in
  let P := snd (gettp h (vv_tp vv)) in
  let ph := src_phase h (vr_src r) in
  let V := Qred (1000 * Vf (gid (vv_pkg vv) k) (base ph) T P) in
  let fresh := (V, mkvrow (vr_dct r) (vr_src r) ((k, mkme T P ph V) :: vr_memo r)) in
  match memo_get k (vr_memo r) with
  | Some e => if phase_eqb (me_ph e) ph && in_equilibrium (me_T e) (me_P e) T P then (me_V e, r) else fresh
  | None => fresh
  end.

(* to_array over one view row: output() runs for the stored (non-zero) keys only *)
Fixpoint read_vrow h vv (r : vrow) (k : nat) (vals : vec) : vec * vrow :=
  match vals with
  | [] => ([], r)
  | x :: t => if qzerob x then let '(o, r') := read_vrow h vv r (S k) t in (0 :: o, r')
              else let '(V, r1) := vfactor h vv r k in
                   let '(o, r') := read_vrow h vv r1 (S k) t in (x * V :: o, r')
  end.
Fixpoint read_vrows h vv (l : list vrow) : list vec * list vrow :=
  match l with
  | [] => ([], [])
  | r :: t => let '(o, r') := read_vrow h vv r O (getrow h (vr_dct r)) in
              let '(os, rs) := read_vrows h vv t in (o :: os, r' :: rs)
  end.

Definition read_mol h s : list vec := all_rows h s.
Definition mass_of (k : nat) (v : vec) : vec := vmul v (mwvec k).
Definition read_mass h s : heap * list vec :=
  let '(h1, v) := by_mass h s in
  (h1, map (fun x => mass_of (mv_pkg v) (getrow h1 (fst x))) (mv_rows v)).
Definition read_vol h s : heap * list vec :=
  let vv := by_volume h s in
  let '(m, rs) := read_vrows h vv (vv_rows vv) in
  (store_vol h s (mkvv rs (vv_tp vv) (vv_pkg vv)), m).

(* ---------- item access indexer[key] (kind 0) on the r-th row of the view ---------- *)
Definition get_item h s (w : view) (r k : nat) : heap * res Q :=
  match w with
  | VMol => match nth_error (rowrefs h s) r with
            | Some d => (h, Ok (nthq (getrow h d) k))
            | None => (h, Err EIndex)
            end
  | VMass => let '(h1, v) := by_mass h s in
             match nth_error (mv_rows v) r with
             | Some x => (h1, Ok (nthq (getrow h1 (fst x)) k * MWf (gid (mv_pkg v) k)))
             | None => (h1, Err EIndex)
             end
  | VVol => let vv := by_volume h s in
            match nth_error (vv_rows vv) r with
            | Some vr =>
                let x := nthq (getrow h (vr_dct vr)) k in
                if qzerob x then (store_vol h s vv, Ok 0)
                else let '(V, vr') := vfactor h vv vr k in
                     (store_vol h s (mkvv (upd (vv_rows vv) r vr') (vv_tp vv) (vv_pkg vv)), Ok (x * V))
            | None => (store_vol h s vv, Err EIndex)
            end
  end.

Definition put_item h (d k : nat) (x : Q) : heap := put_row h d (upd (getrow h d) k x).

Definition set_item h s (w : view) (r k : nat) (v : Q) : heap * outcome :=
  match w with
  | VMol => match nth_error (rowrefs h s) r with
            | Some d => (put_item h d k v, XNone)
            | None => (h, XErr EIndex)
            end
  | VMass => let '(h1, mv) := by_mass h s in
             match nth_error (mv_rows mv) r with
             | Some x => (put_item h1 (fst x) k (v / MWf (gid (mv_pkg mv) k)), XNone)
             | None => (h1, XErr EIndex)
             end
  | VVol => let vv := by_volume h s in
            match nth_error (vv_rows vv) r with
            | Some vr =>
                if qzerob v then (put_item (store_vol h s vv) (vr_dct vr) k 0, XNone)
                else let '(V, vr') := vfactor h vv vr k in
                     (put_item (store_vol h s (mkvv (upd (vv_rows vv) r vr') (vv_tp vv) (vv_pkg vv)))
                               (vr_dct vr) k (v / V), XNone)
            | None => (store_vol h s vv, XErr EIndex)
            end
  end.

(* ---------- totals ---------- *)
Definition F_mol h s : Q := qsum (map qsum (all_rows h s)).
Definition F_mass h s : Q := qsum (map (fun r => vdot (mwvec (pkg s)) r) (all_rows h s)).
(* Stream._get_property / MultiStream._get_property: the memo key is the literal (phase | phases, T, P) and the
   normalised composition (a dict per row); mixture.V / xV of the ideal mixture is a function of that key *)
Record pkey := mkpk { k_multi : bool; k_rows : list (phase * vec); k_T : Q; k_P : Q }.
Definition key_of h s : pkey :=
  mkpk (multi s) (combine (cur_phases h s) (map (fun r => vdivs r (F_mol h s)) (all_rows h s)))
       (fst (gettp h (tc s))) (snd (gettp h (tc s))).
Definition vmix_key (c : list nat) (k : pkey) : Q :=
  qsum (map (fun x => qsum (map2 (fun z g => z * Vf g (base (fst x)) (k_T k) (k_P k)) (snd x) c)) (k_rows k)).
Definition vmix h s : Q := vmix_key (chems (pkg s)) (key_of h s).
Definition F_vol h s : Q := if qzerob (F_mol h s) then 0 else 1000 * vmix h s * F_mol h s.
Definition total h s (w : view) : Q :=
  match w with VMol => F_mol h s | VMass => F_mass h s | VVol => F_vol h s end.

Fixpoint map_rows h (f : vec -> vec) (l : list nat) : heap :=
  match l with
  | [] => h
  | d :: t => map_rows (put_row h d (f (getrow h d))) f t
  end.
Definition scale_all h s (k : Q) : heap := map_rows h (vscale k) (rowrefs h s).
Definition empty_all h s : heap := map_rows h (fun v => vzero (length v)) (rowrefs h s).

(* F_mol / F_mass / F_vol setters *)
Definition set_total h s (w : view) (v : Q) : heap * outcome :=
  let F := total h s w in
  match w with
  | VMass => if negb (qzerob F) then (scale_all h s (v / F), XNone)
             else if negb (qzerob v) then (h, XErr EOther) else (empty_all h s, XNone)
  | _ => if qzerob F then (h, XErr EOther) else (scale_all h s (v / F), XNone)
  end.

Definition unit_of (u : nat) : option (view * Q) := nth u utab None.

(* ---------- structural operations ---------- *)
Definition zero_rows (n m : nat) : list vec := repeat (vzero m) n.

(* ChemicalIndexer.to_material_indexer (Stream.phases setter): non-empty data goes to its phase (or the other case) *)
Definition single_to_multi h i s (l : list phase) : heap * outcome :=
  let ps := psort l in
  let row := getrow h (sdata s) in
  let zs := zero_rows (length ps) (nchem (pkg s)) in
  match (if any_nonzero row
         then option_map (fun t => upd zs t row) (pindex ps (getbox h (pbox s)))
         else Some zs) with
  | None => (h, XDomain)          (* the real setter raises after changing the class: C12's subject *)
  | Some vals =>
      let '(rs, h1) := new_rows h vals in
      let '(a, h2) := new_arr h1 rs in
      let '(c, h3) := new_cache h2 in
      (put_stream h3 i (mkstream true a (pbox s) ps (pkg s) c (tc s)), XNone)
  end.

(* MaterialIndexer.to_material_indexer: non-empty rows are added to their phase (or the other case) *)
Fixpoint place_rows (ps : list phase) (old : list (phase * vec)) (acc : list vec) : option (list vec) :=
  match old with
  | [] => Some acc
  | (p, v) :: t =>
      if any_nonzero v then
        match pindex ps p with
        | Some k => place_rows ps t (upd acc k (vadd (nth k acc []) v))
        | None => None
        end
      else place_rows ps t acc
  end.
Definition multi_to_multi h i s (l : list phase) : heap * outcome :=
  let ps := psort l in
  if phases_eqb ps (phs s) then (h, XNone)
  else match place_rows ps (combine (phs s) (all_rows h s)) (zero_rows (length ps) (nchem (pkg s))) with
       | None => (h, XErr EUndefPhase)
       | Some vals =>
           let '(rs, h1) := new_rows h vals in
           let '(a, h2) := new_arr h1 rs in
           let '(c, h3) := new_cache h2 in
           (put_stream h3 i (mkstream true a (pbox s) ps (pkg s) c (tc s)), XNone)
       end.

(* MaterialIndexer.to_chemical_indexer (MultiStream.phase setter) *)
Definition multi_to_single h i s (p : phase) : heap * outcome :=
  let '(d, h1) := new_row h (vsum_rows (nchem (pkg s)) (all_rows h s)) in
  let '(b, h2) := new_box h1 p in
  let '(c, h3) := new_cache h2 in
  (put_stream h3 i (mkstream false d b [] (pkg s) c (tc s)), XNone).

Definition set_phase h i s (p : phase) : heap * outcome :=
  if multi s then multi_to_single h i s p else (put_box h (pbox s) p, XNone).

Definition set_phases h i s (l : list phase) : heap * outcome :=
  match psort l with
  | [] => (h, XDomain)
  | [p] => set_phase h i s p
  | _ => if multi s then multi_to_multi h i s l else single_to_multi h i s l
  end.

(* Stream.link_with *)
Definition link_with h i s o (f p t : bool) : heap * outcome :=
  if negb (Bool.eqb (multi s) (multi o)) then (h, XErr ERuntime)
  else if negb (Nat.eqb (pkg s) (pkg o)) then (h, XDomain)
  else if multi s && f && negb (phases_eqb (phs s) (phs o)) then (h, XDomain)
  else
    let '(c, h1) := if t && f && (p || multi s) then (cch o, h) else new_cache h in
    let s1 := mkstream (multi s) (if f then sdata o else sdata s)
                       (if p && negb (multi s) then pbox o else pbox s)
                       (phs s) (pkg s) c (if t then tc o else tc s) in
    (put_stream h1 i s1, XNone).

(* Stream.unlink *)
Definition copy_rows h (l : list nat) : list nat * heap := new_rows h (map (getrow h) l).
Definition unlink h i s : heap * outcome :=
  let '(b, h1) := if multi s then (pbox s, h) else new_box h (getbox h (pbox s)) in
  let '(c, h2) := new_cache h1 in
  let '(d, h3) := if multi s
                  then let '(rs, hh) := copy_rows h2 (getarr h2 (sdata s)) in new_arr hh rs
                  else new_row h2 (getrow h2 (sdata s)) in
  let '(t, h4) := new_tp h3 (gettp h3 (tc s)) in
  (put_stream h4 i (mkstream (multi s) d b (phs s) (pkg s) c t), XNone).

Fixpoint copy_rows_like h (dst src : list nat) : heap :=     (* SparseArray.copy_like: zip of the rows *)
  match dst, src with
  | d :: dt, x :: xt => copy_rows_like (put_row h d (getrow h x)) dt xt
  | _, _ => h
  end.
Definition copy_tp h s o : heap := put_tp h (tc s) (gettp h (tc o)).

Definition stream_shares_arr h i (a : nat) : bool :=
  existsb (fun x => x) (map (fun js => negb (Nat.eqb (fst js) i) && multi (snd js) && Nat.eqb (sdata (snd js)) a)
                            (combine (seq O (length (streams h))) (streams h))).

(* MaterialIndexer._expand_phases with one more phase: rows re-ordered in place, view cache emptied *)
Fixpoint expand_rows h (n : nat) (ps : list phase) (old : list (phase * nat)) : list nat * heap :=
  match ps with
  | [] => ([], h)
  | p :: t =>
      match find (fun x => phase_eqb (fst x) p) old with
      | Some x => let '(rs, h1) := expand_rows h n t old in (snd x :: rs, h1)
      | None => let '(r, h1) := new_row h (vzero n) in
                let '(rs, h2) := expand_rows h1 n t old in (r :: rs, h2)
      end
  end.

(* chemicals.index(CAS): a chemical id is 8 * variant + CAS number, so that two Chemical objects with one CAS
   (another molar-volume model, another MW) can sit in different packages *)
Definition cas (g : nat) : nat := Nat.modulo g 8.
Definition remap (oldc newc : list nat) (v : vec) : vec :=
  map (fun g => match index_of (cas g) (map cas oldc) with Some j => nthq v j | None => 0 end) newc.

(* ---------- copy_like from a stream of ANOTHER property package (indexer.py:600-609, :774-810) ----------
   index_overlap(self.chemicals, other.chemicals, non-zero keys of other): a chemical with a non-zero flow that the
   receiver's package lacks raises UndefinedChemicalAlias; otherwise  self.data[left_index] = other.data[right_index]
   on the emptied receiver, i.e. the values follow their CAS number *)
Definition xmiss (co cs : list nat) (v : vec) : bool :=
  existsb (fun gx => negb (qzerob (snd gx)) &&
                     match index_of (cas (fst gx)) (map cas cs) with Some _ => false | None => true end)
          (combine co v).
Fixpoint copy_rows_like_x h (f : vec -> vec) (dst src : list nat) : heap :=   (* for i, j in other: rows[...][left] = j[right] *)
  match dst, src with
  | d :: dt, x :: xt => copy_rows_like_x (put_row h d (f (getrow h x))) f dt xt
  | _, _ => h
  end.
Definition copy_like_x h i s o : heap * outcome :=
  let co := chems (pkg o) in
  let cs := chems (pkg s) in
  match multi s, multi o with
  | false, false =>
      (* ChemicalIndexer.copy_like: self.empty(); index_overlap; data; self.phase = other.phase; then T, P *)
      let h0 := empty_all h s in
      let v := getrow h0 (sdata o) in
      if xmiss co cs v then (h0, XErr EOther)
      else let h1 := put_row h0 (sdata s) (remap co cs v) in
           let h2 := put_box h1 (pbox s) (getbox h1 (pbox o)) in
           (copy_tp h2 s o, XNone)
  | false, true =>
      match phs o with
      | [p] =>
          let h0 := empty_all h s in
          let v := nth O (all_rows h0 o) [] in
          if xmiss co cs v then (h0, XErr EOther)
          else (copy_tp (put_box (put_row h0 (sdata s) (remap co cs v)) (pbox s) p) s o, XNone)
      | _ =>
        (* self.empty(); self.phases = other.phases; self._imol.copy_like(other._imol); TP *)
        match single_to_multi (empty_all h s) i s (phs o) with
        | (h1, XNone) =>
            match nth_error (streams h1) i with
            | Some s1 =>
                if existsb (xmiss co cs) (all_rows h1 o) then (h1, XErr EOther)
                else if phases_eqb (phs s1) (phs o)
                then (copy_tp (copy_rows_like_x (empty_all h1 s1) (remap co cs) (rowrefs h1 s1) (rowrefs h1 o)) s1 o, XNone)
                else (h1, XDomain)
            | None => (h1, XErr EIndex)
            end
        | r => r
        end
      end
  | true, false =>
      (* MaterialIndexer.copy_like(ChemicalIndexer): empty, expand the phases if needed, THEN index_overlap *)
      let p := getbox h (pbox o) in
      let v := getrow h (sdata o) in
      let h0 := empty_all h s in
      match pindex (phs s) p with
      | Some k =>
          match nth_error (rowrefs h0 s) k with
          | Some d => if xmiss co cs v then (h0, XErr EOther)
                      else (copy_tp (put_row h0 d (remap co cs v)) s o, XNone)
          | None => (h0, XErr EIndex)
          end
      | None =>
          if stream_shares_arr h i (sdata s) then (h, XDomain)
          else
            let ps := psort (p :: phs s) in
            let '(rs, h1) := expand_rows h0 (nchem (pkg s)) ps (combine (phs s) (getarr h0 (sdata s))) in
            let h2 := put_arr h1 (sdata s) rs in
            let h3 := put_cache h2 (cch s) cache0 in
            let s1 := mkstream true (sdata s) (pbox s) ps (pkg s) (cch s) (tc s) in
            let h4 := put_stream h3 i s1 in
            match pindex ps p with
            | Some k =>
                match nth_error rs k with
                | Some d => if xmiss co cs v then (h4, XErr EOther)
                            else (copy_tp (put_row h4 d (remap co cs v)) s1 o, XNone)
                | None => (h4, XErr EIndex)
                end
            | None => (h4, XErr EUndefPhase)
            end
      end
  | true, true =>
      (* MaterialIndexer.copy_like(MaterialIndexer): index_overlap FIRST, then empty and the rows phase by phase *)
      if existsb (xmiss co cs) (all_rows h o) then (h, XErr EOther)
      else if phases_eqb (phs s) (phs o)
      then (copy_tp (copy_rows_like_x (empty_all h s) (remap co cs) (rowrefs h s) (rowrefs h o)) s o, XNone)
      else (h, XDomain)           (* other phase sets: C13's subject *)
  end.

Definition copy_like h i s o (same : bool) : heap * outcome :=
  if same then (h, XNone)
  else if negb (Nat.eqb (pkg s) (pkg o)) then copy_like_x h i s o
  else match multi s, multi o with
  | false, false =>
      let h1 := put_row h (sdata s) (getrow h (sdata o)) in
      let h2 := put_box h1 (pbox s) (getbox h1 (pbox o)) in
      (copy_tp h2 s o, XNone)
  | false, true =>
      match phs o with
      | [p] => let h1 := put_box h (pbox s) p in
               (put_row h1 (sdata s) (nth O (all_rows h1 o) []), XNone)
      | _ =>
        (* self.empty(); self.phases = other.phases; self._imol.copy_like(other._imol); TP *)
        match single_to_multi (put_row h (sdata s) (vzero (length (getrow h (sdata s))))) i s (phs o) with
        | (h1, XNone) =>
            match nth_error (streams h1) i with
            | Some s1 => (copy_tp (copy_rows_like h1 (rowrefs h1 s1) (rowrefs h1 o)) s1 o, XNone)
            | None => (h1, XErr EIndex)
            end
        | r => r
        end
      end
  | true, false =>
      let p := getbox h (pbox o) in
      (* other_data is read (copied when it is one of the receiver's own rows) BEFORE self.empty() *)
      let h0 := empty_all h s in
      match pindex (phs s) p with
      | Some k =>
          match nth_error (rowrefs h0 s) k with
          | Some d => (copy_tp (put_row h0 d (getrow h (sdata o))) s o, XNone)
          | None => (h0, XErr EIndex)
          end
      | None =>
          if stream_shares_arr h i (sdata s) then (h, XDomain)
          else
            let ps := psort (p :: phs s) in
            let '(rs, h1) := expand_rows h0 (nchem (pkg s)) ps (combine (phs s) (getarr h0 (sdata s))) in
            let h2 := put_arr h1 (sdata s) rs in
            let h3 := put_cache h2 (cch s) cache0 in
            let s1 := mkstream true (sdata s) (pbox s) ps (pkg s) (cch s) (tc s) in
            let h4 := put_stream h3 i s1 in
            match pindex ps p with
            | Some k =>
                match nth_error rs k with
                | Some d => (copy_tp (put_row h4 d (getrow h (sdata o))) s1 o, XNone)
                | None => (h4, XErr EIndex)
                end
            | None => (h4, XErr EUndefPhase)
            end
      end
  | true, true =>
      if phases_eqb (phs s) (phs o)
      then (copy_tp (copy_rows_like h (rowrefs h s) (rowrefs h o)) s o, XNone)
      else (h, XDomain)           (* other phase sets: C13's subject *)
  end.

(* pint through AbsoluteUnitsOfMeasure.conversion_factor of the view's units object: another dimension raises *)
Definition conv (w : view) (u : nat) : res Q :=
  match unit_of u with
  | Some (w', f) => if view_eqb w w' then Ok f else Err EDim
  | None => Err EDim
  end.
(* s.imass / s.ivol is evaluated (and cached) before the units are looked at *)
Definition touch_view h s (w : view) : heap :=
  match w with
  | VMol => h
  | VMass => fst (by_mass h s)
  | VVol => store_vol h s (by_volume h s)
  end.

(* SparseVector[:] = other view's SparseVector: dct.clear(); DictionaryView.update: for every stored key of the
   source, output() of the source then input() of the destination *)
Fixpoint xfer_mass (mws mwd : vec) (vals : vec) : vec :=
  match vals, mws, mwd with
  | x :: t, a :: ms, b :: md => (if qzerob x then 0 else x * a / b) :: xfer_mass ms md t
  | _, _, _ => map (fun _ => 0) vals
  end.
Fixpoint xfer_vol h (vo vs : volview) (ro rs : vrow) (k : nat) (vals : vec) : vec * vrow * vrow :=
  match vals with
  | [] => ([], ro, rs)
  | x :: t =>
      if qzerob x then let '(o, ro', rs') := xfer_vol h vo vs ro rs (S k) t in (0 :: o, ro', rs')
      else let '(Vo, ro1) := vfactor h vo ro k in
           let '(Vd, rs1) := vfactor h vs rs k in
           let '(o, ro', rs') := xfer_vol h vo vs ro1 rs1 (S k) t in (x * Vo / Vd :: o, ro', rs')
  end.
Definition zero_like (v : vec) : vec := vzero (length v).

(* Stream.mol / mass / vol setter with the other stream's view as the value *)
Definition assign_view h s o (w : view) : heap * outcome :=
  if multi s || multi o || negb (Nat.eqb (pkg s) (pkg o)) then (h, XDomain)
  else match w with
  | VMol => if Nat.eqb (sdata s) (sdata o) then (h, XNone)
            else (put_row h (sdata s) (getrow h (sdata o)), XNone)
  | VMass =>
      let '(h1, mo) := by_mass h o in
      let '(h2, ms) := by_mass h1 s in
      if Nat.eqb (cch s) (cch o) then (h2, XNone)
      else match mv_rows ms, mv_rows mo with
           | (d, _) :: _, (e, _) :: _ =>
               let h3 := put_row h2 d (zero_like (getrow h2 d)) in
               (put_row h3 d (xfer_mass (mwvec (mv_pkg mo)) (mwvec (mv_pkg ms)) (getrow h3 e)), XNone)
           | _, _ => (h2, XErr EIndex)
           end
  | VVol =>
      let vo := by_volume h o in
      let h1 := store_vol h o vo in
      let vs := by_volume h1 s in
      let h2 := store_vol h1 s vs in
      if Nat.eqb (cch s) (cch o) && Nat.eqb (tc s) (tc o) then (h2, XNone)
      else match vv_rows vs, vv_rows vo with
           | rs :: _, ro :: _ =>
               let h3 := put_row h2 (vr_dct rs) (zero_like (getrow h2 (vr_dct rs))) in
               let '(vals, ro', rs') := xfer_vol h3 vo vs ro rs O (getrow h3 (vr_dct ro)) in
               let h4 := store_vol h3 o (mkvv (upd (vv_rows vo) O ro') (vv_tp vo) (vv_pkg vo)) in
               let h5 := store_vol h4 s (mkvv (upd (vv_rows vs) O rs') (vv_tp vs) (vv_pkg vs)) in
               (put_row h5 (vr_dct rs) vals, XNone)
           | _, _ => (h2, XErr EIndex)
           end
  end.

(* ms.i<w>[phase r1] = ms.i<w>[phase r2]: reset_sparse_chemical_data on row r1 of the view with row r2 of the same view *)
Definition copy_row_view h s (w : view) (r1 r2 : nat) : heap * outcome :=
  if negb (multi s) then (h, XDomain)
  else match w with
  | VMol =>
      match nth_error (rowrefs h s) r1, nth_error (rowrefs h s) r2 with
      | Some d, Some e => if Nat.eqb r1 r2 then (h, XNone) else (put_row h d (getrow h e), XNone)
      | _, _ => (h, XErr EIndex)
      end
  | VMass =>
      let '(h1, mv) := by_mass h s in
      match nth_error (mv_rows mv) r1, nth_error (mv_rows mv) r2 with
      | Some (d, _), Some (e, _) =>
          if Nat.eqb r1 r2 then (h1, XNone)
          else let h2 := put_row h1 d (zero_like (getrow h1 d)) in
               (put_row h2 d (xfer_mass (mwvec (mv_pkg mv)) (mwvec (mv_pkg mv)) (getrow h2 e)), XNone)
      | _, _ => (h1, XErr EIndex)
      end
  | VVol =>
      let vv := by_volume h s in
      let h1 := store_vol h s vv in
      match nth_error (vv_rows vv) r1, nth_error (vv_rows vv) r2 with
      | Some rd, Some ro =>
          if Nat.eqb r1 r2 then (h1, XNone)
          else let h2 := put_row h1 (vr_dct rd) (zero_like (getrow h1 (vr_dct rd))) in
               let '(vals, ro', rd') := xfer_vol h2 vv vv ro rd O (getrow h2 (vr_dct ro)) in
               let h3 := store_vol h2 s (mkvv (upd (upd (vv_rows vv) r2 ro') r1 rd') (vv_tp vv) (vv_pkg vv)) in
               (put_row h3 (vr_dct rd) vals, XNone)
      | _, _ => (h1, XErr EIndex)
      end
  end.

(* Indexer.reset_chemicals: values follow their chemical; returns the old (data, cache) container *)

Fixpoint put_rows h (dst : list nat) (vals : list vec) : heap :=
  match dst, vals with
  | d :: dt, v :: vt => put_rows (put_row h d v) dt vt
  | _, _ => h
  end.

Definition reset_chemicals h i s (k : nat) (container : option (nat * nat)) : heap * (nat * nat) :=
  let old := (sdata s, cch s) in
  let vals := map (remap (chems (pkg s)) (chems k)) (all_rows h s) in
  match container with
  | None =>
      let '(c, h1) := new_cache h in
      if multi s then
        let '(rs, h2) := new_rows h1 vals in
        let '(a, h3) := new_arr h2 rs in
        (put_stream h3 i (mkstream true a (pbox s) (phs s) k c (tc s)), old)
      else
        let '(d, h2) := new_row h1 (nth O vals []) in
        (put_stream h2 i (mkstream false d (pbox s) (phs s) k c (tc s)), old)
  | Some (d, c) =>
      let s1 := mkstream (multi s) d (pbox s) (phs s) k c (tc s) in
      let h1 := put_stream h i s1 in
      if multi s
      then (put_rows (map_rows h1 (fun _ => vzero (nchem k)) (getarr h1 d)) (getarr h1 d) vals, old)
      else (put_row h1 d (nth O vals []), old)
  end.

(* Stream._reset_thermo *)
Definition reset_thermo h i s (k : nat) : heap * outcome :=
  if Nat.eqb (pkg s) k then (h, XNone) else (fst (reset_chemicals h i s k None), XNone).

(* reset_chemicals(new) ... reset_chemicals(old, container), as Reaction.__call__ does around a foreign stream *)
Definition round_trip h i s (k : nat) : heap * outcome :=
  if Nat.eqb (pkg s) k then (h, XNone)
  else let '(h1, cont) := reset_chemicals h i s k None in
       match nth_error (streams h1) i with
       | Some s1 => (fst (reset_chemicals h1 i s1 (pkg s) (Some cont)), XNone)
       | None => (h1, XErr EIndex)
       end.

(* MultiStream.from_streams: the rows of the new MaterialIndexer ARE the molar vectors of the streams, every stream but
   the first is re-bound to the first one's ThermalCondition object (its _data_cache is left alone) *)
Definition retc (s : stream) (t : nat) : stream := mkstream (multi s) (sdata s) (pbox s) (phs s) (pkg s) (cch s) t.
Fixpoint get_streams h (l : list nat) : option (list stream) :=
  match l with
  | [] => Some []
  | i :: t => match nth_error (streams h) i, get_streams h t with
              | Some s, Some ss => Some (s :: ss)
              | _, _ => None
              end
  end.
Definition from_streams h (l : list nat) : heap * outcome :=
  match l, get_streams h l with
  | [], _ => (h, XErr EValue)
  | _, None => (h, XErr EIndex)
  | b :: others, Some ss =>
      match ss with
      | [] => (h, XErr EIndex)
      | sb :: _ =>
          if existsb multi ss || existsb (fun s => negb (Nat.eqb (pkg s) (pkg sb))) ss then (h, XDomain)
          else
            let ps := psort (map (fun s => getbox h (pbox s)) ss) in
            if negb (Nat.eqb (length ps) (length ss)) then (h, XErr EValue)
            else
              let rowsof := map (fun p => match find (fun s => phase_eqb (getbox h (pbox s)) p) ss with
                                          | Some s => sdata s | None => O end) ps in
              let '(a, h1) := new_arr h rowsof in
              let '(c, h2) := new_cache h1 in
              let st := map (fun js => if existsb (Nat.eqb (fst js)) others then retc (snd js) (tc sb) else snd js)
                            (combine (seq O (length (streams h2))) (streams h2)) in
              (set_streams h2 (st ++ [mkstream true a O ps (pkg sb) c (tc sb)]), XNone)
      end
  end.

(* Stream.reset_flow: empty, THEN the new phase, then the flows in the given units, then the total *)
Fixpoint set_items h s (w : view) (f : Q) (fl : list (nat * Q)) : heap :=
  match fl with
  | [] => h
  | (k, v) :: t => set_items (fst (set_item h s w O k (v / f))) s w f t
  end.
Definition reset_flow_pre h s (p : option phase) : heap :=
  let h1 := empty_all h s in
  match p with Some ph => put_box h1 (pbox s) ph | None => h1 end.
Definition nonzero_opt (t : option Q) : option Q :=
  match t with Some x => if qzerob x then None else Some x | None => None end.
Definition reset_flow h s (p : option phase) (u : option nat) (tot : option Q) (fl : list (nat * Q)) : heap * outcome :=
  if multi s then (h, XDomain)
  else
    let h1 := reset_flow_pre h s p in
    match fl, nonzero_opt tot with
    | [], None => (h1, XNone)
    | _, t =>
        match (match u with None => Some (VMol, 1) | Some uu => unit_of uu end) with
        | None => (h1, XErr EDim)
        | Some (w, f) =>
            let h2 := set_items h1 s w f fl in
            match t with Some x => set_total h2 s w (x / f) | None => (h2, XNone) end
        end
    end.

(* what the harness observes with id(): do the views handed out now wrap the current objects *)
Definition alias_flags h s : heap * list bool :=
  let '(h1, mv) := by_mass h s in
  let vv := by_volume h1 s in
  let h2 := store_vol h1 s vv in
  let cur := srcs h2 s in
  let vsrc := map (fun r => (vr_dct r, vr_src r)) (vv_rows vv) in
  (h2, [ list_eqb Nat.eqb (map fst (mv_rows mv)) (map fst cur);
         Nat.eqb (mv_pkg mv) (pkg s);
         list_eqb Nat.eqb (map fst vsrc) (map fst cur);
         Nat.eqb (vv_tp vv) (tc s);
         list_eqb phsrc_eqb (map snd vsrc) (map snd cur);
         list_eqb phsrc_eqb (map snd (mv_rows mv)) (map snd cur) && list_eqb phsrc_eqb (map snd vsrc) (map snd cur);
         Nat.eqb (vv_pkg vv) (pkg s) ]).

Definition lift (x : heap * res Q) (f : Q -> Q) : heap * outcome :=
  match snd x with Ok v => (fst x, XMat [[f v]]) | Err e => (fst x, XErr e) end.

Definition step h (o : op) : heap * outcome :=
  let withs i (f : stream -> heap * outcome) :=
    match nth_error (streams h) i with Some s => f s | None => (h, XErr EIndex) end in
  match o with
  | OSkip => (h, XNone)
  | ORead i w => withs i (fun s =>
      match w with
      | VMol => (h, XMat (read_mol h s))
      | VMass => let '(h1, m) := read_mass h s in (h1, XMat m)
      | VVol => let '(h1, m) := read_vol h s in (h1, XMat m)
      end)
  | OTotal i w => withs i (fun s => (h, XMat [[total h s w]]))
  | OAlias i => withs i (fun s => let '(h1, l) := alias_flags h s in (h1, XFlags l))
  | OGetFlow i u r k => withs i (fun s =>
      match unit_of u with
      | None => (h, XErr EDim)
      | Some (w, f) => lift (get_item h s w r k) (fun x => f * x)
      end)
  | OSetFlow i u r k v => withs i (fun s =>
      match unit_of u with
      | None => (h, XErr EDim)
      | Some (w, f) => set_item h s w r k (v / f)
      end)
  | OGetTotal i u => withs i (fun s =>
      match unit_of u with
      | None => (h, XErr EDim)
      | Some (w, f) => (h, XMat [[f * total h s w]])
      end)
  | OSetTotal i u v => withs i (fun s =>
      match unit_of u with
      | None => (h, XErr EDim)
      | Some (w, f) => set_total h s w (v / f)
      end)
  | OSet i w r k v => withs i (fun s => set_item h s w r k v)
  | OSetF i w v => withs i (fun s => set_total h s w v)
  | OSetT i v => withs i (fun s => (put_tp h (tc s) (v, snd (gettp h (tc s))), XNone))
  | OSetP i v => withs i (fun s => (put_tp h (tc s) (fst (gettp h (tc s)), v), XNone))
  | OPhase i p => withs i (fun s => set_phase h i s p)
  | OPhases i l => withs i (fun s => set_phases h i s l)
  | OLink i j f p t => withs i (fun s =>
      match nth_error (streams h) j with
      | Some o => if Nat.eqb i j then (h, XDomain) else link_with h i s o f p t
      | None => (h, XErr EIndex)
      end)
  | OUnlink i => withs i (fun s => unlink h i s)
  | OCopyLike i j => withs i (fun s =>
      match nth_error (streams h) j with
      | Some o => copy_like h i s o (Nat.eqb i j)
      | None => (h, XErr EIndex)
      end)
  | OThermo i k => withs i (fun s => reset_thermo h i s k)
  | ORoundTrip i k => withs i (fun s => round_trip h i s k)
  | OGetData i w u r k => withs i (fun s =>
      match conv w u with
      | Err e => (touch_view h s w, XErr e)
      | Ok f => lift (get_item h s w r k) (fun x => f * x)
      end)
  | OSetData i w u r k v => withs i (fun s =>
      match conv w u with
      | Err e => (touch_view h s w, XErr e)
      | Ok f => set_item h s w r k (v / f)
      end)
  | OAssignView i j w => withs i (fun s =>
      match nth_error (streams h) j with
      | Some o => if Nat.eqb i j then (h, XDomain) else assign_view h s o w
      | None => (h, XErr EIndex)
      end)
  | OCopyRow i w r1 r2 => withs i (fun s => copy_row_view h s w r1 r2)
  | OFromStreams l => from_streams h l
  | OResetFlow i p u tot fl => withs i (fun s => reset_flow h s p u tot fl)
  | OSub _ _ => (h, XDomain)          (* the registry of phase streams lives in the outermost layer (stepS) *)
  | OEmpty i => withs i (fun s => (empty_all h s, XNone))
  | OResetFlowM _ _ _ _ _ => (h, XDomain)   (* composed in the outermost layer (stepS): it goes through the phases setter *)
  end.

Fixpoint run h (ops : list op) : heap * list outcome :=
  match ops with
  | [] => (h, [])
  | o :: t => let '(h1, x) := step h o in let '(h2, xs) := run h1 t in (h2, x :: xs)
  end.

(* ---------- state kept between calls outside the indexers ----------
   u_flow  Stream._flow_cache: units string -> (name, factor)
   u_fac   AbsoluteUnitsOfMeasure.factor_cache of the units object of each dimension: (dimension, units) -> factor
   u_pm    per stream: _property_cache_key and _property_cache['V'] (the only property these histories read) *)
Record ustate := mkU {
  uh : heap; u_flow : list (nat * (view * Q)); u_fac : list (view * nat * Q); u_pm : list (option (pkey * Q))
}.
Definition with_heap U h := mkU h (u_flow U) (u_fac U) (u_pm U).
Definition liftU U (x : heap * outcome) : ustate * outcome := (with_heap U (fst x), snd x).

Fixpoint fac_find (w : view) (u : nat) (l : list (view * nat * Q)) : option Q :=
  match l with
  | [] => None
  | (w', u', f) :: t => if view_eqb w w' && Nat.eqb u u' then Some f else fac_find w u t
  end.
Fixpoint flow_find (u : nat) (l : list (nat * (view * Q))) : option (view * Q) :=
  match l with
  | [] => None
  | (u', x) :: t => if Nat.eqb u u' then Some x else flow_find u t
  end.

(* AbsoluteUnitsOfMeasure.conversion_factor of the units object of dimension w *)
Definition cfactor U (w : view) (u : nat) : ustate * res Q :=
  match fac_find w u (u_fac U) with
  | Some f => (U, Ok f)
  | None => match conv w u with
            | Ok f => (mkU (uh U) (u_flow U) ((w, u, f) :: u_fac U) (u_pm U), Ok f)
            | Err e => (U, Err e)
            end
  end.
(* Stream._get_flow_name_and_factor: the dimensionality is checked before the factor is asked for *)
Definition dim_of (u : nat) : option view := option_map fst (unit_of u).
Definition flow_lookup U (u : nat) : ustate * res (view * Q) :=
  match flow_find u (u_flow U) with
  | Some x => (U, Ok x)
  | None =>
      match dim_of u with
      | None => (U, Err EDim)
      | Some w => let '(U1, r) := cfactor U w u in
                  match r with
                  | Ok f => (mkU (uh U1) ((u, (w, f)) :: u_flow U1) (u_fac U1) (u_pm U1), Ok (w, f))
                  | Err e => (U1, Err e)
                  end
      end
  end.

Definition prow_eqb (a b : phase * vec) : bool := phase_eqb (fst a) (fst b) && veqb (snd a) (snd b).
Definition pkey_eqb (a b : pkey) : bool :=
  Bool.eqb (k_multi a) (k_multi b) && list_eqb prow_eqb (k_rows a) (k_rows b)
  && qeqb (k_T a) (k_T b) && qeqb (k_P a) (k_P b).
Definition pm_get U (i : nat) : option (pkey * Q) := nth i (u_pm U) None.
Definition pm_set U (i : nat) (x : option (pkey * Q)) : ustate := mkU (uh U) (u_flow U) (u_fac U) (upd (u_pm U) i x).

(* F_vol getter: 1000 * self.V * F_mol if F_mol else 0, with V through _get_property *)
Definition F_volU U (i : nat) s : ustate * Q :=
  let h := uh U in
  if qzerob (F_mol h s) then (U, 0)
  else
    let k := key_of h s in
    let miss := (pm_set U i (Some (k, vmix_key (chems (pkg s)) k)), 1000 * vmix_key (chems (pkg s)) k * F_mol h s) in
    match pm_get U i with
    | Some (k', v) => if pkey_eqb k' k then (U, 1000 * v * F_mol h s) else miss
    | None => miss
    end.
Definition totalU U (i : nat) s (w : view) : ustate * Q :=
  match w with VVol => F_volU U i s | _ => (U, total (uh U) s w) end.
Definition set_totalU U (i : nat) s (w : view) (v : Q) : ustate * outcome :=
  let '(U1, F) := totalU U i s w in
  let h := uh U1 in
  match w with
  | VMass => if negb (qzerob F) then (with_heap U1 (scale_all h s (v / F)), XNone)
             else if negb (qzerob v) then (U1, XErr EOther) else (with_heap U1 (empty_all h s), XNone)
  | _ => if qzerob F then (U1, XErr EOther) else (with_heap U1 (scale_all h s (v / F)), XNone)
  end.

Definition is_none (x : outcome) : bool := match x with XNone => true | _ => false end.

Definition stepU U (o : op) : ustate * outcome :=
  let h := uh U in
  let withs i (f : stream -> ustate * outcome) :=
    match nth_error (streams h) i with Some s => f s | None => (U, XErr EIndex) end in
  match o with
  | OTotal i w => withs i (fun s => let '(U1, x) := totalU U i s w in (U1, XMat [[x]]))
  | OGetFlow i u r k => withs i (fun s =>
      let '(U1, q) := flow_lookup U u in
      match q with
      | Err e => (U1, XErr e)
      | Ok (w, f) => liftU U1 (lift (get_item (uh U1) s w r k) (fun x => f * x))
      end)
  | OSetFlow i u r k v => withs i (fun s =>
      let '(U1, q) := flow_lookup U u in
      match q with
      | Err e => (U1, XErr e)
      | Ok (w, f) => liftU U1 (set_item (uh U1) s w r k (v / f))
      end)
  | OGetTotal i u => withs i (fun s =>
      let '(U1, q) := flow_lookup U u in
      match q with
      | Err e => (U1, XErr e)
      | Ok (w, f) => let '(U2, x) := totalU U1 i s w in (U2, XMat [[f * x]])
      end)
  | OSetTotal i u v => withs i (fun s =>
      let '(U1, q) := flow_lookup U u in
      match q with
      | Err e => (U1, XErr e)
      | Ok (w, f) => set_totalU U1 i s w (v / f)
      end)
  | OSetF i w v => withs i (fun s => set_totalU U i s w v)
  | OGetData i w u r k => withs i (fun s =>
      let '(U1, q) := cfactor U w u in
      match q with
      | Err e => (with_heap U1 (touch_view (uh U1) s w), XErr e)
      | Ok f => liftU U1 (lift (get_item (uh U1) s w r k) (fun x => f * x))
      end)
  | OSetData i w u r k v => withs i (fun s =>
      let '(U1, q) := cfactor U w u in
      match q with
      | Err e => (with_heap U1 (touch_view (uh U1) s w), XErr e)
      | Ok f => liftU U1 (set_item (uh U1) s w r k (v / f))
      end)
  (* reset_cache() call sites: unlink, _reset_thermo (another package), MultiStream.phases (other phases) *)
  | OUnlink i => let '(U1, x) := liftU U (step h o) in (if is_none x then pm_set U1 i None else U1, x)
  | OThermo i k => withs i (fun s =>
      let '(U1, x) := liftU U (step h o) in (if Nat.eqb (pkg s) k then U1 else pm_set U1 i None, x))
  | OPhases i l => withs i (fun s =>
      let '(U1, x) := liftU U (step h o) in
      let reset := multi s && is_none x &&
                   match psort l with _ :: _ :: _ => negb (phases_eqb (psort l) (phs s)) | _ => false end in
      (if reset then pm_set U1 i None else U1, x))
  | OResetFlow i p u tot fl => withs i (fun s =>
      if multi s then (U, XDomain)
      else
        let U0 := with_heap U (reset_flow_pre h s p) in
        match fl, nonzero_opt tot with
        | [], None => (U0, XNone)
        | _, t =>
            let '(U1, q) := match u with None => (U0, Ok (VMol, 1)) | Some uu => flow_lookup U0 uu end in
            match q with
            | Err e => (U1, XErr e)
            | Ok (w, f) =>
                let U2 := with_heap U1 (set_items (uh U1) s w f fl) in
                match t with Some x => set_totalU U2 i s w (x / f) | None => (U2, XNone) end
            end
        end)
  | OFromStreams l =>
      let '(U1, x) := liftU U (step h o) in
      (if is_none x then mkU (uh U1) (u_flow U1) (u_fac U1) (upd (u_pm U1 ++ [None]) (length (streams h)) None) else U1, x)
  | _ => liftU U (step h o)
  end.

Fixpoint runU U (ops : list op) : ustate * list outcome :=
  match ops with
  | [] => (U, [])
  | o :: t => let '(U1, x) := stepU U o in let '(U2, xs) := runU U1 t in (U2, x :: xs)
  end.

(* ---------- which name -> position dict the molar MaterialIndexer consults ----------
   MaterialIndexer._index_cache is one of the class-level dicts _index_caches[(phases, chemicals)]; it is re-selected
   (_set_cache) when the indexer is created, by reset_chemicals and by _expand_phases, and nowhere else.  The dict of
   (phases, chemicals) answers with positions in THOSE phases and chemicals (what the dict holds is C10's subject);
   the view indexers are created with their own phases and chemicals and never change them.
   k_ic: per stream, the (phases, package) whose dict its molar indexer points to (None for a ChemicalIndexer). *)
Record kstate := mkK { ku : ustate; k_ic : list (option (list phase * nat)) }.
Definition ic_of (s : stream) : option (list phase * nat) := if multi s then Some (phs s, pkg s) else None.
Definition ic_get K (i : nat) : option (list phase * nat) := nth i (k_ic K) None.
Definition resolve K (i : nat) s (w : view) (r k : nat) : res (nat * nat) :=
  if multi s && view_eqb w VMol then
    match ic_get K i with
    | Some (ps, pk) =>
        match pindex ps (nth r (phs s) Pl), index_of (cas (gid (pkg s) k)) (map cas (chems pk)) with
        | Some r', Some k' => Ok (r', k')
        | _, _ => Err EKey
        end
    | None => Err EOther
    end
  else Ok (r, k).
(* the view a name-keyed operation goes through, and the operation with its key replaced by positions *)
Definition keyed (o : op) : option (nat * option view * nat * nat) :=
  match o with
  | OSet i w r k _ => Some (i, Some w, r, k)
  | OGetFlow i u r k | OSetFlow i u r k _ => Some (i, dim_of u, r, k)
  | OGetData i w _ r k | OSetData i w _ r k _ => Some (i, Some w, r, k)
  | _ => None
  end.
Definition rekey (o : op) (r k : nat) : op :=
  match o with
  | OSet i w _ _ v => OSet i w r k v
  | OGetFlow i u _ _ => OGetFlow i u r k
  | OSetFlow i u _ _ v => OSetFlow i u r k v
  | OGetData i w u _ _ => OGetData i w u r k
  | OSetData i w u _ _ v => OSetData i w u r k v
  | _ => o
  end.
(* operations after which the stream's molar indexer is a new object or has re-selected its dict *)
Definition reselects (o : op) : option nat :=
  match o with
  | OPhase i _ | OPhases i _ | OCopyLike i _ | OThermo i _ | ORoundTrip i _ => Some i
  | _ => None
  end.
Definition ic_refresh (h : heap) (ic : list (option (list phase * nat))) (i : nat) :=
  match nth_error (streams h) i with Some s => upd ic i (ic_of s) | None => ic end.

Definition stepK K (o : op) : kstate * outcome :=
  let h := uh (ku K) in
  let o' := match keyed o with
            | Some (i, Some w, r, k) =>
                match nth_error (streams h) i with
                | Some s => match resolve K i s w r k with Ok rk => Ok (rekey o (fst rk) (snd rk)) | Err e => Err e end
                | None => Ok o
                end
            | _ => Ok o
            end in
  match o' with
  | Err e => (K, XErr e)
  | Ok o1 =>
      let '(U1, x) := stepU (ku K) o1 in
      let ic1 := match o with
                 | OFromStreams _ => if is_none x then ic_refresh (uh U1) (k_ic K ++ [None]) (length (streams h)) else k_ic K
                 | _ => match reselects o with Some i => ic_refresh (uh U1) (k_ic K) i | None => k_ic K end
                 end in
      (mkK U1 ic1, x)
  end.
Fixpoint runK K (ops : list op) : kstate * list outcome :=
  match ops with
  | [] => (K, [])
  | o :: t => let '(K1, x) := stepK K o in let '(K2, xs) := runK K1 t in (K2, x :: xs)
  end.

(* ---------- the phase streams of a MultiStream (ms[phase], MultiStream._streams) ----------
   s_subs    the _streams dicts: (multi-stream, phase) -> stream of the store
   s_locked  the Phase boxes that are LockedPhase objects
   A phase stream is an ordinary single-phase stream of the heap whose molar vector is one row of the MultiStream's
   array, whose ThermalCondition object is the MultiStream's and whose indexer (with its own view cache) is created
   by get_phase.  The MultiStream re-creates those indexers when it gets a new MaterialIndexer (phases setter,
   _reset_thermo), forgets the phase streams when it becomes single-phase, and resets their property memo in reset_cache. *)
Record sstate := mkS { sk : kstate; s_subs : list (nat * (phase * nat)); s_locked : list nat }.
Definition s_heap S : heap := uh (ku (sk S)).
Definition k_with_heap K h := mkK (with_heap (ku K) h) (k_ic K).
Definition k_pm_reset K (c : nat) := mkK (pm_set (ku K) c None) (k_ic K).
Definition k_grow K h (n : nat) :=            (* one more stream (a single-phase one) in the store *)
  mkK (mkU h (u_flow (ku K)) (u_fac (ku K)) (upd (u_pm (ku K) ++ [None]) n None)) (upd (k_ic K ++ [None]) n None).
Fixpoint sub_find (i : nat) (p : phase) (l : list (nat * (phase * nat))) : option nat :=
  match l with
  | [] => None
  | (j, (q, c)) :: t => if Nat.eqb j i && phase_eqb q p then Some c else sub_find i p t
  end.
Definition subs_of (i : nat) (l : list (nat * (phase * nat))) := filter (fun x => Nat.eqb (fst x) i) l.
Definition subs_not (i : nat) (l : list (nat * (phase * nat))) := filter (fun x => negb (Nat.eqb (fst x) i)) l.
Definition locked S (b : nat) : bool := existsb (Nat.eqb b) (s_locked S).

(* stream._imol = imol.get_phase(phase): a new ChemicalIndexer over the row, with a LockedPhase and an empty view cache *)
Definition repoint K (c row : nat) (p : phase) (pk : nat) : kstate * option nat :=
  let h := uh (ku K) in
  match nth_error (streams h) c with
  | Some sc =>
      if multi sc then (K, None)        (* only single-phase children are re-pointed inside the modelled domain *)
      else
        let '(ca, h1) := new_cache h in
        let '(b, h2) := new_box h1 p in
        (* ... and reset_cache() of the MultiStream renews the child's property memo in the same call *)
        (k_pm_reset (k_with_heap K (put_stream h2 c (mkstream false row b [] pk ca (tc sc)))) c, Some b)
  | None => (K, None)
  end.
(* the loops over _streams in the phases setter (check = true: phase still there and still a Stream, else forgotten)
   and in _reset_thermo (check = false) *)
Fixpoint repoint_all K (check : bool) (sp : stream) (l : list (nat * (phase * nat)))
         : kstate * list (nat * (phase * nat)) * list nat :=
  match l with
  | [] => (K, [], [])
  | (i, (p, c)) :: t =>
      let h := uh (ku K) in
      let single := match nth_error (streams h) c with Some sc => negb (multi sc) | None => false end in
      match pindex (phs sp) p with
      | Some r =>
          if negb check || single then
            let '(K1, b) := repoint K c (nth r (getarr h (sdata sp)) O) p (pkg sp) in
            let '(K2, keep, bs) := repoint_all K1 check sp t in
            (K2, (i, (p, c)) :: keep, match b with Some x => x :: bs | None => bs end)
          else repoint_all K check sp t
      | None => repoint_all K check sp t
      end
  end.
Fixpoint reset_memos K (l : list (nat * (phase * nat))) : kstate :=
  match l with [] => K | (_, (_, c)) :: t => reset_memos (k_pm_reset K c) t end.

Definition target_of (o : op) : option nat :=
  match o with
  | OPhase i _ | OPhases i _ | OCopyLike i _ | OThermo i _ | OUnlink i | OResetFlow i _ _ _ _ => Some i
  | _ => None
  end.

Definition stepS0 S (o : op) : sstate * outcome :=
  let K := sk S in
  let h := uh (ku K) in
  let before i := nth_error (streams h) i in
  let is_locked s := negb (multi s) && locked S (pbox s) in
  match o with
  | OSub i r =>
      match before i with
      | None => (S, XErr EIndex)
      | Some s =>
          if negb (multi s) then (S, XDomain)
          else match nth_error (phs s) r, nth_error (getarr h (sdata s)) r with
               | Some p, Some d =>
                   match sub_find i p (s_subs S) with
                   | Some _ => (S, XNone)
                   | None =>
                       let '(ca, h1) := new_cache h in
                       let '(b, h2) := new_box h1 p in
                       let n := length (streams h) in
                       let h3 := set_streams h2 (streams h2 ++ [mkstream false d b [] (pkg s) ca (tc s)]) in
                       (mkS (k_grow K h3 n) ((i, (p, n)) :: s_subs S) (b :: s_locked S), XNone)
                   end
               | _, _ => (S, XErr EIndex)
               end
      end
  | _ =>
      (* a LockedPhase refuses another phase (AttributeError), unlink refuses a locked phase (RuntimeError) *)
      let refused :=
        match o with
        | OPhase i p => match before i with
                        | Some s => if is_locked s && negb (phase_eqb p (getbox h (pbox s))) then Some EOther else None
                        | None => None end
        | OUnlink i => match before i with Some s => if is_locked s then Some ERuntime else None | None => None end
        | _ => None
        end in
      let outside :=
        match o with
        | OPhases i l => match before i with
                         | Some s => is_locked s && match psort l with [p] => negb (phase_eqb p (getbox h (pbox s))) | _ => false end
                         | None => false end
        | OCopyLike i j => match before i, before j with
                           | Some s, Some o' => is_locked s && negb (Nat.eqb i j)
                           | _, _ => false end
        | OAssignView _ _ _ => false
        | OResetFlow i (Some p) _ _ _ => match before i with
                                         | Some s => is_locked s && negb (phase_eqb p (getbox h (pbox s)))
                                         | None => false end
        | OThermo i _ => match before i with
                         | Some s => existsb (fun x => match before (snd (snd x)) with Some sc => multi sc | None => true end)
                                             (subs_of i (s_subs S))
                         | None => false end
        | _ => false
        end in
      match refused with
      | Some e => (S, XErr e)
      | None =>
          if outside then (S, XDomain)
          else
            let '(K1, x) := stepK K o in
            let h1 := uh (ku K1) in
            let subs := s_subs S in
            match o with
            | OFromStreams l =>
                if is_none x then
                  let n := length (streams h) in
                  let regs := map (fun j => (n, (match before j with Some sj => getbox h (pbox sj) | None => Pl end, j))) l in
                  (mkS K1 (regs ++ subs) (s_locked S), x)
                else (mkS K1 subs (s_locked S), x)
            | _ =>
              match target_of o, (match target_of o with Some i => before i | None => None end),
                    (match target_of o with Some i => nth_error (streams h1) i | None => None end) with
              | Some i, Some s, Some s' =>
                  match o with
                  | OUnlink _ =>
                      (mkS (if is_none x && multi s then reset_memos K1 (subs_of i subs) else K1) subs (s_locked S), x)
                  | OThermo _ k =>
                      if Nat.eqb (pkg s) k then (mkS K1 subs (s_locked S), x)
                      else if multi s' then
                        let '(K2, keep, bs) := repoint_all K1 false s' (subs_of i subs) in
                        (mkS (reset_memos K2 keep) subs (bs ++ s_locked S), x)
                      else (mkS K1 subs (s_locked S), x)
                  | OResetFlow _ _ _ _ _ => (mkS K1 subs (s_locked S), x)
                  | _ =>
                      if multi s && multi s' && negb (Nat.eqb (sdata s) (sdata s')) then
                        (* MultiStream.phases with other phases: a new MaterialIndexer *)
                        let '(K2, keep, bs) := repoint_all K1 true s' (subs_of i subs) in
                        (mkS (reset_memos K2 keep) (keep ++ subs_not i subs) (bs ++ s_locked S), x)
                      else if negb (Bool.eqb (multi s) (multi s')) then
                        (mkS K1 (subs_not i subs) (s_locked S), x)          (* _streams.clear() / _streams = {} *)
                      else (mkS K1 subs (s_locked S), x)
                  end
              | _, _, _ => (mkS K1 subs (s_locked S), x)
              end
            end
      end
  end.
(* ---------- MultiStream.reset_flow (_multi_stream.py:279-304) ----------
   imol.empty(); self.phases = set(phase_flows) | {'l', 'g'} if phases is None else phases;
   for phase, data in phase_flows.items(): self.set_flow(values, units, (phase, keys));
   if total_flow: self.set_total_flow(total_flow, units)
   -- a composition of operations of the model (each with its effects on every layer); the first one that raises ends it.
   The phase label of every group of flows is resolved in the phases the stream has AFTER the phases setter. *)
Fixpoint set_flows_row S (i u r : nat) (fl : list (nat * Q)) : sstate * outcome :=
  match fl with
  | [] => (S, XNone)
  | (k, v) :: t => let '(S1, x) := stepS0 S (OSetFlow i u r k v) in
                   if is_none x then set_flows_row S1 i u r t else (S1, x)
  end.
Fixpoint set_phase_flows S (i u : nat) (pf : list (phase * list (nat * Q))) : sstate * outcome :=
  match pf with
  | [] => (S, XNone)
  | (p, fl) :: t =>
      match nth_error (streams (s_heap S)) i with
      | None => (S, XErr EIndex)
      | Some s =>
          match pindex (phs s) p with
          | None => (S, XErr EUndefPhase)
          | Some r => let '(S1, x) := set_flows_row S i u r fl in
                      if is_none x then set_phase_flows S1 i u t else (S1, x)
          end
      end
  end.
Definition reset_flow_multi S (i : nat) (tot : option Q) (u : nat) (l : option (list phase))
           (pf : list (phase * list (nat * Q))) : sstate * outcome :=
  match nth_error (streams (s_heap S)) i with
  | None => (S, XErr EIndex)
  | Some s =>
      let ps := match l with Some x => x | None => Pl :: Pg :: map fst pf end in
      if negb (multi s) then (S, XDomain)
      else match psort ps with
           | _ :: _ :: _ =>
               let '(S1, x1) := stepS0 S (OEmpty i) in
               if negb (is_none x1) then (S1, x1) else
               let '(S2, x2) := stepS0 S1 (OPhases i ps) in
               if negb (is_none x2) then (S2, x2) else
               let '(S3, x3) := set_phase_flows S2 i u pf in
               if negb (is_none x3) then (S3, x3) else
               match nonzero_opt tot with
               | Some t => stepS0 S3 (OSetTotal i u t)
               | None => (S3, XNone)
               end
           | _ => (S, XDomain)     (* fewer than two phases: the stream becomes single-phase half-way (C12's subject) *)
           end
  end.
Definition stepS S (o : op) : sstate * outcome :=
  match o with
  | OResetFlowM i tot u l pf => reset_flow_multi S i tot u l pf
  | _ => stepS0 S o
  end.
Fixpoint runS S (ops : list op) : sstate * list outcome :=
  match ops with
  | [] => (S, [])
  | o :: t => let '(S1, x) := stepS S o in let '(S2, xs) := runS S1 t in (S2, x :: xs)
  end.

(* ---------- construction of the initial store ---------- *)
Inductive init := IS (k : nat) (p : phase) (T P : Q) (flow : vec)
                | IM (k : nat) (l : list phase) (T P : Q) (flow : list vec).
Definition heap0 := mkheap [] [] [] [] [] [].
Definition add_stream h (x : init) : heap :=
  match x with
  | IS k p T P flow =>
      let '(d, h1) := new_row h flow in
      let '(b, h2) := new_box h1 p in
      let '(c, h3) := new_cache h2 in
      let '(t, h4) := new_tp h3 (T, P) in
      set_streams h4 (streams h4 ++ [mkstream false d b [] k c t])
  | IM k l T P flow =>
      let '(rs, h1) := new_rows h flow in
      let '(a, h2) := new_arr h1 rs in
      let '(c, h3) := new_cache h2 in
      let '(t, h4) := new_tp h3 (T, P) in
      set_streams h4 (streams h4 ++ [mkstream true a O l k c t])
  end.
Definition build (l : list init) : heap := fold_left add_stream l heap0.
Definition buildU (l : list init) : ustate := mkU (build l) [] [] (repeat None (length l)).
Definition buildK (l : list init) : kstate := mkK (buildU l) (map ic_of (streams (build l))).
Definition buildS (l : list init) : sstate := mkS (buildK l) [] [].

(* ---------- the final observation of every stream ---------- *)
Record fin := mkfin {
  f_multi : bool; f_pkg : nat; f_phases : list phase; f_T : Q; f_P : Q;
  f_mol : res (list vec); f_mass : res (list vec); f_vol : res (list vec);
  f_Fmol : res Q; f_Fmass : res Q; f_Fvol : res Q; f_alias : res (list bool)
}.
Definition snapshot h s : heap * fin :=
  let '(h1, mass) := read_mass h s in
  let '(h2, vol) := read_vol h1 s in
  let '(h3, fl) := alias_flags h2 s in
  (h3, mkfin (multi s) (pkg s) (cur_phases h s) (fst (gettp h (tc s))) (snd (gettp h (tc s)))
             (Ok (read_mol h s)) (Ok mass) (Ok vol) (Ok (F_mol h s)) (Ok (F_mass h s)) (Ok (F_vol h s)) (Ok fl)).
Fixpoint snapshots h (n i : nat) : list fin :=
  match n with
  | O => []
  | S n' => match nth_error (streams h) i with
            | Some s => let '(h1, f) := snapshot h s in f :: snapshots h1 n' (S i)
            | None => []
            end
  end.
End Model.

(* ---------- comparison with the observations of the implementation ---------- *)
Definition mat_approxb (a b : list vec) : bool := list_eqb vapproxb a b.
Definition outcome_eqb (a b : outcome) : bool :=
  match a, b with
  | XNone, XNone => true
  | XErr e, XErr f => err_eqb e f
  | XMat m, XMat n => mat_approxb m n
  | XFlags l, XFlags k => list_eqb Bool.eqb l k
  | _, _ => false
  end.
Definition fin_eqb (a b : fin) : bool :=
  Bool.eqb (f_multi a) (f_multi b) && Nat.eqb (f_pkg a) (f_pkg b) && phases_eqb (f_phases a) (f_phases b)
  && qeqb (f_T a) (f_T b) && qeqb (f_P a) (f_P b)
  && res_eqb mat_approxb (f_mol a) (f_mol b) && res_eqb mat_approxb (f_mass a) (f_mass b)
  && res_eqb mat_approxb (f_vol a) (f_vol b)
  && res_eqb qapproxb (f_Fmol a) (f_Fmol b) && res_eqb qapproxb (f_Fmass a) (f_Fmass b)
  && res_eqb qapproxb (f_Fvol a) (f_Fvol b) && res_eqb (list_eqb Bool.eqb) (f_alias a) (f_alias b).

(* ---------- the stand-ins used by the correspondence harness (props/C11.py) ---------- *)
Definition vstub (g : nat) (p : phase) (T P : Q) : Q :=
  (Z.of_nat (1 + g) # 64) + (match p with Ps | PS => 1 | Pl | PL => 2 | Pg => 5 end # 8) + T / 4096 + P / 67108864.
Definition mwstub (g : nat) : Q := nth g [16; 32; 8; 4; 1; 1; 1; 1; 64; 2; 128] 1.
Definition pkgstub : list (list nat) := [[0; 1; 2]; [2; 0; 3; 1]; [8; 9; 10]]%nat.

Definition check_case (utab : list (option (view * Q))) (l : list init) (ops : list op)
           (obs : list outcome) (fins : list fin) : bool :=
  let '(S1, xs) := runS vstub mwstub pkgstub utab (buildS l) ops in
  let h1 := s_heap S1 in
  list_eqb outcome_eqb xs obs
  && list_eqb fin_eqb (snapshots vstub mwstub pkgstub h1 (length (streams h1)) O) fins.
Definition show_case (utab : list (option (view * Q))) (l : list init) (ops : list op) :=
  let '(S1, xs) := runS vstub mwstub pkgstub utab (buildS l) ops in
  (xs, snapshots vstub mwstub pkgstub (s_heap S1) (length (streams (s_heap S1))) O, S1).
