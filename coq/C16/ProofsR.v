(* C16 — the translated kernels at the real carrier KR (exp, ln, x^(3/4) are the real
   functions).  Per-chemical arrays are written as [map proj cs] over a list of chemical
   records, which makes "depends on the chemical, not on its position" a statement about map. *)
From V Require Import Common.NumFacts C16.Model C16.Proofs.
From V Require Export C16.Lit.
From Coq Require Import Reals Lia List Permutation Qreals.
From Coq Require Import Lra.
Import ListNotations.
Local Open Scope R_scope.

Definition Rpow34 (x : R) : R := Rpower x (3 / 4).
Definition Reqb (a b : R) : bool := if Req_EM_T a b then true else false.
Definition KR : KOps R := mkK R Rplus Rminus Rmult Rdiv Ropp Q2R exp ln Rpow34 Reqb.

Lemma Q2R_0' : Q2R (0 # 1) = 0. Proof. unfold Q2R; cbn [Qnum Qden]; rewrite Rinv_1; lra. Qed.
Lemma Q2R_1' : Q2R (1 # 1) = 1. Proof. unfold Q2R; cbn [Qnum Qden]; rewrite Rinv_1; lra. Qed.
Lemma Q2R_5' : Q2R (5 # 1) = 5. Proof. unfold Q2R; cbn [Qnum Qden]; rewrite Rinv_1; lra. Qed.
Lemma kzero_KR : kzero KR = 0. Proof. apply Q2R_0'. Qed.
Lemma kone_KR : kone KR = 1. Proof. apply Q2R_1'. Qed.

(* ---------- literature notation ---------- *)
Definition sum_over {B} (cs : list B) (f : B -> R) : R := sumR (map f cs).

Lemma ksum_KR l : ksum KR l = sumR l.
Proof. unfold ksum, sumR. simpl. rewrite Q2R_0'. reflexivity. Qed.

(* ---------- map algebra ---------- *)
Lemma map2_map_map {B C D E} (f : C -> D -> E) (g : B -> C) (h : B -> D) l :
  map2 f (map g l) (map h l) = map (fun c => f (g c) (h c)) l.
Proof. induction l; simpl; congruence. Qed.

Lemma map2_map_l {B C D E} (f : C -> D -> E) (g : B -> C) l (m : list D) :
  map2 f (map g l) m = map2 (fun c d => f (g c) d) l m.
Proof. revert m; induction l; intros [|? ?]; simpl; congruence. Qed.

Lemma sumR_perm l l' : Permutation l l' -> sumR l = sumR l'.
Proof. induction 1; simpl; lra. Qed.

Lemma sum_over_perm {B} (cs cs' : list B) f : Permutation cs cs' -> sum_over cs f = sum_over cs' f.
Proof. intros P. apply sumR_perm. apply Permutation_map. exact P. Qed.

Lemma sum_over_ext {B} (cs : list B) f g : (forall c, In c cs -> f c = g c) -> sum_over cs f = sum_over cs g.
Proof.
  unfold sum_over. induction cs as [|c t IH]; intros H; simpl; auto.
  rewrite H by (left; auto). rewrite IH; auto. intros; apply H; right; auto.
Qed.

(* ---------- chemicals as records ---------- *)
Record chem := mkChem {
  cx : R;            (* mole fraction *)
  cq : R; cr : R;    (* van der Waals surface and volume of the molecule *)
  cg : list R;       (* group counts (row of chemgroups) *)
  cQ : list R;       (* row of chem_Qfractions *)
  cl : R             (* ln gamma^C passed to the group kernel *)
}.

Definition rho (cs : list chem) : R := sum_over cs (fun c => cx c * cr c).
Definition theta (cs : list chem) : R := sum_over cs (fun c => cx c * cq c).
Definition rho34 (cs : list chem) : R := sum_over cs (fun c => Rpow34 (cr c) * cx c).

Lemma vdot_map {B} (cs : list B) f g : vdot KR (map f cs) (map g cs) = sum_over cs (fun c => f c * g c).
Proof. unfold vdot. rewrite ksum_KR. simpl. rewrite map2_map_map. reflexivity. Qed.

(* ---------- combinatorial kernels in map form ---------- *)
Definition comb_modified_of (cs : list chem) (c : chem) : R :=
  lit_comb (Rpow34 (cr c) / rho34 cs) (cr c / rho cs) (cq c / theta cs) (cq c).

(* the shape `1 - V + ln V - ...` is what the source must have for this lemma to go through *)
Lemma loggammacs_UNIFAC_map cs :
  loggammacs_UNIFAC KR (map cq cs) (map cr cs) (map cx cs) =
  map (fun c => lit_comb (cr c / rho cs) (cr c / rho cs) (cq c / theta cs) (cq c)) cs.
Proof.
  unfold loggammacs_UNIFAC, bc_10, bc_11, bc_01, umap1. simpl.
  rewrite !vdot_map. fold (rho cs). fold (theta cs).
  rewrite ?map_map, ?map2_map_map, ?map_map.
  repeat (rewrite ?map_map; rewrite ?map2_map_map).
  apply map_ext. intros c. unfold lit_comb. rewrite Q2R_1', Q2R_5'. reflexivity.
Qed.

Lemma loggammacs_modified_UNIFAC_map cs :
  loggammacs_modified_UNIFAC KR (map cq cs) (map cr cs) (map cx cs) = map (comb_modified_of cs) cs.
Proof.
  unfold loggammacs_modified_UNIFAC, bc_10, bc_11, bc_01, umap1. simpl.
  rewrite !map_map. rewrite !vdot_map. fold (rho cs). fold (theta cs).
  change (sum_over cs (fun c => Rpow34 (cr c) * cx c)) with (rho34 cs).
  repeat (rewrite ?map_map; rewrite ?map2_map_map).
  apply map_ext. intros c. unfold comb_modified_of, lit_comb. rewrite Q2R_1', Q2R_5'. reflexivity.
Qed.

(* ---------- position independence of the combinatorial part ---------- *)
Lemma rho_perm cs cs' : Permutation cs cs' -> rho cs = rho cs'.
Proof. apply sum_over_perm. Qed.
Lemma theta_perm cs cs' : Permutation cs cs' -> theta cs = theta cs'.
Proof. apply sum_over_perm. Qed.
Lemma rho34_perm cs cs' : Permutation cs cs' -> rho34 cs = rho34 cs'.
Proof. apply sum_over_perm. Qed.

Lemma comb_UNIFAC_perm cs cs' : Permutation cs cs' ->
  Permutation (combine cs (loggammacs_UNIFAC KR (map cq cs) (map cr cs) (map cx cs)))
              (combine cs' (loggammacs_UNIFAC KR (map cq cs') (map cr cs') (map cx cs'))).
Proof.
  intros P. rewrite !loggammacs_UNIFAC_map.
  rewrite <- (rho_perm _ _ P), <- (theta_perm _ _ P).
  set (F := fun c => lit_comb (cr c / rho cs) (cr c / rho cs) (cq c / theta cs) (cq c)).
  assert (E : forall l, combine l (map F l) = map (fun c => (c, F c)) l)
    by (induction l; simpl; congruence).
  rewrite !E. apply Permutation_map. exact P.
Qed.

Lemma comb_modified_perm cs cs' : Permutation cs cs' ->
  Permutation (combine cs (loggammacs_modified_UNIFAC KR (map cq cs) (map cr cs) (map cx cs)))
              (combine cs' (loggammacs_modified_UNIFAC KR (map cq cs') (map cr cs') (map cx cs'))).
Proof.
  intros P. rewrite !loggammacs_modified_UNIFAC_map.
  assert (F : comb_modified_of cs = comb_modified_of cs').
  { unfold comb_modified_of. rewrite (rho_perm _ _ P), (theta_perm _ _ P), (rho34_perm _ _ P). reflexivity. }
  rewrite <- F.
  assert (E : forall l, combine l (map (comb_modified_of cs) l) = map (fun c => (c, comb_modified_of cs c)) l)
    by (induction l; simpl; congruence).
  rewrite !E. apply Permutation_map. exact P.
Qed.

(* ---------- pure-component limit of the combinatorial part ---------- *)
(* c is the only chemical present: x_c = 1 and every other x is 0 *)
Definition pure_at (cs : list chem) (i : nat) : Prop :=
  forall j, (j < length cs)%nat -> cx (nth j cs (mkChem 0 0 0 [] [] 0)) = if Nat.eqb j i then 1 else 0.

Lemma sumR_map_zero {B} (f : B -> R) t d :
  (forall j, (j < length t)%nat -> f (nth j t d) = 0) -> sumR (map f t) = 0.
Proof.
  induction t as [|c' t' IH]; intros H; simpl; auto.
  pose proof (H 0%nat ltac:(simpl; lia)) as E0. simpl in E0. rewrite E0.
  rewrite IH; [lra|]. intros j Hj. apply (H (S j)). simpl; lia.
Qed.

Lemma sum_over_pure {B} (cs : list B) i (f : B -> R) d :
  (i < length cs)%nat ->
  (forall j, (j < length cs)%nat -> j <> i -> f (nth j cs d) = 0) ->
  sum_over cs f = f (nth i cs d).
Proof.
  unfold sum_over. revert i. induction cs as [|c t IH]; intros i Hi H; simpl in *; [lia|].
  destruct i as [|i].
  - rewrite (sumR_map_zero f t d); [lra|]. intros j Hj. apply (H (S j)); lia.
  - pose proof (H 0%nat ltac:(lia) ltac:(lia)) as E0. simpl in E0. rewrite E0.
    rewrite (IH i); [lra|lia|]. intros j Hj Hne. apply (H (S j)); lia.
Qed.

Lemma pure_sums cs i : (i < length cs)%nat -> pure_at cs i ->
  let c := nth i cs (mkChem 0 0 0 [] [] 0) in
  rho cs = cr c /\ theta cs = cq c /\ rho34 cs = Rpow34 (cr c).
Proof.
  intros Hi P c. unfold rho, theta, rho34.
  rewrite !(sum_over_pure cs i _ (mkChem 0 0 0 [] [] 0) Hi).
  - subst c. rewrite (P i Hi). rewrite Nat.eqb_refl. repeat split; lra.
  - intros j Hj Hne. rewrite (P j Hj). apply Nat.eqb_neq in Hne. rewrite Hne. lra.
  - intros j Hj Hne. rewrite (P j Hj). apply Nat.eqb_neq in Hne. rewrite Hne. lra.
  - intros j Hj Hne. rewrite (P j Hj). apply Nat.eqb_neq in Hne. rewrite Hne. lra.
Qed.

Lemma lit_comb_one q : lit_comb 1 1 1 q = 0.
Proof. unfold lit_comb. replace (1 / 1) with 1 by lra. rewrite ln_1. lra. Qed.

Lemma Rpow34_pos x : 0 < Rpow34 x.
Proof. unfold Rpow34, Rpower. apply exp_pos. Qed.

Lemma nth_map_in {B C} (f : B -> C) l i d d' : (i < length l)%nat -> nth i (map f l) d' = f (nth i l d).
Proof. intros H. rewrite (nth_indep _ d' (f d)) by (rewrite map_length; auto). apply map_nth. Qed.

Lemma comb_UNIFAC_pure cs i : (i < length cs)%nat -> pure_at cs i ->
  let c := nth i cs (mkChem 0 0 0 [] [] 0) in cr c <> 0 -> cq c <> 0 ->
  nth i (loggammacs_UNIFAC KR (map cq cs) (map cr cs) (map cx cs)) 0 = 0.
Proof.
  intros Hi P c Hr Hq. rewrite loggammacs_UNIFAC_map.
  rewrite (nth_map_in _ cs i (mkChem 0 0 0 [] [] 0)) by assumption. fold c.
  destruct (pure_sums cs i Hi P) as (E1 & E2 & E3). fold c in E1, E2, E3. rewrite E1, E2.
  replace (cr c / cr c) with 1 by (field; auto). replace (cq c / cq c) with 1 by (field; auto).
  apply lit_comb_one.
Qed.

Lemma comb_modified_pure cs i : (i < length cs)%nat -> pure_at cs i ->
  let c := nth i cs (mkChem 0 0 0 [] [] 0) in cr c <> 0 -> cq c <> 0 ->
  nth i (loggammacs_modified_UNIFAC KR (map cq cs) (map cr cs) (map cx cs)) 0 = 0.
Proof.
  intros Hi P c Hr Hq. rewrite loggammacs_modified_UNIFAC_map.
  rewrite (nth_map_in _ cs i (mkChem 0 0 0 [] [] 0)) by assumption. fold c. unfold comb_modified_of.
  destruct (pure_sums cs i Hi P) as (E1 & E2 & E3). fold c in E1, E2, E3. rewrite E1, E2, E3.
  pose proof (Rpow34_pos (cr c)) as Pp.
  replace (cr c / cr c) with 1 by (field; auto). replace (cq c / cq c) with 1 by (field; auto).
  replace (Rpow34 (cr c) / Rpow34 (cr c)) with 1 by (field; lra).
  apply lit_comb_one.
Qed.

(* ---------- the same statements on plain arrays ---------- *)
Definition dotR (a b : list R) : R := sumR (map2 Rmult a b).

Lemma zip_chems (qs rs x : list R) : length qs = length x -> length rs = length x ->
  exists cs, map cq cs = qs /\ map cr cs = rs /\ map cx cs = x /\ length cs = length x.
Proof.
  revert qs rs. induction x as [|a x IH]; intros [|q qs] [|r rs] Lq Lr; simpl in *; try discriminate.
  - exists []. auto.
  - destruct (IH qs rs ltac:(lia) ltac:(lia)) as (cs & E1 & E2 & E3 & E4).
    exists (mkChem a q r [] [] 0 :: cs). simpl. rewrite E1, E2, E3, E4. auto.
Qed.

Lemma comb_UNIFAC_refines qs rs x i :
  length qs = length x -> length rs = length x -> (i < length x)%nat ->
  let V := nth i rs 0 / dotR x rs in
  let F := nth i qs 0 / dotR x qs in
  nth i (loggammacs_UNIFAC KR qs rs x) 0 = lit_comb V V F (nth i qs 0).
Proof.
  intros Lq Lr Hi. destruct (zip_chems qs rs x Lq Lr) as (cs & E1 & E2 & E3 & E4).
  subst qs rs x. rewrite loggammacs_UNIFAC_map. unfold dotR. rewrite !map2_map_map.
  rewrite map_length in Hi.
  rewrite !(nth_map_in _ cs i (mkChem 0 0 0 [] [] 0)) by assumption.
  reflexivity.
Qed.

Lemma comb_modified_refines qs rs x i :
  length qs = length x -> length rs = length x -> (i < length x)%nat ->
  let V := nth i rs 0 / dotR x rs in
  let F := nth i qs 0 / dotR x qs in
  let Vp := Rpow34 (nth i rs 0) / dotR (map Rpow34 rs) x in
  nth i (loggammacs_modified_UNIFAC KR qs rs x) 0 = lit_comb Vp V F (nth i qs 0).
Proof.
  intros Lq Lr Hi. destruct (zip_chems qs rs x Lq Lr) as (cs & E1 & E2 & E3 & E4).
  subst qs rs x. rewrite loggammacs_modified_UNIFAC_map. unfold dotR. rewrite map_map. rewrite !map2_map_map.
  rewrite map_length in Hi.
  rewrite !(nth_map_in _ cs i (mkChem 0 0 0 [] [] 0)) by assumption.
  reflexivity.
Qed.

(* ================= group (residual) kernel in map form ================= *)
Section GroupKernel.
Variables (Qs : list R) (psis gpsis : list (list R)).

(* group counts of the mixture: chemgroups.transpose() @ x *)
Definition wc_of (cs : list chem) : list R := matvec KR (transpose (map cg cs)) (map cx cs).

(* ln Gamma_k of the mixture as a function of the weighted group counts W
   (lines 51-56 of the source, as translated) *)
Definition lg_groups (W : list R) : list R :=
  let Q_fractions := bc_11 (kmul KR) Qs W in
  let Q_fractions_1 := bc_10 (kdiv KR) Q_fractions (ksum KR Q_fractions) in
  let Q_psis := bc_21 (kmul KR) psis Q_fractions_1 in
  let sum1 := sum_axis1 KR Q_psis in
  let sum2 := matvec KR (umap2 (kneg KR) (bc_21 (kdiv KR) (transpose psis) sum1)) Q_fractions_1 in
  bc_11 (kmul KR) Qs (bc_11 (kadd KR) (bc_01 (ksub KR) (kq KR (1 # 1)) (umap1 (kln KR) sum1)) sum2).

(* ln Gamma_k^(i) of the pure-chemical reference, computed from the stored row of
   chem_Qfractions and the masked psis (lines 57-61) *)
Definition chem_lg (c : chem) : list R :=
  let s1 := matvec KR (transpose (transpose gpsis)) (cQ c) in
  let s1' := map2 (fun u v => if keqb KR u (kq KR (0 # 1)) then kq KR (1 # 1) else v) s1 s1 in
  let fr := map2 (kdiv KR) (map (kneg KR) (cQ c)) s1' in
  let s2 := matvec KR (transpose gpsis) fr in
  map2 (kmul KR) Qs (map2 (kadd KR) (map (ksub KR (kq KR (1 # 1))) (map (kln KR) s1')) s2).

(* ln gamma_i^R = sum_k nu_ki (ln Gamma_k - ln Gamma_k^(i)) *)
Definition resid_of (W : list R) (c : chem) : R :=
  ksum KR (map2 (kmul KR) (map2 (ksub KR) (lg_groups W) (chem_lg c)) (cg c)).

Lemma gac_map (lc : chem -> R) cs :
  group_activity_coefficients KR (map cx cs) (map cg cs) (map lc cs) Qs psis (map cQ cs) gpsis =
  map (fun c => exp (lc c + resid_of (wc_of cs) c)) cs.
Proof.
  unfold group_activity_coefficients.
  fold (wc_of cs). fold (lg_groups (wc_of cs)).
  unfold matmul, where_eq_2, bc_22, bc_12, bc_02, umap2, umap1, bc_11, sum_axis1.
  repeat (rewrite ?map_map; rewrite ?map2_map_map).
  apply map_ext. intros c. unfold resid_of, chem_lg. cbn [kexp kadd KR].
  repeat (rewrite ?map_map; rewrite ?map2_map_map). reflexivity.
Qed.
End GroupKernel.

(* ---------- the mixture's group counts do not depend on the order of the chemicals ---------- *)
Definition vaddR (a b : list R) : list R := map2 Rplus a b.
Definition axpy (c : chem) : list R := map (fun g => g * cx c) (cg c).
Definition axpy_sum (G : nat) (cs : list chem) : list R :=
  fold_right (fun c acc => vaddR (axpy c) acc) (repeat 0 G) cs.

Lemma ksum_cons a l : ksum KR (a :: l) = a + ksum KR l.
Proof. reflexivity. Qed.

Lemma matvec_cons (r : list R) (T : list (list R)) a v :
  matvec KR (map2 cons r T) (a :: v) = vaddR (map (fun g => g * a) r) (matvec KR T v).
Proof.
  revert T; induction r as [|g r IH]; intros [|row T]; simpl; auto.
  unfold vaddR in *. simpl. f_equal. apply IH.
Qed.

Lemma vaddR_zero_r (f : R -> R) l G : length l = G ->
  vaddR (map f l) (repeat 0 G) = map (fun a => f a + 0) l.
Proof. intros <-. unfold vaddR. induction l; simpl; auto. f_equal. exact IHl. Qed.

Lemma wc_axpy G cs : cs <> [] -> (forall c, In c cs -> length (cg c) = G) -> wc_of cs = axpy_sum G cs.
Proof.
  induction cs as [|c t IH]; intros NE Rect; [congruence|].
  destruct t as [|c' t'].
  - unfold wc_of, axpy_sum, axpy. simpl. rewrite vaddR_zero_r by (apply Rect; left; auto).
    unfold matvec. rewrite map_map. apply map_ext. intros a. unfold vdot. simpl. rewrite Q2R_0'. reflexivity.
  - unfold wc_of in *. 
    change (transpose (map cg (c :: c' :: t'))) with (map2 cons (cg c) (transpose (map cg (c' :: t')))).
    change (map cx (c :: c' :: t')) with (cx c :: map cx (c' :: t')).
    rewrite matvec_cons. rewrite IH; [reflexivity|discriminate|].
    intros c0 H0. apply Rect. right; auto.
Qed.

Lemma vaddR_swap a b acc : vaddR a (vaddR b acc) = vaddR b (vaddR a acc).
Proof.
  unfold vaddR. revert b acc; induction a as [|x a IH]; intros [|y b] [|z acc]; simpl; auto.
  f_equal; [lra|apply IH].
Qed.

Lemma axpy_sum_perm G cs cs' : Permutation cs cs' -> axpy_sum G cs = axpy_sum G cs'.
Proof.
  induction 1 as [|c l l' P IH|c c' l|l l' l'' P1 IH1 P2 IH2]; simpl; auto.
  - f_equal. exact IH.
  - apply vaddR_swap.
  - congruence.
Qed.

Lemma wc_perm G cs cs' : Permutation cs cs' -> (forall c, In c cs -> length (cg c) = G) ->
  wc_of cs = wc_of cs'.
Proof.
  intros P Rect. destruct cs as [|c t].
  - apply Permutation_nil in P. subst. reflexivity.
  - rewrite (wc_axpy G (c :: t)) by (auto; discriminate).
    rewrite (wc_axpy G cs').
    + apply axpy_sum_perm. exact P.
    + intros E. subst. apply Permutation_sym, Permutation_nil in P. discriminate.
    + intros c0 H0. apply Rect. eapply Permutation_in; [apply Permutation_sym; exact P|exact H0].
Qed.

(* ---------- gamma of the sub-system with groups: combinatorial x residual, both models ---------- *)
Section Full.
Variables (Qs : list R) (psis gpsis : list (list R)).

Definition gamma_sub_UNIFAC (cs : list chem) : list R :=
  group_activity_coefficients KR (map cx cs) (map cg cs)
    (loggammacs_UNIFAC KR (map cq cs) (map cr cs) (map cx cs)) Qs psis (map cQ cs) gpsis.
Definition gamma_sub_modified (cs : list chem) : list R :=
  group_activity_coefficients KR (map cx cs) (map cg cs)
    (loggammacs_modified_UNIFAC KR (map cq cs) (map cr cs) (map cx cs)) Qs psis (map cQ cs) gpsis.

Definition comb_UNIFAC_of (cs : list chem) (c : chem) : R :=
  lit_comb (cr c / rho cs) (cr c / rho cs) (cq c / theta cs) (cq c).

Lemma gamma_sub_UNIFAC_map cs :
  gamma_sub_UNIFAC cs = map (fun c => exp (comb_UNIFAC_of cs c + resid_of Qs psis gpsis (wc_of cs) c)) cs.
Proof. unfold gamma_sub_UNIFAC. rewrite loggammacs_UNIFAC_map. apply (gac_map Qs psis gpsis (comb_UNIFAC_of cs)). Qed.

Lemma gamma_sub_modified_map cs :
  gamma_sub_modified cs = map (fun c => exp (comb_modified_of cs c + resid_of Qs psis gpsis (wc_of cs) c)) cs.
Proof. unfold gamma_sub_modified. rewrite loggammacs_modified_UNIFAC_map. apply (gac_map Qs psis gpsis (comb_modified_of cs)). Qed.

Lemma combine_map_self {B C} (F : B -> C) l : combine l (map F l) = map (fun c => (c, F c)) l.
Proof. induction l; simpl; congruence. Qed.

Lemma gamma_sub_perm G cs cs' : Permutation cs cs' -> (forall c, In c cs -> length (cg c) = G) ->
  Permutation (combine cs (gamma_sub_UNIFAC cs)) (combine cs' (gamma_sub_UNIFAC cs')) /\
  Permutation (combine cs (gamma_sub_modified cs)) (combine cs' (gamma_sub_modified cs')).
Proof.
  intros P Rect.
  rewrite !gamma_sub_UNIFAC_map, !gamma_sub_modified_map.
  rewrite <- (wc_perm G cs cs' P Rect).
  assert (F1 : comb_UNIFAC_of cs = comb_UNIFAC_of cs').
  { unfold comb_UNIFAC_of. rewrite (rho_perm _ _ P), (theta_perm _ _ P). reflexivity. }
  assert (F2 : comb_modified_of cs = comb_modified_of cs').
  { unfold comb_modified_of. rewrite (rho_perm _ _ P), (theta_perm _ _ P), (rho34_perm _ _ P). reflexivity. }
  rewrite <- F1, <- F2. rewrite !combine_map_self. split; apply Permutation_map; exact P.
Qed.
End Full.

(* ---------- pure-component limit of the whole coefficient ---------- *)
Definition chem0 : chem := mkChem 0 0 0 [] [] 0.

Lemma vaddR_scaled0_l l acc : length l = length acc -> vaddR (map (fun g => g * 0) l) acc = acc.
Proof.
  unfold vaddR. revert acc; induction l as [|g l IH]; intros [|a acc] L; simpl in *; try discriminate; auto.
  f_equal; [lra|apply IH; lia].
Qed.

Lemma axpy_sum_length G cs : (forall c, In c cs -> length (cg c) = G) -> length (axpy_sum G cs) = G.
Proof.
  induction cs as [|c t IH]; intros Rect; simpl.
  - apply repeat_length.
  - unfold vaddR, axpy. rewrite map2_length; rewrite map_length.
    + apply Rect; left; auto.
    + rewrite IH; [apply Rect; left; auto|]. intros; apply Rect; right; auto.
Qed.

Lemma axpy_sum_absent G cs : (forall c, In c cs -> length (cg c) = G) -> (forall c, In c cs -> cx c = 0) ->
  axpy_sum G cs = repeat 0 G.
Proof.
  induction cs as [|c t IH]; intros Rect Z; simpl; auto.
  rewrite IH; [|intros; apply Rect; right; auto|intros; apply Z; right; auto].
  unfold axpy. rewrite (Z c) by (left; auto). apply vaddR_scaled0_l.
  rewrite repeat_length. apply Rect; left; auto.
Qed.

Lemma axpy_sum_pure G cs i : (i < length cs)%nat -> pure_at cs i ->
  (forall c, In c cs -> length (cg c) = G) -> axpy_sum G cs = cg (nth i cs chem0).
Proof.
  unfold chem0. revert i. induction cs as [|c t IH]; intros i Hi P Rect; simpl in Hi; [lia|].
  destruct i as [|i].
  - simpl. rewrite axpy_sum_absent.
    + unfold axpy. pose proof (P 0%nat ltac:(simpl; lia)) as E. simpl in E. rewrite E.
      rewrite vaddR_zero_r by (apply Rect; left; auto).
      rewrite <- (map_id (cg c)) at 2. apply map_ext. intros a. lra.
    + intros; apply Rect; right; auto.
    + intros c0 H0. destruct (In_nth _ _ (mkChem 0 0 0 [] [] 0) H0) as (j & Hj & Ej).
      pose proof (P (S j) ltac:(simpl; lia)) as E. simpl in E. rewrite Ej in E. exact E.
  - simpl. unfold axpy. pose proof (P 0%nat ltac:(simpl; lia)) as E. simpl in E. rewrite E.
    rewrite vaddR_scaled0_l.
    + apply IH; [lia| |intros; apply Rect; right; auto].
      intros j Hj. pose proof (P (S j) ltac:(simpl; lia)) as E'. simpl in E'. exact E'.
    + rewrite axpy_sum_length by (intros; apply Rect; right; auto). apply Rect; left; auto.
Qed.

Lemma sum_map2_zero (a b : list R) :
  (forall k, (k < length a)%nat -> (k < length b)%nat -> nth k a 0 * nth k b 0 = 0) ->
  sumR (map2 Rmult a b) = 0.
Proof.
  revert b; induction a as [|x a IH]; intros [|y b] H; simpl; auto.
  pose proof (H 0%nat ltac:(simpl; lia) ltac:(simpl; lia)) as E0. simpl in E0. rewrite E0.
  rewrite IH; [lra|]. intros k Ha Hb. apply (H (S k)); simpl; lia.
Qed.

Lemma nth_map2_in {B C D} (f : B -> C -> D) a b k da db dd :
  (k < length a)%nat -> (k < length b)%nat -> nth k (map2 f a b) dd = f (nth k a da) (nth k b db).
Proof.
  revert b k; induction a as [|x a IH]; intros [|y b] [|k] Ha Hb; simpl in *; try lia; auto.
  apply IH; lia.
Qed.

Lemma map2_length_min {B C D} (f : B -> C -> D) a b : length (map2 f a b) = Nat.min (length a) (length b).
Proof. revert b; induction a as [|x a IH]; intros [|y b]; simpl; auto. Qed.

Section Pure.
Variables (Qs : list R) (psis gpsis : list (list R)).

(* the literature defines the reference term Gamma_k^(i) as Gamma_k evaluated in pure i; this is that
   definition, stated for the groups chemical c actually contains *)
Definition reference_is_pure_mixture (c : chem) : Prop :=
  forall k, nth k (cg c) 0 <> 0 ->
    nth k (lg_groups Qs psis (cg c)) 0 = nth k (chem_lg Qs gpsis c) 0.

Lemma resid_pure G cs i : (i < length cs)%nat -> pure_at cs i ->
  (forall c, In c cs -> length (cg c) = G) ->
  reference_is_pure_mixture (nth i cs chem0) ->
  resid_of Qs psis gpsis (wc_of cs) (nth i cs chem0) = 0.
Proof.
  intros Hi P Rect Ref.
  rewrite (wc_axpy G cs) by (auto; intros E; subst; simpl in Hi; lia).
  rewrite (axpy_sum_pure G cs i Hi P Rect).
  set (c := nth i cs chem0) in *.
  unfold resid_of. rewrite ksum_KR. cbn [kmul ksub KR].
  apply sum_map2_zero. intros k Ha Hb.
  rewrite map2_length_min in Ha.
  rewrite (nth_map2_in Rminus _ _ k 0 0 0) by lia.
  destruct (Req_dec (nth k (cg c) 0) 0) as [Z|NZ].
  - rewrite Z. lra.
  - rewrite (Ref k NZ). lra.
Qed.

Lemma gamma_pure G cs i : (i < length cs)%nat -> pure_at cs i ->
  (forall c, In c cs -> length (cg c) = G) ->
  let c := nth i cs chem0 in cr c <> 0 -> cq c <> 0 ->
  reference_is_pure_mixture c ->
  nth i (gamma_sub_UNIFAC Qs psis gpsis cs) 0 = 1 /\ nth i (gamma_sub_modified Qs psis gpsis cs) 0 = 1.
Proof.
  intros Hi P Rect c Hr Hq Ref.
  rewrite gamma_sub_UNIFAC_map, gamma_sub_modified_map.
  rewrite !(nth_map_in _ cs i chem0) by assumption. fold c.
  pose proof (resid_pure G cs i Hi P Rect Ref) as RZ. fold c in RZ. rewrite RZ.
  destruct (pure_sums cs i Hi P) as (E1 & E2 & E3). fold chem0 in E1, E2, E3. fold c in E1, E2, E3.
  unfold comb_UNIFAC_of, comb_modified_of. rewrite E1, E2, E3.
  pose proof (Rpow34_pos (cr c)) as Pp.
  replace (cr c / cr c) with 1 by (field; auto). replace (cq c / cq c) with 1 by (field; auto).
  replace (Rpow34 (cr c) / Rpow34 (cr c)) with 1 by (field; lra).
  rewrite lit_comb_one. rewrite Rplus_0_r, exp_0. auto.
Qed.
End Pure.

(* the same chemical at another mole fraction *)
Definition set_cx (c : chem) (x : R) : chem := mkChem x (cq c) (cr c) (cg c) (cQ c) (cl c).
