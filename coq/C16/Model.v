(* C16 — executable model of the activity-coefficient classes
   (thermosteam/equilibrium/activity_coefficients.py, ideal.py, fugacity_coefficients.py,
   poyinting_correction_factors.py).
     kernels  : Gen_kernels.v   (translated from the source on every run)
     wrappers : Gen_wrappers.v  (Wrapper.v instantiated with what the translator found)
     here     : the derived arrays built by GroupActivityCoefficients.__new__ (lines 266-289),
                `args`, `__call__` (np.asarray aliasing) and `.f`, the `ideal` decorator,
                IdealActivityCoefficients / IdealFugacityCoefficients /
                MockPoyintingCorrectionFactors, and the checkers used by the case files.
   No lemmas in this file. *)
From V Require Export C16.Gen_wrappers.

Section Classes.
Context {A I : Type} (K : KOps A).

(* GroupActivityCoefficients.args *)
Record gargs := mkArgs {
  a_inter : I; a_gpsis : list (list A); a_mask : list (list bool);
  a_qs : list A; a_rs : list A; a_Qs : list A;
  a_chemgroups : list (list A); a_cQfs : list (list A); a_index : list nat }.

Definition wfun := list A -> A -> I -> list (list A) -> list (list bool) -> list A -> list A -> list A ->
                   list (list A) -> list (list A) -> list nat -> res (wout (A:=A)).

(* self.f(x, T, *self.args) *)
Definition f_apply (f : wfun) (x : list A) (T : A) (a : gargs) : res (wout (A:=A)) :=
  f x T (a_inter a) (a_gpsis a) (a_mask a) (a_qs a) (a_rs a) (a_Qs a) (a_chemgroups a) (a_cQfs a) (a_index a).

(* the composition argument as the caller holds it: np.asarray(x, float) returns the caller's
   own object for a float64 ndarray and a fresh array for anything else (list, tuple, int or
   float32 array) *)
Inductive xarg := XFloat64 (v : list A) | XOther (v : list A).
Definition xval (x : xarg) : list A := match x with XFloat64 v => v | XOther v => v end.

(* what a caller of Gamma(x, T) observes: returned array, own x afterwards, the buffer *)
Record cout := mkC { c_gamma : list A; c_x : list A; c_gpsis : list (list A) }.

(* GroupActivityCoefficients.__call__ *)
Definition call (f : wfun) (x : xarg) (T : A) (a : gargs) : res cout :=
  do w <- f_apply f (xval x) T a;
  Ok (mkC (w_gamma w) (match x with XFloat64 _ => w_x w | XOther v => v end) (w_gpsis w)).

(* ---- derived arrays of __new__ (lines 266-289) from chemgroups, Q and R of the groups ---- *)
Definition derive_rs (chemgroups : list (list A)) (Rs : list A) := matvec K chemgroups Rs.
Definition derive_qs (chemgroups : list (list A)) (Qs : list A) := matvec K chemgroups Qs.
Definition derive_cQfs (chemgroups : list (list A)) (Qs : list A) : list (list A) :=
  let chem_Qs := bc_12 (kmul K) Qs chemgroups in
  map (fun row => bc_10 (kdiv K) row (ksum K row)) chem_Qs.
(* group_mask[i, j] = some chemical contains both group i and group j *)
Definition derive_mask (cQfs : list (list A)) (ngroups : nat) : list (list bool) :=
  map (fun i => map (fun j =>
        existsb (fun row => negb (keqb K (nth i row (kq K 0)) (kq K 0)) &&
                            negb (keqb K (nth j row (kq K 0)) (kq K 0))) cQfs)
        (seq 0 ngroups)) (seq 0 ngroups).

(* ---- ideal.py: the decorator installs f = _ideal_coefficient (returns 1.) and args = () ---- *)
Definition ideal_f : A := kq K 1.
(* IdealActivityCoefficients.__call__(xs, T) = np.ones(len(xs)) *)
Definition ideal_activity_call (xs : list A) : list A := repeat (kq K 1) (length xs).
(* IdealFugacityCoefficients.__call__(y, T, P) = 1. ; MockPoyintingCorrectionFactors.__call__ = 1. *)
Definition ideal_fugacity_call : A := kq K 1.
Definition mock_poyinting_call : A := kq K 1.

(* ---- GroupActivityCoefficients.__new__: with at most one chemical that has groups an
        IdealActivityCoefficients object is returned instead ---- *)
Inductive gobj := ObjIdeal | ObjGroup (f : wfun) (a : gargs).
Definition new_obj (f : wfun) (a : gargs) : gobj :=
  if (length (a_index a) <=? 1)%nat then ObjIdeal else ObjGroup f a.
(* obj(x, T): values returned and the caller's x afterwards *)
Definition obj_call (o : gobj) (x : xarg) (T : A) : res (list A * list A) :=
  match o with
  | ObjIdeal => Ok (ideal_activity_call (xval x), xval x)
  | ObjGroup f a => do c <- call f x T a; Ok (c_gamma c, c_x c)
  end.
(* obj.f(x, T, *obj.args): a scalar for the ideal object, an array otherwise *)
Inductive fval := FScalar (v : A) | FArray (v : list A).
Definition obj_f (o : gobj) (x : list A) (T : A) : res fval :=
  match o with
  | ObjIdeal => Ok (FScalar ideal_f)
  | ObjGroup f a => do w <- f_apply f x T a; Ok (FArray (w_gamma w))
  end.

(* ---- call histories on ONE object ----
   The only per-object state a GroupActivityCoefficients object has is the _group_psis buffer
   (the translator checks __slots__, args and __call__ against the transcribed text and fails
   closed on any other state).  The caller holds composition arrays by reference; between calls
   it may rewrite them in place. *)
Definition set_gpsis (a : gargs) (g : list (list A)) : gargs :=
  mkArgs (a_inter a) g (a_mask a) (a_qs a) (a_rs a) (a_Qs a) (a_chemgroups a) (a_cQfs a) (a_index a).

Definition set_inter (a : gargs) (i : I) : gargs :=
  mkArgs i (a_gpsis a) (a_mask a) (a_qs a) (a_rs a) (a_Qs a) (a_chemgroups a) (a_cQfs a) (a_index a).

(* obj.activity_coefficients(v, T): result, buffer afterwards, interaction table afterwards *)
Definition mfun := list A -> A -> I -> list (list A) -> list (list bool) -> list A -> list A -> list A ->
                   list (list A) -> list (list A) -> list A * list (list A) * I.
Definition m_apply (m : mfun) (v : list A) (T : A) (a : gargs) : list A * list (list A) * I :=
  m v T (a_inter a) (a_gpsis a) (a_mask a) (a_qs a) (a_rs a) (a_Qs a) (a_chemgroups a) (a_cQfs a).

Inductive hop :=
| HCall (r : nat) (alias : bool) (T : A)   (* obj(arrays[r], T); alias = passed as the float64 array itself *)
| HF (r : nat) (T : A)                     (* obj.f(arrays[r], T, *obj.args) *)
| HAct (v : list A) (T : A)                (* obj.activity_coefficients(v, T) on a sub-system composition v *)
| HSet (r : nat) (v : list A)              (* caller: arrays[r][:] = v *)
| HSetRes (k : nat) (v : list A).          (* caller: rewrites in place the k-th array a call has returned *)

(* the caller's composition arrays, the arrays returned so far (each `gamma = np.ones(x.size)` is a fresh
   allocation, so a returned array is referenced by the caller only), the object (its _group_psis buffer and
   its _interactions table are the per-object state) *)
Record hstate := mkH { h_arrays : list (list A); h_results : list (list A); h_args : gargs }.

Definition hstep (f : wfun) (m : mfun) (s : hstate) (o : hop) : hstate * option (res (list A)) :=
  match o with
  | HSet r v => (mkH (upd (h_arrays s) r v) (h_results s) (h_args s), None)
  | HSetRes k v => (mkH (h_arrays s) (upd (h_results s) k v) (h_args s), None)
  | HCall r alias T =>
      let x := nth r (h_arrays s) [] in
      match call f (if alias then XFloat64 x else XOther x) T (h_args s) with
      | Ok c => (mkH (upd (h_arrays s) r (c_x c)) (h_results s ++ [c_gamma c]) (set_gpsis (h_args s) (c_gpsis c)),
                 Some (Ok (c_gamma c)))
      | Err e => (s, Some (Err e))
      end
  | HF r T =>
      let x := nth r (h_arrays s) [] in
      match f_apply f x T (h_args s) with
      | Ok w => (mkH (upd (h_arrays s) r (w_x w)) (h_results s ++ [w_gamma w]) (set_gpsis (h_args s) (w_gpsis w)),
                 Some (Ok (w_gamma w)))
      | Err e => (s, Some (Err e))
      end
  | HAct v T =>
      let '(g, gp, inter') := m_apply m v T (h_args s) in
      (mkH (h_arrays s) (h_results s ++ [g]) (set_inter (set_gpsis (h_args s) gp) inter'), Some (Ok g))
  end.

Fixpoint run_hist (f : wfun) (m : mfun) (s : hstate) (ops : list hop) : hstate * list (option (res (list A))) :=
  match ops with
  | [] => (s, [])
  | o :: t => let '(s1, out) := hstep f m s o in
              let '(s2, outs) := run_hist f m s1 t in (s2, out :: outs)
  end.

(* what a state-free object answers: a function of the current content of the array and T only;
   the specification threads only what the caller owns (its arrays and the results it was handed).
   act is the state-free value of the object form: the kernel on the masked psis of this T *)
Definition gamma_of (f : wfun) (a : gargs) (x : list A) (T : A) : res (list A) :=
  match f_apply f x T a with Ok w => Ok (w_gamma w) | Err e => Err e end.
Definition act_spec (psi : A -> I -> list (list A)) (lgc : list A -> list A -> list A -> list A)
    (gac : list A -> list (list A) -> list A -> list A -> list (list A) -> list (list A) -> list (list A) -> list A)
    (a : gargs) (v : list A) (T : A) : list A :=
  let psis := psi T (a_inter a) in
  gac v (a_chemgroups a) (lgc (a_qs a) (a_rs a) v) (a_Qs a) psis (a_cQfs a) (fill_group_psis K psis (a_mask a)).
Definition spec_step (f : wfun) (act : gargs -> list A -> A -> list A) (a : gargs)
    (st : list (list A) * list (list A)) (o : hop)
  : (list (list A) * list (list A)) * option (res (list A)) :=
  match o with
  | HSet r v => ((upd (fst st) r v, snd st), None)
  | HSetRes k v => ((fst st, upd (snd st) k v), None)
  | HCall r _ T | HF r T =>
      let g := gamma_of f a (nth r (fst st) []) T in
      ((fst st, match g with Ok v => snd st ++ [v] | Err _ => snd st end), Some g)
  | HAct v T => ((fst st, snd st ++ [act a v T]), Some (Ok (act a v T)))
  end.
Fixpoint spec_hist (f : wfun) (act : gargs -> list A -> A -> list A) (a : gargs)
    (st : list (list A) * list (list A)) (ops : list hop)
  : (list (list A) * list (list A)) * list (option (res (list A))) :=
  match ops with
  | [] => (st, [])
  | o :: t => let '(st1, out) := spec_step f act a st o in
              let '(st2, outs) := spec_hist f act a st1 t in (st2, out :: outs)
  end.

(* ---- histories on the ideal object (IdealActivityCoefficients, also the fallback of __new__):
        __call__ allocates np.ones(len(xs)) at every call ---- *)
Inductive iop := ICall (n : nat) | IF_ | ISetRes (k : nat) (v : list A).
Definition istep (results : list (list A)) (o : iop) : list (list A) * option fval :=
  match o with
  | ICall n => let g := repeat (kq K 1) n in (results ++ [g], Some (FArray g))
  | IF_ => (results, Some (FScalar ideal_f))
  | ISetRes k v => (upd results k v, None)
  end.
Fixpoint run_ideal_hist (results : list (list A)) (ops : list iop) : list (list A) * list (option fval) :=
  match ops with
  | [] => (results, [])
  | o :: t => let '(r1, out) := istep results o in
              let '(r2, outs) := run_ideal_hist r1 t in (r2, out :: outs)
  end.
End Classes.
Arguments mkArgs {A I}. Arguments mkC {A}. Arguments c_gamma {A}. Arguments c_x {A}. Arguments c_gpsis {A}.
Arguments XFloat64 {A}. Arguments XOther {A}. Arguments ObjIdeal {A I}. Arguments ObjGroup {A I}.
Arguments FScalar {A}. Arguments FArray {A}.
Arguments HCall {A}. Arguments HF {A}. Arguments HAct {A}. Arguments HSet {A}. Arguments HSetRes {A}. Arguments mkH {A I}. Arguments h_arrays {A I}.
Arguments h_results {A I}. Arguments h_args {A I}. Arguments ICall {A}. Arguments IF_ {A}. Arguments ISetRes {A}.

(* ================= checkers for the correspondence (carrier option Q) ================= *)
Fixpoint list_eqb2 {X Y} (eqb : X -> Y -> bool) (a : list X) (b : list Y) : bool :=
  match a, b with
  | [], [] => true
  | x :: a', y :: b' => eqb x y && list_eqb2 eqb a' b'
  | _, _ => false
  end.
Definition ov_eqb (a : list (option Q)) (b : vec) : bool := list_eqb2 oq_eqb a b.
Definition om_eqb (a : list (list (option Q))) (b : list vec) : bool := list_eqb2 ov_eqb a b.

(* observed outcome of a call on the implementation *)
Inductive obs :=
| ObsOk (gamma x_after : vec) (gpsis_after : list vec)
| ObsZeroDiv            (* ZeroDivisionError / FloatingPointError somewhere in the arithmetic *)
| ObsUnbound.           (* UnboundLocalError *)

Definition obs_matches (r : res (cout (A:=option Q))) (o : obs) : bool :=
  match r, o with
  | Err ERuntime, ObsUnbound => true
  | Ok c, ObsZeroDiv => negb (all_some (c_gamma c))
  | Ok c, ObsOk g xa gp => ov_eqb (c_gamma c) g && ov_eqb (c_x c) xa && om_eqb (c_gpsis c) gp
  | _, _ => false
  end.

Definition KS (s : list standin) : KOps (option Q) :=
  KQo (nth 0 s (mkSI 0 0 1)) (nth 1 s (mkSI 0 0 1)) (nth 2 s (mkSI 0 0 1)).

Definition mk_oargs {I} (inter : I) (gpsis : list vec) (mask : list (list bool)) (qs rs Qs : vec)
    (chemgroups cQfs : list vec) (index : list nat) : gargs (A:=option Q) (I:=I) :=
  mkArgs inter (some_mat gpsis) mask (some_vec qs) (some_vec rs) (some_vec Qs)
         (some_mat chemgroups) (some_mat cQfs) index.

Definition mkx (alias : bool) (x : vec) : xarg (A:=option Q) :=
  if alias then XFloat64 (some_vec x) else XOther (some_vec x).

(* original UNIFAC: interactions is a matrix; modified (Dortmund, NIST): rank-3 *)
Definition chk_unifac (s : list standin) (alias : bool) (x : vec) (T : Q) (inter : list vec)
    (gpsis : list vec) (mask : list (list bool)) (qs rs Qs : vec) (chemgroups cQfs : list vec)
    (index : list nat) (o : obs) : bool :=
  obs_matches (call (gamma_UNIFAC (KS s)) (mkx alias x) (Some T)
                 (mk_oargs (some_mat inter) gpsis mask qs rs Qs chemgroups cQfs index)) o.
Definition chk_modified (s : list standin) (alias : bool) (x : vec) (T : Q) (inter : list (list vec))
    (gpsis : list vec) (mask : list (list bool)) (qs rs Qs : vec) (chemgroups cQfs : list vec)
    (index : list nat) (o : obs) : bool :=
  obs_matches (call (gamma_modified_UNIFAC (KS s)) (mkx alias x) (Some T)
                 (mk_oargs (some_mat3 inter) gpsis mask qs rs Qs chemgroups cQfs index)) o.

(* ---- histories ---- *)
Inductive hobs := HNone | HVals (g : vec) | HZeroDiv | HUnbound.
Definition hobs_matches (r : option (res (list (option Q)))) (o : hobs) : bool :=
  match r, o with
  | None, HNone => true
  | Some (Ok g), HVals v => ov_eqb g v
  | Some (Ok g), HZeroDiv => negb (all_some g)
  | Some (Err ERuntime), HUnbound => true
  | _, _ => false
  end.
Inductive qop := QCall (r : nat) (alias : bool) (T : Q) | QF (r : nat) (T : Q) | QSet (r : nat) (v : vec)
  | QSetRes (k : nat) (v : vec) | QAct (v : vec) (T : Q).
Definition lift_op (o : qop) : hop (A:=option Q) :=
  match o with
  | QCall r al T => HCall r al (Some T)
  | QF r T => HF r (Some T)
  | QSet r v => HSet r (some_vec v)
  | QSetRes k v => HSetRes k (some_vec v)
  | QAct v T => HAct (some_vec v) (Some T)
  end.
Definition chk_hist {I} (f : wfun (A:=option Q) (I:=I)) (m : mfun (A:=option Q) (I:=I))
    (inter_eqb : I -> bool) (a : gargs (A:=option Q) (I:=I)) (arrays : list vec)
    (ops : list qop) (outs : list hobs) (arrays_after results_after : list vec) (gpsis_after : list vec)
    (any_zerodiv : bool) : bool :=
  let '(s, r) := run_hist f m (mkH (map some_vec arrays) [] a) (map lift_op ops) in
  list_eqb2 hobs_matches r outs &&
  (any_zerodiv || (list_eqb2 ov_eqb (h_arrays s) arrays_after && list_eqb2 ov_eqb (h_results s) results_after &&
                   om_eqb (a_gpsis (h_args s)) gpsis_after && inter_eqb (a_inter (h_args s)))).
(* ideal object: outputs (arrays of ones / scalar one / nothing) and the results the caller holds *)
Inductive qiop := QICall (n : nat) | QIF | QISetRes (k : nat) (v : vec).
Definition lift_iop (o : qiop) : iop (A:=Q) :=
  match o with QICall n => ICall n | QIF => IF_ | QISetRes k v => ISetRes k v end.
Inductive iobs := IONone | IOArr (v : vec) | IOScalar (v : Q).
Definition iobs_matches (r : option (fval (A:=Q))) (o : iobs) : bool :=
  match r, o with
  | None, IONone => true
  | Some (FArray g), IOArr v => veqb g v
  | Some (FScalar g), IOScalar v => qeqb g v
  | _, _ => false
  end.
(* the interaction table the object holds after the history (observed) *)
Definition chk_hist_unifac (s : list standin) (inter : list vec) (gpsis : list vec) (mask : list (list bool))
    (qs rs Qs : vec) (chemgroups cQfs : list vec) (index : list nat) (inter_after : list vec) :=
  chk_hist (gamma_UNIFAC (KS s)) (activity_coefficients_UNIFAC (KS s)) (fun i => om_eqb i inter_after)
           (mk_oargs (some_mat inter) gpsis mask qs rs Qs chemgroups cQfs index).
Definition chk_hist_modified (s : list standin) (inter : list (list vec)) (gpsis : list vec) (mask : list (list bool))
    (qs rs Qs : vec) (chemgroups cQfs : list vec) (index : list nat) (inter_after : list (list vec)) :=
  chk_hist (gamma_modified_UNIFAC (KS s)) (activity_coefficients_modified (KS s)) (fun i => list_eqb2 om_eqb i inter_after)
           (mk_oargs (some_mat3 inter) gpsis mask qs rs Qs chemgroups cQfs index).

(* the bare kernels (py_func run directly) *)
Definition chk_vec (r : list (option Q)) (o : option vec) : bool :=
  match o with Some v => ov_eqb r v | None => negb (all_some r) end.
Definition chk_lgc (s : list standin) (modified : bool) (qs rs x : vec) (o : option vec) : bool :=
  chk_vec ((if modified then loggammacs_modified_UNIFAC (KS s) else loggammacs_UNIFAC (KS s))
             (some_vec qs) (some_vec rs) (some_vec x)) o.

(* derived arrays of __new__ against the arrays held by the real object (exact carrier, values
   compared to 1e-9 relative because the object computed them in floating point) *)
Definition KQx : KOps Q := mkK Q Qplus Qminus Qmult Qdiv Qopp (fun q => q) (fun x => x) (fun x => x) (fun x => x) qeqb.
Definition mat_approxb (a b : list vec) : bool := list_eqb2 vapproxb a b.
Definition chk_derived (chemgroups : list vec) (Qs Rs : vec) (rs qs : vec) (cQfs : list vec)
    (mask : list (list bool)) : bool :=
  vapproxb (derive_rs KQx chemgroups Rs) rs && vapproxb (derive_qs KQx chemgroups Qs) qs &&
  mat_approxb (derive_cQfs KQx chemgroups Qs) cQfs &&
  list_eqb (list_eqb Bool.eqb) (derive_mask KQx cQfs (length Qs)) mask.

(* object level: which kind of object __new__ returns, and ideal models *)
Definition chk_new_kind (nindex : nat) (is_ideal : bool) : bool :=
  Bool.eqb (Nat.leb nindex 1) is_ideal.
Definition chk_ideal (n : nat) (act : vec) (f fug fugf pcf : Q) : bool :=
  veqb (ideal_activity_call KQx (repeat 0 n)) act && qeqb (ideal_f KQx) f &&
  qeqb (ideal_fugacity_call KQx) fug && qeqb (ideal_f KQx) fugf && qeqb (mock_poyinting_call KQx) pcf.
Definition chk_ideal_hist (ops : list qiop) (outs : list iobs) (results_after : list vec) : bool :=
  let '(r, o) := run_ideal_hist KQx [] (map lift_iop ops) in
  list_eqb2 iobs_matches o outs && list_eqb veqb r results_after.
