(* C16 — literature notation for the combinatorial term (no dependency on generated files). *)
From Coq Require Import Reals List.
Local Open Scope R_scope.

Definition sumR (l : list R) : R := fold_right Rplus 0 l.
(* ln gamma_i^C = 1 - V' + ln V' - 5 q (1 - V/F + ln (V/F)) *)
Definition lit_comb (Vp V F q : R) : R := 1 - Vp + ln Vp - 5 * q * (1 - V / F + ln (V / F)).
