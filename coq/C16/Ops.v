(* C16 — carrier record for numeric kernels and the NumPy array vocabulary the translated
   kernels use (1-d arrays = list A, 2-d = list (list A), 3-d = list (list (list A))).
   Executable definitions only.  The same generated terms (Gen_kernels.v) are instantiated
   at R (KR, in Proofs.v: real exp/ln/x^(3/4); theorems) and at option Q (KQo, below:
   rational stand-ins for exp/ln/**0.75, None = a division by zero; correspondence). *)
From V Require Export Common.Num.

Record KOps (A : Type) := mkK {
  kadd : A -> A -> A; ksub : A -> A -> A; kmul : A -> A -> A; kdiv : A -> A -> A;
  kneg : A -> A; kq : Q -> A;
  kexp : A -> A; kln : A -> A; kpow34 : A -> A;
  keqb : A -> A -> bool
}.
Arguments kadd {A} _. Arguments ksub {A} _. Arguments kmul {A} _. Arguments kdiv {A} _.
Arguments kneg {A} _. Arguments kq {A} _. Arguments kexp {A} _. Arguments kln {A} _.
Arguments kpow34 {A} _. Arguments keqb {A} _.

Section Arrays.
Context {A : Type} (K : KOps A).

(* a.sum() ; np.dot(a, b) ; M @ v ; M @ N ; M.transpose() *)
Definition ksum (l : list A) : A := fold_right (kadd K) (kq K 0) l.
Definition vdot (a b : list A) : A := ksum (map2 (kmul K) a b).
Definition matvec (m : list (list A)) (v : list A) : list A := map (fun row => vdot row v) m.
Fixpoint transpose (m : list (list A)) : list (list A) :=
  match m with
  | [] => []
  | [r] => map (fun a => [a]) r
  | r :: t => map2 cons r (transpose t)
  end.
Definition matmul (a b : list (list A)) : list (list A) :=
  map (fun row => matvec (transpose b) row) a.

(* elementwise unary functions on rank 0..3 *)
Definition umap0 (f : A -> A) (a : A) := f a.
Definition umap1 (f : A -> A) (a : list A) := map f a.
Definition umap2 (f : A -> A) (a : list (list A)) := map (map f) a.
Definition umap3 (f : A -> A) (a : list (list (list A))) := map (map (map f)) a.

(* elementwise binary operations with NumPy broadcasting (trailing axes aligned);
   bc_xy: left operand has rank x, right operand has rank y *)
Definition bc_00 (f : A -> A -> A) (a b : A) := f a b.
Definition bc_01 (f : A -> A -> A) (a : A) (b : list A) := map (f a) b.
Definition bc_10 (f : A -> A -> A) (a : list A) (b : A) := map (fun u => f u b) a.
Definition bc_11 (f : A -> A -> A) (a b : list A) := map2 f a b.
Definition bc_02 (f : A -> A -> A) (a : A) (b : list (list A)) := map (map (f a)) b.
Definition bc_20 (f : A -> A -> A) (a : list (list A)) (b : A) := map (map (fun u => f u b)) a.
Definition bc_12 (f : A -> A -> A) (a : list A) (b : list (list A)) := map (fun row => map2 f a row) b.
Definition bc_21 (f : A -> A -> A) (a : list (list A)) (b : list A) := map (fun row => map2 f row b) a.
Definition bc_22 (f : A -> A -> A) (a b : list (list A)) := map2 (map2 f) a b.

(* np.where(e == c, s, e') with a scalar s *)
Definition where_eq_1 (e : list A) (c s : A) (e' : list A) : list A :=
  map2 (fun u v => if keqb K u c then s else v) e e'.
Definition where_eq_2 (e : list (list A)) (c s : A) (e' : list (list A)) : list (list A) :=
  map2 (map2 (fun u v => if keqb K u c then s else v)) e e'.

(* abc[:, :, k] op= s  on a 3-d array *)
Fixpoint upd_at (l : list A) (k : nat) (f : A -> A) : list A :=
  match l, k with
  | [], _ => []
  | a :: t, O => f a :: t
  | a :: t, S k' => a :: upd_at t k' f
  end.
Definition slice3_update (abc : list (list (list A))) (k : nat) (f : A -> A) :=
  map (map (fun cell => upd_at cell k f)) abc.
(* abc.sum(2) *)
Definition sum_axis2 (abc : list (list (list A))) : list (list A) := map (map ksum) abc.
(* m.sum(1) *)
Definition sum_axis1 (m : list (list A)) : list A := map ksum m.
End Arrays.

(* ---------- the carrier used by the correspondence: option Q ---------- *)
(* rational stand-ins for exp / ln / **0.75 : a small seeded family *)
Record standin := mkSI { sk : nat; sa : Q; sb : Q }.
Definition si_apply (s : standin) (x : Q) : option Q :=
  match sk s with
  | O => if qzerob (sb s) then None else Some (Qred ((sa s + x) / sb s))
  | S O => if qzerob (sb s + x) then None else Some (Qred ((sa s + x) / (sb s + x)))
  | _ => if qzerob (sb s) then None else Some (Qred (sa s + x * x / sb s))
  end.

Definition olift2 (f : Q -> Q -> Q) (a b : option Q) : option Q :=
  match a, b with Some x, Some y => Some (Qred (f x y)) | _, _ => None end.
Definition obind1 (f : Q -> option Q) (a : option Q) : option Q :=
  match a with Some x => f x | None => None end.
Definition odiv (a b : option Q) : option Q :=
  match a, b with
  | Some x, Some y => if qzerob y then None else Some (Qred (x / y))
  | _, _ => None
  end.
Definition oeqb (a b : option Q) : bool :=
  match a, b with Some x, Some y => qeqb x y | _, _ => false end.

Definition KQo (se sl sp : standin) : KOps (option Q) :=
  mkK (option Q) (olift2 Qplus) (olift2 Qminus) (olift2 Qmult) odiv
      (fun a => match a with Some x => Some (- x) | None => None end)
      (fun q => Some q)
      (obind1 (si_apply se)) (obind1 (si_apply sl)) (obind1 (si_apply sp))
      oeqb.

(* comparisons of option-Q arrays with observed values *)
Definition oq_eqb (a : option Q) (b : Q) : bool :=
  match a with Some x => qeqb x b | None => false end.


Definition all_some (a : list (option Q)) : bool :=
  forallb (fun o => match o with Some _ => true | None => false end) a.
Definition some_vec (v : vec) : list (option Q) := map Some v.
Definition some_mat (m : list vec) : list (list (option Q)) := map some_vec m.
Definition some_mat3 (m : list (list vec)) : list (list (list (option Q))) := map some_mat m.
