(* C16 — residual (group) part, two groups: scalar form of ln Gamma_k along x = (t, 1 - t) and its Gibbs-Duhem identity.
   Independent of the generated files. *)
From Coq Require Import Reals Lra.
From Coquelicot Require Import Coquelicot.
Local Open Scope R_scope.

Section R2.
Variables A B p11 p12 p21 p22 : R.
Definition th1 (t : R) := A * t / (A * t + B * (1 - t)).
Definition th2 (t : R) := B * (1 - t) / (A * t + B * (1 - t)).
Definition S1 t := p11 * th1 t + p12 * th2 t.
Definition S2 t := p21 * th1 t + p22 * th2 t.
Definition L0 t := 1 - ln (S1 t) - (p11 * th1 t / S1 t + p21 * th2 t / S2 t).
Definition L1 t := 1 - ln (S2 t) - (p12 * th1 t / S1 t + p22 * th2 t / S2 t).

Lemma L_derivable t : 0 < A -> 0 < B -> 0 < p11 -> 0 < p12 -> 0 < p21 -> 0 < p22 -> 0 < t < 1 ->
  ex_derive L0 t /\ ex_derive L1 t.
Proof.
  intros HA HB H11 H12 H21 H22 Ht.
  assert (D : 0 < A * t + B * (1 - t)) by nra.
  assert (T1 : 0 < th1 t) by (unfold th1; apply Rdiv_lt_0_compat; nra).
  assert (T2 : 0 < th2 t) by (unfold th2; apply Rdiv_lt_0_compat; nra).
  assert (PS1 : 0 < S1 t) by (unfold S1; nra).
  assert (PS2 : 0 < S2 t) by (unfold S2; nra).
  assert (E : A * t + B * (1 + - t) = A * t + B * (1 - t)) by ring.
  split.
  - unfold L0, S1, S2, th1, th2 in *. auto_derive. rewrite ?E. repeat split; try lra.
  - unfold L1, S1, S2, th1, th2 in *. auto_derive. rewrite ?E. repeat split; try lra.
Qed.

Lemma resid_gd t : 0 < A -> 0 < B -> 0 < p11 -> 0 < p12 -> 0 < p21 -> 0 < p22 -> 0 < t < 1 ->
  A * t * Derive L0 t + B * (1 - t) * Derive L1 t = 0.
Proof.
  intros HA HB H11 H12 H21 H22 Ht.
  assert (D : 0 < A * t + B * (1 - t)) by nra.
  assert (T1 : 0 < th1 t) by (unfold th1; apply Rdiv_lt_0_compat; nra).
  assert (T2 : 0 < th2 t) by (unfold th2; apply Rdiv_lt_0_compat; nra).
  assert (PS1 : 0 < S1 t) by (unfold S1; nra).
  assert (PS2 : 0 < S2 t) by (unfold S2; nra).
  assert (E : A * t + B * (1 + - t) = A * t + B * (1 - t)) by ring.
  evar (d0 : R). assert (H0 : is_derive L0 t d0).
  { unfold L0, S1, S2, th1, th2 in *. auto_derive; [|subst d0; reflexivity].
    rewrite ?E. repeat split; try lra. }
  evar (d1 : R). assert (H1 : is_derive L1 t d1).
  { unfold L1, S1, S2, th1, th2 in *. auto_derive; [|subst d1; reflexivity].
    rewrite ?E. repeat split; try lra. }
  replace (Derive L0 t) with d0 by (symmetry; apply is_derive_unique; exact H0).
  replace (Derive L1 t) with d1 by (symmetry; apply is_derive_unique; exact H1).
  subst d0 d1. unfold S1, S2, th1, th2 in *. rewrite ?E. field. repeat split; try lra; apply Rgt_not_eq; nra.
Qed.
End R2.
