(* C16 — deepening: (1) the pure-component limit through the gather / scatter of the FULL chemical list,
   (2) Euler relation (radial derivative) of the group kernel and the exact missing lemma for residual Gibbs-Duhem. *)
From V Require Import Common.NumFacts C16.Model C16.Proofs C16.ProofsR C16.ProofsIdx C16.ProofsPerm.
From Coq Require Import Reals Lia List Permutation.
From Coq Require Import Lra.
Import ListNotations.
Local Open Scope R_scope.

Definition fchem0 : fchem := mkF 0 None.
Definition sc0 : R * chem := (0, chem0).

(* x = e_j on the full list *)
Definition unit_at (fs : list fchem) (j : nat) : Prop :=
  forall k, (k < length fs)%nat -> fx (nth k fs fchem0) = if Nat.eqb k j then 1 else 0.

Lemma somes_all_zero fs : (forall k, (k < length fs)%nat -> fx (nth k fs fchem0) = 0) ->
  forall k, (k < length (somes fs))%nat -> fst (nth k (somes fs) sc0) = 0.
Proof.
  induction fs as [|f t IH]; intros Z k Hk; simpl in *; [lia|].
  assert (Zt : forall k0, (k0 < length t)%nat -> fx (nth k0 t fchem0) = 0) by (intros k0 H0; apply (Z (S k0)); lia).
  destruct (fd f).
  - destruct k as [|k]; simpl in *.
    + apply (Z 0%nat). lia.
    + apply IH; auto. lia.
  - apply IH; auto.
Qed.

(* the member with x = 1 appears once among the members with groups, all others carry 0 *)
Lemma somes_unit fs : forall j c, (j < length fs)%nat -> fd (nth j fs fchem0) = Some c -> unit_at fs j ->
  exists i, (i < length (somes fs))%nat /\ nth i (somes fs) sc0 = (1, c) /\
            forall k, (k < length (somes fs))%nat -> k <> i -> fst (nth k (somes fs) sc0) = 0.
Proof.
  induction fs as [|f t IH]; intros j c Hj Hd U; simpl in Hj; [lia|].
  destruct j as [|j].
  - simpl in Hd. cbn [somes]. rewrite Hd.
    pose proof (U 0%nat ltac:(simpl; lia)) as E0. simpl in E0.
    exists 0%nat. split; [simpl; lia|]. split; [simpl; rewrite E0; reflexivity|].
    intros k Hk Hne. destruct k as [|k]; [congruence|]. simpl in *.
    apply somes_all_zero; [|lia].
    intros k0 H0. pose proof (U (S k0) ltac:(simpl; lia)) as E. simpl in E. exact E.
  - simpl in Hd.
    assert (Ut : unit_at t j).
    { intros k Hk. pose proof (U (S k) ltac:(simpl; lia)) as E. simpl in E. exact E. }
    destruct (IH j c ltac:(lia) Hd Ut) as (i & Hi & Ei & Zi).
    pose proof (U 0%nat ltac:(simpl; lia)) as E0. simpl in E0.
    cbn [somes]. destruct (fd f) as [c0|].
    + exists (S i). split; [simpl; lia|]. split; [simpl; exact Ei|].
      intros k Hk Hne. destruct k as [|k]; simpl in *; [exact E0|]. apply Zi; lia.
    + exists i. auto.
Qed.

Lemma sub_sum_unit fs i c : (i < length (somes fs))%nat -> nth i (somes fs) sc0 = (1, c) ->
  (forall k, (k < length (somes fs))%nat -> k <> i -> fst (nth k (somes fs) sc0) = 0) -> sub_sum fs = 1.
Proof.
  intros Hi Ei Z. unfold sub_sum.
  change (sumR (map fst (somes fs))) with (sum_over (somes fs) fst).
  rewrite (sum_over_pure (somes fs) i fst sc0 Hi Z). rewrite Ei. reflexivity.
Qed.

Lemma sub_cs_pure fs i c : (i < length (somes fs))%nat -> nth i (somes fs) sc0 = (1, c) ->
  (forall k, (k < length (somes fs))%nat -> k <> i -> fst (nth k (somes fs) sc0) = 0) ->
  length (sub_cs fs) = length (somes fs) /\ nth i (sub_cs fs) chem0 = set_cx c (1 / 1) /\ pure_at (sub_cs fs) i.
Proof.
  intros Hi Ei Z. pose proof (sub_sum_unit fs i c Hi Ei Z) as S1.
  unfold sub_cs. rewrite S1. split; [apply map_length|]. split.
  - rewrite (nth_map_in _ (somes fs) i sc0) by exact Hi. rewrite Ei. reflexivity.
  - intros k Hk. rewrite map_length in Hk.
    rewrite (nth_map_in _ (somes fs) k sc0) by exact Hk. cbn [set_cx cx].
    destruct (Nat.eqb k i) eqn:E.
    + apply Nat.eqb_eq in E. subst k. rewrite Ei. cbn [fst]. lra.
    + apply Nat.eqb_neq in E. rewrite (Z k Hk E). lra.
Qed.

(* psis produced by the psi kernels are positive (psi = exp(..)) *)
Lemma ent_exp_pos (M : list (list R)) G m n : rectangular (umap2 exp M) G G -> (m < G)%nat -> (n < G)%nat ->
  0 < ent (umap2 exp M) m n.
Proof.
  intros [L Rc] Hm Hn. unfold ent, umap2 in *. rewrite map_length in L.
  rewrite (nth_map_in (map exp) M m []) by lia.
  assert (Lr : length (map exp (nth m M [])) = G).
  { apply Rc. rewrite <- (nth_map_in (map exp) M m [] []) by lia. apply nth_In. rewrite map_length. lia. }
  rewrite map_length in Lr.
  rewrite (nth_map_in exp (nth m M []) n 0) by lia. apply exp_pos.
Qed.

Lemma in_somes fs x c : In (x, c) (somes fs) -> exists f, In f fs /\ fd f = Some c.
Proof.
  induction fs as [|f t IH]; simpl; [contradiction|]. destruct (fd f) eqn:E.
  - intros [H|H].
    + inversion H; subst. exists f. split; [left; reflexivity|exact E].
    + destruct (IH H) as (f' & Hf & Ef). exists f'. split; [right; exact Hf|exact Ef].
  - intros H. destruct (IH H) as (f' & Hf & Ef). exists f'. split; [right; exact Hf|exact Ef].
Qed.

Section WrapperPure.
Variables (G : nat) (Qs : list R) (fs : list fchem) (j : nat) (c : chem).
Hypothesis HG : (0 < G)%nat.
Hypothesis LQs : length Qs = G.
Hypothesis Qs_nonneg : forall k, (k < G)%nat -> 0 <= nth k Qs 0.
Hypothesis data_shape : forall f c0, In f fs -> fd f = Some c0 ->
  length (cg c0) = G /\ (forall k, 0 <= nth k (cg c0) 0) /\
  exists k, (k < G)%nat /\ 0 < nth k Qs 0 /\ 0 < nth k (cg c0) 0.
(* chem_Qfractions as __new__ derives them *)
Hypothesis cQ_new : a_cQ_of fs = derive_cQfs KR (a_cg_of fs) Qs.
Hypothesis Hj : (j < length fs)%nat.
Hypothesis Hd : fd (nth j fs fchem0) = Some c.
Hypothesis Hunit : unit_at fs j.
Hypothesis Hr : cr c <> 0.
Hypothesis Hq : cq c <> 0.

Lemma full_gamma_pure (I : Type) (psi : R -> I -> list (list R))
    (Gf : list (list R) -> list (list R) -> list R -> list chem -> chem -> R) T inter :
  (* Gf is one of the two per-chemical forms of ProofsPerm; this is its kernel-level pure limit *)
  (forall cs i, (i < length cs)%nat -> pure_at cs i ->
     (forall c0, In c0 cs -> length (cg c0) = G /\ (forall k, 0 <= nth k (cg c0) 0)) ->
     (forall c0, In c0 cs -> exists k, (k < G)%nat /\ 0 < nth k Qs 0 /\ 0 < nth k (cg c0) 0) ->
     map cQ cs = derive_cQfs KR (map cg cs) Qs ->
     cr (nth i cs chem0) <> 0 -> cq (nth i cs chem0) <> 0 ->
     Gf (psi T inter) (gpsis_new G (psi T inter) cs) Qs cs (nth i cs chem0) = 1) ->
  nth j (full_gamma I psi Gf fs T inter (derive_mask KR (a_cQ_of fs) G) Qs) 0 = 1.
Proof.
  intros Hpure.
  destruct (somes_unit fs j c Hj Hd Hunit) as (i & Hi & Ei & Zi).
  pose proof (sub_sum_unit fs i c Hi Ei Zi) as S1.
  destruct (sub_cs_pure fs i c Hi Ei Zi) as (Lcs & Ecs & Pcs).
  unfold full_gamma. rewrite S1.
  destruct (1 <? length (somes fs))%nat; cbn [andb].
  2:{ rewrite (nth_map_in _ fs j fchem0) by exact Hj. reflexivity. }
  rewrite Reqb_false by lra. cbn [negb].
  rewrite (nth_map_in _ fs j fchem0) by exact Hj. rewrite Hd.
  pose proof (Hunit j Hj) as Xj. rewrite Nat.eqb_refl in Xj. rewrite Xj.
  assert (EQm : map cQ (sub_cs fs) = a_cQ_of fs) by (unfold sub_cs, a_cQ_of; rewrite map_map; reflexivity).
  assert (Egm : map cg (sub_cs fs) = a_cg_of fs) by (unfold sub_cs, a_cg_of; rewrite map_map; reflexivity).
  assert (Shape : forall c0, In c0 (sub_cs fs) ->
            length (cg c0) = G /\ (forall k, 0 <= nth k (cg c0) 0) /\
            exists k, (k < G)%nat /\ 0 < nth k Qs 0 /\ 0 < nth k (cg c0) 0).
  { intros c0 H0. unfold sub_cs in H0. apply in_map_iff in H0. destruct H0 as ([x0 c1] & <- & Hin).
    cbn [set_cx cg snd]. destruct (in_somes fs x0 c1 Hin) as (f & Hf & Ef). exact (data_shape f c1 Hf Ef). }
  rewrite <- Ecs.
  rewrite <- EQm. fold (gpsis_new G (psi T inter) (sub_cs fs)).
  apply Hpure.
  - rewrite Lcs. exact Hi.
  - exact Pcs.
  - intros c0 H0. destruct (Shape c0 H0) as (A1 & A2 & _). split; assumption.
  - intros c0 H0. destruct (Shape c0 H0) as (_ & _ & A3). exact A3.
  - rewrite EQm, Egm. exact cQ_new.
  - rewrite Ecs. exact Hr.
  - rewrite Ecs. exact Hq.
Qed.
End WrapperPure.

(* kernel-level pure limit in the per-chemical form used by ProofsPerm *)
Lemma Gf_pure G Qs psis cs i : (0 < G)%nat -> length Qs = G -> rectangular psis G G ->
  (forall k, (k < G)%nat -> 0 <= nth k Qs 0) ->
  (forall m n, (m < G)%nat -> (n < G)%nat -> 0 < ent psis m n) ->
  (i < length cs)%nat -> pure_at cs i ->
  (forall c0, In c0 cs -> length (cg c0) = G /\ (forall k, 0 <= nth k (cg c0) 0)) ->
  (forall c0, In c0 cs -> exists k, (k < G)%nat /\ 0 < nth k Qs 0 /\ 0 < nth k (cg c0) 0) ->
  map cQ cs = derive_cQfs KR (map cg cs) Qs ->
  cr (nth i cs chem0) <> 0 -> cq (nth i cs chem0) <> 0 ->
  Gf_UNIFAC psis (gpsis_new G psis cs) Qs cs (nth i cs chem0) = 1 /\
  Gf_modified psis (gpsis_new G psis cs) Qs cs (nth i cs chem0) = 1.
Proof.
  intros HG LQ Rp Qn Pp Hi P Sh Sm New Hr Hq.
  destruct (gamma_pure_from_new G Qs psis cs i HG LQ Rp Qn Pp Sh Sm New Hi P Hr Hq) as [U M].
  rewrite gamma_sub_UNIFAC_map in U. rewrite gamma_sub_modified_map in M.
  rewrite (nth_map_in _ cs i chem0) in U by exact Hi. rewrite (nth_map_in _ cs i chem0) in M by exact Hi.
  split; assumption.
Qed.

(* (1) the wrappers on the FULL chemical list at x = e_j, j a member with groups: gamma_j = 1 exactly *)
Lemma wrapper_pure_limit (G : nat) (Qs : list R) (fs : list fchem) (j : nat) (c : chem) T :
  (0 < G)%nat -> length Qs = G -> (forall k, (k < G)%nat -> 0 <= nth k Qs 0) ->
  (forall f c0, In f fs -> fd f = Some c0 ->
     length (cg c0) = G /\ (forall k, 0 <= nth k (cg c0) 0) /\
     exists k, (k < G)%nat /\ 0 < nth k Qs 0 /\ 0 < nth k (cg c0) 0) ->
  a_cQ_of fs = derive_cQfs KR (a_cg_of fs) Qs ->
  (j < length fs)%nat -> fd (nth j fs fchem0) = Some c -> unit_at fs j -> cr c <> 0 -> cq c <> 0 ->
  let mask := derive_mask KR (a_cQ_of fs) G in
  (forall inter g0 w, rectangular (psi_modified_UNIFAC KR T inter) G G ->
     gamma_modified_UNIFAC KR (map fx fs) T inter g0 mask (a_qs_of fs) (a_rs_of fs) Qs (a_cg_of fs) (a_cQ_of fs)
                           (index_from 0 fs) = Ok w -> nth j (w_gamma w) 0 = 1) /\
  (forall inter g0 w, rectangular (psi_UNIFAC KR T inter) G G ->
     gamma_UNIFAC KR (map fx fs) T inter g0 mask (a_qs_of fs) (a_rs_of fs) Qs (a_cg_of fs) (a_cQ_of fs)
                  (index_from 0 fs) = Ok w -> nth j (w_gamma w) 0 = 1).
Proof.
  intros HG LQ Qn Sh New Hj Hd U Hr Hq mask. split; intros inter g0 w Rp H.
  - unfold gamma_modified_UNIFAC in H.
    rewrite (wrapper_full _ _ _ _ Gf_modified (fun Qs0 psis gp cs => gamma_sub_modified_map Qs0 psis gp cs) _ fs T inter g0 mask Qs w H).
    apply (full_gamma_pure G Qs fs j c Sh New Hj Hd U Hr Hq).
    intros cs i Hi P S1 S2 N Hr' Hq'.
    apply (Gf_pure G Qs (psi_modified_UNIFAC KR T inter) cs i HG LQ Rp Qn); auto.
    intros m n Hm Hn. apply (ent_exp_pos _ G m n); auto.
  - unfold gamma_UNIFAC in H.
    rewrite (wrapper_full _ _ _ _ Gf_UNIFAC (fun Qs0 psis gp cs => gamma_sub_UNIFAC_map Qs0 psis gp cs) _ fs T inter g0 mask Qs w H).
    apply (full_gamma_pure G Qs fs j c Sh New Hj Hd U Hr Hq).
    intros cs i Hi P S1 S2 N Hr' Hq'.
    apply (Gf_pure G Qs (psi_UNIFAC KR T inter) cs i HG LQ Rp Qn); auto.
    intros m n Hm Hn. apply (ent_exp_pos _ G m n); auto.
Qed.

(* ================= (2) residual (group) part ================= *)
From V Require Import C16.GibbsDuhemResid.
From Coquelicot Require Import Coquelicot.

(* Euler relation: the group kernel is constant along rays, so its radial derivative vanishes *)
Lemma gac_radial_derivative x cgm lc Qs psis cQfs gpsis i :
  Derive (fun l => nth i (group_activity_coefficients KR (map (Rmult l) x) cgm lc Qs psis cQfs gpsis) 0) 1 = 0.
Proof.
  rewrite (Derive_ext_loc _ (fun _ => nth i (group_activity_coefficients KR x cgm lc Qs psis cQfs gpsis) 0)).
  - apply Derive_const.
  - exists (mkposreal (1 / 2) ltac:(lra)). intros l Hl. cbn in Hl.
    unfold ball in Hl. cbn in Hl. unfold AbsRing_ball, abs, minus, plus, opp in Hl. cbn in Hl.
    rewrite gac_homogeneous_R; [reflexivity|].
    intros E. subst l. apply Rabs_def2 in Hl. lra.
Qed.

(* binary mixture of two chemicals, each made of n_i groups of its own kind (water-like / methanol-like) *)
Section BinaryTwoGroups.
Variables Q1 Q2 n1 n2 p11 p12 p21 p22 : R.
Variables (gpsis : list (list R)) (cQ1 cQ2 : list R) (q1 r1 q2 r2 : R).
Let Qs := Q1 :: Q2 :: nil.
Let psis := (p11 :: p12 :: nil) :: (p21 :: p22 :: nil) :: nil.
Definition c1_at (u : R) := mkChem u q1 r1 (n1 :: 0 :: nil) cQ1 0.
Definition c2_at (u : R) := mkChem (1 - u) q2 r2 (0 :: n2 :: nil) cQ2 0.
Definition cs_at (u : R) := c1_at u :: c2_at u :: nil.

Lemma wc_at u : wc_of (cs_at u) = (n1 * u) :: (n2 * (1 - u)) :: nil.
Proof.
  unfold wc_of, cs_at, matvec, vdot. cbn [map transpose map2 cg cx c1_at c2_at ksum fold_right kmul kadd kq KR].
  rewrite Q2R_0'. f_equal; [ring|]. f_equal. ring.
Qed.

Lemma LGI_two u :
  LGI 2 Qs psis ((n1 * u) :: (n2 * (1 - u)) :: nil) 0 = Q1 * L0 (Q1 * n1) (Q2 * n2) p11 p12 p21 p22 u /\
  LGI 2 Qs psis ((n1 * u) :: (n2 * (1 - u)) :: nil) 1 = Q2 * L1 (Q1 * n1) (Q2 * n2) p11 p12 p21 p22 u.
Proof.
  assert (F0 : QfI 2 Qs ((n1 * u) :: (n2 * (1 - u)) :: nil) 0 = th1 (Q1 * n1) (Q2 * n2) u).
  { unfold QfI, bigsum, sumR, th1, Qs. cbn [seq map nth fold_right]. unfold Rdiv. f_equal; [ring|]. f_equal. ring. }
  assert (F1 : QfI 2 Qs ((n1 * u) :: (n2 * (1 - u)) :: nil) 1 = th2 (Q1 * n1) (Q2 * n2) u).
  { unfold QfI, bigsum, sumR, th2, Qs. cbn [seq map nth fold_right]. unfold Rdiv. f_equal; [ring|]. f_equal. ring. }
  assert (G0 : S1I 2 Qs psis ((n1 * u) :: (n2 * (1 - u)) :: nil) 0 = S1 (Q1 * n1) (Q2 * n2) p11 p12 u).
  { unfold S1I, bigsum, sumR, ent, psis. cbn [seq map nth fold_right]. rewrite F0, F1. unfold S1. ring. }
  assert (G1 : S1I 2 Qs psis ((n1 * u) :: (n2 * (1 - u)) :: nil) 1 = S2 (Q1 * n1) (Q2 * n2) p21 p22 u).
  { unfold S1I, bigsum, sumR, ent, psis. cbn [seq map nth fold_right]. rewrite F0, F1. unfold S2. ring. }
  split.
  - unfold LGI, bigsum, sumR. cbn [seq map fold_right]. rewrite G0, G1, F0, F1.
    unfold ent, psis, Qs, L0. cbn [nth]. unfold Rdiv. ring.
  - unfold LGI, bigsum, sumR. cbn [seq map fold_right]. rewrite G0, G1, F0, F1.
    unfold ent, psis, Qs, L1. cbn [nth]. unfold Rdiv. ring.
Qed.

Hypothesis Rg : rectangular gpsis 2 2.
Hypothesis LcQ1 : length cQ1 = 2%nat.
Hypothesis LcQ2 : length cQ2 = 2%nat.

Lemma rect_psis2 : rectangular psis 2 2.
Proof. split; [reflexivity|]. intros row [E|[E|[]]]; subst; reflexivity. Qed.

(* ln gamma_i^R along the binary line, as the scalar forms of GibbsDuhemResid.v up to constants *)
Lemma resid_two u :
  resid_of Qs psis gpsis (wc_of (cs_at u)) (c1_at u) =
    n1 * Q1 * L0 (Q1 * n1) (Q2 * n2) p11 p12 p21 p22 u + (- CLGI 2 Qs gpsis cQ1 0 * n1) /\
  resid_of Qs psis gpsis (wc_of (cs_at u)) (c2_at u) =
    n2 * Q2 * L1 (Q1 * n1) (Q2 * n2) p11 p12 p21 p22 u + (- CLGI 2 Qs gpsis cQ2 1 * n2).
Proof.
  rewrite wc_at. destruct (LGI_two u) as [E0 E1].
  split.
  - rewrite (resid_index 2 Qs psis gpsis ltac:(lia) eq_refl rect_psis2 Rg ((n1 * u) :: (n2 * (1 - u)) :: nil) (c1_at u) eq_refl LcQ1 eq_refl).
    unfold bigsum, sumR. cbn [seq map fold_right c1_at cg cQ nth]. rewrite E0. ring.
  - rewrite (resid_index 2 Qs psis gpsis ltac:(lia) eq_refl rect_psis2 Rg ((n1 * u) :: (n2 * (1 - u)) :: nil) (c2_at u) eq_refl LcQ2 eq_refl).
    unfold bigsum, sumR. cbn [seq map fold_right c2_at cg cQ nth]. rewrite E1. ring.
Qed.

(* the generated kernel with a zero combinatorial term returns exp(ln gamma^R) *)
Lemma ln_gac_two u :
  ln (nth 0 (group_activity_coefficients KR (u :: (1 - u) :: nil) ((n1 :: 0 :: nil) :: (0 :: n2 :: nil) :: nil)
               (0 :: 0 :: nil) Qs psis (cQ1 :: cQ2 :: nil) gpsis) 0) =
    resid_of Qs psis gpsis (wc_of (cs_at u)) (c1_at u) /\
  ln (nth 1 (group_activity_coefficients KR (u :: (1 - u) :: nil) ((n1 :: 0 :: nil) :: (0 :: n2 :: nil) :: nil)
               (0 :: 0 :: nil) Qs psis (cQ1 :: cQ2 :: nil) gpsis) 0) =
    resid_of Qs psis gpsis (wc_of (cs_at u)) (c2_at u).
Proof.
  pose proof (gac_map Qs psis gpsis (fun _ => 0) (cs_at u)) as H. cbn [cs_at map cx cg cQ c1_at c2_at] in H.
  change (c1_at u) with (mkChem u q1 r1 (n1 :: 0 :: nil) cQ1 0). change (c2_at u) with (mkChem (1 - u) q2 r2 (0 :: n2 :: nil) cQ2 0).
  rewrite H. cbn [nth]. rewrite !Rplus_0_l, !ln_exp. split; reflexivity.
Qed.

(* Gibbs-Duhem for the residual part of the generated kernel on this family:
   x1 dln(gamma1^R)/dx1 + x2 dln(gamma2^R)/dx1 = 0 along x2 = 1 - x1 *)
Lemma gibbs_duhem_resid_two t :
  0 < Q1 -> 0 < Q2 -> 0 < n1 -> 0 < n2 -> 0 < p11 -> 0 < p12 -> 0 < p21 -> 0 < p22 -> 0 < t < 1 ->
  t * Derive (fun u => ln (nth 0 (group_activity_coefficients KR (u :: (1 - u) :: nil)
                 ((n1 :: 0 :: nil) :: (0 :: n2 :: nil) :: nil) (0 :: 0 :: nil) Qs psis (cQ1 :: cQ2 :: nil) gpsis) 0)) t +
  (1 - t) * Derive (fun u => ln (nth 1 (group_activity_coefficients KR (u :: (1 - u) :: nil)
                 ((n1 :: 0 :: nil) :: (0 :: n2 :: nil) :: nil) (0 :: 0 :: nil) Qs psis (cQ1 :: cQ2 :: nil) gpsis) 0)) t = 0.
Proof.
  intros HQ1 HQ2 Hn1 Hn2 H11 H12 H21 H22 Ht.
  assert (HA : 0 < Q1 * n1) by (apply Rmult_lt_0_compat; assumption).
  assert (HB : 0 < Q2 * n2) by (apply Rmult_lt_0_compat; assumption).
  destruct (L_derivable (Q1 * n1) (Q2 * n2) p11 p12 p21 p22 t HA HB H11 H12 H21 H22 Ht) as [X0 X1].
  rewrite (Derive_ext _ (fun u => n1 * Q1 * L0 (Q1 * n1) (Q2 * n2) p11 p12 p21 p22 u + (- CLGI 2 Qs gpsis cQ1 0 * n1)))
    by (intros u; rewrite (proj1 (ln_gac_two u)); apply (proj1 (resid_two u))).
  rewrite (Derive_ext (fun u => ln (nth 1 _ 0))
             (fun u => n2 * Q2 * L1 (Q1 * n1) (Q2 * n2) p11 p12 p21 p22 u + (- CLGI 2 Qs gpsis cQ2 1 * n2)))
    by (intros u; rewrite (proj2 (ln_gac_two u)); apply (proj2 (resid_two u))).
  rewrite !Derive_plus; try (apply ex_derive_const); try (apply ex_derive_scal; assumption).
  rewrite !Derive_const, !Derive_scal.
  pose proof (resid_gd (Q1 * n1) (Q2 * n2) p11 p12 p21 p22 t HA HB H11 H12 H21 H22 Ht) as GD.
  replace (t * (n1 * Q1 * Derive (L0 (Q1 * n1) (Q2 * n2) p11 p12 p21 p22) t + 0) +
           (1 - t) * (n2 * Q2 * Derive (L1 (Q1 * n1) (Q2 * n2) p11 p12 p21 p22) t + 0))
    with (Q1 * n1 * t * Derive (L0 (Q1 * n1) (Q2 * n2) p11 p12 p21 p22) t +
          Q2 * n2 * (1 - t) * Derive (L1 (Q1 * n1) (Q2 * n2) p11 p12 p21 p22) t) by ring.
  exact GD.
Qed.
End BinaryTwoGroups.
