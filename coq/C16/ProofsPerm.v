(* C16 — position independence through the `index` gather / scatter of the FULL chemical list
   (members without group data included), at KR, for both wrappers. *)
From V Require Import Common.NumFacts C16.Model C16.Proofs C16.ProofsR.
From Coq Require Import Reals Lia List Permutation.
From Coq Require Import Lra.
Import ListNotations.
Local Open Scope R_scope.

(* ---------- generic list facts about the two loops ---------- *)
Section Loops.
Context {A : Type} (K : KOps A).

Lemma upd_app_at {B} (pre : list B) a rest v : upd (pre ++ a :: rest) (length pre) v = pre ++ v :: rest.
Proof. induction pre as [|p t IH]; simpl; [reflexivity|]. rewrite IH. reflexivity. Qed.

Lemma nth_app_at {B} (pre : list B) a rest d : nth (length pre) (pre ++ a :: rest) d = a.
Proof. induction pre as [|p t IH]; simpl; auto. Qed.

Lemma gather_gen (x : list A) (l : list nat) : forall pre mid post,
  length mid = length l ->
  fold_left (gather_step K GatherIntoSub) (combine (seq (length pre) (length l)) l) (x, pre ++ mid ++ post) =
  (x, pre ++ map (fun j => nth j x (kzero K)) l ++ post).
Proof.
  induction l as [|j t IH]; intros pre mid post L.
  - destruct mid; [reflexivity|discriminate].
  - destruct mid as [|m0 mid']; [discriminate|]. cbn [length seq combine fold_left gather_step map].
    change ((m0 :: mid') ++ post) with (m0 :: (mid' ++ post)).
    rewrite upd_app_at.
    specialize (IH (pre ++ [nth j x (kzero K)]) mid' post ltac:(simpl in L; lia)).
    rewrite app_length in IH. cbn [length] in IH. rewrite Nat.add_1_r in IH.
    rewrite <- !app_assoc in IH. cbn [app] in IH. rewrite IH. reflexivity.
Qed.

Lemma gather_all (x : list A) (l : list nat) :
  gather_loop K GatherIntoSub l x (ones K (length l)) = (x, map (fun j => nth j x (kzero K)) l).
Proof.
  unfold gather_loop, enum.
  pose proof (gather_gen x l [] (ones K (length l)) [] ltac:(unfold ones; apply repeat_length)) as H.
  cbn [length app] in H. rewrite !app_nil_r in H. exact H.
Qed.
End Loops.

(* ---------- the full chemical list ---------- *)
Record fchem := mkF { fx : R; fd : option chem }.

Fixpoint index_from (k : nat) (fs : list fchem) : list nat :=
  match fs with
  | [] => []
  | f :: t => match fd f with Some _ => k :: index_from (S k) t | None => index_from (S k) t end
  end.
Fixpoint somes (fs : list fchem) : list (R * chem) :=
  match fs with
  | [] => []
  | f :: t => match fd f with Some c => (fx f, c) :: somes t | None => somes t end
  end.
(* what the scatter loop leaves in gamma: values of gs in order at the members with groups, 1 elsewhere *)
Fixpoint scatter_spec (fs : list fchem) (gs : list R) : list R :=
  match fs with
  | [] => []
  | f :: t => match fd f with
              | Some _ => hd 0 gs :: scatter_spec t (tl gs)
              | None => 1 :: scatter_spec t gs
              end
  end.

Lemma index_somes_length k fs : length (index_from k fs) = length (somes fs).
Proof. revert k; induction fs as [|f t IH]; intros k; simpl; auto. destruct (fd f); simpl; auto. Qed.

Lemma gathered_values fs : forall pre,
  map (fun j => nth j (pre ++ map fx fs) 0) (index_from (length pre) fs) = map fst (somes fs).
Proof.
  induction fs as [|f t IH]; intros pre; [reflexivity|].
  cbn [index_from somes map].
  assert (E : pre ++ fx f :: map fx t = (pre ++ [fx f]) ++ map fx t) by (rewrite <- app_assoc; reflexivity).
  specialize (IH (pre ++ [fx f])). rewrite app_length in IH. cbn [length] in IH. rewrite Nat.add_1_r in IH.
  destruct (fd f).
  - cbn [map fst]. rewrite nth_app_at. f_equal. rewrite E. exact IH.
  - rewrite E. exact IH.
Qed.

Lemma scatter_gen fs : forall pre gpre gsub, length gsub = length (somes fs) ->
  fold_left (scatter_step KR (gpre ++ gsub))
            (combine (seq (length gpre) (length (index_from (length pre) fs))) (index_from (length pre) fs))
            (pre ++ ones KR (length fs)) = pre ++ scatter_spec fs gsub.
Proof.
  induction fs as [|f t IH]; intros pre gpre gsub L; [reflexivity|].
  cbn [index_from somes scatter_spec length] in *.
  unfold ones in *. cbn [repeat].
  assert (E : forall (v : R) rest, pre ++ v :: rest = (pre ++ [v]) ++ rest) by (intros; rewrite <- app_assoc; reflexivity).
  destruct (fd f).
  - destruct gsub as [|g0 gsub']; [discriminate|]. cbn [length seq combine fold_left hd tl].
    unfold scatter_step at 2. cbn [fst snd]. rewrite nth_app_at. rewrite upd_app_at.
    specialize (IH (pre ++ [g0]) (gpre ++ [g0]) gsub' ltac:(simpl in L; lia)).
    rewrite !app_length in IH. cbn [length] in IH. rewrite !Nat.add_1_r in IH.
    rewrite <- (app_assoc gpre [g0] gsub') in IH. cbn [app] in IH.
    rewrite (E g0). rewrite IH. rewrite <- app_assoc. reflexivity.
  - specialize (IH (pre ++ [kone KR]) gpre gsub L).
    rewrite app_length in IH. cbn [length] in IH. rewrite Nat.add_1_r in IH.
    rewrite (E (kone KR)). rewrite IH. rewrite <- app_assoc. rewrite kone_KR. reflexivity.
Qed.

Lemma scatter_all fs gs : length gs = length (somes fs) ->
  scatter KR (index_from 0 fs) gs (ones KR (length fs)) = scatter_spec fs gs.
Proof. intros L. unfold scatter, enum. exact (scatter_gen fs [] [] gs L). Qed.

Lemma scatter_spec_map (F : R * chem -> R) fs :
  scatter_spec fs (map F (somes fs)) =
  map (fun f => match fd f with Some c => F (fx f, c) | None => 1 end) fs.
Proof.
  induction fs as [|f t IH]; [reflexivity|]. cbn [scatter_spec somes map].
  destruct (fd f); cbn [map hd tl]; rewrite IH; reflexivity.
Qed.

Lemma ones_map fs : ones KR (length fs) = map (fun _ : fchem => 1) fs.
Proof. unfold ones. rewrite kone_KR. induction fs; simpl; congruence. Qed.

(* ---------- the wrapper's result as a map over the full list ---------- *)
Definition sub_sum (fs : list fchem) : R := sumR (map fst (somes fs)).
(* the sub-system the kernels see: members with groups at the renormalised composition *)
Definition sub_cs (fs : list fchem) : list chem :=
  map (fun xc => set_cx (snd xc) (fst xc / sub_sum fs)) (somes fs).
(* arguments of the wrapper as __new__ lays them out for this list *)
Definition a_qs_of fs := map (fun xc : R * chem => cq (snd xc)) (somes fs).
Definition a_rs_of fs := map (fun xc : R * chem => cr (snd xc)) (somes fs).
Definition a_cg_of fs := map (fun xc : R * chem => cg (snd xc)) (somes fs).
Definition a_cQ_of fs := map (fun xc : R * chem => cQ (snd xc)) (somes fs).

Lemma somes_perm fs fs' : Permutation fs fs' -> Permutation (somes fs) (somes fs').
Proof.
  induction 1 as [|f l l' P IH|f g l|l l' l'' P1 IH1 P2 IH2]; simpl.
  - constructor.
  - destruct (fd f); [constructor|]; exact IH.
  - destruct (fd f), (fd g); try apply Permutation_refl. apply perm_swap.
  - eapply Permutation_trans; eauto.
Qed.

Section WrapperMap.
Variables (I : Type) (psi : R -> I -> list (list R))
          (lgc : list R -> list R -> list R -> list R)
          (gac : list R -> list (list R) -> list R -> list R -> list (list R) -> list (list R) ->
                 list (list R) -> list R)
          (Gf : list (list R) -> list (list R) -> list R -> list chem -> chem -> R).
(* the kernels evaluate chemical by chemical (ProofsR: gamma_sub_*_map) *)
Hypothesis Hsub : forall Qs psis gp cs,
  gac (map cx cs) (map cg cs) (lgc (map cq cs) (map cr cs) (map cx cs)) Qs psis (map cQ cs) gp =
  map (Gf psis gp Qs cs) cs.

Definition full_gamma (fs : list fchem) (T : R) (inter : I) (mask : list (list bool)) (Qs : list R) : list R :=
  if (1 <? length (somes fs))%nat && negb (Reqb (sub_sum fs) 0) then
    let psis := psi T inter in
    let gp := fill_group_psis KR psis mask in
    map (fun f => match fd f with
                  | Some c => Gf psis gp Qs (sub_cs fs) (set_cx c (fx f / sub_sum fs))
                  | None => 1
                  end) fs
  else map (fun _ => 1) fs.

Lemma wrapper_full sp fs T inter gpsis0 mask Qs w :
  wrapper KR GatherIntoSub sp psi lgc gac (map fx fs) T inter gpsis0 mask (a_qs_of fs) (a_rs_of fs) Qs
          (a_cg_of fs) (a_cQ_of fs) (index_from 0 fs) = Ok w ->
  w_gamma w = full_gamma fs T inter mask Qs.
Proof.
  unfold wrapper, full_gamma. rewrite index_somes_length, map_length.
  rewrite <- (index_somes_length 0 fs) at 2. rewrite gather_all.
  pose proof (gathered_values fs []) as GV. cbn [length app] in GV. rewrite kzero_KR. rewrite GV.
  rewrite ksum_KR. fold (sub_sum fs).
  destruct (1 <? length (somes fs))%nat; cbn [andb].
  2:{ intros H. inversion H. cbn [w_gamma]. apply ones_map. }
  change (keqb KR (sub_sum fs) 0) with (Reqb (sub_sum fs) 0).
  destruct (Reqb (sub_sum fs) 0); cbn [negb].
  - destruct sp; intros H; inversion H. cbn [w_gamma]. apply ones_map.
  - intros H. inversion H. cbn [w_gamma]. clear H.
    set (psis := psi T inter). set (gp := fill_group_psis KR psis mask).
    assert (Ex : bc_10 Rdiv (map fst (somes fs)) (sub_sum fs) = map cx (sub_cs fs)).
    { unfold bc_10, sub_cs. rewrite !map_map. reflexivity. }
    assert (Eq : a_qs_of fs = map cq (sub_cs fs)) by (unfold a_qs_of, sub_cs; rewrite map_map; reflexivity).
    assert (Er : a_rs_of fs = map cr (sub_cs fs)) by (unfold a_rs_of, sub_cs; rewrite map_map; reflexivity).
    assert (Eg : a_cg_of fs = map cg (sub_cs fs)) by (unfold a_cg_of, sub_cs; rewrite map_map; reflexivity).
    assert (EQ : a_cQ_of fs = map cQ (sub_cs fs)) by (unfold a_cQ_of, sub_cs; rewrite map_map; reflexivity).
    rewrite Ex, Eq, Er, Eg, EQ. rewrite Hsub.
    unfold sub_cs at 2. rewrite map_map.
    rewrite scatter_all by (rewrite map_length; reflexivity).
    rewrite (scatter_spec_map (fun xc => Gf psis gp Qs (sub_cs fs) (set_cx (snd xc) (fst xc / sub_sum fs))) fs).
    reflexivity.
Qed.

(* ... and that map does not depend on the order of the list *)
Variable G : nat.
Hypothesis HGf : forall psis gp Qs cs cs', Permutation cs cs' -> (forall c, In c cs -> length (cg c) = G) ->
  Gf psis gp Qs cs = Gf psis gp Qs cs'.

Lemma full_gamma_perm fs fs' T inter mask Qs : Permutation fs fs' ->
  (forall f c, In f fs -> fd f = Some c -> length (cg c) = G) ->
  Permutation (combine fs (full_gamma fs T inter mask Qs)) (combine fs' (full_gamma fs' T inter mask Qs)).
Proof.
  intros P Rect.
  pose proof (somes_perm fs fs' P) as PS.
  assert (ES : sub_sum fs = sub_sum fs') by (unfold sub_sum; apply sumR_perm; apply Permutation_map; exact PS).
  assert (EL : length (somes fs) = length (somes fs')) by (apply Permutation_length; exact PS).
  assert (PC : Permutation (sub_cs fs) (sub_cs fs')) by (unfold sub_cs; rewrite ES; apply Permutation_map; exact PS).
  assert (RC : forall c, In c (sub_cs fs) -> length (cg c) = G).
  { intros c Hc. unfold sub_cs in Hc. apply in_map_iff in Hc. destruct Hc as ([x c0] & <- & Hin). cbn [set_cx cg snd].
    clear - Hin Rect. induction fs as [|f t IH]; simpl in Hin; [contradiction|].
    destruct (fd f) eqn:E.
    - destruct Hin as [H|H].
      + inversion H; subst. apply (Rect f c0); [left; reflexivity|exact E].
      + apply IH; auto. intros f' c' Hf'. apply Rect. right; exact Hf'.
    - apply IH; auto. intros f' c' Hf'. apply Rect. right; exact Hf'. }
  unfold full_gamma. rewrite <- EL, <- ES.
  destruct ((1 <? length (somes fs))%nat && negb (Reqb (sub_sum fs) 0)).
  - rewrite <- (HGf _ _ Qs (sub_cs fs) (sub_cs fs') PC RC).
    rewrite !combine_map_self. apply Permutation_map. exact P.
  - rewrite !combine_map_self. apply Permutation_map. exact P.
Qed.
End WrapperMap.

(* ---------- both wrappers ---------- *)
Definition Gf_modified (psis gp : list (list R)) (Qs : list R) (cs : list chem) (c : chem) : R :=
  exp (comb_modified_of cs c + resid_of Qs psis gp (wc_of cs) c).
Definition Gf_UNIFAC (psis gp : list (list R)) (Qs : list R) (cs : list chem) (c : chem) : R :=
  exp (comb_UNIFAC_of cs c + resid_of Qs psis gp (wc_of cs) c).

Lemma Gf_modified_perm G psis gp Qs cs cs' : Permutation cs cs' -> (forall c, In c cs -> length (cg c) = G) ->
  Gf_modified psis gp Qs cs = Gf_modified psis gp Qs cs'.
Proof.
  intros P Rect. unfold Gf_modified, comb_modified_of.
  rewrite (rho_perm _ _ P), (theta_perm _ _ P), (rho34_perm _ _ P), (wc_perm G cs cs' P Rect). reflexivity.
Qed.
Lemma Gf_UNIFAC_perm G psis gp Qs cs cs' : Permutation cs cs' -> (forall c, In c cs -> length (cg c) = G) ->
  Gf_UNIFAC psis gp Qs cs = Gf_UNIFAC psis gp Qs cs'.
Proof.
  intros P Rect. unfold Gf_UNIFAC, comb_UNIFAC_of.
  rewrite (rho_perm _ _ P), (theta_perm _ _ P), (wc_perm G cs cs' P Rect). reflexivity.
Qed.

Lemma wrappers_perm G fs fs' T Qs mask : Permutation fs fs' ->
  (forall f c, In f fs -> fd f = Some c -> length (cg c) = G) ->
  (forall inter g0 g0' w w',
     gamma_modified_UNIFAC KR (map fx fs) T inter g0 mask (a_qs_of fs) (a_rs_of fs) Qs (a_cg_of fs) (a_cQ_of fs)
                           (index_from 0 fs) = Ok w ->
     gamma_modified_UNIFAC KR (map fx fs') T inter g0' mask (a_qs_of fs') (a_rs_of fs') Qs (a_cg_of fs') (a_cQ_of fs')
                           (index_from 0 fs') = Ok w' ->
     Permutation (combine fs (w_gamma w)) (combine fs' (w_gamma w'))) /\
  (forall inter g0 g0' w w',
     gamma_UNIFAC KR (map fx fs) T inter g0 mask (a_qs_of fs) (a_rs_of fs) Qs (a_cg_of fs) (a_cQ_of fs)
                  (index_from 0 fs) = Ok w ->
     gamma_UNIFAC KR (map fx fs') T inter g0' mask (a_qs_of fs') (a_rs_of fs') Qs (a_cg_of fs') (a_cQ_of fs')
                  (index_from 0 fs') = Ok w' ->
     Permutation (combine fs (w_gamma w)) (combine fs' (w_gamma w'))).
Proof.
  intros P Rect. split; intros inter g0 g0' w w' H H'.
  - unfold gamma_modified_UNIFAC in H, H'.
    rewrite (wrapper_full _ _ _ _ Gf_modified (fun Qs0 psis gp cs => gamma_sub_modified_map Qs0 psis gp cs) _ fs T inter g0 mask Qs w H).
    rewrite (wrapper_full _ _ _ _ Gf_modified (fun Qs0 psis gp cs => gamma_sub_modified_map Qs0 psis gp cs) _ fs' T inter g0' mask Qs w' H').
    apply (full_gamma_perm _ _ Gf_modified G (Gf_modified_perm G)); assumption.
  - unfold gamma_UNIFAC in H, H'.
    rewrite (wrapper_full _ _ _ _ Gf_UNIFAC (fun Qs0 psis gp cs => gamma_sub_UNIFAC_map Qs0 psis gp cs) _ fs T inter g0 mask Qs w H).
    rewrite (wrapper_full _ _ _ _ Gf_UNIFAC (fun Qs0 psis gp cs => gamma_sub_UNIFAC_map Qs0 psis gp cs) _ fs' T inter g0' mask Qs w' H').
    apply (full_gamma_perm _ _ Gf_UNIFAC G (Gf_UNIFAC_perm G)); assumption.
Qed.
