(* C16 — the executable Jacobian of ModelJac.v at the real carrier is the symmetric form Sym of ResidN.v, hence (by
   ProofsResidN.v) the derivative d ln(gamma_i^R)/d x_j of the translated group kernel; it is symmetric and x^T J = 0. *)
From V Require Import Common.NumFacts C16.Model C16.ModelJac C16.Proofs C16.ProofsR C16.ProofsIdx C16.GibbsDuhem C16.ProofsGD
  C16.ResidN C16.ProofsResidN.
From Coq Require Import Reals Lia List Lra.
From Coquelicot Require Import Coquelicot.
Import ListNotations.
Local Open Scope R_scope.

Section Entry.
Variables (G : nat) (Qs : list R) (psis : list (list R)).
Hypothesis LQs : length Qs = G.
Hypothesis Rpsis : rectangular psis G G.

Definition QV (V : list R) : list R := bc_11 (kmul KR) Qs V.

Lemma QV_length V : length V = G -> length (QV V) = G.
Proof. intros L. unfold QV, bc_11. rewrite map2_length_min, LQs, L. apply Nat.min_id. Qed.

Lemma QV_nth V n : length V = G -> (n < G)%nat -> nth n (QV V) 0 = lam Qs V n.
Proof. intros L Hn. unfold QV, bc_11, lam. rewrite (nth_map2_in _ Qs V n 0 0 0) by lia. reflexivity. Qed.

Lemma rows_length m : (m < G)%nat -> length (nth m psis []) = G.
Proof. intros Hm. destruct Rpsis as [L Rc]. apply Rc. apply nth_In. lia. Qed.

Lemma matvec_length (l : list R) : length (matvec KR psis l) = G.
Proof. unfold matvec. rewrite map_length. destruct Rpsis as [L _]. exact L. Qed.

Lemma matvec_nth V m : length V = G -> (m < G)%nat -> nth m (matvec KR psis (QV V)) 0 = sig G psis (lam Qs V) m.
Proof.
  intros L Hm. destruct Rpsis as [Lp _].
  rewrite nth_matvec by lia.
  rewrite (vdot_bigsum _ _ G (rows_length m Hm) (QV_length V L)).
  unfold sig. apply bigsum_ext. intros n Hn. rewrite (QV_nth V n L Hn). reflexivity.
Qed.

Lemma sumR_bigsum (l : list R) : length l = G -> sumR l = bigsum G (fun n => nth n l 0).
Proof. intros L. unfold bigsum. rewrite <- L. rewrite map_nth_seq. reflexivity. Qed.

Lemma ksum_QV V : length V = G -> ksum KR (QV V) = tau G (lam Qs V).
Proof.
  intros L. rewrite ksum_KR. rewrite (sumR_bigsum _ (QV_length V L)). unfold tau.
  apply bigsum_ext. intros n Hn. apply QV_nth; assumption.
Qed.

Lemma sym_entry_R W P Rr : length W = G -> length P = G -> length Rr = G ->
  sym_entry KR (QV W) (matvec KR psis (QV W)) (ksum KR (QV W))
               (QV P) (matvec KR psis (QV P)) (ksum KR (QV P))
               (QV Rr) (matvec KR psis (QV Rr)) (ksum KR (QV Rr)) =
  Sym G Qs psis W (lam Qs P) (lam Qs Rr).
Proof.
  intros LW LP LR. unfold sym_entry, Sym. cbn [kadd ksub kneg kdiv kmul KR].
  rewrite (ksum_QV W LW), (ksum_QV P LP), (ksum_QV Rr LR).
  assert (D1 : forall A B, length A = G -> length B = G -> length (bc_11 Rdiv A B) = G).
  { intros A B LA LB. unfold bc_11. rewrite map2_length_min, LA, LB. apply Nat.min_id. }
  assert (M1 : forall A B, length A = G -> length B = G -> length (bc_11 Rmult A B) = G).
  { intros A B LA LB. unfold bc_11. rewrite map2_length_min, LA, LB. apply Nat.min_id. }
  pose proof (matvec_length (QV W)) as LsW. pose proof (matvec_length (QV P)) as LsP. pose proof (matvec_length (QV Rr)) as LsR.
  rewrite (vdot_bigsum (QV P) _ G (QV_length P LP) (D1 _ _ LsR LsW)).
  rewrite (vdot_bigsum (QV Rr) _ G (QV_length Rr LR) (D1 _ _ LsP LsW)).
  rewrite (vdot_bigsum (QV W) _ G (QV_length W LW) (D1 _ _ (M1 _ _ LsP LsR) (M1 _ _ LsW LsW))).
  rewrite (bigsum_ext G _ (fun k => lam Qs P k * sig G psis (lam Qs Rr) k / sig G psis (lam Qs W) k)).
  2:{ intros k Hk. unfold bc_11. rewrite (nth_map2_in Rdiv _ _ k 0 0 0) by lia.
      rewrite (QV_nth P k LP Hk), (matvec_nth Rr k LR Hk), (matvec_nth W k LW Hk). unfold Rdiv. ring. }
  rewrite (bigsum_ext G (fun n => nth n (QV Rr) 0 * _) (fun k => lam Qs Rr k * sig G psis (lam Qs P) k / sig G psis (lam Qs W) k)).
  2:{ intros k Hk. unfold bc_11. rewrite (nth_map2_in Rdiv _ _ k 0 0 0) by lia.
      rewrite (QV_nth Rr k LR Hk), (matvec_nth P k LP Hk), (matvec_nth W k LW Hk). unfold Rdiv. ring. }
  rewrite (bigsum_ext G (fun n => nth n (QV W) 0 * _)
             (fun m => lam Qs W m * sig G psis (lam Qs P) m * sig G psis (lam Qs Rr) m / (sig G psis (lam Qs W) m * sig G psis (lam Qs W) m))).
  2:{ intros k Hk. unfold bc_11.
      rewrite (nth_map2_in Rdiv _ _ k 0 0 0) by (rewrite ?map2_length_min; lia).
      rewrite !(nth_map2_in Rmult _ _ k 0 0 0) by lia.
      rewrite (QV_nth W k LW Hk), (matvec_nth P k LP Hk), (matvec_nth Rr k LR Hk), (matvec_nth W k LW Hk). unfold Rdiv. ring. }
  reflexivity.
Qed.
End Entry.

(* the executable Jacobian on a list of chemical records *)
Lemma resid_jac_Sym G Qs psis cs : length Qs = G -> rectangular psis G G -> cs <> [] ->
  (forall c, In c cs -> length (cg c) = G) ->
  resid_jac KR (map cx cs) (map cg cs) Qs psis =
  map (fun ci => map (fun cj => Sym G Qs psis (wc_of cs) (lam Qs (cg ci)) (lam Qs (cg cj))) cs) cs.
Proof.
  intros LQ Rp NE Rect. unfold resid_jac. fold (wc_of cs). cbv zeta. rewrite !map_map.
  apply map_ext_in. intros ci Hci. rewrite !map_map. apply map_ext_in. intros cj Hcj. cbn [jac_row fst snd].
  apply (sym_entry_R G Qs psis LQ Rp (wc_of cs) (cg ci) (cg cj)); [apply (wc_length G); assumption|apply Rect; assumption|apply Rect; assumption].
Qed.

(* entry (i, j) of the executable Jacobian IS the derivative of ln gamma_i^R of the translated kernel along x + h e_j *)
Lemma resid_jac_is_derivative G Qs psis gpsis cs i j :
  length Qs = G -> rectangular psis G G -> rectangular gpsis G G ->
  (forall c, In c cs -> 0 <= cx c /\ length (cg c) = G /\ length (cQ c) = G /\ (forall k, 0 <= nth k (cg c) 0)) ->
  (forall k, (k < G)%nat -> 0 < nth k Qs 0) ->
  (forall m n, (m < G)%nat -> (n < G)%nat -> 0 < ent psis m n) ->
  (exists c k, In c cs /\ (k < G)%nat /\ 0 < cx c /\ 0 < nth k (cg c) 0) ->
  (i < length cs)%nat -> (j < length cs)%nat ->
  is_derive (fun h => resid_of Qs psis gpsis (wc_of (bump_x cs j h)) (nth i cs chem0)) 0
            (nth j (nth i (resid_jac KR (map cx cs) (map cg cs) Qs psis) []) 0).
Proof.
  intros LQ Rp Rg Shape Qpos Ppos Ex Hi Hj.
  assert (NE : cs <> []) by (intros E; subst; simpl in Hi; lia).
  assert (Rect : forall c, In c cs -> length (cg c) = G) by (intros c Hc; destruct (Shape c Hc) as (_ & L & _); exact L).
  rewrite (resid_jac_Sym G Qs psis cs LQ Rp NE Rect).
  rewrite (nth_map_in _ cs i chem0 []) by exact Hi. rewrite (nth_map_in _ cs j chem0 0) by exact Hj.
  pose proof (tau_pos_of_group G Qs cs NE Shape Qpos Ex) as T.
  pose proof (sig_pos_of_tau G Qs psis cs NE Shape Qpos Ppos T) as Sp.
  assert (HG : (0 < G)%nat). { destruct Ex as (c & k & _ & Hk & _). lia. }
  assert (Ini : In (nth i cs chem0) cs) by (apply nth_In; exact Hi).
  assert (Inj : In (nth j cs chem0) cs) by (apply nth_In; exact Hj).
  destruct (Shape _ Ini) as (_ & Lgi & LQi & _).
  rewrite <- (resid_line_Sym G Qs psis (wc_of cs) (cg (nth j cs chem0)) Sp (nth i cs chem0)).
  apply (resid_line_derive G Qs psis gpsis (wc_of cs) (cg (nth j cs chem0)) HG LQ Rp Rg T Sp
           (fun h => wc_of (bump_x cs j h)) (nth i cs chem0)); auto.
  - intros h. apply (wc_length G).
    + change (bump_x cs j h) with (pert cs (fun i0 => if Nat.eqb i0 j then h else 0)). apply pert_nonempty. exact NE.
    + change (bump_x cs j h) with (pert cs (fun i0 => if Nat.eqb i0 j then h else 0)). apply pert_rect. exact Rect.
  - intros h n Hn. apply (wc_bump_line G cs j h n Hj Rect Hn).
Qed.

Lemma resid_jac_symmetric G Qs psis cs i j : length Qs = G -> rectangular psis G G ->
  (forall c, In c cs -> length (cg c) = G) -> (i < length cs)%nat -> (j < length cs)%nat ->
  nth j (nth i (resid_jac KR (map cx cs) (map cg cs) Qs psis) []) 0 =
  nth i (nth j (resid_jac KR (map cx cs) (map cg cs) Qs psis) []) 0.
Proof.
  intros LQ Rp Rect Hi Hj.
  assert (NE : cs <> []) by (intros E; subst; simpl in Hi; lia).
  rewrite (resid_jac_Sym G Qs psis cs LQ Rp NE Rect).
  rewrite (nth_map_in _ cs i chem0 []) by exact Hi. rewrite (nth_map_in _ cs j chem0 0) by exact Hj.
  rewrite (nth_map_in _ cs j chem0 []) by exact Hj. rewrite (nth_map_in _ cs i chem0 0) by exact Hi.
  apply Sym_sym.
Qed.

Lemma bump_is_pert cs j h : bump_x cs j h = pert cs (fun i => h * (if Nat.eqb i j then 1 else 0)).
Proof.
  unfold bump_x, pert. apply map_ext. intros [i c]. cbn [fst snd]. f_equal. f_equal.
  destruct (Nat.eqb i j); ring.
Qed.

(* x^T J = 0: Gibbs-Duhem of the residual part, on the executable Jacobian *)
Lemma resid_jac_gibbs_duhem G Qs psis gpsis cs j :
  length Qs = G -> rectangular psis G G -> rectangular gpsis G G ->
  (forall c, In c cs -> 0 <= cx c /\ length (cg c) = G /\ length (cQ c) = G /\ (forall k, 0 <= nth k (cg c) 0)) ->
  (forall k, (k < G)%nat -> 0 < nth k Qs 0) ->
  (forall m n, (m < G)%nat -> (n < G)%nat -> 0 < ent psis m n) ->
  (exists c k, In c cs /\ (k < G)%nat /\ 0 < cx c /\ 0 < nth k (cg c) 0) ->
  (j < length cs)%nat ->
  sum_over (enum cs) (fun ic => cx (snd ic) * nth j (nth (fst ic) (resid_jac KR (map cx cs) (map cg cs) Qs psis) []) 0) = 0.
Proof.
  intros LQ Rp Rg Shape Qpos Ppos Ex Hj.
  assert (NE : cs <> []) by (intros E; subst; simpl in Hj; lia).
  assert (HG : (0 < G)%nat). { destruct Ex as (c & k & _ & Hk & _). lia. }
  pose proof (tau_pos_of_group G Qs cs NE Shape Qpos Ex) as T.
  pose proof (gibbs_duhem_resid_direction G Qs psis gpsis cs LQ Rp Rg NE Shape Qpos Ppos HG
                (fun i => if Nat.eqb i j then 1 else 0) T) as GD.
  cbv beta in GD.
  pose proof (sum_over_enum_snd cs (fun c => cx c * Derive (fun h =>
                resid_of Qs psis gpsis (wc_of (pert cs (fun i => h * (if Nat.eqb i j then 1 else 0)))) c) 0)) as E.
  cbv beta in E. rewrite GD in E. etransitivity; [|exact E]. apply sum_over_ext. intros [i c] Hin. destruct (in_enum_nth cs i c Hin) as [Hi Ec]. cbn [fst snd].
  f_equal. symmetry. apply is_derive_unique.
  apply (is_derive_ext (fun h => resid_of Qs psis gpsis (wc_of (bump_x cs j h)) c)).
  - intros h. rewrite bump_is_pert. reflexivity.
  - subst c. apply (resid_jac_is_derivative G Qs psis gpsis cs i j); assumption.
Qed.
