(* C16 — residual (group) part for n groups: ln Gamma_k along a line W + h D of group amounts, its derivative, the
   symmetric (Hessian) form of the directional derivative of ln gamma^R (existence of the excess-Gibbs potential
   G = - sum_k Q_k W_k ln(sum_m Theta_m psi_mk)), and the Gibbs-Duhem identity that follows. *)
From V Require Import Common.NumFacts C16.Model C16.Proofs C16.ProofsR C16.ProofsIdx.
From Coq Require Import Reals Lia List Lra.
From Coquelicot Require Import Coquelicot.
Import ListNotations.
Local Open Scope R_scope.

(* ---------- finite sums ---------- *)
Lemma sumR_plus {B} (l : list B) (f g : B -> R) :
  sumR (map (fun u => f u + g u) l) = sumR (map f l) + sumR (map g l).
Proof. induction l as [|u t IH]; simpl; [ring|]. rewrite IH. ring. Qed.

Lemma sumR_scal {B} (l : list B) (f : B -> R) c : sumR (map (fun u => c * f u) l) = c * sumR (map f l).
Proof. induction l as [|u t IH]; simpl; [ring|]. rewrite IH. ring. Qed.

Lemma sumR_zero {B} (l : list B) : sumR (map (fun _ => 0) l) = 0.
Proof. induction l as [|u t IH]; simpl; [ring|]. rewrite IH. ring. Qed.

Lemma sumR_swap {B C} (l : list B) (l' : list C) (f : B -> C -> R) :
  sumR (map (fun u => sumR (map (fun v => f u v) l')) l) = sumR (map (fun v => sumR (map (fun u => f u v) l)) l').
Proof.
  induction l as [|u t IH]; simpl.
  - rewrite sumR_zero. reflexivity.
  - rewrite IH. rewrite <- sumR_plus. reflexivity.
Qed.

Lemma bigsum_plus G f g : bigsum G (fun n => f n + g n) = bigsum G f + bigsum G g.
Proof. apply sumR_plus. Qed.
Lemma bigsum_scal G f c : bigsum G (fun n => c * f n) = c * bigsum G f.
Proof. apply sumR_scal. Qed.
Lemma bigsum_scal_r G f c : bigsum G (fun n => f n * c) = bigsum G f * c.
Proof. rewrite (bigsum_ext G _ (fun n => c * f n)) by (intros; ring). rewrite bigsum_scal. ring. Qed.
Lemma bigsum_lin G f g c : bigsum G (fun n => f n + c * g n) = bigsum G f + c * bigsum G g.
Proof. rewrite bigsum_plus, bigsum_scal. reflexivity. Qed.
Lemma bigsum_swap G H (f : nat -> nat -> R) :
  bigsum G (fun k => bigsum H (fun m => f k m)) = bigsum H (fun m => bigsum G (fun k => f k m)).
Proof. apply sumR_swap. Qed.
Lemma bigsum_zero G : bigsum G (fun _ => 0) = 0.
Proof. apply sumR_zero. Qed.

(* positive weights keep a positive sum of non-negative terms positive *)
Lemma sumR_weighted_pos {B} (l : list B) (a p : B -> R) :
  (forall u, In u l -> 0 <= a u) -> (forall u, In u l -> 0 < p u) ->
  0 < sumR (map a l) -> 0 < sumR (map (fun u => p u * a u) l).
Proof.
  induction l as [|u t IH]; intros Ha Hp S; simpl in *; [lra|].
  pose proof (Ha u (or_introl eq_refl)) as A0. pose proof (Hp u (or_introl eq_refl)) as P0.
  assert (N : 0 <= sumR (map (fun v => p v * a v) t)).
  { apply sumR_nonneg. intros y Hy. apply in_map_iff in Hy. destruct Hy as (v & <- & Hv).
    apply Rmult_le_pos; [left; apply Hp; right; exact Hv|apply Ha; right; exact Hv]. }
  destruct (Rle_lt_dec (a u) 0) as [Z|Pa].
  - assert (E : a u = 0) by lra. rewrite E in *.
    assert (0 < sumR (map (fun v => p v * a v) t)).
    { apply IH; [intros; apply Ha; right; auto|intros; apply Hp; right; auto|lra]. }
    lra.
  - assert (0 < p u * a u) by (apply Rmult_lt_0_compat; assumption). lra.
Qed.

Lemma bigsum_weighted_pos G a p : (forall n, (n < G)%nat -> 0 <= a n) -> (forall n, (n < G)%nat -> 0 < p n) ->
  0 < bigsum G a -> 0 < bigsum G (fun n => p n * a n).
Proof.
  intros Ha Hp S. unfold bigsum. apply sumR_weighted_pos; auto.
  - intros n Hn. apply in_seq in Hn. apply Ha. lia.
  - intros n Hn. apply in_seq in Hn. apply Hp. lia.
Qed.

(* a sum of non-negative terms that vanishes has only zero terms *)
Lemma sumR_zero_inv {B} (l : list B) (a : B -> R) :
  (forall u, In u l -> 0 <= a u) -> sumR (map a l) = 0 -> forall u, In u l -> a u = 0.
Proof.
  induction l as [|u t IH]; intros Ha S v Hv; simpl in *; [contradiction|].
  pose proof (Ha u (or_introl eq_refl)) as A0.
  assert (N : 0 <= sumR (map a t)).
  { apply sumR_nonneg. intros y Hy. apply in_map_iff in Hy. destruct Hy as (w & <- & Hw). apply Ha. right. exact Hw. }
  destruct Hv as [<-|Hv]; [lra|].
  apply IH; auto. lra.
Qed.

(* ---------- derivative of a finite sum ---------- *)
Lemma is_derive_sumR {B} (l : list B) (f : B -> R -> R) (d : B -> R) x :
  (forall u, In u l -> is_derive (f u) x (d u)) ->
  is_derive (fun h => sumR (map (fun u => f u h) l)) x (sumR (map d l)).
Proof.
  induction l as [|u t IH]; intros H; simpl.
  - auto_derive; [exact I|reflexivity].
  - apply (@is_derive_plus R_AbsRing R_NormedModule (f u) (fun h => sumR (map (fun v => f v h) t)) x).
    + apply H. left. reflexivity.
    + apply IH. intros v Hv. apply H. right. exact Hv.
Qed.

Lemma is_derive_bigsum G (f : nat -> R -> R) (d : nat -> R) x :
  (forall n, (n < G)%nat -> is_derive (f n) x (d n)) ->
  is_derive (fun h => bigsum G (fun n => f n h)) x (bigsum G d).
Proof.
  intros H. unfold bigsum. apply is_derive_sumR. intros n Hn. apply in_seq in Hn. apply H. lia.
Qed.

(* scalar pieces, with unknown functions handed to auto_derive as opaque *)
Lemma term_derive_scalar (p a b s s' T T' : R) : T <> 0 -> s <> 0 ->
  is_derive (fun h => - (p / ((s + h * s') / (T + h * T'))) * ((a + h * b) / (T + h * T'))) 0
            (- (p * (b * s - a * s') / (s * s))).
Proof.
  intros HT Hs.
  assert (E0 : T + 0 * T' = T) by ring. assert (E1 : s + 0 * s' = s) by ring.
  auto_derive.
  - rewrite E0, E1. repeat split; auto. unfold Rdiv. apply Rmult_integral_contrapositive_currified; auto.
    apply Rinv_neq_0_compat; auto.
  - rewrite ?E0, ?E1. field. split; auto.
Qed.

Lemma lnratio_derive (qk c0 c1 t0 t1 : R) (B : R -> R) (dB : R) : 0 < c0 -> 0 < t0 -> is_derive B 0 dB ->
  is_derive (fun h => qk * (1 - ln ((c0 + h * c1) / (t0 + h * t1)) + B h)) 0 (qk * (- (c1 / c0 - t1 / t0) + dB)).
Proof.
  intros Hc Ht HB.
  assert (E0 : t0 + 0 * t1 = t0) by ring. assert (E1 : c0 + 0 * c1 = c0) by ring.
  auto_derive.
  - rewrite ?E0, ?E1. split; [lra|]. split; [apply Rmult_lt_0_compat; [lra|apply Rinv_0_lt_compat; lra]|].
    split; [exists dB; exact HB|exact I].
  - replace (Derive (fun x : R => B x) 0) with dB by (symmetry; apply is_derive_unique; exact HB).
    rewrite ?E0, ?E1. field. split; lra.
Qed.

Lemma shifted_derive (F : R -> R) (dF C v : R) : is_derive F 0 dF ->
  is_derive (fun h => (F h - C) * v) 0 (dF * v).
Proof.
  intros HF. auto_derive.
  - exists dF. exact HF.
  - replace (Derive (fun x : R => F x) 0) with dF by (symmetry; apply is_derive_unique; exact HF). ring.
Qed.

(* ================= ln Gamma_k along the line W + h D of group amounts ================= *)
Section Line.
Variables (G : nat) (Qs : list R) (psis : list (list R)) (W : list R).

Definition lam (V : list R) (n : nat) : R := nth n Qs 0 * nth n V 0.      (* Q_n V_n *)
Definition tau (v : nat -> R) : R := bigsum G v.
Definition sig (v : nat -> R) (m : nat) : R := bigsum G (fun n => ent psis m n * v n).

Section Direction.
Variable Dv : list R.
Let la := lam W.
Let lb := lam Dv.

Definition lterm (m k : nat) (h : R) : R :=
  - (ent psis m k / ((sig la m + h * sig lb m) / (tau la + h * tau lb))) * ((la m + h * lb m) / (tau la + h * tau lb)).
Definition Lline (k : nat) (h : R) : R :=
  nth k Qs 0 * (1 - ln ((sig la k + h * sig lb k) / (tau la + h * tau lb)) + bigsum G (fun m => lterm m k h)).
Definition dterm (m k : nat) : R := - (ent psis m k * (lb m * sig la m - la m * sig lb m) / (sig la m * sig la m)).
Definition dLline (k : nat) : R :=
  nth k Qs 0 * (- (sig lb k / sig la k - tau lb / tau la) + bigsum G (fun m => dterm m k)).

(* the translated ln Gamma_k (index form LGI of ProofsIdx) on any array that is W + h D entrywise: no side condition *)
Lemma LGI_line (Wh : list R) (h : R) :
  (forall n, (n < G)%nat -> nth n Wh 0 = nth n W 0 + h * nth n Dv 0) ->
  forall k, LGI G Qs psis Wh k = Lline k h.
Proof.
  intros HW k.
  assert (ET : bigsum G (fun j => nth j Qs 0 * nth j Wh 0) = tau la + h * tau lb).
  { unfold tau. rewrite <- bigsum_lin. apply bigsum_ext. intros n Hn. rewrite (HW n Hn).
    unfold la, lb, lam. ring. }
  assert (EQ : forall n, (n < G)%nat -> QfI G Qs Wh n = (la n + h * lb n) / (tau la + h * tau lb)).
  { intros n Hn. unfold QfI. rewrite ET, (HW n Hn). unfold la, lb, lam, Rdiv. ring. }
  assert (ES : forall m, S1I G Qs psis Wh m = (sig la m + h * sig lb m) / (tau la + h * tau lb)).
  { intros m. unfold S1I, sig.
    rewrite (bigsum_ext G _ (fun n => (ent psis m n * la n + h * (ent psis m n * lb n)) * / (tau la + h * tau lb))).
    - rewrite bigsum_scal_r, bigsum_lin. reflexivity.
    - intros n Hn. rewrite (EQ n Hn). unfold Rdiv. ring. }
  unfold LGI, Lline. rewrite ES. f_equal. f_equal. apply bigsum_ext. intros m Hm.
  unfold lterm. rewrite ES, (EQ m Hm). reflexivity.
Qed.

Hypothesis Tpos : 0 < tau la.
Hypothesis Spos : forall m, (m < G)%nat -> 0 < sig la m.

Lemma Lline_derive k : (k < G)%nat -> is_derive (Lline k) 0 (dLline k).
Proof.
  intros Hk. unfold Lline, dLline.
  apply (lnratio_derive (nth k Qs 0) (sig la k) (sig lb k) (tau la) (tau lb)
           (fun h => bigsum G (fun m => lterm m k h)) (bigsum G (fun m => dterm m k))).
  - apply Spos. exact Hk.
  - exact Tpos.
  - apply is_derive_bigsum. intros m Hm. unfold lterm, dterm.
    apply term_derive_scalar; [lra|]. pose proof (Spos m Hm). lra.
Qed.

(* sum_k p_k dLline_k in the form that is symmetric in (p, Q D) *)
Definition Sym (p r : nat -> R) : R :=
  - bigsum G (fun k => p k * sig r k / sig la k) - bigsum G (fun k => r k * sig p k / sig la k)
  + tau p * tau r / tau la
  + bigsum G (fun m => la m * sig p m * sig r m / (sig la m * sig la m)).

Lemma Sym_sym p r : Sym p r = Sym r p.
Proof.
  unfold Sym.
  rewrite (bigsum_ext G (fun m => la m * sig p m * sig r m / (sig la m * sig la m))
                        (fun m => la m * sig r m * sig p m / (sig la m * sig la m))) by (intros; unfold Rdiv; ring).
  unfold Rdiv. ring.
Qed.

Lemma dL_Sym (p : nat -> R) :
  bigsum G (fun k => p k * (- (sig lb k / sig la k - tau lb / tau la) + bigsum G (fun m => dterm m k))) = Sym p lb.
Proof.
  rewrite (bigsum_ext G _ (fun k => (- (p k * sig lb k / sig la k) + (tau lb / tau la) * p k)
                                     + bigsum G (fun m => p k * dterm m k))).
  2:{ intros k Hk. rewrite bigsum_scal. unfold Rdiv. ring. }
  rewrite bigsum_plus, bigsum_plus, bigsum_scal.
  rewrite bigsum_swap.
  rewrite (bigsum_ext G (fun m => bigsum G (fun k => p k * dterm m k))
             (fun m => - (lb m * sig p m / sig la m) + la m * sig p m * sig lb m / (sig la m * sig la m))).
  2:{ intros m Hm. unfold dterm.
      rewrite (bigsum_ext G _ (fun k => (- ((lb m * sig la m - la m * sig lb m) / (sig la m * sig la m))) * (ent psis m k * p k)))
        by (intros; unfold Rdiv; ring).
      rewrite bigsum_scal. fold (sig p m). pose proof (Spos m Hm). field. lra. }
  rewrite bigsum_plus.
  rewrite (bigsum_ext G (fun k => - (p k * sig lb k / sig la k)) (fun k => -1 * (p k * sig lb k / sig la k))) by (intros; ring).
  rewrite (bigsum_ext G (fun m => - (lb m * sig p m / sig la m)) (fun m => -1 * (lb m * sig p m / sig la m))) by (intros; ring).
  rewrite !bigsum_scal. unfold Sym. fold (tau p). unfold Rdiv. ring.
Qed.

(* Gibbs-Duhem in group space: the W-weighted sum of the derivatives vanishes, for every direction *)
Lemma Sym_la_zero (r : nat -> R) : Sym la r = 0.
Proof.
  unfold Sym.
  rewrite (bigsum_ext G (fun m => la m * sig la m * sig r m / (sig la m * sig la m)) (fun m => la m * sig r m / sig la m)).
  2:{ intros m Hm. pose proof (Spos m Hm). field. lra. }
  rewrite (bigsum_ext G (fun k => r k * sig la k / sig la k) r).
  2:{ intros m Hm. pose proof (Spos m Hm). field. lra. }
  change (bigsum G r) with (tau r).
  generalize (bigsum G (fun k => la k * sig r k / sig la k)). intros X.
  generalize Tpos. generalize (tau la) (tau r). intros t0 t1 Ht. field. lra.
Qed.
End Direction.
End Line.
