(* C16 — the gather / evaluate / scatter wrapper shared by gamma_UNIFAC and
   gamma_modified_UNIFAC (thermosteam/equilibrium/activity_coefficients.py:131-181), with the
   arrays the caller can see (x, group_psis) threaded through explicitly.  The places where
   the two functions (or two versions of them) differ are parameters; tr/C16_kernels.py
   reads them off the source and instantiates this definition in Gen_wrappers.v.
   Executable definitions only. *)
From V Require Export C16.Ops.

(* `for i, j in enumerate(index): x_sub[i] = x[j]`  or  `... x[j] = x_sub[i]` *)
Inductive gdir := GatherIntoSub | WriteIntoX.
(* the loop `for i, j in enumerate(index): gamma[j] = gamma_sub[i]` stands under `if xsum`
   or after it (then gamma_sub is unbound when xsum == 0) *)
Inductive scatterpos := ScatterInside | ScatterAfter.

Definition enum {B} (l : list B) : list (nat * B) := combine (seq 0 (length l)) l.

Section Wrapper.
Context {A I : Type} (K : KOps A).

Definition kzero : A := kq K 0.
Definition kone : A := kq K 1.
Definition ones (n : nat) : list A := repeat kone n.

(* what the caller can observe after the call *)
Record wout := mkW { w_gamma : list A; w_x : list A; w_gpsis : list (list A) }.

(* fill_group_psis(group_psis, psis, group_mask): every cell of the buffer is overwritten *)
Definition fill_group_psis (psis : list (list A)) (mask : list (list bool)) : list (list A) :=
  map2 (map2 (fun p (m : bool) => if m then p else kzero)) psis mask.

Definition gather_step (d : gdir) (st : list A * list A) (ij : nat * nat) : list A * list A :=
  let '(x, xs) := st in
  let '(i, j) := ij in
  match d with
  | GatherIntoSub => (x, upd xs i (nth j x kzero))
  | WriteIntoX => (upd x j (nth i xs kzero), xs)
  end.
Definition gather_loop (d : gdir) (index : list nat) (x x_sub : list A) : list A * list A :=
  fold_left (gather_step d) (enum index) (x, x_sub).

Definition scatter_step (gamma_sub : list A) (g : list A) (ij : nat * nat) : list A :=
  upd g (snd ij) (nth (fst ij) gamma_sub kzero).
Definition scatter (index : list nat) (gamma_sub gamma : list A) : list A :=
  fold_left (scatter_step gamma_sub) (enum index) gamma.

Definition wrapper (d : gdir) (sp : scatterpos)
    (psi : A -> I -> list (list A))
    (lgc : list A -> list A -> list A -> list A)
    (gac : list A -> list (list A) -> list A -> list A -> list (list A) -> list (list A) ->
           list (list A) -> list A)
    (x : list A) (T : A) (inter : I) (gpsis : list (list A)) (mask : list (list bool))
    (qs rs Qs : list A) (chemgroups cQfs : list (list A)) (index : list nat) : res wout :=
  let n := length index in
  let gamma := ones (length x) in
  if (1 <? n)%nat then
    let '(x1, x_sub1) := gather_loop d index x (ones n) in
    let xsum := ksum K x_sub1 in
    if negb (keqb K xsum kzero) then
      let x_sub2 := bc_10 (kdiv K) x_sub1 xsum in
      let psis := psi T inter in
      let gpsis' := fill_group_psis psis mask in
      let gamma_sub := gac x_sub2 chemgroups (lgc qs rs x_sub2) Qs psis cQfs gpsis' in
      Ok (mkW (scatter index gamma_sub gamma) x1 gpsis')
    else
      match sp with
      | ScatterInside => Ok (mkW gamma x1 gpsis)
      | ScatterAfter => Err ERuntime      (* UnboundLocalError: gamma_sub *)
      end
  else Ok (mkW gamma x gpsis).

(* ---- GroupActivityCoefficients.activity_coefficients(x, T) (lines 305-323): the "object form" on the
        sub-system with groups, without gather / scatter ----
     psis = self.psi(T, self._interactions.copy())          (or without .copy(): hole)
     self._group_psis[self._group_mask] = psis[self._group_mask]
     return group_activity_coefficients(x, self._chemgroups, self.loggammacs(self._qs, self._rs, x),
                                        self._Qs, psis, self._chem_Qfractions, self._group_psis)        *)
Inductive intercopy := InterCopied | InterShared.

Fixpoint map3 {X Y Z W} (f : X -> Y -> Z -> W) (a : list X) (b : list Y) (c : list Z) : list W :=
  match a, b, c with
  | x :: a', y :: b', z :: c' => f x y z :: map3 f a' b' c'
  | _, _, _ => []
  end.
(* boolean-mask assignment: masked cells are overwritten, the others keep what the buffer held *)
Definition masked_update (buffer psis : list (list A)) (mask : list (list bool)) : list (list A) :=
  map3 (map3 (fun b p (m : bool) => if m then p else b)) buffer psis mask.

(* result, the _group_psis buffer afterwards, the _interactions table afterwards.  psi_effect is what the psi
   kernel leaves in the array it is given (psi_modified_UNIFAC rescales it in place) *)
Definition act_method (ic : intercopy) (psi : A -> I -> list (list A)) (psi_effect : A -> I -> I)
    (lgc : list A -> list A -> list A -> list A)
    (gac : list A -> list (list A) -> list A -> list A -> list (list A) -> list (list A) ->
           list (list A) -> list A)
    (x : list A) (T : A) (inter : I) (gpsis : list (list A)) (mask : list (list bool))
    (qs rs Qs : list A) (chemgroups cQfs : list (list A)) : list A * list (list A) * I :=
  let psis := psi T inter in
  let inter' := match ic with InterCopied => inter | InterShared => psi_effect T inter end in
  let gp := masked_update gpsis psis mask in
  (gac x chemgroups (lgc qs rs x) Qs psis cQfs gp, gp, inter').

End Wrapper.
Arguments mkW {A}. Arguments w_gamma {A}. Arguments w_x {A}. Arguments w_gpsis {A}.
