(* C16 — executable analytic Jacobian of the residual exponent: J[i][j] = d ln(gamma_i^R) / d x_j of the translated
   group kernel, written with the array vocabulary of Ops.v over any carrier.  Only + - * / are used (the derivative of
   1 - ln(S_k) - sum_m ... contains no logarithm), so over option Q it is exact.  Definitions only; ProofsJac.v proves
   that at the real carrier it IS that derivative, and that it is symmetric (excess-Gibbs potential). *)
From V Require Export C16.Ops C16.Model.

Section Jac.
Context {A : Type} (K : KOps A).

(* Hessian of the potential applied to the group-amount directions p = Q nu_i, r = Q nu_j;
   la = Q W, s = psis @ la, T = la.sum(); sp = psis @ p, tp = p.sum() (same for r) *)
Definition sym_entry (la s : list A) (T : A) (p sp : list A) (tp : A) (r sr : list A) (tr : A) : A :=
  kadd K (kadd K (ksub K (kneg K (vdot K p (bc_11 (kdiv K) sr s))) (vdot K r (bc_11 (kdiv K) sp s)))
                 (kdiv K (kmul K tp tr) T))
         (vdot K la (bc_11 (kdiv K) (bc_11 (kmul K) sp sr) (bc_11 (kmul K) s s))).

Definition jac_row (Qs : list A) (psis : list (list A)) (nu : list A) : list A * list A * A :=
  let p := bc_11 (kmul K) Qs nu in (p, matvec K psis p, ksum K p).

Definition resid_jac (x : list A) (chemgroups : list (list A)) (Qs : list A) (psis : list (list A)) : list (list A) :=
  let W := matvec K (transpose chemgroups) x in
  let la := bc_11 (kmul K) Qs W in
  let T := ksum K la in
  let s := matvec K psis la in
  let rows := map (jac_row Qs psis) chemgroups in
  map (fun a => map (fun b => sym_entry la s T (fst (fst a)) (snd (fst a)) (snd a) (fst (fst b)) (snd (fst b)) (snd b)) rows) rows.
End Jac.

(* ---- correspondence: the model's Jacobian against the derivative MEASURED on the implementation (central differences
   with one Richardson step on ln of thermosteam's group_activity_coefficients), entry by entry; plus, exactly in Q, the two
   consequences the theorems state: J is symmetric and x^T J = 0 (Gibbs-Duhem of the residual part) ---- *)
Definition jac_close (tol : Q) (m : option Q) (v : Q) : bool :=
  match m with Some u => Qle_bool (Qabs (u - v)) (tol * (1 + Qabs u)) | None => false end.
Definition ojac (x : vec) (chemgroups : list vec) (Qs : vec) (psis : list vec) : list (list (option Q)) :=
  resid_jac (KS []) (some_vec x) (some_mat chemgroups) (some_vec Qs) (some_mat psis).
Definition oq_eqo (a b : option Q) : bool :=
  match a, b with Some u, Some v => qeqb u v | _, _ => false end.
Definition chk_resid_jac (x : vec) (chemgroups : list vec) (Qs : vec) (psis : list vec) (J : list vec) (tol : Q) : bool :=
  let Jm := ojac x chemgroups Qs psis in
  list_eqb2 (list_eqb2 (jac_close tol)) Jm J &&
  list_eqb2 (list_eqb2 oq_eqo) Jm (transpose Jm) &&
  forallb (fun col => oq_eqb (vdot (KS []) (some_vec x) col) 0) (transpose Jm).
