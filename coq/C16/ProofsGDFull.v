(* C16 — Gibbs-Duhem for the WHOLE coefficient (combinatorial x residual) of the sub-system with groups, n chemicals,
   along e_a - e_b: the combinatorial part (ProofsGD.v) plus the residual part (ProofsResidN.v). *)
From V Require Import Common.NumFacts C16.Model C16.Proofs C16.ProofsR C16.ProofsIdx C16.GibbsDuhem C16.ProofsGD C16.ResidN C16.ProofsResidN.
From Coq Require Import Reals Lia List Lra.
From Coquelicot Require Import Coquelicot.
Import ListNotations.
Local Open Scope R_scope.

Definition dxab (a b i : nat) : R := (if Nat.eqb i a then 1 else 0) - (if Nat.eqb i b then 1 else 0).

Lemma shift_is_pert cs a b h : shift_x cs a b h = pert cs (fun i => h * dxab a b i).
Proof.
  unfold shift_x, pert. apply map_ext. intros [j c]. cbn [fst snd]. f_equal. f_equal.
  unfold bump, dxab. destruct (Nat.eqb j a), (Nat.eqb j b); ring.
Qed.

Section Full.
Variables (G : nat) (Qs : list R) (psis gpsis : list (list R)) (cs : list chem) (a b : nat).
Hypothesis HG : (0 < G)%nat.
Hypothesis LQs : length Qs = G.
Hypothesis Rpsis : rectangular psis G G.
Hypothesis Rgpsis : rectangular gpsis G G.
Hypothesis Ha : (a < length cs)%nat.
Hypothesis Hb : (b < length cs)%nat.
Hypothesis Shape : forall c, In c cs -> 0 < cx c /\ length (cg c) = G /\ length (cQ c) = G /\ (forall k, 0 <= nth k (cg c) 0).
Hypothesis Pos : forall c, In c cs -> 0 < cx c /\ 0 < cr c /\ 0 < cq c.
Hypothesis Qpos : forall k, (k < G)%nat -> 0 < nth k Qs 0.
Hypothesis Ppos : forall m n, (m < G)%nat -> (n < G)%nat -> 0 < ent psis m n.
Hypothesis Ex : exists c k, In c cs /\ (k < G)%nat /\ 0 < nth k (cg c) 0.
Hypothesis Sum1 : sum_over cs cx = 1.

Lemma NEcs : cs <> [].
Proof. intros E. rewrite E in Ha. simpl in Ha. lia. Qed.

Lemma Shape0 : forall c, In c cs -> 0 <= cx c /\ length (cg c) = G /\ length (cQ c) = G /\ (forall k, 0 <= nth k (cg c) 0).
Proof. intros c Hc. destruct (Shape c Hc) as (X & A & B & C). repeat split; auto. lra. Qed.

Lemma Ex0 : exists c k, In c cs /\ (k < G)%nat /\ 0 < cx c /\ 0 < nth k (cg c) 0.
Proof. destruct Ex as (c & k & Hc & Hk & Pk). exists c, k. destruct (Shape c Hc) as (X & _). repeat split; auto. Qed.

Lemma resid_shift_derivable c : In c cs ->
  ex_derive (fun h => resid_of Qs psis gpsis (wc_of (shift_x cs a b h)) c) 0.
Proof.
  intros Hc. eexists.
  apply (is_derive_ext (fun h => resid_of Qs psis gpsis (wc_of (pert cs (fun i => h * dxab a b i))) c)).
  - intros h. rewrite shift_is_pert. reflexivity.
  - apply (resid_derive_direction G Qs psis gpsis cs LQs Rpsis Rgpsis NEcs Shape0 Qpos Ppos HG (dxab a b) c Hc).
    apply (tau_pos_of_group G Qs cs NEcs Shape0 Qpos Ex0).
Qed.

Lemma gd_resid_shift :
  sum_over cs (fun c => cx c * Derive (fun h => resid_of Qs psis gpsis (wc_of (shift_x cs a b h)) c) 0) = 0.
Proof.
  rewrite (sum_over_ext cs _ (fun c => cx c * Derive (fun h => resid_of Qs psis gpsis (wc_of (pert cs (fun i => h * dxab a b i))) c) 0)).
  2:{ intros c _. f_equal. apply Derive_ext. intros h. rewrite shift_is_pert. reflexivity. }
  apply (gibbs_duhem_resid_direction G Qs psis gpsis cs LQs Rpsis Rgpsis NEcs Shape0 Qpos Ppos HG (dxab a b)).
  apply (tau_pos_of_group G Qs cs NEcs Shape0 Qpos Ex0).
Qed.

(* a combinatorial term Cn that is derivable and satisfies Gibbs-Duhem, plus the residual term *)
Lemma gd_sum (Cn : nat -> R -> R) :
  (forall i, (i < length cs)%nat -> ex_derive (Cn i) 0) ->
  sum_over (enum cs) (fun ic => cx (snd ic) * Derive (Cn (fst ic)) 0) = 0 ->
  sum_over (enum cs) (fun ic => cx (snd ic) *
     Derive (fun h => Cn (fst ic) h + resid_of Qs psis gpsis (wc_of (shift_x cs a b h)) (snd ic)) 0) = 0.
Proof.
  intros DC GC.
  rewrite (sum_over_ext (enum cs) _ (fun ic => cx (snd ic) * Derive (Cn (fst ic)) 0 +
             cx (snd ic) * Derive (fun h => resid_of Qs psis gpsis (wc_of (shift_x cs a b h)) (snd ic)) 0)).
  2:{ intros [i c] Hin. destruct (in_enum_nth cs i c Hin) as [Hi Ec]. cbn [fst snd].
      rewrite Derive_plus; [ring|apply DC; exact Hi|apply resid_shift_derivable]. subst c. apply nth_In. exact Hi. }
  pose proof (sum_over_enum_snd cs (fun c => cx c * Derive (fun h => resid_of Qs psis gpsis (wc_of (shift_x cs a b h)) c) 0)) as E2.
  cbv beta in E2. rewrite gd_resid_shift in E2.
  unfold sum_over in E2, GC |- *. rewrite sumR_plus. rewrite E2, GC. ring.
Qed.

Lemma sums_pos : 0 < rho cs /\ 0 < theta cs /\ 0 < rho34 cs.
Proof.
  pose proof NEcs as NE. repeat split.
  - apply sum_over_pos; auto. intros c Hc. destruct (Pos c Hc) as (A1 & A2 & A3). apply Rmult_lt_0_compat; lra.
  - apply sum_over_pos; auto. intros c Hc. destruct (Pos c Hc) as (A1 & A2 & A3). apply Rmult_lt_0_compat; lra.
  - apply sum_over_pos; auto. intros c Hc. destruct (Pos c Hc) as (A1 & A2 & A3).
    apply Rmult_lt_0_compat; [apply Rpow34_pos|lra].
Qed.

(* ln gamma_i of the whole coefficient = translated combinatorial kernel + residual exponent *)
Lemma ln_gamma_modified_shift h i : (i < length cs)%nat ->
  ln (nth i (gamma_sub_modified Qs psis gpsis (shift_x cs a b h)) 0) =
  nth i (loggammacs_modified_UNIFAC KR (map cq cs) (map cr cs) (map cx (shift_x cs a b h))) 0 +
  resid_of Qs psis gpsis (wc_of (shift_x cs a b h)) (nth i cs chem0).
Proof.
  intros Hi. rewrite gamma_sub_modified_map.
  rewrite (nth_map_in _ (shift_x cs a b h) i chem0) by (rewrite shift_length; exact Hi).
  rewrite ln_exp. destruct (shift_fields cs a b h) as [Eq Er]. rewrite <- Eq, <- Er.
  rewrite loggammacs_modified_UNIFAC_map.
  rewrite (nth_map_in _ (shift_x cs a b h) i chem0) by (rewrite shift_length; exact Hi).
  f_equal. rewrite (nth_shift cs a b h i Hi). reflexivity.
Qed.

Lemma ln_gamma_UNIFAC_shift h i : (i < length cs)%nat ->
  ln (nth i (gamma_sub_UNIFAC Qs psis gpsis (shift_x cs a b h)) 0) =
  nth i (loggammacs_UNIFAC KR (map cq cs) (map cr cs) (map cx (shift_x cs a b h))) 0 +
  resid_of Qs psis gpsis (wc_of (shift_x cs a b h)) (nth i cs chem0).
Proof.
  intros Hi. rewrite gamma_sub_UNIFAC_map.
  rewrite (nth_map_in _ (shift_x cs a b h) i chem0) by (rewrite shift_length; exact Hi).
  rewrite ln_exp. destruct (shift_fields cs a b h) as [Eq Er]. rewrite <- Eq, <- Er.
  rewrite loggammacs_UNIFAC_map.
  rewrite (nth_map_in _ (shift_x cs a b h) i chem0) by (rewrite shift_length; exact Hi).
  f_equal. rewrite (nth_shift cs a b h i Hi). reflexivity.
Qed.

Theorem gibbs_duhem_full :
  sum_over (enum cs) (fun ic =>
     cx (snd ic) * Derive (fun h => ln (nth (fst ic) (gamma_sub_modified Qs psis gpsis (shift_x cs a b h)) 0)) 0) = 0 /\
  sum_over (enum cs) (fun ic =>
     cx (snd ic) * Derive (fun h => ln (nth (fst ic) (gamma_sub_UNIFAC Qs psis gpsis (shift_x cs a b h)) 0)) 0) = 0.
Proof.
  destruct sums_pos as (Prho & Pth & P34).
  destruct (gibbs_duhem_comb_n cs a b Ha Hb Pos Sum1) as [GCm GCu].
  split.
  - rewrite (sum_over_ext (enum cs) _ (fun ic => cx (snd ic) *
       Derive (fun h => (fun i h0 => nth i (loggammacs_modified_UNIFAC KR (map cq cs) (map cr cs) (map cx (shift_x cs a b h0))) 0) (fst ic) h
                        + resid_of Qs psis gpsis (wc_of (shift_x cs a b h)) (snd ic)) 0)).
    2:{ intros [i c] Hin. destruct (in_enum_nth cs i c Hin) as [Hi Ec]. cbn [fst snd]. f_equal.
        apply Derive_ext. intros h. rewrite (ln_gamma_modified_shift h i Hi). subst c. reflexivity. }
    apply (gd_sum (fun i h0 => nth i (loggammacs_modified_UNIFAC KR (map cq cs) (map cr cs) (map cx (shift_x cs a b h0))) 0)).
    + intros i Hi. eexists.
      apply (is_derive_ext (fun h => gdir (Rpow34 (cr (nth i cs chem0))) (cr (nth i cs chem0)) (cq (nth i cs chem0))
               (rho34 cs) (Rpow34 (cr (nth a cs chem0)) - Rpow34 (cr (nth b cs chem0)))
               (rho cs) (cr (nth a cs chem0) - cr (nth b cs chem0))
               (theta cs) (cq (nth a cs chem0) - cq (nth b cs chem0)) h)).
      * intros h. symmetry. apply (comb_modified_along cs a b h i Ha Hb Hi).
      * destruct (Pos (nth i cs chem0) (nth_In cs chem0 Hi)) as (A1 & A2 & A3).
        apply gdir_derive; auto. apply Rpow34_pos.
    + exact GCm.
  - rewrite (sum_over_ext (enum cs) _ (fun ic => cx (snd ic) *
       Derive (fun h => (fun i h0 => nth i (loggammacs_UNIFAC KR (map cq cs) (map cr cs) (map cx (shift_x cs a b h0))) 0) (fst ic) h
                        + resid_of Qs psis gpsis (wc_of (shift_x cs a b h)) (snd ic)) 0)).
    2:{ intros [i c] Hin. destruct (in_enum_nth cs i c Hin) as [Hi Ec]. cbn [fst snd]. f_equal.
        apply Derive_ext. intros h. rewrite (ln_gamma_UNIFAC_shift h i Hi). subst c. reflexivity. }
    apply (gd_sum (fun i h0 => nth i (loggammacs_UNIFAC KR (map cq cs) (map cr cs) (map cx (shift_x cs a b h0))) 0)).
    + intros i Hi. eexists.
      apply (is_derive_ext (fun h => gdir (cr (nth i cs chem0)) (cr (nth i cs chem0)) (cq (nth i cs chem0))
               (rho cs) (cr (nth a cs chem0) - cr (nth b cs chem0))
               (rho cs) (cr (nth a cs chem0) - cr (nth b cs chem0))
               (theta cs) (cq (nth a cs chem0) - cq (nth b cs chem0)) h)).
      * intros h. symmetry. apply (comb_UNIFAC_along cs a b h i Ha Hb Hi).
      * destruct (Pos (nth i cs chem0) (nth_In cs chem0 Hi)) as (A1 & A2 & A3).
        apply gdir_derive; auto.
    + exact GCu.
Qed.
End Full.
