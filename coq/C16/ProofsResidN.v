(* C16 — residual (group) part of the translated kernel, n chemicals with any number of groups each:
   derivative of ln gamma_i^R along any direction of the composition, its symmetric form (cross-derivative
   symmetry = existence of the excess-Gibbs potential) and the Gibbs-Duhem relation. *)
From V Require Import Common.NumFacts C16.Model C16.Proofs C16.ProofsR C16.ProofsIdx C16.GibbsDuhem C16.ProofsGD C16.ResidN.
From Coq Require Import Reals Lia List Lra.
From Coquelicot Require Import Coquelicot.
Import ListNotations.
Local Open Scope R_scope.

(* the composition moved by d(i) in entry i *)
Definition pert (cs : list chem) (d : nat -> R) : list chem :=
  map (fun jc => set_cx (snd jc) (cx (snd jc) + d (fst jc))) (enum cs).
(* x + h e_j (the perturbation of the cross-symmetry statement) *)
Definition bump_x (cs : list chem) (j : nat) (h : R) : list chem :=
  map (fun jc => set_cx (snd jc) (cx (snd jc) + (if Nat.eqb (fst jc) j then h else 0))%R) (enum cs).

Lemma pert_length cs d : length (pert cs d) = length cs.
Proof. unfold pert. rewrite map_length. apply enum_length. Qed.

Lemma pert_in cs d c' : In c' (pert cs d) -> exists c, In c cs /\ cg c' = cg c /\ cQ c' = cQ c.
Proof.
  unfold pert. intros H. apply in_map_iff in H. destruct H as ([j c] & <- & Hin).
  exists c. split; [eapply in_enum_snd; exact Hin|]. split; reflexivity.
Qed.

Lemma pert_sum (w : chem -> R) cs d : (forall c x, w (set_cx c x) = w c) ->
  sum_over (pert cs d) (fun c => cx c * w c) =
  sum_over cs (fun c => cx c * w c) + sum_over (enum cs) (fun jc => d (fst jc) * w (snd jc)).
Proof.
  intros Hw. unfold sum_over, pert. rewrite map_map. cbn [set_cx cx].
  rewrite (sumR_map_ext_in _ _ (fun jc => cx (snd jc) * w (snd jc) + d (fst jc) * w (snd jc))).
  2:{ intros [j c] _. cbn [fst snd]. rewrite Hw. ring. }
  rewrite sumR_plus. f_equal.
  rewrite <- (map_map snd (fun c => cx c * w c)). unfold enum.
  rewrite map_snd_combine by (rewrite seq_length; reflexivity). reflexivity.
Qed.

Lemma nth_repeat0 G n : nth n (repeat 0 G) 0 = 0.
Proof. revert n; induction G as [|G IH]; intros [|n]; simpl; auto. Qed.

Lemma nth_axpy_sum G cs n : (forall c, In c cs -> length (cg c) = G) -> (n < G)%nat ->
  nth n (axpy_sum G cs) 0 = sum_over cs (fun c => cx c * nth n (cg c) 0).
Proof.
  induction cs as [|c t IH]; intros Rect Hn.
  - simpl. apply nth_repeat0.
  - cbn [axpy_sum fold_right]. fold (axpy_sum G t). unfold vaddR.
    assert (Lc : length (cg c) = G) by (apply Rect; left; reflexivity).
    rewrite (nth_map2_in Rplus (axpy c) (axpy_sum G t) n 0 0 0).
    + rewrite IH by (auto; intros; apply Rect; right; auto).
      unfold axpy. rewrite (nth_map_in (fun g => g * cx c) (cg c) n 0 0) by lia.
      unfold sum_over. simpl. ring.
    + unfold axpy. rewrite map_length. lia.
    + rewrite axpy_sum_length by (intros; apply Rect; right; auto). exact Hn.
Qed.

Lemma nth_wc G cs n : cs <> [] -> (forall c, In c cs -> length (cg c) = G) -> (n < G)%nat ->
  nth n (wc_of cs) 0 = sum_over cs (fun c => cx c * nth n (cg c) 0).
Proof. intros NE Rect Hn. rewrite (wc_axpy G cs NE Rect). apply nth_axpy_sum; assumption. Qed.

Lemma wc_length G cs : cs <> [] -> (forall c, In c cs -> length (cg c) = G) -> length (wc_of cs) = G.
Proof. intros NE Rect. rewrite (wc_axpy G cs NE Rect). apply axpy_sum_length. exact Rect. Qed.

Lemma pert_nonempty cs d : cs <> [] -> pert cs d <> [].
Proof. intros NE E. apply NE. apply length_zero_iff_nil. rewrite <- (pert_length cs d), E. reflexivity. Qed.

Lemma pert_rect G cs d : (forall c, In c cs -> length (cg c) = G) -> forall c, In c (pert cs d) -> length (cg c) = G.
Proof. intros Rect c' H. destruct (pert_in cs d c' H) as (c & Hc & E & _). rewrite E. apply Rect. exact Hc. Qed.

(* direction of the group amounts for a direction dx of the composition *)
Definition dirv (G : nat) (cs : list chem) (dx : nat -> R) : list R :=
  map (fun n => sum_over (enum cs) (fun jc => dx (fst jc) * nth n (cg (snd jc)) 0)) (seq 0 G).

Lemma nth_dirv G cs dx n : (n < G)%nat ->
  nth n (dirv G cs dx) 0 = sum_over (enum cs) (fun jc => dx (fst jc) * nth n (cg (snd jc)) 0).
Proof.
  intros Hn. unfold dirv.
  rewrite (nth_map_in _ (seq 0 G) n 0%nat) by (rewrite seq_length; exact Hn).
  rewrite seq_nth by exact Hn. reflexivity.
Qed.

Lemma wc_pert_line G cs dx h n : cs <> [] -> (forall c, In c cs -> length (cg c) = G) -> (n < G)%nat ->
  nth n (wc_of (pert cs (fun i => h * dx i))) 0 = nth n (wc_of cs) 0 + h * nth n (dirv G cs dx) 0.
Proof.
  intros NE Rect Hn.
  rewrite (nth_wc G (pert cs _) n (pert_nonempty cs _ NE) (pert_rect G cs _ Rect) Hn).
  rewrite (pert_sum (fun c => nth n (cg c) 0)) by reflexivity.
  rewrite (nth_wc G cs n NE Rect Hn), (nth_dirv G cs dx n Hn).
  f_equal. unfold sum_over. rewrite <- sumR_scal. f_equal. apply map_ext. intros jc. ring.
Qed.

(* x + h e_j moves the group amounts along the group counts of chemical j *)
Lemma wc_bump_line G cs j h n : (j < length cs)%nat -> (forall c, In c cs -> length (cg c) = G) -> (n < G)%nat ->
  nth n (wc_of (bump_x cs j h)) 0 = nth n (wc_of cs) 0 + h * nth n (cg (nth j cs chem0)) 0.
Proof.
  intros Hj Rect Hn.
  assert (NE : cs <> []) by (intros E; subst; simpl in Hj; lia).
  change (bump_x cs j h) with (pert cs (fun i => if Nat.eqb i j then h else 0)).
  rewrite (nth_wc G (pert cs _) n (pert_nonempty cs _ NE) (pert_rect G cs _ Rect) Hn).
  rewrite (pert_sum (fun c => nth n (cg c) 0)) by reflexivity.
  rewrite (nth_wc G cs n NE Rect Hn). f_equal.
  unfold sum_over.
  rewrite (sumR_map_ext_in _ _ (fun jc => h * ((if Nat.eqb (fst jc) j then 1 else 0) * nth n (cg (snd jc)) 0))).
  2:{ intros [i c] _. cbn [fst snd]. destruct (Nat.eqb i j); ring. }
  rewrite sumR_scal. unfold enum. rewrite (pick_sum (fun c => nth n (cg c) 0) cs j 0%nat).
  replace ((0 <=? j)%nat && (j <? 0 + length cs)%nat) with true
    by (symmetry; apply andb_true_iff; split; [apply Nat.leb_le|apply Nat.ltb_lt]; lia).
  rewrite Nat.sub_0_r. reflexivity.
Qed.

(* ---------- derivative of ln gamma^R of one chemical along a line of group amounts ---------- *)
Section ResidLine.
Variables (G : nat) (Qs : list R) (psis gpsis : list (list R)) (W Dv : list R).
Hypothesis HG : (0 < G)%nat.
Hypothesis LQs : length Qs = G.
Hypothesis Rpsis : rectangular psis G G.
Hypothesis Rgpsis : rectangular gpsis G G.
Hypothesis Tpos : 0 < tau G (lam Qs W).
Hypothesis Spos : forall m, (m < G)%nat -> 0 < sig G psis (lam Qs W) m.

Lemma resid_line_derive (Wf : R -> list R) c :
  (forall h, length (Wf h) = G) ->
  (forall h n, (n < G)%nat -> nth n (Wf h) 0 = nth n W 0 + h * nth n Dv 0) ->
  length (cQ c) = G -> length (cg c) = G ->
  is_derive (fun h => resid_of Qs psis gpsis (Wf h) c) 0
            (bigsum G (fun k => dLline G Qs psis W Dv k * nth k (cg c) 0)).
Proof.
  intros LW HW LcQ Lcg.
  apply (is_derive_ext (fun h => bigsum G (fun k => (Lline G Qs psis W Dv k h - CLGI G Qs gpsis (cQ c) k) * nth k (cg c) 0))).
  - intros h. rewrite (resid_index G Qs psis gpsis HG LQs Rpsis Rgpsis (Wf h) c (LW h) LcQ Lcg).
    apply bigsum_ext. intros k Hk. rewrite (LGI_line G Qs psis W Dv (Wf h) h (HW h) k). reflexivity.
  - apply is_derive_bigsum. intros k Hk. apply shifted_derive.
    apply Lline_derive; assumption.
Qed.

(* the same derivative in the form symmetric in (Q nu_c, Q D) *)
Lemma resid_line_Sym c :
  bigsum G (fun k => dLline G Qs psis W Dv k * nth k (cg c) 0) = Sym G Qs psis W (lam Qs (cg c)) (lam Qs Dv).
Proof.
  rewrite <- (dL_Sym G Qs psis W Dv Spos (lam Qs (cg c))).
  apply bigsum_ext. intros k Hk. unfold dLline, lam. ring.
Qed.
End ResidLine.

(* ---------- positivity of the mixture sums from the data ---------- *)
Section Data.
Variables (G : nat) (Qs : list R) (psis gpsis : list (list R)) (cs : list chem).
Hypothesis LQs : length Qs = G.
Hypothesis Rpsis : rectangular psis G G.
Hypothesis Rgpsis : rectangular gpsis G G.
Hypothesis NE : cs <> [].
(* closed simplex: mole fractions may vanish (vertices, edges, trace amounts) *)
Hypothesis Shape : forall c, In c cs -> 0 <= cx c /\ length (cg c) = G /\ length (cQ c) = G /\ (forall k, 0 <= nth k (cg c) 0).
Hypothesis Qpos : forall k, (k < G)%nat -> 0 < nth k Qs 0.
Hypothesis Ppos : forall m n, (m < G)%nat -> (n < G)%nat -> 0 < ent psis m n.

Lemma Rect_cs : forall c, In c cs -> length (cg c) = G.
Proof. intros c Hc. destruct (Shape c Hc) as (_ & L & _). exact L. Qed.

Lemma wc_nonneg n : (n < G)%nat -> 0 <= nth n (wc_of cs) 0.
Proof.
  intros Hn. rewrite (nth_wc G cs n NE Rect_cs Hn). unfold sum_over. apply sumR_nonneg.
  intros y Hy. apply in_map_iff in Hy. destruct Hy as (c & <- & Hc).
  destruct (Shape c Hc) as (Px & _ & _ & Pg). apply Rmult_le_pos; [lra|apply Pg].
Qed.

Lemma lam_nonneg n : (n < G)%nat -> 0 <= lam Qs (wc_of cs) n.
Proof. intros Hn. unfold lam. apply Rmult_le_pos; [left; apply Qpos; exact Hn|apply wc_nonneg; exact Hn]. Qed.

Lemma sig_pos_of_tau : 0 < tau G (lam Qs (wc_of cs)) -> forall m, (m < G)%nat -> 0 < sig G psis (lam Qs (wc_of cs)) m.
Proof.
  intros T m Hm. unfold sig. apply bigsum_weighted_pos.
  - exact lam_nonneg.
  - intros n Hn. apply Ppos; assumption.
  - exact T.
Qed.

(* some chemical that is present carries a group *)
Lemma tau_pos_of_group : (exists c k, In c cs /\ (k < G)%nat /\ 0 < cx c /\ 0 < nth k (cg c) 0) -> 0 < tau G (lam Qs (wc_of cs)).
Proof.
  intros (c & k & Hc & Hk & Pxc & Pk). unfold tau. apply (bigsum_pos G _ k); [exact lam_nonneg|exact Hk|].
  unfold lam. apply Rmult_lt_0_compat; [apply Qpos; exact Hk|].
  rewrite (nth_wc G cs k NE Rect_cs Hk). unfold sum_over.
  apply (sumR_pos _ (cx c * nth k (cg c) 0)).
  - intros y Hy. apply in_map_iff in Hy. destruct Hy as (c' & <- & Hc').
    destruct (Shape c' Hc') as (Px & _ & _ & Pg). apply Rmult_le_pos; [lra|apply Pg].
  - apply (in_map (fun c0 => cx c0 * nth k (cg c0) 0)). exact Hc.
  - apply Rmult_lt_0_compat; assumption.
Qed.

(* no group amount at all: every group count of every chemical is zero *)
Lemma no_groups_of_tau : (forall c, In c cs -> 0 < cx c) -> tau G (lam Qs (wc_of cs)) = 0 ->
  forall c k, In c cs -> (k < G)%nat -> nth k (cg c) 0 = 0.
Proof.
  intros Strict T c k Hc Hk.
  assert (Z : lam Qs (wc_of cs) k = 0).
  { apply (sumR_zero_inv (seq 0 G) (lam Qs (wc_of cs))).
    - intros n Hn. apply in_seq in Hn. apply lam_nonneg. lia.
    - exact T.
    - apply in_seq. lia. }
  unfold lam in Z. pose proof (Qpos k Hk) as Pq.
  assert (Zw : nth k (wc_of cs) 0 = 0).
  { destruct (Rmult_integral _ _ Z); [lra|assumption]. }
  rewrite (nth_wc G cs k NE Rect_cs Hk) in Zw. unfold sum_over in Zw.
  assert (Zc : cx c * nth k (cg c) 0 = 0).
  { apply (sumR_zero_inv cs (fun c0 => cx c0 * nth k (cg c0) 0)); auto.
    intros c' Hc'. destruct (Shape c' Hc') as (Px & _ & _ & Pg). apply Rmult_le_pos; [lra|apply Pg]. }
  pose proof (Strict c Hc) as Px. destruct (Rmult_integral _ _ Zc); [lra|assumption].
Qed.

Lemma resid_zero (Wl : list R) c : length (cg c) = G -> (forall k, (k < G)%nat -> nth k (cg c) 0 = 0) ->
  resid_of Qs psis gpsis Wl c = 0.
Proof.
  intros L Z. unfold resid_of. rewrite ksum_KR. cbn [kmul KR]. apply sum_map2_zero.
  intros k _ Hb. rewrite (Z k) by lia. ring.
Qed.

(* derivative of ln gamma_c^R along x + h dx, any direction dx, any chemical c of the mixture *)
Lemma resid_derive_direction (HG : (0 < G)%nat) dx c : In c cs -> 0 < tau G (lam Qs (wc_of cs)) ->
  is_derive (fun h => resid_of Qs psis gpsis (wc_of (pert cs (fun i => h * dx i))) c) 0
            (bigsum G (fun k => dLline G Qs psis (wc_of cs) (dirv G cs dx) k * nth k (cg c) 0)).
Proof.
  intros Hc T. destruct (Shape c Hc) as (_ & Lg & LQ & _).
  apply (resid_line_derive G Qs psis gpsis (wc_of cs) (dirv G cs dx) HG LQs Rpsis Rgpsis T (sig_pos_of_tau T)
           (fun h => wc_of (pert cs (fun i => h * dx i))) c); auto.
  - intros h. apply (wc_length G). apply pert_nonempty; exact NE. apply pert_rect. exact Rect_cs.
  - intros h n Hn. apply wc_pert_line; auto. exact Rect_cs.
Qed.

(* Gibbs-Duhem for the residual part: sum_i x_i d ln gamma_i^R = 0 along every direction dx *)
Lemma gibbs_duhem_resid_direction (HG : (0 < G)%nat) dx : 0 < tau G (lam Qs (wc_of cs)) ->
  sum_over cs (fun c => cx c * Derive (fun h => resid_of Qs psis gpsis (wc_of (pert cs (fun i => h * dx i))) c) 0) = 0.
Proof.
  intros T.
  rewrite (sum_over_ext cs _ (fun c => cx c * bigsum G (fun k => dLline G Qs psis (wc_of cs) (dirv G cs dx) k * nth k (cg c) 0))).
  2:{ intros c Hc. f_equal. apply is_derive_unique. apply resid_derive_direction; assumption. }
  unfold sum_over.
  rewrite (sumR_map_ext_in cs _ (fun c => bigsum G (fun k => dLline G Qs psis (wc_of cs) (dirv G cs dx) k * (cx c * nth k (cg c) 0)))).
  2:{ intros c _. rewrite <- bigsum_scal. apply bigsum_ext. intros; ring. }
  unfold bigsum at 1. rewrite sumR_swap. fold (bigsum G (fun k => sumR (map (fun c => dLline G Qs psis (wc_of cs) (dirv G cs dx) k * (cx c * nth k (cg c) 0)) cs))).
  rewrite (bigsum_ext G _ (fun k => lam Qs (wc_of cs) k *
             (- (sig G psis (lam Qs (dirv G cs dx)) k / sig G psis (lam Qs (wc_of cs)) k - tau G (lam Qs (dirv G cs dx)) / tau G (lam Qs (wc_of cs)))
              + bigsum G (fun m => dterm G Qs psis (wc_of cs) (dirv G cs dx) m k)))).
  2:{ intros k Hk. rewrite sumR_scal. change (sumR (map (fun c => cx c * nth k (cg c) 0) cs)) with (sum_over cs (fun c => cx c * nth k (cg c) 0)).
      rewrite <- (nth_wc G cs k NE Rect_cs Hk). unfold dLline, lam. ring. }
  rewrite (dL_Sym G Qs psis (wc_of cs) (dirv G cs dx) (sig_pos_of_tau T)).
  apply Sym_la_zero; [exact T|exact (sig_pos_of_tau T)].
Qed.

(* cross-derivative symmetry: d ln gamma_i^R / d x_j = d ln gamma_j^R / d x_i *)
Lemma resid_cross_symmetry i j : (forall c, In c cs -> 0 < cx c) -> (i < length cs)%nat -> (j < length cs)%nat ->
  Derive (fun h => resid_of Qs psis gpsis (wc_of (bump_x cs j h)) (nth i cs chem0)) 0 =
  Derive (fun h => resid_of Qs psis gpsis (wc_of (bump_x cs i h)) (nth j cs chem0)) 0.
Proof.
  intros Strict Hi Hj.
  assert (Ini : In (nth i cs chem0) cs) by (apply nth_In; exact Hi).
  assert (Inj : In (nth j cs chem0) cs) by (apply nth_In; exact Hj).
  assert (Lw : forall a h, length (wc_of (bump_x cs a h)) = G).
  { intros a h. apply (wc_length G).
    - change (bump_x cs a h) with (pert cs (fun i0 => if Nat.eqb i0 a then h else 0)). apply pert_nonempty. exact NE.
    - change (bump_x cs a h) with (pert cs (fun i0 => if Nat.eqb i0 a then h else 0)). apply pert_rect. exact Rect_cs. }
  destruct (Rle_lt_dec (tau G (lam Qs (wc_of cs))) 0) as [T0|T].
  - (* no groups at all: both functions are identically zero *)
    assert (TZ : tau G (lam Qs (wc_of cs)) = 0).
    { apply Rle_antisym; [exact T0|]. unfold tau. apply bigsum_nonneg. exact lam_nonneg. }
    pose proof (no_groups_of_tau Strict TZ) as Z.
    rewrite (Derive_ext _ (fun _ => 0)).
    2:{ intros h. apply resid_zero; [apply Rect_cs; exact Ini|]. intros k Hk. apply Z; assumption. }
    rewrite (Derive_ext (fun h => resid_of Qs psis gpsis (wc_of (bump_x cs i h)) (nth j cs chem0)) (fun _ => 0)).
    2:{ intros h. apply resid_zero; [apply Rect_cs; exact Inj|]. intros k Hk. apply Z; assumption. }
    reflexivity.
  - assert (HG : (0 < G)%nat).
    { destruct G as [|g]; [|lia]. unfold tau, bigsum in T. simpl in T. lra. }
    pose proof (sig_pos_of_tau T) as Sp.
    destruct (Shape _ Ini) as (_ & Lgi & LQi & _). destruct (Shape _ Inj) as (_ & Lgj & LQj & _).
    pose proof (is_derive_unique _ _ _
      (resid_line_derive G Qs psis gpsis (wc_of cs) (cg (nth j cs chem0)) HG LQs Rpsis Rgpsis T Sp
         (fun h => wc_of (bump_x cs j h)) (nth i cs chem0) (Lw j)
         (fun h n Hn => wc_bump_line G cs j h n Hj Rect_cs Hn) LQi Lgi)) as D1.
    pose proof (is_derive_unique _ _ _
      (resid_line_derive G Qs psis gpsis (wc_of cs) (cg (nth i cs chem0)) HG LQs Rpsis Rgpsis T Sp
         (fun h => wc_of (bump_x cs i h)) (nth j cs chem0) (Lw i)
         (fun h n Hn => wc_bump_line G cs i h n Hi Rect_cs Hn) LQj Lgj)) as D2.
    cbv beta in D1, D2.
    eapply eq_trans; [exact D1|]. symmetry. eapply eq_trans; [exact D2|].
    rewrite (resid_line_Sym G Qs psis (wc_of cs) (cg (nth j cs chem0)) Sp (nth i cs chem0)).
    rewrite (resid_line_Sym G Qs psis (wc_of cs) (cg (nth i cs chem0)) Sp (nth j cs chem0)).
    apply Sym_sym.
Qed.
End Data.

(* ---------- the generated kernel on the moved composition ---------- *)
Lemma nth_pert cs d i : (i < length cs)%nat ->
  nth i (pert cs d) chem0 = set_cx (nth i cs chem0) (cx (nth i cs chem0) + d i).
Proof.
  intros Hi. unfold pert.
  rewrite (nth_map_in _ (enum cs) i (0%nat, chem0)) by (rewrite enum_length; exact Hi).
  unfold enum. rewrite nth_combine_seq by exact Hi. reflexivity.
Qed.

Lemma pert_fields cs d :
  map cg (pert cs d) = map cg cs /\ map cQ (pert cs d) = map cQ cs /\
  map cq (pert cs d) = map cq cs /\ map cr (pert cs d) = map cr cs.
Proof.
  unfold pert. rewrite !map_map. cbn [set_cx cg cQ cq cr].
  rewrite <- (map_map snd cg), <- (map_map snd cQ), <- (map_map snd cq), <- (map_map snd cr).
  unfold enum. rewrite map_snd_combine by (rewrite seq_length; reflexivity). repeat split; reflexivity.
Qed.

Lemma map_const_len {B C} (l : list B) (l' : list C) (v : R) : length l = length l' ->
  map (fun _ => v) l = map (fun _ => v) l'.
Proof. revert l'; induction l as [|a t IH]; intros [|a' t'] L; simpl in *; try discriminate; auto. f_equal. apply IH. lia. Qed.

Lemma ln_gac_pert Qs psis gpsis cs d i : (i < length cs)%nat ->
  ln (nth i (group_activity_coefficients KR (map cx (pert cs d)) (map cg cs) (map (fun _ => 0) cs) Qs psis (map cQ cs) gpsis) 0) =
  resid_of Qs psis gpsis (wc_of (pert cs d)) (nth i cs chem0).
Proof.
  intros Hi. destruct (pert_fields cs d) as (E1 & E2 & _).
  rewrite <- E1, <- E2.
  rewrite (map_const_len cs (pert cs d) 0) by (symmetry; apply pert_length).
  rewrite (gac_map Qs psis gpsis (fun _ => 0) (pert cs d)).
  rewrite (nth_map_in _ (pert cs d) i chem0) by (rewrite pert_length; exact Hi).
  rewrite Rplus_0_l, ln_exp. rewrite nth_pert by exact Hi. reflexivity.
Qed.

(* Gibbs-Duhem for the residual part of the GENERATED kernel (zero combinatorial term passed in), n chemicals with any
   group make-up, any direction dx of the composition *)
Lemma gibbs_duhem_resid_kernel G Qs psis gpsis cs dx :
  (0 < G)%nat -> length Qs = G -> rectangular psis G G -> rectangular gpsis G G -> cs <> [] ->
  (forall c, In c cs -> 0 <= cx c /\ length (cg c) = G /\ length (cQ c) = G /\ (forall k, 0 <= nth k (cg c) 0)) ->
  (forall k, (k < G)%nat -> 0 < nth k Qs 0) ->
  (forall m n, (m < G)%nat -> (n < G)%nat -> 0 < ent psis m n) ->
  (exists c k, In c cs /\ (k < G)%nat /\ 0 < cx c /\ 0 < nth k (cg c) 0) ->
  sum_over (enum cs) (fun ic => cx (snd ic) *
     Derive (fun h => ln (nth (fst ic) (group_activity_coefficients KR (map cx (pert cs (fun i => h * dx i))) (map cg cs)
                                          (map (fun _ => 0) cs) Qs psis (map cQ cs) gpsis) 0)) 0) = 0.
Proof.
  intros HG LQ Rp Rg NE Shape Qpos Ppos Ex.
  rewrite (sum_over_ext (enum cs) _
     (fun ic => cx (snd ic) * Derive (fun h => resid_of Qs psis gpsis (wc_of (pert cs (fun i => h * dx i))) (snd ic)) 0)).
  2:{ intros [i c] Hin. destruct (in_enum_nth cs i c Hin) as [Hi Ec]. cbn [fst snd]. f_equal.
      apply Derive_ext. intros h. rewrite ln_gac_pert by exact Hi. subst c. reflexivity. }
  rewrite (sum_over_enum_snd cs (fun c => cx c * Derive (fun h => resid_of Qs psis gpsis (wc_of (pert cs (fun i => h * dx i))) c) 0)).
  apply (gibbs_duhem_resid_direction G Qs psis gpsis cs LQ Rp Rg NE Shape Qpos Ppos HG dx).
  apply (tau_pos_of_group G Qs cs NE Shape Qpos Ex).
Qed.
