(* C16 — Gibbs-Duhem relation for the combinatorial term of a binary mixture (Coquelicot).
   rp is the volume parameter entering V' (r itself for UNIFAC, r^(3/4) for the modified
   models); x1 = u, x2 = 1 - u. *)
From Coq Require Import Reals Lra.
From Coquelicot Require Import Coquelicot.
From V Require Import C16.Lit.
Local Open Scope R_scope.

Definition gbin (rp r q rp1 rp2 r1 r2 q1 q2 t : R) : R :=
  lit_comb (rp / (t * rp1 + (1 - t) * rp2)) (r / (t * r1 + (1 - t) * r2)) (q / (t * q1 + (1 - t) * q2)) q.

Definition dgbin (rp r q rp1 rp2 r1 r2 q1 q2 t : R) : R :=
  let rhop := t * rp1 + (1 - t) * rp2 in
  let rho := t * r1 + (1 - t) * r2 in
  let th := t * q1 + (1 - t) * q2 in
  let drhop := rp1 - rp2 in
  let drho := r1 - r2 in
  let dth := q1 - q2 in
  rp * drhop / (rhop * rhop) - drhop / rhop
  - 5 * q * ( - (r / q) * (dth * rho - th * drho) / (rho * rho) + (dth / th - drho / rho)).

Lemma gbin_derive rp r q rp1 rp2 r1 r2 q1 q2 t :
  0 < rp -> 0 < r -> 0 < q -> 0 < rp1 -> 0 < rp2 -> 0 < r1 -> 0 < r2 -> 0 < q1 -> 0 < q2 -> 0 < t < 1 ->
  is_derive (fun u => gbin rp r q rp1 rp2 r1 r2 q1 q2 u) t (dgbin rp r q rp1 rp2 r1 r2 q1 q2 t).
Proof.
  intros Hrp Hr Hq Hp1 Hp2 H1 H2 H3 H4 Ht.
  assert (Prhop : 0 < t * rp1 + (1 - t) * rp2) by nra.
  assert (Prho : 0 < t * r1 + (1 - t) * r2) by nra.
  assert (Pth : 0 < t * q1 + (1 - t) * q2) by nra.
  unfold gbin, lit_comb, dgbin.
  assert (E0 : t * rp1 + (1 + - t) * rp2 = t * rp1 + (1 - t) * rp2) by ring.
  assert (E1 : t * r1 + (1 + - t) * r2 = t * r1 + (1 - t) * r2) by ring.
  assert (E2 : t * q1 + (1 + - t) * q2 = t * q1 + (1 - t) * q2) by ring.
  auto_derive.
  - rewrite E0, E1, E2.
    assert (P0 : 0 < rp * / (t * rp1 + (1 - t) * rp2)) by (apply Rmult_lt_0_compat; [lra|apply Rinv_0_lt_compat; lra]).
    assert (P1 : 0 < r * / (t * r1 + (1 - t) * r2)) by (apply Rmult_lt_0_compat; [lra|apply Rinv_0_lt_compat; lra]).
    assert (P2 : 0 < q * / (t * q1 + (1 - t) * q2)) by (apply Rmult_lt_0_compat; [lra|apply Rinv_0_lt_compat; lra]).
    assert (P3 : 0 < r * / (t * r1 + (1 - t) * r2) * / (q * / (t * q1 + (1 - t) * q2)))
      by (apply Rmult_lt_0_compat; [lra|apply Rinv_0_lt_compat; lra]).
    repeat split; try lra.
  - rewrite E0, E1, E2. field. repeat split; lra.
Qed.

(* x1 dln(gamma1^C)/dx1 + x2 dln(gamma2^C)/dx1 = 0 along x2 = 1 - x1 *)
Lemma gibbs_duhem_comb_binary rp1 rp2 r1 r2 q1 q2 t :
  0 < rp1 -> 0 < rp2 -> 0 < r1 -> 0 < r2 -> 0 < q1 -> 0 < q2 -> 0 < t < 1 ->
  t * Derive (fun u => gbin rp1 r1 q1 rp1 rp2 r1 r2 q1 q2 u) t +
  (1 - t) * Derive (fun u => gbin rp2 r2 q2 rp1 rp2 r1 r2 q1 q2 u) t = 0.
Proof.
  intros Hp1 Hp2 H1 H2 H3 H4 Ht.
  pose proof (is_derive_unique _ _ _ (gbin_derive rp1 r1 q1 rp1 rp2 r1 r2 q1 q2 t Hp1 H1 H3 Hp1 Hp2 H1 H2 H3 H4 Ht)) as D1.
  pose proof (is_derive_unique _ _ _ (gbin_derive rp2 r2 q2 rp1 rp2 r1 r2 q1 q2 t Hp2 H2 H4 Hp1 Hp2 H1 H2 H3 H4 Ht)) as D2.
  replace (Derive (fun u => gbin rp1 r1 q1 rp1 rp2 r1 r2 q1 q2 u) t) with (dgbin rp1 r1 q1 rp1 rp2 r1 r2 q1 q2 t)
    by (symmetry; exact D1).
  replace (Derive (fun u => gbin rp2 r2 q2 rp1 rp2 r1 r2 q1 q2 u) t) with (dgbin rp2 r2 q2 rp1 rp2 r1 r2 q1 q2 t)
    by (symmetry; exact D2).
  assert (Prhop : 0 < t * rp1 + (1 - t) * rp2) by nra.
  assert (Prho : 0 < t * r1 + (1 - t) * r2) by nra.
  assert (Pth : 0 < t * q1 + (1 - t) * q2) by nra.
  unfold dgbin. field. repeat split; lra.
Qed.
