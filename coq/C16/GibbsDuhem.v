(* C16 — Gibbs-Duhem relation for the combinatorial term of a binary mixture (Coquelicot).
   rp is the volume parameter entering V' (r itself for UNIFAC, r^(3/4) for the modified
   models); x1 = u, x2 = 1 - u. *)
From Coq Require Import Reals Lra.
From Coquelicot Require Import Coquelicot.
From V Require Import C16.Lit.
Local Open Scope R_scope.

Definition gbin (rp r q rp1 rp2 r1 r2 q1 q2 t : R) : R :=
  lit_comb (rp / (t * rp1 + (1 - t) * rp2)) (r / (t * r1 + (1 - t) * r2)) (q / (t * q1 + (1 - t) * q2)) q.

Definition dgbin (rp r q rp1 rp2 r1 r2 q1 q2 t : R) : R :=
  let rhop := t * rp1 + (1 - t) * rp2 in
  let rho := t * r1 + (1 - t) * r2 in
  let th := t * q1 + (1 - t) * q2 in
  let drhop := rp1 - rp2 in
  let drho := r1 - r2 in
  let dth := q1 - q2 in
  rp * drhop / (rhop * rhop) - drhop / rhop
  - 5 * q * ( - (r / q) * (dth * rho - th * drho) / (rho * rho) + (dth / th - drho / rho)).

Lemma gbin_derive rp r q rp1 rp2 r1 r2 q1 q2 t :
  0 < rp -> 0 < r -> 0 < q -> 0 < rp1 -> 0 < rp2 -> 0 < r1 -> 0 < r2 -> 0 < q1 -> 0 < q2 -> 0 < t < 1 ->
  is_derive (fun u => gbin rp r q rp1 rp2 r1 r2 q1 q2 u) t (dgbin rp r q rp1 rp2 r1 r2 q1 q2 t).
Proof.
  intros Hrp Hr Hq Hp1 Hp2 H1 H2 H3 H4 Ht.
  assert (Prhop : 0 < t * rp1 + (1 - t) * rp2) by nra.
  assert (Prho : 0 < t * r1 + (1 - t) * r2) by nra.
  assert (Pth : 0 < t * q1 + (1 - t) * q2) by nra.
  unfold gbin, lit_comb, dgbin.
  assert (E0 : t * rp1 + (1 + - t) * rp2 = t * rp1 + (1 - t) * rp2) by ring.
  assert (E1 : t * r1 + (1 + - t) * r2 = t * r1 + (1 - t) * r2) by ring.
  assert (E2 : t * q1 + (1 + - t) * q2 = t * q1 + (1 - t) * q2) by ring.
  auto_derive.
  - rewrite E0, E1, E2.
    assert (P0 : 0 < rp * / (t * rp1 + (1 - t) * rp2)) by (apply Rmult_lt_0_compat; [lra|apply Rinv_0_lt_compat; lra]).
    assert (P1 : 0 < r * / (t * r1 + (1 - t) * r2)) by (apply Rmult_lt_0_compat; [lra|apply Rinv_0_lt_compat; lra]).
    assert (P2 : 0 < q * / (t * q1 + (1 - t) * q2)) by (apply Rmult_lt_0_compat; [lra|apply Rinv_0_lt_compat; lra]).
    assert (P3 : 0 < r * / (t * r1 + (1 - t) * r2) * / (q * / (t * q1 + (1 - t) * q2)))
      by (apply Rmult_lt_0_compat; [lra|apply Rinv_0_lt_compat; lra]).
    repeat split; try lra.
  - rewrite E0, E1, E2. field. repeat split; lra.
Qed.

(* x1 dln(gamma1^C)/dx1 + x2 dln(gamma2^C)/dx1 = 0 along x2 = 1 - x1 *)
Lemma gibbs_duhem_comb_binary rp1 rp2 r1 r2 q1 q2 t :
  0 < rp1 -> 0 < rp2 -> 0 < r1 -> 0 < r2 -> 0 < q1 -> 0 < q2 -> 0 < t < 1 ->
  t * Derive (fun u => gbin rp1 r1 q1 rp1 rp2 r1 r2 q1 q2 u) t +
  (1 - t) * Derive (fun u => gbin rp2 r2 q2 rp1 rp2 r1 r2 q1 q2 u) t = 0.
Proof.
  intros Hp1 Hp2 H1 H2 H3 H4 Ht.
  pose proof (is_derive_unique _ _ _ (gbin_derive rp1 r1 q1 rp1 rp2 r1 r2 q1 q2 t Hp1 H1 H3 Hp1 Hp2 H1 H2 H3 H4 Ht)) as D1.
  pose proof (is_derive_unique _ _ _ (gbin_derive rp2 r2 q2 rp1 rp2 r1 r2 q1 q2 t Hp2 H2 H4 Hp1 Hp2 H1 H2 H3 H4 Ht)) as D2.
  replace (Derive (fun u => gbin rp1 r1 q1 rp1 rp2 r1 r2 q1 q2 u) t) with (dgbin rp1 r1 q1 rp1 rp2 r1 r2 q1 q2 t)
    by (symmetry; exact D1).
  replace (Derive (fun u => gbin rp2 r2 q2 rp1 rp2 r1 r2 q1 q2 u) t) with (dgbin rp2 r2 q2 rp1 rp2 r1 r2 q1 q2 t)
    by (symmetry; exact D2).
  assert (Prhop : 0 < t * rp1 + (1 - t) * rp2) by nra.
  assert (Prho : 0 < t * r1 + (1 - t) * r2) by nra.
  assert (Pth : 0 < t * q1 + (1 - t) * q2) by nra.
  unfold dgbin. field. repeat split; lra.
Qed.

(* ================= n chemicals: derivative along a direction of the composition simplex =================
   Along x(h) = x + h (e_a - e_b) the three mixture sums are affine in h:
   P(h) = P + h dP (volume parameter of V'), R(h) = R + h dR, Th(h) = Th + h dTh. *)
From Coq Require Import List.
Import ListNotations.

Definition gdir (rp r q P dP Rr dR Th dTh h : R) : R :=
  lit_comb (rp / (P + h * dP)) (r / (Rr + h * dR)) (q / (Th + h * dTh)) q.

Definition dgdir (rp r q P dP Rr dR Th dTh : R) : R :=
  rp * dP / (P * P) - dP / P
  - 5 * q * ( - (r / q) * (dTh * Rr - Th * dR) / (Rr * Rr) + (dTh / Th - dR / Rr)).

Lemma gdir_derive rp r q P dP Rr dR Th dTh :
  0 < rp -> 0 < r -> 0 < q -> 0 < P -> 0 < Rr -> 0 < Th ->
  is_derive (fun h => gdir rp r q P dP Rr dR Th dTh h) 0 (dgdir rp r q P dP Rr dR Th dTh).
Proof.
  intros Hrp Hr Hq HP HR HT.
  unfold gdir, lit_comb, dgdir.
  assert (E0 : P + 0 * dP = P) by ring.
  assert (E1 : Rr + 0 * dR = Rr) by ring.
  assert (E2 : Th + 0 * dTh = Th) by ring.
  auto_derive.
  - rewrite E0, E1, E2.
    assert (P0 : 0 < rp * / P) by (apply Rmult_lt_0_compat; [lra|apply Rinv_0_lt_compat; lra]).
    assert (P1 : 0 < r * / Rr) by (apply Rmult_lt_0_compat; [lra|apply Rinv_0_lt_compat; lra]).
    assert (P2 : 0 < q * / Th) by (apply Rmult_lt_0_compat; [lra|apply Rinv_0_lt_compat; lra]).
    assert (P3 : 0 < r * / Rr * / (q * / Th)) by (apply Rmult_lt_0_compat; [lra|apply Rinv_0_lt_compat; lra]).
    repeat split; try lra.
  - rewrite E0, E1, E2. field. repeat split; lra.
Qed.

Lemma sumR_lin4 {B} (cs : list B) (f1 f2 f3 f4 : B -> R) a b c d :
  sumR (map (fun u => a * f1 u + b * f2 u + c * f3 u + d * f4 u) cs) =
  a * sumR (map f1 cs) + b * sumR (map f2 cs) + c * sumR (map f3 cs) + d * sumR (map f4 cs).
Proof. induction cs as [|u t IH]; simpl; [ring|]. rewrite IH. ring. Qed.

Lemma sumR_map_ext_in {B} (cs : list B) f g : (forall u, In u cs -> f u = g u) -> sumR (map f cs) = sumR (map g cs).
Proof. intros H. f_equal. apply map_ext_in. exact H. Qed.

(* sum_i x_i dln(gamma_i^C)/dh = 0 at h = 0, for any direction (dP, dR, dTh) of the mixture sums, when
   sum x = 1 and the three sums are the x-weighted means of the per-chemical parameters *)
Lemma gibbs_duhem_comb_direction {B} (cs : list B) (fx frp fr fq : B -> R) P dP Rr dR Th dTh :
  (forall u, In u cs -> 0 < frp u /\ 0 < fr u /\ 0 < fq u) ->
  0 < P -> 0 < Rr -> 0 < Th ->
  sumR (map fx cs) = 1 ->
  sumR (map (fun u => fx u * frp u) cs) = P ->
  sumR (map (fun u => fx u * fr u) cs) = Rr ->
  sumR (map (fun u => fx u * fq u) cs) = Th ->
  sumR (map (fun u => fx u * Derive (fun h => gdir (frp u) (fr u) (fq u) P dP Rr dR Th dTh h) 0) cs) = 0.
Proof.
  intros Pos HP HR HT S1 SP SR ST.
  rewrite (sumR_map_ext_in cs _
    (fun u => (dP / (P * P)) * (fx u * frp u) + (- (dP / P)) * fx u
              + (5 * (dTh * Rr - Th * dR) / (Rr * Rr)) * (fx u * fr u)
              + (- 5 * (dTh / Th - dR / Rr)) * (fx u * fq u))).
  - rewrite sumR_lin4. rewrite S1, SP, SR, ST. field. repeat split; lra.
  - intros u Hu. destruct (Pos u Hu) as (Hrp & Hr & Hq).
    pose proof (is_derive_unique _ _ _ (gdir_derive (frp u) (fr u) (fq u) P dP Rr dR Th dTh Hrp Hr Hq HP HR HT)) as D.
    replace (Derive (fun h => gdir (frp u) (fr u) (fq u) P dP Rr dR Th dTh h) 0)
      with (dgdir (frp u) (fr u) (fq u) P dP Rr dR Th dTh) by (symmetry; exact D).
    unfold dgdir. field. repeat split; lra.
Qed.
