(* C16 — ties the binary Gibbs-Duhem lemma (GibbsDuhem.v) to the translated kernels. *)
From V Require Import Common.NumFacts C16.Model C16.Proofs C16.ProofsR C16.GibbsDuhem.
From Coq Require Import Reals List.
From Coquelicot Require Import Coquelicot.
From Coq Require Import Lra.
Import ListNotations.
Local Open Scope R_scope.

Lemma comb_UNIFAC_binary r1 r2 q1 q2 u :
  nth 0 (loggammacs_UNIFAC KR [q1; q2] [r1; r2] [u; 1 - u]) 0 = gbin r1 r1 q1 r1 r2 r1 r2 q1 q2 u /\
  nth 1 (loggammacs_UNIFAC KR [q1; q2] [r1; r2] [u; 1 - u]) 0 = gbin r2 r2 q2 r1 r2 r1 r2 q1 q2 u.
Proof.
  split.
  - rewrite (comb_UNIFAC_refines [q1; q2] [r1; r2] [u; 1 - u] 0) by (simpl; auto).
    unfold gbin, dotR, sumR. simpl.
    replace (u * r1 + ((1 - u) * r2 + 0)) with (u * r1 + (1 - u) * r2) by ring.
    replace (u * q1 + ((1 - u) * q2 + 0)) with (u * q1 + (1 - u) * q2) by ring. reflexivity.
  - rewrite (comb_UNIFAC_refines [q1; q2] [r1; r2] [u; 1 - u] 1) by (simpl; auto).
    unfold gbin, dotR, sumR. simpl.
    replace (u * r1 + ((1 - u) * r2 + 0)) with (u * r1 + (1 - u) * r2) by ring.
    replace (u * q1 + ((1 - u) * q2 + 0)) with (u * q1 + (1 - u) * q2) by ring. reflexivity.
Qed.

Lemma comb_modified_binary r1 r2 q1 q2 u :
  nth 0 (loggammacs_modified_UNIFAC KR [q1; q2] [r1; r2] [u; 1 - u]) 0 =
    gbin (Rpow34 r1) r1 q1 (Rpow34 r1) (Rpow34 r2) r1 r2 q1 q2 u /\
  nth 1 (loggammacs_modified_UNIFAC KR [q1; q2] [r1; r2] [u; 1 - u]) 0 =
    gbin (Rpow34 r2) r2 q2 (Rpow34 r1) (Rpow34 r2) r1 r2 q1 q2 u.
Proof.
  split.
  - rewrite (comb_modified_refines [q1; q2] [r1; r2] [u; 1 - u] 0) by (simpl; auto).
    unfold gbin, dotR, sumR. simpl.
    replace (Rpow34 r1 * u + (Rpow34 r2 * (1 - u) + 0)) with (u * Rpow34 r1 + (1 - u) * Rpow34 r2) by ring.
    replace (u * r1 + ((1 - u) * r2 + 0)) with (u * r1 + (1 - u) * r2) by ring.
    replace (u * q1 + ((1 - u) * q2 + 0)) with (u * q1 + (1 - u) * q2) by ring. reflexivity.
  - rewrite (comb_modified_refines [q1; q2] [r1; r2] [u; 1 - u] 1) by (simpl; auto).
    unfold gbin, dotR, sumR. simpl.
    replace (Rpow34 r1 * u + (Rpow34 r2 * (1 - u) + 0)) with (u * Rpow34 r1 + (1 - u) * Rpow34 r2) by ring.
    replace (u * r1 + ((1 - u) * r2 + 0)) with (u * r1 + (1 - u) * r2) by ring.
    replace (u * q1 + ((1 - u) * q2 + 0)) with (u * q1 + (1 - u) * q2) by ring. reflexivity.
Qed.

Lemma gibbs_duhem_comb_UNIFAC r1 r2 q1 q2 t :
  0 < r1 -> 0 < r2 -> 0 < q1 -> 0 < q2 -> 0 < t < 1 ->
  t * Derive (fun u => nth 0 (loggammacs_UNIFAC KR [q1; q2] [r1; r2] [u; 1 - u]) 0) t +
  (1 - t) * Derive (fun u => nth 1 (loggammacs_UNIFAC KR [q1; q2] [r1; r2] [u; 1 - u]) 0) t = 0.
Proof.
  intros H1 H2 H3 H4 Ht.
  rewrite (Derive_ext _ (fun u => gbin r1 r1 q1 r1 r2 r1 r2 q1 q2 u)) by (intros u; apply comb_UNIFAC_binary).
  rewrite (Derive_ext (fun u => nth 1 _ 0) (fun u => gbin r2 r2 q2 r1 r2 r1 r2 q1 q2 u))
    by (intros u; apply comb_UNIFAC_binary).
  apply gibbs_duhem_comb_binary; assumption.
Qed.

Lemma gibbs_duhem_comb_modified r1 r2 q1 q2 t :
  0 < r1 -> 0 < r2 -> 0 < q1 -> 0 < q2 -> 0 < t < 1 ->
  t * Derive (fun u => nth 0 (loggammacs_modified_UNIFAC KR [q1; q2] [r1; r2] [u; 1 - u]) 0) t +
  (1 - t) * Derive (fun u => nth 1 (loggammacs_modified_UNIFAC KR [q1; q2] [r1; r2] [u; 1 - u]) 0) t = 0.
Proof.
  intros H1 H2 H3 H4 Ht.
  rewrite (Derive_ext _ (fun u => gbin (Rpow34 r1) r1 q1 (Rpow34 r1) (Rpow34 r2) r1 r2 q1 q2 u))
    by (intros u; apply comb_modified_binary).
  rewrite (Derive_ext (fun u => nth 1 _ 0) (fun u => gbin (Rpow34 r2) r2 q2 (Rpow34 r1) (Rpow34 r2) r1 r2 q1 q2 u))
    by (intros u; apply comb_modified_binary).
  apply gibbs_duhem_comb_binary; try assumption; apply Rpow34_pos.
Qed.

(* ================= n chemicals, direction e_a - e_b ================= *)
From V Require Import C16.ProofsIdx.
From Coq Require Import Lia.

Definition bump (a b : nat) (h : R) (j : nat) : R :=
  (if Nat.eqb j a then h else 0) - (if Nat.eqb j b then h else 0).
(* x + h (e_a - e_b) *)
Definition shift_x (cs : list chem) (a b : nat) (h : R) : list chem :=
  map (fun jc => set_cx (snd jc) (cx (snd jc) + bump a b h (fst jc))) (enum cs).

Lemma enum_length {B} (l : list B) : length (enum l) = length l.
Proof. unfold enum. rewrite combine_length, seq_length. apply Nat.min_id. Qed.

Lemma shift_length cs a b h : length (shift_x cs a b h) = length cs.
Proof. unfold shift_x. rewrite map_length. apply enum_length. Qed.

Lemma nth_combine_seq {B} (l : list B) k i d : (i < length l)%nat ->
  nth i (combine (seq k (length l)) l) (0%nat, d) = ((k + i)%nat, nth i l d).
Proof.
  revert k i. induction l as [|u t IH]; intros k i Hi; simpl in *; [lia|].
  destruct i as [|i]; [f_equal; lia|]. rewrite IH by lia. f_equal. lia.
Qed.

Lemma nth_shift cs a b h i : (i < length cs)%nat ->
  nth i (shift_x cs a b h) chem0 = set_cx (nth i cs chem0) (cx (nth i cs chem0) + bump a b h i).
Proof.
  intros Hi. unfold shift_x.
  rewrite (nth_map_in _ (enum cs) i (0%nat, chem0)) by (rewrite enum_length; exact Hi).
  unfold enum. rewrite nth_combine_seq by exact Hi. reflexivity.
Qed.

Lemma shift_fields cs a b h :
  map cq (shift_x cs a b h) = map cq cs /\ map cr (shift_x cs a b h) = map cr cs.
Proof.
  unfold shift_x. rewrite !map_map. cbn [set_cx cq cr].
  split.
  - rewrite <- (map_map snd cq). unfold enum. rewrite map_snd_combine by (rewrite seq_length; reflexivity). reflexivity.
  - rewrite <- (map_map snd cr). unfold enum. rewrite map_snd_combine by (rewrite seq_length; reflexivity). reflexivity.
Qed.

(* picking one entry out of an enumerated sum *)
Lemma pick_sum (w : chem -> R) cs a : forall k,
  sumR (map (fun jc => (if Nat.eqb (fst jc) a then 1 else 0) * w (snd jc)) (combine (seq k (length cs)) cs)) =
  if (k <=? a)%nat && (a <? k + length cs)%nat then w (nth (a - k) cs chem0) else 0.
Proof.
  induction cs as [|c t IH]; intros k; simpl.
  - destruct (k <=? a)%nat eqn:E1; simpl; auto.
    destruct (a <? k + 0)%nat eqn:E2; auto. apply Nat.leb_le in E1. apply Nat.ltb_lt in E2. lia.
  - rewrite IH. destruct (Nat.eqb k a) eqn:E.
    + apply Nat.eqb_eq in E. subst k.
      replace (S a <=? a)%nat with false by (symmetry; apply Nat.leb_gt; lia). simpl.
      rewrite Nat.leb_refl. replace (a <? a + S (length t))%nat with true by (symmetry; apply Nat.ltb_lt; lia).
      simpl. rewrite Nat.sub_diag. lra.
    + apply Nat.eqb_neq in E.
      destruct (k <=? a)%nat eqn:E1.
      * apply Nat.leb_le in E1. replace (S k <=? a)%nat with true by (symmetry; apply Nat.leb_le; lia).
        replace (a <? k + S (length t))%nat with (a <? S k + length t)%nat by (f_equal; lia).
        simpl. destruct (a <? S (k + length t))%nat eqn:E2.
        -- replace (a - k)%nat with (S (a - S k)) by lia. simpl. lra.
        -- lra.
      * apply Nat.leb_gt in E1. replace (S k <=? a)%nat with false by (symmetry; apply Nat.leb_gt; lia).
        simpl. lra.
Qed.

Lemma shift_sum (w : chem -> R) cs a b h :
  (forall c x, w (set_cx c x) = w c) -> (a < length cs)%nat -> (b < length cs)%nat ->
  sum_over (shift_x cs a b h) (fun c => cx c * w c) =
  sum_over cs (fun c => cx c * w c) + h * (w (nth a cs chem0) - w (nth b cs chem0)).
Proof.
  intros Hw Ha Hb. unfold sum_over, shift_x. rewrite map_map. cbn [set_cx cx].
  rewrite (sumR_map_ext_in _ _
     (fun jc => 1 * (cx (snd jc) * w (snd jc)) + h * ((if Nat.eqb (fst jc) a then 1 else 0) * w (snd jc))
                + (- h) * ((if Nat.eqb (fst jc) b then 1 else 0) * w (snd jc)) + 0 * 0)).
  2:{ intros [j c] _. cbn [fst snd]. rewrite Hw. unfold bump.
      destruct (Nat.eqb j a), (Nat.eqb j b); ring. }
  rewrite sumR_lin4. unfold enum. rewrite !(pick_sum w cs _ 0%nat).
  replace ((0 <=? a)%nat && (a <? 0 + length cs)%nat) with true
    by (symmetry; apply andb_true_iff; split; [apply Nat.leb_le|apply Nat.ltb_lt]; lia).
  replace ((0 <=? b)%nat && (b <? 0 + length cs)%nat) with true
    by (symmetry; apply andb_true_iff; split; [apply Nat.leb_le|apply Nat.ltb_lt]; lia).
  rewrite !Nat.sub_0_r.
  rewrite <- (map_map snd (fun c => cx c * w c)).
  rewrite map_snd_combine by (rewrite seq_length; reflexivity). ring.
Qed.

Lemma sum_over_pos (cs : list chem) (f : chem -> R) : cs <> [] -> (forall c, In c cs -> 0 < f c) -> 0 < sum_over cs f.
Proof.
  intros NE H. destruct cs as [|c t]; [congruence|]. unfold sum_over.
  apply (sumR_pos _ (f c)).
  - intros y Hy. apply in_map_iff in Hy. destruct Hy as (u & <- & Hu). left. apply H. exact Hu.
  - left. reflexivity.
  - apply H. left. reflexivity.
Qed.

Lemma sum_over_enum_snd {B} (cs : list B) (H : B -> R) : sum_over (enum cs) (fun ic => H (snd ic)) = sum_over cs H.
Proof.
  unfold sum_over. rewrite <- (map_map snd H). unfold enum.
  rewrite map_snd_combine by (rewrite seq_length; reflexivity). reflexivity.
Qed.

Lemma in_enum_nth (cs : list chem) i c : In (i, c) (enum cs) -> (i < length cs)%nat /\ c = nth i cs chem0.
Proof.
  intros Hin. destruct (In_nth _ _ (0%nat, chem0) Hin) as (k & Hk & Ek).
  rewrite enum_length in Hk. unfold enum in Ek. rewrite nth_combine_seq in Ek by exact Hk.
  inversion Ek; subst. split; [exact Hk|reflexivity].
Qed.

(* the kernel along the direction is the analytic form gdir *)
Lemma comb_modified_along cs a b h i : (a < length cs)%nat -> (b < length cs)%nat -> (i < length cs)%nat ->
  let c := nth i cs chem0 in
  nth i (loggammacs_modified_UNIFAC KR (map cq cs) (map cr cs) (map cx (shift_x cs a b h))) 0 =
  gdir (Rpow34 (cr c)) (cr c) (cq c)
       (rho34 cs) (Rpow34 (cr (nth a cs chem0)) - Rpow34 (cr (nth b cs chem0)))
       (rho cs) (cr (nth a cs chem0) - cr (nth b cs chem0))
       (theta cs) (cq (nth a cs chem0) - cq (nth b cs chem0)) h.
Proof.
  intros Ha Hb Hi c.
  destruct (shift_fields cs a b h) as [Eq Er]. rewrite <- Eq, <- Er.
  rewrite loggammacs_modified_UNIFAC_map.
  rewrite (nth_map_in _ _ i chem0) by (rewrite shift_length; exact Hi).
  rewrite (nth_shift cs a b h i Hi). unfold comb_modified_of. cbn [set_cx cr cq]. fold c.
  unfold rho, theta, rho34, gdir.
  rewrite (shift_sum cr cs a b h) by auto.
  rewrite (shift_sum cq cs a b h) by auto.
  replace (sum_over (shift_x cs a b h) (fun c0 => Rpow34 (cr c0) * cx c0))
    with (sum_over (shift_x cs a b h) (fun c0 => cx c0 * Rpow34 (cr c0)))
    by (apply sum_over_ext; intros; ring).
  rewrite (shift_sum (fun c0 => Rpow34 (cr c0)) cs a b h) by auto.
  replace (sum_over cs (fun c0 => cx c0 * Rpow34 (cr c0))) with (sum_over cs (fun c0 => Rpow34 (cr c0) * cx c0))
    by (apply sum_over_ext; intros; ring).
  reflexivity.
Qed.

Lemma comb_UNIFAC_along cs a b h i : (a < length cs)%nat -> (b < length cs)%nat -> (i < length cs)%nat ->
  let c := nth i cs chem0 in
  nth i (loggammacs_UNIFAC KR (map cq cs) (map cr cs) (map cx (shift_x cs a b h))) 0 =
  gdir (cr c) (cr c) (cq c)
       (rho cs) (cr (nth a cs chem0) - cr (nth b cs chem0))
       (rho cs) (cr (nth a cs chem0) - cr (nth b cs chem0))
       (theta cs) (cq (nth a cs chem0) - cq (nth b cs chem0)) h.
Proof.
  intros Ha Hb Hi c.
  destruct (shift_fields cs a b h) as [Eq Er]. rewrite <- Eq, <- Er.
  rewrite loggammacs_UNIFAC_map.
  rewrite (nth_map_in _ _ i chem0) by (rewrite shift_length; exact Hi).
  rewrite (nth_shift cs a b h i Hi). cbn [set_cx cr cq]. fold c.
  unfold rho, theta, gdir.
  rewrite (shift_sum cr cs a b h) by auto.
  rewrite (shift_sum cq cs a b h) by auto.
  reflexivity.
Qed.

(* Gibbs-Duhem for the combinatorial part, n chemicals, along e_a - e_b at a point of the open simplex *)
Lemma gibbs_duhem_comb_n cs a b : (a < length cs)%nat -> (b < length cs)%nat ->
  (forall c, In c cs -> 0 < cx c /\ 0 < cr c /\ 0 < cq c) ->
  sum_over cs cx = 1 ->
  sum_over (enum cs) (fun ic => cx (snd ic) *
     Derive (fun h => nth (fst ic) (loggammacs_modified_UNIFAC KR (map cq cs) (map cr cs) (map cx (shift_x cs a b h))) 0) 0) = 0 /\
  sum_over (enum cs) (fun ic => cx (snd ic) *
     Derive (fun h => nth (fst ic) (loggammacs_UNIFAC KR (map cq cs) (map cr cs) (map cx (shift_x cs a b h))) 0) 0) = 0.
Proof.
  intros Ha Hb Pos S1.
  assert (NE : cs <> []) by (intros E; subst; simpl in Ha; lia).
  assert (Prho : 0 < rho cs).
  { apply sum_over_pos; auto. intros c Hc. destruct (Pos c Hc) as (A1 & A2 & A3). apply Rmult_lt_0_compat; lra. }
  assert (Pth : 0 < theta cs).
  { apply sum_over_pos; auto. intros c Hc. destruct (Pos c Hc) as (A1 & A2 & A3). apply Rmult_lt_0_compat; lra. }
  assert (P34 : 0 < rho34 cs).
  { apply sum_over_pos; auto. intros c Hc. destruct (Pos c Hc) as (A1 & A2 & A3).
    apply Rmult_lt_0_compat; [apply Rpow34_pos|lra]. }
  split.
  - rewrite (sum_over_ext (enum cs) _
      (fun ic => cx (snd ic) * Derive (fun h => gdir (Rpow34 (cr (snd ic))) (cr (snd ic)) (cq (snd ic))
         (rho34 cs) (Rpow34 (cr (nth a cs chem0)) - Rpow34 (cr (nth b cs chem0)))
         (rho cs) (cr (nth a cs chem0) - cr (nth b cs chem0))
         (theta cs) (cq (nth a cs chem0) - cq (nth b cs chem0)) h) 0)).
    2:{ intros [i c] Hin. destruct (in_enum_nth cs i c Hin) as [Hi Ec]. cbn [fst snd]. f_equal.
        apply Derive_ext. intros h. rewrite (comb_modified_along cs a b h i Ha Hb Hi). subst c. reflexivity. }
    rewrite (sum_over_enum_snd cs (fun c => cx c * Derive (fun h => gdir (Rpow34 (cr c)) (cr c) (cq c)
         (rho34 cs) (Rpow34 (cr (nth a cs chem0)) - Rpow34 (cr (nth b cs chem0)))
         (rho cs) (cr (nth a cs chem0) - cr (nth b cs chem0))
         (theta cs) (cq (nth a cs chem0) - cq (nth b cs chem0)) h) 0)).
    apply (gibbs_duhem_comb_direction cs cx (fun c => Rpow34 (cr c)) cr cq); auto.
    + intros c Hc. destruct (Pos c Hc) as (A1 & A2 & A3). repeat split; auto. apply Rpow34_pos.
    + unfold rho34, sum_over. f_equal. apply map_ext. intros c. ring.
  - rewrite (sum_over_ext (enum cs) _
      (fun ic => cx (snd ic) * Derive (fun h => gdir (cr (snd ic)) (cr (snd ic)) (cq (snd ic))
         (rho cs) (cr (nth a cs chem0) - cr (nth b cs chem0))
         (rho cs) (cr (nth a cs chem0) - cr (nth b cs chem0))
         (theta cs) (cq (nth a cs chem0) - cq (nth b cs chem0)) h) 0)).
    2:{ intros [i c] Hin. destruct (in_enum_nth cs i c Hin) as [Hi Ec]. cbn [fst snd]. f_equal.
        apply Derive_ext. intros h. rewrite (comb_UNIFAC_along cs a b h i Ha Hb Hi). subst c. reflexivity. }
    rewrite (sum_over_enum_snd cs (fun c => cx c * Derive (fun h => gdir (cr c) (cr c) (cq c)
         (rho cs) (cr (nth a cs chem0) - cr (nth b cs chem0))
         (rho cs) (cr (nth a cs chem0) - cr (nth b cs chem0))
         (theta cs) (cq (nth a cs chem0) - cq (nth b cs chem0)) h) 0)).
    apply (gibbs_duhem_comb_direction cs cx cr cr cq); auto.
    intros c Hc. destruct (Pos c Hc) as (A1 & A2 & A3). repeat split; auto.
Qed.
