(* C16 — ties the binary Gibbs-Duhem lemma (GibbsDuhem.v) to the translated kernels. *)
From V Require Import Common.NumFacts C16.Model C16.Proofs C16.ProofsR C16.GibbsDuhem.
From Coq Require Import Reals List.
From Coquelicot Require Import Coquelicot.
From Coq Require Import Lra.
Import ListNotations.
Local Open Scope R_scope.

Lemma comb_UNIFAC_binary r1 r2 q1 q2 u :
  nth 0 (loggammacs_UNIFAC KR [q1; q2] [r1; r2] [u; 1 - u]) 0 = gbin r1 r1 q1 r1 r2 r1 r2 q1 q2 u /\
  nth 1 (loggammacs_UNIFAC KR [q1; q2] [r1; r2] [u; 1 - u]) 0 = gbin r2 r2 q2 r1 r2 r1 r2 q1 q2 u.
Proof.
  split.
  - rewrite (comb_UNIFAC_refines [q1; q2] [r1; r2] [u; 1 - u] 0) by (simpl; auto).
    unfold gbin, dotR, sumR. simpl.
    replace (u * r1 + ((1 - u) * r2 + 0)) with (u * r1 + (1 - u) * r2) by ring.
    replace (u * q1 + ((1 - u) * q2 + 0)) with (u * q1 + (1 - u) * q2) by ring. reflexivity.
  - rewrite (comb_UNIFAC_refines [q1; q2] [r1; r2] [u; 1 - u] 1) by (simpl; auto).
    unfold gbin, dotR, sumR. simpl.
    replace (u * r1 + ((1 - u) * r2 + 0)) with (u * r1 + (1 - u) * r2) by ring.
    replace (u * q1 + ((1 - u) * q2 + 0)) with (u * q1 + (1 - u) * q2) by ring. reflexivity.
Qed.

Lemma comb_modified_binary r1 r2 q1 q2 u :
  nth 0 (loggammacs_modified_UNIFAC KR [q1; q2] [r1; r2] [u; 1 - u]) 0 =
    gbin (Rpow34 r1) r1 q1 (Rpow34 r1) (Rpow34 r2) r1 r2 q1 q2 u /\
  nth 1 (loggammacs_modified_UNIFAC KR [q1; q2] [r1; r2] [u; 1 - u]) 0 =
    gbin (Rpow34 r2) r2 q2 (Rpow34 r1) (Rpow34 r2) r1 r2 q1 q2 u.
Proof.
  split.
  - rewrite (comb_modified_refines [q1; q2] [r1; r2] [u; 1 - u] 0) by (simpl; auto).
    unfold gbin, dotR, sumR. simpl.
    replace (Rpow34 r1 * u + (Rpow34 r2 * (1 - u) + 0)) with (u * Rpow34 r1 + (1 - u) * Rpow34 r2) by ring.
    replace (u * r1 + ((1 - u) * r2 + 0)) with (u * r1 + (1 - u) * r2) by ring.
    replace (u * q1 + ((1 - u) * q2 + 0)) with (u * q1 + (1 - u) * q2) by ring. reflexivity.
  - rewrite (comb_modified_refines [q1; q2] [r1; r2] [u; 1 - u] 1) by (simpl; auto).
    unfold gbin, dotR, sumR. simpl.
    replace (Rpow34 r1 * u + (Rpow34 r2 * (1 - u) + 0)) with (u * Rpow34 r1 + (1 - u) * Rpow34 r2) by ring.
    replace (u * r1 + ((1 - u) * r2 + 0)) with (u * r1 + (1 - u) * r2) by ring.
    replace (u * q1 + ((1 - u) * q2 + 0)) with (u * q1 + (1 - u) * q2) by ring. reflexivity.
Qed.

Lemma gibbs_duhem_comb_UNIFAC r1 r2 q1 q2 t :
  0 < r1 -> 0 < r2 -> 0 < q1 -> 0 < q2 -> 0 < t < 1 ->
  t * Derive (fun u => nth 0 (loggammacs_UNIFAC KR [q1; q2] [r1; r2] [u; 1 - u]) 0) t +
  (1 - t) * Derive (fun u => nth 1 (loggammacs_UNIFAC KR [q1; q2] [r1; r2] [u; 1 - u]) 0) t = 0.
Proof.
  intros H1 H2 H3 H4 Ht.
  rewrite (Derive_ext _ (fun u => gbin r1 r1 q1 r1 r2 r1 r2 q1 q2 u)) by (intros u; apply comb_UNIFAC_binary).
  rewrite (Derive_ext (fun u => nth 1 _ 0) (fun u => gbin r2 r2 q2 r1 r2 r1 r2 q1 q2 u))
    by (intros u; apply comb_UNIFAC_binary).
  apply gibbs_duhem_comb_binary; assumption.
Qed.

Lemma gibbs_duhem_comb_modified r1 r2 q1 q2 t :
  0 < r1 -> 0 < r2 -> 0 < q1 -> 0 < q2 -> 0 < t < 1 ->
  t * Derive (fun u => nth 0 (loggammacs_modified_UNIFAC KR [q1; q2] [r1; r2] [u; 1 - u]) 0) t +
  (1 - t) * Derive (fun u => nth 1 (loggammacs_modified_UNIFAC KR [q1; q2] [r1; r2] [u; 1 - u]) 0) t = 0.
Proof.
  intros H1 H2 H3 H4 Ht.
  rewrite (Derive_ext _ (fun u => gbin (Rpow34 r1) r1 q1 (Rpow34 r1) (Rpow34 r2) r1 r2 q1 q2 u))
    by (intros u; apply comb_modified_binary).
  rewrite (Derive_ext (fun u => nth 1 _ 0) (fun u => gbin (Rpow34 r2) r2 q2 (Rpow34 r1) (Rpow34 r2) r1 r2 q1 q2 u))
    by (intros u; apply comb_modified_binary).
  apply gibbs_duhem_comb_binary; try assumption; apply Rpow34_pos.
Qed.
