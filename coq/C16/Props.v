From V Require Import Common.NumFacts C16.Model C16.Proofs.
