(* C16 — property theorems only.  Each is closed by [exact <lemma>] and followed by
   Print Assumptions.  gamma_UNIFAC, gamma_modified_UNIFAC, loggammacs_*, psi_*,
   group_activity_coefficients are the terms generated from the source on this run
   (Gen_kernels.v, Gen_wrappers.v).  Theorems over an arbitrary carrier K need no axioms;
   theorems at KR (real exp / ln / x^(3/4)) use the standard library's real numbers. *)
From V Require Import C16.Model C16.ModelJac C16.Proofs C16.ProofsR C16.ProofsIdx C16.ProofsPerm C16.GibbsDuhem C16.ProofsGD.
From V Require Import C16.GibbsDuhemResid C16.ProofsDeep C16.ResidN C16.ProofsResidN C16.ProofsGDFull C16.ProofsJac.
From Coquelicot Require Import Coquelicot.
From Coq Require Import Reals List Permutation Lia.
From Coq Require Import Lra.
Import ListNotations.

(* ------------------------------------------------------------------ x_untouched *)
(* the function used inside the flash solvers leaves the composition array it is given alone *)
Theorem C16_x_untouched_UNIFAC : forall A (K : KOps A) x T inter gpsis mask qs rs Qs cg cQfs index w,
  gamma_UNIFAC K x T inter gpsis mask qs rs Qs cg cQfs index = Ok w -> w_x w = x.
Proof. intros A K. exact (wrapper_x_untouched K _ _ _ _). Qed.
Print Assumptions C16_x_untouched_UNIFAC.

Theorem C16_x_untouched_modified : forall A (K : KOps A) x T inter gpsis mask qs rs Qs cg cQfs index w,
  gamma_modified_UNIFAC K x T inter gpsis mask qs rs Qs cg cQfs index = Ok w -> w_x w = x.
Proof. intros A K. exact (wrapper_x_untouched K _ _ _ _). Qed.
Print Assumptions C16_x_untouched_modified.

(* ... hence Gamma(x, T) leaves the caller's object as it was, also when np.asarray aliases it *)
Theorem C16_call_x_untouched : forall A (K : KOps A) x T c,
  (forall a, call (gamma_UNIFAC K) x T a = Ok c -> c_x c = xval x) /\
  (forall a, call (gamma_modified_UNIFAC K) x T a = Ok c -> c_x c = xval x).
Proof.
  intros A K x T c. split; intros a; apply call_x_untouched; intros w; unfold f_apply;
    apply (wrapper_x_untouched K).
Qed.
Print Assumptions C16_call_x_untouched.

(* every input is answered (no unbound local, whatever the sub-composition sums to) *)
Theorem C16_wrappers_total : forall A (K : KOps A) x T gpsis mask qs rs Qs cg cQfs index,
  (forall inter, exists w, gamma_UNIFAC K x T inter gpsis mask qs rs Qs cg cQfs index = Ok w) /\
  (forall inter, exists w, gamma_modified_UNIFAC K x T inter gpsis mask qs rs Qs cg cQfs index = Ok w).
Proof. intros A K x T gpsis mask qs rs Qs cg cQfs index. split; intros inter; apply (wrapper_total K). Qed.
Print Assumptions C16_wrappers_total.

(* ------------------------------------------------------------------ no_group_is_one *)
Theorem C16_no_group_is_one : forall A (K : KOps A) x T gpsis mask qs rs Qs cg cQfs index w j,
  ~ In j index ->
  (forall inter, gamma_UNIFAC K x T inter gpsis mask qs rs Qs cg cQfs index = Ok w ->
     length (w_gamma w) = length x /\ nth j (w_gamma w) (kone K) = kone K) /\
  (forall inter, gamma_modified_UNIFAC K x T inter gpsis mask qs rs Qs cg cQfs index = Ok w ->
     length (w_gamma w) = length x /\ nth j (w_gamma w) (kone K) = kone K).
Proof.
  intros A K x T gpsis mask qs rs Qs cg cQfs index w j Hn. split; intros inter H;
    eapply (wrapper_no_group_is_one K); eauto.
Qed.
Print Assumptions C16_no_group_is_one.

(* ------------------------------------------------------------------ f_eq_call *)
Theorem C16_f_eq_call : forall A I (K : KOps A) (f : wfun (A:=A) (I:=I)) x T a,
  (forall c, call f x T a = Ok c ->
     exists w, f_apply f (xval x) T a = Ok w /\ c_gamma c = w_gamma w /\ c_gpsis c = w_gpsis w) /\
  (forall w, f_apply f (xval x) T a = Ok w -> exists c, call f x T a = Ok c /\ c_gamma c = w_gamma w) /\
  (forall e, call f x T a = Err e <-> f_apply f (xval x) T a = Err e).
Proof.
  intros A I K f x T a. split; [|split].
  - intros c. apply call_eq_f.
  - intros w. apply f_eq_call.
  - intros e. apply call_err_iff.
Qed.
Print Assumptions C16_f_eq_call.

(* ... over call HISTORIES on one object: whatever sequence of obj(x, T) (array passed by reference or copied),
   obj.f(x, T, *obj.args), obj.activity_coefficients(v, T) (the object form on the sub-system), in-place rewrites of the
   caller's composition arrays and in-place rewrites of arrays that earlier calls RETURNED came before, the object
   behaves like the state-free specification spec_hist: every answer is the function gamma_of / act_spec of the CURRENT
   content of the array and T (so obj(x, T) = obj.f(x, T, *args) at every step, no hidden state, no sharing of
   returned arrays); the caller's arrays change only by the caller's own writes; a returned array changes only when
   the caller writes to it; the object's interaction table is never changed and its _group_psis buffer stays
   "written through the mask only".  Starting point: the state __new__ leaves (buffer of zeros = clean) *)
Theorem C16_f_eq_call_history : forall A (K : KOps A) arrays results ops,
  (forall a, (forall T0, same_shape (psi_UNIFAC K T0 (a_inter a)) (a_mask a)) -> clean_buffer K (a_mask a) (a_gpsis a) ->
     let S := spec_hist (gamma_UNIFAC K) (act_spec K (psi_UNIFAC K) (loggammacs_UNIFAC K) (group_activity_coefficients K))
                        a (arrays, results) ops in
     let R := run_hist (gamma_UNIFAC K) (activity_coefficients_UNIFAC K) (mkH arrays results a) ops in
     snd R = snd S /\ h_arrays (fst R) = fst (fst S) /\ h_results (fst R) = snd (fst S) /\
     a_inter (h_args (fst R)) = a_inter a /\ clean_buffer K (a_mask a) (a_gpsis (h_args (fst R)))) /\
  (forall a, (forall T0, same_shape (psi_modified_UNIFAC K T0 (a_inter a)) (a_mask a)) ->
     clean_buffer K (a_mask a) (a_gpsis a) ->
     let S := spec_hist (gamma_modified_UNIFAC K)
                        (act_spec K (psi_modified_UNIFAC K) (loggammacs_modified_UNIFAC K) (group_activity_coefficients K))
                        a (arrays, results) ops in
     let R := run_hist (gamma_modified_UNIFAC K) (activity_coefficients_modified K) (mkH arrays results a) ops in
     snd R = snd S /\ h_arrays (fst R) = fst (fst S) /\ h_results (fst R) = snd (fst S) /\
     a_inter (h_args (fst R)) = a_inter a /\ clean_buffer K (a_mask a) (a_gpsis (h_args (fst R)))).
Proof.
  intros A K arrays results ops. split; intros a Hs Hc.
  - exact (wrapper_history K ScatterInside (psi_UNIFAC K) (psi_UNIFAC_effect K) (loggammacs_UNIFAC K)
             (group_activity_coefficients K) a arrays results ops Hs Hc).
  - exact (wrapper_history K ScatterInside (psi_modified_UNIFAC K) (psi_modified_UNIFAC_effect K)
             (loggammacs_modified_UNIFAC K) (group_activity_coefficients K) a arrays results ops Hs Hc).
Qed.
Print Assumptions C16_f_eq_call_history.

(* the object form agrees with the functional form: activity_coefficients on the normalised sub-composition is, entry
   for entry, what the wrapper scatters to the members with groups (same kernel, same masked psis) *)
Theorem C16_object_form_is_kernel : forall A (K : KOps A) a v T,
  act_spec K (psi_modified_UNIFAC K) (loggammacs_modified_UNIFAC K) (group_activity_coefficients K) a v T =
  (let psis := psi_modified_UNIFAC K T (a_inter a) in
   group_activity_coefficients K v (a_chemgroups a) (loggammacs_modified_UNIFAC K (a_qs a) (a_rs a) v) (a_Qs a) psis
     (a_cQfs a) (fill_group_psis K psis (a_mask a))).
Proof. reflexivity. Qed.
Print Assumptions C16_object_form_is_kernel.

(* in the specification the composition arrays are touched by HSet only *)
Theorem C16_history_arrays_only_caller_writes : forall A I (f : wfun (A:=A) (I:=I)) act a ops arrays results,
  fst (fst (spec_hist f act a (arrays, results) ops)) =
  fold_left (fun arr o => match o with HSet r v => upd arr r v | _ => arr end) ops arrays.
Proof. intros A I f act a ops arrays results. apply spec_hist_arrays. Qed.
Print Assumptions C16_history_arrays_only_caller_writes.

(* ideal object (IdealActivityCoefficients and the fallback of __new__): over every history of calls, .f calls
   and in-place rewrites of previously returned arrays, every call answers ones *)
Theorem C16_ideal_one_history : forall A (K : KOps A) ops results,
  Forall (fun o => match o with
                   | None => True
                   | Some (FScalar v) => v = kq K 1
                   | Some (FArray g) => forall i, nth i g (kq K 1) = kq K 1
                   end) (snd (run_ideal_hist K results ops)).
Proof. intros A K ops results. apply (ideal_hist_ones K). Qed.
Print Assumptions C16_ideal_one_history.

(* the object __new__ hands out (ideal fallback included): obj(x, T) and obj.f(x, T, *obj.args) agree *)
Theorem C16_obj_f_eq_call : forall A I (K : KOps A) (o : gobj (A:=A) (I:=I)) x T g xa,
  obj_call K o x T = Ok (g, xa) ->
  match obj_f K o (xval x) T with
  | Ok (FScalar v) => length g = length (xval x) /\ forall i, nth i g v = v
  | Ok (FArray v) => g = v
  | Err _ => False
  end.
Proof. intros A I K. exact (obj_f_eq_call K). Qed.
Print Assumptions C16_obj_f_eq_call.

(* ------------------------------------------------------------------ ideal_one *)
Theorem C16_ideal_one : forall xs : list R,
  ideal_f KR = 1%R /\ ideal_fugacity_call KR = 1%R /\ mock_poyinting_call KR = 1%R /\
  length (ideal_activity_call KR xs) = length xs /\
  (forall i, nth i (ideal_activity_call KR xs) 1%R = 1%R) /\
  (forall (f : wfun (A:=R) (I:=unit)) a, (length (a_index a) <= 1)%nat -> new_obj f a = ObjIdeal).
Proof.
  intros xs. unfold ideal_f, ideal_fugacity_call, mock_poyinting_call, ideal_activity_call.
  change (kq KR 1) with (Q2R (1 # 1)). rewrite Q2R_1'.
  repeat split; auto.
  - apply repeat_length.
  - intros i. revert i. induction (length xs); intros [|i]; simpl; auto.
  - intros f a H. apply (proj1 (new_obj_kind f a) H).
Qed.
Print Assumptions C16_ideal_one.

(* ------------------------------------------------------------------ comb_refines_literature *)
Theorem C16_comb_refines_literature_UNIFAC : forall qs rs x i,
  length qs = length x -> length rs = length x -> (i < length x)%nat ->
  let V := (nth i rs 0 / dotR x rs)%R in
  let F := (nth i qs 0 / dotR x qs)%R in
  nth i (loggammacs_UNIFAC KR qs rs x) 0%R = lit_comb V V F (nth i qs 0%R).
Proof. exact comb_UNIFAC_refines. Qed.
Print Assumptions C16_comb_refines_literature_UNIFAC.

Theorem C16_comb_refines_literature_modified : forall qs rs x i,
  length qs = length x -> length rs = length x -> (i < length x)%nat ->
  let V := (nth i rs 0 / dotR x rs)%R in
  let F := (nth i qs 0 / dotR x qs)%R in
  let Vp := (Rpow34 (nth i rs 0) / dotR (map Rpow34 rs) x)%R in
  nth i (loggammacs_modified_UNIFAC KR qs rs x) 0%R = lit_comb Vp V F (nth i qs 0%R).
Proof. exact comb_modified_refines. Qed.
Print Assumptions C16_comb_refines_literature_modified.

(* ------------------------------------------------------------------ pure_limit (combinatorial part) *)
Theorem C16_pure_limit_comb : forall cs i, (i < length cs)%nat -> pure_at cs i ->
  let c := nth i cs (mkChem 0 0 0 [] [] 0) in cr c <> 0%R -> cq c <> 0%R ->
  nth i (loggammacs_UNIFAC KR (map cq cs) (map cr cs) (map cx cs)) 0%R = 0%R /\
  nth i (loggammacs_modified_UNIFAC KR (map cq cs) (map cr cs) (map cx cs)) 0%R = 0%R.
Proof.
  intros cs i Hi P c Hr Hq. split.
  - exact (comb_UNIFAC_pure cs i Hi P Hr Hq).
  - exact (comb_modified_pure cs i Hi P Hr Hq).
Qed.
Print Assumptions C16_pure_limit_comb.

(* ------------------------------------------------------------------ perm_equivariant (combinatorial part) *)
Theorem C16_perm_equivariant_comb : forall cs cs', Permutation cs cs' ->
  Permutation (combine cs (loggammacs_UNIFAC KR (map cq cs) (map cr cs) (map cx cs)))
              (combine cs' (loggammacs_UNIFAC KR (map cq cs') (map cr cs') (map cx cs'))) /\
  Permutation (combine cs (loggammacs_modified_UNIFAC KR (map cq cs) (map cr cs) (map cx cs)))
              (combine cs' (loggammacs_modified_UNIFAC KR (map cq cs') (map cr cs') (map cx cs'))).
Proof. intros cs cs' P. split; [exact (comb_UNIFAC_perm cs cs' P)|exact (comb_modified_perm cs cs' P)]. Qed.
Print Assumptions C16_perm_equivariant_comb.

(* ------------------------------------------------------------------ the wrapper evaluates the sub-system *)
(* chemical j = index[i] receives the kernel's value for row i at the normalised sub-composition *)
Theorem C16_wrapper_evaluates_subsystem : forall A (K : KOps A) x T inter gpsis mask qs rs Qs cg cQfs index w i j,
  gamma_modified_UNIFAC K x T inter gpsis mask qs rs Qs cg cQfs index = Ok w ->
  (1 < length index)%nat -> NoDup index -> nth_error index i = Some j -> (j < length x)%nat ->
  let x_sub := snd (gather_loop K GatherIntoSub index x (ones K (length index))) in
  let xsum := ksum K x_sub in
  keqb K xsum (kzero K) = false ->
  let xn := bc_10 (kdiv K) x_sub xsum in
  let psis := psi_modified_UNIFAC K T inter in
  nth j (w_gamma w) (kone K) =
  nth i (group_activity_coefficients K xn cg (loggammacs_modified_UNIFAC K qs rs xn) Qs psis cQfs
           (fill_group_psis K psis mask)) (kzero K).
Proof. intros A K. exact (wrapper_group_value K _ _ _ _). Qed.
Print Assumptions C16_wrapper_evaluates_subsystem.

Theorem C16_wrapper_evaluates_subsystem_UNIFAC : forall A (K : KOps A) x T inter gpsis mask qs rs Qs cg cQfs index w i j,
  gamma_UNIFAC K x T inter gpsis mask qs rs Qs cg cQfs index = Ok w ->
  (1 < length index)%nat -> NoDup index -> nth_error index i = Some j -> (j < length x)%nat ->
  let x_sub := snd (gather_loop K GatherIntoSub index x (ones K (length index))) in
  let xsum := ksum K x_sub in
  keqb K xsum (kzero K) = false ->
  let xn := bc_10 (kdiv K) x_sub xsum in
  let psis := psi_UNIFAC K T inter in
  nth j (w_gamma w) (kone K) =
  nth i (group_activity_coefficients K xn cg (loggammacs_UNIFAC K qs rs xn) Qs psis cQfs
           (fill_group_psis K psis mask)) (kzero K).
Proof. intros A K. exact (wrapper_group_value K _ _ _ _). Qed.
Print Assumptions C16_wrapper_evaluates_subsystem_UNIFAC.

(* ------------------------------------------------------------------ perm_equivariant (whole coefficient) *)
(* gamma of the sub-system with groups (combinatorial x residual): every chemical keeps its value
   when the list of chemicals (with its composition, group counts and Q-fraction rows) is permuted *)
Theorem C16_perm_equivariant : forall Qs psis gpsis G cs cs', Permutation cs cs' ->
  (forall c, In c cs -> length (cg c) = G) ->
  Permutation (combine cs (gamma_sub_UNIFAC Qs psis gpsis cs)) (combine cs' (gamma_sub_UNIFAC Qs psis gpsis cs')) /\
  Permutation (combine cs (gamma_sub_modified Qs psis gpsis cs)) (combine cs' (gamma_sub_modified Qs psis gpsis cs')).
Proof. exact gamma_sub_perm. Qed.
Print Assumptions C16_perm_equivariant.

(* ... through the `index` gather / scatter of the FULL chemical list (members without group data included, fd = None):
   with the arguments laid out as __new__ does for the list (index = positions of the members with groups), every
   chemical keeps its coefficient when the list is permuted -- both wrappers, every branch (fewer than two members with
   groups, zero sub-composition, group path) *)
Theorem C16_perm_equivariant_full : forall G fs fs' T Qs mask, Permutation fs fs' ->
  (forall f c, In f fs -> fd f = Some c -> length (cg c) = G) ->
  (forall inter g0 g0' w w',
     gamma_modified_UNIFAC KR (map fx fs) T inter g0 mask (a_qs_of fs) (a_rs_of fs) Qs (a_cg_of fs) (a_cQ_of fs)
                           (index_from 0 fs) = Ok w ->
     gamma_modified_UNIFAC KR (map fx fs') T inter g0' mask (a_qs_of fs') (a_rs_of fs') Qs (a_cg_of fs') (a_cQ_of fs')
                           (index_from 0 fs') = Ok w' ->
     Permutation (combine fs (w_gamma w)) (combine fs' (w_gamma w'))) /\
  (forall inter g0 g0' w w',
     gamma_UNIFAC KR (map fx fs) T inter g0 mask (a_qs_of fs) (a_rs_of fs) Qs (a_cg_of fs) (a_cQ_of fs)
                  (index_from 0 fs) = Ok w ->
     gamma_UNIFAC KR (map fx fs') T inter g0' mask (a_qs_of fs') (a_rs_of fs') Qs (a_cg_of fs') (a_cQ_of fs')
                  (index_from 0 fs') = Ok w' ->
     Permutation (combine fs (w_gamma w)) (combine fs' (w_gamma w'))).
Proof. exact wrappers_perm. Qed.
Print Assumptions C16_perm_equivariant_full.

(* ... and under a consistent permutation p of the GROUP columns (Q, group counts, Q-fraction rows, rows and columns of
   psis and of the masked psis): the set-iteration order of the group ids in __new__ does not matter *)
Theorem C16_group_column_perm : forall G p, (0 < G)%nat -> Permutation p (seq 0 G) ->
  forall Qs psis gpsis cs,
  length Qs = G -> rectangular psis G G -> rectangular gpsis G G ->
  (forall c, In c cs -> length (cg c) = G /\ length (cQ c) = G) ->
  gamma_sub_UNIFAC (permL p Qs) (permM p psis) (permM p gpsis) (map (perm_chem p) cs) = gamma_sub_UNIFAC Qs psis gpsis cs /\
  gamma_sub_modified (permL p Qs) (permM p psis) (permM p gpsis) (map (perm_chem p) cs) = gamma_sub_modified Qs psis gpsis cs.
Proof. intros G p HG Pp. exact (gamma_sub_column_perm G p HG Pp). Qed.
Print Assumptions C16_group_column_perm.

(* ------------------------------------------------------------------ pure_limit (whole coefficient) *)
(* full statement: with the arrays __new__ derives from chemgroups and Q (chem_Qfractions rows, group_mask, masked
   psis), non-negative group parameters and positive psis (psi = exp(..) > 0), gamma_i = 1 at x = e_i for the whole
   coefficient (combinatorial x residual), original UNIFAC and modified (Dortmund, NIST) kernels *)
Definition C16_pure_limit_statement : Prop :=
  forall (G : nat) (Qs : list R) (psis : list (list R)) (cs : list chem) (i : nat),
  (0 < G)%nat -> length Qs = G -> rectangular psis G G ->
  (forall k, (k < G)%nat -> 0 <= nth k Qs 0)%R ->
  (forall m n, (m < G)%nat -> (n < G)%nat -> 0 < ent psis m n)%R ->
  (forall c, In c cs -> length (cg c) = G /\ (forall k, 0 <= nth k (cg c) 0)%R) ->
  (forall c, In c cs -> exists k, (k < G)%nat /\ (0 < nth k Qs 0)%R /\ (0 < nth k (cg c) 0)%R) ->
  map cQ cs = derive_cQfs KR (map cg cs) Qs ->
  (i < length cs)%nat -> pure_at cs i ->
  let c := nth i cs chem0 in cr c <> 0%R -> cq c <> 0%R ->
  let gpsis := fill_group_psis KR psis (derive_mask KR (map cQ cs) G) in
  nth i (gamma_sub_UNIFAC Qs psis gpsis cs) 0%R = 1%R /\ nth i (gamma_sub_modified Qs psis gpsis cs) 0%R = 1%R.

Theorem C16_pure_limit : C16_pure_limit_statement.
Proof. exact gamma_pure_from_new. Qed.
Print Assumptions C16_pure_limit.

(* the intermediate form: the limit holds whenever the stored reference term of chemical i is the mixture term at
   pure i on the groups i contains (the literature's definition of Gamma_k^(i)); C16_pure_limit derives that
   hypothesis from the construction of chem_Qfractions / group_mask *)
Theorem C16_pure_limit_partial : forall Qs psis gpsis G cs i, (i < length cs)%nat -> pure_at cs i ->
  (forall c, In c cs -> length (cg c) = G) ->
  let c := nth i cs chem0 in cr c <> 0%R -> cq c <> 0%R ->
  reference_is_pure_mixture Qs psis gpsis c ->
  nth i (gamma_sub_UNIFAC Qs psis gpsis cs) 0%R = 1%R /\ nth i (gamma_sub_modified Qs psis gpsis cs) 0%R = 1%R.
Proof. exact gamma_pure. Qed.
Print Assumptions C16_pure_limit_partial.

(* ------------------------------------------------------------------ gibbs_duhem_comb (binary mixtures) *)
(* x1 dln(gamma1^C)/dx1 + x2 dln(gamma2^C)/dx1 = 0 along x2 = 1 - x1, for the translated kernels *)
Theorem C16_gibbs_duhem_comb_binary : forall r1 r2 q1 q2 t,
  (0 < r1 -> 0 < r2 -> 0 < q1 -> 0 < q2 -> 0 < t < 1 ->
   t * Derive (fun u => nth 0 (loggammacs_UNIFAC KR [q1; q2] [r1; r2] [u; 1 - u]) 0) t +
   (1 - t) * Derive (fun u => nth 1 (loggammacs_UNIFAC KR [q1; q2] [r1; r2] [u; 1 - u]) 0) t = 0)%R /\
  (0 < r1 -> 0 < r2 -> 0 < q1 -> 0 < q2 -> 0 < t < 1 ->
   t * Derive (fun u => nth 0 (loggammacs_modified_UNIFAC KR [q1; q2] [r1; r2] [u; 1 - u]) 0) t +
   (1 - t) * Derive (fun u => nth 1 (loggammacs_modified_UNIFAC KR [q1; q2] [r1; r2] [u; 1 - u]) 0) t = 0)%R.
Proof.
  intros r1 r2 q1 q2 t. split.
  - exact (gibbs_duhem_comb_UNIFAC r1 r2 q1 q2 t).
  - exact (gibbs_duhem_comb_modified r1 r2 q1 q2 t).
Qed.
Print Assumptions C16_gibbs_duhem_comb_binary.

(* n chemicals, direction e_a - e_b (x_a + h, x_b - h), at any point of the open simplex: the combinatorial part of
   both translated kernels satisfies sum_i x_i dln(gamma_i^C)/dh = 0 *)
Theorem C16_gibbs_duhem_comb : forall cs a b, (a < length cs)%nat -> (b < length cs)%nat ->
  (forall c, In c cs -> 0 < cx c /\ 0 < cr c /\ 0 < cq c)%R ->
  sum_over cs cx = 1%R ->
  sum_over (enum cs) (fun ic => cx (snd ic) *
     Derive (fun h => nth (fst ic) (loggammacs_modified_UNIFAC KR (map cq cs) (map cr cs) (map cx (shift_x cs a b h))) 0) 0)%R = 0%R /\
  sum_over (enum cs) (fun ic => cx (snd ic) *
     Derive (fun h => nth (fst ic) (loggammacs_UNIFAC KR (map cq cs) (map cr cs) (map cx (shift_x cs a b h))) 0) 0)%R = 0%R.
Proof. exact gibbs_duhem_comb_n. Qed.
Print Assumptions C16_gibbs_duhem_comb.

(* algebraic core of Gibbs-Duhem for the residual (group) part: the group kernel is homogeneous of degree 0 in the
   amounts -- scaling every amount by l leaves every coefficient unchanged.  For ANY carrier whose operations satisfy
   the four identities used (true in a field for l <> 0), and at the reals *)
Theorem C16_group_kernel_homogeneous : forall A (K : KOps A) (l : A),
  (forall a b, kmul K a (kmul K l b) = kmul K l (kmul K a b)) ->
  (forall a b, kmul K l (kadd K a b) = kadd K (kmul K l a) (kmul K l b)) ->
  kmul K l (kq K 0) = kq K 0 ->
  (forall a b, kdiv K (kmul K l a) (kmul K l b) = kdiv K a b) ->
  forall x cgm lc Qs psis cQfs gpsis,
  group_activity_coefficients K (map (kmul K l) x) cgm lc Qs psis cQfs gpsis =
  group_activity_coefficients K x cgm lc Qs psis cQfs gpsis.
Proof. intros A K l H1 H2 H3 H4. exact (gac_homogeneous K l H1 H2 H3 H4). Qed.
Print Assumptions C16_group_kernel_homogeneous.

Theorem C16_group_kernel_homogeneous_R : forall l x cgm lc Qs psis cQfs gpsis, l <> 0%R ->
  group_activity_coefficients KR (map (Rmult l) x) cgm lc Qs psis cQfs gpsis =
  group_activity_coefficients KR x cgm lc Qs psis cQfs gpsis.
Proof. exact gac_homogeneous_R. Qed.
Print Assumptions C16_group_kernel_homogeneous_R.

(* full statement (n chemicals, combinatorial x residual, both models, along e_a - e_b at a point of the open simplex).
   The three shape hypotheses (psis and gpsis are G x G, the stored reference rows have length G) are the array shapes
   __new__ builds.  Proved below (C16_gibbs_duhem) from the combinatorial part above and the residual part
   (C16_gibbs_duhem_resid); the oracle of props/C16.py still measures it on the real objects by finite differences. *)
Definition C16_gibbs_duhem_statement : Prop :=
  forall (Qs : list R) (psis gpsis : list (list R)) (G : nat) (cs : list chem) (a b : nat),
  a <> b -> (a < length cs)%nat -> (b < length cs)%nat -> length Qs = G ->
  rectangular psis G G -> rectangular gpsis G G -> (forall c, In c cs -> length (cQ c) = G) ->
  (forall c, In c cs -> (0 < cx c /\ 0 < cq c /\ 0 < cr c)%R /\ length (cg c) = G /\
                        (forall k, 0 <= nth k (cg c) 0)%R /\ (exists k, 0 < nth k (cg c) 0)%R) ->
  sum_over cs cx = 1%R ->
  (forall k, (k < G)%nat -> 0 < nth k Qs 0)%R ->
  (forall k n, (k < G)%nat -> (n < G)%nat -> 0 < nth n (nth k psis []) 0)%R ->
  sum_over (enum cs) (fun ic =>
     cx (snd ic) * Derive (fun h => ln (nth (fst ic) (gamma_sub_modified Qs psis gpsis (shift_x cs a b h)) 0)) 0)%R = 0%R /\
  sum_over (enum cs) (fun ic =>
     cx (snd ic) * Derive (fun h => ln (nth (fst ic) (gamma_sub_UNIFAC Qs psis gpsis (shift_x cs a b h)) 0)) 0)%R = 0%R.

(* ------------------------------------------------------------------ deepening *)
(* pure limit THROUGH the gather / scatter: both wrappers on the full chemical list (members without groups included,
   arguments laid out as __new__ does, chem_Qfractions and group_mask as __new__ derives them) at x = e_j, j a member
   with groups, return exactly 1 for j *)
Theorem C16_wrapper_pure_limit : forall (G : nat) (Qs : list R) (fs : list fchem) (j : nat) (c : chem) T,
  (0 < G)%nat -> length Qs = G -> (forall k, (k < G)%nat -> 0 <= nth k Qs 0)%R ->
  (forall f c0, In f fs -> fd f = Some c0 ->
     length (cg c0) = G /\ (forall k, 0 <= nth k (cg c0) 0)%R /\
     exists k, (k < G)%nat /\ (0 < nth k Qs 0)%R /\ (0 < nth k (cg c0) 0)%R) ->
  a_cQ_of fs = derive_cQfs KR (a_cg_of fs) Qs ->
  (j < length fs)%nat -> fd (nth j fs fchem0) = Some c -> unit_at fs j -> cr c <> 0%R -> cq c <> 0%R ->
  let mask := derive_mask KR (a_cQ_of fs) G in
  (forall inter g0 w, rectangular (psi_modified_UNIFAC KR T inter) G G ->
     gamma_modified_UNIFAC KR (map fx fs) T inter g0 mask (a_qs_of fs) (a_rs_of fs) Qs (a_cg_of fs) (a_cQ_of fs)
                           (index_from 0 fs) = Ok w -> nth j (w_gamma w) 0%R = 1%R) /\
  (forall inter g0 w, rectangular (psi_UNIFAC KR T inter) G G ->
     gamma_UNIFAC KR (map fx fs) T inter g0 mask (a_qs_of fs) (a_rs_of fs) Qs (a_cg_of fs) (a_cQ_of fs)
                  (index_from 0 fs) = Ok w -> nth j (w_gamma w) 0%R = 1%R).
Proof. exact wrapper_pure_limit. Qed.
Print Assumptions C16_wrapper_pure_limit.

(* Euler relation of the group kernel: constant along rays, so the radial derivative vanishes (all coefficients) *)
Theorem C16_group_kernel_radial_derivative : forall x cgm lc Qs psis cQfs gpsis i,
  Derive (fun l => nth i (group_activity_coefficients KR (map (Rmult l) x) cgm lc Qs psis cQfs gpsis) 0%R) 1 = 0%R.
Proof. exact gac_radial_derivative. Qed.
Print Assumptions C16_group_kernel_radial_derivative.

(* Gibbs-Duhem for the RESIDUAL (group) part of the generated kernel, binary mixtures of two chemicals each made of
   n_i groups of its own kind (two groups, arbitrary positive Q, psi; any stored reference rows): along x2 = 1 - x1,
   x1 dln(gamma1^R)/dx1 + x2 dln(gamma2^R)/dx1 = 0 *)
Theorem C16_gibbs_duhem_resid_two_groups : forall Q1 Q2 n1 n2 p11 p12 p21 p22 gpsis cQ1 cQ2 t,
  rectangular gpsis 2 2 -> length cQ1 = 2%nat -> length cQ2 = 2%nat ->
  (0 < Q1 -> 0 < Q2 -> 0 < n1 -> 0 < n2 -> 0 < p11 -> 0 < p12 -> 0 < p21 -> 0 < p22 -> 0 < t < 1 ->
   t * Derive (fun u => ln (nth 0 (group_activity_coefficients KR (u :: (1 - u) :: nil)
                  ((n1 :: 0 :: nil) :: (0 :: n2 :: nil) :: nil) (0 :: 0 :: nil) (Q1 :: Q2 :: nil)
                  ((p11 :: p12 :: nil) :: (p21 :: p22 :: nil) :: nil) (cQ1 :: cQ2 :: nil) gpsis) 0)) t +
   (1 - t) * Derive (fun u => ln (nth 1 (group_activity_coefficients KR (u :: (1 - u) :: nil)
                  ((n1 :: 0 :: nil) :: (0 :: n2 :: nil) :: nil) (0 :: 0 :: nil) (Q1 :: Q2 :: nil)
                  ((p11 :: p12 :: nil) :: (p21 :: p22 :: nil) :: nil) (cQ1 :: cQ2 :: nil) gpsis) 0)) t = 0)%R.
Proof.
  intros Q1 Q2 n1 n2 p11 p12 p21 p22 gpsis cQ1 cQ2 t Rg L1 L2.
  exact (gibbs_duhem_resid_two Q1 Q2 n1 n2 p11 p12 p21 p22 gpsis cQ1 cQ2 0%R 0%R 0%R 0%R Rg L1 L2 t).
Qed.
Print Assumptions C16_gibbs_duhem_resid_two_groups.

(* cross-derivative symmetry of the residual exponent, d ln(gamma_i^R)/dx_j = d ln(gamma_j^R)/dx_i (existence of the
   excess-Gibbs potential G = - sum_k Q_k W_k ln(sum_m Theta_m psi_mk)): n chemicals, any number of groups per chemical.
   bump_x cs j h (ProofsResidN.v) is the composition x + h e_j.  Proved below in full, degenerate cases included. *)
Definition C16_residual_cross_symmetry_statement : Prop :=
  forall (Qs : list R) (psis gpsis : list (list R)) (G : nat) (cs : list chem) (i j : nat),
  (i < length cs)%nat -> (j < length cs)%nat -> length Qs = G -> rectangular psis G G -> rectangular gpsis G G ->
  (forall c, In c cs -> (0 < cx c)%R /\ length (cg c) = G /\ length (cQ c) = G /\ (forall k, 0 <= nth k (cg c) 0)%R) ->
  (forall k, (k < G)%nat -> 0 < nth k Qs 0)%R ->
  (forall m n, (m < G)%nat -> (n < G)%nat -> 0 < ent psis m n)%R ->
  Derive (fun h => resid_of Qs psis gpsis (wc_of (bump_x cs j h)) (nth i cs chem0)) 0 =
  Derive (fun h => resid_of Qs psis gpsis (wc_of (bump_x cs i h)) (nth j cs chem0)) 0.

Theorem C16_residual_cross_symmetry : C16_residual_cross_symmetry_statement.
Proof.
  intros Qs psis gpsis G cs i j Hi Hj LQ Rp Rg Shape Qpos Ppos.
  assert (NE : cs <> []) by (intros E; subst; simpl in Hi; lia).
  assert (Shape0 : forall c, In c cs -> (0 <= cx c)%R /\ length (cg c) = G /\ length (cQ c) = G /\ (forall k, 0 <= nth k (cg c) 0)%R).
  { intros c Hc. destruct (Shape c Hc) as (X & A & B & C). repeat split; auto. lra. }
  assert (Strict : forall c, In c cs -> (0 < cx c)%R) by (intros c Hc; destruct (Shape c Hc) as (X & _); exact X).
  exact (resid_cross_symmetry G Qs psis gpsis cs LQ Rp Rg NE Shape0 Qpos Ppos i j Strict Hi Hj).
Qed.
Print Assumptions C16_residual_cross_symmetry.

(* the derivative itself, for every chemical c of the mixture and every direction dx of the composition, in the form that is
   symmetric in (Q nu_c, Q D): Sym (ResidN.v) is the Hessian of the potential applied to the two group-amount directions *)
Theorem C16_residual_derivative_symmetric_form : forall (Qs : list R) (psis gpsis : list (list R)) (G : nat) (cs : list chem) dx c,
  (0 < G)%nat -> length Qs = G -> rectangular psis G G -> rectangular gpsis G G -> cs <> [] ->
  (forall c, In c cs -> (0 <= cx c)%R /\ length (cg c) = G /\ length (cQ c) = G /\ (forall k, 0 <= nth k (cg c) 0)%R) ->
  (forall k, (k < G)%nat -> 0 < nth k Qs 0)%R ->
  (forall m n, (m < G)%nat -> (n < G)%nat -> 0 < ent psis m n)%R ->
  (exists c k, In c cs /\ (k < G)%nat /\ (0 < cx c)%R /\ (0 < nth k (cg c) 0)%R) -> In c cs ->
  is_derive (fun h => resid_of Qs psis gpsis (wc_of (pert cs (fun i => h * dx i)%R)) c) 0%R
            (Sym G Qs psis (wc_of cs) (lam Qs (cg c)) (lam Qs (dirv G cs dx))) /\
  forall p r, Sym G Qs psis (wc_of cs) p r = Sym G Qs psis (wc_of cs) r p.
Proof.
  intros Qs psis gpsis G cs dx c HG LQ Rp Rg NE Shape Qpos Ppos Ex Hc.
  pose proof (tau_pos_of_group G Qs cs NE Shape Qpos Ex) as T.
  split; [|intros p r; apply Sym_sym].
  rewrite <- (resid_line_Sym G Qs psis (wc_of cs) (dirv G cs dx) (sig_pos_of_tau G Qs psis cs NE Shape Qpos Ppos T) c).
  exact (resid_derive_direction G Qs psis gpsis cs LQ Rp Rg NE Shape Qpos Ppos HG dx c Hc T).
Qed.
Print Assumptions C16_residual_derivative_symmetric_form.

(* Gibbs-Duhem for the RESIDUAL (group) part of the generated kernel: n chemicals, any group make-up, every direction dx of
   the composition (in particular e_a - e_b), at every point of the CLOSED simplex / orthant where some chemical that is
   present carries a group (vertices, edges and trace amounts included): sum_i x_i d ln(gamma_i^R) = 0.
   pert cs d is the composition x + d. *)
Theorem C16_gibbs_duhem_resid : forall (Qs : list R) (psis gpsis : list (list R)) (G : nat) (cs : list chem) (dx : nat -> R),
  (0 < G)%nat -> length Qs = G -> rectangular psis G G -> rectangular gpsis G G -> cs <> [] ->
  (forall c, In c cs -> (0 <= cx c)%R /\ length (cg c) = G /\ length (cQ c) = G /\ (forall k, 0 <= nth k (cg c) 0)%R) ->
  (forall k, (k < G)%nat -> 0 < nth k Qs 0)%R ->
  (forall m n, (m < G)%nat -> (n < G)%nat -> 0 < ent psis m n)%R ->
  (exists c k, In c cs /\ (k < G)%nat /\ (0 < cx c)%R /\ (0 < nth k (cg c) 0)%R) ->
  sum_over (enum cs) (fun ic => cx (snd ic) *
     Derive (fun h => ln (nth (fst ic) (group_activity_coefficients KR (map cx (pert cs (fun i => h * dx i)%R)) (map cg cs)
                                          (map (fun _ => 0%R) cs) Qs psis (map cQ cs) gpsis) 0%R)) 0)%R = 0%R.
Proof. intros Qs psis gpsis G cs dx. exact (gibbs_duhem_resid_kernel G Qs psis gpsis cs dx). Qed.
Print Assumptions C16_gibbs_duhem_resid.

(* Gibbs-Duhem for the WHOLE coefficient of the sub-system with groups, both models *)
Theorem C16_gibbs_duhem : C16_gibbs_duhem_statement.
Proof.
  intros Qs psis gpsis G cs a b _ Ha Hb LQ Rp Rg LcQ Data Sum1 Qpos Ppos.
  assert (Ina : In (nth a cs chem0) cs) by (apply nth_In; exact Ha).
  destruct (Data _ Ina) as (_ & Lga & _ & (k0 & Pk0)).
  assert (Hk0 : (k0 < G)%nat).
  { destruct (Nat.lt_ge_cases k0 G) as [L|L]; [exact L|]. rewrite nth_overflow in Pk0 by lia. lra. }
  assert (HG : (0 < G)%nat) by lia.
  apply (gibbs_duhem_full G Qs psis gpsis cs a b HG LQ Rp Rg Ha Hb).
  - intros c Hc. destruct (Data c Hc) as ((X & _ & _) & Lg & Ng & _). repeat split; auto.
  - intros c Hc. destruct (Data c Hc) as ((X & Q0 & R0) & _). repeat split; auto.
  - exact Qpos.
  - exact Ppos.
  - exists (nth a cs chem0), k0. repeat split; auto.
  - exact Sum1.
Qed.
Print Assumptions C16_gibbs_duhem.

(* the EXECUTABLE Jacobian of ModelJac.v (the one the correspondence evaluates over option Q against the derivative measured
   on thermosteam's kernel): at the real carrier its entry (i, j) is the derivative of ln gamma_i^R of the translated group
   kernel along x + h e_j; the matrix is symmetric; and x^T J = 0 (Gibbs-Duhem of the residual part) *)
Theorem C16_resid_jacobian : forall (Qs : list R) (psis gpsis : list (list R)) (G : nat) (cs : list chem),
  length Qs = G -> rectangular psis G G -> rectangular gpsis G G ->
  (forall c, In c cs -> (0 <= cx c)%R /\ length (cg c) = G /\ length (cQ c) = G /\ (forall k, 0 <= nth k (cg c) 0)%R) ->
  (forall k, (k < G)%nat -> 0 < nth k Qs 0)%R ->
  (forall m n, (m < G)%nat -> (n < G)%nat -> 0 < ent psis m n)%R ->
  (exists c k, In c cs /\ (k < G)%nat /\ (0 < cx c)%R /\ (0 < nth k (cg c) 0)%R) ->
  let J := resid_jac KR (map cx cs) (map cg cs) Qs psis in
  (forall i j, (i < length cs)%nat -> (j < length cs)%nat ->
     is_derive (fun h => resid_of Qs psis gpsis (wc_of (bump_x cs j h)) (nth i cs chem0)) 0%R (nth j (nth i J []) 0%R) /\
     nth j (nth i J []) 0%R = nth i (nth j J []) 0%R) /\
  (forall j, (j < length cs)%nat -> sum_over (enum cs) (fun ic => cx (snd ic) * nth j (nth (fst ic) J []) 0)%R = 0%R).
Proof.
  intros Qs psis gpsis G cs LQ Rp Rg Shape Qpos Ppos Ex J. split.
  - intros i j Hi Hj. split.
    + exact (resid_jac_is_derivative G Qs psis gpsis cs i j LQ Rp Rg Shape Qpos Ppos Ex Hi Hj).
    + apply (resid_jac_symmetric G Qs psis cs i j LQ Rp); auto.
      intros c Hc. destruct (Shape c Hc) as (_ & L & _). exact L.
  - intros j Hj. exact (resid_jac_gibbs_duhem G Qs psis gpsis cs j LQ Rp Rg Shape Qpos Ppos Ex Hj).
Qed.
Print Assumptions C16_resid_jacobian.

(* ------------------------------------------------------------------ non-vacuity *)
Example C16_nonvacuous_pure :
  let cs := [mkChem 1 (7/5) (23/25) (1%R :: nil) (1%R :: nil) 0; mkChem 0 2 3 (1%R :: nil) (1%R :: nil) 0] in
  (0 < length cs)%nat /\ pure_at cs 0 /\ cr (nth 0 cs (mkChem 0 0 0 [] [] 0)) <> 0%R /\
  cq (nth 0 cs (mkChem 0 0 0 [] [] 0)) <> 0%R.
Proof.
  simpl. split; [lia|]. split; [|split; lra].
  intros [|[|j]] Hj; simpl in *; try reflexivity; lia.
Qed.

(* the hypotheses of C16_pure_limit_partial are met: water-like / alkane-like pair, one group each *)
Example C16_nonvacuous_reference :
  let cs := [mkChem 1 1 1 [1; 0] [1; 0] 0; mkChem 0 2 3 [0; 1] [0; 1] 0]%R in
  (0 < length cs)%nat /\ pure_at cs 0 /\ (forall c, In c cs -> length (cg c) = 2%nat) /\
  reference_is_pure_mixture [1; 2]%R [[1; 1]; [1; 1]]%R [[1; 0]; [0; 1]]%R (nth 0 cs chem0).
Proof.
  simpl. split; [lia|]. split; [|split].
  - intros [|[|j]] Hj; simpl in *; try reflexivity; lia.
  - intros c [E|[E|[]]]; subst; reflexivity.
  - intros k Hk. destruct k as [|[|k]]; simpl in Hk; try lra.
    2:{ destruct k; simpl in Hk; lra. }
    unfold lg_groups, chem_lg, bc_11, bc_10, bc_21, bc_01, sum_axis1, umap1, umap2, matvec, vdot.
    cbn [cg cQ map map2 transpose ksum fold_right kadd kmul kdiv ksub kneg kln kq keqb KR nth].
    rewrite ?Q2R_0', ?Q2R_1'.
    unfold Reqb.
    repeat match goal with |- context [Req_EM_T ?a ?b] => destruct (Req_EM_T a b); try lra end.
    repeat match goal with |- context [ln ?a] =>
      lazymatch a with 1%R => fail | _ => replace a with 1%R by (field; lra) end end.
    rewrite ln_1. field.
Qed.

(* the hypotheses of C16_pure_limit are met: two chemicals with one group each, rows of chem_Qfractions as __new__
   computes them, all psis = 1 *)
Example C16_nonvacuous_pure_limit :
  let Qs := [1; 2]%R in
  let cs := [mkChem 1 1 1 [1; 0] (cQ_row Qs [1; 0]) 0; mkChem 0 2 3 [0; 1] (cQ_row Qs [0; 1]) 0]%R in
  rectangular [[1; 1]; [1; 1]]%R 2 2 /\
  (forall k, (k < 2)%nat -> 0 <= nth k Qs 0)%R /\
  (forall m n, (m < 2)%nat -> (n < 2)%nat -> 0 < ent [[1; 1]; [1; 1]]%R m n)%R /\
  (forall c, In c cs -> length (cg c) = 2%nat /\ (forall k, 0 <= nth k (cg c) 0)%R) /\
  (forall c, In c cs -> exists k, (k < 2)%nat /\ (0 < nth k Qs 0)%R /\ (0 < nth k (cg c) 0)%R) /\
  map cQ cs = derive_cQfs KR (map cg cs) Qs /\ pure_at cs 0.
Proof.
  cbv zeta. split; [|split; [|split; [|split; [|split; [|split]]]]].
  - split; [reflexivity|]. intros row [E|[E|[]]]; subst; reflexivity.
  - intros [|[|k]] Hk; simpl; try lra; lia.
  - intros [|[|m]] [|[|n]] Hm Hn; unfold ent; simpl; try lra; lia.
  - intros c [E|[E|[]]]; subst; (split; [reflexivity|]); intros [|[|[|k]]]; simpl; lra.
  - intros c [E|[E|[]]]; subst; [exists 0%nat|exists 1%nat]; simpl; repeat split; try lia; lra.
  - reflexivity.
  - intros [|[|j]] Hj; simpl in *; try reflexivity; lia.
Qed.

(* a point of the open simplex for C16_gibbs_duhem_comb *)
Example C16_nonvacuous_gibbs_duhem :
  let cs := [mkChem (1/2) 1 1 [] [] 0; mkChem (1/4) 3 2 [] [] 0; mkChem (1/4) 2 5 [] [] 0]%R in
  (forall c, In c cs -> 0 < cx c /\ 0 < cr c /\ 0 < cq c)%R /\ sum_over cs cx = 1%R.
Proof.
  cbv zeta. split.
  - intros c [E|[E|[E|[]]]]; subst; simpl; repeat split; lra.
  - unfold sum_over, sumR. simpl. lra.
Qed.

(* the hypotheses of C16_gibbs_duhem, C16_gibbs_duhem_resid and C16_residual_cross_symmetry are met: an alcohol-like chemical
   (groups 0 and 1) and an alkane-like chemical (group 0 only) at x = (1/4, 3/4), two groups, positive Q and psi *)
Example C16_nonvacuous_gibbs_duhem_full :
  let cs := [mkChem (1/4) 2 3 [1; 1] [1/3; 2/3] 0; mkChem (3/4) 4 5 [2; 0] [1; 0] 0]%R in
  let Qs := [1; 2]%R in let psis := [[1; 1/2]; [1/3; 1]]%R in
  (0 < length cs)%nat /\ (1 < length cs)%nat /\ length Qs = 2%nat /\ rectangular psis 2 2 /\
  (forall c, In c cs -> length (cQ c) = 2%nat) /\
  (forall c, In c cs -> (0 < cx c /\ 0 < cq c /\ 0 < cr c)%R /\ length (cg c) = 2%nat /\
                        (forall k, 0 <= nth k (cg c) 0)%R /\ (exists k, 0 < nth k (cg c) 0)%R) /\
  sum_over cs cx = 1%R /\
  (forall k, (k < 2)%nat -> 0 < nth k Qs 0)%R /\
  (forall k n, (k < 2)%nat -> (n < 2)%nat -> 0 < nth n (nth k psis []) 0)%R.
Proof.
  cbv zeta. split; [simpl; lia|]. split; [simpl; lia|]. split; [reflexivity|]. split.
  { split; [reflexivity|]. intros row [E|[E|[]]]; subst; reflexivity. }
  split. { intros c [E|[E|[]]]; subst; reflexivity. }
  split.
  { intros c [E|[E|[]]]; subst; cbn [cx cq cr cg].
    - split; [repeat split; lra|]. split; [reflexivity|]. split.
      + intros [|[|k]]; simpl; try lra. destruct k; simpl; lra.
      + exists 0%nat. simpl. lra.
    - split; [repeat split; lra|]. split; [reflexivity|]. split.
      + intros [|[|k]]; simpl; try lra. destruct k; simpl; lra.
      + exists 0%nat. simpl. lra. }
  split. { unfold sum_over, sumR. simpl. lra. }
  split.
  - intros [|[|k]] Hk; simpl; try lra; lia.
  - intros [|[|k]] [|[|n]] Hk Hn; simpl; try lra; lia.
Qed.

(* the hypotheses of C16_gibbs_duhem_resid / C16_resid_jacobian are also met at a VERTEX of the simplex (x = e_0) *)
Example C16_nonvacuous_resid_vertex :
  let cs := [mkChem 1 2 3 [1; 1] [1/3; 2/3] 0; mkChem 0 4 5 [2; 0] [1; 0] 0]%R in
  (forall c, In c cs -> (0 <= cx c)%R /\ length (cg c) = 2%nat /\ length (cQ c) = 2%nat /\ (forall k, 0 <= nth k (cg c) 0)%R) /\
  (exists c k, In c cs /\ (k < 2)%nat /\ (0 < cx c)%R /\ (0 < nth k (cg c) 0)%R).
Proof.
  cbv zeta. split.
  - intros c [E|[E|[]]]; subst; cbn [cx cg cQ]; (split; [lra|]); (split; [reflexivity|]); (split; [reflexivity|]);
      intros [|[|k]]; simpl; try lra; destruct k; simpl; lra.
  - exists (mkChem 1 2 3 [1; 1] [1/3; 2/3] 0)%R, 0%nat. split; [left; reflexivity|]. split; [lia|]. simpl. split; lra.
Qed.

(* the hypotheses of C16_wrapper_pure_limit are met: water-like chemical, a member without groups, alkane-like chemical *)
Example C16_nonvacuous_wrapper_pure_limit :
  let Qs := [1; 2]%R in
  let c1 := mkChem 0 1 1 [1; 0]%R (cQ_row Qs [1; 0]%R) 0 in
  let c2 := mkChem 0 2 3 [0; 1]%R (cQ_row Qs [0; 1]%R) 0 in
  let fs := [mkF 1 (Some c1); mkF 0 None; mkF 0 (Some c2)] in
  (forall f c0, In f fs -> fd f = Some c0 ->
     length (cg c0) = 2%nat /\ (forall k, 0 <= nth k (cg c0) 0)%R /\
     exists k, (k < 2)%nat /\ (0 < nth k Qs 0)%R /\ (0 < nth k (cg c0) 0)%R) /\
  a_cQ_of fs = derive_cQfs KR (a_cg_of fs) Qs /\ fd (nth 0 fs fchem0) = Some c1 /\ unit_at fs 0 /\
  cr c1 <> 0%R /\ cq c1 <> 0%R /\ rectangular (psi_UNIFAC KR 350 [[0; 300]; [200; 0]]%R) 2 2.
Proof.
  cbv zeta. split; [|split; [|split; [|split; [|split; [|split]]]]].
  - intros f c0 [E|[E|[E|[]]]] Hd; subst; simpl in Hd; inversion Hd; subst; simpl.
    + split; [reflexivity|]. split; [intros [|[|[|k]]]; simpl; lra|]. exists 0%nat. simpl. repeat split; try lia; lra.
    + split; [reflexivity|]. split; [intros [|[|[|k]]]; simpl; lra|]. exists 1%nat. simpl. repeat split; try lia; lra.
  - reflexivity.
  - reflexivity.
  - intros [|[|[|k]]] Hk; simpl in *; try reflexivity; lia.
  - simpl; lra.
  - simpl; lra.
  - split; [reflexivity|]. intros row [E|[E|[]]]; subst; reflexivity.
Qed.

(* ... and those of C16_gibbs_duhem_resid_two_groups *)
Example C16_nonvacuous_resid_two_groups :
  rectangular [[1; 0]; [0; 1]]%R 2 2 /\ length [1; 0]%R = 2%nat /\ (0 < 1 /\ 0 < 1 / 2 < 1)%R.
Proof. split; [|split; [reflexivity|lra]]. split; [reflexivity|]. intros row [E|[E|[]]]; subst; reflexivity. Qed.

Local Open Scope Q_scope.
(* the executable Jacobian evaluates on the data of C16_nonvacuous_gibbs_duhem_full: symmetric, x^T J = 0 exactly *)
Example C16_nonvacuous_resid_jacobian :
  ojac [1 # 4; 3 # 4] [[1; 1]; [2; 0]] [1; 2] [[1; 1 # 2]; [1 # 3; 1]] =
    [[Some (-1721 # 676); Some (1721 # 2028)]; [Some (1721 # 2028); Some (-1721 # 6084)]] /\
  chk_resid_jac [1 # 4; 3 # 4] [[1; 1]; [2; 0]] [1; 2] [[1; 1 # 2]; [1 # 3; 1]]
    [[-1721 # 676; 1721 # 2028]; [1721 # 2028; -1721 # 6084]] (1 # 1000000) = true.
Proof. split; vm_compute; reflexivity. Qed.

(* a wrapper run that takes the group path and returns (carrier option Q, affine stand-ins) *)
Example C16_nonvacuous_wrapper :
  exists w, gamma_UNIFAC (KS [mkSI 0 3 2; mkSI 0 (-1) 3; mkSI 0 1 2]) (some_vec [1 # 2; 1 # 4; 1 # 4]) (Some 350)
              (some_mat [[0; 300]; [200; 0]]) (some_mat [[0; 0]; [0; 0]]) [[true; false]; [false; true]]
              (some_vec [1; 2]) (some_vec [1; 3]) (some_vec [1; 2]) (some_mat [[1; 0]; [0; 1]])
              (some_mat [[1; 0]; [0; 1]]) [0%nat; 2%nat] = Ok w /\
            all_some (w_gamma w) = true /\ nth 1 (w_gamma w) None = Some 1.
Proof. eexists. split; [vm_compute; reflexivity|]. split; vm_compute; reflexivity. Qed.

(* the starting point of C16_f_eq_call_history is met by the buffer of zeros __new__ allocates *)
Example C16_nonvacuous_clean_buffer :
  clean_buffer KQx [[true; false]; [false; true]] [[0; 0]; [0; 0]] /\
  same_shape (psi_UNIFAC KQx 350 [[0; 300]; [200; 0]]) [[true; false]; [false; true]].
Proof.
  split.
  - exists [[0; 0]; [0; 0]]. split; [repeat constructor|reflexivity].
  - vm_compute. repeat constructor.
Qed.
