(* C16 — index form of the group (residual) kernel at KR: every array entry as a finite sum over
   group indices.  Used for the pure-component limit from the arrays __new__ builds, and for
   invariance under a permutation of the group columns. *)
From V Require Import Common.NumFacts C16.Model C16.Proofs C16.ProofsR.
From Coq Require Import Reals Lia List Permutation.
From Coq Require Import Lra.
Import ListNotations.
Local Open Scope R_scope.

Definition bigsum (G : nat) (f : nat -> R) : R := sumR (map f (seq 0 G)).

Lemma bigsum_ext G f g : (forall n, (n < G)%nat -> f n = g n) -> bigsum G f = bigsum G g.
Proof.
  intros H. unfold bigsum. f_equal. apply map_ext_in. intros n Hn. apply in_seq in Hn. apply H. lia.
Qed.

Lemma map_nth_seq {B} (l : list B) d : map (fun n => nth n l d) (seq 0 (length l)) = l.
Proof.
  induction l as [|a t IH]; [reflexivity|].
  cbn [length seq map nth]. f_equal. rewrite <- seq_shift, map_map. exact IH.
Qed.

Lemma vdot_bigsum a b G : length a = G -> length b = G ->
  vdot KR a b = bigsum G (fun n => nth n a 0 * nth n b 0).
Proof.
  intros La Lb. rewrite <- (map_nth_seq a 0) at 1. rewrite <- (map_nth_seq b 0) at 1.
  rewrite La, Lb. rewrite vdot_map. reflexivity.
Qed.

Lemma sumR_map2_bigsum a b G : length a = G -> length b = G ->
  sumR (map2 Rmult a b) = bigsum G (fun n => nth n a 0 * nth n b 0).
Proof. intros La Lb. rewrite <- (vdot_bigsum a b G La Lb). unfold vdot. rewrite ksum_KR. reflexivity. Qed.

Lemma nth_matvec (m : list (list R)) v k : (k < length m)%nat ->
  nth k (matvec KR m v) 0 = vdot KR (nth k m []) v.
Proof. intros H. unfold matvec. apply (nth_map_in (fun row => vdot KR row v) m k []). exact H. Qed.

(* ---------- transpose of a rectangular matrix ---------- *)
Lemma transpose_spec (m : list (list R)) C : m <> [] -> (forall row, In row m -> length row = C) ->
  length (transpose m) = C /\
  forall k, (k < C)%nat -> nth k (transpose m) [] = map (fun row => nth k row 0) m.
Proof.
  induction m as [|r t IH]; intros NE Rect; [congruence|].
  destruct t as [|r' t'].
  - cbn [transpose]. split.
    + rewrite map_length. apply Rect. left; auto.
    + intros k Hk. rewrite (nth_map_in (fun a => [a]) r k 0) by (rewrite (Rect r); [exact Hk|left; auto]).
      reflexivity.
  - destruct (IH ltac:(discriminate) ltac:(intros row H; apply Rect; right; exact H)) as [L N].
    change (transpose (r :: r' :: t')) with (map2 cons r (transpose (r' :: t'))).
    assert (Lr : length r = C) by (apply Rect; left; auto).
    split.
    + rewrite map2_length_min. rewrite Lr, L. apply Nat.min_id.
    + intros k Hk. rewrite (nth_map2_in cons r (transpose (r' :: t')) k 0 [] []) by lia.
      rewrite (N k Hk). reflexivity.
Qed.

Definition rectangular (m : list (list R)) (Rn C : nat) : Prop :=
  length m = Rn /\ forall row, In row m -> length row = C.

Lemma transpose_involutive (m : list (list R)) Rn C : (0 < Rn)%nat -> (0 < C)%nat -> rectangular m Rn C ->
  transpose (transpose m) = m.
Proof.
  intros HR HC [Lm Rect].
  assert (NE : m <> []) by (intros E; subst; simpl in HR; lia).
  destruct (transpose_spec m C NE Rect) as [LT NT].
  assert (NET : transpose m <> []) by (intros E; rewrite E in LT; simpl in LT; lia).
  assert (RectT : forall row, In row (transpose m) -> length row = Rn).
  { intros row Hin. destruct (In_nth _ _ [] Hin) as (k & Hk & Ek). rewrite LT in Hk.
    rewrite (NT k Hk) in Ek. subst row. rewrite map_length. exact Lm. }
  destruct (transpose_spec (transpose m) Rn NET RectT) as [LTT NTT].
  apply (nth_ext _ _ [] []); [lia|].
  intros i Hi. rewrite LTT in Hi. rewrite (NTT i Hi).
  assert (Li : length (nth i m []) = C) by (apply Rect; apply nth_In; lia).
  rewrite <- (map_nth_seq (nth i m []) 0). rewrite Li.
  rewrite <- (map_nth_seq (transpose m) []). rewrite LT. rewrite map_map.
  apply map_ext_in. intros k Hk. apply in_seq in Hk.
  rewrite (NT k ltac:(lia)). rewrite (nth_map_in (fun row => nth k row 0) m i []) by lia. reflexivity.
Qed.

(* ---------- index form of ln Gamma_k (mixture) and ln Gamma_k^(i) (reference) ---------- *)
Section IndexForm.
Variables (G : nat) (Qs : list R) (psis gpsis : list (list R)).
Hypothesis HG : (0 < G)%nat.
Hypothesis LQs : length Qs = G.
Hypothesis Rpsis : rectangular psis G G.
Hypothesis Rgpsis : rectangular gpsis G G.

Definition ent (m : list (list R)) (i j : nat) : R := nth j (nth i m []) 0.

(* Q-fractions of the mixture from the group amounts W, and the sums S1 *)
Definition QfI (W : list R) (n : nat) : R :=
  nth n Qs 0 * nth n W 0 / bigsum G (fun j => nth j Qs 0 * nth j W 0).
Definition S1I (W : list R) (m : nat) : R := bigsum G (fun n => ent psis m n * QfI W n).
Definition LGI (W : list R) (k : nat) : R :=
  nth k Qs 0 * (1 - ln (S1I W k) + bigsum G (fun m => - (ent psis m k / S1I W m) * QfI W m)).

Lemma row_length (m : list (list R)) i : rectangular m G G -> (i < G)%nat -> length (nth i m []) = G.
Proof. intros [L Rc] Hi. apply Rc. apply nth_In. lia. Qed.

Lemma lg_groups_index W k : length W = G -> (k < G)%nat ->
  nth k (lg_groups Qs psis W) 0 = LGI W k.
Proof.
  intros LW Hk. destruct Rpsis as [Lp Rp].
  unfold lg_groups, bc_11, bc_10, bc_21, bc_01, sum_axis1, umap1, umap2. cbn [kmul kdiv kadd ksub kneg kln kq KR].
  set (Qf := map2 Rmult Qs W).
  set (Qf1 := map (fun u => u / ksum KR Qf) Qf).
  set (sum1 := map (ksum KR) (map (fun row => map2 Rmult row Qf1) psis)).
  assert (LQf : length Qf = G) by (unfold Qf; rewrite map2_length_min; lia).
  assert (LQf1 : length Qf1 = G) by (unfold Qf1; rewrite map_length; exact LQf).
  assert (Ls1 : length sum1 = G) by (unfold sum1; rewrite !map_length; exact Lp).
  assert (EQf1 : forall n, (n < G)%nat -> nth n Qf1 0 = QfI W n).
  { intros n Hn. unfold Qf1. rewrite (nth_map_in _ Qf n 0) by lia.
    unfold Qf at 1. rewrite (nth_map2_in Rmult Qs W n 0 0 0) by lia.
    unfold QfI. f_equal. rewrite ksum_KR. unfold Qf. apply sumR_map2_bigsum; assumption. }
  assert (Es1 : forall m, (m < G)%nat -> nth m sum1 0 = S1I W m).
  { intros m Hm. unfold sum1. rewrite map_map.
    rewrite (nth_map_in (fun row => ksum KR (map2 Rmult row Qf1)) psis m []) by lia.
    change (ksum KR (map2 Rmult (nth m psis []) Qf1)) with (vdot KR (nth m psis []) Qf1).
    rewrite (vdot_bigsum _ _ G); [| apply Rp; apply nth_In; lia | exact LQf1].
    unfold S1I. apply bigsum_ext. intros n Hn. rewrite (EQf1 n Hn). reflexivity. }
  assert (NEp : psis <> []) by (intros E; rewrite E in Lp; simpl in Lp; lia).
  destruct (transpose_spec psis G NEp Rp) as [LT NT].
  rewrite (nth_map2_in Rmult Qs _ k 0 0 0); [| lia |].
  2:{ rewrite map2_length_min, !map_length, Ls1. unfold matvec. rewrite !map_length, LT. lia. }
  unfold LGI. f_equal.
  rewrite (nth_map2_in Rplus _ _ k 0 0 0); [| rewrite !map_length; lia |].
  2:{ unfold matvec. rewrite !map_length, LT. lia. }
  f_equal.
  - rewrite (nth_map_in (Rminus (Q2R (1 # 1))) _ k 0) by (rewrite map_length; lia).
    rewrite (nth_map_in ln sum1 k 0) by lia. rewrite Q2R_1', (Es1 k Hk). reflexivity.
  - rewrite nth_matvec by (rewrite !map_length, LT; lia).
    rewrite (nth_map_in (map Ropp) _ k []) by (rewrite map_length, LT; lia).
    rewrite (nth_map_in (fun row => map2 Rdiv row sum1) (transpose psis) k []) by lia.
    rewrite (NT k Hk).
    rewrite (vdot_bigsum _ _ G); [| rewrite map_length, map2_length_min, map_length; lia | exact LQf1].
    apply bigsum_ext. intros m Hm.
    rewrite (nth_map_in Ropp _ m 0) by (rewrite map2_length_min, map_length; lia).
    rewrite (nth_map2_in Rdiv _ sum1 m 0 0 0) by (rewrite ?map_length; lia).
    rewrite (nth_map_in (fun row => nth k row 0) psis m []) by lia.
    rewrite (Es1 m Hm), (EQf1 m Hm). reflexivity.
Qed.

(* reference term of a chemical whose stored Q-fraction row is cQ *)
Definition s1I (cQr : list R) (m : nat) : R := bigsum G (fun n => ent gpsis m n * nth n cQr 0).
Definition s1pI (cQr : list R) (m : nat) : R := if Reqb (s1I cQr m) 0 then 1 else s1I cQr m.
Definition CLGI (cQr : list R) (k : nat) : R :=
  nth k Qs 0 * (1 - ln (s1pI cQr k) + bigsum G (fun m => ent gpsis m k * (- nth m cQr 0 / s1pI cQr m))).

Lemma chem_lg_index c k : length (cQ c) = G -> (k < G)%nat ->
  nth k (chem_lg Qs gpsis c) 0 = CLGI (cQ c) k.
Proof.
  intros Lc Hk. destruct Rgpsis as [Lg Rg].
  unfold chem_lg. cbn [kmul kdiv kadd ksub kneg kln kq keqb KR].
  rewrite (transpose_involutive gpsis G G HG HG (conj Lg Rg)).
  set (s1 := matvec KR gpsis (cQ c)).
  set (s1' := map2 (fun u v => if Reqb u (Q2R (0 # 1)) then Q2R (1 # 1) else v) s1 s1).
  set (fr := map2 Rdiv (map Ropp (cQ c)) s1').
  assert (Ls1 : length s1 = G) by (unfold s1, matvec; rewrite map_length; exact Lg).
  assert (Ls1' : length s1' = G) by (unfold s1'; rewrite map2_length_min; lia).
  assert (Lfr : length fr = G) by (unfold fr; rewrite map2_length_min, map_length; lia).
  assert (Es1 : forall m, (m < G)%nat -> nth m s1 0 = s1I (cQ c) m).
  { intros m Hm. unfold s1. rewrite nth_matvec by lia.
    rewrite (vdot_bigsum _ _ G); [reflexivity | apply Rg; apply nth_In; lia | exact Lc]. }
  assert (Es1' : forall m, (m < G)%nat -> nth m s1' 0 = s1pI (cQ c) m).
  { intros m Hm. unfold s1'. rewrite (nth_map2_in _ s1 s1 m 0 0 0) by lia.
    rewrite (Es1 m Hm). rewrite Q2R_0', Q2R_1'. reflexivity. }
  assert (Efr : forall m, (m < G)%nat -> nth m fr 0 = - nth m (cQ c) 0 / s1pI (cQ c) m).
  { intros m Hm. unfold fr. rewrite (nth_map2_in Rdiv _ s1' m 0 0 0) by (rewrite ?map_length; lia).
    rewrite (nth_map_in Ropp (cQ c) m 0) by lia. rewrite (Es1' m Hm). reflexivity. }
  assert (NEg : gpsis <> []) by (intros E; rewrite E in Lg; simpl in Lg; lia).
  destruct (transpose_spec gpsis G NEg Rg) as [LT NT].
  rewrite (nth_map2_in Rmult Qs _ k 0 0 0); [| lia |].
  2:{ rewrite map2_length_min, !map_length, Ls1'. unfold matvec. rewrite map_length, LT. lia. }
  unfold CLGI. f_equal.
  rewrite (nth_map2_in Rplus _ _ k 0 0 0); [| rewrite !map_length; lia |].
  2:{ unfold matvec. rewrite map_length, LT. lia. }
  f_equal.
  - rewrite (nth_map_in (Rminus (Q2R (1 # 1))) _ k 0) by (rewrite map_length; lia).
    rewrite (nth_map_in ln s1' k 0) by lia. rewrite Q2R_1', (Es1' k Hk). reflexivity.
  - rewrite nth_matvec by lia. rewrite (NT k Hk).
    rewrite (vdot_bigsum _ _ G); [| rewrite map_length; lia | exact Lfr].
    apply bigsum_ext. intros m Hm.
    rewrite (nth_map_in (fun row => nth k row 0) gpsis m []) by lia.
    rewrite (Efr m Hm). reflexivity.
Qed.

Lemma lg_groups_length W : length W = G -> length (lg_groups Qs psis W) = G.
Proof.
  intros LW. destruct Rpsis as [Lp Rp].
  assert (NEp : psis <> []) by (intros E; rewrite E in Lp; simpl in Lp; lia).
  destruct (transpose_spec psis G NEp Rp) as [LT NT].
  unfold lg_groups, bc_11, bc_10, bc_21, bc_01, sum_axis1, umap1, umap2, matvec.
  rewrite !map2_length_min, !map_length, LT, Lp. lia.
Qed.

Lemma chem_lg_length c : length (cQ c) = G -> length (chem_lg Qs gpsis c) = G.
Proof.
  intros Lc. destruct Rgpsis as [Lg Rg].
  assert (NEg : gpsis <> []) by (intros E; rewrite E in Lg; simpl in Lg; lia).
  destruct (transpose_spec gpsis G NEg Rg) as [LT NT].
  unfold chem_lg. rewrite (transpose_involutive gpsis G G HG HG (conj Lg Rg)). unfold matvec.
  rewrite !map2_length_min, !map_length, !map2_length_min, !map_length, LT, Lg. lia.
Qed.

(* the residual term as one sum over the groups *)
Lemma resid_index W c : length W = G -> length (cQ c) = G -> length (cg c) = G ->
  resid_of Qs psis gpsis W c = bigsum G (fun k => (LGI W k - CLGI (cQ c) k) * nth k (cg c) 0).
Proof.
  intros LW Lc Lg. unfold resid_of. rewrite ksum_KR. cbn [kmul ksub KR].
  rewrite (sumR_map2_bigsum _ _ G); [| rewrite map2_length_min, lg_groups_length, chem_lg_length; auto; lia | exact Lg].
  apply bigsum_ext. intros k Hk.
  rewrite (nth_map2_in Rminus _ _ k 0 0 0) by (rewrite ?lg_groups_length, ?chem_lg_length; auto).
  rewrite lg_groups_index, chem_lg_index by assumption. reflexivity.
Qed.
End IndexForm.

(* ---------- sums of non-negative terms ---------- *)
Lemma sumR_nonneg l : (forall y, In y l -> 0 <= y) -> 0 <= sumR l.
Proof.
  induction l as [|a t IH]; intros H; simpl; [lra|].
  pose proof (H a (or_introl eq_refl)). pose proof (IH (fun y Hy => H y (or_intror Hy))). lra.
Qed.

Lemma sumR_pos l y0 : (forall y, In y l -> 0 <= y) -> In y0 l -> 0 < y0 -> 0 < sumR l.
Proof.
  induction l as [|a t IH]; intros H Hin Hp; simpl in *; [contradiction|].
  pose proof (H a (or_introl eq_refl)) as Ha.
  pose proof (sumR_nonneg t (fun y Hy => H y (or_intror Hy))) as Ht.
  destruct Hin as [E|Hin].
  - subst. lra.
  - pose proof (IH (fun y Hy => H y (or_intror Hy)) Hin Hp). lra.
Qed.

Lemma bigsum_pos G f n0 : (forall n, (n < G)%nat -> 0 <= f n) -> (n0 < G)%nat -> 0 < f n0 -> 0 < bigsum G f.
Proof.
  intros H Hn Hp. unfold bigsum. apply (sumR_pos _ (f n0)); auto.
  - intros y Hy. apply in_map_iff in Hy. destruct Hy as (n & <- & Hin). apply in_seq in Hin. apply H. lia.
  - apply in_map. apply in_seq. lia.
Qed.

Lemma bigsum_nonneg G f : (forall n, (n < G)%nat -> 0 <= f n) -> 0 <= bigsum G f.
Proof.
  intros H. unfold bigsum. apply sumR_nonneg.
  intros y Hy. apply in_map_iff in Hy. destruct Hy as (n & <- & Hin). apply in_seq in Hin. apply H. lia.
Qed.

(* ---------- the arrays __new__ derives (Model.v: derive_cQfs, derive_mask, fill_group_psis) ---------- *)
Lemma Reqb_false a b : a <> b -> Reqb a b = false.
Proof. intros H. unfold Reqb. destruct (Req_EM_T a b); [contradiction|reflexivity]. Qed.
Lemma Reqb_true a : Reqb a a = true.
Proof. unfold Reqb. destruct (Req_EM_T a a); [reflexivity|congruence]. Qed.

Lemma map_eq_pointwise {B C} (f g : B -> C) l : map f l = map g l -> forall c, In c l -> f c = g c.
Proof.
  induction l as [|a t IH]; intros E c Hin; [contradiction|].
  simpl in E. inversion E. destruct Hin as [<-|Hin]; auto.
Qed.

Definition cQ_row (Qs cgr : list R) : list R :=
  let row := map2 Rmult Qs cgr in map (fun u => u / ksum KR row) row.

Lemma derive_cQfs_rows Qs cs : map cQ cs = derive_cQfs KR (map cg cs) Qs ->
  forall c, In c cs -> cQ c = cQ_row Qs (cg c).
Proof.
  intros E. unfold derive_cQfs, bc_12, bc_10 in E. cbn [kmul kdiv KR] in E. rewrite !map_map in E.
  intros c Hin. apply (map_eq_pointwise _ _ cs E c Hin).
Qed.

Section PureFromNew.
Variables (G : nat) (Qs : list R) (psis : list (list R)) (cs : list chem).
Hypothesis HG : (0 < G)%nat.
Hypothesis LQs : length Qs = G.
Hypothesis Rpsis : rectangular psis G G.
Hypothesis Qs_nonneg : forall k, (k < G)%nat -> 0 <= nth k Qs 0.
Hypothesis psis_pos : forall m n, (m < G)%nat -> (n < G)%nat -> 0 < ent psis m n.
Hypothesis cg_shape : forall c, In c cs -> length (cg c) = G /\ (forall k, 0 <= nth k (cg c) 0).
(* every chemical has a group that counts (positive Q and positive count) *)
Hypothesis cg_some : forall c, In c cs -> exists k, (k < G)%nat /\ 0 < nth k Qs 0 /\ 0 < nth k (cg c) 0.
Hypothesis cQ_new : map cQ cs = derive_cQfs KR (map cg cs) Qs.

Definition gpsis_new : list (list R) := fill_group_psis KR psis (derive_mask KR (map cQ cs) G).

Lemma mask_entry m n : (m < G)%nat -> (n < G)%nat ->
  nth n (nth m (derive_mask KR (map cQ cs) G) []) false =
  existsb (fun row => negb (Reqb (nth m row 0) 0) && negb (Reqb (nth n row 0) 0)) (map cQ cs).
Proof.
  intros Hm Hn. unfold derive_mask. cbn [keqb kq KR].
  rewrite (nth_map_in _ (seq 0 G) m 0%nat) by (rewrite seq_length; exact Hm).
  rewrite (nth_map_in _ (seq 0 G) n 0%nat) by (rewrite seq_length; exact Hn).
  rewrite !seq_nth by assumption. cbn [plus]. rewrite Q2R_0'. reflexivity.
Qed.

Lemma gpsis_new_rect : rectangular gpsis_new G G.
Proof.
  destruct Rpsis as [Lp Rp]. unfold gpsis_new, fill_group_psis, derive_mask. split.
  - rewrite map2_length_min, map_length, seq_length. lia.
  - intros row Hin. destruct (In_nth _ _ [] Hin) as (m & Hm & Em).
    rewrite map2_length_min, map_length, seq_length, Lp, Nat.min_id in Hm.
    rewrite (nth_map2_in _ psis _ m [] [] []) in Em by (rewrite ?map_length, ?seq_length; lia).
    subst row. rewrite map2_length_min.
    rewrite (nth_map_in _ (seq 0 G) m 0%nat) by (rewrite seq_length; exact Hm).
    rewrite map_length, seq_length. rewrite (Rp (nth m psis [])) by (apply nth_In; lia). apply Nat.min_id.
Qed.

Lemma gpsis_new_entry m n : (m < G)%nat -> (n < G)%nat ->
  ent gpsis_new m n =
  if nth n (nth m (derive_mask KR (map cQ cs) G) []) false then ent psis m n else 0.
Proof.
  intros Hm Hn. destruct Rpsis as [Lp Rp]. unfold ent, gpsis_new, fill_group_psis.
  assert (Lmask : length (derive_mask KR (map cQ cs) G) = G) by (unfold derive_mask; rewrite map_length, seq_length; reflexivity).
  assert (Lrow : length (nth m (derive_mask KR (map cQ cs) G) []) = G).
  { unfold derive_mask. rewrite (nth_map_in _ (seq 0 G) m 0%nat) by (rewrite seq_length; exact Hm).
    rewrite map_length, seq_length. reflexivity. }
  rewrite (nth_map2_in _ psis _ m [] [] []) by lia.
  rewrite (nth_map2_in _ (nth m psis []) _ n 0 false 0) by (rewrite ?Lrow, ?(Rp (nth m psis [])); try lia; apply nth_In; lia).
  rewrite kzero_KR. reflexivity.
Qed.

Section OneChemical.
Variable c : chem.
Hypothesis Hc : In c cs.

Let S := bigsum G (fun j => nth j Qs 0 * nth j (cg c) 0).

Lemma S_pos : 0 < S.
Proof.
  destruct (cg_some c Hc) as (k & Hk & HQ & Hg). destruct (cg_shape c Hc) as [Lc Nn].
  unfold S. apply (bigsum_pos G _ k); auto.
  - intros n Hn. apply Rmult_le_pos; [apply Qs_nonneg; exact Hn|apply Nn].
  - apply Rmult_lt_0_compat; assumption.
Qed.

Lemma cQ_entry n : (n < G)%nat -> nth n (cQ c) 0 = nth n Qs 0 * nth n (cg c) 0 / S.
Proof.
  intros Hn. destruct (cg_shape c Hc) as [Lc Nn].
  rewrite (derive_cQfs_rows Qs cs cQ_new c Hc). unfold cQ_row.
  rewrite (nth_map_in _ _ n 0) by (rewrite map2_length_min; lia).
  rewrite (nth_map2_in Rmult Qs (cg c) n 0 0 0) by lia.
  f_equal. rewrite ksum_KR. apply sumR_map2_bigsum; assumption.
Qed.

Lemma cQ_length : length (cQ c) = G.
Proof.
  destruct (cg_shape c Hc) as [Lc Nn]. rewrite (derive_cQfs_rows Qs cs cQ_new c Hc). unfold cQ_row.
  rewrite map_length, map2_length_min. lia.
Qed.

Lemma cQ_QfI n : (n < G)%nat -> QfI G Qs (cg c) n = nth n (cQ c) 0.
Proof. intros Hn. rewrite (cQ_entry n Hn). reflexivity. Qed.

Lemma cQ_nonneg n : (n < G)%nat -> 0 <= nth n (cQ c) 0.
Proof.
  intros Hn. rewrite (cQ_entry n Hn). destruct (cg_shape c Hc) as [Lc Nn]. pose proof S_pos.
  apply Rmult_le_pos; [apply Rmult_le_pos; [apply Qs_nonneg; exact Hn|apply Nn]|].
  left. apply Rinv_0_lt_compat. assumption.
Qed.

Lemma cQ_some : exists k, (k < G)%nat /\ 0 < nth k (cQ c) 0.
Proof.
  destruct (cg_some c Hc) as (k & Hk & HQ & Hg). exists k. split; [exact Hk|].
  rewrite (cQ_entry k Hk). pose proof S_pos.
  apply Rmult_lt_0_compat; [apply Rmult_lt_0_compat; assumption|apply Rinv_0_lt_compat; assumption].
Qed.

(* two groups of c are "symmetrically available": the mask lets psi through *)
Lemma mask_of_c m n : (m < G)%nat -> (n < G)%nat -> nth m (cQ c) 0 <> 0 -> nth n (cQ c) 0 <> 0 ->
  ent gpsis_new m n = ent psis m n.
Proof.
  intros Hm Hn Nm Nn. rewrite (gpsis_new_entry m n Hm Hn). rewrite (mask_entry m n Hm Hn).
  assert (E : existsb (fun row => negb (Reqb (nth m row 0) 0) && negb (Reqb (nth n row 0) 0)) (map cQ cs) = true).
  { apply existsb_exists. exists (cQ c). split; [apply in_map; exact Hc|].
    rewrite (Reqb_false _ _ Nm), (Reqb_false _ _ Nn). reflexivity. }
  rewrite E. reflexivity.
Qed.

Lemma S1_pos m : (m < G)%nat -> 0 < S1I G Qs psis (cg c) m.
Proof.
  intros Hm. destruct cQ_some as (k & Hk & Hp). unfold S1I.
  apply (bigsum_pos G _ k); auto.
  - intros n Hn. rewrite (cQ_QfI n Hn). apply Rmult_le_pos; [left; apply psis_pos; assumption|apply cQ_nonneg; exact Hn].
  - rewrite (cQ_QfI k Hk). apply Rmult_lt_0_compat; [apply psis_pos; assumption|exact Hp].
Qed.

Lemma s1_eq m : (m < G)%nat -> nth m (cQ c) 0 <> 0 ->
  s1I G gpsis_new (cQ c) m = S1I G Qs psis (cg c) m.
Proof.
  intros Hm Nm. unfold s1I, S1I. apply bigsum_ext. intros n Hn. rewrite (cQ_QfI n Hn).
  destruct (Req_dec (nth n (cQ c) 0) 0) as [Z|NZ].
  - rewrite Z. lra.
  - rewrite (mask_of_c m n Hm Hn Nm NZ). reflexivity.
Qed.

Lemma s1p_eq m : (m < G)%nat -> nth m (cQ c) 0 <> 0 ->
  s1pI G gpsis_new (cQ c) m = S1I G Qs psis (cg c) m.
Proof.
  intros Hm Nm. unfold s1pI. rewrite (s1_eq m Hm Nm).
  pose proof (S1_pos m Hm). rewrite Reqb_false by lra. reflexivity.
Qed.

Lemma reference_from_new : reference_is_pure_mixture Qs psis gpsis_new c.
Proof.
  intros k Hk. destruct (cg_shape c Hc) as [Lc Nn].
  assert (HkG : (k < G)%nat).
  { destruct (Nat.lt_ge_cases k G) as [H|H]; auto. exfalso. apply Hk. apply nth_overflow. lia. }
  rewrite (lg_groups_index G Qs psis HG LQs Rpsis (cg c) k Lc HkG).
  rewrite (chem_lg_index G Qs gpsis_new HG LQs gpsis_new_rect c k cQ_length HkG).
  unfold LGI, CLGI.
  destruct (Req_dec (nth k Qs 0) 0) as [QZ|QNZ]; [rewrite QZ; lra|].
  assert (cQk : nth k (cQ c) 0 <> 0).
  { rewrite (cQ_entry k HkG). pose proof S_pos. intros E.
    apply Rmult_integral in E. destruct E as [E|E].
    - apply Rmult_integral in E. destruct E; contradiction.
    - apply Rinv_neq_0_compat in E; [exact E|lra]. }
  f_equal. rewrite (s1p_eq k HkG cQk). f_equal.
  apply bigsum_ext. intros m Hm. rewrite (cQ_QfI m Hm).
  destruct (Req_dec (nth m (cQ c) 0) 0) as [Z|NZ].
  - rewrite Z. unfold Rdiv. lra.
  - rewrite (mask_of_c m k Hm HkG NZ cQk). rewrite (s1p_eq m Hm NZ). unfold Rdiv. ring.
Qed.
End OneChemical.
End PureFromNew.

(* gamma_i = 1 at x = e_i for the whole coefficient, from the arrays __new__ derives *)
Lemma gamma_pure_from_new (G : nat) (Qs : list R) (psis : list (list R)) (cs : list chem) (i : nat) :
  (0 < G)%nat -> length Qs = G -> rectangular psis G G ->
  (forall k, (k < G)%nat -> 0 <= nth k Qs 0) ->
  (forall m n, (m < G)%nat -> (n < G)%nat -> 0 < ent psis m n) ->
  (forall c, In c cs -> length (cg c) = G /\ (forall k, 0 <= nth k (cg c) 0)) ->
  (forall c, In c cs -> exists k, (k < G)%nat /\ 0 < nth k Qs 0 /\ 0 < nth k (cg c) 0) ->
  map cQ cs = derive_cQfs KR (map cg cs) Qs ->
  (i < length cs)%nat -> pure_at cs i ->
  let c := nth i cs chem0 in cr c <> 0 -> cq c <> 0 ->
  let gpsis := gpsis_new G psis cs in
  nth i (gamma_sub_UNIFAC Qs psis gpsis cs) 0 = 1 /\ nth i (gamma_sub_modified Qs psis gpsis cs) 0 = 1.
Proof.
  intros HG LQ Rp Qn Pp Sh Sm New Hi P c Hr Hq gpsis.
  apply (gamma_pure Qs psis gpsis G cs i Hi P); auto.
  - intros c0 H0. apply (Sh c0 H0).
  - apply (reference_from_new G Qs psis cs HG LQ Rp Qn Pp Sh Sm New). apply nth_In. exact Hi.
Qed.

(* ---------- homogeneity of degree 0 of the group kernel, at the reals ---------- *)
Lemma gac_homogeneous_R l x cgm lc Qs psis cQfs gpsis : l <> 0 ->
  group_activity_coefficients KR (map (Rmult l) x) cgm lc Qs psis cQfs gpsis =
  group_activity_coefficients KR x cgm lc Qs psis cQfs gpsis.
Proof.
  intros Hl. apply (gac_homogeneous KR l); cbn [kmul kadd kdiv kq KR].
  - intros a b. ring.
  - intros a b. ring.
  - change (Q2R 0) with (Q2R (0 # 1)). rewrite Q2R_0'. ring.
  - intros a b. unfold Rdiv. rewrite Rinv_mult. transitivity ((l * / l) * (a * / b)); [ring|].
    rewrite Rinv_r by exact Hl. ring.
Qed.

(* ================= permuting the group columns ================= *)
Section ColumnPerm.
Variables (G : nat) (p : list nat).
Hypothesis HG : (0 < G)%nat.
Hypothesis Pp : Permutation p (seq 0 G).

Definition sg (k : nat) : nat := nth k p 0%nat.
Definition permL (l : list R) : list R := map (fun k => nth k l 0) p.
Definition permM (m : list (list R)) : list (list R) := map (fun i => permL (nth i m [])) p.
Definition perm_chem (c : chem) : chem := mkChem (cx c) (cq c) (cr c) (permL (cg c)) (permL (cQ c)) (cl c).

Lemma p_length : length p = G.
Proof. rewrite (Permutation_length Pp). apply seq_length. Qed.

Lemma sg_lt k : (k < G)%nat -> (sg k < G)%nat.
Proof.
  intros Hk. assert (In (sg k) p) by (apply nth_In; rewrite p_length; exact Hk).
  apply (Permutation_in _ Pp) in H. apply in_seq in H. lia.
Qed.

Lemma permL_length l : length (permL l) = G.
Proof. unfold permL. rewrite map_length. apply p_length. Qed.

Lemma permL_nth l k : (k < G)%nat -> nth k (permL l) 0 = nth (sg k) l 0.
Proof. intros Hk. unfold permL. apply (nth_map_in (fun k0 => nth k0 l 0) p k 0%nat). rewrite p_length. exact Hk. Qed.

Lemma permM_rect m : rectangular (permM m) G G.
Proof.
  unfold permM. split; [rewrite map_length; apply p_length|].
  intros row Hin. apply in_map_iff in Hin. destruct Hin as (i & <- & _). apply permL_length.
Qed.

Lemma permM_ent m i j : (i < G)%nat -> (j < G)%nat -> ent (permM m) i j = ent m (sg i) (sg j).
Proof.
  intros Hi Hj. unfold ent, permM.
  rewrite (nth_map_in (fun i0 => permL (nth i0 m [])) p i 0%nat) by (rewrite p_length; exact Hi).
  apply permL_nth. exact Hj.
Qed.

Lemma bigsum_reindex f : bigsum G (fun k => f (sg k)) = bigsum G f.
Proof.
  unfold bigsum.
  replace (map (fun k => f (sg k)) (seq 0 G)) with (map f p).
  - apply sumR_perm. apply Permutation_map. exact Pp.
  - rewrite <- (map_nth_seq p 0%nat) at 1. rewrite p_length, map_map. reflexivity.
Qed.

Section Data.
Variables (Qs : list R) (psis gpsis : list (list R)).

Lemma QfI_perm W n : (n < G)%nat -> QfI G (permL Qs) (permL W) n = QfI G Qs W (sg n).
Proof.
  intros Hn. unfold QfI. rewrite !permL_nth by exact Hn. f_equal.
  rewrite <- (bigsum_reindex (fun j => nth j Qs 0 * nth j W 0)).
  apply bigsum_ext. intros j Hj. rewrite !permL_nth by exact Hj. reflexivity.
Qed.

Lemma S1I_perm W m : (m < G)%nat -> S1I G (permL Qs) (permM psis) (permL W) m = S1I G Qs psis W (sg m).
Proof.
  intros Hm. unfold S1I.
  rewrite <- (bigsum_reindex (fun n => ent psis (sg m) n * QfI G Qs W n)).
  apply bigsum_ext. intros n Hn. rewrite permM_ent, QfI_perm by assumption. reflexivity.
Qed.

Lemma LGI_perm W k : (k < G)%nat -> LGI G (permL Qs) (permM psis) (permL W) k = LGI G Qs psis W (sg k).
Proof.
  intros Hk. unfold LGI. rewrite permL_nth, S1I_perm by exact Hk. f_equal. f_equal.
  rewrite <- (bigsum_reindex (fun m => - (ent psis m (sg k) / S1I G Qs psis W m) * QfI G Qs W m)).
  apply bigsum_ext. intros m Hm. rewrite permM_ent, S1I_perm, QfI_perm by assumption. reflexivity.
Qed.

Lemma s1I_perm cQr m : (m < G)%nat -> s1I G (permM gpsis) (permL cQr) m = s1I G gpsis cQr (sg m).
Proof.
  intros Hm. unfold s1I.
  rewrite <- (bigsum_reindex (fun n => ent gpsis (sg m) n * nth n cQr 0)).
  apply bigsum_ext. intros n Hn. rewrite permM_ent, permL_nth by assumption. reflexivity.
Qed.

Lemma s1pI_perm cQr m : (m < G)%nat -> s1pI G (permM gpsis) (permL cQr) m = s1pI G gpsis cQr (sg m).
Proof. intros Hm. unfold s1pI. rewrite s1I_perm by exact Hm. reflexivity. Qed.

Lemma CLGI_perm cQr k : (k < G)%nat ->
  CLGI G (permL Qs) (permM gpsis) (permL cQr) k = CLGI G Qs gpsis cQr (sg k).
Proof.
  intros Hk. unfold CLGI. rewrite permL_nth, s1pI_perm by exact Hk. f_equal. f_equal.
  rewrite <- (bigsum_reindex (fun m => ent gpsis m (sg k) * (- nth m cQr 0 / s1pI G gpsis cQr m))).
  apply bigsum_ext. intros m Hm. rewrite permM_ent, permL_nth, s1pI_perm by assumption. reflexivity.
Qed.

Hypothesis LQs : length Qs = G.
Hypothesis Rpsis : rectangular psis G G.
Hypothesis Rgpsis : rectangular gpsis G G.

Lemma resid_column_perm W c : length W = G -> length (cQ c) = G -> length (cg c) = G ->
  resid_of (permL Qs) (permM psis) (permM gpsis) (permL W) (perm_chem c) = resid_of Qs psis gpsis W c.
Proof.
  intros LW Lc Lg.
  rewrite (resid_index G (permL Qs) (permM psis) (permM gpsis) HG (permL_length Qs) (permM_rect psis) (permM_rect gpsis)
             (permL W) (perm_chem c) (permL_length W) (permL_length (cQ c)) (permL_length (cg c))).
  rewrite (resid_index G Qs psis gpsis HG LQs Rpsis Rgpsis W c LW Lc Lg).
  cbn [perm_chem cQ cg].
  rewrite <- (bigsum_reindex (fun k => (LGI G Qs psis W k - CLGI G Qs gpsis (cQ c) k) * nth k (cg c) 0)).
  apply bigsum_ext. intros k Hk. rewrite LGI_perm, CLGI_perm, permL_nth by exact Hk. reflexivity.
Qed.
End Data.

(* the mixture's group amounts are permuted along *)
Lemma permL_vaddR a b : length a = G -> length b = G -> permL (vaddR a b) = vaddR (permL a) (permL b).
Proof.
  intros La Lb. unfold permL, vaddR. rewrite map2_map_map. apply map_ext_in. intros k Hk.
  assert (k < G)%nat by (apply (Permutation_in _ Pp) in Hk; apply in_seq in Hk; lia).
  apply (nth_map2_in Rplus a b k 0 0 0); lia.
Qed.

Lemma permL_axpy_sum cs : (forall c, In c cs -> length (cg c) = G) ->
  axpy_sum G (map perm_chem cs) = permL (axpy_sum G cs).
Proof.
  induction cs as [|c t IH]; intros Rect; cbn [map axpy_sum fold_right].
  - unfold permL. symmetry. rewrite (map_ext _ (fun _ : nat => 0)) by (intros; apply nth_repeat).
    rewrite <- p_length. clear. induction p; simpl; congruence.
  - fold (axpy_sum G (map perm_chem t)). fold (axpy_sum G t).
    rewrite IH by (intros; apply Rect; right; auto).
    rewrite permL_vaddR.
    + f_equal. unfold axpy, perm_chem. cbn [cg cx]. unfold permL. rewrite map_map. apply map_ext_in. intros k Hk.
      assert (k < G)%nat by (apply (Permutation_in _ Pp) in Hk; apply in_seq in Hk; lia).
      rewrite (nth_map_in (fun g => g * cx c) (cg c) k 0) by (rewrite (Rect c); [lia|left; auto]). reflexivity.
    + unfold axpy. rewrite map_length. apply Rect. left; auto.
    + apply axpy_sum_length. intros; apply Rect; right; auto.
Qed.

Lemma wc_column_perm cs : cs <> [] -> (forall c, In c cs -> length (cg c) = G) ->
  wc_of (map perm_chem cs) = permL (wc_of cs).
Proof.
  intros NE Rect.
  rewrite (wc_axpy G (map perm_chem cs)).
  - rewrite (wc_axpy G cs NE Rect). apply permL_axpy_sum. exact Rect.
  - destruct cs; [congruence|discriminate].
  - intros c Hc. apply in_map_iff in Hc. destruct Hc as (c0 & <- & _). apply permL_length.
Qed.

Lemma sum_over_map {B C} (g : B -> C) (f : C -> R) l : sum_over (map g l) f = sum_over l (fun c => f (g c)).
Proof. unfold sum_over. rewrite map_map. reflexivity. Qed.

(* gamma of the sub-system is unchanged when the group columns (Q, counts, Q-fractions, psis, masked psis) are
   permuted consistently *)
Lemma gamma_sub_column_perm Qs psis gpsis cs :
  length Qs = G -> rectangular psis G G -> rectangular gpsis G G ->
  (forall c, In c cs -> length (cg c) = G /\ length (cQ c) = G) ->
  gamma_sub_UNIFAC (permL Qs) (permM psis) (permM gpsis) (map perm_chem cs) = gamma_sub_UNIFAC Qs psis gpsis cs /\
  gamma_sub_modified (permL Qs) (permM psis) (permM gpsis) (map perm_chem cs) = gamma_sub_modified Qs psis gpsis cs.
Proof.
  intros LQ Rp Rg Sh.
  destruct cs as [|c0 t] eqn:Ecs; [split; reflexivity|]. rewrite <- Ecs in *.
  assert (NE : cs <> []) by (rewrite Ecs; discriminate).
  assert (Rect : forall c, In c cs -> length (cg c) = G) by (intros c Hc; apply (Sh c Hc)).
  assert (LW : length (wc_of cs) = G) by (rewrite (wc_axpy G cs NE Rect); apply axpy_sum_length; exact Rect).
  rewrite !gamma_sub_UNIFAC_map, !gamma_sub_modified_map.
  rewrite (wc_column_perm cs NE Rect). rewrite !map_map.
  assert (E1 : rho (map perm_chem cs) = rho cs) by (unfold rho; rewrite sum_over_map; reflexivity).
  assert (E2 : theta (map perm_chem cs) = theta cs) by (unfold theta; rewrite sum_over_map; reflexivity).
  assert (E3 : rho34 (map perm_chem cs) = rho34 cs) by (unfold rho34; rewrite sum_over_map; reflexivity).
  split; apply map_ext_in; intros c Hc; destruct (Sh c Hc) as [Lg Lc];
    rewrite (resid_column_perm Qs psis gpsis LQ Rp Rg (wc_of cs) c LW Lc Lg);
    unfold comb_UNIFAC_of, comb_modified_of; rewrite ?E1, ?E2, ?E3; reflexivity.
Qed.
End ColumnPerm.
