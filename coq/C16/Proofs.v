(* C16 — lemmas.  Part A: structural facts about the wrappers and classes, for every carrier
   (no axioms).  Part B (ProofsR.v): the kernels at the real carrier KR. *)
From V Require Import Common.NumFacts C16.Model.
From Coq Require Import Lia.

Section Generic.
Context {A I : Type} (K : KOps A).

(* ---------- lists ---------- *)
Lemma upd_len {B} (l : list B) i v : length (upd l i v) = length l.
Proof. revert i; induction l as [|h t IH]; intros [|i]; simpl; auto. Qed.

Lemma nth_upd_neq {B} (l : list B) i j v d : i <> j -> nth j (upd l i v) d = nth j l d.
Proof.
  revert i j; induction l as [|h t IH]; intros [|i] [|j] Hne; simpl; auto; try congruence.
Qed.

Lemma nth_upd_eq {B} (l : list B) i v d : (i < length l)%nat -> nth i (upd l i v) d = v.
Proof.
  revert i; induction l as [|h t IH]; intros [|i] Hl; simpl in *; auto; try lia. apply IH; lia.
Qed.

Lemma map_snd_combine {B C} (a : list B) (b : list C) :
  length a = length b -> map snd (combine a b) = b.
Proof.
  revert b; induction a as [|h t IH]; intros [|h' t'] L; simpl in *; try discriminate; auto.
  f_equal. apply IH. lia.
Qed.

Lemma in_enum_snd {B} (l : list B) i b : In (i, b) (enum l) -> In b l.
Proof. unfold enum. intros H. eapply in_combine_r; eauto. Qed.

(* ---------- gather loop ---------- *)
Lemma gather_into_sub_keeps_x (l : list (nat * nat)) (x xs : list A) :
  fst (fold_left (gather_step K GatherIntoSub) l (x, xs)) = x.
Proof.
  revert x xs; induction l as [|[i j] t IH]; intros x xs; simpl; auto.
Qed.

Lemma gather_loop_keeps_x index (x xs : list A) :
  fst (gather_loop K GatherIntoSub index x xs) = x.
Proof. unfold gather_loop. apply gather_into_sub_keeps_x. Qed.

(* x_sub after the gather loop is the sub-composition: entry i is x[index[i]] *)
Lemma gather_fold_sub (l : list (nat * nat)) (x xs : list A) i d :
  NoDup (map fst l) ->
  nth i (snd (fold_left (gather_step K GatherIntoSub) l (x, xs))) d =
  match find (fun ij => Nat.eqb (fst ij) i) l with
  | Some ij => if (i <? length xs)%nat then nth (snd ij) x (kzero K) else nth i xs d
  | None => nth i xs d
  end.
Proof.
  revert xs; induction l as [|[a b] t IH]; intros xs ND; simpl; auto.
  inversion ND as [|? ? Hnotin ND']; subst.
  rewrite IH by assumption. rewrite upd_len.
  destruct (Nat.eqb a i) eqn:E.
  - apply Nat.eqb_eq in E; subst a.
    assert (Hf : find (fun ij : nat * nat => Nat.eqb (fst ij) i) t = None).
    { destruct (find _ t) as [[a' b']|] eqn:F; auto. apply find_some in F. destruct F as [Fin Fe].
      simpl in Fe. apply Nat.eqb_eq in Fe; subst. exfalso. apply Hnotin.
      change i with (fst (i, b')). apply in_map. exact Fin. }
    rewrite Hf. destruct (i <? length xs)%nat eqn:L.
    + apply Nat.ltb_lt in L. apply nth_upd_eq; auto.
    + apply Nat.ltb_ge in L. rewrite nth_overflow by (rewrite upd_len; lia).
      rewrite nth_overflow by lia. reflexivity.
  - apply Nat.eqb_neq in E.
    destruct (find _ t) as [[a' b']|]; [destruct (i <? length xs)%nat|]; auto; apply nth_upd_neq; auto.
Qed.

(* ---------- scatter loop ---------- *)
Lemma scatter_fold_other (gs : list A) (l : list (nat * nat)) (g : list A) j d :
  (forall ij, In ij l -> snd ij <> j) ->
  nth j (fold_left (scatter_step K gs) l g) d = nth j g d.
Proof.
  revert g; induction l as [|ij t IH]; intros g H; simpl; auto.
  rewrite IH by (intros; apply H; right; auto).
  unfold scatter_step. apply nth_upd_neq. apply H. left; auto.
Qed.

Lemma scatter_other index (gs g : list A) j d :
  ~ In j index -> nth j (scatter K index gs g) d = nth j g d.
Proof.
  intros Hn. unfold scatter. apply scatter_fold_other.
  intros [i b] Hin Heq. simpl in Heq; subst. apply Hn. eapply in_enum_snd; eauto.
Qed.

Lemma scatter_fold_len (gs : list A) l g : length (fold_left (scatter_step K gs) l g) = length g.
Proof. revert g; induction l as [|ij t IH]; intros g; simpl; auto. rewrite IH. apply upd_len. Qed.

Lemma scatter_len index (gs g : list A) : length (scatter K index gs g) = length g.
Proof. apply scatter_fold_len. Qed.

(* a position written by the scatter loop (indices distinct) receives gamma_sub[i] *)
Lemma scatter_fold_hit (gs : list A) (l : list (nat * nat)) (g : list A) i j d :
  NoDup (map snd l) -> In (i, j) l -> (j < length g)%nat ->
  nth j (fold_left (scatter_step K gs) l g) d = nth i gs (kzero K).
Proof.
  revert g; induction l as [|[a b] t IH]; intros g ND Hin Hj; simpl in *; [contradiction|].
  inversion ND as [|? ? Hnotin ND']; subst.
  destruct Hin as [E|Hin].
  - inversion E; subst. rewrite scatter_fold_other.
    + unfold scatter_step; simpl. apply nth_upd_eq; auto.
    + intros [a' b'] Hin' Heq. simpl in Heq; subst. apply Hnotin.
      change j with (snd (a', j)). apply in_map; auto.
  - apply IH; auto. unfold scatter_step. rewrite upd_len. auto.
Qed.

Lemma nth_ones n j : nth j (ones K n) (kone K) = kone K.
Proof. unfold ones. revert j; induction n; intros [|j]; simpl; auto. Qed.

(* ---------- the wrapper ---------- *)
Section W.
Variables (sp : scatterpos) (psi : A -> I -> list (list A))
          (lgc : list A -> list A -> list A -> list A)
          (gac : list A -> list (list A) -> list A -> list A -> list (list A) -> list (list A) ->
                 list (list A) -> list A).

(* the caller's composition array is returned as it was passed *)
Lemma wrapper_x_untouched x T inter gpsis mask qs rs Qs cg cQfs index w :
  wrapper K GatherIntoSub sp psi lgc gac x T inter gpsis mask qs rs Qs cg cQfs index = Ok w ->
  w_x w = x.
Proof.
  unfold wrapper. intros H.
  destruct (1 <? length index)%nat; [|inversion H; reflexivity].
  pose proof (gather_loop_keeps_x index x (ones K (length index))) as G.
  destruct (gather_loop K GatherIntoSub index x (ones K (length index))) as [x1 xs1]. simpl in G.
  destruct (negb _).
  - inversion H; subst; reflexivity.
  - destruct sp; inversion H; subst; reflexivity.
Qed.

(* with the scatter loop under `if xsum` the wrapper always returns *)
Lemma wrapper_total d x T inter gpsis mask qs rs Qs cg cQfs index :
  exists w, wrapper K d ScatterInside psi lgc gac x T inter gpsis mask qs rs Qs cg cQfs index = Ok w.
Proof.
  unfold wrapper.
  destruct (1 <? length index)%nat; [|eexists; reflexivity].
  destruct (gather_loop K d index x (ones K (length index))) as [x1 xs1].
  destruct (negb _); eexists; reflexivity.
Qed.

(* a chemical that is not in `index` (no group data) gets exactly one; result has the length of x *)
Lemma wrapper_no_group_is_one d x T inter gpsis mask qs rs Qs cg cQfs index w j :
  wrapper K d sp psi lgc gac x T inter gpsis mask qs rs Qs cg cQfs index = Ok w ->
  ~ In j index ->
  length (w_gamma w) = length x /\ nth j (w_gamma w) (kone K) = kone K.
Proof.
  unfold wrapper. intros H Hn.
  assert (L1 : length (ones K (length x)) = length x) by (unfold ones; apply repeat_length).
  destruct (1 <? length index)%nat.
  2:{ inversion H; subst; simpl. split; [exact L1|apply nth_ones]. }
  destruct (gather_loop K d index x (ones K (length index))) as [x1 xs1].
  destruct (negb _).
  - inversion H; subst; simpl. split.
    + rewrite scatter_len. exact L1.
    + rewrite scatter_other by assumption. apply nth_ones.
  - destruct sp; inversion H; subst; simpl. split; [exact L1|apply nth_ones].
Qed.

(* the value scattered to a chemical with groups is the kernel's value for its row *)
Lemma wrapper_group_value x T inter gpsis mask qs rs Qs cg cQfs index w i j :
  wrapper K GatherIntoSub sp psi lgc gac x T inter gpsis mask qs rs Qs cg cQfs index = Ok w ->
  (1 < length index)%nat -> NoDup index -> nth_error index i = Some j -> (j < length x)%nat ->
  let x_sub := snd (gather_loop K GatherIntoSub index x (ones K (length index))) in
  let xsum := ksum K x_sub in
  keqb K xsum (kzero K) = false ->
  let xn := bc_10 (kdiv K) x_sub xsum in
  let psis := psi T inter in
  nth j (w_gamma w) (kone K) =
  nth i (gac xn cg (lgc qs rs xn) Qs psis cQfs (fill_group_psis K psis mask)) (kzero K).
Proof.
  intros H L ND Hi Hj x_sub xsum Hz xn psis. unfold wrapper in H.
  apply Nat.ltb_lt in L. rewrite L in H.
  subst x_sub xsum xn.
  destruct (gather_loop K GatherIntoSub index x (ones K (length index))) as [x1 xs1]. simpl in *.
  rewrite Hz in H. simpl in H. inversion H; subst; simpl.
  unfold scatter. apply scatter_fold_hit.
  - unfold enum. rewrite map_snd_combine; [exact ND|]. rewrite seq_length; reflexivity.
  - unfold enum. clear - Hi.
    assert (G : forall k, In (k + i, j)%nat (combine (seq k (length index)) index)).
    { revert i Hi. induction index as [|h t IH]; intros [|i] Hi k; simpl in *; try discriminate.
      - inversion Hi; subst. left. f_equal. lia.
      - right. replace (k + S i)%nat with (S k + i)%nat by lia. apply IH. exact Hi. }
    apply (G 0%nat).
  - unfold ones. rewrite repeat_length. exact Hj.
Qed.
End W.

(* ---------- __call__ and .f ---------- *)
Lemma call_eq_f (f : wfun (A:=A) (I:=I)) x T a c :
  call f x T a = Ok c ->
  exists w, f_apply f (xval x) T a = Ok w /\ c_gamma c = w_gamma w /\ c_gpsis c = w_gpsis w.
Proof.
  unfold call. destruct (f_apply f (xval x) T a) as [w|e]; simpl; intros H; inversion H; subst.
  exists w. auto.
Qed.

Lemma f_eq_call (f : wfun (A:=A) (I:=I)) x T a w :
  f_apply f (xval x) T a = Ok w -> exists c, call f x T a = Ok c /\ c_gamma c = w_gamma w.
Proof. unfold call. intros ->. simpl. eexists; split; reflexivity. Qed.

Lemma call_err_iff (f : wfun (A:=A) (I:=I)) x T a e :
  call f x T a = Err e <-> f_apply f (xval x) T a = Err e.
Proof. unfold call. destruct (f_apply f (xval x) T a); simpl; split; intros H; inversion H; auto. Qed.

(* the caller's object after Gamma(x, T): untouched whenever the function leaves its argument alone *)
Lemma call_x_untouched (f : wfun (A:=A) (I:=I)) x T a c :
  (forall w, f_apply f (xval x) T a = Ok w -> w_x w = xval x) ->
  call f x T a = Ok c -> c_x c = xval x.
Proof.
  unfold call. intros Hf. destruct (f_apply f (xval x) T a) as [w|e]; simpl; intros H; inversion H; subst.
  simpl. destruct x; simpl; auto.
Qed.

(* object level *)
Lemma obj_f_eq_call (o : gobj (A:=A) (I:=I)) x T g xa :
  obj_call K o x T = Ok (g, xa) ->
  match obj_f K o (xval x) T with
  | Ok (FScalar v) => length g = length (xval x) /\ forall i, nth i g v = v
  | Ok (FArray v) => g = v
  | Err _ => False
  end.
Proof.
  destruct o as [|f a]; simpl.
  - intros H; inversion H; subst. unfold ideal_activity_call, ideal_f. split.
    + apply repeat_length.
    + intros i. revert i. induction (length (xval x)); intros [|i]; simpl; auto.
  - unfold call. destruct (f_apply f (xval x) T a) as [w|e]; simpl; intros H; inversion H; subst. reflexivity.
Qed.

Lemma new_obj_kind (f : wfun (A:=A) (I:=I)) a :
  ((length (a_index a) <= 1)%nat -> new_obj f a = ObjIdeal) /\
  ((1 < length (a_index a))%nat -> new_obj f a = ObjGroup f a).
Proof.
  unfold new_obj. split; intros H.
  - apply Nat.leb_le in H. rewrite H. reflexivity.
  - apply Nat.leb_gt in H. rewrite H. reflexivity.
Qed.


(* ---------- call histories on one object ---------- *)
Lemma upd_nth_same {B} (l : list B) r d : upd l r (nth r l d) = l.
Proof. revert r; induction l as [|h t IH]; intros [|r]; simpl; auto. f_equal. apply IH. Qed.

Lemma set_gpsis_twice (a : gargs (A:=A) (I:=I)) g g' : set_gpsis (set_gpsis a g) g' = set_gpsis a g'.
Proof. reflexivity. Qed.

(* the buffer argument does not influence the values (every cell is overwritten before use) *)
Lemma wrapper_gamma_indep_buffer d sp psi lgc gac x T inter g g' mask qs rs Qs cg cQfs index :
  match wrapper K d sp psi lgc gac x T inter g mask qs rs Qs cg cQfs index,
        wrapper (I:=I) K d sp psi lgc gac x T inter g' mask qs rs Qs cg cQfs index with
  | Ok w, Ok w' => w_gamma w = w_gamma w' /\ w_x w = w_x w'
  | Err e, Err e' => e = e'
  | _, _ => False
  end.
Proof.
  unfold wrapper.
  destruct (1 <? length index)%nat; [|simpl; auto].
  destruct (gather_loop K d index x (ones K (length index))) as [x1 xs1].
  destruct (negb _); [simpl; auto|].
  destruct sp; simpl; auto.
Qed.

Lemma set_inter_same (a : gargs (A:=A) (I:=I)) g : set_inter (set_gpsis a g) (a_inter a) = set_gpsis a g.
Proof. reflexivity. Qed.

Section History.
Variable f : wfun (A:=A) (I:=I).
Variable m : mfun (A:=A) (I:=I).
Variable act : gargs (A:=A) (I:=I) -> list A -> A -> list A.
Variable a : gargs (A:=A) (I:=I).
(* what is known about the buffer between operations (it is only ever written through the mask) *)
Variable Inv : list (list A) -> Prop.
(* the facts about f and the method the history theorem rests on *)
Hypothesis f_buffer_free : forall x T g, gamma_of f (set_gpsis a g) x T = gamma_of f a x T.
Hypothesis f_keeps_x : forall x T g w, f_apply f x T (set_gpsis a g) = Ok w -> w_x w = x.
Hypothesis f_inv : forall x T g w, Inv g -> f_apply f x T (set_gpsis a g) = Ok w -> Inv (w_gpsis w).
Hypothesis m_ok : forall v T g, Inv g ->
  exists g', Inv g' /\ m_apply m v T (set_gpsis a g) = (act a v T, g', a_inter a).

(* one step of the object (whatever its buffer holds) is one step of the state-free specification *)
Lemma hstep_spec o arrays results g : Inv g ->
  exists g', Inv g' /\
    hstep f m (mkH arrays results (set_gpsis a g)) o =
    (mkH (fst (fst (spec_step f act a (arrays, results) o))) (snd (fst (spec_step f act a (arrays, results) o)))
         (set_gpsis a g'),
     snd (spec_step f act a (arrays, results) o)).
Proof.
  intros HI.
  destruct o as [r alias T|r T|v T|r v|k v]; cbn [hstep spec_step h_arrays h_results h_args fst snd].
  - pose proof (f_buffer_free (nth r arrays []) T g) as B. unfold gamma_of in *.
    unfold call.
    assert (XV : xval (if alias then XFloat64 (nth r arrays []) else XOther (nth r arrays [])) = nth r arrays [])
      by (destruct alias; reflexivity).
    rewrite XV.
    destruct (f_apply f (nth r arrays []) T (set_gpsis a g)) as [w|e] eqn:E; cbn [bind c_x c_gamma c_gpsis];
      rewrite <- B.
    + exists (w_gpsis w). split; [apply (f_inv _ _ _ _ HI E)|]. rewrite set_gpsis_twice.
      assert (X : (match (if alias then XFloat64 (nth r arrays []) else XOther (nth r arrays [])) with
                   | XFloat64 _ => w_x w | XOther v => v end) = nth r arrays []).
      { destruct alias; auto. apply (f_keeps_x _ _ _ _ E). }
      rewrite X. rewrite upd_nth_same. reflexivity.
    + exists g. split; [exact HI|reflexivity].
  - pose proof (f_buffer_free (nth r arrays []) T g) as B. unfold gamma_of in *.
    destruct (f_apply f (nth r arrays []) T (set_gpsis a g)) as [w|e] eqn:E; rewrite <- B.
    + exists (w_gpsis w). split; [apply (f_inv _ _ _ _ HI E)|].
      rewrite set_gpsis_twice. rewrite (f_keeps_x _ _ _ _ E). rewrite upd_nth_same. reflexivity.
    + exists g. split; [exact HI|reflexivity].
  - destruct (m_ok v T g HI) as (g' & HI' & E). rewrite E.
    exists g'. split; [exact HI'|]. rewrite set_gpsis_twice. rewrite set_inter_same. reflexivity.
  - exists g. split; [exact HI|reflexivity].
  - exists g. split; [exact HI|reflexivity].
Qed.

Lemma run_hist_spec ops : forall arrays results g, Inv g ->
  exists g', Inv g' /\
    run_hist f m (mkH arrays results (set_gpsis a g)) ops =
    (mkH (fst (fst (spec_hist f act a (arrays, results) ops))) (snd (fst (spec_hist f act a (arrays, results) ops)))
         (set_gpsis a g'),
     snd (spec_hist f act a (arrays, results) ops)).
Proof.
  induction ops as [|o t IH]; intros arrays results g HI; [exists g; split; [exact HI|reflexivity]|].
  cbn [run_hist spec_hist].
  destruct (hstep_spec o arrays results g HI) as (g1 & HI1 & H1). rewrite H1.
  destruct (spec_step f act a (arrays, results) o) as [[arr1 res1] out1] eqn:S1. cbn [fst snd].
  destruct (IH arr1 res1 g1 HI1) as (g2 & HI2 & H2). rewrite H2.
  destruct (spec_hist f act a (arr1, res1) t) as [[arr2 res2] outs2]. cbn [fst snd].
  exists g2. split; [exact HI2|reflexivity].
Qed.
End History.

Lemma set_gpsis_self (a : gargs (A:=A) (I:=I)) : set_gpsis a (a_gpsis a) = a.
Proof. destruct a; reflexivity. Qed.

(* both facts hold for any instance of the wrapper whose gather loop reads x *)
Lemma wrapper_buffer_free sp psi lgc gac x T (a : gargs (A:=A) (I:=I)) g :
  gamma_of (wrapper K GatherIntoSub sp psi lgc gac) (set_gpsis a g) x T =
  gamma_of (wrapper K GatherIntoSub sp psi lgc gac) a x T.
Proof.
  unfold gamma_of, f_apply, set_gpsis. cbn.
  pose proof (wrapper_gamma_indep_buffer GatherIntoSub sp psi lgc gac x T (a_inter a) g (a_gpsis a) (a_mask a)
                (a_qs a) (a_rs a) (a_Qs a) (a_chemgroups a) (a_cQfs a) (a_index a)) as H.
  destruct (wrapper K GatherIntoSub sp psi lgc gac x T (a_inter a) g _ _ _ _ _ _ _) as [w|e];
  destruct (wrapper K GatherIntoSub sp psi lgc gac x T (a_inter a) (a_gpsis a) _ _ _ _ _ _ _) as [w'|e'];
    try contradiction.
  - destruct H as [H _]. rewrite H. reflexivity.
  - subst. reflexivity.
Qed.

(* ---- the buffer is only ever written through the mask: cells outside the mask stay zero ---- *)
Definition same_shape {B C} (p : list (list B)) (q : list (list C)) : Prop :=
  Forall2 (fun pr qr => length pr = length qr) p q.
Definition clean_buffer (mask : list (list bool)) (g : list (list A)) : Prop :=
  exists p, same_shape p mask /\ g = fill_group_psis K p mask.

Lemma masked_row (pr qr : list A) (mr : list bool) : length pr = length mr -> length qr = length mr ->
  map3 (fun b p (m0 : bool) => if m0 then p else b) (map2 (fun p (m0 : bool) => if m0 then p else kzero K) pr mr) qr mr =
  map2 (fun p (m0 : bool) => if m0 then p else kzero K) qr mr.
Proof.
  revert pr qr; induction mr as [|m0 mr IH]; intros [|p0 pr] [|q0 qr] Lp Lq; simpl in *; try discriminate; auto.
  rewrite IH by lia. destruct m0; reflexivity.
Qed.

Lemma masked_update_fill (p q : list (list A)) mask : same_shape p mask -> same_shape q mask ->
  masked_update (fill_group_psis K p mask) q mask = fill_group_psis K q mask.
Proof.
  unfold masked_update, fill_group_psis, same_shape.
  revert p q; induction mask as [|mr mask IH]; intros p q Sp Sq; inversion Sp; inversion Sq; subst; simpl; auto.
  rewrite masked_row by assumption. f_equal. apply IH; assumption.
Qed.

Lemma wrapper_keeps_clean sp psi lgc gac x T inter g mask qs rs Qs cg cQfs index w :
  (forall T0, same_shape (psi T0 inter) mask) -> clean_buffer mask g ->
  wrapper (I:=I) K GatherIntoSub sp psi lgc gac x T inter g mask qs rs Qs cg cQfs index = Ok w ->
  clean_buffer mask (w_gpsis w).
Proof.
  intros Hs Hc. unfold wrapper.
  destruct (1 <? length index)%nat; [|intros H; inversion H; exact Hc].
  destruct (gather_loop K GatherIntoSub index x (ones K (length index))) as [x1 xs1].
  destruct (negb _).
  - intros H; inversion H; subst; simpl. exists (psi T inter). split; [apply Hs|reflexivity].
  - destruct sp; intros H; inversion H; subst; simpl. exact Hc.
Qed.

Lemma wrapper_history sp psi psi_effect lgc gac (a : gargs (A:=A) (I:=I)) arrays results ops :
  (forall T0, same_shape (psi T0 (a_inter a)) (a_mask a)) -> clean_buffer (a_mask a) (a_gpsis a) ->
  let f := wrapper K GatherIntoSub sp psi lgc gac in
  let m := act_method InterCopied psi psi_effect lgc gac in
  let S := spec_hist f (act_spec K psi lgc gac) a (arrays, results) ops in
  let R := run_hist f m (mkH arrays results a) ops in
  snd R = snd S /\ h_arrays (fst R) = fst (fst S) /\ h_results (fst R) = snd (fst S) /\
  a_inter (h_args (fst R)) = a_inter a /\ clean_buffer (a_mask a) (a_gpsis (h_args (fst R))).
Proof.
  intros Hs Hc f m S R. subst R S.
  assert (HB : forall x T g, gamma_of f (set_gpsis a g) x T = gamma_of f a x T)
    by (intros; apply wrapper_buffer_free).
  assert (HX : forall x T g w, f_apply f x T (set_gpsis a g) = Ok w -> w_x w = x)
    by (intros x T g w H; unfold f_apply in H; eapply wrapper_x_untouched; eauto).
  assert (HI : forall x T g w, clean_buffer (a_mask a) g -> f_apply f x T (set_gpsis a g) = Ok w ->
                               clean_buffer (a_mask a) (w_gpsis w)).
  { intros x T g w Hg H. unfold f_apply in H. cbn in H. eapply wrapper_keeps_clean; eauto. }
  assert (HM : forall v T g, clean_buffer (a_mask a) g ->
             exists g', clean_buffer (a_mask a) g' /\
                        m_apply m v T (set_gpsis a g) = (act_spec K psi lgc gac a v T, g', a_inter a)).
  { intros v T g (p & Sp & ->). exists (fill_group_psis K (psi T (a_inter a)) (a_mask a)). split.
    - exists (psi T (a_inter a)). split; [apply Hs|reflexivity].
    - unfold m_apply, m, act_method, act_spec, set_gpsis. cbn [a_inter a_gpsis a_mask a_qs a_rs a_Qs a_chemgroups a_cQfs].
      rewrite (masked_update_fill p (psi T (a_inter a)) (a_mask a) Sp (Hs T)). reflexivity. }
  destruct (run_hist_spec f m (act_spec K psi lgc gac) a (clean_buffer (a_mask a)) HB HX HI HM
              ops arrays results (a_gpsis a) Hc) as (g' & Hg' & H).
  rewrite set_gpsis_self in H. rewrite H. cbn [fst snd h_arrays h_results h_args]. auto.
Qed.

(* the specification: the caller's arrays change only by the caller's writes; a result, once handed out, changes only
   by the caller's writes to it (later calls neither read nor write it) *)
Lemma spec_hist_arrays (f : wfun (A:=A) (I:=I)) act a ops : forall arrays results,
  fst (fst (spec_hist f act a (arrays, results) ops)) =
  fold_left (fun arr o => match o with HSet r v => upd arr r v | _ => arr end) ops arrays.
Proof.
  induction ops as [|o t IH]; intros arrays results; [reflexivity|].
  cbn [spec_hist fold_left].
  destruct (spec_step f act a (arrays, results) o) as [[arr1 res1] out1] eqn:S1.
  specialize (IH arr1 res1). destruct (spec_hist f act a (arr1, res1) t) as [[arr2 res2] outs2]. cbn [fst snd] in *.
  rewrite IH. f_equal. destruct o; cbn in S1; inversion S1; reflexivity.
Qed.

(* ideal object: every call answers ones, whatever the caller did to earlier results *)
Lemma ideal_hist_ones ops : forall results,
  Forall (fun o => match o with
                   | None => True
                   | Some (FScalar v) => v = kq K 1
                   | Some (FArray g) => forall i, nth i g (kq K 1) = kq K 1
                   end) (snd (run_ideal_hist K results ops)).
Proof.
  induction ops as [|o t IH]; intros results; cbn [run_ideal_hist]; [constructor|].
  destruct o as [n| |k v]; cbn [istep].
  - specialize (IH (results ++ [repeat (kq K 1) n])).
    destruct (run_ideal_hist K (results ++ [repeat (kq K 1) n]) t) as [r2 outs]. cbn [snd] in *.
    constructor; [|exact IH]. intros i. revert i. induction n; intros [|i]; simpl; auto.
  - specialize (IH results). destruct (run_ideal_hist K results t) as [r2 outs]. cbn [snd] in *.
    constructor; [reflexivity|exact IH].
  - specialize (IH (upd results k v)). destruct (run_ideal_hist K (upd results k v) t) as [r2 outs]. cbn [snd] in *.
    constructor; [exact Logic.I|exact IH].
Qed.


(* ---------- homogeneity of the group kernel (algebraic core of Gibbs-Duhem for the residual part) ----------
   group_activity_coefficients depends on the composition only through the group fractions, which are
   homogeneous of degree 0: scaling every amount by l leaves the result unchanged.  Stated for any carrier whose
   operations satisfy the four identities used (they hold in a field for l <> 0). *)
Section Homogeneity.
Variable l : A.
Hypothesis mul_swap : forall a b, kmul K a (kmul K l b) = kmul K l (kmul K a b).
Hypothesis mul_add : forall a b, kmul K l (kadd K a b) = kadd K (kmul K l a) (kmul K l b).
Hypothesis mul_zero : kmul K l (kq K 0) = kq K 0.
Hypothesis div_cancel : forall a b, kdiv K (kmul K l a) (kmul K l b) = kdiv K a b.

Lemma ksum_scale ys : ksum K (map (kmul K l) ys) = kmul K l (ksum K ys).
Proof.
  unfold ksum. induction ys as [|y t IH]; simpl; [symmetry; exact mul_zero|].
  rewrite IH. symmetry. apply mul_add.
Qed.

Lemma map2_scale_r (a x : list A) : map2 (kmul K) a (map (kmul K l) x) = map (kmul K l) (map2 (kmul K) a x).
Proof.
  revert x; induction a as [|u a IH]; intros [|v x]; simpl; auto. rewrite mul_swap, IH. reflexivity.
Qed.

Lemma vdot_scale (row x : list A) : vdot K row (map (kmul K l) x) = kmul K l (vdot K row x).
Proof. unfold vdot. rewrite map2_scale_r. apply ksum_scale. Qed.

Lemma matvec_scale (m : list (list A)) x : matvec K m (map (kmul K l) x) = map (kmul K l) (matvec K m x).
Proof. unfold matvec. rewrite map_map. apply map_ext. intros row. apply vdot_scale. Qed.

Lemma qfractions_scale (Qs W : list A) :
  bc_10 (kdiv K) (bc_11 (kmul K) Qs (map (kmul K l) W)) (ksum K (bc_11 (kmul K) Qs (map (kmul K l) W))) =
  bc_10 (kdiv K) (bc_11 (kmul K) Qs W) (ksum K (bc_11 (kmul K) Qs W)).
Proof.
  unfold bc_11, bc_10. rewrite map2_scale_r, ksum_scale, map_map. apply map_ext. intros u. apply div_cancel.
Qed.

Lemma gac_homogeneous x cg lc Qs psis cQfs gpsis :
  group_activity_coefficients K (map (kmul K l) x) cg lc Qs psis cQfs gpsis =
  group_activity_coefficients K x cg lc Qs psis cQfs gpsis.
Proof.
  unfold group_activity_coefficients. rewrite matvec_scale. rewrite qfractions_scale. reflexivity.
Qed.
End Homogeneity.

End Generic.
