(* C05 — executable model of applying reactions to material.
   Source modelled (thermosteam/reaction/_reaction.py unless stated):
     Reaction.__init__ (string/dict placement by _parse.dct2arr / _xparse.dct2arr, duplicate and
       unknown-name checks of extract_coefficients, choice of the reactant, _rescale),
     set_reaction_basis (through V.C17.Model.set_basis),
     Reaction._reaction, ParallelReaction._reaction, SeriesReaction._reaction,
     ReactionSystem._reaction (with its basis check),
     Reaction.__call__ (shared by ReactionSet and ReactionSystem): as_material_array routing,
       the feasibility step, write-back through the mass view (base/dictionary_view.py
       MassFlowDict: mass = mol*MW, mol = mass/MW), restoring the stream's own chemicals
       (indexer.py ChemicalIndexer.reset_chemicals / MaterialIndexer.reset_chemicals).
   Phase-tagged data (M phases x N chemicals) is flattened row-major as in C17.
   No proofs in this file. *)
From V Require Export Common.Num C17.Model.

(* ---------- construction ---------- *)
(* one term of the reaction as written: (phase row, chemical index, coefficient).  A chemical
   index >= n stands for a name that the package does not define; a row >= P for a phase the
   reaction does not have. *)
Definition term := (nat * nat * Q)%type.

Fixpoint dup_chem (seen : list nat) (ts : list term) : bool :=
  match ts with
  | [] => false
  | (_, j, _) :: t => if existsb (Nat.eqb j) seen then true else dup_chem (j :: seen) t
  end.

(* dct2arr: terms are placed one after the other; the phase is looked up before the chemical *)
Fixpoint place (n P : nat) (ts : list term) (acc : vec) : res vec :=
  match ts with
  | [] => Ok acc
  | (p, j, c) :: t =>
      if negb (Nat.ltb p P) then Err EUndefPhase
      else if negb (Nat.ltb j n) then Err EKey
      else place n P t (upd acc (p * n + j)%nat c)
  end.

(* is_str: the reaction was given as a string (extract_coefficients rejects a repeated chemical
   before anything is looked up); a dict cannot repeat a key. *)
Definition parse (is_str : bool) (n P : nat) (ts : list term) : res vec :=
  if is_str && dup_chem [] ts then Err EValue
  else place n P ts (vzero (P * n)%nat).

Fixpoint neg_idx_from (i : nat) (v : vec) : list nat :=
  match v with
  | [] => []
  | x :: t => if qltb x 0 then i :: neg_idx_from (S i) t else neg_idx_from (S i) t
  end.
Definition neg_idx (v : vec) := neg_idx_from 0 v.

(* for phase_index, x in enumerate(stoichiometry[:, j]): if x: break  — first row with a
   non-zero entry, the last row when there is none *)
Fixpoint first_nz_row (n j : nat) (s : vec) (p todo : nat) : nat :=
  match todo with
  | O => p
  | S O => p
  | S t => if negb (qzerob (nthq s (p * n + j)%nat)) then p else first_nz_row n j s (S p) t
  end.

Definition choose_reactant (n P : nat) (s : vec) (r : option nat) : res nat :=
  match r with
  | Some j => Ok (first_nz_row n j s 0 P * n + j)%nat
  | None => match neg_idx s with [k] => Ok k | _ => Err EValue end
  end.

(* Reaction(reaction, reactant, X, basis=..., phases=...) *)
Definition mk_reaction (is_str : bool) (n P : nat) (ts : list term) (reactant : option nat)
           (x : Q) (w : bool) (ph : list nat) : res rxn :=
  do s <- parse is_str n P ts;
  do k <- choose_reactant n P s reactant;
  rescale (mkrxn s k x w ph).

(* ---------- _reaction ---------- *)
Definition react_series (rs : list rxn) (m : vec) : vec :=
  fold_left (fun acc r => react r acc) rs m.

Inductive rset := Single (r : rxn) | Parallel (rs : list rxn) | Series (rs : list rxn).

Definition react_rset (s : rset) (m : vec) : vec :=
  match s with
  | Single r => react r m
  | Parallel rs => react_parallel rs m
  | Series rs => react_series rs m
  end.

(* the callable objects; b is the object's own _basis ('wt' = true).  A ReactionSystem keeps
   the basis found at construction and compares every member's current basis with it. *)
Inductive robj :=
| Simple (b : bool) (s : rset)
| System (b : bool) (parts : list (bool * rset)).

Definition obasis (o : robj) : bool := match o with Simple b _ => b | System b _ => b end.

(* the buffer is updated in place, so a RuntimeError half way leaves the earlier parts applied *)
Fixpoint react_parts (b : bool) (parts : list (bool * rset)) (m : vec) : vec * option err :=
  match parts with
  | [] => (m, None)
  | (pb, s) :: t => if Bool.eqb pb b then react_parts b t (react_rset s m) else (m, Some ERuntime)
  end.

Definition react_obj (o : robj) (m : vec) : vec * option err :=
  match o with
  | Simple _ s => (react_rset s m, None)
  | System b ps => react_parts b ps m
  end.

(* ---------- feasibility step of __call__ ---------- *)
(* the double nearest to 1e-12 *)
Definition eps : Q := 4951760157141521 # 4951760157141521099596496896.
Definition neg_sum (v : vec) : Q := qsum (map (fun x => Qmin x 0) v).
Definition clampv (v : vec) : vec := map (fun x => if qltb x 0 then 0 else x) v.

(* what happens to the buffer [v] that as_material_array returned: (exception, buffer after) *)
Definition process (o : robj) (v : vec) : option err * vec :=
  let (v1, e) := react_obj o v in
  match e with
  | Some e => (Some e, v1)
  | None => if qltb (neg_sum v1) (- eps) then (Some EInfeasible, v1) else (None, clampv v1)
  end.

(* ---------- mass view ---------- *)
Definition to_mass (mws mol : vec) : vec := vmul mol mws.
Definition of_mass (mws mass : vec) : vec := map2 Qdiv mass mws.

(* react a copy of the mass flows; written back only when nothing was raised *)
Definition via_mass (mws : vec) (o : robj) (mol : vec) : option err * vec :=
  let (e, v) := process o (to_mass mws mol) in
  match e with
  | None => (None, of_mass mws v)
  | Some e => (Some e, mol)
  end.

(* a Stream / MultiStream on the reaction's own package whose phases fit: (exception, molar flows after) *)
Definition call_stream (mws : vec) (o : robj) (mol : vec) : option err * vec :=
  if obasis o then via_mass mws o mol else process o mol.

(* ---------- streams defined on another package ---------- *)
(* reset_chemicals: every non-zero flow is written at the index its CAS has in the target
   package; a CAS the target does not define raises.  [tbl] maps (flattened) source index to
   target index. *)
Fixpoint remap_from (tbl : list (option nat)) (d : vec) (acc : vec) : res vec :=
  match tbl, d with
  | t :: tbl', x :: d' =>
      if qzerob x then remap_from tbl' d' acc
      else match t with
           | Some i => remap_from tbl' d' (upd acc i x)
           | None => Err EKey
           end
  | _, _ => Ok acc
  end.
Definition remap (size : nat) (tbl : list (option nat)) (d : vec) : res vec :=
  remap_from tbl d (vzero size).

(* nA: size of the data on the reaction's package; fwd: stream index -> reaction index;
   bwd: reaction index -> stream index.  After an exception only its class is observed. *)
Definition call_other (mws : vec) (o : robj) (nA : nat) (fwd bwd : list (option nat)) (mol : vec)
  : option err * vec :=
  match remap nA fwd mol with
  | Err e => (Some e, [])
  | Ok a =>
      let (e, a') := call_stream mws o a in
      match e with
      | Some e => (Some e, [])
      | None => match remap (length mol) bwd a' with
                | Err e => (Some e, [])
                | Ok b => (None, b)
                end
      end
  end.

(* ---------- the materials a reaction can be called with ---------- *)
Inductive material :=
| MStream (mol : vec)          (* Stream or MultiStream, same package, phases fit *)
| MOther (nA : nat) (fwd bwd : list (option nat)) (mol : vec)
| MBadPhases (mol : vec)       (* phase-tagged reaction, the stream's phases differ: ValueError *)
| MNumpy (a : vec)             (* ndarray of the right dimension: copied, reacted, written back *)
| MNumpyBadDim (a : vec)       (* 2-d array to a phase-less reaction (ValueError), 1-d to a phase-tagged one (TypeError) *)
| MSparse (a : vec)            (* bare SparseVector / SparseArray: reacted in place *)
| MMassView (mol : vec).       (* stream.imass.data: a sparse vector over a DictionaryView *)

Definition expected_len (o : robj) : option nat :=
  let of_set s := match s with
                  | Single r => Some (length (st r))
                  | Parallel (r :: _) | Series (r :: _) => Some (length (st r))
                  | _ => None
                  end in
  match o with
  | Simple _ s => of_set s
  | System _ ((_, s) :: _) => of_set s
  | System _ [] => None
  end.

Definition len_ok (o : robj) (a : vec) : bool :=
  match expected_len o with Some n => Nat.eqb n (length a) | None => true end.

Definition call (phase_tagged : bool) (mws : vec) (o : robj) (m : material) : option err * vec :=
  match m with
  | MStream mol => call_stream mws o mol
  | MOther nA fwd bwd mol => call_other mws o nA fwd bwd mol
  | MBadPhases mol => (Some EValue, mol)
  | MNumpy a =>
      if negb (len_ok o a) then (Some EValue, a)
      else let (e, v) := process o a in
           match e with None => (None, v) | Some e => (Some e, a) end
  | MNumpyBadDim a => (Some (if phase_tagged then EType else EValue), a)
  | MSparse a => if negb (len_ok o a) then (Some EValue, a) else process o a
  | MMassView mol => via_mass mws o mol
  end.

(* ---------- a phase-less Reaction called with a MultiStream ---------- *)
(* as_material_array only compares phases when the reaction has some, so the M x N molar data
   reaches Reaction._reaction, where material_array[reactant_index] selects ROW reactant_index
   and the product row*X*stoichiometry is broadcast onto every row. *)
Fixpoint rows_of (n : nat) (P : nat) (m : vec) : list vec :=
  match P with
  | O => []
  | S P' => firstn n m :: rows_of n P' (skipn n m)
  end.

Definition react_bcast (r : rxn) (P : nat) (m : vec) : res vec :=
  let n := length (st r) in
  let rows := rows_of n P m in
  match nth_error rows (ridx r) with
  | None => Err EIndex
  | Some row =>
      let delta := vmul (vscale (X r) row) (st r) in
      Ok (concat (map (fun rw => vadd rw delta) rows))
  end.

Definition process_bcast (r : rxn) (P : nat) (v : vec) : option err * vec :=
  match react_bcast r P v with
  | Err e => (Some e, v)
  | Ok v1 => if qltb (neg_sum v1) (- eps) then (Some EInfeasible, v1) else (None, clampv v1)
  end.

Definition call_multi_nophase (mws : vec) (r : rxn) (P : nat) (mol : vec) : option err * vec :=
  if wt r then
    let (e, v) := process_bcast r P (to_mass mws mol) in
    match e with None => (None, of_mass mws v) | Some e => (Some e, mol) end
  else process_bcast r P mol.

(* ---------- comparison helpers for the correspondence files ---------- *)
Definition oerr_eqb (a b : option err) : bool := opt_eqb err_eqb a b.
Definition outcome_eqb (a : option err * vec) (e : option err) (d : vec) : bool :=
  oerr_eqb (fst a) e && vapproxb (snd a) d.
(* after an exception on another package only the class is compared *)
Definition outcome_eqb_other (a : option err * vec) (e : option err) (d : vec) : bool :=
  oerr_eqb (fst a) e && match e with None => vapproxb (snd a) d | Some _ => true end.

Definition build_all (rs : list (res rxn)) : res (list rxn) :=
  fold_right (fun r acc => do x <- r; do l <- acc; Ok (x :: l)) (Ok []) rs.

(* ---------- constructing the callable objects (ReactionSet.__init__, ReactionSystem.__init__) ---------- *)
Definition same_basis (rs : list rxn) : res bool :=
  match rs with
  | [] => Err EValue                       (* 'no reactions passed' *)
  | r :: t => if forallb (fun x => Bool.eqb (wt x) (wt r)) t then Ok (wt r) else Err EValue
  end.

Inductive okind := KSingle | KParallel | KSeries.

Definition mk_set (k : okind) (rs : list (res rxn)) : res (bool * rset) :=
  do l <- build_all rs;
  match k with
  | KSingle => match l with [r] => Ok (wt r, Single r) | _ => Err EOther end
  | KParallel => do b <- same_basis l; Ok (b, Parallel l)
  | KSeries => do b <- same_basis l; Ok (b, Series l)
  end.

Definition mk_simple (p : res (bool * rset)) : res robj :=
  do x <- p; Ok (Simple (fst x) (snd x)).

Definition build_parts (ps : list (res (bool * rset))) : res (list (bool * rset)) :=
  fold_right (fun r acc => do x <- r; do l <- acc; Ok (x :: l)) (Ok []) ps.

Definition mk_system (ps : list (res (bool * rset))) : res robj :=
  do l <- build_parts ps;
  match l with
  | [] => Err EValue
  | (b, _) :: t => if forallb (fun p => Bool.eqb (fst p) b) t then Ok (System b l) else Err EValue
  end.

(* member.basis = b on a Reaction that is already part of a ReactionSystem *)
Definition rebase_part (mws : vec) (o : res robj) (i : nat) (b : bool) : res robj :=
  do o' <- o;
  match o' with
  | System b0 parts =>
      match nth_error parts i with
      | Some (_, Single r) => do r' <- set_basis mws r b; Ok (System b0 (upd parts i (b, Single r')))
      | _ => Err EType
      end
  | _ => Err EType
  end.

Definition rebase (mws : vec) (r : res rxn) (b : bool) : res rxn := do x <- r; set_basis mws x b.

(* the whole observation of one case: constructor exception, or call outcome *)
Definition case_eqb (other : bool) (o : res robj) (run : robj -> option err * vec)
           (ctor_err : option err) (e : option err) (d : vec) : bool :=
  match o with
  | Err x => oerr_eqb (Some x) ctor_err
  | Ok ob => oerr_eqb None ctor_err &&
             (if other then outcome_eqb_other (run ob) e d else outcome_eqb (run ob) e d)
  end.

(* ====================================================================================== *)
(* Histories on copies of a set's members: which object owns which stoichiometry array.
   Source modelled: ReactionSet.__init__ (rows are the members' arrays), ReactionSet.__getitem__
   (item / slice: the same rows), ReactionSet.__iter__, ReactionItem.__init__ (the item's
   _stoichiometry IS row index of its parent), ReactionItem.copy / Reaction.copy (a NEW array,
   then set_reaction_basis in place on it), Reaction.backwards (copy first, then _rescale in
   place on the copy), the basis setter (set_reaction_basis in place).
   A heap of cells holds the arrays; an object is a reference to its cell plus its scalars. *)
Record href := mkh { hcell : nat; h_ridx : nat; h_X : Q; h_wt : bool; h_ph : list nat }.
Definition heap := list vec.
Definition hget (h : heap) (c : nat) : vec := nth c h [].
Definition as_rxn (h : heap) (o : href) : rxn :=
  mkrxn (hget h (hcell o)) (h_ridx o) (h_X o) (h_wt o) (h_ph o).
Definition href_of (c : nat) (r : rxn) : href := mkh c (ridx r) (X r) (wt r) (phases r).

Inductive hop :=
| HItemCopy (lo k : nat) (b : option bool)                 (* set[lo:][k].copy(b); lo = 0 is set[k] / iteration *)
| HItemBackwards (k : nat) (r : option nat) (x : option Q) (* set[k].backwards(r, x) *)
| HSetBasis (j : nat) (b : bool)                           (* derived[j].basis = b *)
| HCopy (j : nat) (b : option bool)                        (* derived[j].copy(b) *)
| HBackwards (j : nat) (r : option nat) (x : option Q)     (* derived[j].backwards(r, x) *)
| HIAdd (j k : nat)                                        (* derived[j] += derived[k] *)
| HISub (j k : nat)                                        (* derived[j] -= derived[k] *)
| HCab (j n : nat) (formula : list vec) (consts : option (list nat)) (Aobs : list vec) (bobs : vec) (sol : option vec)
      (* derived[j].correct_atomic_balance(constants) on a package of n chemicals whose formula array has the rows
         [formula]; numpy.linalg was called with (Aobs, bobs) and returned sol (None: it raised / rank deficient) *)
| HSetCopy (lo n : nat) (b : option bool).                 (* the set holding members lo..lo+n-1 is copied: set.copy(b) *)

Record hstate := mkhs { hp : heap; derived : list href }.

(* copy(basis): a fresh cell holding a copy of the source's array; set_reaction_basis then works
   in place on that fresh cell *)
Definition do_copy (mws : vec) (s : hstate) (src : href) (b : option bool) : res hstate :=
  let h := hp s in
  let c := length h in
  let h1 := h ++ [hget h (hcell src)] in
  let o := mkh c (h_ridx src) (h_X src) (h_wt src) (h_ph src) in
  match b with
  | None => Ok (mkhs h1 (derived s ++ [o]))
  | Some b => do r' <- set_basis mws (as_rxn h1 o) b;
              Ok (mkhs (upd h1 c (st r')) (derived s ++ [href_of c r']))
  end.

(* backwards: new = self.copy(); new._rescale() in place on the copy *)
Definition do_backwards (s : hstate) (src : href) (r : option nat) (x : option Q) : res hstate :=
  do r' <- backwards (as_rxn (hp s) src) r x;
  let c := length (hp s) in
  Ok (mkhs (hp s ++ [st r']) (derived s ++ [href_of c r'])).

(* a += b / a -= b: the right operand is converted to a's basis when the bases differ (a copy is
   made for that, b itself is untouched); the result is a NEW array bound to a *)
Definition do_iop (mws : vec) (sub : bool) (s : hstate) (j : nat) (a b : href) : res hstate :=
  do r' <- (if sub then rsub else radd) mws (as_rxn (hp s) a) (as_rxn (hp s) b);
  let c := length (hp s) in
  Ok (mkhs (hp s ++ [st r']) (upd (derived s) j (href_of c r'))).

(* ---------- correct_atomic_balance (_reaction.py:926-1036) ----------
   stoichiometry_by_mol (divided by MW on a weight basis, summed over the phase rows when phase-tagged);
   constant_index (the given chemicals, the reactant's chemical when none are given);
   chemical_index = where(by_mol) \ constant_index; b = -(formula[:, constant] * by_mol[constant]).sum(1);
   atomic_index = rows with any(formula * by_mol); A = formula[atomic_index][:, chemical_index]; the solve is an ORACLE
   (numpy.linalg.solve when A is square, lstsq + rank test otherwise); by_mol[chemical_index] = x. *)
Definition mem_nat (i : nat) (l : list nat) : bool := existsb (Nat.eqb i) l.

Fixpoint colsum (n P : nat) (v : vec) : vec :=
  match P with
  | O => vzero n
  | S P' => vadd (firstn n v) (colsum n P' (skipn n v))
  end.

Definition cab_by_mol (n : nat) (mws : vec) (r : rxn) : vec :=
  let s := if wt r then map2 Qdiv (st r) mws else st r in
  match phases r with [] => s | _ :: _ => colsum n (length (phases r)) s end.

Definition cab_consts (n : nat) (r : rxn) (consts : option (list nat)) : list nat :=
  match consts with
  | Some (c :: l) => c :: l
  | _ => [match phases r with [] => ridx r | _ :: _ => Nat.modulo (ridx r) n end]
  end.

Definition cab_unknown (by_mol : vec) (cs : list nat) : list nat :=
  filter (fun j => negb (qzerob (nthq by_mol j)) && negb (mem_nat j cs)) (seq 0 (length by_mol)).

(* the selected rows of the formula array themselves *)
Definition cab_rows (formula : list vec) (by_mol : vec) : list vec :=
  filter (fun F => any_nonzero (vmul F by_mol)) formula.

Definition cab_b (rows : list vec) (by_mol : vec) (cs : list nat) : vec :=
  map (fun F => - qsum (map (fun c => nthq F c * nthq by_mol c) cs)) rows.

Definition cab_A (rows : list vec) (unknown : list nat) : list vec :=
  map (fun F => map (nthq F) unknown) rows.

Fixpoint scatter (v : vec) (idx : list nat) (x : vec) : vec :=
  match idx, x with
  | i :: idx', y :: x' => scatter (upd v i y) idx' x'
  | _, _ => v
  end.

(* molar coefficients per chemical after the solve *)
Definition cab_solve (solver : list vec -> vec -> option vec) (n : nat) (formula : list vec) (mws : vec)
           (r : rxn) (consts : option (list nat)) : res vec :=
  let by_mol := cab_by_mol n mws r in
  let cs := cab_consts n r consts in
  let unknown := cab_unknown by_mol cs in
  let rows := cab_rows formula by_mol in
  match solver (cab_A rows unknown) (cab_b rows by_mol cs) with
  | None => Err ERuntime
  | Some x => if Nat.eqb (length x) (length unknown) then Ok (scatter by_mol unknown x) else Err EOther
  end.

(* the coefficients are written IN PLACE into the reaction's own array (times MW on a weight basis; for a
   phase-tagged reaction only where an entry was non-zero), then _rescale, in place too *)
Fixpoint cab_fill (n : nat) (phase_tagged : bool) (v : vec) (old : vec) (k : nat) : vec :=
  match old with
  | [] => []
  | x :: t => (if phase_tagged && qzerob x then 0 else nthq v (Nat.modulo k n)) :: cab_fill n phase_tagged v t (S k)
  end.

Definition cab_apply (solver : list vec -> vec -> option vec) (n : nat) (formula : list vec) (mws : vec)
           (r : rxn) (consts : option (list nat)) : res rxn :=
  do v <- cab_solve solver n formula mws r consts;
  let v' := if wt r then vmul v mws else v in
  let filled := cab_fill n (negb (match phases r with [] => true | _ => false end)) v' (st r) 0 in
  rescale (set_st r filled).

(* the oracle as observed in one call: asked (Aobs, bobs), it answered sol.  Asked anything else the
   table has no answer, which the model turns into a wrong-length vector (the step then fails with EOther,
   and the correspondence reports the disagreement). *)
Definition mat_approxb (a b : list vec) : bool := list_eqb vapproxb a b.
Definition table_solver (Aobs : list vec) (bobs : vec) (sol : option vec) (A : list vec) (b : vec) : option vec :=
  if mat_approxb A Aobs && vapproxb b bobs then sol
  else Some (repeat 0 (S (match A with [] => 0 | row :: _ => length row end))).

Definition do_cab (mws : vec) (s : hstate) (d : href) (n : nat) (formula : list vec) (consts : option (list nat))
           (Aobs : list vec) (bobs : vec) (sol : option vec) : res hstate :=
  do r' <- cab_apply (table_solver Aobs bobs sol) n formula mws (as_rxn (hp s) d) consts;
  Ok (mkhs (upd (hp s) (hcell d) (st r')) (derived s)).

(* set.copy(b): every row is copied to a fresh array and converted there *)
Fixpoint do_setcopy (mws : vec) (s : hstate) (srcs : list href) (b : option bool) : res hstate :=
  match srcs with
  | [] => Ok s
  | src :: t =>
      let h := hp s in
      let c := length h in
      let h1 := h ++ [hget h (hcell src)] in
      let o := mkh c (h_ridx src) (h_X src) (h_wt src) (h_ph src) in
      match b with
      | None => do_setcopy mws (mkhs h1 (derived s)) t b
      | Some b' => do r' <- set_basis mws (as_rxn h1 o) b';
                   do_setcopy mws (mkhs (upd h1 c (st r')) (derived s)) t b
      end
  end.

Definition hstep (mws : vec) (members : list href) (s : hstate) (o : hop) : res hstate :=
  match o with
  | HIAdd j k =>
      match nth_error (derived s) j, nth_error (derived s) k with
      | Some a, Some b => do_iop mws false s j a b
      | _, _ => Err EIndex
      end
  | HISub j k =>
      match nth_error (derived s) j, nth_error (derived s) k with
      | Some a, Some b => do_iop mws true s j a b
      | _, _ => Err EIndex
      end
  | HCab j n formula consts Aobs bobs sol =>
      match nth_error (derived s) j with
      | Some d => do_cab mws s d n formula consts Aobs bobs sol
      | None => Err EIndex
      end
  | HSetCopy lo n b => do_setcopy mws s (firstn n (skipn lo members)) b
  | HItemCopy lo k b =>
      match nth_error (skipn lo members) k with
      | Some src => do_copy mws s src b
      | None => Err EIndex
      end
  | HItemBackwards k r x =>
      match nth_error members k with
      | Some src => do_backwards s src r x
      | None => Err EIndex
      end
  | HSetBasis j b =>
      match nth_error (derived s) j with
      | Some d => do r' <- set_basis mws (as_rxn (hp s) d) b;
                  Ok (mkhs (upd (hp s) (hcell d) (st r')) (upd (derived s) j (href_of (hcell d) r')))
      | None => Err EIndex
      end
  | HCopy j b =>
      match nth_error (derived s) j with
      | Some d => do_copy mws s d b
      | None => Err EIndex
      end
  | HBackwards j r x =>
      match nth_error (derived s) j with
      | Some d => do_backwards s d r x
      | None => Err EIndex
      end
  end.

(* an operation that raises leaves every referenced array as it was *)
Fixpoint hrun (mws : vec) (members : list href) (s : hstate) (ops : list hop) : hstate * list bool :=
  match ops with
  | [] => (s, [])
  | o :: t => match hstep mws members s o with
              | Ok s' => let (f, oks) := hrun mws members s' t in (f, true :: oks)
              | Err _ => let (f, oks) := hrun mws members s t in (f, false :: oks)
              end
  end.

(* the member reactions of a callable object, in order, and the object rebuilt from a list *)
Definition set_members (s : rset) : list rxn :=
  match s with Single r => [r] | Parallel rs => rs | Series rs => rs end.
Definition flat_members (o : robj) : list rxn :=
  match o with
  | Simple _ s => set_members s
  | System _ ps => concat (map (fun p => set_members (snd p)) ps)
  end.

Definition take_set (s : rset) (l : list rxn) : rset * list rxn :=
  match s with
  | Single r => match l with x :: t => (Single x, t) | [] => (Single r, []) end
  | Parallel rs => (Parallel (firstn (length rs) l), skipn (length rs) l)
  | Series rs => (Series (firstn (length rs) l), skipn (length rs) l)
  end.
Fixpoint take_parts (ps : list (bool * rset)) (l : list rxn) : list (bool * rset) :=
  match ps with
  | [] => []
  | (b, s) :: t => let (s', l') := take_set s l in (b, s') :: take_parts t l'
  end.
Definition rebuild (o : robj) (l : list rxn) : robj :=
  match o with
  | Simple b s => Simple b (fst (take_set s l))
  | System b ps => System b (take_parts ps l)
  end.

Fixpoint hrefs_from (c : nat) (l : list rxn) : list href :=
  match l with [] => [] | r :: t => href_of c r :: hrefs_from (S c) t end.

(* the set's rows live in cells 0 .. n-1; run the history; read the set back from the heap *)
Definition hist_run (mws : vec) (o : robj) (ops : list hop) : robj * list bool * list rxn :=
  let l := flat_members o in
  let members := hrefs_from 0 l in
  let (f, oks) := hrun mws members (mkhs (map st l) []) ops in
  (rebuild o (map (as_rxn (hp f)) members), oks, map (as_rxn (hp f)) (derived f)).

(* rows of set.copy(b), as the copy exposes them *)
Definition setcopy_rows (mws : vec) (l : list rxn) (b : option bool) : res (list rxn) :=
  build_all (map (fun r => copy_basis mws r b) l).

Definition res_rows_eqb (a : res (list rxn)) (b : list rxn) : bool :=
  match a with Ok l => list_eqb rxn_eqb l b | Err _ => false end.

(* use: None = the original object is applied afterwards; Some j = the derived reaction j is *)
Definition hist_case_eqb (other : bool) (mws : vec) (o : res robj) (ops : list hop)
           (oks : list bool) (der : list rxn) (use : option nat) (run : robj -> option err * vec)
           (ctor_err : option err) (e : option err) (d : vec) : bool :=
  match o with
  | Err x => oerr_eqb (Some x) ctor_err
  | Ok ob =>
      let '(ob', oks', der') := hist_run mws ob ops in
      let target := match use with
                    | None => ob'
                    | Some j => match nth_error der' j with
                                | Some r => Simple (wt r) (Single r)
                                | None => ob'
                                end
                    end in
      oerr_eqb None ctor_err && list_eqb Bool.eqb oks' oks && list_eqb rxn_eqb der' der &&
      (if other then outcome_eqb_other (run target) e d else outcome_eqb (run target) e d)
  end.

(* ====================================================================================== *)
(* Reaction.reset_chemicals / ReactionSet.reset_chemicals: the reaction object itself is moved to
   another package.  Every non-zero coefficient is written at the index the chemical's ID has in
   the new package (UndefinedChemicalAlias when it has none), then the reactant index is looked up.
   [tbl]: flattened old index -> new index. *)
Definition retarget (size : nat) (tbl : list (option nat)) (r : rxn) : res rxn :=
  do s <- remap size tbl (st r);
  match nth (ridx r) tbl None with
  | Some i => Ok (mkrxn s i (X r) (wt r) (phases r))
  | None => Err EKey
  end.

Definition retarget_obj (size : nat) (tbl : list (option nat)) (o : res robj) : res robj :=
  do ob <- o;
  do l <- build_all (map (retarget size tbl) (flat_members ob));
  Ok (rebuild ob l).

(* ====================================================================================== *)
(* Deepening round: full state after an exception on another package, force_reaction,
   conversion, nested reaction systems.                                                      *)

(* ---------- what a stream of another package holds after the call, exception or not ----------
   as_material_array swaps the stream's molar data for a NEW buffer on the reaction's package
   (reset_chemicals: the buffer is filled entry by entry, the indexer's chemicals are switched only after the
   loop) and nothing restores it when an exception follows.  Observed: the exception, the molar data the stream
   holds afterwards, and whether its indexer then refers to the reaction's chemicals. *)
Fixpoint remap_from_st (tbl : list (option nat)) (d : vec) (acc : vec) : vec * bool :=
  match tbl, d with
  | t :: tbl', x :: d' =>
      if qzerob x then remap_from_st tbl' d' acc
      else match t with
           | Some i => remap_from_st tbl' d' (upd acc i x)
           | None => (acc, true)          (* UndefinedChemicalAlias half way: the buffer so far *)
           end
  | _, _ => (acc, false)
  end.

Definition call_other_full (mws : vec) (o : robj) (nA : nat) (fwd bwd : list (option nat)) (mol : vec)
  : option err * vec * bool :=
  let (a, failed) := remap_from_st fwd mol (vzero nA) in
  if failed then (Some EKey, a, false)
  else
    let (e, a') := call_stream mws o a in
    match e with
    | Some e => (Some e, a', true)
    | None =>
        let (b, failed') := remap_from_st bwd a' (vzero (length mol)) in
        if failed' then (Some EKey, b, true) else (None, b, false)
    end.

Definition full_eqb (a : option err * vec * bool) (e : option err) (d : vec) (lay : bool) : bool :=
  let '(e', d', lay') := a in oerr_eqb e' e && vapproxb d' d && Bool.eqb lay' lay.

(* ---------- force_reaction (and __call__ with CHECK_FEASIBILITY off): _reaction.py:520-528,
   functional.remove_negligible_negative_values (functional.py:155-163) ----------
   negative_index lists the negative entries; when sum|v| > 1e-16, negligible[k] = (k-th negative)/sum > -1e-16 is a
   boolean array over the NEGATIVES, and `material[negligible] = 0.` uses it as a mask on the material itself
   (SparseVector.__setitem__: index = mask.nonzero()), so it deletes entry k for every negligible k-th negative.
   Phase-less (1-d) material only.  The negatives are taken in index order (the dictionary order of the
   implementation coincides with it when the feed holds every chemical that ends up negative). *)
Definition tiny : Q := 2028240960365167 # 20282409603651670423947251286016.   (* the double nearest 1e-16 *)
Definition abs_sum (v : vec) : Q := qsum (map Qabs v).
Definition neg_vals (v : vec) : vec := filter (fun x => qltb x 0) v.
Fixpoint flag_pos (k : nat) (negs : vec) (total : Q) : list nat :=
  match negs with
  | [] => []
  | x :: t => if qltb (- tiny) (x / total) then k :: flag_pos (S k) t total else flag_pos (S k) t total
  end.
Definition zero_at (v : vec) (idx : list nat) : vec := fold_left (fun acc i => upd acc i 0) idx v.

(* the repaired code (pending_fixes/C05_3) indexes the material at the negligible negatives themselves *)
Definition zero_negl (total : Q) (v : vec) : vec :=
  map (fun x => if qltb x 0 && qltb (- tiny) (x / total) then 0 else x) v.

(* legacy = true: the unrepaired code (entry k deleted for the k-th negligible negative) *)
Definition remove_negligible (legacy : bool) (v : vec) : vec :=
  match neg_vals v with
  | [] => v
  | negs => if qltb tiny (abs_sum v)
            then (if legacy then zero_at v (flag_pos 0 negs (abs_sum v)) else zero_negl (abs_sum v) v)
            else clampv v
  end.

Definition force_process (legacy : bool) (o : robj) (v : vec) : option err * vec :=
  let (v1, e) := react_obj o v in
  match e with
  | Some e => (Some e, v1)
  | None => (None, remove_negligible legacy v1)
  end.

Definition force_stream (legacy : bool) (mws : vec) (o : robj) (mol : vec) : option err * vec :=
  if obasis o then
    let (e, v) := force_process legacy o (to_mass mws mol) in
    match e with None => (None, of_mass mws v) | Some e => (Some e, mol) end
  else force_process legacy o mol.

Definition force_call (legacy : bool) (mws : vec) (o : robj) (m : material) : option err * vec :=
  match m with
  | MStream mol => force_stream legacy mws o mol
  | MOther nA fwd bwd mol =>
      match remap nA fwd mol with
      | Err e => (Some e, [])
      | Ok a =>
          let (e, a') := force_stream legacy mws o a in
          match e with
          | Some e => (Some e, [])
          | None => match remap (length mol) bwd a' with Err e => (Some e, []) | Ok b => (None, b) end
          end
      end
  | MBadPhases mol => (Some EValue, mol)
  | MNumpy a =>
      if negb (len_ok o a) then (Some EValue, a)
      else let (e, v) := force_process legacy o a in
           match e with None => (None, v) | Some e => (Some e, a) end
  | MNumpyBadDim a => (Some EValue, a)
  | MSparse a => if negb (len_ok o a) then (Some EValue, a) else force_process legacy o a
  | MMassView mol =>
      let (e, v) := force_process legacy o (to_mass mws mol) in
      match e with None => (None, of_mass mws v) | Some e => (Some e, mol) end
  end.

(* ---------- conversion(material): the change the reaction would make; the material is left alone ----------
   Reaction._conversion, ParallelReaction._conversion, SeriesReaction._conversion, ReactionSystem._conversion
   (final - material on a copy).  On a weight basis a stream is seen through its mass flows. *)
Definition conv_single (r : rxn) (m : vec) : vec := vscale (nthq m (ridx r) * X r) (st r).
Fixpoint conv_parallel_from (feed : vec) (rs : list rxn) (acc : vec) : vec :=
  match rs with
  | [] => acc
  | r :: t => conv_parallel_from feed t (vadd acc (vscale (nthq feed (ridx r) * X r) (st r)))
  end.
Definition conv_rset (s : rset) (m : vec) : vec :=
  match s with
  | Single r => conv_single r m
  | Parallel rs => conv_parallel_from m rs (vscale 0 m)
  | Series rs => vsub (react_series rs m) m
  end.
Definition conv_obj (o : robj) (m : vec) : res vec :=
  match o with
  | Simple _ s => Ok (conv_rset s m)
  | System b ps => let (f, e) := react_parts b ps m in
                   match e with Some e => Err e | None => Ok (vsub f m) end
  end.
(* (what is returned, the material afterwards) *)
Definition conversion_call (mws : vec) (o : robj) (m : material) : res vec * vec :=
  match m with
  | MStream mol => (conv_obj o (if obasis o then to_mass mws mol else mol), mol)
  | MNumpy a | MSparse a => (if negb (len_ok o a) then Err EValue else conv_obj o a, a)
  | MMassView mol => (conv_obj o (to_mass mws mol), mol)
  | MOther _ _ _ mol | MBadPhases mol | MNumpyBadDim mol => (Err EOther, mol)     (* not modelled *)
  end.

Definition conv_eqb (a : res vec * vec) (e : option err) (c d : vec) : bool :=
  match fst a, e with
  | Ok v, None => vapproxb v c
  | Err x, Some y => err_eqb x y
  | _, _ => false
  end && vapproxb (snd a) d.

(* ---------- nested reaction systems: ReactionSystem(ReactionSystem(...), Reaction, ...) ----------
   Every ReactionSystem keeps the basis found when IT was constructed and compares the current _basis of each of
   its own parts with it (a nested system is one part; it checks its own parts when it runs). *)
Inductive ntree := NSet (b : bool) (s : rset) | NSys (b : bool) (ts : list ntree).
Definition nbasis (t : ntree) : bool := match t with NSet b _ => b | NSys b _ => b end.

Fixpoint nreact (t : ntree) (m : vec) : vec * option err :=
  match t with
  | NSet _ s => (react_rset s m, None)
  | NSys b ts =>
      (fix go (ts : list ntree) (m : vec) : vec * option err :=
         match ts with
         | [] => (m, None)
         | t :: rest =>
             if Bool.eqb (nbasis t) b then
               let (m', e) := nreact t m in
               match e with None => go rest m' | Some e => (m', Some e) end
             else (m, Some ERuntime)
         end) ts m
  end.

Definition nprocess (t : ntree) (v : vec) : option err * vec :=
  let (v1, e) := nreact t v in
  match e with
  | Some e => (Some e, v1)
  | None => if qltb (neg_sum v1) (- eps) then (Some EInfeasible, v1) else (None, clampv v1)
  end.

Definition ncall_stream (mws : vec) (t : ntree) (mol : vec) : option err * vec :=
  if nbasis t then
    let (e, v) := nprocess t (to_mass mws mol) in
    match e with None => (None, of_mass mws v) | Some e => (Some e, mol) end
  else nprocess t mol.

(* the parts of a tree in the order in which they act *)
Fixpoint nflatten (t : ntree) : list (bool * rset) :=
  match t with
  | NSet b s => [(b, s)]
  | NSys _ ts => flat_map nflatten ts
  end.

(* ReactionSystem.__init__: all parts must agree on the basis (phases and chemicals agree by construction here) *)
Definition mk_nsys (ts : list (res ntree)) : res ntree :=
  do l <- fold_right (fun r acc => do x <- r; do l <- acc; Ok (x :: l)) (Ok []) ts;
  match l with
  | [] => Err EValue
  | t :: rest => if forallb (fun x => Bool.eqb (nbasis x) (nbasis t)) rest then Ok (NSys (nbasis t) l) else Err EValue
  end.
Definition mk_nset (p : res (bool * rset)) : res ntree := do x <- p; Ok (NSet (fst x) (snd x)).

(* part.basis = b on a Reaction that sits at [path] (child indices from the root) *)
Fixpoint nrebase (mws : vec) (t : ntree) (path : list nat) (b : bool) : res ntree :=
  match path, t with
  | [], NSet _ (Single r) => do r' <- set_basis mws r b; Ok (NSet b (Single r'))
  | i :: rest, NSys b0 ts =>
      match nth_error ts i with
      | Some c => do c' <- nrebase mws c rest b; Ok (NSys b0 (upd ts i c'))
      | None => Err EIndex
      end
  | _, _ => Err EType
  end.

Definition ncase_eqb (t : res ntree) (run : ntree -> option err * vec)
           (ctor_err : option err) (e : option err) (d : vec) : bool :=
  match t with
  | Err x => oerr_eqb (Some x) ctor_err
  | Ok tr => oerr_eqb None ctor_err && outcome_eqb (run tr) e d
  end.
