(* C05 — lemmas about applying reactions to material *)
From V Require Import Common.NumFacts C05.Model.

(* ---------- comparisons ---------- *)
Lemma qltb_true a b : qltb a b = true <-> a < b.
Proof.
  unfold qltb. rewrite Bool.negb_true_iff. split; intros H.
  - apply Qnot_le_lt. intros L. apply Qle_bool_iff in L. congruence.
  - destruct (Qle_bool b a) eqn:E; auto. apply Qle_bool_iff in E. lra.
Qed.
Lemma qltb_false a b : qltb a b = false <-> b <= a.
Proof.
  unfold qltb. rewrite Bool.negb_false_iff. apply Qle_bool_iff.
Qed.

(* ---------- dot products ---------- *)
Lemma vdot_nil_l b : vdot [] b = 0.
Proof. reflexivity. Qed.
Lemma vdot_nil_r a : vdot a [] = 0.
Proof. destruct a; reflexivity. Qed.
Lemma vdot_cons x a y b : vdot (x :: a) (y :: b) = x * y + vdot a b.
Proof. reflexivity. Qed.

Lemma vdot_vadd a m s : length m = length s -> vdot a (vadd m s) == vdot a m + vdot a s.
Proof.
  revert m s. induction a as [|x a IH]; intros m s L.
  - rewrite !vdot_nil_l. lra.
  - destruct m as [|y m], s as [|z s]; simpl in L; try discriminate.
    + unfold vadd; simpl. rewrite !vdot_nil_r. lra.
    + unfold vadd in *. simpl map2. rewrite !vdot_cons. rewrite IH by lia. lra.
Qed.

Lemma vdot_vscale a k s : vdot a (vscale k s) == k * vdot a s.
Proof.
  revert s. induction a as [|x a IH]; intros s.
  - rewrite !vdot_nil_l. lra.
  - destruct s as [|z s]; simpl vscale.
    + rewrite !vdot_nil_r. lra.
    + rewrite !vdot_cons. change (map (Qmult k) s) with (vscale k s). rewrite IH. lra.
Qed.

(* ---------- one reaction ---------- *)
Definition normalised (r : rxn) : Prop := nthq (st r) (ridx r) == -1.
Definition wf (n : nat) (r : rxn) : Prop := length (st r) = n.
(* a linear functional (a row of the formula matrix, the molecular weights, ...) the reaction preserves *)
Definition balanced (a : vec) (r : rxn) : Prop := vdot a (st r) == 0.

Lemma nthq_react r m i : length (st r) = length m ->
  nthq (react r m) i == nthq m i + nthq m (ridx r) * X r * nthq (st r) i.
Proof.
  intros L. unfold react. rewrite nthq_vadd, nthq_vscale; [lra|].
  rewrite vscale_length. auto.
Qed.

Lemma react_length r m : length (st r) = length m -> length (react r m) = length m.
Proof. intros L. unfold react. apply vadd_length. rewrite vscale_length; auto. Qed.

Lemma react_dot a r m : length (st r) = length m ->
  vdot a (react r m) == vdot a m + (nthq m (ridx r) * X r) * vdot a (st r).
Proof.
  intros L. unfold react. rewrite vdot_vadd, vdot_vscale; [lra|].
  rewrite vscale_length; auto.
Qed.

Lemma react_conserves a r m : wf (length m) r -> balanced a r -> vdot a (react r m) == vdot a m.
Proof. intros W B. unfold balanced in B. rewrite react_dot by exact W. rewrite B. lra. Qed.

Lemma consumed_lemma r m : wf (length m) r -> normalised r ->
  nthq (react r m) (ridx r) == nthq m (ridx r) - X r * nthq m (ridx r) /\
  forall i, nthq (react r m) i == nthq m i + X r * nthq m (ridx r) * nthq (st r) i.
Proof.
  intros W Nr. unfold normalised in Nr. split.
  - rewrite nthq_react by exact W. rewrite Nr. lra.
  - intros i. rewrite nthq_react by exact W. lra.
Qed.

(* ---------- parallel: every extent is taken from the feed ---------- *)
Definition extent_sum (feed : vec) (rs : list rxn) (i : nat) : Q :=
  fold_right (fun r acc => nthq feed (ridx r) * X r * nthq (st r) i + acc) 0 rs.

Lemma parallel_from_spec feed rs : forall m, Forall (wf (length m)) rs ->
  length (react_parallel_from feed rs m) = length m /\
  (forall i, nthq (react_parallel_from feed rs m) i == nthq m i + extent_sum feed rs i) /\
  (forall a, Forall (balanced a) rs -> vdot a (react_parallel_from feed rs m) == vdot a m).
Proof.
  induction rs as [|r rs IH]; intros m W; simpl.
  - repeat split; auto; intros; lra.
  - inversion W as [|? ? Wr Wrs]; subst.
    assert (L : length (vadd m (vscale (nthq feed (ridx r) * X r) (st r))) = length m).
    { apply vadd_length. rewrite vscale_length. symmetry; exact Wr. }
    destruct (IH (vadd m (vscale (nthq feed (ridx r) * X r) (st r)))) as (L' & V & D).
    { rewrite L. exact Wrs. }
    split; [congruence|]. split.
    + intros i. rewrite V, nthq_vadd, nthq_vscale; [lra|]. rewrite vscale_length. symmetry; exact Wr.
    + intros a B. inversion B as [|? ? Br Brs]; subst. rewrite (D a Brs).
      rewrite vdot_vadd, vdot_vscale; [|rewrite vscale_length; symmetry; exact Wr].
      unfold balanced in Br. rewrite Br. lra.
Qed.

Lemma parallel_def_lemma rs m : Forall (wf (length m)) rs ->
  forall i, nthq (react_parallel rs m) i == nthq m i + extent_sum m rs i.
Proof. intros W. apply (parallel_from_spec m rs m W). Qed.

(* ---------- series: running composition ---------- *)
Lemma series_spec rs : forall m, Forall (wf (length m)) rs ->
  length (react_series rs m) = length m /\
  (forall a, Forall (balanced a) rs -> vdot a (react_series rs m) == vdot a m).
Proof.
  induction rs as [|r rs IH]; intros m W; simpl.
  - split; auto. intros; lra.
  - inversion W as [|? ? Wr Wrs]; subst.
    assert (L : length (react r m) = length m) by (apply react_length; exact Wr).
    destruct (IH (react r m)) as (L' & D). { rewrite L. exact Wrs. }
    unfold react_series in *. simpl. split; [congruence|].
    intros a B. inversion B as [|? ? Br Brs]; subst. rewrite (D a Brs).
    apply react_conserves; auto.
Qed.

Lemma series_def_lemma r rs m :
  react_series [] m = m /\ react_series (r :: rs) m = react_series rs (react r m).
Proof. split; reflexivity. Qed.

(* ---------- sets and systems ---------- *)
Definition rset_members (s : rset) : list rxn :=
  match s with Single r => [r] | Parallel rs => rs | Series rs => rs end.
Definition obj_members (o : robj) : list rxn :=
  match o with
  | Simple _ s => rset_members s
  | System _ ps => concat (map (fun p => rset_members (snd p)) ps)
  end.

Lemma rset_spec s m : Forall (wf (length m)) (rset_members s) ->
  length (react_rset s m) = length m /\
  (forall a, Forall (balanced a) (rset_members s) -> vdot a (react_rset s m) == vdot a m).
Proof.
  destruct s as [r|rs|rs]; simpl; intros W.
  - inversion W; subst. split; [apply react_length; auto|].
    intros a B. inversion B; subst. apply react_conserves; auto.
  - destruct (parallel_from_spec m rs m W) as (L & _ & D). split; auto.
  - apply series_spec; auto.
Qed.

Lemma parts_spec b ps : forall m, Forall (wf (length m)) (concat (map (fun p => rset_members (snd p)) ps)) ->
  length (fst (react_parts b ps m)) = length m /\
  (forall a, Forall (balanced a) (concat (map (fun p => rset_members (snd p)) ps)) ->
     vdot a (fst (react_parts b ps m)) == vdot a m).
Proof.
  induction ps as [|[pb s] ps IH]; intros m W; simpl.
  - split; auto. intros; lra.
  - simpl in W. apply Forall_app in W. destruct W as (Ws & Wps).
    destruct (rset_spec s m Ws) as (L & D).
    destruct (Bool.eqb pb b).
    + destruct (IH (react_rset s m)) as (L' & D'). { rewrite L; auto. }
      split; [congruence|]. intros a B. apply Forall_app in B. destruct B as (Bs & Bps).
      rewrite (D' a Bps). apply D; auto.
    + simpl. split; auto. intros; lra.
Qed.

(* whatever the object, and even when a ReactionSystem stops half way with a RuntimeError, the
   buffer keeps every linear functional that all member stoichiometries annihilate *)
Lemma react_obj_conserves o m a : Forall (wf (length m)) (obj_members o) ->
  Forall (balanced a) (obj_members o) ->
  length (fst (react_obj o m)) = length m /\ vdot a (fst (react_obj o m)) == vdot a m.
Proof.
  destruct o as [b s|b ps]; simpl; intros W B.
  - destruct (rset_spec s m W) as (L & D). split; auto.
  - destruct (parts_spec b ps m W) as (L & D). split; auto.
Qed.

Lemma system_def_lemma b s ps m :
  react_parts b [] m = (m, None) /\
  react_parts b ((b, s) :: ps) m = react_parts b ps (react_rset s m).
Proof. split; [reflexivity|]. simpl. rewrite Bool.eqb_reflx. reflexivity. Qed.

(* ---------- the feasibility step ---------- *)
Definition nonneg (v : vec) : Prop := forall i, 0 <= nthq v i.

Lemma nthq_cons_S x v i : nthq (x :: v) (S i) = nthq v i.
Proof. reflexivity. Qed.

Lemma nthq_clampv v i : nthq (clampv v) i = if qltb (nthq v i) 0 then 0 else nthq v i.
Proof.
  revert i. induction v as [|x v IH]; intros i.
  - simpl. rewrite nthq_nil. reflexivity.
  - destruct i; [reflexivity|]. simpl clampv. rewrite !nthq_cons_S. apply IH.
Qed.

Lemma clampv_length v : length (clampv v) = length v.
Proof. apply map_length. Qed.

Lemma clampv_nonneg v : nonneg (clampv v).
Proof.
  intros i. rewrite nthq_clampv. destruct (qltb (nthq v i) 0) eqn:E; [lra|].
  apply qltb_false in E. exact E.
Qed.

Lemma clampv_id v : nonneg v -> clampv v = v.
Proof.
  induction v as [|x v IH]; intros Nn; [reflexivity|]. simpl.
  assert (H0 := Nn O). unfold nthq in H0; simpl in H0.
  apply qltb_false in H0. rewrite H0. f_equal. apply IH.
  intros i. exact (Nn (S i)).
Qed.

Lemma neg_sum_nonpos v : neg_sum v <= 0.
Proof.
  unfold neg_sum. induction v as [|x v IH]; simpl; [lra|].
  assert (Qmin x 0 <= 0) by apply Q.le_min_r. lra.
Qed.

Lemma neg_sum_cons x v : neg_sum (x :: v) = Qmin x 0 + neg_sum v.
Proof. reflexivity. Qed.

Lemma clamp_step x : (if qltb x 0 then 0 else x) == x - Qmin x 0.
Proof.
  destruct (qltb x 0) eqn:E.
  - apply qltb_true in E. rewrite Q.min_l; lra.
  - apply qltb_false in E. rewrite Q.min_r; lra.
Qed.

(* a total weighted by [a] moves by at most amax * (sum of the removed negatives) *)
Lemma clampv_dot_bound amax : 0 <= amax -> forall a v, Forall (fun x => - amax <= x /\ x <= amax) a ->
  - (amax * - neg_sum v) <= vdot a (clampv v) - vdot a v /\
  vdot a (clampv v) - vdot a v <= amax * - neg_sum v.
Proof.
  intros Ha. induction a as [|x a IH]; intros v Ba.
  - rewrite !vdot_nil_l. assert (H := neg_sum_nonpos v). split; nra.
  - inversion Ba as [|? ? (Bl & Bu) Ba']; subst.
    destruct v as [|y v].
    + simpl clampv. rewrite !vdot_nil_r. unfold neg_sum; simpl. split; nra.
    + simpl clampv. rewrite !vdot_cons, neg_sum_cons.
      destruct (IH v Ba') as (I1 & I2).
      assert (S := clamp_step y). assert (M : Qmin y 0 <= 0) by apply Q.le_min_r.
      set (c := if qltb y 0 then 0 else y) in *.
      set (d := vdot a (clampv v) - vdot a v) in *.
      assert (E : x * c + vdot a (clampv v) - (x * y + vdot a v) == x * (c - y) + d) by (unfold d; ring).
      rewrite E. assert (Cy : c - y == - Qmin y 0) by lra. rewrite Cy.
      split; nra.
Qed.

Lemma clampv_sum v : qsum (clampv v) == qsum v - neg_sum v.
Proof.
  induction v as [|x v IH]; [unfold neg_sum; simpl; lra|].
  simpl clampv. simpl qsum. rewrite neg_sum_cons, IH, clamp_step. lra.
Qed.

Lemma process_ok o v v' : process o v = (None, v') ->
  snd (react_obj o v) = None /\ - eps <= neg_sum (fst (react_obj o v)) /\
  v' = clampv (fst (react_obj o v)).
Proof.
  unfold process. destruct (react_obj o v) as [v1 [e|]]; simpl; [discriminate|].
  destruct (qltb (neg_sum v1) (- eps)) eqn:E; [discriminate|].
  intros H; inversion H; subst. apply qltb_false in E. auto.
Qed.

Lemma eps_value : eps <= 10000000000000001 # 10000000000000000000000000000 /\ 0 < eps.
Proof. split; vm_compute; congruence. Qed.

(* ---------- streams: molar flows, mass view ---------- *)
Lemma vmul_length a b : length a = length b -> length (vmul a b) = length a.
Proof. apply map2_length. Qed.

Lemma nthq_map2_div a b i : length a = length b ->
  nthq (map2 Qdiv a b) i == nthq a i / nthq b i.
Proof.
  revert b i; induction a as [|x a IH]; intros [|y b] i H; simpl in *; try discriminate.
  - rewrite nthq_nil. unfold Qdiv. lra.
  - destruct i; unfold nthq in *; simpl; [lra|]. apply IH. lia.
Qed.

Lemma vdot_of_mass : forall a v w, vdot a (map2 Qdiv v w) == vdot (map2 Qdiv a w) v.
Proof.
  induction a as [|x a IH]; intros v w.
  - rewrite vdot_nil_l. simpl. rewrite vdot_nil_l. lra.
  - destruct v as [|y v]; [simpl; rewrite !vdot_nil_r; lra|].
    destruct w as [|z w]; [simpl; rewrite vdot_nil_r, vdot_nil_l; lra|].
    simpl map2. rewrite !vdot_cons, IH. unfold Qdiv. ring.
Qed.

Lemma vdot_div_mass : forall a mol w, length w = length mol -> Forall (fun x => ~ x == 0) w ->
  vdot (map2 Qdiv a w) (vmul mol w) == vdot a mol.
Proof.
  induction a as [|x a IH]; intros mol w L NZ.
  - simpl. rewrite !vdot_nil_l. lra.
  - destruct mol as [|y mol], w as [|z w]; simpl in L; try discriminate.
    + simpl. rewrite !vdot_nil_r. lra.
    + inversion NZ as [|? ? Nz NZ']; subst. unfold vmul in *. simpl map2. rewrite !vdot_cons.
      rewrite IH by (auto; lia). field. exact Nz.
Qed.

Lemma forall_pos_nthq w : Forall (fun x => 0 < x) w -> forall i, 0 <= nthq w i.
Proof.
  induction 1 as [|x w Hx Hw IH]; intros i.
  - rewrite nthq_nil. lra.
  - destruct i; unfold nthq in *; simpl; [lra|apply IH].
Qed.

Lemma forall_pos_nz w : Forall (fun x => 0 < x) w -> Forall (fun x => ~ x == 0) w.
Proof. apply Forall_impl. intros x H. lra. Qed.

Definition weights (o : robj) (w a : vec) : vec := if obasis o then map2 Qdiv a w else a.
Definition buffer (o : robj) (w mol : vec) : vec := if obasis o then to_mass w mol else mol.
Definition bounded (amax : Q) (a : vec) : Prop := Forall (fun x => - amax <= x /\ x <= amax) a.

Lemma call_stream_ok w o mol mol' : call_stream w o mol = (None, mol') ->
  process o (buffer o w mol) = (None, clampv (fst (react_obj o (buffer o w mol)))) /\
  mol' = (if obasis o then of_mass w (clampv (fst (react_obj o (buffer o w mol))))
          else clampv (fst (react_obj o (buffer o w mol)))).
Proof.
  unfold call_stream, buffer, via_mass. destruct (obasis o).
  - destruct (process o (to_mass w mol)) as [[e|] v] eqn:P; [discriminate|].
    intros H; inversion H; subst. destruct (process_ok _ _ _ P) as (_ & _ & ->). auto.
  - intros P. destruct (process_ok _ _ _ P) as (_ & _ & ->). auto.
Qed.

Lemma stream_conserved_lemma w o mol mol' a :
  length w = length mol -> Forall (fun x => ~ x == 0) w ->
  Forall (wf (length mol)) (obj_members o) ->
  Forall (balanced (weights o w a)) (obj_members o) ->
  call_stream w o mol = (None, mol') ->
  (nonneg (fst (react_obj o (buffer o w mol))) -> vdot a mol' == vdot a mol) /\
  (forall amax, 0 <= amax -> bounded amax (weights o w a) ->
     - (amax * eps) <= vdot a mol' - vdot a mol /\ vdot a mol' - vdot a mol <= amax * eps).
Proof.
  intros L NZ W B C. destruct (call_stream_ok _ _ _ _ C) as (P & E).
  destruct (process_ok _ _ _ P) as (_ & NS & _).
  assert (LB : length (buffer o w mol) = length mol).
  { unfold buffer, to_mass. destruct (obasis o); auto. apply vmul_length. auto. }
  assert (W' : Forall (wf (length (buffer o w mol))) (obj_members o)) by (rewrite LB; exact W).
  destruct (react_obj_conserves o (buffer o w mol) (weights o w a) W' B) as (Lv & D).
  set (v := fst (react_obj o (buffer o w mol))) in *.
  assert (Base : vdot (weights o w a) (buffer o w mol) == vdot a mol).
  { unfold weights, buffer, to_mass. destruct (obasis o); [|lra]. apply vdot_div_mass; auto. }
  assert (Res : vdot a mol' == vdot (weights o w a) (clampv v)).
  { rewrite E. unfold weights, of_mass. destruct (obasis o); [|lra]. apply vdot_of_mass. }
  split.
  - intros Nn. rewrite Res, (clampv_id v Nn), D, Base. lra.
  - intros amax Ha Bd. destruct (clampv_dot_bound amax Ha (weights o w a) v Bd) as (B1 & B2).
    assert (H := neg_sum_nonpos v). rewrite Res. rewrite <- Base, <- D. split; nra.
Qed.

Lemma nonneg_lemma w o mol mol' : length w = length mol -> Forall (fun x => 0 < x) w ->
  Forall (wf (length mol)) (obj_members o) ->
  call_stream w o mol = (None, mol') -> nonneg mol'.
Proof.
  intros L Pw W C. destruct (call_stream_ok _ _ _ _ C) as (_ & E). rewrite E.
  destruct (obasis o) eqn:Ob; [|apply clampv_nonneg].
  intros i. unfold of_mass. rewrite nthq_map2_div.
  - assert (H1 := clampv_nonneg (fst (react_obj o (buffer o w mol))) i).
    assert (H2 := forall_pos_nthq w Pw i).
    unfold Qdiv. apply Qmult_le_0_compat; auto. apply Qinv_le_0_compat; auto.
  - rewrite clampv_length.
    assert (LB : length (buffer o w mol) = length mol).
    { unfold buffer, to_mass. rewrite Ob. apply vmul_length. auto. }
    assert (W' : Forall (wf (length (buffer o w mol))) (obj_members o)) by (rewrite LB; exact W).
    destruct (react_obj_conserves o (buffer o w mol) [] W') as (Lv & _).
    { apply Forall_forall. intros r _. unfold balanced. rewrite vdot_nil_l. lra. }
    lia.
Qed.

(* the total flow (mass flow on a weight basis) grows by what the clamp removed, at most eps *)
Lemma clamp_total_lemma o v v' : process o v = (None, v') ->
  0 <= qsum v' - qsum (fst (react_obj o v)) /\ qsum v' - qsum (fst (react_obj o v)) <= eps.
Proof.
  intros P. destruct (process_ok _ _ _ P) as (_ & NS & ->). rewrite clampv_sum.
  assert (H := neg_sum_nonpos (fst (react_obj o v))). split; lra.
Qed.

(* ---------- mol basis and wt basis give the same stream ---------- *)
(* v2 holds the masses of the moles in v1 *)
Definition scaled (w v1 v2 : vec) : Prop :=
  length v2 = length v1 /\ forall i, nthq v2 i == nthq w i * nthq v1 i.
(* r' is r expressed per unit mass: S'_i * MW_r = S_i * MW_i *)
Definition wt_of (w : vec) (r r' : rxn) : Prop :=
  ridx r' = ridx r /\ X r' == X r /\ length (st r') = length (st r) /\
  ~ nthq w (ridx r) == 0 /\
  forall i, nthq (st r') i * nthq w (ridx r) == nthq (st r) i * nthq w i.

Lemma react_scaled w r r' v1 v2 : scaled w v1 v2 -> wt_of w r r' -> length (st r) = length v1 ->
  scaled w (react r v1) (react r' v2).
Proof.
  intros (L & S) (R & Xe & Ls & NZ & C) W. split.
  - rewrite !react_length; auto; congruence.
  - intros i. rewrite !nthq_react by congruence. rewrite R, Xe, !S.
    assert (E : nthq w (ridx r) * nthq v1 (ridx r) * X r * nthq (st r') i ==
                nthq v1 (ridx r) * X r * (nthq (st r') i * nthq w (ridx r))) by ring.
    rewrite E, C. ring.
Qed.

Lemma parallel_scaled w rs rs' : Forall2 (wt_of w) rs rs' -> forall f1 f2 v1 v2,
  scaled w f1 f2 -> scaled w v1 v2 -> Forall (wf (length v1)) rs ->
  scaled w (react_parallel_from f1 rs v1) (react_parallel_from f2 rs' v2).
Proof.
  induction 1 as [|r r' rs rs' Hr Hrs IH]; intros f1 f2 v1 v2 Sf Sv W; simpl; auto.
  inversion W as [|? ? Wr Wrs]; subst.
  destruct Hr as (R & Xe & Ls & NZ & C). destruct Sv as (L & S). destruct Sf as (Lf & Sf).
  assert (L1 : length (vadd v1 (vscale (nthq f1 (ridx r) * X r) (st r))) = length v1).
  { apply vadd_length. rewrite vscale_length. symmetry; exact Wr. }
  apply IH; [split; auto| |rewrite L1; auto].
  split.
  - rewrite L1. rewrite vadd_length; auto. rewrite vscale_length. unfold wf in Wr. congruence.
  - intros i. rewrite !nthq_vadd, !nthq_vscale; try (rewrite vscale_length; unfold wf in Wr; congruence).
    rewrite R, Xe, S, Sf.
    assert (E : nthq w (ridx r) * nthq f1 (ridx r) * X r * nthq (st r') i ==
                nthq f1 (ridx r) * X r * (nthq (st r') i * nthq w (ridx r))) by ring.
    rewrite E, C. ring.
Qed.

Lemma series_scaled w rs rs' : Forall2 (wt_of w) rs rs' -> forall v1 v2,
  scaled w v1 v2 -> Forall (wf (length v1)) rs ->
  scaled w (react_series rs v1) (react_series rs' v2).
Proof.
  induction 1 as [|r r' rs rs' Hr Hrs IH]; intros v1 v2 Sv W; simpl; auto.
  inversion W as [|? ? Wr Wrs]; subst. unfold react_series in *. simpl.
  apply IH.
  - apply react_scaled; auto.
  - rewrite react_length; auto.
Qed.

Inductive rset_wt_of (w : vec) : rset -> rset -> Prop :=
| WSingle r r' : wt_of w r r' -> rset_wt_of w (Single r) (Single r')
| WParallel rs rs' : Forall2 (wt_of w) rs rs' -> rset_wt_of w (Parallel rs) (Parallel rs')
| WSeries rs rs' : Forall2 (wt_of w) rs rs' -> rset_wt_of w (Series rs) (Series rs').

Lemma rset_scaled w s s' v1 v2 : rset_wt_of w s s' -> scaled w v1 v2 ->
  Forall (wf (length v1)) (rset_members s) ->
  scaled w (react_rset s v1) (react_rset s' v2).
Proof.
  intros H Sv W. destruct H as [r r' H|rs rs' H|rs rs' H]; simpl in *.
  - inversion W; subst. apply react_scaled; auto.
  - apply parallel_scaled; auto.
  - apply series_scaled; auto.
Qed.

(* o: the object on a molar basis, o': the same object on a weight basis (every member re-based) *)
Inductive obj_wt_of (w : vec) : robj -> robj -> Prop :=
| WSimple s s' : rset_wt_of w s s' -> obj_wt_of w (Simple false s) (Simple true s')
| WSystem ps ps' : Forall2 (fun p p' => fst p = false /\ fst p' = true /\ rset_wt_of w (snd p) (snd p')) ps ps' ->
    obj_wt_of w (System false ps) (System true ps').

Lemma parts_scaled w ps ps' :
  Forall2 (fun p p' => fst p = false /\ fst p' = true /\ rset_wt_of w (snd p) (snd p')) ps ps' ->
  forall v1 v2, scaled w v1 v2 ->
  Forall (wf (length v1)) (concat (map (fun p => rset_members (snd p)) ps)) ->
  scaled w (fst (react_parts false ps v1)) (fst (react_parts true ps' v2)).
Proof.
  induction 1 as [|[b s] [b' s'] ps ps' (Hb & Hb' & Hs) Hps IH]; intros v1 v2 Sv W; simpl; auto.
  simpl in Hb, Hb', Hs. subst. simpl. simpl in W. apply Forall_app in W. destruct W as (Ws & Wps).
  apply IH.
  - apply rset_scaled; auto.
  - destruct (rset_spec s v1 Ws) as (L & _). rewrite L. auto.
Qed.

Lemma obj_scaled w o o' v1 v2 : obj_wt_of w o o' -> scaled w v1 v2 ->
  Forall (wf (length v1)) (obj_members o) ->
  scaled w (fst (react_obj o v1)) (fst (react_obj o' v2)).
Proof.
  intros H Sv W. destruct H as [s s' H|ps ps' H]; simpl in *.
  - apply rset_scaled; auto.
  - apply parts_scaled; auto.
Qed.

Lemma clampv_scaled w v1 v2 : scaled w v1 v2 -> (forall i, 0 <= nthq w i) ->
  scaled w (clampv v1) (clampv v2).
Proof.
  intros (L & S) Pw. split; [rewrite !clampv_length; auto|].
  intros i. rewrite !nthq_clampv. specialize (S i). specialize (Pw i).
  destruct (qltb (nthq v2 i) 0) eqn:E2; destruct (qltb (nthq v1 i) 0) eqn:E1;
    try apply qltb_true in E1; try apply qltb_true in E2;
    try apply qltb_false in E1; try apply qltb_false in E2; try lra; try nra.
Qed.

Lemma to_mass_scaled w mol : length w = length mol -> scaled w mol (to_mass w mol).
Proof.
  intros L. split; [apply vmul_length; auto|]. intros i. unfold to_mass. rewrite nthq_vmul by auto. ring.
Qed.

Lemma basis_equiv_lemma w o o' mol m1 m2 :
  obj_wt_of w o o' -> length w = length mol -> Forall (fun x => 0 < x) w ->
  Forall (wf (length mol)) (obj_members o) ->
  call_stream w o mol = (None, m1) -> call_stream w o' mol = (None, m2) ->
  length m1 = length m2 /\ forall i, nthq m1 i == nthq m2 i.
Proof.
  intros H L Pw W C1 C2.
  destruct (call_stream_ok _ _ _ _ C1) as (_ & E1). destruct (call_stream_ok _ _ _ _ C2) as (_ & E2).
  assert (O1 : obasis o = false) by (destruct H; reflexivity).
  assert (O2 : obasis o' = true) by (destruct H; reflexivity).
  unfold buffer in *. rewrite O1 in E1. rewrite O2 in E2. subst m1 m2.
  assert (Sc := obj_scaled w o o' mol (to_mass w mol) H (to_mass_scaled w mol L) W).
  assert (Pw' := forall_pos_nthq w Pw).
  destruct (clampv_scaled _ _ _ Sc Pw') as (Lc & Vc).
  set (c1 := clampv (fst (react_obj o mol))) in *.
  set (c2 := clampv (fst (react_obj o' (to_mass w mol)))) in *.
  assert (L2 : length c2 = length w).
  { rewrite Lc. unfold c1. rewrite clampv_length.
    destruct (react_obj_conserves o mol [] W) as (Lv & _).
    { apply Forall_forall. intros r _. unfold balanced. rewrite vdot_nil_l. lra. }
    lia. }
  split.
  - unfold of_mass. rewrite map2_length; auto. 
  - intros i. unfold of_mass. rewrite nthq_map2_div by auto. rewrite Vc.
    destruct (Qeq_dec (nthq w i) 0) as [Z|NZ].
    + (* beyond the end of the vectors: both sides are 0 *)
      assert (Hi : (length w <= i)%nat).
      { destruct (Nat.le_gt_cases (length w) i) as [G|G]; auto. exfalso.
        assert (P : 0 < nthq w i).
        { clear - Pw G. revert i G. induction Pw as [|x w Hx Hw IH]; intros i G; simpl in G; [lia|].
          destruct i; unfold nthq in *; simpl; auto. apply IH. lia. }
        lra. }
      unfold nthq at 1. rewrite nth_overflow by (unfold c1; rewrite clampv_length;
        destruct (react_obj_conserves o mol [] W) as (Lv & _);
        [apply Forall_forall; intros r _; unfold balanced; rewrite vdot_nil_l; lra | lia]).
      rewrite Z. unfold Qdiv. ring.
    + field. exact NZ.
Qed.

(* re-basing a normalised molar reaction (set_reaction_basis) produces its per-mass version *)
Lemma set_basis_wt_of w r r' : wt r = false -> normalised r -> length (st r) = length w ->
  ~ nthq w (ridx r) == 0 -> set_basis w r true = Ok r' -> wt_of w r r'.
Proof.
  intros Wr Nr L NZ. unfold set_basis. rewrite Wr. simpl.
  unfold rescale. simpl. unfold normalised in Nr.
  assert (Sc : - nthq (vmul (st r) w) (ridx r) == nthq w (ridx r)).
  { rewrite nthq_vmul by auto. rewrite Nr. ring. }
  destruct (qzerob (- nthq (vmul (st r) w) (ridx r))) eqn:Z.
  - apply qzerob_true in Z. rewrite Sc in Z. contradiction.
  - simpl. intros H; inversion H; subst; clear H. unfold wt_of; simpl.
    repeat split; auto; try lra.
    + rewrite vdivs_length. apply vmul_length; auto.
    + intros i. rewrite nthq_vdivs, nthq_vmul by auto. rewrite Sc. field. exact NZ.
Qed.

(* ---------- bare arrays (numpy, SparseVector, SparseArray): the elements are reacted as they are ---------- *)
Lemma process_conserved o v v' a : Forall (wf (length v)) (obj_members o) ->
  Forall (balanced a) (obj_members o) -> process o v = (None, v') ->
  (nonneg (fst (react_obj o v)) -> vdot a v' == vdot a v) /\
  (forall amax, 0 <= amax -> bounded amax a ->
     - (amax * eps) <= vdot a v' - vdot a v /\ vdot a v' - vdot a v <= amax * eps) /\
  nonneg v'.
Proof.
  intros W B P. destruct (process_ok _ _ _ P) as (_ & NS & ->).
  destruct (react_obj_conserves o v a W B) as (_ & D).
  split; [|split].
  - intros Nn. rewrite (clampv_id _ Nn). exact D.
  - intros amax Ha Bd. destruct (clampv_dot_bound amax Ha a (fst (react_obj o v)) Bd) as (B1 & B2).
    assert (H := neg_sum_nonpos (fst (react_obj o v))). rewrite <- D. split; nra.
  - apply clampv_nonneg.
Qed.

Lemma infeasible_lemma o v : snd (react_obj o v) = None -> neg_sum (fst (react_obj o v)) < - eps ->
  process o v = (Some EInfeasible, fst (react_obj o v)).
Proof.
  unfold process. destruct (react_obj o v) as [v1 e]; simpl. intros -> H.
  apply qltb_true in H. rewrite H. reflexivity.
Qed.

Lemma vdot_ones : forall w s, length w = length s -> Forall (fun x => ~ x == 0) w ->
  vdot (map2 Qdiv w w) s == qsum s.
Proof.
  induction w as [|x w IH]; intros [|y s] L NZ; simpl in L; try discriminate.
  - reflexivity.
  - inversion NZ as [|? ? Nx NZ']; subst. simpl map2. rewrite vdot_cons. simpl qsum.
    rewrite IH by (auto; lia). field. exact Nx.
Qed.

(* ---------- instances for the mass ---------- *)
Lemma mass_conserved_mol_lemma w o mol mol' :
  obasis o = false -> length w = length mol -> Forall (fun x => ~ x == 0) w ->
  Forall (wf (length mol)) (obj_members o) -> Forall (balanced w) (obj_members o) ->
  call_stream w o mol = (None, mol') -> nonneg (fst (react_obj o mol)) ->
  vdot w mol' == vdot w mol.
Proof.
  intros Ob L NZ W B C Nn.
  assert (B' : Forall (balanced (weights o w w)) (obj_members o)) by (unfold weights; rewrite Ob; exact B).
  destruct (stream_conserved_lemma w o mol mol' w L NZ W B' C) as (H & _).
  apply H. unfold buffer. rewrite Ob. exact Nn.
Qed.

Lemma mass_conserved_wt_lemma w o mol mol' :
  obasis o = true -> length w = length mol -> Forall (fun x => ~ x == 0) w ->
  Forall (wf (length mol)) (obj_members o) -> Forall (fun r => qsum (st r) == 0) (obj_members o) ->
  call_stream w o mol = (None, mol') -> nonneg (fst (react_obj o (to_mass w mol))) ->
  vdot w mol' == vdot w mol.
Proof.
  intros Ob L NZ W B C Nn.
  assert (B' : Forall (balanced (weights o w w)) (obj_members o)).
  { unfold weights. rewrite Ob. apply Forall_forall. intros r Hr. unfold balanced.
    rewrite vdot_ones; [exact (proj1 (Forall_forall _ _) B r Hr)| |exact NZ].
    assert (Wr := proj1 (Forall_forall _ _) W r Hr). unfold wf in Wr. congruence. }
  destruct (stream_conserved_lemma w o mol mol' w L NZ W B' C) as (H & _).
  apply H. unfold buffer. rewrite Ob. exact Nn.
Qed.

Lemma array_routes_lemma pt w o a : len_ok o a = true ->
  call pt w o (MSparse a) = process o a /\
  call pt w o (MNumpy a) = (match fst (process o a) with None => process o a | Some e => (Some e, a) end) /\
  forall mol, call pt w o (MMassView mol) = via_mass w o mol.
Proof.
  intros L. simpl. rewrite L. simpl. repeat split.
  destruct (process o a) as [[e|] v]; reflexivity.
Qed.

Lemma constructed_normalised_lemma is_str n P ts reactant x w ph r :
  mk_reaction is_str n P ts reactant x w ph = Ok r -> normalised r.
Proof.
  unfold mk_reaction.
  destruct (parse is_str n P ts) as [s|e]; simpl; [|discriminate].
  destruct (choose_reactant n P s reactant) as [k|e]; simpl; [|discriminate].
  unfold rescale. simpl. destruct (qzerob (- nthq s k)) eqn:Z; [discriminate|].
  intros H; inversion H; subst. unfold normalised. simpl. rewrite nthq_vdivs.
  apply qzerob_false in Z. field. lra.
Qed.

(* ====================================================================================== *)
(* Histories on copies of a set's members never reach the set                               *)
Lemma nth_upd_neq {A} (l : list A) i j x d : i <> j -> nth j (upd l i x) d = nth j l d.
Proof.
  revert i j; induction l as [|h t IH]; intros [|i] [|j] H; simpl; auto; try congruence.
Qed.

Lemma Forall_upd {A} (P : A -> Prop) (l : list A) i x : Forall P l -> P x -> Forall P (upd l i x).
Proof.
  intros F Px. revert i. induction F as [|h t Ph Ft IH]; intros [|i]; simpl; auto.
Qed.

(* cells below n0 hold the set's rows; every derived object owns a cell at or above n0 *)
Definition hinv (n0 : nat) (h0 : heap) (s : hstate) : Prop :=
  (n0 <= length (hp s))%nat /\
  Forall (fun d => (n0 <= hcell d < length (hp s))%nat) (derived s) /\
  forall c, (c < n0)%nat -> nth c (hp s) [] = nth c h0 [].

Lemma hinv_grow n0 (l : list href) (h : heap) x :
  Forall (fun d => (n0 <= hcell d < length h)%nat) l ->
  Forall (fun d => (n0 <= hcell d < length (h ++ [x]))%nat) l.
Proof. apply Forall_impl. intros d (A & B). rewrite app_length. simpl. lia. Qed.

Lemma do_copy_inv mws n0 h0 s src b s' : hinv n0 h0 s -> do_copy mws s src b = Ok s' -> hinv n0 h0 s'.
Proof.
  intros (L & D & F). unfold do_copy. destruct b as [b|].
  - destruct (set_basis mws _ b) as [r'|e]; simpl; [|discriminate].
    intros H; inversion H; subst; clear H. unfold hinv; simpl.
    rewrite upd_length, app_length; simpl. split; [lia|]. split.
    + apply Forall_app. split.
      * eapply Forall_impl; [|exact D]. intros d (A & B). simpl in *. lia.
      * constructor; [simpl; lia|constructor].
    + intros c Hc. rewrite nth_upd_neq by lia. rewrite app_nth1 by lia. apply F; auto.
  - intros H; inversion H; subst; clear H. unfold hinv; simpl. rewrite app_length; simpl.
    split; [lia|]. split.
    + apply Forall_app. split.
      * eapply Forall_impl; [|exact D]. intros d (A & B). simpl in *. lia.
      * constructor; [simpl; lia|constructor].
    + intros c Hc. rewrite app_nth1 by lia. apply F; auto.
Qed.

Lemma do_backwards_inv n0 h0 s src r x s' : hinv n0 h0 s -> do_backwards s src r x = Ok s' -> hinv n0 h0 s'.
Proof.
  intros (L & D & F). unfold do_backwards.
  destruct (backwards _ r x) as [r'|e]; simpl; [|discriminate].
  intros H; inversion H; subst; clear H. unfold hinv; simpl. rewrite app_length; simpl.
  split; [lia|]. split.
  - apply Forall_app. split.
    + eapply Forall_impl; [|exact D]. intros d (A & B). simpl in *. lia.
    + constructor; [simpl; lia|constructor].
  - intros c Hc. rewrite app_nth1 by lia. apply F; auto.
Qed.

Lemma do_iop_inv mws sub n0 h0 s j a b s' : hinv n0 h0 s -> do_iop mws sub s j a b = Ok s' -> hinv n0 h0 s'.
Proof.
  intros (L & D & F). unfold do_iop.
  destruct ((if sub then rsub else radd) mws _ _) as [r'|e]; simpl; [|discriminate].
  intros H; inversion H; subst; clear H. unfold hinv; simpl. rewrite app_length; simpl.
  split; [lia|]. split.
  - apply Forall_upd; [|simpl; lia].
    eapply Forall_impl; [|exact D]. intros d (A & B). simpl in *. lia.
  - intros c Hc. rewrite app_nth1 by lia. apply F; auto.
Qed.

Lemma do_cab_inv mws n0 h0 s d n formula consts Aobs bobs sol s' : hinv n0 h0 s -> In d (derived s) ->
  do_cab mws s d n formula consts Aobs bobs sol = Ok s' -> hinv n0 h0 s'.
Proof.
  intros (L & D & F) Hd. unfold do_cab.
  destruct (cab_apply _ n formula mws _ consts) as [r'|e]; simpl; [|discriminate].
  intros H; inversion H; subst; clear H.
  assert (Hc : (n0 <= hcell d < length (hp s))%nat) by (rewrite Forall_forall in D; apply D; auto).
  unfold hinv; simpl. rewrite upd_length. split; auto. split; auto.
  intros c Hlt. rewrite nth_upd_neq by lia. apply F; auto.
Qed.

Lemma do_setcopy_inv mws n0 h0 b srcs : forall s s', hinv n0 h0 s -> do_setcopy mws s srcs b = Ok s' -> hinv n0 h0 s'.
Proof.
  induction srcs as [|src t IH]; intros s s' I; simpl.
  - intros H; inversion H; subst; auto.
  - destruct I as (L & D & F). destruct b as [b'|].
    + destruct (set_basis mws _ b') as [r'|e]; simpl; [|discriminate].
      apply IH. unfold hinv; simpl. rewrite upd_length, app_length; simpl. split; [lia|]. split.
      * eapply Forall_impl; [|exact D]. intros d (A & B). simpl in *. lia.
      * intros c Hc. rewrite nth_upd_neq by lia. rewrite app_nth1 by lia. apply F; auto.
    + apply IH. unfold hinv; simpl. rewrite app_length; simpl. split; [lia|]. split.
      * eapply Forall_impl; [|exact D]. intros d (A & B). simpl in *. lia.
      * intros c Hc. rewrite app_nth1 by lia. apply F; auto.
Qed.

Lemma hstep_inv mws members n0 h0 s o s' : hinv n0 h0 s -> hstep mws members s o = Ok s' -> hinv n0 h0 s'.
Proof.
  intros I. destruct o as [lo k b|k r x|j b|j b|j r x|j k|j k|j n formula consts Aobs bobs sol|lo n b]; simpl.
  - destruct (nth_error (skipn lo members) k); [|discriminate]. apply do_copy_inv; auto.
  - destruct (nth_error members k); [|discriminate]. apply do_backwards_inv; auto.
  - destruct (nth_error (derived s) j) as [d|] eqn:E; [|discriminate].
    destruct (set_basis mws _ b) as [r'|e]; simpl; [|discriminate].
    intros H; inversion H; subst; clear H. destruct I as (L & D & F).
    assert (Hd : (n0 <= hcell d < length (hp s))%nat).
    { apply nth_error_In in E. rewrite Forall_forall in D. apply D; auto. }
    unfold hinv; simpl. rewrite upd_length. split; auto. split.
    + apply Forall_upd; auto.
    + intros c Hc. rewrite nth_upd_neq by lia. apply F; auto.
  - destruct (nth_error (derived s) j); [|discriminate]. apply do_copy_inv; auto.
  - destruct (nth_error (derived s) j); [|discriminate]. apply do_backwards_inv; auto.
  - destruct (nth_error (derived s) j) as [a|]; [|discriminate].
    destruct (nth_error (derived s) k) as [b|]; [|discriminate]. apply do_iop_inv; auto.
  - destruct (nth_error (derived s) j) as [a|]; [|discriminate].
    destruct (nth_error (derived s) k) as [b|]; [|discriminate]. apply do_iop_inv; auto.
  - destruct (nth_error (derived s) j) as [d|] eqn:E; [|discriminate].
    apply do_cab_inv; auto. apply nth_error_In in E. exact E.
  - apply do_setcopy_inv; auto.
Qed.

Lemma hrun_inv mws members n0 h0 ops : forall s, hinv n0 h0 s -> hinv n0 h0 (fst (hrun mws members s ops)).
Proof.
  induction ops as [|o t IH]; intros s I; simpl; auto.
  destruct (hstep mws members s o) as [s'|e] eqn:E.
  - assert (I' := hstep_inv _ _ _ _ _ _ _ I E). specialize (IH s' I').
    destruct (hrun mws members s' t); auto.
  - specialize (IH s I). destruct (hrun mws members s t); auto.
Qed.

Lemma hrefs_cells l : forall c, Forall (fun m => (c <= hcell m < c + length l)%nat) (hrefs_from c l).
Proof.
  induction l as [|r t IH]; intros c; simpl; constructor.
  - simpl. lia.
  - eapply Forall_impl; [|apply (IH (S c))]. intros m H. simpl in H. lia.
Qed.

Lemma as_rxn_frame h h0 n0 (ms : list href) :
  (forall c, (c < n0)%nat -> nth c h [] = nth c h0 []) ->
  Forall (fun m => (hcell m < n0)%nat) ms ->
  map (as_rxn h) ms = map (as_rxn h0) ms.
Proof.
  intros F. induction 1 as [|m t Hm Ht IH]; simpl; auto.
  f_equal; auto. unfold as_rxn, hget. rewrite F; auto.
Qed.

Lemma as_rxn_initial l : forall pre, 
  map (as_rxn (pre ++ map st l)) (hrefs_from (length pre) l) = l.
Proof.
  induction l as [|r t IH]; intros pre; simpl; auto. f_equal.
  - unfold as_rxn, hget; simpl. rewrite app_nth2 by lia. rewrite Nat.sub_diag. simpl. destruct r; reflexivity.
  - specialize (IH (pre ++ [st r])). rewrite <- app_assoc in IH. simpl in IH.
    rewrite app_length in IH. simpl in IH. rewrite Nat.add_1_r in IH. exact IH.
Qed.

Lemma take_set_same s rest : take_set s (set_members s ++ rest) = (s, rest).
Proof.
  destruct s as [r|rs|rs]; simpl; auto.
  - rewrite firstn_app, Nat.sub_diag, firstn_all. simpl. rewrite app_nil_r.
    rewrite skipn_app, Nat.sub_diag, skipn_all. reflexivity.
  - rewrite firstn_app, Nat.sub_diag, firstn_all. simpl. rewrite app_nil_r.
    rewrite skipn_app, Nat.sub_diag, skipn_all. reflexivity.
Qed.

Lemma take_parts_same ps : take_parts ps (concat (map (fun p => set_members (snd p)) ps)) = ps.
Proof.
  induction ps as [|[b s] t IH]; simpl; auto. rewrite take_set_same. rewrite IH. reflexivity.
Qed.

Lemma rebuild_same o : rebuild o (flat_members o) = o.
Proof.
  destruct o as [b s|b ps]; simpl.
  - rewrite <- (app_nil_r (set_members s)). rewrite take_set_same. reflexivity.
  - rewrite take_parts_same. reflexivity.
Qed.

(* whatever is done to copies of the members (copy, re-base, reverse, and the same again on the
   results), the object read back from the heap is the original one *)
Lemma history_lemma mws o ops : fst (fst (hist_run mws o ops)) = o.
Proof.
  unfold hist_run. set (l := flat_members o). set (members := hrefs_from 0 l).
  set (s0 := mkhs (map st l) []).
  assert (I0 : hinv (length l) (map st l) s0).
  { unfold hinv, s0; simpl. rewrite map_length. split; [lia|]. split; [constructor|auto]. }
  assert (I := hrun_inv mws members (length l) (map st l) ops s0 I0).
  destruct (hrun mws members s0 ops) as [f oks]. simpl in *. destruct I as (_ & _ & F).
  rewrite (as_rxn_frame (hp f) (map st l) (length l) members F).
  - unfold members. assert (E := as_rxn_initial l []). simpl in E. rewrite E. apply rebuild_same.
  - unfold members. eapply Forall_impl; [|apply (hrefs_cells l 0)]. intros m H. simpl in H. lia.
Qed.

(* and the derived objects live in cells of their own *)
Lemma history_derived_fresh mws o ops :
  let l := flat_members o in
  let f := fst (hrun mws (hrefs_from 0 l) (mkhs (map st l) []) ops) in
  Forall (fun d => (length l <= hcell d < length (hp f))%nat) (derived f).
Proof.
  intros l f.
  assert (I0 : hinv (length l) (map st l) (mkhs (map st l) [])).
  { unfold hinv; simpl. rewrite map_length. split; [lia|]. split; [constructor|auto]. }
  destruct (hrun_inv mws (hrefs_from 0 l) (length l) (map st l) ops _ I0) as (_ & D & _). exact D.
Qed.

Lemma history_then_apply_lemma mws o ops pt w m :
  call pt w (fst (fst (hist_run mws o ops))) m = call pt w o m.
Proof. rewrite history_lemma. reflexivity. Qed.

(* a ReactionSystem one of whose members no longer has the system's basis never returns normally *)
Lemma mixed_basis_lemma b ps : forall m, Exists (fun p => fst p <> b) ps ->
  snd (react_parts b ps m) = Some ERuntime.
Proof.
  induction ps as [|[pb s] t IH]; intros m E; [inversion E|]. simpl.
  destruct (Bool.eqb pb b) eqn:Q.
  - apply IH. inversion E as [? ? H|? ? H]; subst; auto.
    simpl in H. apply Bool.eqb_prop in Q. contradiction.
  - reflexivity.
Qed.

Lemma mixed_basis_call_lemma w b ps mol : Exists (fun p => fst p <> b) ps ->
  fst (call_stream w (System b ps) mol) = Some ERuntime.
Proof.
  intros E. unfold call_stream, via_mass, process. simpl.
  destruct b; simpl.
  - assert (H := mixed_basis_lemma true ps (to_mass w mol) E).
    destruct (react_parts true ps (to_mass w mol)) as [v e]. simpl in H. subst. reflexivity.
  - assert (H := mixed_basis_lemma false ps mol E).
    destruct (react_parts false ps mol) as [v e]. simpl in H. subst. reflexivity.
Qed.

(* ====================================================================================== *)
(* Index remapping between packages (indexer reset_chemicals, Reaction.reset_chemicals):
   weighted sums are carried over                                                           *)
Definition targets (tbl : list (option nat)) : list nat :=
  flat_map (fun t => match t with Some i => [i] | None => [] end) tbl.
(* the functional on the source side that [aT] induces through the table *)
Definition wmap (aT : vec) (tbl : list (option nat)) : vec :=
  map (fun t => match t with Some i => nthq aT i | None => 0 end) tbl.

Lemma upd_dot : forall (acc a : vec) i x, (i < length acc)%nat ->
  vdot a (upd acc i x) == vdot a acc + nthq a i * (x - nthq acc i).
Proof.
  induction acc as [|y acc IH]; intros a i x L; simpl in L; [lia|].
  destruct a as [|b a].
  - rewrite !vdot_nil_l, nthq_nil. ring.
  - destruct i as [|i]; simpl upd; rewrite !vdot_cons.
    + unfold nthq; simpl. ring.
    + rewrite IH by lia. unfold nthq; simpl. ring.
Qed.

Lemma nthq_vzero n i : nthq (vzero n) i = 0.
Proof.
  unfold nthq, vzero. revert i. induction n as [|n IH]; intros [|i]; simpl; auto.
Qed.

Lemma vdot_vzero a n : vdot a (vzero n) == 0.
Proof.
  revert a. unfold vzero. induction n as [|n IH]; intros a; simpl.
  - rewrite vdot_nil_r. lra.
  - destruct a as [|x a]; [rewrite vdot_nil_l; lra|]. rewrite vdot_cons, IH. ring.
Qed.

Lemma remap_from_dot aT : forall tbl d acc res,
  NoDup (targets tbl) ->
  (forall i, In i (targets tbl) -> (i < length acc)%nat /\ nthq acc i == 0) ->
  remap_from tbl d acc = Ok res ->
  length res = length acc /\ vdot aT res == vdot aT acc + vdot (wmap aT tbl) d.
Proof.
  induction tbl as [|t tbl IH]; intros d acc res ND Z R; simpl in R.
  - inversion R; subst. simpl. rewrite vdot_nil_l. split; auto. lra.
  - destruct d as [|x d].
    + inversion R; subst. rewrite vdot_nil_r. split; auto. lra.
    + simpl wmap. rewrite vdot_cons.
      assert (ND' : NoDup (targets tbl)).
      { simpl in ND. destruct t; simpl in ND; auto. inversion ND; auto. }
      destruct (qzerob x) eqn:Zx.
      * apply qzerob_true in Zx.
        destruct (IH d acc res ND') as (L & D); auto.
        { intros i Hi. apply Z. simpl. destruct t; simpl; auto. }
        split; auto. rewrite D, Zx. ring.
      * destruct t as [i|]; [|discriminate].
        simpl in ND. inversion ND as [|? ? Hn ND'']; subst.
        destruct (Z i) as (Li & Zi); [simpl; auto|].
        destruct (IH d (upd acc i x) res ND') as (L & D); auto.
        { intros j Hj. rewrite upd_length. destruct (Z j) as (Lj & Zj); [simpl; auto|].
          split; auto. assert (i <> j) by (intros ->; contradiction).
          rewrite nth_upd_other; auto. }
        rewrite upd_length in L. split; auto.
        rewrite D, upd_dot by auto. rewrite Zi. ring.
Qed.

Lemma remap_dot aT size tbl d res :
  NoDup (targets tbl) -> (forall i, In i (targets tbl) -> (i < size)%nat) ->
  remap size tbl d = Ok res ->
  length res = size /\ vdot aT res == vdot (wmap aT tbl) d.
Proof.
  intros ND B R. unfold remap in R.
  destruct (remap_from_dot aT tbl d (vzero size) res ND) as (L & D); auto.
  - intros i Hi. unfold vzero at 1. rewrite repeat_length. split; auto. rewrite nthq_vzero. lra.
  - unfold vzero in L. rewrite repeat_length in L. split; auto. rewrite D, vdot_vzero. lra.
Qed.

(* a reaction moved to another package annihilates a functional there exactly when it annihilated
   the corresponding functional (same chemical, same weight) on its own package *)
Lemma retarget_balanced_lemma aT size tbl r r' :
  NoDup (targets tbl) -> (forall i, In i (targets tbl) -> (i < size)%nat) ->
  retarget size tbl r = Ok r' ->
  length (st r') = size /\ X r' = X r /\ wt r' = wt r /\ phases r' = phases r /\
  nth (ridx r) tbl None = Some (ridx r') /\
  vdot aT (st r') == vdot (wmap aT tbl) (st r).
Proof.
  intros ND B. unfold retarget. destruct (remap size tbl (st r)) as [s|e] eqn:R; simpl; [|discriminate].
  destruct (nth (ridx r) tbl None) as [i|] eqn:E; [|discriminate].
  intros H; inversion H; subst; clear H. simpl.
  destruct (remap_dot aT size tbl (st r) s ND B R) as (L & D). repeat split; auto.
Qed.

(* agreement on the support is enough for a dot product *)
Lemma vdot_agree : forall (u v d : vec), length u = length v ->
  (forall j, ~ nthq d j == 0 -> nthq u j == nthq v j) -> vdot u d == vdot v d.
Proof.
  induction u as [|a u IH]; intros [|b v] d L A; simpl in L; try discriminate.
  - reflexivity.
  - destruct d as [|x d]; [rewrite !vdot_nil_r; lra|]. rewrite !vdot_cons.
    rewrite (IH v d) by (auto; intros j Hj; exact (A (S j) Hj)).
    destruct (Qeq_dec x 0) as [Zx|Nx].
    + rewrite Zx. ring.
    + assert (H0 := A O). unfold nthq in H0; simpl in H0. rewrite (H0 Nx). ring.
Qed.

(* a successful remap met no non-zero flow without a target *)
Lemma remap_from_none : forall tbl d acc res, remap_from tbl d acc = Ok res ->
  forall j, nth j tbl (Some O) = None -> nthq d j == 0.
Proof.
  induction tbl as [|t tbl IH]; intros d acc res R j Hj.
  - destruct j; discriminate.
  - destruct d as [|x d]; [rewrite nthq_nil; lra|]. simpl in R.
    destruct (qzerob x) eqn:Zx.
    + destruct j as [|j]; [apply qzerob_true in Zx; exact Zx|]. exact (IH d acc res R j Hj).
    + destruct t as [i|]; [|discriminate].
      destruct j as [|j]; [discriminate|]. exact (IH d _ res R j Hj).
Qed.

Lemma nthq_wmap aT : forall tbl j,
  nthq (wmap aT tbl) j = match nth_error tbl j with Some (Some i) => nthq aT i | _ => 0 end.
Proof.
  induction tbl as [|t tbl IH]; intros j.
  - destruct j; reflexivity.
  - destruct j as [|j].
    + simpl. unfold nthq; simpl. destruct t; reflexivity.
    + simpl nth_error. rewrite <- (IH j). reflexivity.
Qed.

Lemma nth_error_nth_some {A} (l : list A) j d : (j < length l)%nat -> nth_error l j = Some (nth j l d).
Proof. revert j; induction l as [|a l IH]; intros [|j] L; simpl in *; try lia; auto. apply IH. lia. Qed.

(* streams on another package: what the functional [aB] measures on the stream is what the
   corresponding functional [aA] measures on the reaction's package, in both directions *)
Lemma other_package_lemma w o nA fwd bwd mol mol' aA aB :
  NoDup (targets fwd) -> (forall i, In i (targets fwd) -> (i < nA)%nat) ->
  NoDup (targets bwd) -> (forall i, In i (targets bwd) -> (i < length mol)%nat) ->
  length fwd = length mol -> length bwd = nA -> length aB = length mol -> length aA = nA ->
  (forall j i, nth j fwd (Some O) = Some i -> (j < length fwd)%nat -> nthq aA i == nthq aB j) ->
  (forall i j, nth i bwd (Some O) = Some j -> (i < length bwd)%nat -> nthq aB j == nthq aA i) ->
  call_other w o nA fwd bwd mol = (None, mol') ->
  exists a a', remap nA fwd mol = Ok a /\ call_stream w o a = (None, a') /\
    vdot aA a == vdot aB mol /\ vdot aB mol' == vdot aA a'.
Proof.
  intros NDf Bf NDb Bb Lf Lb LaB LaA Cf Cb. unfold call_other.
  destruct (remap nA fwd mol) as [a|e] eqn:Rf; [|discriminate].
  destruct (call_stream w o a) as [[e|] a'] eqn:C; [discriminate|].
  destruct (remap (length mol) bwd a') as [b|e] eqn:Rb; [|discriminate].
  intros H; inversion H as [Hb]; subst b; clear H. exists a, a'. repeat split; auto.
  - destruct (remap_dot aA nA fwd mol a NDf Bf Rf) as (_ & D). rewrite D.
    apply vdot_agree; [unfold wmap; rewrite map_length; congruence|].
    intros j Nz. rewrite nthq_wmap.
    destruct (Nat.lt_ge_cases j (length fwd)) as [Lt|Ge].
    + rewrite (nth_error_nth_some fwd j (Some O) Lt).
      destruct (nth j fwd (Some O)) as [i|] eqn:E.
      * apply (Cf j i E Lt).
      * exfalso. apply Nz. unfold remap in Rf. exact (remap_from_none _ _ _ _ Rf j E).
    + exfalso. apply Nz. unfold nthq. rewrite nth_overflow; [lra|lia].
  - destruct (remap_dot aB (length mol) bwd a' mol' NDb Bb Rb) as (_ & D). rewrite D.
    apply vdot_agree; [unfold wmap; rewrite map_length; congruence|].
    intros i Nz. rewrite nthq_wmap.
    destruct (Nat.lt_ge_cases i (length bwd)) as [Lt|Ge].
    + rewrite (nth_error_nth_some bwd i (Some O) Lt).
      destruct (nth i bwd (Some O)) as [j|] eqn:E.
      * apply (Cb i j E Lt).
      * exfalso. apply Nz. unfold remap in Rb. exact (remap_from_none _ _ _ _ Rb i E).
    + assert (E : nth_error bwd i = None) by (apply nth_error_None; lia). rewrite E.
      unfold nthq. rewrite nth_overflow by lia. lra.
Qed.


Lemma nth_upd_same_gen {A} (l : list A) i x d : (i < length l)%nat -> nth i (upd l i x) d = x.
Proof. revert i; induction l as [|h t IH]; intros [|i] H; simpl in *; try lia; auto. apply IH. lia. Qed.

(* whatever the linear solver returns, correct_atomic_balance ends with _rescale: the corrected reaction
   has reactant coefficient -1, so it converts exactly X of its reactant (consumed_lemma) *)
Lemma cab_apply_normalised solver n formula mws r consts r' :
  cab_apply solver n formula mws r consts = Ok r' ->
  normalised r' /\ ridx r' = ridx r /\ X r' = X r /\ wt r' = wt r /\ phases r' = phases r /\
  length (st r') = length (st r).
Proof.
  unfold cab_apply. destruct (cab_solve _ _ _ _ _ _) as [v|e]; simpl; [|discriminate].
  set (filled := cab_fill _ _ _ _ _).
  assert (LF : length filled = length (st r)).
  { unfold filled. generalize 0%nat. generalize (st r). clear.
    induction v0 as [|x t IH]; intros k; simpl; auto. }
  unfold rescale. simpl. destruct (qzerob _) eqn:Z; [discriminate|].
  intros H; inversion H; subst; clear H. simpl. repeat split; auto.
  - unfold normalised. simpl. rewrite nthq_vdivs. apply qzerob_false in Z.
    set (a := nthq filled (ridx r)) in *. field. intros E. apply Z. rewrite E. ring.
  - rewrite vdivs_length. auto.
Qed.

Lemma cab_normalised_lemma mws s d n formula consts Aobs bobs sol s' :
  do_cab mws s d n formula consts Aobs bobs sol = Ok s' ->
  (hcell d < length (hp s))%nat ->
  normalised (as_rxn (hp s') d) /\ derived s' = derived s.
Proof.
  unfold do_cab. destruct (cab_apply _ _ _ _ _ _) as [r'|e] eqn:R; simpl; [|discriminate].
  intros H Hc; inversion H; subst; clear H. simpl. split; auto.
  destruct (cab_apply_normalised _ _ _ _ _ _ _ R) as (Nr & Ri & _).
  unfold normalised, as_rxn, hget in *. simpl in *. rewrite nth_upd_same_gen by auto.
  rewrite <- Ri. exact Nr.
Qed.
