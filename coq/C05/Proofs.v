From V Require Import Common.NumFacts C05.Model.
