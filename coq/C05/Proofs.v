(* C05 — lemmas about applying reactions to material *)
From V Require Import Common.NumFacts C05.Model.

(* ---------- comparisons ---------- *)
Lemma qltb_true a b : qltb a b = true <-> a < b.
Proof.
  unfold qltb. rewrite Bool.negb_true_iff. split; intros H.
  - apply Qnot_le_lt. intros L. apply Qle_bool_iff in L. congruence.
  - destruct (Qle_bool b a) eqn:E; auto. apply Qle_bool_iff in E. lra.
Qed.
Lemma qltb_false a b : qltb a b = false <-> b <= a.
Proof.
  unfold qltb. rewrite Bool.negb_false_iff. apply Qle_bool_iff.
Qed.

(* ---------- dot products ---------- *)
Lemma vdot_nil_l b : vdot [] b = 0.
Proof. reflexivity. Qed.
Lemma vdot_nil_r a : vdot a [] = 0.
Proof. destruct a; reflexivity. Qed.
Lemma vdot_cons x a y b : vdot (x :: a) (y :: b) = x * y + vdot a b.
Proof. reflexivity. Qed.

Lemma vdot_vadd a m s : length m = length s -> vdot a (vadd m s) == vdot a m + vdot a s.
Proof.
  revert m s. induction a as [|x a IH]; intros m s L.
  - rewrite !vdot_nil_l. lra.
  - destruct m as [|y m], s as [|z s]; simpl in L; try discriminate.
    + unfold vadd; simpl. rewrite !vdot_nil_r. lra.
    + unfold vadd in *. simpl map2. rewrite !vdot_cons. rewrite IH by lia. lra.
Qed.

Lemma vdot_vscale a k s : vdot a (vscale k s) == k * vdot a s.
Proof.
  revert s. induction a as [|x a IH]; intros s.
  - rewrite !vdot_nil_l. lra.
  - destruct s as [|z s]; simpl vscale.
    + rewrite !vdot_nil_r. lra.
    + rewrite !vdot_cons. change (map (Qmult k) s) with (vscale k s). rewrite IH. lra.
Qed.

(* ---------- one reaction ---------- *)
Definition normalised (r : rxn) : Prop := nthq (st r) (ridx r) == -1.
Definition wf (n : nat) (r : rxn) : Prop := length (st r) = n.
(* a linear functional (a row of the formula matrix, the molecular weights, ...) the reaction preserves *)
Definition balanced (a : vec) (r : rxn) : Prop := vdot a (st r) == 0.

Lemma nthq_react r m i : length (st r) = length m ->
  nthq (react r m) i == nthq m i + nthq m (ridx r) * X r * nthq (st r) i.
Proof.
  intros L. unfold react. rewrite nthq_vadd, nthq_vscale; [lra|].
  rewrite vscale_length. auto.
Qed.

Lemma react_length r m : length (st r) = length m -> length (react r m) = length m.
Proof. intros L. unfold react. apply vadd_length. rewrite vscale_length; auto. Qed.

Lemma react_dot a r m : length (st r) = length m ->
  vdot a (react r m) == vdot a m + (nthq m (ridx r) * X r) * vdot a (st r).
Proof.
  intros L. unfold react. rewrite vdot_vadd, vdot_vscale; [lra|].
  rewrite vscale_length; auto.
Qed.

Lemma react_conserves a r m : wf (length m) r -> balanced a r -> vdot a (react r m) == vdot a m.
Proof. intros W B. unfold balanced in B. rewrite react_dot by exact W. rewrite B. lra. Qed.

Lemma consumed_lemma r m : wf (length m) r -> normalised r ->
  nthq (react r m) (ridx r) == nthq m (ridx r) - X r * nthq m (ridx r) /\
  forall i, nthq (react r m) i == nthq m i + X r * nthq m (ridx r) * nthq (st r) i.
Proof.
  intros W Nr. unfold normalised in Nr. split.
  - rewrite nthq_react by exact W. rewrite Nr. lra.
  - intros i. rewrite nthq_react by exact W. lra.
Qed.

(* ---------- parallel: every extent is taken from the feed ---------- *)
Definition extent_sum (feed : vec) (rs : list rxn) (i : nat) : Q :=
  fold_right (fun r acc => nthq feed (ridx r) * X r * nthq (st r) i + acc) 0 rs.

Lemma parallel_from_spec feed rs : forall m, Forall (wf (length m)) rs ->
  length (react_parallel_from feed rs m) = length m /\
  (forall i, nthq (react_parallel_from feed rs m) i == nthq m i + extent_sum feed rs i) /\
  (forall a, Forall (balanced a) rs -> vdot a (react_parallel_from feed rs m) == vdot a m).
Proof.
  induction rs as [|r rs IH]; intros m W; simpl.
  - repeat split; auto; intros; lra.
  - inversion W as [|? ? Wr Wrs]; subst.
    assert (L : length (vadd m (vscale (nthq feed (ridx r) * X r) (st r))) = length m).
    { apply vadd_length. rewrite vscale_length. symmetry; exact Wr. }
    destruct (IH (vadd m (vscale (nthq feed (ridx r) * X r) (st r)))) as (L' & V & D).
    { rewrite L. exact Wrs. }
    split; [congruence|]. split.
    + intros i. rewrite V, nthq_vadd, nthq_vscale; [lra|]. rewrite vscale_length. symmetry; exact Wr.
    + intros a B. inversion B as [|? ? Br Brs]; subst. rewrite (D a Brs).
      rewrite vdot_vadd, vdot_vscale; [|rewrite vscale_length; symmetry; exact Wr].
      unfold balanced in Br. rewrite Br. lra.
Qed.

Lemma parallel_def_lemma rs m : Forall (wf (length m)) rs ->
  forall i, nthq (react_parallel rs m) i == nthq m i + extent_sum m rs i.
Proof. intros W. apply (parallel_from_spec m rs m W). Qed.

(* ---------- series: running composition ---------- *)
Lemma series_spec rs : forall m, Forall (wf (length m)) rs ->
  length (react_series rs m) = length m /\
  (forall a, Forall (balanced a) rs -> vdot a (react_series rs m) == vdot a m).
Proof.
  induction rs as [|r rs IH]; intros m W; simpl.
  - split; auto. intros; lra.
  - inversion W as [|? ? Wr Wrs]; subst.
    assert (L : length (react r m) = length m) by (apply react_length; exact Wr).
    destruct (IH (react r m)) as (L' & D). { rewrite L. exact Wrs. }
    unfold react_series in *. simpl. split; [congruence|].
    intros a B. inversion B as [|? ? Br Brs]; subst. rewrite (D a Brs).
    apply react_conserves; auto.
Qed.

Lemma series_def_lemma r rs m :
  react_series [] m = m /\ react_series (r :: rs) m = react_series rs (react r m).
Proof. split; reflexivity. Qed.

(* ---------- sets and systems ---------- *)
Definition rset_members (s : rset) : list rxn :=
  match s with Single r => [r] | Parallel rs => rs | Series rs => rs end.
Definition obj_members (o : robj) : list rxn :=
  match o with
  | Simple _ s => rset_members s
  | System _ ps => concat (map (fun p => rset_members (snd p)) ps)
  end.

Lemma rset_spec s m : Forall (wf (length m)) (rset_members s) ->
  length (react_rset s m) = length m /\
  (forall a, Forall (balanced a) (rset_members s) -> vdot a (react_rset s m) == vdot a m).
Proof.
  destruct s as [r|rs|rs]; simpl; intros W.
  - inversion W; subst. split; [apply react_length; auto|].
    intros a B. inversion B; subst. apply react_conserves; auto.
  - destruct (parallel_from_spec m rs m W) as (L & _ & D). split; auto.
  - apply series_spec; auto.
Qed.

Lemma parts_spec b ps : forall m, Forall (wf (length m)) (concat (map (fun p => rset_members (snd p)) ps)) ->
  length (fst (react_parts b ps m)) = length m /\
  (forall a, Forall (balanced a) (concat (map (fun p => rset_members (snd p)) ps)) ->
     vdot a (fst (react_parts b ps m)) == vdot a m).
Proof.
  induction ps as [|[pb s] ps IH]; intros m W; simpl.
  - split; auto. intros; lra.
  - simpl in W. apply Forall_app in W. destruct W as (Ws & Wps).
    destruct (rset_spec s m Ws) as (L & D).
    destruct (Bool.eqb pb b).
    + destruct (IH (react_rset s m)) as (L' & D'). { rewrite L; auto. }
      split; [congruence|]. intros a B. apply Forall_app in B. destruct B as (Bs & Bps).
      rewrite (D' a Bps). apply D; auto.
    + simpl. split; auto. intros; lra.
Qed.

(* whatever the object, and even when a ReactionSystem stops half way with a RuntimeError, the
   buffer keeps every linear functional that all member stoichiometries annihilate *)
Lemma react_obj_conserves o m a : Forall (wf (length m)) (obj_members o) ->
  Forall (balanced a) (obj_members o) ->
  length (fst (react_obj o m)) = length m /\ vdot a (fst (react_obj o m)) == vdot a m.
Proof.
  destruct o as [b s|b ps]; simpl; intros W B.
  - destruct (rset_spec s m W) as (L & D). split; auto.
  - destruct (parts_spec b ps m W) as (L & D). split; auto.
Qed.

Lemma system_def_lemma b s ps m :
  react_parts b [] m = (m, None) /\
  react_parts b ((b, s) :: ps) m = react_parts b ps (react_rset s m).
Proof. split; [reflexivity|]. simpl. rewrite Bool.eqb_reflx. reflexivity. Qed.

(* ---------- the feasibility step ---------- *)
Definition nonneg (v : vec) : Prop := forall i, 0 <= nthq v i.

Lemma nthq_cons_S x v i : nthq (x :: v) (S i) = nthq v i.
Proof. reflexivity. Qed.

Lemma nthq_clampv v i : nthq (clampv v) i = if qltb (nthq v i) 0 then 0 else nthq v i.
Proof.
  revert i. induction v as [|x v IH]; intros i.
  - simpl. rewrite nthq_nil. reflexivity.
  - destruct i; [reflexivity|]. simpl clampv. rewrite !nthq_cons_S. apply IH.
Qed.

Lemma clampv_length v : length (clampv v) = length v.
Proof. apply map_length. Qed.

Lemma clampv_nonneg v : nonneg (clampv v).
Proof.
  intros i. rewrite nthq_clampv. destruct (qltb (nthq v i) 0) eqn:E; [lra|].
  apply qltb_false in E. exact E.
Qed.

Lemma clampv_id v : nonneg v -> clampv v = v.
Proof.
  induction v as [|x v IH]; intros Nn; [reflexivity|]. simpl.
  assert (H0 := Nn O). unfold nthq in H0; simpl in H0.
  apply qltb_false in H0. rewrite H0. f_equal. apply IH.
  intros i. exact (Nn (S i)).
Qed.

Lemma neg_sum_nonpos v : neg_sum v <= 0.
Proof.
  unfold neg_sum. induction v as [|x v IH]; simpl; [lra|].
  assert (Qmin x 0 <= 0) by apply Q.le_min_r. lra.
Qed.

Lemma neg_sum_cons x v : neg_sum (x :: v) = Qmin x 0 + neg_sum v.
Proof. reflexivity. Qed.

Lemma clamp_step x : (if qltb x 0 then 0 else x) == x - Qmin x 0.
Proof.
  destruct (qltb x 0) eqn:E.
  - apply qltb_true in E. rewrite Q.min_l; lra.
  - apply qltb_false in E. rewrite Q.min_r; lra.
Qed.

(* a total weighted by [a] moves by at most amax * (sum of the removed negatives) *)
Lemma clampv_dot_bound amax : 0 <= amax -> forall a v, Forall (fun x => - amax <= x /\ x <= amax) a ->
  - (amax * - neg_sum v) <= vdot a (clampv v) - vdot a v /\
  vdot a (clampv v) - vdot a v <= amax * - neg_sum v.
Proof.
  intros Ha. induction a as [|x a IH]; intros v Ba.
  - rewrite !vdot_nil_l. assert (H := neg_sum_nonpos v). split; nra.
  - inversion Ba as [|? ? (Bl & Bu) Ba']; subst.
    destruct v as [|y v].
    + simpl clampv. rewrite !vdot_nil_r. unfold neg_sum; simpl. split; nra.
    + simpl clampv. rewrite !vdot_cons, neg_sum_cons.
      destruct (IH v Ba') as (I1 & I2).
      assert (S := clamp_step y). assert (M : Qmin y 0 <= 0) by apply Q.le_min_r.
      set (c := if qltb y 0 then 0 else y) in *.
      set (d := vdot a (clampv v) - vdot a v) in *.
      assert (E : x * c + vdot a (clampv v) - (x * y + vdot a v) == x * (c - y) + d) by (unfold d; ring).
      rewrite E. assert (Cy : c - y == - Qmin y 0) by lra. rewrite Cy.
      split; nra.
Qed.

Lemma clampv_sum v : qsum (clampv v) == qsum v - neg_sum v.
Proof.
  induction v as [|x v IH]; [unfold neg_sum; simpl; lra|].
  simpl clampv. simpl qsum. rewrite neg_sum_cons, IH, clamp_step. lra.
Qed.

Lemma process_ok o v v' : process o v = (None, v') ->
  snd (react_obj o v) = None /\ - eps <= neg_sum (fst (react_obj o v)) /\
  v' = clampv (fst (react_obj o v)).
Proof.
  unfold process. destruct (react_obj o v) as [v1 [e|]]; simpl; [discriminate|].
  destruct (qltb (neg_sum v1) (- eps)) eqn:E; [discriminate|].
  intros H; inversion H; subst. apply qltb_false in E. auto.
Qed.

Lemma eps_value : eps <= 10000000000000001 # 10000000000000000000000000000 /\ 0 < eps.
Proof. split; vm_compute; congruence. Qed.

(* ---------- streams: molar flows, mass view ---------- *)
Lemma vmul_length a b : length a = length b -> length (vmul a b) = length a.
Proof. apply map2_length. Qed.

Lemma nthq_map2_div a b i : length a = length b ->
  nthq (map2 Qdiv a b) i == nthq a i / nthq b i.
Proof.
  revert b i; induction a as [|x a IH]; intros [|y b] i H; simpl in *; try discriminate.
  - rewrite nthq_nil. unfold Qdiv. lra.
  - destruct i; unfold nthq in *; simpl; [lra|]. apply IH. lia.
Qed.

Lemma vdot_of_mass : forall a v w, vdot a (map2 Qdiv v w) == vdot (map2 Qdiv a w) v.
Proof.
  induction a as [|x a IH]; intros v w.
  - rewrite vdot_nil_l. simpl. rewrite vdot_nil_l. lra.
  - destruct v as [|y v]; [simpl; rewrite !vdot_nil_r; lra|].
    destruct w as [|z w]; [simpl; rewrite vdot_nil_r, vdot_nil_l; lra|].
    simpl map2. rewrite !vdot_cons, IH. unfold Qdiv. ring.
Qed.

Lemma vdot_div_mass : forall a mol w, length w = length mol -> Forall (fun x => ~ x == 0) w ->
  vdot (map2 Qdiv a w) (vmul mol w) == vdot a mol.
Proof.
  induction a as [|x a IH]; intros mol w L NZ.
  - simpl. rewrite !vdot_nil_l. lra.
  - destruct mol as [|y mol], w as [|z w]; simpl in L; try discriminate.
    + simpl. rewrite !vdot_nil_r. lra.
    + inversion NZ as [|? ? Nz NZ']; subst. unfold vmul in *. simpl map2. rewrite !vdot_cons.
      rewrite IH by (auto; lia). field. exact Nz.
Qed.

Lemma forall_pos_nthq w : Forall (fun x => 0 < x) w -> forall i, 0 <= nthq w i.
Proof.
  induction 1 as [|x w Hx Hw IH]; intros i.
  - rewrite nthq_nil. lra.
  - destruct i; unfold nthq in *; simpl; [lra|apply IH].
Qed.

Lemma forall_pos_nz w : Forall (fun x => 0 < x) w -> Forall (fun x => ~ x == 0) w.
Proof. apply Forall_impl. intros x H. lra. Qed.

Definition weights (o : robj) (w a : vec) : vec := if obasis o then map2 Qdiv a w else a.
Definition buffer (o : robj) (w mol : vec) : vec := if obasis o then to_mass w mol else mol.
Definition bounded (amax : Q) (a : vec) : Prop := Forall (fun x => - amax <= x /\ x <= amax) a.

Lemma call_stream_ok w o mol mol' : call_stream w o mol = (None, mol') ->
  process o (buffer o w mol) = (None, clampv (fst (react_obj o (buffer o w mol)))) /\
  mol' = (if obasis o then of_mass w (clampv (fst (react_obj o (buffer o w mol))))
          else clampv (fst (react_obj o (buffer o w mol)))).
Proof.
  unfold call_stream, buffer, via_mass. destruct (obasis o).
  - destruct (process o (to_mass w mol)) as [[e|] v] eqn:P; [discriminate|].
    intros H; inversion H; subst. destruct (process_ok _ _ _ P) as (_ & _ & ->). auto.
  - intros P. destruct (process_ok _ _ _ P) as (_ & _ & ->). auto.
Qed.

Lemma stream_conserved_lemma w o mol mol' a :
  length w = length mol -> Forall (fun x => ~ x == 0) w ->
  Forall (wf (length mol)) (obj_members o) ->
  Forall (balanced (weights o w a)) (obj_members o) ->
  call_stream w o mol = (None, mol') ->
  (nonneg (fst (react_obj o (buffer o w mol))) -> vdot a mol' == vdot a mol) /\
  (forall amax, 0 <= amax -> bounded amax (weights o w a) ->
     - (amax * eps) <= vdot a mol' - vdot a mol /\ vdot a mol' - vdot a mol <= amax * eps).
Proof.
  intros L NZ W B C. destruct (call_stream_ok _ _ _ _ C) as (P & E).
  destruct (process_ok _ _ _ P) as (_ & NS & _).
  assert (LB : length (buffer o w mol) = length mol).
  { unfold buffer, to_mass. destruct (obasis o); auto. apply vmul_length. auto. }
  assert (W' : Forall (wf (length (buffer o w mol))) (obj_members o)) by (rewrite LB; exact W).
  destruct (react_obj_conserves o (buffer o w mol) (weights o w a) W' B) as (Lv & D).
  set (v := fst (react_obj o (buffer o w mol))) in *.
  assert (Base : vdot (weights o w a) (buffer o w mol) == vdot a mol).
  { unfold weights, buffer, to_mass. destruct (obasis o); [|lra]. apply vdot_div_mass; auto. }
  assert (Res : vdot a mol' == vdot (weights o w a) (clampv v)).
  { rewrite E. unfold weights, of_mass. destruct (obasis o); [|lra]. apply vdot_of_mass. }
  split.
  - intros Nn. rewrite Res, (clampv_id v Nn), D, Base. lra.
  - intros amax Ha Bd. destruct (clampv_dot_bound amax Ha (weights o w a) v Bd) as (B1 & B2).
    assert (H := neg_sum_nonpos v). rewrite Res. rewrite <- Base, <- D. split; nra.
Qed.

Lemma nonneg_lemma w o mol mol' : length w = length mol -> Forall (fun x => 0 < x) w ->
  Forall (wf (length mol)) (obj_members o) ->
  call_stream w o mol = (None, mol') -> nonneg mol'.
Proof.
  intros L Pw W C. destruct (call_stream_ok _ _ _ _ C) as (_ & E). rewrite E.
  destruct (obasis o) eqn:Ob; [|apply clampv_nonneg].
  intros i. unfold of_mass. rewrite nthq_map2_div.
  - assert (H1 := clampv_nonneg (fst (react_obj o (buffer o w mol))) i).
    assert (H2 := forall_pos_nthq w Pw i).
    unfold Qdiv. apply Qmult_le_0_compat; auto. apply Qinv_le_0_compat; auto.
  - rewrite clampv_length.
    assert (LB : length (buffer o w mol) = length mol).
    { unfold buffer, to_mass. rewrite Ob. apply vmul_length. auto. }
    assert (W' : Forall (wf (length (buffer o w mol))) (obj_members o)) by (rewrite LB; exact W).
    destruct (react_obj_conserves o (buffer o w mol) [] W') as (Lv & _).
    { apply Forall_forall. intros r _. unfold balanced. rewrite vdot_nil_l. lra. }
    lia.
Qed.

(* the total flow (mass flow on a weight basis) grows by what the clamp removed, at most eps *)
Lemma clamp_total_lemma o v v' : process o v = (None, v') ->
  0 <= qsum v' - qsum (fst (react_obj o v)) /\ qsum v' - qsum (fst (react_obj o v)) <= eps.
Proof.
  intros P. destruct (process_ok _ _ _ P) as (_ & NS & ->). rewrite clampv_sum.
  assert (H := neg_sum_nonpos (fst (react_obj o v))). split; lra.
Qed.
