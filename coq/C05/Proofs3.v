(* C05 — nested reaction systems refine to flat ones *)
From V Require Import Common.NumFacts C05.Model C05.Proofs.

Section ntree_ind2.
  Variable P : ntree -> Prop.
  Hypothesis Hset : forall b s, P (NSet b s).
  Hypothesis Hsys : forall b ts, Forall P ts -> P (NSys b ts).
  Fixpoint ntree_ind2 (t : ntree) : P t :=
    match t with
    | NSet b s => Hset b s
    | NSys b ts => Hsys b ts ((fix go (l : list ntree) : Forall P l :=
                      match l with
                      | [] => Forall_nil P
                      | x :: r => Forall_cons x (ntree_ind2 x) (go r)
                      end) ts)
    end.
End ntree_ind2.

Fixpoint ngo (b : bool) (ts : list ntree) (m : vec) : vec * option err :=
  match ts with
  | [] => (m, None)
  | t :: rest =>
      if Bool.eqb (nbasis t) b then
        let (m', e) := nreact t m in
        match e with None => ngo b rest m' | Some e => (m', Some e) end
      else (m, Some ERuntime)
  end.

Lemma nreact_sys b ts : forall m, nreact (NSys b ts) m = ngo b ts m.
Proof.
  induction ts as [|t ts IH]; intros m; [reflexivity|].
  simpl. destruct (Bool.eqb (nbasis t) b); [|reflexivity].
  destruct (nreact t m) as [m' [e|]]; [reflexivity|]. apply IH.
Qed.

(* every node of the tree carries the basis b *)
Fixpoint nconsb (b : bool) (t : ntree) : bool :=
  match t with
  | NSet b' _ => Bool.eqb b' b
  | NSys b' ts => Bool.eqb b' b && forallb (nconsb b) ts
  end.

Lemma nconsb_basis b t : nconsb b t = true -> nbasis t = b.
Proof.
  destruct t as [b' s|b' ts]; simpl; intros H.
  - apply Bool.eqb_prop in H. exact H.
  - apply Bool.andb_true_iff in H. destruct H as (H & _). apply Bool.eqb_prop in H. exact H.
Qed.

Lemma react_parts_app b : forall l1 l2 m, react_parts b (l1 ++ l2) m =
  let (m', e) := react_parts b l1 m in
  match e with None => react_parts b l2 m' | Some e => (m', Some e) end.
Proof.
  induction l1 as [|[pb s] l1 IH]; intros l2 m; simpl; [reflexivity|].
  destruct (Bool.eqb pb b); [apply IH|reflexivity].
Qed.

Lemma nreact_flat b : forall t m, nconsb b t = true -> nreact t m = react_parts b (nflatten t) m.
Proof.
  induction t as [b0 s|b0 ts IHt] using ntree_ind2; intros m C.
  - simpl in *. rewrite C. reflexivity.
  - simpl in C. apply Bool.andb_true_iff in C. destruct C as (Cb & Cts). apply Bool.eqb_prop in Cb. subst b0.
    rewrite nreact_sys. simpl nflatten. revert m.
    induction ts as [|t ts IHts]; intros m; [reflexivity|].
    inversion IHt as [|? ? Ht Hts]; subst. simpl in Cts. apply Bool.andb_true_iff in Cts. destruct Cts as (Ct & Cts').
    assert (Eb : Bool.eqb (nbasis t) b = true) by (rewrite (nconsb_basis b t Ct); apply Bool.eqb_reflx).
    cbn [ngo flat_map]. rewrite Eb, react_parts_app, (Ht m Ct).
    destruct (react_parts b (nflatten t) m) as [m' [e|]]; [reflexivity|]. apply IHts; auto.
Qed.

Lemma nested_refines_lemma w b t mol v : nconsb b t = true ->
  nprocess t v = process (System b (nflatten t)) v /\
  ncall_stream w t mol = call_stream w (System b (nflatten t)) mol.
Proof.
  intros C.
  assert (P : forall u, nprocess t u = process (System b (nflatten t)) u).
  { intros u. unfold nprocess, process. simpl react_obj. rewrite (nreact_flat b t u C). reflexivity. }
  split; [apply P|]. unfold ncall_stream, call_stream, via_mass. simpl obasis.
  rewrite (nconsb_basis b t C). destruct b; rewrite ?P; reflexivity.
Qed.
