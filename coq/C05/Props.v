(* C05 — property theorems only.  Each is closed by [exact <lemma>] (or a two-line instance of one)
   and followed by Print Assumptions.
   Vocabulary: [w] molecular weights (tiled over the phases), [mol] molar flows of a stream
   (flattened phase-major), [a] any linear functional of the flows: a row of the formula matrix
   (atoms of one element per mole, tiled over the phases) or [w] itself (mass).
   [weights o w a] is that functional expressed on the quantity the object acts on (a/w on a weight
   basis), [buffer o w mol] that quantity (mass flows on a weight basis).  [balanced a r]: a . S_r = 0. *)
From V Require Import Common.NumFacts C05.Model C05.Proofs C05.Proofs2 C05.Proofs3.

(* atoms_conserved / mass_conserved for streams, any object (reaction, parallel, series, system),
   either basis, phase-less or phase-tagged: exact when the clamp did not fire, and always within
   amax*eps, eps being the double nearest 1e-12 *)
Theorem C05_stream_conserved : forall w o mol mol' a,
  length w = length mol -> Forall (fun x => ~ x == 0) w ->
  Forall (wf (length mol)) (obj_members o) ->
  Forall (balanced (weights o w a)) (obj_members o) ->
  call_stream w o mol = (None, mol') ->
  (nonneg (fst (react_obj o (buffer o w mol))) -> vdot a mol' == vdot a mol) /\
  (forall amax, 0 <= amax -> bounded amax (weights o w a) ->
     - (amax * eps) <= vdot a mol' - vdot a mol /\ vdot a mol' - vdot a mol <= amax * eps).
Proof. exact stream_conserved_lemma. Qed.
Print Assumptions C05_stream_conserved.

(* mass on a molar basis: MW . S = 0 for every member *)
Theorem C05_mass_conserved_mol : forall w o mol mol',
  obasis o = false -> length w = length mol -> Forall (fun x => ~ x == 0) w ->
  Forall (wf (length mol)) (obj_members o) -> Forall (balanced w) (obj_members o) ->
  call_stream w o mol = (None, mol') -> nonneg (fst (react_obj o mol)) ->
  vdot w mol' == vdot w mol.
Proof. exact mass_conserved_mol_lemma. Qed.
Print Assumptions C05_mass_conserved_mol.

(* mass on a weight basis: the coefficients of every member sum to zero *)
Theorem C05_mass_conserved_wt : forall w o mol mol',
  obasis o = true -> length w = length mol -> Forall (fun x => ~ x == 0) w ->
  Forall (wf (length mol)) (obj_members o) -> Forall (fun r => qsum (st r) == 0) (obj_members o) ->
  call_stream w o mol = (None, mol') -> nonneg (fst (react_obj o (to_mass w mol))) ->
  vdot w mol' == vdot w mol.
Proof. exact mass_conserved_wt_lemma. Qed.
Print Assumptions C05_mass_conserved_wt.

(* the same for bare arrays (numpy / SparseVector / SparseArray reacted as they are) *)
Theorem C05_array_conserved : forall o v v' a,
  Forall (wf (length v)) (obj_members o) -> Forall (balanced a) (obj_members o) ->
  process o v = (None, v') ->
  (nonneg (fst (react_obj o v)) -> vdot a v' == vdot a v) /\
  (forall amax, 0 <= amax -> bounded amax a ->
     - (amax * eps) <= vdot a v' - vdot a v /\ vdot a v' - vdot a v <= amax * eps) /\
  nonneg v'.
Proof. exact process_conserved. Qed.
Print Assumptions C05_array_conserved.

Theorem C05_array_routes : forall pt w o a, len_ok o a = true ->
  call pt w o (MSparse a) = process o a /\
  call pt w o (MNumpy a) = (match fst (process o a) with None => process o a | Some e => (Some e, a) end) /\
  forall mol, call pt w o (MMassView mol) = via_mass w o mol.
Proof. exact array_routes_lemma. Qed.
Print Assumptions C05_array_routes.

(* even when a ReactionSystem raises half way, what has been applied conserves *)
Theorem C05_values_conserved : forall o m a,
  Forall (wf (length m)) (obj_members o) -> Forall (balanced a) (obj_members o) ->
  length (fst (react_obj o m)) = length m /\ vdot a (fst (react_obj o m)) == vdot a m.
Proof. exact react_obj_conserves. Qed.
Print Assumptions C05_values_conserved.

(* consumed: exactly X*feed of the reactant, the others in stoichiometric proportion *)
Theorem C05_consumed : forall r m, wf (length m) r -> normalised r ->
  nthq (react r m) (ridx r) == nthq m (ridx r) - X r * nthq m (ridx r) /\
  forall i, nthq (react r m) i == nthq m i + X r * nthq m (ridx r) * nthq (st r) i.
Proof. exact consumed_lemma. Qed.
Print Assumptions C05_consumed.

(* every constructed reaction is normalised (Reaction.__init__ ends with _rescale) *)
Theorem C05_constructed_normalised : forall is_str n P ts reactant x w ph r,
  mk_reaction is_str n P ts reactant x w ph = Ok r -> normalised r.
Proof. exact constructed_normalised_lemma. Qed.
Print Assumptions C05_constructed_normalised.

(* parallel reactions act on the feed composition, series reactions on the running composition,
   a system applies its parts one after the other *)
Theorem C05_parallel_def : forall rs m, Forall (wf (length m)) rs ->
  forall i, nthq (react_parallel rs m) i == nthq m i + extent_sum m rs i.
Proof. exact parallel_def_lemma. Qed.
Print Assumptions C05_parallel_def.

Theorem C05_series_def : forall r rs m,
  react_series [] m = m /\ react_series (r :: rs) m = react_series rs (react r m).
Proof. exact series_def_lemma. Qed.
Print Assumptions C05_series_def.

Theorem C05_system_def : forall b s ps m,
  react_parts b [] m = (m, None) /\
  react_parts b ((b, s) :: ps) m = react_parts b ps (react_rset s m).
Proof. exact system_def_lemma. Qed.
Print Assumptions C05_system_def.

(* basis_equiv: the molar object and its per-mass version leave the same stream *)
Theorem C05_basis_equiv : forall w o o' mol m1 m2,
  obj_wt_of w o o' -> length w = length mol -> Forall (fun x => 0 < x) w ->
  Forall (wf (length mol)) (obj_members o) ->
  call_stream w o mol = (None, m1) -> call_stream w o' mol = (None, m2) ->
  length m1 = length m2 /\ forall i, nthq m1 i == nthq m2 i.
Proof. exact basis_equiv_lemma. Qed.
Print Assumptions C05_basis_equiv.

(* ... and set_reaction_basis produces exactly that per-mass version *)
Theorem C05_rebase_is_wt_of : forall w r r', wt r = false -> normalised r -> length (st r) = length w ->
  ~ nthq w (ridx r) == 0 -> set_basis w r true = Ok r' -> wt_of w r r'.
Proof. exact set_basis_wt_of. Qed.
Print Assumptions C05_rebase_is_wt_of.

(* nonneg_or_raise *)
Theorem C05_nonneg_or_raise : forall w o mol mol', length w = length mol -> Forall (fun x => 0 < x) w ->
  Forall (wf (length mol)) (obj_members o) ->
  call_stream w o mol = (None, mol') -> nonneg mol'.
Proof. exact nonneg_lemma. Qed.
Print Assumptions C05_nonneg_or_raise.

Theorem C05_infeasible_raises : forall o v, snd (react_obj o v) = None ->
  neg_sum (fst (react_obj o v)) < - eps -> process o v = (Some EInfeasible, fst (react_obj o v)).
Proof. exact infeasible_lemma. Qed.
Print Assumptions C05_infeasible_raises.

Theorem C05_clamp_total : forall o v v', process o v = (None, v') ->
  0 <= qsum v' - qsum (fst (react_obj o v)) /\ qsum v' - qsum (fst (react_obj o v)) <= eps.
Proof. exact clamp_total_lemma. Qed.
Print Assumptions C05_clamp_total.

Theorem C05_eps_is_1e12 : eps <= 10000000000000001 # 10000000000000000000000000000 /\ 0 < eps.
Proof. exact eps_value. Qed.
Print Assumptions C05_eps_is_1e12.

(* ---------- a phase-less Reaction called with a MultiStream ---------- *)
(* the statement the property makes for that call ... *)
Definition C05_multistream_nophase_statement : Prop :=
  forall w r P mol mol', length w = length mol -> Forall (fun x => 0 < x) w ->
    length mol = (P * length (st r))%nat -> normalised r ->
    (* balanced in every phase row *)
    vdot (firstn (length (st r)) w) (st r) == 0 ->
    call_multi_nophase w r P mol = (None, mol') -> vdot w mol' == vdot w mol.

Definition exW : vec := [16; 28; 32; 44; 18; 2; 46; 28].
Definition exR : rxn := mkrxn [-1; 0; -2; 1; 2; 0; 0; 0] 0 (1 # 2) false [].
Definition exMulti : vec := [4; 0; 16; 1; 1; 0; 0; 0; 2; 0; 32; 1; 1; 0; 0; 0].

(* ... is refuted by the model of the code as it is: 1756 kg/hr go in, 748 come out, no exception *)
Theorem C05_multistream_nophase_refuted : ~ C05_multistream_nophase_statement.
Proof.
  intros H.
  pose (res := snd (call_multi_nophase (exW ++ exW) exR 2 exMulti)).
  specialize (H (exW ++ exW) exR 2%nat exMulti res).
  assert (E : ~ vdot (exW ++ exW) res == vdot (exW ++ exW) exMulti) by (vm_compute; congruence).
  apply E. apply H.
  - reflexivity.
  - unfold exW; simpl. repeat (apply Forall_cons; [reflexivity|]). apply Forall_nil.
  - reflexivity.
  - vm_compute. reflexivity.
  - vm_compute. reflexivity.
  - vm_compute. reflexivity.
Qed.
Print Assumptions C05_multistream_nophase_refuted.
(* the part that holds is C05_stream_conserved: streams whose phases fit the reaction (a phase-less
   reaction with a single-phase Stream, a phase-tagged one with a MultiStream of the same phases). *)

(* ---------- non-vacuity ---------- *)
Definition exMol : vec := [4; 0; 16; 0; 1; 0; 0; 0].
Definition exObj : robj := Simple false (Parallel [exR; mkrxn [0; -1; -3; 2; 2; 0; 0; 0] 1 (1 # 4) false []]).

Example C05_nonvacuous_conserved :
  length exW = length exMol /\ Forall (fun x => 0 < x) exW /\
  Forall (wf (length exMol)) (obj_members exObj) /\
  Forall (balanced (weights exObj exW exW)) (obj_members exObj) /\
  Forall (balanced (weights exObj exW [1; 2; 0; 1; 0; 0; 2; 1])) (obj_members exObj) /\
  exists mol', call_stream exW exObj exMol = (None, mol') /\ nonneg (fst (react_obj exObj (buffer exObj exW exMol))).
Proof.
  split; [reflexivity|]. split; [unfold exW; repeat (apply Forall_cons; [reflexivity|]); apply Forall_nil|].
  split; [repeat constructor|]. split; [repeat constructor; vm_compute; reflexivity|].
  split; [repeat constructor; vm_compute; reflexivity|].
  eexists. split; [vm_compute; reflexivity|].
  intros i. do 9 (destruct i as [|i]; [vm_compute; congruence|]). vm_compute. destruct i; congruence.
Qed.

Example C05_nonvacuous_basis_equiv :
  exists r' m1 m2, set_basis exW exR true = Ok r' /\
    obj_wt_of exW (Simple false (Single exR)) (Simple true (Single r')) /\
    call_stream exW (Simple false (Single exR)) exMol = (None, m1) /\
    call_stream exW (Simple true (Single r')) exMol = (None, m2).
Proof.
  destruct (set_basis exW exR true) as [r'|e] eqn:E; [|vm_compute in E; discriminate].
  exists r'. eexists. eexists. split; [reflexivity|]. split.
  - constructor. constructor. apply set_basis_wt_of; auto; try reflexivity; vm_compute; congruence.
  - vm_compute in E. inversion E; subst. split; vm_compute; reflexivity.
Qed.

Example C05_nonvacuous_infeasible :
  process (Simple false (Single (mkrxn [-1; 0; -2; 1; 2; 0; 0; 0] 0 1 false []))) [4; 0; 2; 0; 1; 0; 0; 0]
  = (Some EInfeasible, [0; 0; -6; 4; 9; 0; 0; 0]).
Proof. vm_compute. reflexivity. Qed.

(* ---------- histories on copies of a set's members ---------- *)
(* The members of a set / system are read from heap cells 0..n-1.  Any history of: item or
   slice-item copy (with or without re-basing), backwards of an item, and basis setter / copy /
   backwards of the reactions so obtained, leaves the object exactly as it was ... *)
Theorem C05_history_set_unchanged : forall mws o ops, fst (fst (hist_run mws o ops)) = o.
Proof. exact history_lemma. Qed.
Print Assumptions C05_history_set_unchanged.

(* ... hence applying it afterwards to any material equals applying the original *)
Theorem C05_history_then_apply : forall mws o ops pt w m,
  call pt w (fst (fst (hist_run mws o ops))) m = call pt w o m.
Proof. exact history_then_apply_lemma. Qed.
Print Assumptions C05_history_then_apply.

(* every reaction obtained during the history owns an array of its own (a cell above the set's) *)
Theorem C05_history_derived_fresh : forall mws o ops,
  let l := flat_members o in
  let f := fst (hrun mws (hrefs_from 0 l) (mkhs (map st l) []) ops) in
  Forall (fun d => (length l <= hcell d < length (hp f))%nat) (derived f).
Proof. exact history_derived_fresh. Qed.
Print Assumptions C05_history_derived_fresh.

(* non-vacuity: a history in which every step succeeds and re-bases / reverses copies *)
Example C05_nonvacuous_history :
  let ops := [HItemCopy 0 0 (Some true); HItemCopy 1 0 None; HSetBasis 1 true;
              HItemBackwards 0 (Some 3%nat) None; HBackwards 0 (Some 4%nat) (Some (1 # 2))] in
  snd (fst (hist_run exW exObj ops)) = [true; true; true; true; true] /\
  length (snd (hist_run exW exObj ops)) = 4%nat /\
  fst (fst (hist_run exW exObj ops)) = exObj.
Proof. vm_compute. repeat split. Qed.

(* a system whose member was re-based after construction raises RuntimeError on a stream: it can
   not return with weight coefficients applied to molar flows *)
Theorem C05_system_mixed_basis_raises : forall w b ps mol, Exists (fun p => fst p <> b) ps ->
  fst (call_stream w (System b ps) mol) = Some ERuntime.
Proof. exact mixed_basis_call_lemma. Qed.
Print Assumptions C05_system_mixed_basis_raises.

(* ---------- index remapping between packages ---------- *)
(* [targets tbl] are the indices a table writes to; [wmap aT tbl] is the functional that [aT]
   induces on the source side (same chemical, same weight).  A remap under an injective table
   carries every weighted sum over. *)
Theorem C05_remap_dot : forall aT size tbl d res,
  NoDup (targets tbl) -> (forall i, In i (targets tbl) -> (i < size)%nat) ->
  remap size tbl d = Ok res ->
  length res = size /\ vdot aT res == vdot (wmap aT tbl) d.
Proof. exact remap_dot. Qed.
Print Assumptions C05_remap_dot.

(* Reaction / ReactionSet.reset_chemicals: the reaction moved to another package keeps conversion,
   basis and phases, its reactant is the same chemical, and it annihilates [aT] there exactly when it
   annihilated the corresponding functional at home (so C05_stream_conserved applies on the new package) *)
Theorem C05_retarget_balanced : forall aT size tbl r r',
  NoDup (targets tbl) -> (forall i, In i (targets tbl) -> (i < size)%nat) ->
  retarget size tbl r = Ok r' ->
  length (st r') = size /\ X r' = X r /\ wt r' = wt r /\ phases r' = phases r /\
  nth (ridx r) tbl None = Some (ridx r') /\
  vdot aT (st r') == vdot (wmap aT tbl) (st r).
Proof. exact retarget_balanced_lemma. Qed.
Print Assumptions C05_retarget_balanced.

(* a stream on another package: the flows are carried to the reaction's package, reacted there as a
   stream of that package (C05_stream_conserved, C05_nonneg_or_raise apply to that step) and carried
   back; corresponding functionals (atoms, mass of the same chemicals) read the same on both sides *)
Theorem C05_other_package : forall w o nA fwd bwd mol mol' aA aB,
  NoDup (targets fwd) -> (forall i, In i (targets fwd) -> (i < nA)%nat) ->
  NoDup (targets bwd) -> (forall i, In i (targets bwd) -> (i < length mol)%nat) ->
  length fwd = length mol -> length bwd = nA -> length aB = length mol -> length aA = nA ->
  (forall j i, nth j fwd (Some O) = Some i -> (j < length fwd)%nat -> nthq aA i == nthq aB j) ->
  (forall i j, nth i bwd (Some O) = Some j -> (i < length bwd)%nat -> nthq aB j == nthq aA i) ->
  call_other w o nA fwd bwd mol = (None, mol') ->
  exists a a', remap nA fwd mol = Ok a /\ call_stream w o a = (None, a') /\
    vdot aA a == vdot aB mol /\ vdot aB mol' == vdot aA a'.
Proof. exact other_package_lemma. Qed.
Print Assumptions C05_other_package.

Example C05_nonvacuous_retarget :
  exists r', retarget 3 [Some 2%nat; None; Some 0%nat; Some 1%nat] (mkrxn [-1; 0; -2; 1] 0 (1 # 2) false []) = Ok r'
    /\ st r' = [-2; 1; -1] /\ ridx r' = 2%nat /\ NoDup (targets [Some 2%nat; None; Some 0%nat; Some 1%nat]).
Proof.
  eexists. split; [vm_compute; reflexivity|]. simpl. repeat split.
  repeat constructor; simpl; intuition lia.
Qed.

(* correct_atomic_balance: whatever the linear solver returns (an oracle), the corrected reaction has
   reactant coefficient -1 because the method ends with _rescale; with C05_consumed it therefore converts
   exactly X of its reactant.  Nothing else in the store changes. *)
Theorem C05_cab_normalised : forall mws s d n formula consts Aobs bobs sol s',
  do_cab mws s d n formula consts Aobs bobs sol = Ok s' ->
  (hcell d < length (hp s))%nat ->
  normalised (as_rxn (hp s') d) /\ derived s' = derived s.
Proof. exact cab_normalised_lemma. Qed.
Print Assumptions C05_cab_normalised.

(* ====================================================================================== *)
(* Deepening round *)

(* correct_atomic_balance, the linear solve being an oracle with the contract "what it returns satisfies the
   equations it was given" (A x = b).  For EVERY such solver: the molar coefficients after the solve are
   annihilated by every row of the formula array (rows the code drops from the system included) ... *)
Theorem C05_cab_solution_balanced : forall solver n formula mws r consts v,
  solver_contract solver -> NoDup (cab_consts n r consts) ->
  cab_solve solver n formula mws r consts = Ok v ->
  length v = length (cab_by_mol n mws r) /\ Forall (fun F => vdot F v == 0) formula.
Proof. exact cab_solve_balanced. Qed.
Print Assumptions C05_cab_solution_balanced.

(* ... and the corrected phase-less reaction (coefficients written back, times MW on a weight basis, then _rescale)
   is atomically balanced in the sense C05_stream_conserved needs, on either basis; it keeps reactant, conversion,
   basis and is normalised (C05_cab_applied_normalised), so C05_consumed applies to it too *)
Theorem C05_cab_balanced : forall solver n formula mws r consts r',
  solver_contract solver -> NoDup (cab_consts n r consts) ->
  phases r = [] -> length (st r) = n -> length mws = n -> Forall (fun x => ~ x == 0) mws ->
  cab_apply solver n formula mws r consts = Ok r' ->
  Forall (fun F => balanced (row_weights (wt r) mws F) r') formula.
Proof. exact cab_apply_balanced_phaseless. Qed.
Print Assumptions C05_cab_balanced.

Theorem C05_cab_applied_normalised : forall solver n formula mws r consts r',
  cab_apply solver n formula mws r consts = Ok r' ->
  normalised r' /\ ridx r' = ridx r /\ X r' = X r /\ wt r' = wt r /\ phases r' = phases r /\
  length (st r') = length (st r).
Proof. exact cab_apply_normalised. Qed.
Print Assumptions C05_cab_applied_normalised.

(* non-vacuity: CH4 + O2 -> H2O + CO2 (unbalanced as written) with an exact solver answer *)
Definition exFormula : list vec := [[1; 2; 0; 1; 0; 0; 2; 1]; [4; 4; 0; 0; 2; 2; 6; 0]; [0; 0; 2; 2; 1; 0; 1; 1]].
Definition exUnb : rxn := mkrxn [-1; 0; -1; 1; 1; 0; 0; 0] 0 1 false [].
Example C05_nonvacuous_cab :
  let solver := fun (_ : list vec) (_ : vec) => Some [-2; 1; 2] in
  solves (cab_A (cab_rows exFormula (cab_by_mol 8 exW exUnb)) (cab_unknown (cab_by_mol 8 exW exUnb) (cab_consts 8 exUnb None)))
         (cab_b (cab_rows exFormula (cab_by_mol 8 exW exUnb)) (cab_by_mol 8 exW exUnb) (cab_consts 8 exUnb None)) [-2; 1; 2] /\
  exists r', cab_apply solver 8 exFormula exW exUnb None = Ok r' /\ veqb (st r') [-1; 0; -2; 1; 2; 0; 0; 0] = true.
Proof.
  split.
  - vm_compute. repeat constructor.
  - eexists. split; [vm_compute; reflexivity|]. vm_compute. reflexivity.
Qed.

(* when exactly each basis raises InfeasibleRegion on a stream: the molar object when the negative MOLAR flows sum
   below -eps, its per-mass version when the negative flows WEIGHTED BY THE MOLECULAR WEIGHTS do; the two sums are
   within the factors min MW and max MW of each other (so with every MW >= 1 the weight basis raises whenever the
   molar one does, and never unless the molar negatives exceed eps / max MW) *)
Theorem C05_threshold_mol_vs_wt : forall w o o' mol,
  obj_wt_of w o o' -> length w = length mol -> Forall (fun x => 0 < x) w ->
  Forall (wf (length mol)) (obj_members o) ->
  let v := fst (react_obj o mol) in
  snd (react_obj o' (to_mass w mol)) = snd (react_obj o mol) /\
  (fst (call_stream w o mol) = Some EInfeasible <-> snd (react_obj o mol) = None /\ neg_sum v < - eps) /\
  (fst (call_stream w o' mol) = Some EInfeasible <-> snd (react_obj o mol) = None /\ wneg_sum w v < - eps) /\
  (forall lo hi, Forall (fun x => lo <= x /\ x <= hi) w -> 0 <= lo ->
     hi * neg_sum v <= wneg_sum w v /\ wneg_sum w v <= lo * neg_sum v).
Proof. exact threshold_lemma. Qed.
Print Assumptions C05_threshold_mol_vs_wt.

Theorem C05_raises_iff : forall w o mol,
  (fst (call_stream w o mol) = Some EInfeasible <->
   snd (react_obj o (buffer o w mol)) = None /\ neg_sum (fst (react_obj o (buffer o w mol))) < - eps) /\
  (fst (call_stream w o mol) = None <->
   snd (react_obj o (buffer o w mol)) = None /\ - eps <= neg_sum (fst (react_obj o (buffer o w mol)))).
Proof. intros. split; [apply stream_raises_iff | apply stream_returns_iff]. Qed.
Print Assumptions C05_raises_iff.

(* the clause "both bases give the same result on a stream", read as "both raise or both return", ... *)
Definition C05_same_outcome_statement : Prop :=
  forall w o o' mol, obj_wt_of w o o' -> length w = length mol -> Forall (fun x => 0 < x) w ->
    Forall (wf (length mol)) (obj_members o) ->
    fst (call_stream w o mol) = fst (call_stream w o' mol).

(* ... fails inside the window: CH4 + 2 O2 -> CO2 + 2 H2O at X = 1 with O2 short by 2^-41 kmol/hr returns on the molar
   basis (-4.5e-13 kmol/hr is clipped) and raises on the weight basis (-1.5e-11 kg/hr) *)
Definition exR1 : rxn := mkrxn [-1; 0; -2; 1; 2; 0; 0; 0] 0 1 false [].
Definition exR1w : rxn := mkrxn [-1; 0; -4; 11 # 4; 9 # 4; 0; 0; 0] 0 1 true [].
Definition exShort : vec := [1; 0; 2 - (1 # 2199023255552); 0; 0; 0; 0; 0].
Theorem C05_same_outcome_refuted : ~ C05_same_outcome_statement.
Proof.
  intros H.
  specialize (H exW (Simple false (Single exR1)) (Simple true (Single exR1w)) exShort).
  assert (E : fst (call_stream exW (Simple false (Single exR1)) exShort)
              <> fst (call_stream exW (Simple true (Single exR1w)) exShort)) by (vm_compute; discriminate).
  apply E. apply H.
  - constructor. constructor. unfold wt_of. simpl. repeat split; try reflexivity.
    + vm_compute. discriminate.
    + intros i. do 8 (destruct i as [|i]; [vm_compute; reflexivity|]). unfold nthq; simpl. destruct i; reflexivity.
  - reflexivity.
  - unfold exW. repeat (apply Forall_cons; [reflexivity|]). apply Forall_nil.
  - repeat constructor.
Qed.
Print Assumptions C05_same_outcome_refuted.

(* streams of another package: the full-state model agrees with C05_other_package's when the call returns, ... *)
Theorem C05_other_full_refines : forall w o nA fwd bwd mol,
  fst (fst (call_other_full w o nA fwd bwd mol)) = fst (call_other w o nA fwd bwd mol) /\
  (fst (call_other w o nA fwd bwd mol) = None ->
   call_other_full w o nA fwd bwd mol = (None, snd (call_other w o nA fwd bwd mol), false)).
Proof. exact other_full_refines. Qed.
Print Assumptions C05_other_full_refines.

(* ... and after an exception of the reaction itself the stream holds data on the REACTION's package (its indexer
   refers to the reaction's chemicals): the remapped feed on a weight basis, the (partly) reacted buffer on a molar
   basis; atoms and mass read the same on it as on the feed.  Nothing else is promised: the stream's own package
   is not restored. *)
Theorem C05_other_exception_state : forall w o nA fwd bwd mol e d lay aA aB,
  NoDup (targets fwd) -> (forall i, In i (targets fwd) -> (i < nA)%nat) ->
  length fwd = length mol -> length aB = length mol -> length aA = nA ->
  (forall j i, nth j fwd (Some O) = Some i -> (j < length fwd)%nat -> nthq aA i == nthq aB j) ->
  Forall (wf nA) (obj_members o) -> Forall (balanced aA) (obj_members o) ->
  call_other_full w o nA fwd bwd mol = (Some e, d, lay) -> e <> EKey ->
  lay = true /\ length d = nA /\ vdot aA d == vdot aB mol /\
  exists a, remap nA fwd mol = Ok a /\ d = (if obasis o then a else fst (react_obj o a)).
Proof. exact other_full_exception. Qed.
Print Assumptions C05_other_exception_state.

Example C05_nonvacuous_other_exception :
  call_other_full [16; 32; 44] (Simple false (Single (mkrxn [-1; -2; 1] 0 1 false []))) 3
    [Some 1%nat; Some 0%nat] [Some 1%nat; Some 0%nat; None] [1; 4]
  = (Some EInfeasible, [0; -7; 4], true).
Proof. vm_compute. reflexivity. Qed.

(* force_reaction: when no flow would become negative it does exactly what __call__ does ... *)
Theorem C05_force_feasible : forall lg o v, snd (react_obj o v) = None -> nonneg (fst (react_obj o v)) ->
  force_process lg o v = (None, fst (react_obj o v)) /\ process o v = (None, fst (react_obj o v)).
Proof. exact force_feasible. Qed.
Print Assumptions C05_force_feasible.

(* the repaired clean-up (pending_fixes/C05_3, flag legacy = false): force_reaction changes only entries that the reaction
   left negative, each to 0, so a functional with non-negative weights that the members annihilate (mass, atoms of one
   element) can only grow, by no more than the weighted negatives removed *)
Theorem C05_force_repaired : forall o v v' a,
  Forall (wf (length v)) (obj_members o) -> Forall (balanced a) (obj_members o) ->
  (forall i, 0 <= nthq a i) ->
  force_process false o v = (None, v') ->
  let v1 := fst (react_obj o v) in
  length v' = length v /\
  (forall i, nthq v' i = nthq v1 i \/ (nthq v1 i < 0 /\ nthq v' i = 0)) /\
  0 <= vdot a v' - vdot a v /\ vdot a v' - vdot a v <= - wneg_sum a v1.
Proof. exact force_repaired_lemma. Qed.
Print Assumptions C05_force_repaired.

(* on the witness of the legacy defect the repaired definition keeps the methane *)
Example C05_nonvacuous_force_repaired :
  exists v', force_process false (Simple false (Single (mkrxn [0; 0; -1; 0; 2; -2; 0; 0] 2 1 false [])))
               [1152921504606846976; 1; 1; 1; 1; 2 - (1 # 1024); 1; 1] = (None, v') /\
             veqb v' [1152921504606846976; 1; 0; 1; 3; 0; 1; 1] = true.
Proof. eexists. split; [vm_compute; reflexivity|]. vm_compute. reflexivity. Qed.

(* ... but for the UNREPAIRED code (legacy = true) "force_reaction conserves every functional the members annihilate" ... *)
Definition C05_force_conserves_statement : Prop :=
  forall o v v' a, Forall (wf (length v)) (obj_members o) -> Forall (balanced a) (obj_members o) ->
    force_process true o v = (None, v') ->
    (forall i, nthq v' i < 0 -> nthq v' i == nthq (fst (react_obj o v)) i) ->   (* negatives it kept are the computed ones *)
    forall amax, 0 <= amax -> bounded amax a -> - (amax * eps) <= vdot a v' - vdot a v <= amax * eps.

(* ... is refuted by the code as it is: O2 + 2 H2 -> 2 H2O at X = 1 with H2 short by 2^-10 next to 2^60 kmol/hr of
   inert CH4: the negative H2 flow is negligible against the total, and the mask meant for it deletes entry 0, the CH4 *)
Definition exForceR : rxn := mkrxn [0; 0; -1; 0; 2; -2; 0; 0] 2 1 false [].
Definition exForceFeed : vec := [1152921504606846976; 1; 1; 1; 1; 2 - (1 # 1024); 1; 1].
Theorem C05_force_conserves_refuted : ~ C05_force_conserves_statement.
Proof.
  intros H.
  remember (snd (force_process true (Simple false (Single exForceR)) exForceFeed)) as v' eqn:Ev.
  assert (G : - (46 * eps) <= vdot exW v' - vdot exW exForceFeed <= 46 * eps).
  { refine (H (Simple false (Single exForceR)) exForceFeed v' exW _ _ _ _ 46 _ _).
    - repeat constructor.
    - repeat constructor; vm_compute; reflexivity.
    - rewrite Ev. vm_compute. reflexivity.
    - rewrite Ev. intros i. do 8 (destruct i as [|i]; [vm_compute; try congruence; intros; reflexivity|]).
      unfold nthq; simpl. destruct i; vm_compute; congruence.
    - vm_compute. congruence.
    - unfold bounded, exW. repeat (apply Forall_cons; [split; vm_compute; congruence|]). apply Forall_nil. }
  destruct G as (G1 & _). rewrite Ev in G1. vm_compute in G1. apply G1. reflexivity.
Qed.
Print Assumptions C05_force_conserves_refuted.

(* conversion(material): the returned change is react - feed entry by entry and carries no atoms and no mass *)
Theorem C05_conversion_def : forall o m c, Forall (wf (length m)) (obj_members o) -> conv_obj o m = Ok c ->
  length c = length m /\ forall i, nthq c i == nthq (fst (react_obj o m)) i - nthq m i.
Proof. exact conv_obj_spec. Qed.
Print Assumptions C05_conversion_def.

Theorem C05_conversion_balanced : forall o m c a,
  Forall (wf (length m)) (obj_members o) -> Forall (balanced a) (obj_members o) ->
  conv_obj o m = Ok c -> vdot a c == 0.
Proof. exact conversion_balanced. Qed.
Print Assumptions C05_conversion_balanced.

(* nested reaction systems: a tree of ReactionSystem objects all of whose nodes carry the basis b acts exactly like the
   flat ReactionSystem of its leaves in order, in _reaction, in the feasibility step and on streams of either basis;
   every theorem above about System objects (conservation, non-negativity, basis equivalence, thresholds) therefore
   holds for nested systems *)
Theorem C05_nested_refines : forall w b t mol v, nconsb b t = true ->
  nreact t v = react_parts b (nflatten t) v /\
  nprocess t v = process (System b (nflatten t)) v /\
  ncall_stream w t mol = call_stream w (System b (nflatten t)) mol.
Proof.
  intros w b t mol v C. split; [apply nreact_flat; exact C|]. apply (nested_refines_lemma w b t mol v C).
Qed.
Print Assumptions C05_nested_refines.

Example C05_nonvacuous_nested :
  let t := NSys false [NSys false [NSet false (Single exR); NSet false (Parallel [exR])]; NSet false (Single exR)] in
  nconsb false t = true /\ nflatten t = [(false, Single exR); (false, Parallel [exR]); (false, Single exR)] /\
  fst (ncall_stream exW t exMol) = None.
Proof. vm_compute. repeat split. Qed.
