(* C05 — property theorems only.  Each is closed by [exact <lemma>] (or a two-line instance of one)
   and followed by Print Assumptions.
   Vocabulary: [w] molecular weights (tiled over the phases), [mol] molar flows of a stream
   (flattened phase-major), [a] any linear functional of the flows: a row of the formula matrix
   (atoms of one element per mole, tiled over the phases) or [w] itself (mass).
   [weights o w a] is that functional expressed on the quantity the object acts on (a/w on a weight
   basis), [buffer o w mol] that quantity (mass flows on a weight basis).  [balanced a r]: a . S_r = 0. *)
From V Require Import Common.NumFacts C05.Model C05.Proofs.

(* atoms_conserved / mass_conserved for streams, any object (reaction, parallel, series, system),
   either basis, phase-less or phase-tagged: exact when the clamp did not fire, and always within
   amax*eps, eps being the double nearest 1e-12 *)
Theorem C05_stream_conserved : forall w o mol mol' a,
  length w = length mol -> Forall (fun x => ~ x == 0) w ->
  Forall (wf (length mol)) (obj_members o) ->
  Forall (balanced (weights o w a)) (obj_members o) ->
  call_stream w o mol = (None, mol') ->
  (nonneg (fst (react_obj o (buffer o w mol))) -> vdot a mol' == vdot a mol) /\
  (forall amax, 0 <= amax -> bounded amax (weights o w a) ->
     - (amax * eps) <= vdot a mol' - vdot a mol /\ vdot a mol' - vdot a mol <= amax * eps).
Proof. exact stream_conserved_lemma. Qed.
Print Assumptions C05_stream_conserved.

(* mass on a molar basis: MW . S = 0 for every member *)
Theorem C05_mass_conserved_mol : forall w o mol mol',
  obasis o = false -> length w = length mol -> Forall (fun x => ~ x == 0) w ->
  Forall (wf (length mol)) (obj_members o) -> Forall (balanced w) (obj_members o) ->
  call_stream w o mol = (None, mol') -> nonneg (fst (react_obj o mol)) ->
  vdot w mol' == vdot w mol.
Proof. exact mass_conserved_mol_lemma. Qed.
Print Assumptions C05_mass_conserved_mol.

(* mass on a weight basis: the coefficients of every member sum to zero *)
Theorem C05_mass_conserved_wt : forall w o mol mol',
  obasis o = true -> length w = length mol -> Forall (fun x => ~ x == 0) w ->
  Forall (wf (length mol)) (obj_members o) -> Forall (fun r => qsum (st r) == 0) (obj_members o) ->
  call_stream w o mol = (None, mol') -> nonneg (fst (react_obj o (to_mass w mol))) ->
  vdot w mol' == vdot w mol.
Proof. exact mass_conserved_wt_lemma. Qed.
Print Assumptions C05_mass_conserved_wt.

(* the same for bare arrays (numpy / SparseVector / SparseArray reacted as they are) *)
Theorem C05_array_conserved : forall o v v' a,
  Forall (wf (length v)) (obj_members o) -> Forall (balanced a) (obj_members o) ->
  process o v = (None, v') ->
  (nonneg (fst (react_obj o v)) -> vdot a v' == vdot a v) /\
  (forall amax, 0 <= amax -> bounded amax a ->
     - (amax * eps) <= vdot a v' - vdot a v /\ vdot a v' - vdot a v <= amax * eps) /\
  nonneg v'.
Proof. exact process_conserved. Qed.
Print Assumptions C05_array_conserved.

Theorem C05_array_routes : forall pt w o a, len_ok o a = true ->
  call pt w o (MSparse a) = process o a /\
  call pt w o (MNumpy a) = (match fst (process o a) with None => process o a | Some e => (Some e, a) end) /\
  forall mol, call pt w o (MMassView mol) = via_mass w o mol.
Proof. exact array_routes_lemma. Qed.
Print Assumptions C05_array_routes.

(* even when a ReactionSystem raises half way, what has been applied conserves *)
Theorem C05_values_conserved : forall o m a,
  Forall (wf (length m)) (obj_members o) -> Forall (balanced a) (obj_members o) ->
  length (fst (react_obj o m)) = length m /\ vdot a (fst (react_obj o m)) == vdot a m.
Proof. exact react_obj_conserves. Qed.
Print Assumptions C05_values_conserved.

(* consumed: exactly X*feed of the reactant, the others in stoichiometric proportion *)
Theorem C05_consumed : forall r m, wf (length m) r -> normalised r ->
  nthq (react r m) (ridx r) == nthq m (ridx r) - X r * nthq m (ridx r) /\
  forall i, nthq (react r m) i == nthq m i + X r * nthq m (ridx r) * nthq (st r) i.
Proof. exact consumed_lemma. Qed.
Print Assumptions C05_consumed.

(* every constructed reaction is normalised (Reaction.__init__ ends with _rescale) *)
Theorem C05_constructed_normalised : forall is_str n P ts reactant x w ph r,
  mk_reaction is_str n P ts reactant x w ph = Ok r -> normalised r.
Proof. exact constructed_normalised_lemma. Qed.
Print Assumptions C05_constructed_normalised.

(* parallel reactions act on the feed composition, series reactions on the running composition,
   a system applies its parts one after the other *)
Theorem C05_parallel_def : forall rs m, Forall (wf (length m)) rs ->
  forall i, nthq (react_parallel rs m) i == nthq m i + extent_sum m rs i.
Proof. exact parallel_def_lemma. Qed.
Print Assumptions C05_parallel_def.

Theorem C05_series_def : forall r rs m,
  react_series [] m = m /\ react_series (r :: rs) m = react_series rs (react r m).
Proof. exact series_def_lemma. Qed.
Print Assumptions C05_series_def.

Theorem C05_system_def : forall b s ps m,
  react_parts b [] m = (m, None) /\
  react_parts b ((b, s) :: ps) m = react_parts b ps (react_rset s m).
Proof. exact system_def_lemma. Qed.
Print Assumptions C05_system_def.

(* basis_equiv: the molar object and its per-mass version leave the same stream *)
Theorem C05_basis_equiv : forall w o o' mol m1 m2,
  obj_wt_of w o o' -> length w = length mol -> Forall (fun x => 0 < x) w ->
  Forall (wf (length mol)) (obj_members o) ->
  call_stream w o mol = (None, m1) -> call_stream w o' mol = (None, m2) ->
  length m1 = length m2 /\ forall i, nthq m1 i == nthq m2 i.
Proof. exact basis_equiv_lemma. Qed.
Print Assumptions C05_basis_equiv.

(* ... and set_reaction_basis produces exactly that per-mass version *)
Theorem C05_rebase_is_wt_of : forall w r r', wt r = false -> normalised r -> length (st r) = length w ->
  ~ nthq w (ridx r) == 0 -> set_basis w r true = Ok r' -> wt_of w r r'.
Proof. exact set_basis_wt_of. Qed.
Print Assumptions C05_rebase_is_wt_of.

(* nonneg_or_raise *)
Theorem C05_nonneg_or_raise : forall w o mol mol', length w = length mol -> Forall (fun x => 0 < x) w ->
  Forall (wf (length mol)) (obj_members o) ->
  call_stream w o mol = (None, mol') -> nonneg mol'.
Proof. exact nonneg_lemma. Qed.
Print Assumptions C05_nonneg_or_raise.

Theorem C05_infeasible_raises : forall o v, snd (react_obj o v) = None ->
  neg_sum (fst (react_obj o v)) < - eps -> process o v = (Some EInfeasible, fst (react_obj o v)).
Proof. exact infeasible_lemma. Qed.
Print Assumptions C05_infeasible_raises.

Theorem C05_clamp_total : forall o v v', process o v = (None, v') ->
  0 <= qsum v' - qsum (fst (react_obj o v)) /\ qsum v' - qsum (fst (react_obj o v)) <= eps.
Proof. exact clamp_total_lemma. Qed.
Print Assumptions C05_clamp_total.

Theorem C05_eps_is_1e12 : eps <= 10000000000000001 # 10000000000000000000000000000 /\ 0 < eps.
Proof. exact eps_value. Qed.
Print Assumptions C05_eps_is_1e12.

(* ---------- a phase-less Reaction called with a MultiStream ---------- *)
(* the statement the property makes for that call ... *)
Definition C05_multistream_nophase_statement : Prop :=
  forall w r P mol mol', length w = length mol -> Forall (fun x => 0 < x) w ->
    length mol = (P * length (st r))%nat -> normalised r ->
    (* balanced in every phase row *)
    vdot (firstn (length (st r)) w) (st r) == 0 ->
    call_multi_nophase w r P mol = (None, mol') -> vdot w mol' == vdot w mol.

Definition exW : vec := [16; 28; 32; 44; 18; 2; 46; 28].
Definition exR : rxn := mkrxn [-1; 0; -2; 1; 2; 0; 0; 0] 0 (1 # 2) false [].
Definition exMulti : vec := [4; 0; 16; 1; 1; 0; 0; 0; 2; 0; 32; 1; 1; 0; 0; 0].

(* ... is refuted by the model of the code as it is: 1756 kg/hr go in, 748 come out, no exception *)
Theorem C05_multistream_nophase_refuted : ~ C05_multistream_nophase_statement.
Proof.
  intros H.
  pose (res := snd (call_multi_nophase (exW ++ exW) exR 2 exMulti)).
  specialize (H (exW ++ exW) exR 2%nat exMulti res).
  assert (E : ~ vdot (exW ++ exW) res == vdot (exW ++ exW) exMulti) by (vm_compute; congruence).
  apply E. apply H.
  - reflexivity.
  - unfold exW; simpl. repeat (apply Forall_cons; [reflexivity|]). apply Forall_nil.
  - reflexivity.
  - vm_compute. reflexivity.
  - vm_compute. reflexivity.
  - vm_compute. reflexivity.
Qed.
Print Assumptions C05_multistream_nophase_refuted.
(* the part that holds is C05_stream_conserved: streams whose phases fit the reaction (a phase-less
   reaction with a single-phase Stream, a phase-tagged one with a MultiStream of the same phases). *)

(* ---------- non-vacuity ---------- *)
Definition exMol : vec := [4; 0; 16; 0; 1; 0; 0; 0].
Definition exObj : robj := Simple false (Parallel [exR; mkrxn [0; -1; -3; 2; 2; 0; 0; 0] 1 (1 # 4) false []]).

Example C05_nonvacuous_conserved :
  length exW = length exMol /\ Forall (fun x => 0 < x) exW /\
  Forall (wf (length exMol)) (obj_members exObj) /\
  Forall (balanced (weights exObj exW exW)) (obj_members exObj) /\
  Forall (balanced (weights exObj exW [1; 2; 0; 1; 0; 0; 2; 1])) (obj_members exObj) /\
  exists mol', call_stream exW exObj exMol = (None, mol') /\ nonneg (fst (react_obj exObj (buffer exObj exW exMol))).
Proof.
  split; [reflexivity|]. split; [unfold exW; repeat (apply Forall_cons; [reflexivity|]); apply Forall_nil|].
  split; [repeat constructor|]. split; [repeat constructor; vm_compute; reflexivity|].
  split; [repeat constructor; vm_compute; reflexivity|].
  eexists. split; [vm_compute; reflexivity|].
  intros i. do 9 (destruct i as [|i]; [vm_compute; congruence|]). vm_compute. destruct i; congruence.
Qed.

Example C05_nonvacuous_basis_equiv :
  exists r' m1 m2, set_basis exW exR true = Ok r' /\
    obj_wt_of exW (Simple false (Single exR)) (Simple true (Single r')) /\
    call_stream exW (Simple false (Single exR)) exMol = (None, m1) /\
    call_stream exW (Simple true (Single r')) exMol = (None, m2).
Proof.
  destruct (set_basis exW exR true) as [r'|e] eqn:E; [|vm_compute in E; discriminate].
  exists r'. eexists. eexists. split; [reflexivity|]. split.
  - constructor. constructor. apply set_basis_wt_of; auto; try reflexivity; vm_compute; congruence.
  - vm_compute in E. inversion E; subst. split; vm_compute; reflexivity.
Qed.

Example C05_nonvacuous_infeasible :
  process (Simple false (Single (mkrxn [-1; 0; -2; 1; 2; 0; 0; 0] 0 1 false []))) [4; 0; 2; 0; 1; 0; 0; 0]
  = (Some EInfeasible, [0; 0; -6; 4; 9; 0; 0; 0]).
Proof. vm_compute. reflexivity. Qed.

(* ---------- histories on copies of a set's members ---------- *)
(* The members of a set / system are read from heap cells 0..n-1.  Any history of: item or
   slice-item copy (with or without re-basing), backwards of an item, and basis setter / copy /
   backwards of the reactions so obtained, leaves the object exactly as it was ... *)
Theorem C05_history_set_unchanged : forall mws o ops, fst (fst (hist_run mws o ops)) = o.
Proof. exact history_lemma. Qed.
Print Assumptions C05_history_set_unchanged.

(* ... hence applying it afterwards to any material equals applying the original *)
Theorem C05_history_then_apply : forall mws o ops pt w m,
  call pt w (fst (fst (hist_run mws o ops))) m = call pt w o m.
Proof. exact history_then_apply_lemma. Qed.
Print Assumptions C05_history_then_apply.

(* every reaction obtained during the history owns an array of its own (a cell above the set's) *)
Theorem C05_history_derived_fresh : forall mws o ops,
  let l := flat_members o in
  let f := fst (hrun mws (hrefs_from 0 l) (mkhs (map st l) []) ops) in
  Forall (fun d => (length l <= hcell d < length (hp f))%nat) (derived f).
Proof. exact history_derived_fresh. Qed.
Print Assumptions C05_history_derived_fresh.

(* non-vacuity: a history in which every step succeeds and re-bases / reverses copies *)
Example C05_nonvacuous_history :
  let ops := [HItemCopy 0 0 (Some true); HItemCopy 1 0 None; HSetBasis 1 true;
              HItemBackwards 0 (Some 3%nat) None; HBackwards 0 (Some 4%nat) (Some (1 # 2))] in
  snd (fst (hist_run exW exObj ops)) = [true; true; true; true; true] /\
  length (snd (hist_run exW exObj ops)) = 4%nat /\
  fst (fst (hist_run exW exObj ops)) = exObj.
Proof. vm_compute. repeat split. Qed.

(* a system whose member was re-based after construction raises RuntimeError on a stream: it can
   not return with weight coefficients applied to molar flows *)
Theorem C05_system_mixed_basis_raises : forall w b ps mol, Exists (fun p => fst p <> b) ps ->
  fst (call_stream w (System b ps) mol) = Some ERuntime.
Proof. exact mixed_basis_call_lemma. Qed.
Print Assumptions C05_system_mixed_basis_raises.

(* ---------- index remapping between packages ---------- *)
(* [targets tbl] are the indices a table writes to; [wmap aT tbl] is the functional that [aT]
   induces on the source side (same chemical, same weight).  A remap under an injective table
   carries every weighted sum over. *)
Theorem C05_remap_dot : forall aT size tbl d res,
  NoDup (targets tbl) -> (forall i, In i (targets tbl) -> (i < size)%nat) ->
  remap size tbl d = Ok res ->
  length res = size /\ vdot aT res == vdot (wmap aT tbl) d.
Proof. exact remap_dot. Qed.
Print Assumptions C05_remap_dot.

(* Reaction / ReactionSet.reset_chemicals: the reaction moved to another package keeps conversion,
   basis and phases, its reactant is the same chemical, and it annihilates [aT] there exactly when it
   annihilated the corresponding functional at home (so C05_stream_conserved applies on the new package) *)
Theorem C05_retarget_balanced : forall aT size tbl r r',
  NoDup (targets tbl) -> (forall i, In i (targets tbl) -> (i < size)%nat) ->
  retarget size tbl r = Ok r' ->
  length (st r') = size /\ X r' = X r /\ wt r' = wt r /\ phases r' = phases r /\
  nth (ridx r) tbl None = Some (ridx r') /\
  vdot aT (st r') == vdot (wmap aT tbl) (st r).
Proof. exact retarget_balanced_lemma. Qed.
Print Assumptions C05_retarget_balanced.

(* a stream on another package: the flows are carried to the reaction's package, reacted there as a
   stream of that package (C05_stream_conserved, C05_nonneg_or_raise apply to that step) and carried
   back; corresponding functionals (atoms, mass of the same chemicals) read the same on both sides *)
Theorem C05_other_package : forall w o nA fwd bwd mol mol' aA aB,
  NoDup (targets fwd) -> (forall i, In i (targets fwd) -> (i < nA)%nat) ->
  NoDup (targets bwd) -> (forall i, In i (targets bwd) -> (i < length mol)%nat) ->
  length fwd = length mol -> length bwd = nA -> length aB = length mol -> length aA = nA ->
  (forall j i, nth j fwd (Some O) = Some i -> (j < length fwd)%nat -> nthq aA i == nthq aB j) ->
  (forall i j, nth i bwd (Some O) = Some j -> (i < length bwd)%nat -> nthq aB j == nthq aA i) ->
  call_other w o nA fwd bwd mol = (None, mol') ->
  exists a a', remap nA fwd mol = Ok a /\ call_stream w o a = (None, a') /\
    vdot aA a == vdot aB mol /\ vdot aB mol' == vdot aA a'.
Proof. exact other_package_lemma. Qed.
Print Assumptions C05_other_package.

Example C05_nonvacuous_retarget :
  exists r', retarget 3 [Some 2%nat; None; Some 0%nat; Some 1%nat] (mkrxn [-1; 0; -2; 1] 0 (1 # 2) false []) = Ok r'
    /\ st r' = [-2; 1; -1] /\ ridx r' = 2%nat /\ NoDup (targets [Some 2%nat; None; Some 0%nat; Some 1%nat]).
Proof.
  eexists. split; [vm_compute; reflexivity|]. simpl. repeat split.
  repeat constructor; simpl; intuition lia.
Qed.

(* correct_atomic_balance: whatever the linear solver returns (an oracle), the corrected reaction has
   reactant coefficient -1 because the method ends with _rescale; with C05_consumed it therefore converts
   exactly X of its reactant.  Nothing else in the store changes. *)
Theorem C05_cab_normalised : forall mws s d n formula consts Aobs bobs sol s',
  do_cab mws s d n formula consts Aobs bobs sol = Ok s' ->
  (hcell d < length (hp s))%nat ->
  normalised (as_rxn (hp s') d) /\ derived s' = derived s.
Proof. exact cab_normalised_lemma. Qed.
Print Assumptions C05_cab_normalised.
