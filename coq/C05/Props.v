From V Require Import Common.NumFacts C05.Model C05.Proofs.
