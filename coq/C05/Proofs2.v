(* C05 — lemmas of the deepening round: correct_atomic_balance with the linear solve as an oracle,
   the error thresholds of the two bases, the state left behind by an exception on another package,
   nested reaction systems, force_reaction and conversion. *)
From V Require Import Common.NumFacts C05.Model C05.Proofs.

(* ====================================================================================== *)
(* finite sums over index lists *)
Definition sumf (g : nat -> Q) (l : list nat) : Q := qsum (map g l).

Lemma sumf_cons g a l : sumf g (a :: l) = g a + sumf g l.
Proof. reflexivity. Qed.

Lemma sumf_app g l1 l2 : sumf g (l1 ++ l2) == sumf g l1 + sumf g l2.
Proof.
  induction l1 as [|a l1 IH]; simpl.
  - unfold sumf at 2. simpl. lra.
  - rewrite !sumf_cons, IH. lra.
Qed.

Lemma sumf_ext g h l : (forall j, In j l -> g j == h j) -> sumf g l == sumf h l.
Proof.
  induction l as [|a l IH]; intros H; [reflexivity|].
  rewrite !sumf_cons. rewrite IH by (intros j Hj; apply H; simpl; auto).
  rewrite (H a) by (simpl; auto). reflexivity.
Qed.

Lemma sumf_plus g h l : sumf (fun j => g j + h j) l == sumf g l + sumf h l.
Proof.
  induction l as [|a l IH]; [unfold sumf; simpl; lra|]. rewrite !sumf_cons, IH. lra.
Qed.

Lemma sumf_zero g l : (forall j, In j l -> g j == 0) -> sumf g l == 0.
Proof.
  induction l as [|a l IH]; intros H; [reflexivity|].
  rewrite sumf_cons. rewrite IH by (intros j Hj; apply H; simpl; auto).
  rewrite (H a) by (simpl; auto). lra.
Qed.

Lemma sumf_filter g p l : sumf g (filter p l) == sumf (fun j => if p j then g j else 0) l.
Proof.
  induction l as [|a l IH]; [reflexivity|]. simpl filter. rewrite sumf_cons.
  destruct (p a); [rewrite sumf_cons, IH; lra | rewrite IH; lra].
Qed.

Lemma sumf_split g p l : sumf g l == sumf g (filter p l) + sumf g (filter (fun j => negb (p j)) l).
Proof.
  induction l as [|a l IH]; [unfold sumf; simpl; lra|]. simpl filter. rewrite sumf_cons.
  destruct (p a); simpl negb; cbv iota; rewrite !sumf_cons || idtac; rewrite IH; try rewrite sumf_cons; lra.
Qed.

Lemma sumf_map_S g l : sumf g (map S l) = sumf (fun j => g (S j)) l.
Proof. unfold sumf. rewrite map_map. reflexivity. Qed.

Lemma vdot_seq : forall v F, vdot F v == sumf (fun j => nthq F j * nthq v j) (seq 0 (length v)).
Proof.
  induction v as [|x v IH]; intros F.
  - rewrite vdot_nil_r. reflexivity.
  - simpl length. simpl seq. rewrite <- seq_shift, sumf_cons, sumf_map_S.
    destruct F as [|f F].
    + rewrite vdot_nil_l. rewrite sumf_zero; [rewrite nthq_nil; lra|]. intros j _. rewrite nthq_nil. lra.
    + rewrite vdot_cons, (IH F). unfold nthq at 3 4. simpl nth.
      assert (E : sumf (fun j => nthq (f :: F) (S j) * nthq (x :: v) (S j)) (seq 0 (length v))
                  == sumf (fun j => nthq F j * nthq v j) (seq 0 (length v))).
      { apply sumf_ext. intros j _. rewrite !nthq_cons_S. reflexivity. }
      rewrite E. lra.
Qed.

Lemma sumf_single g c n :
  sumf (fun j => if Nat.eqb j c then g j else 0) (seq 0 n) == if Nat.ltb c n then g c else 0.
Proof.
  induction n as [|n IH]; [reflexivity|].
  rewrite seq_S, sumf_app, IH. simpl plus. unfold sumf at 1. simpl.
  destruct (Nat.eqb n c) eqn:E.
  - apply Nat.eqb_eq in E. subst c.
    assert (L1 : Nat.ltb n n = false) by (apply Nat.ltb_ge; lia).
    assert (L2 : Nat.ltb n (S n) = true) by (apply Nat.ltb_lt; lia).
    rewrite L1, L2. lra.
  - apply Nat.eqb_neq in E.
    destruct (Nat.ltb c n) eqn:L.
    + apply Nat.ltb_lt in L. assert (L2 : Nat.ltb c (S n) = true) by (apply Nat.ltb_lt; lia). rewrite L2. lra.
    + apply Nat.ltb_ge in L. assert (L2 : Nat.ltb c (S n) = false) by (apply Nat.ltb_ge; lia). rewrite L2. lra.
Qed.

Lemma mem_nat_In j l : mem_nat j l = true <-> In j l.
Proof.
  unfold mem_nat. rewrite existsb_exists. split.
  - intros (x & Hx & E). apply Nat.eqb_eq in E. subst. auto.
  - intros H. exists j. split; auto. apply Nat.eqb_refl.
Qed.

Lemma sumf_mem g l n : NoDup l -> (forall c, (n <= c)%nat -> g c == 0) ->
  sumf (fun j => if mem_nat j l then g j else 0) (seq 0 n) == sumf g l.
Proof.
  intros ND Z. induction ND as [|c l Hc ND IH].
  - simpl. apply sumf_zero. intros j _. reflexivity.
  - rewrite sumf_cons, <- IH.
    assert (E : sumf (fun j => if mem_nat j (c :: l) then g j else 0) (seq 0 n)
                == sumf (fun j => (if Nat.eqb j c then g j else 0) + (if mem_nat j l then g j else 0)) (seq 0 n)).
    { apply sumf_ext. intros j _. unfold mem_nat at 1. simpl existsb. fold (mem_nat j l).
      destruct (Nat.eqb j c) eqn:E; simpl orb.
      - apply Nat.eqb_eq in E. subst j.
        destruct (mem_nat c l) eqn:M; [apply mem_nat_In in M; contradiction|]. lra.
      - lra. }
    rewrite E, sumf_plus, sumf_single.
    destruct (Nat.ltb c n) eqn:L; [lra|]. apply Nat.ltb_ge in L. rewrite (Z c L). lra.
Qed.

(* ====================================================================================== *)
(* scatter: by_mol[chemical_index] = x *)
Lemma scatter_dot F : forall U x v, NoDup U -> (forall i, In i U -> (i < length v)%nat) ->
  length x = length U ->
  length (scatter v U x) = length v /\
  vdot F (scatter v U x) == vdot F v + vdot (map (nthq F) U) x - sumf (fun j => nthq F j * nthq v j) U.
Proof.
  induction U as [|i U IH]; intros x v ND B L.
  - simpl. split; auto. rewrite vdot_nil_l. unfold sumf. simpl. lra.
  - destruct x as [|y x]; [simpl in L; discriminate|]. simpl in L. simpl scatter.
    inversion ND as [|? ? Hi ND']; subst.
    destruct (IH x (upd v i y) ND') as (Ls & D).
    { intros j Hj. rewrite upd_length. apply B. simpl; auto. }
    { lia. }
    rewrite upd_length in Ls. split; auto.
    rewrite D. simpl map. rewrite vdot_cons, sumf_cons.
    rewrite upd_dot by (apply B; simpl; auto).
    assert (E : sumf (fun j => nthq F j * nthq (upd v i y) j) U == sumf (fun j => nthq F j * nthq v j) U).
    { apply sumf_ext. intros j Hj. rewrite nth_upd_other; [reflexivity|]. intros ->. contradiction. }
    rewrite E. ring.
Qed.

Lemma nthq_vmul_gen : forall a b i, nthq (vmul a b) i == nthq a i * nthq b i.
Proof.
  induction a as [|x a IH]; intros b i.
  - simpl. rewrite !nthq_nil. ring.
  - destruct b as [|y b]; [simpl; rewrite !nthq_nil; ring|].
    destruct i as [|i]; [unfold nthq; simpl; reflexivity|].
    unfold vmul. simpl map2. rewrite !nthq_cons_S. apply IH.
Qed.

Lemma any_nonzero_false v : any_nonzero v = false -> forall i, nthq v i == 0.
Proof.
  unfold any_nonzero. induction v as [|x v IH]; intros H i; [rewrite nthq_nil; lra|].
  simpl in H. apply Bool.orb_false_iff in H. destruct H as (Hx & Hv).
  destruct i as [|i]; [|rewrite nthq_cons_S; auto].
  unfold nthq; simpl. apply Bool.negb_false_iff in Hx. apply qzerob_true in Hx. exact Hx.
Qed.

Lemma vdot_zero_l : forall a x, Forall (fun y => y == 0) a -> vdot a x == 0.
Proof.
  induction a as [|y a IH]; intros x H; [rewrite vdot_nil_l; lra|].
  destruct x as [|z x]; [rewrite vdot_nil_r; lra|]. inversion H; subst.
  rewrite vdot_cons, IH by auto. rewrite H2. ring.
Qed.

Lemma nthq_overflow (v : vec) c : (length v <= c)%nat -> nthq v c = 0.
Proof. intros H. unfold nthq. apply nth_overflow. exact H. Qed.

(* one row of the formula array after the unknown coefficients have been replaced by a solution of
   that row's equation (rows that the code drops hold only zeros against the stoichiometry) *)
Lemma cab_row_balanced F v0 cs x :
  NoDup cs -> length x = length (cab_unknown v0 cs) ->
  (any_nonzero (vmul F v0) = true ->
   vdot (map (nthq F) (cab_unknown v0 cs)) x == - qsum (map (fun c => nthq F c * nthq v0 c) cs)) ->
  length (scatter v0 (cab_unknown v0 cs) x) = length v0 /\
  vdot F (scatter v0 (cab_unknown v0 cs) x) == 0.
Proof.
  intros ND L Eq.
  set (p := fun j => negb (qzerob (nthq v0 j)) && negb (mem_nat j cs)).
  set (U := cab_unknown v0 cs) in *.
  assert (HU : U = filter p (seq 0 (length v0))) by reflexivity.
  assert (NDU : NoDup U) by (rewrite HU; apply NoDup_filter, seq_NoDup).
  assert (BU : forall i, In i U -> (i < length v0)%nat).
  { intros i Hi. rewrite HU in Hi. apply filter_In in Hi. destruct Hi as (Hi & _). apply in_seq in Hi. lia. }
  destruct (scatter_dot F U x v0 NDU BU L) as (Ls & D). split; auto.
  set (g := fun j => nthq F j * nthq v0 j) in *.
  assert (S1 : vdot F v0 == sumf g U + sumf g cs).
  { rewrite vdot_seq. fold g. rewrite (sumf_split g p), <- HU.
    rewrite sumf_filter.
    assert (E : sumf (fun j => if negb (p j) then g j else 0) (seq 0 (length v0))
                == sumf (fun j => if mem_nat j cs then g j else 0) (seq 0 (length v0))).
    { apply sumf_ext. intros j _. unfold p.
      destruct (qzerob (nthq v0 j)) eqn:Z; destruct (mem_nat j cs); simpl; try lra.
      apply qzerob_true in Z. unfold g. rewrite Z. ring. }
    rewrite E, sumf_mem; auto; [lra|].
    intros c Hc. unfold g. rewrite (nthq_overflow v0 c Hc). ring. }
  rewrite D. fold g. rewrite S1.
  destruct (any_nonzero (vmul F v0)) eqn:AN.
  - rewrite (Eq eq_refl). unfold sumf. fold g. lra.
  - assert (Zg : forall j, g j == 0).
    { intros j. unfold g. rewrite <- nthq_vmul_gen. apply any_nonzero_false. exact AN. }
    rewrite (sumf_zero g cs) by (intros; apply Zg).
    rewrite vdot_zero_l; [lra|].
    apply Forall_forall. intros y Hy. apply in_map_iff in Hy. destruct Hy as (j & <- & Hj).
    rewrite HU in Hj. apply filter_In in Hj. destruct Hj as (_ & Pj). unfold p in Pj.
    apply Bool.andb_true_iff in Pj. destruct Pj as (Nz & _). apply Bool.negb_true_iff in Nz.
    apply qzerob_false in Nz. specialize (Zg j). unfold g in Zg.
    destruct (Qeq_dec (nthq F j) 0) as [E0|N0]; auto. exfalso. apply Nz.
    assert (H : nthq v0 j == (nthq F j * nthq v0 j) / nthq F j) by (field; exact N0).
    rewrite H, Zg. field. exact N0.
Qed.

(* the contract of the linear solver: what it returns satisfies every equation it was given *)
Definition solves (A : list vec) (b x : vec) : Prop := Forall2 (fun row bi => vdot row x == bi) A b.
Definition solver_contract (solver : list vec -> vec -> option vec) : Prop :=
  forall A b x, solver A b = Some x -> solves A b x.

Lemma Forall2_map_same {T} (R : vec -> Q -> Prop) (f : T -> vec) (h : T -> Q) (l : list T) :
  Forall2 R (map f l) (map h l) -> forall a, In a l -> R (f a) (h a).
Proof.
  induction l as [|y l IH]; intros H a Ha; [contradiction|].
  simpl in H. inversion H; subst. destruct Ha as [->|Ha]; auto.
Qed.

Lemma cab_solve_balanced solver n formula mws r consts v :
  solver_contract solver -> NoDup (cab_consts n r consts) ->
  cab_solve solver n formula mws r consts = Ok v ->
  length v = length (cab_by_mol n mws r) /\ Forall (fun F => vdot F v == 0) formula.
Proof.
  intros SC ND. unfold cab_solve.
  set (v0 := cab_by_mol n mws r). set (cs := cab_consts n r consts) in *.
  destruct (solver _ _) as [x|] eqn:S; [|discriminate].
  destruct (Nat.eqb (length x) (length (cab_unknown v0 cs))) eqn:L; [|discriminate].
  apply Nat.eqb_eq in L. intros H; inversion H; subst v; clear H.
  apply SC in S. unfold solves, cab_A, cab_b in S.
  split.
  - destruct (cab_row_balanced [] v0 cs x ND L) as (Ls & _); auto.
    intros AN. simpl in AN. discriminate AN.
  - apply Forall_forall. intros F HF.
    destruct (cab_row_balanced F v0 cs x ND L) as (_ & D); auto.
    intros AN.
    assert (HR : In F (cab_rows formula v0)) by (unfold cab_rows; apply filter_In; auto).
    exact (Forall2_map_same (fun row bi => vdot row x == bi)
             (fun F => map (nthq F) (cab_unknown v0 cs))
             (fun F => - qsum (map (fun c => nthq F c * nthq v0 c) cs)) _ S F HR).
Qed.

(* ---------- the corrected reaction is balanced: phase-less reactions ---------- *)
Lemma vdot_ext_r : forall (a u v : vec), length u = length v -> (forall i, nthq u i == nthq v i) ->
  vdot a u == vdot a v.
Proof.
  induction a as [|x a IH]; intros u v L H; [rewrite !vdot_nil_l; lra|].
  destruct u as [|y u]; destruct v as [|z v]; simpl in L; try discriminate; [rewrite !vdot_nil_r; lra|].
  rewrite !vdot_cons. rewrite (IH u v) by (auto; intros i; exact (H (S i))).
  assert (H0 := H O). unfold nthq in H0; simpl in H0. rewrite H0. lra.
Qed.

Lemma vdot_vdivs a s k : ~ k == 0 -> vdot a (vdivs s k) == vdot a s / k.
Proof.
  intros Hk. revert a. induction s as [|x s IH]; intros a.
  - simpl. rewrite !vdot_nil_r. field. exact Hk.
  - destruct a as [|y a]; [rewrite !vdot_nil_l; field; exact Hk|].
    simpl vdivs. rewrite !vdot_cons, IH. field. exact Hk.
Qed.

Lemma cab_fill_length n pt v : forall old k, length (cab_fill n pt v old k) = length old.
Proof. induction old as [|x t IH]; intros k; simpl; auto. Qed.

Lemma cab_fill_nth n pt v : forall old k i, (i < length old)%nat ->
  nthq (cab_fill n pt v old k) i = if pt && qzerob (nthq old i) then 0 else nthq v (Nat.modulo (k + i) n).
Proof.
  induction old as [|x t IH]; intros k i L; simpl in L; [lia|].
  destruct i as [|i]; simpl cab_fill.
  - unfold nthq at 1 2. simpl nth. rewrite Nat.add_0_r. reflexivity.
  - rewrite !nthq_cons_S. rewrite IH by lia. replace (S k + i)%nat with (k + S i)%nat by lia. reflexivity.
Qed.

Lemma rescale_balanced a r r' : rescale r = Ok r' -> balanced a r -> balanced a r'.
Proof.
  unfold rescale, balanced. destruct (qzerob _) eqn:Z; [discriminate|]. intros H; inversion H; subst; clear H.
  simpl. intros B. apply qzerob_false in Z. rewrite vdot_vdivs by exact Z. rewrite B. field. intros E. apply Z. rewrite E. ring.
Qed.

(* formula rows as the reaction's basis sees them: per mass on a weight basis *)
Definition row_weights (wtb : bool) (w F : vec) : vec := if wtb then map2 Qdiv F w else F.

Lemma cab_apply_balanced_phaseless solver n formula mws r consts r' :
  solver_contract solver -> NoDup (cab_consts n r consts) ->
  phases r = [] -> length (st r) = n -> length mws = n -> Forall (fun x => ~ x == 0) mws ->
  cab_apply solver n formula mws r consts = Ok r' ->
  Forall (fun F => balanced (row_weights (wt r) mws F) r') formula.
Proof.
  intros SC ND Ph Ls Lw NZ. unfold cab_apply.
  destruct (cab_solve solver n formula mws r consts) as [v|e] eqn:S; simpl; [|discriminate].
  destruct (cab_solve_balanced _ _ _ _ _ _ _ SC ND S) as (Lv & Bv).
  rewrite Ph. simpl negb. intros R.
  assert (Lv' : length v = n).
  { rewrite Lv. unfold cab_by_mol. rewrite Ph. destruct (wt r); [rewrite map2_length; lia | lia]. }
  apply Forall_forall. intros F HF. rewrite Forall_forall in Bv. specialize (Bv F HF).
  apply (rescale_balanced _ _ _ R). unfold balanced. simpl st.
  set (v' := if wt r then vmul v mws else v) in *.
  assert (Lv'' : length v' = n).
  { unfold v'. destruct (wt r); auto. rewrite vmul_length; lia. }
  assert (E : vdot (row_weights (wt r) mws F) (cab_fill n false v' (st r) 0)
              == vdot (row_weights (wt r) mws F) v').
  { apply vdot_ext_r; [rewrite cab_fill_length; lia|].
    intros i. destruct (Nat.lt_ge_cases i n) as [Lt|Ge].
    - rewrite cab_fill_nth by lia. simpl andb. cbv iota. simpl plus. rewrite Nat.mod_small by lia. reflexivity.
    - rewrite !nthq_overflow; [lra | lia | rewrite cab_fill_length; lia]. }
  rewrite E. unfold row_weights, v'. destruct (wt r); auto.
  assert (D := vdot_div_mass F v mws). unfold to_mass in D. rewrite D; auto. lia.
Qed.

(* ====================================================================================== *)
(* when exactly each basis raises InfeasibleRegion *)
Lemma react_parts_err b : forall ps m e, snd (react_parts b ps m) = Some e -> e = ERuntime.
Proof.
  induction ps as [|[pb s] ps IH]; intros m e; simpl; [discriminate|].
  destruct (Bool.eqb pb b); [apply IH|]. simpl. congruence.
Qed.

Lemma react_obj_err o m e : snd (react_obj o m) = Some e -> e = ERuntime.
Proof. destruct o as [b s|b ps]; simpl; [discriminate|apply react_parts_err]. Qed.

Lemma process_raises_iff o v :
  fst (process o v) = Some EInfeasible <->
  snd (react_obj o v) = None /\ neg_sum (fst (react_obj o v)) < - eps.
Proof.
  unfold process. destruct (react_obj o v) as [v1 [e|]] eqn:R; simpl.
  - assert (E : e = ERuntime) by (apply (react_obj_err o v); rewrite R; reflexivity). subst e.
    split; [discriminate|]. intros (H & _); discriminate.
  - destruct (qltb (neg_sum v1) (- eps)) eqn:Q; simpl.
    + apply qltb_true in Q. split; auto.
    + apply qltb_false in Q. split; [discriminate|]. intros (_ & H). lra.
Qed.

Lemma process_returns_iff o v :
  fst (process o v) = None <->
  snd (react_obj o v) = None /\ - eps <= neg_sum (fst (react_obj o v)).
Proof.
  unfold process. destruct (react_obj o v) as [v1 [e|]] eqn:R; simpl.
  - split; [discriminate|]. intros (H & _); discriminate.
  - destruct (qltb (neg_sum v1) (- eps)) eqn:Q; simpl.
    + apply qltb_true in Q. split; [discriminate|]. intros (_ & H). lra.
    + apply qltb_false in Q. split; auto.
Qed.

Lemma call_stream_fst w o mol : fst (call_stream w o mol) = fst (process o (buffer o w mol)).
Proof.
  unfold call_stream, buffer, via_mass. destruct (obasis o); auto.
  destruct (process o (to_mass w mol)) as [[e|] v]; reflexivity.
Qed.

Lemma stream_raises_iff w o mol :
  fst (call_stream w o mol) = Some EInfeasible <->
  snd (react_obj o (buffer o w mol)) = None /\ neg_sum (fst (react_obj o (buffer o w mol))) < - eps.
Proof. rewrite call_stream_fst. apply process_raises_iff. Qed.

Lemma stream_returns_iff w o mol :
  fst (call_stream w o mol) = None <->
  snd (react_obj o (buffer o w mol)) = None /\ - eps <= neg_sum (fst (react_obj o (buffer o w mol))).
Proof. rewrite call_stream_fst. apply process_returns_iff. Qed.

(* the negatives of the mass buffer are the molar negatives weighted by the molecular weights *)
Definition wneg_sum (w v : vec) : Q := qsum (map2 (fun wi x => wi * Qmin x 0) w v).

Lemma wneg_sum_cons a w x v : wneg_sum (a :: w) (x :: v) = a * Qmin x 0 + wneg_sum w v.
Proof. reflexivity. Qed.

Lemma qmin_scale a x : 0 <= a -> Qmin (a * x) 0 == a * Qmin x 0.
Proof.
  intros Ha. destruct (Qlt_le_dec x 0) as [Lt|Ge].
  - rewrite (Q.min_l x 0) by lra. rewrite Q.min_l; [reflexivity|nra].
  - rewrite (Q.min_r x 0) by lra. rewrite Q.min_r; [ring|nra].
Qed.

Lemma neg_sum_scaled : forall v1 v2 w, length v2 = length v1 -> length w = length v1 ->
  (forall i, nthq v2 i == nthq w i * nthq v1 i) -> (forall i, 0 <= nthq w i) ->
  neg_sum v2 == wneg_sum w v1.
Proof.
  induction v1 as [|x v1 IH]; intros v2 w L2 Lw Hs Pw.
  - destruct v2; [|discriminate]. destruct w; [|discriminate]. reflexivity.
  - destruct v2 as [|y v2]; [discriminate|]. destruct w as [|a w]; [discriminate|].
    simpl in L2, Lw. rewrite neg_sum_cons, wneg_sum_cons.
    assert (I : neg_sum v2 == wneg_sum w v1).
    { apply IH; try lia; intros i; [exact (Hs (S i)) | exact (Pw (S i))]. }
    assert (S0 := Hs O). assert (P0 := Pw O). unfold nthq in S0, P0. simpl in S0, P0.
    rewrite I, S0, qmin_scale by exact P0. reflexivity.
Qed.

Lemma wneg_sum_bounds lo hi : forall w v, length w = length v ->
  Forall (fun x => lo <= x /\ x <= hi) w -> 0 <= lo ->
  hi * neg_sum v <= wneg_sum w v /\ wneg_sum w v <= lo * neg_sum v.
Proof.
  induction w as [|a w IH]; intros v L B Hlo.
  - destruct v; [|discriminate]. unfold wneg_sum, neg_sum. simpl. lra.
  - destruct v as [|x v]; [discriminate|]. simpl in L. inversion B as [|? ? (A1 & A2) B']; subst.
    rewrite neg_sum_cons, wneg_sum_cons.
    destruct (IH v) as (I1 & I2); auto.
    assert (M : Qmin x 0 <= 0) by apply Q.le_min_r. split; nra.
Qed.

Lemma threshold_lemma w o o' mol :
  obj_wt_of w o o' -> length w = length mol -> Forall (fun x => 0 < x) w ->
  Forall (wf (length mol)) (obj_members o) ->
  let v := fst (react_obj o mol) in
  snd (react_obj o' (to_mass w mol)) = snd (react_obj o mol) /\
  (fst (call_stream w o mol) = Some EInfeasible <-> snd (react_obj o mol) = None /\ neg_sum v < - eps) /\
  (fst (call_stream w o' mol) = Some EInfeasible <-> snd (react_obj o mol) = None /\ wneg_sum w v < - eps) /\
  (forall lo hi, Forall (fun x => lo <= x /\ x <= hi) w -> 0 <= lo ->
     hi * neg_sum v <= wneg_sum w v /\ wneg_sum w v <= lo * neg_sum v).
Proof.
  intros H L Pw W v.
  assert (O1 : obasis o = false) by (destruct H; reflexivity).
  assert (O2 : obasis o' = true) by (destruct H; reflexivity).
  assert (Sc := obj_scaled w o o' mol (to_mass w mol) H (to_mass_scaled w mol L) W).
  destruct Sc as (Ls & Sv).
  assert (Lv : length v = length mol).
  { destruct (react_obj_conserves o mol [] W) as (Lv & _); auto.
    apply Forall_forall. intros r _. unfold balanced. rewrite vdot_nil_l. lra. }
  assert (NS : neg_sum (fst (react_obj o' (to_mass w mol))) == wneg_sum w v).
  { apply neg_sum_scaled; auto; try lia. apply forall_pos_nthq; auto. }
  assert (SE : snd (react_obj o' (to_mass w mol)) = snd (react_obj o mol)).
  { destruct H as [s s' Hs|ps ps' Hps]; simpl; auto.
    clear - Hps. generalize mol (to_mass w mol). induction Hps as [|[b s] [b' s'] ps ps' (Hb & Hb' & _) _ IH]; intros m1 m2; simpl; auto.
    simpl in Hb, Hb'. subst. simpl. apply IH. }
  split; auto. split; [|split].
  - rewrite stream_raises_iff. unfold buffer. rewrite O1. reflexivity.
  - rewrite stream_raises_iff. unfold buffer. rewrite O2, SE, NS. reflexivity.
  - intros lo hi B Hlo. apply wneg_sum_bounds; auto. lia.
Qed.

(* ====================================================================================== *)
(* full state after a call on another package *)
Lemma remap_from_st_spec : forall tbl d acc,
  match remap_from tbl d acc with
  | Ok r => remap_from_st tbl d acc = (r, false)
  | Err e => e = EKey /\ snd (remap_from_st tbl d acc) = true
  end.
Proof.
  induction tbl as [|t tbl IH]; intros d acc; simpl; auto.
  destruct d as [|x d]; simpl; auto.
  destruct (qzerob x); [apply IH|]. destruct t as [i|]; [apply IH|]. simpl. auto.
Qed.

Lemma other_full_refines w o nA fwd bwd mol :
  fst (fst (call_other_full w o nA fwd bwd mol)) = fst (call_other w o nA fwd bwd mol) /\
  (fst (call_other w o nA fwd bwd mol) = None ->
   call_other_full w o nA fwd bwd mol = (None, snd (call_other w o nA fwd bwd mol), false)).
Proof.
  unfold call_other_full, call_other, remap.
  assert (F := remap_from_st_spec fwd mol (vzero nA)).
  destruct (remap_from fwd mol (vzero nA)) as [a|e].
  - rewrite F. destruct (call_stream w o a) as [[e|] a'] eqn:C; simpl; [split; [auto|discriminate]|].
    assert (B := remap_from_st_spec bwd a' (vzero (length mol))).
    destruct (remap_from bwd a' (vzero (length mol))) as [b|e].
    + rewrite B. simpl. auto.
    + destruct B as (-> & B). destruct (remap_from_st bwd a' (vzero (length mol))) as [b f]. simpl in B. subst f.
      simpl. split; [auto|discriminate].
  - destruct F as (-> & F). destruct (remap_from_st fwd mol (vzero nA)) as [a f]. simpl in F. subst f.
    simpl. split; [auto|discriminate].
Qed.

(* an exception raised by the reaction itself (InfeasibleRegion, RuntimeError of a mixed system) leaves the stream
   holding data laid out on the REACTION's package: untouched remapped flows on a weight basis, the reacted
   (partly reacted) buffer on a molar basis; every functional annihilated by the members reads the same on it *)
Lemma other_full_exception w o nA fwd bwd mol e d lay aA aB :
  NoDup (targets fwd) -> (forall i, In i (targets fwd) -> (i < nA)%nat) ->
  length fwd = length mol -> length aB = length mol -> length aA = nA ->
  (forall j i, nth j fwd (Some O) = Some i -> (j < length fwd)%nat -> nthq aA i == nthq aB j) ->
  Forall (wf nA) (obj_members o) -> Forall (balanced aA) (obj_members o) ->
  call_other_full w o nA fwd bwd mol = (Some e, d, lay) -> e <> EKey ->
  lay = true /\ length d = nA /\ vdot aA d == vdot aB mol /\
  exists a, remap nA fwd mol = Ok a /\
    d = (if obasis o then a else fst (react_obj o a)).
Proof.
  intros NDf Bf Lf LaB LaA Cf W B. unfold call_other_full.
  assert (F := remap_from_st_spec fwd mol (vzero nA)). fold (remap nA fwd mol) in F.
  destruct (remap nA fwd mol) as [a|e0] eqn:Rf.
  2:{ destruct F as (-> & F). destruct (remap_from_st fwd mol (vzero nA)) as [a f]. simpl in F. subst f.
      intros H; inversion H; subst. congruence. }
  rewrite F.
  destruct (remap_dot aA nA fwd mol a NDf Bf Rf) as (La & Da).
  assert (Base : vdot aA a == vdot aB mol).
  { rewrite Da. apply vdot_agree; [unfold wmap; rewrite map_length; congruence|].
    intros j Nz. rewrite nthq_wmap.
    destruct (Nat.lt_ge_cases j (length fwd)) as [Lt|Ge].
    + rewrite (nth_error_nth_some fwd j (Some O) Lt).
      destruct (nth j fwd (Some O)) as [i|] eqn:E.
      * apply (Cf j i E Lt).
      * exfalso. apply Nz. unfold remap in Rf. exact (remap_from_none _ _ _ _ Rf j E).
    + exfalso. apply Nz. unfold nthq. rewrite nth_overflow; [lra|lia]. }
  destruct (call_stream w o a) as [[e1|] a'] eqn:C.
  - intros H; inversion H; subst; clear H. intros _. split; auto.
    unfold call_stream, via_mass in C. destruct (obasis o) eqn:Ob.
    + assert (Ed : d = a) by (destruct (process o (to_mass w a)) as [[e2|] v2]; inversion C; auto).
      subst d. split; [exact La|]. split; [exact Base|]. exists a. auto.
    + unfold process in C. rewrite <- La in W.
      destruct (react_obj_conserves o a aA W B) as (Lr & Dr).
      assert (Ed : d = fst (react_obj o a)).
      { destruct (react_obj o a) as [v1 [e2|]] eqn:R; simpl in *; [inversion C; auto|].
        destruct (qltb (neg_sum v1) (- eps)); inversion C; auto. }
      subst d. split; [lia|]. split; [rewrite Dr; exact Base|]. exists a. auto.
  - destruct (remap_from_st bwd a' (vzero (length mol))) as [b [|]]; intros H; inversion H; subst. congruence.
Qed.

(* ====================================================================================== *)
(* force_reaction *)
Lemma remove_negligible_nonneg lg v : nonneg v -> remove_negligible lg v = v.
Proof.
  intros Nn. unfold remove_negligible.
  assert (E : neg_vals v = []).
  { unfold neg_vals. assert (H : forall i, 0 <= nthq v i) by exact Nn. clear Nn.
    induction v as [|x v IH]; auto. simpl.
    assert (H0 := H O). unfold nthq in H0; simpl in H0.
    destruct (qltb x 0) eqn:Q; [apply qltb_true in Q; lra|]. apply IH. intros i. exact (H (S i)). }
  rewrite E. reflexivity.
Qed.

Lemma force_feasible lg o v : snd (react_obj o v) = None -> nonneg (fst (react_obj o v)) ->
  force_process lg o v = (None, fst (react_obj o v)) /\ process o v = (None, fst (react_obj o v)).
Proof.
  intros S Nn. unfold force_process, process. destruct (react_obj o v) as [v1 e]. simpl in *. subst e.
  rewrite (remove_negligible_nonneg lg v1 Nn). split; auto.
  assert (Z : neg_sum v1 == 0).
  { unfold neg_sum. assert (H : forall i, 0 <= nthq v1 i) by exact Nn. clear Nn. induction v1 as [|x v1 IH]; simpl; [lra|].
    assert (H0 := H O). unfold nthq in H0; simpl in H0. rewrite Q.min_r by lra.
    rewrite IH; [lra|]. intros i. exact (H (S i)). }
  destruct (qltb (neg_sum v1) (- eps)) eqn:Q.
  - apply qltb_true in Q. destruct eps_value as (_ & E). lra.
  - rewrite (clampv_id v1 Nn). reflexivity.
Qed.

(* the repaired clean-up: the length is kept, every entry is either left as it is or was negative and is now 0, and an
   entry set to 0 by the main branch was negligible: above -tiny * sum|v| *)
Lemma zero_negl_spec total v : length (zero_negl total v) = length v /\
  forall i, nthq (zero_negl total v) i = nthq v i \/
            (nthq v i < 0 /\ - tiny < nthq v i / total /\ nthq (zero_negl total v) i = 0).
Proof.
  unfold zero_negl. split; [apply map_length|].
  induction v as [|x v IH]; intros i; [left; destruct i; reflexivity|].
  destruct i as [|i]; [|simpl map; rewrite !nthq_cons_S; apply IH].
  unfold nthq. simpl.
  destruct (qltb x 0) eqn:A; simpl; [|left; reflexivity].
  destruct (qltb (- tiny) (x / total)) eqn:B; [|left; reflexivity].
  right. apply qltb_true in A. apply qltb_true in B. auto.
Qed.

Lemma remove_negligible_repaired v : length (remove_negligible false v) = length v /\
  forall i, nthq (remove_negligible false v) i = nthq v i \/
            (nthq v i < 0 /\ nthq (remove_negligible false v) i = 0).
Proof.
  unfold remove_negligible. destruct (neg_vals v) as [|n0 negs]; [split; auto|].
  destruct (qltb tiny (abs_sum v)).
  - destruct (zero_negl_spec (abs_sum v) v) as (L & H). split; auto.
    intros i. destruct (H i) as [E|(A & _ & C)]; auto.
  - split; [apply clampv_length|]. intros i. rewrite nthq_clampv.
    destruct (qltb (nthq v i) 0) eqn:A; auto. apply qltb_true in A. auto.
Qed.

(* hence a functional with non-negative weights (mass, atoms of one element) can only grow, by at most the weighted
   negatives that were removed; nothing else changes *)
Lemma repaired_dot_bound : forall (a v v' : vec), length v' = length v ->
  (forall i, 0 <= nthq a i) ->
  (forall i, nthq v' i = nthq v i \/ (nthq v i < 0 /\ nthq v' i = 0)) ->
  0 <= vdot a v' - vdot a v /\ vdot a v' - vdot a v <= - wneg_sum a v.
Proof.
  induction a as [|x a IH]; intros v v' L Pa H.
  - rewrite !vdot_nil_l. unfold wneg_sum. simpl. lra.
  - destruct v as [|y v]; destruct v' as [|y' v']; simpl in L; try discriminate.
    + rewrite !vdot_nil_r. unfold wneg_sum. simpl. lra.
    + rewrite !vdot_cons, wneg_sum_cons.
      destruct (IH v v') as (I1 & I2); [lia | intros i; exact (Pa (S i)) | intros i; exact (H (S i)) |].
      assert (P0 := Pa O). assert (H0 := H O). unfold nthq in P0, H0. simpl in P0, H0.
      destruct H0 as [E|(A & E)]; rewrite E.
      * assert (M : Qmin y 0 <= 0) by apply Q.le_min_r. split; nra.
      * rewrite (Q.min_l y 0) by lra. split; nra.
Qed.

Lemma force_repaired_lemma o v v' a : Forall (wf (length v)) (obj_members o) -> Forall (balanced a) (obj_members o) ->
  (forall i, 0 <= nthq a i) ->
  force_process false o v = (None, v') ->
  let v1 := fst (react_obj o v) in
  length v' = length v /\
  (forall i, nthq v' i = nthq v1 i \/ (nthq v1 i < 0 /\ nthq v' i = 0)) /\
  0 <= vdot a v' - vdot a v /\ vdot a v' - vdot a v <= - wneg_sum a v1.
Proof.
  intros W B Pa. unfold force_process.
  destruct (react_obj_conserves o v a W B) as (Lr & Dr).
  destruct (react_obj o v) as [v1 [e|]]; simpl in *; [discriminate|].
  intros H; inversion H; subst v'; clear H.
  destruct (remove_negligible_repaired v1) as (L & P).
  split; [lia|]. split; auto.
  destruct (repaired_dot_bound a v1 (remove_negligible false v1) L Pa P) as (B1 & B2).
  rewrite <- Dr. split; lra.
Qed.

(* ====================================================================================== *)
(* conversion *)
Lemma conv_parallel_spec feed : forall rs acc m, length acc = length m -> Forall (wf (length m)) rs ->
  length (conv_parallel_from feed rs acc) = length m /\
  forall i, nthq (react_parallel_from feed rs m) i - nthq m i == nthq (conv_parallel_from feed rs acc) i - nthq acc i.
Proof.
  induction rs as [|r rs IH]; intros acc m L W; simpl.
  - split; auto. intros; lra.
  - inversion W as [|? ? Wr Wrs]; subst. unfold wf in Wr.
    destruct (IH (vadd acc (vscale (nthq feed (ridx r) * X r) (st r))) (vadd m (vscale (nthq feed (ridx r) * X r) (st r)))) as (L' & D').
    + rewrite !vadd_length; rewrite ?vscale_length; lia.
    + rewrite vadd_length by (rewrite vscale_length; lia). exact Wrs.
    + rewrite vadd_length in L' by (rewrite vscale_length; lia). split; auto.
      intros i. specialize (D' i). rewrite !nthq_vadd in D' by (rewrite vscale_length; lia). lra.
Qed.

Lemma conv_obj_spec o m c : Forall (wf (length m)) (obj_members o) -> conv_obj o m = Ok c ->
  length c = length m /\ forall i, nthq c i == nthq (fst (react_obj o m)) i - nthq m i.
Proof.
  intros W. destruct o as [b s|b ps]; simpl.
  - intros H; inversion H; subst; clear H. destruct s as [r|rs|rs]; simpl in *.
    + inversion W as [|? ? Wr _]; subst. unfold wf in Wr. unfold conv_single, react.
      split; [rewrite vscale_length; auto|]. intros i. rewrite nthq_vadd by (rewrite vscale_length; lia). lra.
    + unfold react_parallel. destruct (conv_parallel_spec m rs (vscale 0 m) m) as (L & D); auto.
      { apply vscale_length. }
      split; auto. intros i. specialize (D i). rewrite nthq_vscale in D. lra.
    + destruct (series_spec rs m W) as (L & _). fold (react_series rs m) in L.
      split; [unfold vsub; rewrite map2_length; lia|]. intros i. rewrite nthq_vsub by lia. lra.
  - destruct (parts_spec b ps m W) as (L & _).
    destruct (react_parts b ps m) as [f [e|]]; simpl in *; [discriminate|].
    intros H; inversion H; subst; clear H.
    split; [unfold vsub; rewrite map2_length; lia|]. intros i. rewrite nthq_vsub by lia. lra.
Qed.

Lemma vdot_sub_pointwise : forall (a c u v : vec), length c = length v -> length u = length v ->
  (forall i, nthq c i == nthq u i - nthq v i) -> vdot a c == vdot a u - vdot a v.
Proof.
  induction a as [|x a IH]; intros c u v Lc Lu H; [rewrite !vdot_nil_l; lra|].
  destruct c as [|c0 c]; destruct u as [|u0 u]; destruct v as [|v0 v]; simpl in *; try discriminate;
    [rewrite !vdot_nil_r; lra|].
  rewrite !vdot_cons. rewrite (IH c u v) by (try lia; intros i; exact (H (S i))).
  assert (H0 := H O). unfold nthq in H0; simpl in H0. rewrite H0. ring.
Qed.

Lemma conversion_balanced o m c a : Forall (wf (length m)) (obj_members o) -> Forall (balanced a) (obj_members o) ->
  conv_obj o m = Ok c -> vdot a c == 0.
Proof.
  intros W B C. destruct (conv_obj_spec o m c W C) as (L & D).
  destruct (react_obj_conserves o m a W B) as (Lr & Dr).
  rewrite (vdot_sub_pointwise a c (fst (react_obj o m)) m L Lr D). lra.
Qed.
